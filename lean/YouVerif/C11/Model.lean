/-
C11 — executable model of the chain database and of block import in /repo/core (blockchain.go, headerchain.go,
block_validator.go, rawdb/accessors_chain.go, rawdb/accessors_indexes.go) as the code stands after the three
`fix:` commits of this property (atomic canonical-index switch, side-chain re-write of header-less bodies,
number-checked cache hits).  Core Lean only.

Abstractions
* a block is identified with its hash (`Nat`); `World.blk` maps the identity to the header/body content that matters
  (parent hash, number, claimed state root, transaction ids, verdicts of the pure checks).  Hash collisions are thereby
  excluded by construction (trusted: Keccak collision freedom).
* `txRootOK`  = `DeriveSha(body) = header.TxHash`;  `execOK` = Process + ValidateState succeed when run on the state
  the parent header claims;  `tclass`/`older` = the timestamp verdicts of the header-checking engine.
* state availability is per claimed root (`DB.st`); the three trie commits of one block are one write `Wr.state`
  (the root node is written last; a crash inside the run leaves the root unavailable).
* the persistent key space: body, hash->number, header, canonical hash per number, head block hash, head header hash,
  tx lookup entries.  A primitive write is one Put or one atomic batch (`Wr.batch`).
-/
namespace YouVerif.C11

structure Blk where
  parent : Nat
  num : Nat
  root : Nat
  txs : List Nat
  txRootOK : Bool
  execOK : Bool
  tclass : Nat      -- 0 fine, 1 near future (queued by insertChain), 2 far future (insertChain returns an error)
  older : Bool      -- timestamp not after the parent's
deriving Repr

/-- content of an identity nobody defined: never linked to anything -/
def Blk.unknown : Blk := { parent := 0, num := 1000000000, root := 1000000000, txs := [], txRootOK := false, execOK := false, tclass := 0, older := false }

instance : Inhabited Blk := ⟨Blk.unknown⟩

structure World where
  blk : Nat → Blk
  strict : Bool     -- false: solo engine (no header verdicts); true: header-checking ucon stand-in (+ side-chain verification)

/-- genesis is identity 0 -/
def genesisId : Nat := 0

structure DB where
  body : Nat → Bool
  hnum : Nat → Bool
  hdr : Nat → Bool
  st : Nat → Bool
  canon : Nat → Option Nat
  headBlk : Option Nat
  headHdr : Option Nat
  look : Nat → Option (Nat × Nat × Nat)

/-- operations inside an atomic batch -/
inductive BOp where
  | rcpt (id : Nat)
  | canon (n id : Nat)
  | look (tx id n i : Nat)
  | del (tx : Nat)
  | headHdr (id : Nat)
  | headBlk (id : Nat)
deriving Repr, DecidableEq

/-- primitive writes -/
inductive Wr where
  | body (id : Nat)
  | hnum (id : Nat)
  | hdr (id : Nat)
  | state (root : Nat)
  | headHdr (id : Nat)
  | batch (ops : List BOp)
deriving Repr, DecidableEq

def upd {β : Type} (f : Nat → β) (k : Nat) (v : β) : Nat → β := fun x => if x = k then v else f x

def DB.applyOp (db : DB) : BOp → DB
  | .rcpt _ => db
  | .canon n id => { db with canon := upd db.canon n (some id) }
  | .look tx id n i => { db with look := upd db.look tx (some (id, n, i)) }
  | .del tx => { db with look := upd db.look tx none }
  | .headHdr id => { db with headHdr := some id }
  | .headBlk id => { db with headBlk := some id }

def DB.applyOps (db : DB) (ops : List BOp) : DB := ops.foldl DB.applyOp db

def DB.apply (db : DB) : Wr → DB
  | .body id => { db with body := upd db.body id true }
  | .hnum id => { db with hnum := upd db.hnum id true }
  | .hdr id => { db with hdr := upd db.hdr id true }
  | .state r => { db with st := upd db.st r true }
  | .headHdr id => { db with headHdr := some id }
  | .batch ops => db.applyOps ops

def DB.applyAll (db : DB) (ws : List Wr) : DB := ws.foldl DB.apply db

/-- the database right after `Genesis.Commit` -/
def DB.genesis (W : World) : DB :=
  { body := fun x => x == genesisId, hnum := fun x => x == genesisId, hdr := fun x => x == genesisId,
    st := fun r => r == (W.blk genesisId).root, canon := fun n => if n = 0 then some genesisId else none,
    headBlk := some genesisId, headHdr := some genesisId, look := fun _ => none }

-- ---- reads (rawdb accessors as used by BlockChain / HeaderChain; keys carry the number) ----------------------------

def hasBody (W : World) (db : DB) (id n : Nat) : Bool := db.body id && (W.blk id).num == n
def hasHeader (W : World) (db : DB) (id n : Nat) : Bool := db.hdr id && (W.blk id).num == n
/-- GetBlock(hash, number): header and body under the numbered keys -/
def getBlock (W : World) (db : DB) (id n : Nat) : Bool := hasHeader W db id n && hasBody W db id n
/-- GetBlockByHash: hash->number entry, then GetBlock -/
def getBlockByHash (W : World) (db : DB) (id : Nat) : Bool := db.hnum id && getBlock W db id (W.blk id).num
def hasBlockAndState (W : World) (db : DB) (id n : Nat) : Bool := getBlock W db id n && db.st (W.blk id).root
/-- GetHeaderByNumber -/
def canonHdr (W : World) (db : DB) (n : Nat) : Option Nat :=
  match db.canon n with
  | some h => if hasHeader W db h n then some h else none
  | none => none
/-- GetBlockByNumber -/
def canonBlk (W : World) (db : DB) (n : Nat) : Option Nat :=
  match db.canon n with
  | some h => if getBlock W db h n then some h else none
  | none => none

/-- VersionForRound(n): needs the canonical header 8 rounds back (or the genesis) -/
def versionOK (W : World) (db : DB) (n : Nat) : Bool := (canonHdr W db (if n > 8 then n - 8 else 0)).isSome

-- ---- the running node ------------------------------------------------------------------------------------------

structure Node where
  db : DB
  cur : Nat            -- BlockChain.currentBlock (= hc.currentHeader)
  fut : List Nat       -- futureBlocks cache

/-- result of a (sub)run: new node, primitive writes in order, error flag -/
structure Res where
  nd : Node
  ws : List Wr
  ok : Bool

def Node.write (nd : Node) (ws : List Wr) : Node := { nd with db := nd.db.applyAll ws }

-- ---- reorg -------------------------------------------------------------------------------------------------------

/-- walk `x` down (by parent hash / number-1 lookups) until its number is `n`; collects the visited identities (newest first).
    none = a block is missing ("Invalid chain") -/
def walkDown (W : World) (db : DB) : Nat → Nat → Nat → Option (List Nat × Nat)
  | 0, x, n => if (W.blk x).num = n then some ([], x) else none
  | fuel + 1, x, n =>
    if (W.blk x).num = n then some ([], x)
    else
      let p := (W.blk x).parent
      if (W.blk x).num ≠ 0 && getBlock W db p ((W.blk x).num - 1) then
        match walkDown W db fuel p n with
        | some (l, y) => some (x :: l, y)
        | none => none
      else none

/-- both at the same height: step both down until they meet -/
def meet (W : World) (db : DB) : Nat → Nat → Nat → Option (List Nat × List Nat)
  | 0, o, n => if o = n then some ([], []) else none
  | fuel + 1, o, n =>
    if o = n then some ([], [])
    else
      let po := (W.blk o).parent
      let pn := (W.blk n).parent
      -- number 0 - 1 wraps around in Go: the lookup fails
      if (W.blk o).num = 0 then none
      else if getBlock W db po ((W.blk o).num - 1) && getBlock W db pn ((W.blk n).num - 1) then
        match meet W db fuel po pn with
        | some (lo, ln) => some (o :: lo, n :: ln)
        | none => none
      else none

/-- reorg(old, new): (oldChain, newChain), both newest first; none = error return -/
def reorgChains (W : World) (db : DB) (old new : Nat) : Option (List Nat × List Nat) :=
  let no := (W.blk old).num
  let nn := (W.blk new).num
  if no > nn then
    match walkDown W db no old nn with
    | some (lo, o') =>
      match meet W db (nn + 1) o' new with
      | some (lo2, ln) => some (lo ++ lo2, ln)
      | none => none
    | none => none
  else
    match walkDown W db nn new no with
    | some (ln, n') =>
      match meet W db (no + 1) old n' with
      | some (lo, ln2) => some (lo, ln ++ ln2)
      | none => none
    | none => none

def lookOps (W : World) (id : Nat) : List BOp :=
  let b := W.blk id
  (List.range b.txs.length).filterMap fun i =>
    match b.txs[i]? with
    | some tx => some (BOp.look tx id b.num i)
    | none => none

def headOps (W : World) (id : Nat) : List BOp := [BOp.headHdr id, BOp.canon (W.blk id).num id, BOp.headBlk id]

def txsOf (W : World) (ids : List Nat) : List Nat := ids.flatMap fun id => (W.blk id).txs

/-- the index part of a reorg, staged into the caller's batch: per new-chain block (oldest first) head markers and
    lookups, then the deletions of the lookups of transactions only the old chain had -/
def reorgOps (W : World) (oldChain newChain : List Nat) : List BOp :=
  let added := txsOf W newChain
  let deleted := txsOf W oldChain
  (newChain.reverse.flatMap fun id => headOps W id ++ lookOps W id)
    ++ ((deleted.filter fun t => !added.contains t).map BOp.del)

-- ---- WriteBlockWithState / WriteBlockWithoutState ------------------------------------------------------------------

def blockWrites (id : Nat) : List Wr := [Wr.body id, Wr.hnum id, Wr.hdr id]

/-- WriteBlockWithState (the block has been validated and executed by the caller) -/
def writeBlockWithState (W : World) (nd : Node) (id : Nat) : Res :=
  let b := W.blk id
  let pre := blockWrites id ++ [Wr.state b.root]
  let nd1 := nd.write pre
  let rc : List BOp := if b.txs.isEmpty then [] else [BOp.rcpt id]
  if b.parent = nd.cur then
    let batch := Wr.batch (rc ++ lookOps W id ++ headOps W id)
    { nd := { (nd1.write [batch]) with cur := id, fut := nd.fut.erase id }, ws := pre ++ [batch], ok := true }
  else
    match reorgChains W nd1.db nd.cur id with
    | none => { nd := nd1, ws := pre, ok := false }
    | some (oldChain, newChain) =>
      let batch := Wr.batch (rc ++ reorgOps W oldChain newChain ++ lookOps W id ++ headOps W id)
      { nd := { (nd1.write [batch]) with cur := id, fut := nd.fut.erase id }, ws := pre ++ [batch], ok := true }

-- ---- verdicts ------------------------------------------------------------------------------------------------------

inductive Verdict where
  | ok | known | future | unknownAncestor | pruned | existCanon | other
deriving DecidableEq, Repr

/-- BlockValidator.ValidateBody -/
def validateBody (W : World) (db : DB) (id : Nat) : Verdict :=
  let b := W.blk id
  if hasBlockAndState W db id b.num && canonHdr W db b.num == some id then .known
  else if b.num = 0 then .unknownAncestor         -- number - 1 wraps around: nothing is found
  else if !hasBlockAndState W db b.parent (b.num - 1) then
    if !hasBody W db b.parent (b.num - 1) then .unknownAncestor else .pruned
  else if !b.txRootOK then .other
  else .ok

/-- header verdict of the engine for chain[i] (`prev` = chain[i-1] when i > 0), computed on entry of insertChain -/
def engineVerdict (W : World) (db : DB) (first : Nat) (prev : Option Nat) (id : Nat) : Verdict :=
  if !W.strict then .ok else
  let b := W.blk id
  -- VersionForRoundWithParents: canonical header 8 back, else one of the batch's earlier headers
  let pr := if b.num > 8 then b.num - 8 else 0
  if (canonHdr W db pr).isNone && !(prev.isSome && pr ≥ (W.blk first).num) then .other
  else if b.tclass != 0 then .future
  else if b.num = 0 then .ok
  else if (match prev with
           | some _ => false      -- InsertChain checked contiguity: the previous header is the parent
           | none => !hasHeader W db b.parent (b.num - 1)) then .unknownAncestor
  else if b.older then .other
  else match canonHdr W db b.num with
    | some l => if l ≠ id then .existCanon else .ok
    | none => .ok

-- ---- insertChain / insertSidechain -----------------------------------------------------------------------------------

/-- strip the leading blocks that are canonical already -/
def stripCanon (W : World) (db : DB) : List Nat → List Nat
  | [] => []
  | id :: rest => if canonBlk W db (W.blk id).num == some id then stripCanon W db rest else id :: rest

/-- verifyAllSideChainBlocks (only for a ucon engine): parent block and state present, version look-ups, execution -/
def verifySide (W : World) (db : DB) (chain : List Nat) : Bool :=
  if !W.strict then true else
  match chain with
  | [] => true
  | c0 :: _ =>
    let b0 := W.blk c0
    -- getCaravelParams: the first protocolRoundBack (8) blocks ask the canonical chain by number, later ones take the
    -- version from the side chain's own block 8 back; execution sees the side chain's own ancestry (sideChainView)
    b0.num != 0 && getBlock W db b0.parent (b0.num - 1) && db.st (W.blk b0.parent).root
      && ((chain.take 8).all fun id => versionOK W db (W.blk id).num) && (chain.all fun id => (W.blk id).execOK)

/-- write the side-chain blocks that are not fully present -/
def sideWrites (W : World) (db : DB) : List Nat → List Wr
  | [] => []
  | id :: rest =>
    let n := (W.blk id).num
    if !hasBody W db id n || !hasHeader W db id n then
      blockWrites id ++ sideWrites W (db.applyAll (blockWrites id)) rest
    else sideWrites W db rest

/-- collect the blocks to re-import, newest first: from `id` down to (and including) the first ancestor that is
    canonical with available state.  none = "missing parent" -/
def collectBack (W : World) (db : DB) : Nat → Nat → List Nat → Option (List Nat)
  | 0, _, _ => none
  | fuel + 1, id, acc =>
    let b := W.blk id
    if canonHdr W db b.num == some id && db.st b.root then
      some (if acc.isEmpty then [] else (id :: acc))
    else if b.num = 0 then none
    else if hasHeader W db b.parent (b.num - 1) then collectBack W db fuel b.parent (id :: acc)
    else none

/-- one block of insertChain's loop after the dispatch decided to process it -/
def processBlock (W : World) (nd : Node) (prev : Option Nat) (id : Nat) : Option Res :=
  let b := W.blk id
  -- parent: chain[i-1], or GetBlock for the first block (nil: warn and continue)
  let parentOK := match prev with
    | some _ => true
    | none => b.num != 0 && getBlock W nd.db b.parent (b.num - 1)
  if !parentOK then none
  else if !versionOK W nd.db b.num then some { nd := nd, ws := [], ok := false }
  else if !nd.db.st (W.blk b.parent).root then some { nd := nd, ws := [], ok := false }
  else if !b.execOK then some { nd := nd, ws := [], ok := false }
  else some (writeBlockWithState W nd id)

/-- engine verdicts of a batch, computed on entry of insertChain -/
def verdicts (W : World) (db : DB) (first : Nat) : List Nat → Option Nat → List (Nat × Verdict)
  | [], _ => []
  | id :: rest, prev => (id, engineVerdict W db first prev id) :: verdicts W db first rest (some id)

/-- insertChain's loop. `side` = insertSidechain; `prev` = chain[i-1]; `first` = (i == 0); `acc` = writes so far -/
def insertLoop (W : World) (side : Node → List Nat → Res) : Node → List (Nat × Verdict) → Option Nat → Bool → List Wr → Res
  | nd, [], _, _, acc => { nd := nd, ws := acc, ok := true }
  | nd, (id, v) :: rest, prev, first, acc =>
    let b := W.blk id
    let v1 := if v = .ok then validateBody W nd.db id else v
    let process (nd' : Node) : Res :=
      match processBlock W nd' prev id with
      | none => insertLoop W side nd' rest (some id) false acc
      | some r => if r.ok then insertLoop W side r.nd rest (some id) false (acc ++ r.ws) else { nd := r.nd, ws := acc ++ r.ws, ok := false }
    match v1 with
    | .known => insertLoop W side nd rest (some id) false acc
    | .future =>
      if b.tclass = 2 then { nd := nd, ws := acc, ok := false }
      else insertLoop W side { nd with fut := id :: nd.fut } rest (some id) false acc
    | .unknownAncestor =>
      if nd.fut.contains b.parent then insertLoop W side { nd with fut := id :: nd.fut } rest (some id) false acc
      else { nd := nd, ws := acc, ok := false }
    | .pruned =>
      let r := side nd (id :: rest.map (·.1))
      { nd := r.nd, ws := acc ++ r.ws, ok := r.ok }
    | .existCanon =>
      if first then
        let r := side nd (id :: rest.map (·.1))
        { nd := r.nd, ws := acc ++ r.ws, ok := r.ok }
      else if validateBody W nd.db id = .ok then process nd
      else { nd := nd, ws := acc, ok := false }
    | .other => { nd := nd, ws := acc, ok := false }
    | .ok => process nd

/-- insertSidechain; `rec` = insertChain one recursion level down -/
def insertSide (W : World) (rec : Node → List Nat → Res) (nd : Node) (chain0 : List Nat) : Res :=
  let chain := stripCanon W nd.db chain0
  match chain.getLast? with
  | none => { nd := nd, ws := [], ok := true }
  | some last =>
    if !verifySide W nd.db chain then { nd := nd, ws := [], ok := false }
    else
      let ws := sideWrites W nd.db chain
      let nd1 := nd.write ws
      if (W.blk last).num ≤ (W.blk nd.cur).num then { nd := nd1, ws := ws, ok := true }
      else
        match collectBack W nd1.db ((W.blk last).num + 2) last [] with
        | none => { nd := nd1, ws := ws, ok := false }
        | some [] => { nd := nd1, ws := ws, ok := true }
        | some blocks =>
          -- GetBlock of every collected hash (a missing body would be a nil dereference in Go: modelled as error)
          if !(blocks.all fun id => getBlock W nd1.db id (W.blk id).num) then { nd := nd1, ws := ws, ok := false }
          else
            let r := rec nd1 blocks
            { nd := r.nd, ws := ws ++ r.ws, ok := r.ok }

/-- insertChain proper at a recursion level (level 0 = the model's recursion bound, never reached by the harness) -/
def insertChainV (W : World) : Nat → Node → List Nat → Res
  | 0, nd, _ => { nd := nd, ws := [], ok := false }
  | fuel + 1, nd, chain =>
    insertLoop W (insertSide W (insertChainV W fuel)) nd (verdicts W nd.db (chain.headD 0) chain none) none true []

/-- ordered and linked (InsertChain's sanity check) -/
def contiguous (W : World) : List Nat → Bool
  | a :: b :: rest => ((W.blk b).num == (W.blk a).num + 1 && (W.blk b).parent == a) && contiguous W (b :: rest)
  | _ => true

/-- BlockChain.InsertChain -/
def insertChain (W : World) (nd : Node) (chain : List Nat) : Res :=
  match chain with
  | [] => { nd := nd, ws := [], ok := true }
  | c0 :: _ =>
    if !contiguous W chain then { nd := nd, ws := [], ok := false }
    -- VerifyYouVersionState: the canonical header below the first block must exist (number 0 - 1 wraps around)
    else if (W.blk c0).num = 0 || (canonHdr W nd.db ((W.blk c0).num - 1)).isNone then { nd := nd, ws := [], ok := false }
    else insertChainV W 3 nd chain

-- ---- restart: NewBlockChain = loadLastState (+ repair, + Reset) --------------------------------------------------------

/-- repair: rewind to the first ancestor whose state is available; none = "missing block" -/
def repair (W : World) (db : DB) : Nat → Nat → Option Nat
  | 0, _ => none
  | fuel + 1, id =>
    if db.st (W.blk id).root then some id
    else if (W.blk id).num = 0 then none
    else if getBlock W db (W.blk id).parent ((W.blk id).num - 1) then repair W db fuel (W.blk id).parent
    else none

/-- NewBlockChain on a database: none = start-up error -/
def recover (W : World) (db : DB) : Option Res :=
  -- NewHeaderChain / genesisBlock: canonical block 0 must be there
  if (canonBlk W db 0).isNone then none
  else
    let reset : Option Res :=
      match canonBlk W db 0 with
      | some g =>
        let ws := blockWrites g ++ [Wr.batch (headOps W g), Wr.headHdr g]
        some { nd := { db := db.applyAll ws, cur := g, fut := [] }, ws := ws, ok := true }
      | none => none
    match db.headBlk with
    | none => reset
    | some h =>
      if !getBlockByHash W db h then reset
      else
        match repair W db ((W.blk h).num + 1) h with
        | none => none
        | some c =>
          let ws := [Wr.headHdr c]
          some { nd := { db := db.applyAll ws, cur := c, fut := [] }, ws := ws, ok := true }

end YouVerif.C11
