/-
Executable counterpart of `Consistent` for the driver (the Go oracle evaluates the same statement on the real code):
index parent-linked from genesis to the head, head state available, tx lookups sound and complete for the given
transaction universe, every canonical block valid.
-/
import YouVerif.C11.Model
namespace YouVerif.C11

/-- validity of a block under the engine, as the generator constructs it -/
def validB (W : World) (id : Nat) : Bool :=
  let b := W.blk id
  id == genesisId ||
  (b.txRootOK && b.execOK && (W.blk b.parent).num + 1 == b.num && (!W.strict || (b.tclass == 0 && !b.older)))

def indexOKB (W : World) (nd : Node) : Bool :=
  let hn := (W.blk nd.cur).num
  (List.range (hn + 1)).all fun n =>
    match canonBlk W nd.db n with
    | none => false
    | some h =>
      (n != 0 || h == genesisId) &&
      (n == 0 || nd.db.canon (n - 1) == some (W.blk h).parent) &&
      (n != hn || h == nd.cur) &&
      validB W h

def lookupsOKB (W : World) (nd : Node) (txs : List Nat) : Bool :=
  let hn := (W.blk nd.cur).num
  (txs.all fun t =>
    match nd.db.look t with
    | none => true
    | some (h, n, i) => n ≤ hn && nd.db.canon n == some h && (W.blk h).num == n && nd.db.body h && (W.blk h).txs[i]? == some t) &&
  ((List.range (hn + 1)).all fun n =>
    n == 0 ||
    match nd.db.canon n with
    | none => true
    | some h => (List.range (W.blk h).txs.length).all fun i =>
        match (W.blk h).txs[i]? with
        | some t => nd.db.look t == some (h, n, i)
        | none => true)

def consistentB (W : World) (nd : Node) (txs : List Nat) : Bool :=
  indexOKB W nd && nd.db.st (W.blk nd.cur).root && lookupsOKB W nd txs

end YouVerif.C11
