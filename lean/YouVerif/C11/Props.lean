/-
C11 — property theorems.  Vocabulary in Spec.lean, proofs in Proofs*.lean.
The model (Model.lean) is of /repo's code AFTER the three `fix:` commits of this property; the write order before the
first fix is refuted by `old_write_order_not_crash_safe`.
-/
import YouVerif.C11.Proofs9
namespace YouVerif.C11

/-- The write list the model reports for an import is exactly what changed the database: replaying it on the start
    database gives the end database, for every engine, chain and start node.  (This makes "a crash = a prefix of the
    write list" meaningful; the harness checks the list against the recorded Put/Delete/Batch.Write sequence.) -/
theorem writes_sound (W : World) (nd : Node) (chain : List Nat) :
    (insertChain W nd chain).nd.db = nd.db.applyAll (insertChain W nd chain).ws :=
  insertChain_sound W nd chain

/-- Writes that only add block data, state or the head-header marker keep a consistent chain consistent. -/
theorem data_write_consistent (W : World) (db : DB) (w : Wr) (hw : DataWrite w) (head : Nat)
    (h : Consistent W db head) : Consistent W (db.apply w) head ∧ (db.apply w).headBlk = db.headBlk :=
  ⟨consistent_apply_data W db w hw head h, (data_fields db w hw).2.2.1⟩

/-- import_inv (FULL): for every world (engine, block universe), node and offered chain - through the whole dispatch:
    known, future, unknown ancestor, pruned ancestor, exist-canonical, side chain with re-import, longest-chain rule,
    head extension and reorganisation - a node whose head heads a consistent chain (index parent-linked from genesis to
    head, head state available, tx lookups pointing into canonical blocks) and is the persisted head block is taken to
    such a node. -/
theorem import_inv (W : World) (nd : Node) (chain : List Nat) (h : NodeInv W nd) :
    NodeInv W (insertChain W nd chain).nd :=
  (insertChain_good W _ _ (stepOK_nodeInv W) nd chain h).1

/-- crash_consistent (FULL): after ANY number k of primitive writes of ANY import, the database satisfies the persistent
    invariant, restart succeeds without repair (its only write is the head-header marker), and the restarted node holds
    a consistent chain headed by the persisted head block. -/
theorem crash_consistent (W : World) (hg : (W.blk genesisId).num = 0) (nd : Node) (chain : List Nat) (h : NodeInv W nd)
    (k : Nat) :
    DBInv W (nd.db.applyAll ((insertChain W nd chain).ws.take k)) ∧
    ∃ r, recover W (nd.db.applyAll ((insertChain W nd chain).ws.take k)) = some r ∧ NodeInv W r.nd ∧
      r.ws = [Wr.headHdr r.nd.cur] := by
  have hsafe := (insertChain_good W _ _ (stepOK_nodeInv W) nd chain h).2.2 k
  refine ⟨hsafe, ?_⟩
  obtain ⟨head, hh, hc⟩ := hsafe
  obtain ⟨r, hr, e1, e2, e3, e4⟩ := recover_of_dbinv W _ hg head hh hc
  exact ⟨r, hr, by unfold NodeInv; rw [e1]; exact ⟨e3, e4⟩, by rw [e1]; exact e2⟩

/-- Every node reachable from the committed genesis by imports and by restarts after a crash at any write prefix of any
    import holds a consistent chain. -/
theorem reachable_consistent (W : World) (hg : (W.blk genesisId).num = 0) (nd : Node) (h : Reach W nd) :
    Consistent W nd.db nd.cur ∧ nd.db.headBlk = some nd.cur :=
  reach_nodeInv W hg nd h

/-- not_wedged (a single block imported on the direct path - head extension or reorganisation; `Direct` lists the facts:
    pre-check, header and body verdicts ok, version look-up, execution, successful WriteBlockWithState): after a crash at
    ANY prefix k of its write list, restart and re-import of the interrupted block give EXACTLY the persistent database and
    the head of the node that never crashed (hence the same state), and that head is the block. -/
theorem not_wedged (W : World) (hg : (W.blk genesisId).num = 0) (nd : Node) (id : Nat) (hinv : NodeInv W nd)
    (hd : Direct W nd id) (hfresh : ∀ n, nd.db.canon n ≠ some id) (k : Nat) :
    ∃ r, recover W (nd.db.applyAll ((insertChain W nd [id]).ws.take k)) = some r ∧
      (insertChain W r.nd [id]).nd.db = (insertChain W nd [id]).nd.db ∧
      (insertChain W r.nd [id]).nd.cur = (insertChain W nd [id]).nd.cur ∧
      (insertChain W nd [id]).nd.cur = id := by
  obtain ⟨r, a, b, c, d, _⟩ := not_wedged_core W nd id hg hinv hd hfresh k
  exact ⟨r, a, b, c, d⟩

/-- not_wedged, the further block: when the in-memory future-block queue was empty (always, under the solo engine) the
    crashed-and-recovered node is the SAME node as the one that never crashed, so every further import - in particular one
    further valid block - behaves identically. -/
theorem not_wedged_further (W : World) (hg : (W.blk genesisId).num = 0) (nd : Node) (id : Nat) (hinv : NodeInv W nd)
    (hd : Direct W nd id) (hfresh : ∀ n, nd.db.canon n ≠ some id) (hfut : nd.fut = []) (k : Nat) :
    ∃ r, recover W (nd.db.applyAll ((insertChain W nd [id]).ws.take k)) = some r ∧
      ∀ ch, insertChain W (insertChain W r.nd [id]).nd ch = insertChain W (insertChain W nd [id]).nd ch := by
  obtain ⟨r, a, b, c, _, e, f⟩ := not_wedged_core W nd id hg hinv hd hfresh k
  refine ⟨r, a, fun ch => ?_⟩
  rw [node_ext _ _ b c (by rw [e, f, hfut]; rfl)]

/-- invalid_never_canonical (CONDITIONAL on the open finding F-C11b): if no two block identities claim the same state
    root, then in every reachable node (imports and crash-restarts) every canonical block from 1 to the head has a correct
    transaction root, executed and state-validated successfully, and is numbered parent + 1. -/
theorem invalid_never_canonical (W : World) (hg : (W.blk genesisId).num = 0) (hinj : RootsInjective W) (nd : Node)
    (hr : Reach W nd) (n h : Nat) (hpos : 0 < n) (hle : n ≤ (W.blk nd.cur).num) (hc : nd.db.canon n = some h) :
    Valid W h := by
  obtain ⟨hinv, hk⟩ := reach_pv W hg hinj nd hr
  obtain ⟨_, hv⟩ := validChain_of_trusted W nd.db nd.cur hg hinv.1.index hk hinv.1.state
    ((W.blk nd.cur).num - n) n h (by omega) hc
  obtain ⟨⟨a, b⟩, c⟩ := hv hpos
  exact ⟨a, b, c⟩

/-- Restart on a database that satisfies the persistent invariant succeeds without repair. -/
theorem restart_on_consistent (W : World) (db : DB) (hg : (W.blk genesisId).num = 0) (head : Nat)
    (hh : db.headBlk = some head) (hc : Consistent W db head) :
    ∃ r, recover W db = some r ∧ r.nd.cur = head ∧ r.ws = [Wr.headHdr head] ∧ Consistent W r.nd.db head ∧
      r.nd.db.headBlk = some head :=
  recover_of_dbinv W db hg head hh hc

/-- crash prefixes compose -/
theorem crash_prefixes_compose (W : World) (db : DB) (a b : List Wr) (ha : SafeWrites W db a)
    (hb : SafeWrites W (db.applyAll a) b) : SafeWrites W db (a ++ b) :=
  safe_append W db a b ha hb

-- ---- the side condition of invalid_never_canonical is necessary: F-C11b on the model ----------------------------------------

/-- header-checking engine; every block is empty and claims the genesis state root; block 4 has a wrong transaction root -/
def ghostWorld : World :=
  { blk := fun id => match id with
      | 0 => { parent := 0, num := 0, root := 0, txs := [], txRootOK := true, execOK := true, tclass := 0, older := false }
      | 1 => { parent := 0, num := 1, root := 0, txs := [], txRootOK := true, execOK := true, tclass := 0, older := false }
      | 2 => { parent := 1, num := 2, root := 0, txs := [], txRootOK := true, execOK := true, tclass := 0, older := false }
      | 4 => { parent := 0, num := 1, root := 0, txs := [], txRootOK := false, execOK := true, tclass := 0, older := false }
      | 6 => { parent := 4, num := 2, root := 0, txs := [], txRootOK := true, execOK := true, tclass := 0, older := false }
      | 8 => { parent := 6, num := 3, root := 0, txs := [], txRootOK := true, execOK := true, tclass := 0, older := false }
      | _ => Blk.unknown,
    strict := true }

def ghostRun : Node :=
  let n0 : Node := { db := DB.genesis ghostWorld, cur := 0, fut := [] }
  let n1 := (insertChain ghostWorld n0 [1, 2]).nd
  let n2 := (insertChain ghostWorld n1 [4]).nd      -- stored by the side-chain path (exist canonical), never body-validated
  let n3 := (insertChain ghostWorld n2 [6]).nd      -- stored by the side-chain path
  (insertChain ghostWorld n3 [8]).nd                -- direct path: its parent 6 "has block and state"; reorg makes 4 canonical

/-- F-C11b on the model: the block with the wrong transaction root is canonical at height 1 under head 8.  Replayed on the
    real code by the harness' built-in probe (known finding, matcher ghost-state-ancestor). -/
theorem ghost_state_counterexample :
    ghostRun.cur = 8 ∧ ghostRun.db.canon 1 = some 4 ∧ (ghostWorld.blk 4).txRootOK = false ∧ ¬ RootsInjective ghostWorld := by
  refine ⟨by decide, by decide, by decide, ?_⟩
  intro h
  exact absurd (h 1 2 (by decide)) (by decide)

-- ---- the write order before the fix is not crash safe -------------------------------------------------------------------

/-- trunk 0-1-2-3, fork 4 from the genesis -/
def cexWorld : World :=
  { blk := fun id => match id with
      | 0 => { parent := 0, num := 0, root := 0, txs := [], txRootOK := true, execOK := true, tclass := 0, older := false }
      | 1 => { parent := 0, num := 1, root := 1, txs := [0], txRootOK := true, execOK := true, tclass := 0, older := false }
      | 2 => { parent := 1, num := 2, root := 2, txs := [1], txRootOK := true, execOK := true, tclass := 0, older := false }
      | 3 => { parent := 2, num := 3, root := 3, txs := [], txRootOK := true, execOK := true, tclass := 0, older := false }
      | 4 => { parent := 0, num := 1, root := 4, txs := [0, 2], txRootOK := true, execOK := true, tclass := 0, older := false }
      | _ => Blk.unknown,
    strict := false }

/-- head 3 on the trunk, block 4 stored with state: the instant before reorg's first `insert` -/
def cexBefore : DB :=
  { body := fun x => x ≤ 4, hnum := fun x => x ≤ 4, hdr := fun x => x ≤ 4, st := fun r => r ≤ 4,
    canon := fun n => if n ≤ 3 then some n else none, headBlk := some 3, headHdr := some 3,
    look := fun t => if t = 0 then some (1, 1, 0) else if t = 1 then some (2, 2, 0) else none }

/-- The pre-fix `insert` issued three separate Puts (head header, canonical hash, head block).  After the first two
    (a Put is a one-operation batch) the persisted head is still 3 but canonical block 1 is the fork block 4:
    no head makes this database consistent.  Replayed on the pre-fix code by corpus/C11/reorg-crash-index.replay. -/
theorem old_write_order_not_crash_safe :
    ¬ DBInv cexWorld (cexBefore.applyAll [Wr.batch [BOp.headHdr 4], Wr.batch [BOp.canon 1 4]]) := by
  rintro ⟨head, hh, hc⟩
  have h3 : head = 3 := by
    simp [DB.applyAll, DB.apply, DB.applyOps, DB.applyOp, cexBefore] at hh
    exact hh.symm
  subst h3
  obtain ⟨x, h1, _, _, h4⟩ := hc.index.chain 2 (by simp [cexWorld])
  have hx : x = 2 := by
    simp [DB.applyAll, DB.apply, DB.applyOps, DB.applyOp, cexBefore, upd] at h1
    exact h1.symm
  subst hx
  have := h4 (by decide)
  simp [DB.applyAll, DB.apply, DB.applyOps, DB.applyOp, cexBefore, upd, cexWorld] at this

-- ---- non-vacuity ---------------------------------------------------------------------------------------------------------

/-- the committed genesis database satisfies the node invariant (hypothesis of import_inv / crash_consistent / not_wedged) -/
theorem genesis_consistent (W : World) (hg : (W.blk genesisId).num = 0) :
    NodeInv W { db := DB.genesis W, cur := genesisId, fut := [] } :=
  genesis_consistent' W hg

def cexGenesis : Node := { db := DB.genesis cexWorld, cur := 0, fut := [] }
def cexTrunk : Node := (insertChain cexWorld cexGenesis [1, 2, 3]).nd

/-- tests on literals: `Direct` holds for a head extension (block 1 on the genesis) and for a reorganisation (fork block 4
    offered to the node whose head is 3), block 4 is fresh there, and the roots of `cexWorld`'s defined blocks are distinct -/
example : Direct cexWorld cexGenesis 1 := ⟨by decide, by decide, by decide, by decide, by decide, by decide, by decide⟩
example : Direct cexWorld cexTrunk 4 := ⟨by decide, by decide, by decide, by decide, by decide, by decide, by decide⟩
example : cexTrunk.cur = 3 ∧ (cexWorld.blk 4).parent ≠ cexTrunk.cur ∧ (insertChain cexWorld cexTrunk [4]).nd.cur = 4 := by decide
example : ∀ n, n ≤ 5 → cexTrunk.db.canon n ≠ some 4 := by decide

end YouVerif.C11
