/-
C11 — property theorems (proofs of the helper lemmas are in Proofs*.lean).
-/
import YouVerif.C11.Proofs
namespace YouVerif.C11

/-- The write list the model reports for an import is exactly what changed the database: replaying it on the start
    database gives the end database.  (This is what makes "a crash = a prefix of the write list" meaningful; the
    harness checks the list itself against the recorded Put/Delete/Batch.Write sequence of the real code.) -/
theorem writes_sound (W : World) (nd : Node) (chain : List Nat) :
    (insertChain W nd chain).nd.db = nd.db.applyAll (insertChain W nd chain).ws :=
  insertChain_sound W nd chain

end YouVerif.C11
