/-
C11 — property theorems.  Vocabulary in Spec.lean, proofs in Proofs*.lean.
The model (Model.lean) is of /repo's code AFTER the three `fix:` commits of this property; the write order before the
first fix is refuted by `old_write_order_not_crash_safe`.
-/
import YouVerif.C11.Proofs3
namespace YouVerif.C11

/-- The write list the model reports for an import is exactly what changed the database: replaying it on the start
    database gives the end database, for every engine, chain and start node.  (This makes "a crash = a prefix of the
    write list" meaningful; the harness checks the list against the recorded Put/Delete/Batch.Write sequence.) -/
theorem writes_sound (W : World) (nd : Node) (chain : List Nat) :
    (insertChain W nd chain).nd.db = nd.db.applyAll (insertChain W nd chain).ws :=
  insertChain_sound W nd chain

/-- Writes that only add block data, state or the head-header marker (everything WriteBlockWithoutState, the first
    half of WriteBlockWithState and loadLastState write) keep a consistent chain consistent, whatever they add. -/
theorem data_write_consistent (W : World) (db : DB) (w : Wr) (hw : DataWrite w) (head : Nat)
    (h : Consistent W db head) : Consistent W (db.apply w) head ∧ (db.apply w).headBlk = db.headBlk :=
  ⟨consistent_apply_data W db w hw head h, (data_fields db w hw).2.2.1⟩

/-- import_inv, head-extending case: WriteBlockWithState of a block whose parent is the head moves a consistent chain
    to a consistent chain whose head is the new block, and persists it as head. -/
theorem import_inv_partial (W : World) (nd : Node) (id : Nat)
    (hp : (W.blk id).parent = nd.cur) (hn : (W.blk id).num = (W.blk nd.cur).num + 1)
    (h : Consistent W nd.db nd.cur) :
    Consistent W (writeBlockWithState W nd id).nd.db id ∧ (writeBlockWithState W nd id).nd.db.headBlk = some id ∧
      (writeBlockWithState W nd id).nd.cur = id :=
  ⟨(wbs_extend_consistent W nd id hp hn h).1, (wbs_extend_consistent W nd id hp hn h).2, (wbs_extend_db W nd id hp).choose_spec.2.2.1⟩

/-- crash_consistent, head-extending case: after ANY number k of primitive writes of such an import the database
    satisfies the persistent invariant (its head block heads a consistent chain, head state available, lookups sound). -/
theorem crash_consistent_partial (W : World) (nd : Node) (id : Nat)
    (hp : (W.blk id).parent = nd.cur) (hn : (W.blk id).num = (W.blk nd.cur).num + 1)
    (h : Consistent W nd.db nd.cur) (hh : nd.db.headBlk = some nd.cur) :
    ∀ k, DBInv W (nd.db.applyAll ((writeBlockWithState W nd id).ws.take k)) :=
  wbs_extend_safe W nd id hp hn h hh

/-- crash prefixes compose: if every prefix of `a` is safe from `db` and every prefix of `b` is safe from the database
    after `a`, every prefix of `a ++ b` is safe. -/
theorem crash_prefixes_compose (W : World) (db : DB) (a b : List Wr) (ha : SafeWrites W db a)
    (hb : SafeWrites W (db.applyAll a) b) : SafeWrites W db (a ++ b) :=
  safe_append W db a b ha hb

/-- Restart on a database that satisfies the persistent invariant succeeds without repair: the recovered head is the
    persisted head block, the only write is the head-header marker, and the chain is consistent. -/
theorem restart_on_consistent (W : World) (db : DB) (hg : (W.blk genesisId).num = 0) (head : Nat)
    (hh : db.headBlk = some head) (hc : Consistent W db head) :
    ∃ r, recover W db = some r ∧ r.nd.cur = head ∧ r.ws = [Wr.headHdr head] ∧ Consistent W r.nd.db head ∧
      r.nd.db.headBlk = some head :=
  recover_of_dbinv W db hg head hh hc

/-- invalid_never_canonical, the block being imported: insertChain's loop writes a block with state only after
    execution and state validation succeeded on the parent's available state, and ValidateBody = ok implies a correct
    transaction root and a stored parent with state.  (Blocks that become canonical as ANCESTORS in a reorg are not
    covered: see `invalid_never_canonical_statement`.) -/
theorem invalid_never_head_partial (W : World) (nd : Node) (prev : Option Nat) (id : Nat) (r : Res)
    (h : processBlock W nd prev id = some r) (hw : r.ws ≠ []) (hv : validateBody W nd.db id = .ok) :
    (W.blk id).execOK = true ∧ (W.blk id).txRootOK = true ∧ r = writeBlockWithState W nd id :=
  ⟨(processBlock_writes W nd prev id r h hw).1, (validateBody_ok W nd.db id hv).1, (processBlock_writes W nd prev id r h hw).2.2⟩

-- ---- full statements not proved in the time available (type-checked; sampled by the correspondence + oracle) --------

/-- reachable nodes: started on the committed genesis, then any imports and restarts -/
inductive Reach (W : World) : Node → Prop where
  | genesis : Reach W { db := DB.genesis W, cur := genesisId, fut := [] }
  | insert (nd : Node) (chain : List Nat) : Reach W nd → Reach W (insertChain W nd chain).nd
  | restart (nd : Node) (k : Nat) (chain : List Nat) (r : Res) : Reach W nd →
      recover W (nd.db.applyAll ((insertChain W nd chain).ws.take k)) = some r → Reach W r.nd

/-- FULL import_inv: every reachable node holds a consistent chain.  Missing: the reorg case of the batch (the walk
    `reorgChains` returns exactly the two branches below the common ancestor) and the induction through insertChain's
    dispatch. -/
def import_inv_statement : Prop := ∀ W nd, (W.blk genesisId).num = 0 → Reach W nd → Consistent W nd.db nd.cur

/-- FULL crash_consistent: from a reachable node, every crash prefix of every import restarts, and restarts consistent.
    Missing: as import_inv_statement (each batch of a run is a consistent switch). -/
def crash_consistent_statement : Prop := ∀ W nd chain k, (W.blk genesisId).num = 0 → Reach W nd →
  ∃ r, recover W (nd.db.applyAll ((insertChain W nd chain).ws.take k)) = some r ∧ Consistent W r.nd.db r.nd.cur

/-- FULL not_wedged: after a crash at any prefix, re-importing the interrupted blocks and one further valid child of the
    uncrashed head gives the head of the node that never crashed. -/
def not_wedged_statement : Prop := ∀ W nd chain k c r, (W.blk genesisId).num = 0 → Reach W nd →
  recover W (nd.db.applyAll ((insertChain W nd chain).ws.take k)) = some r →
  Valid W c → (W.blk c).parent = (insertChain W nd chain).nd.cur →
  (insertChain W (insertChain W r.nd chain).nd [c]).nd.cur = (insertChain W (insertChain W nd chain).nd [c]).nd.cur

/-- FULL invalid_never_canonical.  NOT expected to be provable as it stands: a side block stored without state whose
    claimed state root is available (an empty block, or a block claiming another block's root) is never validated and
    becomes canonical as an ancestor in a later reorg (upstream's "ghost state" family); kept as the statement the
    harness oracle evaluates on every generated case. -/
def invalid_never_canonical_statement : Prop := ∀ W nd n h, (W.blk genesisId).num = 0 → Reach W nd →
  0 < n → n ≤ (W.blk nd.cur).num → nd.db.canon n = some h → Valid W h

-- ---- the write order before the fix is not crash safe -------------------------------------------------------------------

/-- trunk 0-1-2-3, fork 4 from the genesis -/
def cexWorld : World :=
  { blk := fun id => match id with
      | 0 => { parent := 0, num := 0, root := 0, txs := [], txRootOK := true, execOK := true, tclass := 0, older := false }
      | 1 => { parent := 0, num := 1, root := 1, txs := [0], txRootOK := true, execOK := true, tclass := 0, older := false }
      | 2 => { parent := 1, num := 2, root := 2, txs := [1], txRootOK := true, execOK := true, tclass := 0, older := false }
      | 3 => { parent := 2, num := 3, root := 3, txs := [], txRootOK := true, execOK := true, tclass := 0, older := false }
      | 4 => { parent := 0, num := 1, root := 4, txs := [0, 2], txRootOK := true, execOK := true, tclass := 0, older := false }
      | _ => Blk.unknown,
    strict := false }

/-- head 3 on the trunk, block 4 stored with state: the instant before reorg's first `insert` -/
def cexBefore : DB :=
  { body := fun x => x ≤ 4, hnum := fun x => x ≤ 4, hdr := fun x => x ≤ 4, st := fun r => r ≤ 4,
    canon := fun n => if n ≤ 3 then some n else none, headBlk := some 3, headHdr := some 3,
    look := fun t => if t = 0 then some (1, 1, 0) else if t = 1 then some (2, 2, 0) else none }

/-- The pre-fix `insert` issued three separate Puts (head header, canonical hash, head block).  After the first two
    (a Put is a one-operation batch) the persisted head is still 3 but canonical block 1 is the fork block 4:
    no head makes this database consistent.  Replayed on the pre-fix code by corpus/C11/reorg-crash-index.replay. -/
theorem old_write_order_not_crash_safe :
    ¬ DBInv cexWorld (cexBefore.applyAll [Wr.batch [BOp.headHdr 4], Wr.batch [BOp.canon 1 4]]) := by
  rintro ⟨head, hh, hc⟩
  have h3 : head = 3 := by
    simp [DB.applyAll, DB.apply, DB.applyOps, DB.applyOp, cexBefore] at hh
    exact hh.symm
  subst h3
  obtain ⟨x, h1, _, _, h4⟩ := hc.index.chain 2 (by simp [cexWorld])
  have hx : x = 2 := by
    simp [DB.applyAll, DB.apply, DB.applyOps, DB.applyOp, cexBefore, upd] at h1
    exact h1.symm
  subst hx
  have := h4 (by decide)
  simp [DB.applyAll, DB.apply, DB.applyOps, DB.applyOp, cexBefore, upd, cexWorld] at this

-- ---- non-vacuity ---------------------------------------------------------------------------------------------------------

/-- the hypotheses of import_inv_partial / crash_consistent_partial / restart_on_consistent are satisfiable: the committed
    genesis database is consistent, and block 1 of `cexWorld` extends it -/
theorem genesis_consistent (W : World) (hg : (W.blk genesisId).num = 0) :
    Consistent W (DB.genesis W) genesisId ∧ (DB.genesis W).headBlk = some genesisId := by
  refine ⟨⟨⟨by simp [Stored, DB.genesis], by simp [DB.genesis, hg], ?_, by simp [DB.genesis]⟩, by simp [DB.genesis], ?_⟩, rfl⟩
  · intro n hn
    have : n = 0 := by omega
    subst this
    exact ⟨genesisId, by simp [DB.genesis], by simp [Stored, DB.genesis], hg, fun h => absurd h (by decide)⟩
  · intro t h n i ht
    simp [DB.genesis] at ht

example : (cexWorld.blk 1).parent = genesisId ∧ (cexWorld.blk 1).num = (cexWorld.blk genesisId).num + 1 := by decide

/-- test on literals: the model imports the trunk and then reorganises to the fork in one batch -/
example : ((insertChain cexWorld { db := DB.genesis cexWorld, cur := 0, fut := [] } [1, 2, 3]).nd.cur = 3) := by decide

end YouVerif.C11
