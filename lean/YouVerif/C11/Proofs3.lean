/-
C11 — crash prefixes, restart, validity of processed blocks.
-/
import YouVerif.C11.Proofs2
namespace YouVerif.C11

/-- every crash prefix of a write list leaves a database that satisfies the persistent invariant -/
def SafeWrites (W : World) (db : DB) (ws : List Wr) : Prop := ∀ k, DBInv W (db.applyAll (ws.take k))

theorem safe_data (W : World) (db : DB) (ws : List Wr) (hd : ∀ w ∈ ws, DataWrite w) (h : DBInv W db) : SafeWrites W db ws := by
  intro k
  exact dbinv_applyAll_data W _ db (fun w hw => hd w (List.mem_of_mem_take hw)) h

theorem safe_append (W : World) (db : DB) (a b : List Wr) (ha : SafeWrites W db a) (hb : SafeWrites W (db.applyAll a) b) :
    SafeWrites W db (a ++ b) := by
  intro k
  by_cases hk : k ≤ a.length
  · rw [List.take_append_of_le_length hk]; exact ha k
  · have : (a ++ b).take k = a ++ b.take (k - a.length) := by
      rw [List.take_append]
      congr 1
      exact List.take_of_length_le (by omega)
    rw [this, applyAll_append]
    exact hb _

/-- data writes followed by one batch: safe when the start and the end satisfy the invariant -/
theorem safe_data_then_batch (W : World) (db : DB) (pre : List Wr) (b : Wr) (hd : ∀ w ∈ pre, DataWrite w)
    (h0 : DBInv W db) (h1 : DBInv W (db.applyAll (pre ++ [b]))) : SafeWrites W db (pre ++ [b]) := by
  apply safe_append W db pre [b] (safe_data W db pre hd h0)
  intro k
  cases k with
  | zero => simpa using dbinv_applyAll_data W pre db hd h0
  | succ n => simpa [applyAll_append] using h1

theorem wbs_extend_safe (W : World) (nd : Node) (id : Nat)
    (hp : (W.blk id).parent = nd.cur) (hn : (W.blk id).num = (W.blk nd.cur).num + 1)
    (h : Consistent W nd.db nd.cur) (hh : nd.db.headBlk = some nd.cur) :
    SafeWrites W nd.db (writeBlockWithState W nd id).ws := by
  obtain ⟨_, _, _, _, hws⟩ := wbs_extend_db W nd id hp
  have hsound : (writeBlockWithState W nd id).nd.db = nd.db.applyAll (writeBlockWithState W nd id).ws := wbs_sound W nd id
  have hfin := wbs_extend_consistent W nd id hp hn h
  rw [hws] at hsound ⊢
  apply safe_data_then_batch W nd.db _ _ ?_ ⟨nd.cur, hh, h⟩
  · rw [← hsound]
    exact ⟨id, hfin.2, hfin.1⟩
  · intro w hw
    simp [blockWrites] at hw
    rcases hw with h | h | h | h <;> subst h <;> simp [DataWrite]

-- ---- restart -----------------------------------------------------------------------------------------------------

theorem recover_of_dbinv (W : World) (db : DB) (hg : (W.blk genesisId).num = 0) (head : Nat)
    (hh : db.headBlk = some head) (hc : Consistent W db head) :
    ∃ r, recover W db = some r ∧ r.nd.cur = head ∧ r.ws = [Wr.headHdr head] ∧ Consistent W r.nd.db head ∧
      r.nd.db.headBlk = some head := by
  have hgen : canonBlk W db 0 = some genesisId := by
    obtain ⟨x, h1, h2, h3, _⟩ := hc.index.chain 0 (Nat.zero_le _)
    have hx : x = genesisId := by
      have := hc.index.genesis; rw [h1] at this; exact Option.some.inj this
    subst hx
    obtain ⟨b1, b2⟩ := h2
    simp [canonBlk, hc.index.genesis, getBlock, hasHeader, hasBody, b1, b2, hg]
  have hhead : getBlockByHash W db head = true := by
    obtain ⟨b1, b2, b3⟩ := hc.index.headStored
    simp [getBlockByHash, getBlock, hasHeader, hasBody, b1, b2, b3]
  have hrep : repair W db ((W.blk head).num + 1) head = some head := repair_of_state W db _ head hc.state
  refine ⟨{ nd := { db := db.applyAll [Wr.headHdr head], cur := head, fut := [] }, ws := [Wr.headHdr head], ok := true }, ?_, rfl, rfl, ?_, ?_⟩
  · simp [recover, hgen, hh, hhead, hrep]
  · exact (consistent_applyAll_data W head [Wr.headHdr head] db (by intro w hw; simp at hw; subst hw; simp [DataWrite]) hc).1
  · simpa [DB.applyAll, DB.apply] using hh

theorem recover_db_of_dbinv (W : World) (db : DB) (hg : (W.blk genesisId).num = 0) (head : Nat)
    (hh : db.headBlk = some head) (hc : Consistent W db head) (r : Res) (hr : recover W db = some r) :
    r.nd.cur = head ∧ r.nd.db = db.applyAll [Wr.headHdr head] ∧ r.nd.fut = [] := by
  have hgen : canonBlk W db 0 = some genesisId := by
    obtain ⟨x, h1, h2, h3, _⟩ := hc.index.chain 0 (Nat.zero_le _)
    have hx : x = genesisId := by
      have := hc.index.genesis; rw [h1] at this; exact Option.some.inj this
    subst hx
    obtain ⟨b1, b2⟩ := h2
    simp [canonBlk, hc.index.genesis, getBlock, hasHeader, hasBody, b1, b2, hg]
  have hhead : getBlockByHash W db head = true := by
    obtain ⟨b1, b2, b3⟩ := hc.index.headStored
    simp [getBlockByHash, getBlock, hasHeader, hasBody, b1, b2, b3]
  have hrep : repair W db ((W.blk head).num + 1) head = some head := repair_of_state W db _ head hc.state
  simp [recover, hgen, hh, hhead, hrep] at hr
  subst hr
  exact ⟨rfl, rfl, rfl⟩

theorem genesis_consistent' (W : World) (hg : (W.blk genesisId).num = 0) :
    Consistent W (DB.genesis W) genesisId ∧ (DB.genesis W).headBlk = some genesisId := by
  refine ⟨⟨⟨by simp [Stored, DB.genesis], by simp [DB.genesis, hg], ?_, by simp [DB.genesis]⟩, by simp [DB.genesis], ?_⟩, rfl⟩
  · intro n hn
    have : n = 0 := by omega
    subst this
    exact ⟨genesisId, by simp [DB.genesis], by simp [HasBlk, DB.genesis], hg, fun h => absurd h (by decide)⟩
  · intro t h n i ht
    simp [DB.genesis] at ht

-- ---- only validated, executed blocks are written with state --------------------------------------------------------

theorem validateBody_ok (W : World) (db : DB) (id : Nat) (h : validateBody W db id = .ok) :
    (W.blk id).txRootOK = true ∧ (W.blk id).num ≠ 0 ∧ hasBlockAndState W db (W.blk id).parent ((W.blk id).num - 1) = true := by
  unfold validateBody at h
  simp only [] at h
  repeat' split at h
  all_goals first
    | (exact absurd h (by decide))
    | (simp_all)

theorem processBlock_writes (W : World) (nd : Node) (prev : Option Nat) (id : Nat) (r : Res)
    (h : processBlock W nd prev id = some r) (hw : r.ws ≠ []) :
    (W.blk id).execOK = true ∧ nd.db.st (W.blk (W.blk id).parent).root = true ∧ r = writeBlockWithState W nd id := by
  unfold processBlock at h
  simp only [] at h
  repeat' split at h
  all_goals (cases h <;> simp_all)

end YouVerif.C11
