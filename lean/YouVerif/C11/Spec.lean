/-
C11 — vocabulary of the property: what a consistent chain database is.
-/
import YouVerif.C11.Model
namespace YouVerif.C11

/-- header, body and hash->number entry present -/
def Stored (db : DB) (id : Nat) : Prop := db.body id = true ∧ db.hdr id = true ∧ db.hnum id = true

/-- the number->hash index from genesis to `head` is a parent-linked chain of stored blocks ending in `head` -/
structure IndexOK (W : World) (db : DB) (head : Nat) : Prop where
  headStored : Stored db head
  canonHead : db.canon (W.blk head).num = some head
  chain : ∀ n, n ≤ (W.blk head).num → ∃ h, db.canon n = some h ∧ Stored db h ∧ (W.blk h).num = n ∧
            (0 < n → db.canon (n - 1) = some (W.blk h).parent)
  genesis : db.canon 0 = some genesisId

/-- every transaction lookup entry points into a canonical block at or below the head that holds the transaction
    at that index -/
def LookupsSound (W : World) (db : DB) (head : Nat) : Prop :=
  ∀ t h n i, db.look t = some (h, n, i) → n ≤ (W.blk head).num ∧ db.canon n = some h ∧ (W.blk h).txs[i]? = some t

/-- the consistent chain of the property, for head `head` -/
structure Consistent (W : World) (db : DB) (head : Nat) : Prop where
  index : IndexOK W db head
  state : db.st (W.blk head).root = true
  lookups : LookupsSound W db head

/-- what must hold of the persistent database alone, at every instant a process may die: the persisted head block
    is the head of a consistent chain (so a restart needs no repair) -/
def DBInv (W : World) (db : DB) : Prop := ∃ head, db.headBlk = some head ∧ Consistent W db head

/-- writes that only add block data, state, or the head-header marker: no canonical hash, head block or lookup -/
def DataWrite : Wr → Prop
  | .batch _ => False
  | _ => True

/-- validity of a block under the engine (what the generator's mutants violate) -/
def Valid (W : World) (id : Nat) : Prop :=
  (W.blk id).txRootOK = true ∧ (W.blk id).execOK = true ∧ (W.blk id).num = (W.blk (W.blk id).parent).num + 1

end YouVerif.C11
