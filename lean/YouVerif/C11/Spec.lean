/-
C11 — vocabulary of the property: what a consistent chain database is.
-/
import YouVerif.C11.Model
namespace YouVerif.C11

/-- header, body and hash->number entry present -/
def Stored (db : DB) (id : Nat) : Prop := db.body id = true ∧ db.hdr id = true ∧ db.hnum id = true

/-- header and body present (what GetBlock needs) -/
def HasBlk (db : DB) (id : Nat) : Prop := db.body id = true ∧ db.hdr id = true

theorem Stored.hasBlk {db : DB} {id : Nat} (h : Stored db id) : HasBlk db id := ⟨h.1, h.2.1⟩

/-- the number->hash index from genesis to `head` is a parent-linked chain of stored blocks ending in `head` -/
structure IndexOK (W : World) (db : DB) (head : Nat) : Prop where
  headStored : Stored db head
  canonHead : db.canon (W.blk head).num = some head
  chain : ∀ n, n ≤ (W.blk head).num → ∃ h, db.canon n = some h ∧ HasBlk db h ∧ (W.blk h).num = n ∧
            (0 < n → db.canon (n - 1) = some (W.blk h).parent)
  genesis : db.canon 0 = some genesisId

/-- every transaction lookup entry points into a canonical block at or below the head that holds the transaction
    at that index -/
def LookupsSound (W : World) (db : DB) (head : Nat) : Prop :=
  ∀ t h n i, db.look t = some (h, n, i) → n ≤ (W.blk head).num ∧ db.canon n = some h ∧ (W.blk h).txs[i]? = some t

/-- the consistent chain of the property, for head `head` -/
structure Consistent (W : World) (db : DB) (head : Nat) : Prop where
  index : IndexOK W db head
  state : db.st (W.blk head).root = true
  lookups : LookupsSound W db head

/-- what must hold of the persistent database alone, at every instant a process may die: the persisted head block
    is the head of a consistent chain (so a restart needs no repair) -/
def DBInv (W : World) (db : DB) : Prop := ∃ head, db.headBlk = some head ∧ Consistent W db head

/-- the invariant of a running node: its in-memory head heads a consistent chain and is the persisted head block -/
def NodeInv (W : World) (nd : Node) : Prop := Consistent W nd.db nd.cur ∧ nd.db.headBlk = some nd.cur

/-- writes that only add block data, state, or the head-header marker: no canonical hash, head block or lookup -/
def DataWrite : Wr → Prop
  | .batch _ => False
  | _ => True

/-- validity of a block under the engine (what the generator's mutants violate) -/
def Valid (W : World) (id : Nat) : Prop :=
  (W.blk id).txRootOK = true ∧ (W.blk id).execOK = true ∧ (W.blk id).num = (W.blk (W.blk id).parent).num + 1

/-- reachable nodes: started on the committed genesis, then any imports, and restarts after a crash at ANY prefix of the
    primitive write list of any import -/
inductive Reach (W : World) : Node → Prop where
  | genesis : Reach W { db := DB.genesis W, cur := genesisId, fut := [] }
  | insert (nd : Node) (chain : List Nat) : Reach W nd → Reach W (insertChain W nd chain).nd
  | restart (nd : Node) (k : Nat) (chain : List Nat) (r : Res) : Reach W nd →
      recover W (nd.db.applyAll ((insertChain W nd chain).ws.take k)) = some r → Reach W r.nd

/-- transaction root and execution verdicts -/
def VB (W : World) (h : Nat) : Prop := (W.blk h).txRootOK = true ∧ (W.blk h).execOK = true

/-- no two block identities claim the same state root.  This is the side condition of `invalid_never_canonical`: it
    excludes exactly the situation of the open finding F-C11b (an empty block, or a block claiming another block's root,
    whose claimed state is "available" although the block was never executed). -/
def RootsInjective (W : World) : Prop := ∀ h h', (W.blk h).root = (W.blk h').root → h = h'

/-- available state roots belong to validated blocks whose parent state is available too -/
def TrustedStates (W : World) (db : DB) : Prop :=
  ∀ h, h ≠ genesisId → db.st (W.blk h).root = true → VB W h ∧ db.st (W.blk (W.blk h).parent).root = true

end YouVerif.C11
