/-
C11 — helper lemmas: the write list of every (sub)run is sound (replaying it on the start database gives the end
database), data-only writes, the atomic index switch.
-/
import YouVerif.C11.Model
namespace YouVerif.C11

theorem applyAll_append (db : DB) (a b : List Wr) : db.applyAll (a ++ b) = (db.applyAll a).applyAll b := by
  simp [DB.applyAll, List.foldl_append]

@[simp] theorem applyAll_nil (db : DB) : db.applyAll [] = db := rfl

@[simp] theorem write_db (nd : Node) (ws : List Wr) : (nd.write ws).db = nd.db.applyAll ws := rfl
@[simp] theorem write_cur (nd : Node) (ws : List Wr) : (nd.write ws).cur = nd.cur := rfl

/-- a (sub)run is sound when its end database is its write list replayed on the start database -/
def Sound (nd : Node) (r : Res) : Prop := r.nd.db = nd.db.applyAll r.ws

theorem wbs_sound (W : World) (nd : Node) (id : Nat) : Sound nd (writeBlockWithState W nd id) := by
  unfold writeBlockWithState Sound
  simp only []
  split
  · simp [DB.applyAll]
  · split <;> simp [DB.applyAll]

theorem processBlock_sound (W : World) (nd : Node) (prev : Option Nat) (id : Nat) (r : Res)
    (h : processBlock W nd prev id = some r) : Sound nd r := by
  unfold processBlock at h
  simp only [] at h
  repeat' split at h
  all_goals (cases h <;> first | exact wbs_sound W nd id | simp [Sound])

/-- soundness relative to an accumulator: the loop appends to `acc` -/
def SoundFrom (nd0 nd : Node) (acc : List Wr) : Prop := nd.db = nd0.db.applyAll acc

theorem insertLoop_sound (W : World) (side : Node → List Nat → Res) (hside : ∀ nd ch, Sound nd (side nd ch))
    (nd0 : Node) :
    ∀ (vs : List (Nat × Verdict)) (nd : Node) (prev : Option Nat) (first : Bool) (acc : List Wr),
      SoundFrom nd0 nd acc → Sound nd0 (insertLoop W side nd vs prev first acc) := by
  intro vs
  induction vs with
  | nil => intro nd prev first acc h; simpa [insertLoop, Sound, SoundFrom] using h
  | cons hd rest ih =>
    intro nd prev first acc h
    obtain ⟨id, v⟩ := hd
    have hproc : ∀ nd', SoundFrom nd0 nd' acc →
        Sound nd0 (match processBlock W nd' prev id with
          | none => insertLoop W side nd' rest (some id) false acc
          | some r => if r.ok then insertLoop W side r.nd rest (some id) false (acc ++ r.ws)
                      else { nd := r.nd, ws := acc ++ r.ws, ok := false }) := by
      intro nd' h'
      cases hp : processBlock W nd' prev id with
      | none => exact ih _ _ _ _ h'
      | some r =>
        have hs := processBlock_sound W nd' prev id r hp
        have : SoundFrom nd0 r.nd (acc ++ r.ws) := by
          unfold SoundFrom Sound at *; rw [hs, h', applyAll_append]
        simp only []
        split
        · exact ih _ _ _ _ this
        · simpa [Sound, SoundFrom] using this
    have hsideacc : ∀ ch, Sound nd0 { nd := (side nd ch).nd, ws := acc ++ (side nd ch).ws, ok := (side nd ch).ok } := by
      intro ch
      have := hside nd ch
      unfold Sound SoundFrom at *
      simp only []
      rw [this, h, applyAll_append]
    have hstop : Sound nd0 { nd := nd, ws := acc, ok := false } := by simpa [Sound, SoundFrom] using h
    unfold insertLoop
    simp only []
    split
    · exact ih _ _ _ _ h
    · split
      · exact hstop
      · exact ih _ _ _ _ (by simpa [SoundFrom] using h)
    · split
      · exact ih _ _ _ _ (by simpa [SoundFrom] using h)
      · exact hstop
    · exact hsideacc _
    · split
      · exact hsideacc _
      · split
        · exact hproc nd h
        · exact hstop
    · exact hstop
    · exact hproc nd h

theorem insertSide_sound (W : World) (rec : Node → List Nat → Res) (hrec : ∀ nd ch, Sound nd (rec nd ch))
    (nd : Node) (ch : List Nat) : Sound nd (insertSide W rec nd ch) := by
  unfold insertSide
  simp only []
  split
  · simp [Sound]
  · split
    · simp [Sound]
    · split
      · simp [Sound]
      · split
        · simp [Sound]
        · simp [Sound]
        · split
          · simp [Sound]
          · have := hrec (nd.write (sideWrites W nd.db (stripCanon W nd.db ch))) ‹List Nat›
            unfold Sound at *
            simp only [] at *
            rw [this, applyAll_append]; rfl

theorem insertChainV_sound (W : World) : ∀ (fuel : Nat) (nd : Node) (ch : List Nat), Sound nd (insertChainV W fuel nd ch) := by
  intro fuel
  induction fuel with
  | zero => intro nd ch; simp [insertChainV, Sound]
  | succ n ih =>
    intro nd ch
    unfold insertChainV
    exact insertLoop_sound W _ (fun nd' ch' => insertSide_sound W _ ih nd' ch') nd _ nd _ _ _ (by simp [SoundFrom])

theorem insertChain_sound (W : World) (nd : Node) (ch : List Nat) : Sound nd (insertChain W nd ch) := by
  unfold insertChain
  split
  · simp [Sound]
  · split
    · simp [Sound]
    · split
      · simp [Sound]
      · exact insertChainV_sound W 3 nd _

end YouVerif.C11
