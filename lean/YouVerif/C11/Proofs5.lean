/-
C11 — the atomic batch of a reorganising WriteBlockWithState moves a consistent chain to a consistent chain.
-/
import YouVerif.C11.Proofs4
namespace YouVerif.C11

theorem applyOps_cons (db : DB) (op : BOp) (rest : List BOp) : db.applyOps (op :: rest) = (db.applyOp op).applyOps rest := by
  simp [DB.applyOps]

/-- the operation writes or deletes the lookup entry of `t` -/
def touches (t : Nat) : BOp → Prop
  | .look t' _ _ _ => t' = t
  | .del t' => t' = t
  | _ => False

theorem applyOps_look_cases : ∀ (ops : List BOp) (db : DB) (t : Nat),
    ((db.applyOps ops).look t = db.look t ∧ ∀ op ∈ ops, ¬ touches t op) ∨
    (∃ id n i, BOp.look t id n i ∈ ops ∧ (db.applyOps ops).look t = some (id, n, i)) ∨
    (db.applyOps ops).look t = none := by
  intro ops
  induction ops with
  | nil => intro db t; left; exact ⟨rfl, fun op h => by cases h⟩
  | cons op rest ih =>
    intro db t
    rw [applyOps_cons]
    rcases ih (db.applyOp op) t with ⟨h1, h2⟩ | ⟨id, n, i, hm, he⟩ | h3
    · cases op with
      | look tx id n i =>
        by_cases e : t = tx
        · right; left
          refine ⟨id, n, i, by rw [e]; exact List.mem_cons_self, ?_⟩
          rw [h1]; simp [DB.applyOp, upd, e]
        · left
          refine ⟨by rw [h1]; simp [DB.applyOp, upd, e], ?_⟩
          intro op hop
          rcases List.mem_cons.1 hop with rfl | hop
          · simp only [touches]; exact fun h => e h.symm
          · exact h2 op hop
      | del tx =>
        by_cases e : t = tx
        · right; right; rw [h1]; simp [DB.applyOp, upd, e]
        · left
          refine ⟨by rw [h1]; simp [DB.applyOp, upd, e], ?_⟩
          intro op hop
          rcases List.mem_cons.1 hop with rfl | hop
          · simp only [touches]; exact fun h => e h.symm
          · exact h2 op hop
      | rcpt j => left; exact ⟨h1, fun op hop => by rcases List.mem_cons.1 hop with rfl | hop; (· simp [touches]); exact h2 op hop⟩
      | canon a b => left; exact ⟨h1, fun op hop => by rcases List.mem_cons.1 hop with rfl | hop; (· simp [touches]); exact h2 op hop⟩
      | headHdr j => left; exact ⟨h1, fun op hop => by rcases List.mem_cons.1 hop with rfl | hop; (· simp [touches]); exact h2 op hop⟩
      | headBlk j => left; exact ⟨h1, fun op hop => by rcases List.mem_cons.1 hop with rfl | hop; (· simp [touches]); exact h2 op hop⟩
    · right; left; exact ⟨id, n, i, List.mem_cons_of_mem _ hm, he⟩
    · right; right; exact h3

theorem applyOps_canon_cases : ∀ (ops : List BOp) (db : DB) (n : Nat),
    ((db.applyOps ops).canon n = db.canon n ∧ ∀ id, BOp.canon n id ∉ ops) ∨
    (∃ id, BOp.canon n id ∈ ops ∧ (db.applyOps ops).canon n = some id) := by
  intro ops
  induction ops with
  | nil => intro db n; left; exact ⟨rfl, fun id h => by cases h⟩
  | cons op rest ih =>
    intro db n
    rw [applyOps_cons]
    rcases ih (db.applyOp op) n with ⟨h1, h2⟩ | ⟨id, hm, he⟩
    · cases op with
      | canon a b =>
        by_cases e : n = a
        · right; refine ⟨b, by rw [e]; exact List.mem_cons_self, ?_⟩
          rw [h1]; simp [DB.applyOp, upd, e]
        · left
          refine ⟨by rw [h1]; simp [DB.applyOp, upd, e], ?_⟩
          intro id hop
          rcases List.mem_cons.1 hop with h | hop
          · injection h with h _; exact e h
          · exact h2 id hop
      | look tx id n i => left; exact ⟨h1, fun id hop => by rcases List.mem_cons.1 hop with h | hop; (· cases h); exact h2 id hop⟩
      | del tx => left; exact ⟨h1, fun id hop => by rcases List.mem_cons.1 hop with h | hop; (· cases h); exact h2 id hop⟩
      | rcpt j => left; exact ⟨h1, fun id hop => by rcases List.mem_cons.1 hop with h | hop; (· cases h); exact h2 id hop⟩
      | headHdr j => left; exact ⟨h1, fun id hop => by rcases List.mem_cons.1 hop with h | hop; (· cases h); exact h2 id hop⟩
      | headBlk j => left; exact ⟨h1, fun id hop => by rcases List.mem_cons.1 hop with h | hop; (· cases h); exact h2 id hop⟩
    · right; exact ⟨id, List.mem_cons_of_mem _ hm, he⟩

theorem lookOps_mem_of_tx (W : World) (x t : Nat) (h : t ∈ (W.blk x).txs) :
    ∃ i, BOp.look t x (W.blk x).num i ∈ lookOps W x := by
  obtain ⟨i, hi, hti⟩ := List.mem_iff_getElem.1 h
  refine ⟨i, ?_⟩
  unfold lookOps
  simp only [List.mem_filterMap, List.mem_range]
  refine ⟨i, hi, ?_⟩
  have : (W.blk x).txs[i]? = some t := by rw [List.getElem?_eq_getElem hi, hti]
  simp [this]

theorem lookOps_mem (W : World) (x : Nat) (op : BOp) (h : op ∈ lookOps W x) :
    ∃ tx i, op = BOp.look tx x (W.blk x).num i ∧ (W.blk x).txs[i]? = some tx := lookOps_for W x op h

/-- membership facts of the staged batch -/
structure BatchFacts (W : World) (id : Nat) (oc nc : List Nat) (F : List BOp) : Prop where
  canonIn : ∀ n x, BOp.canon n x ∈ F → (x ∈ nc ∨ x = id) ∧ n = (W.blk x).num
  lookIn : ∀ t x n i, BOp.look t x n i ∈ F → (x ∈ nc ∨ x = id) ∧ n = (W.blk x).num ∧ (W.blk x).txs[i]? = some t
  canonOut : ∀ x, (x ∈ nc ∨ x = id) → BOp.canon (W.blk x).num x ∈ F
  lookOut : ∀ x t, x ∈ nc → t ∈ (W.blk x).txs → ∃ i, BOp.look t x (W.blk x).num i ∈ F
  delOut : ∀ t, t ∈ txsOf W oc → t ∉ txsOf W nc → BOp.del t ∈ F

theorem batch_facts (W : World) (id : Nat) (oc nc : List Nat) (rc : List BOp) (hrc : ∀ op ∈ rc, ∃ j, op = BOp.rcpt j) :
    BatchFacts W id oc nc (rc ++ reorgOps W oc nc ++ lookOps W id ++ headOps W id) := by
  constructor
  · intro n x h
    simp only [List.mem_append, reorgOps, List.mem_flatMap, List.mem_reverse, List.mem_map, List.mem_filter] at h
    rcases h with ((h | h | h) | h) | h
    · obtain ⟨j, e⟩ := hrc _ h; cases e
    · obtain ⟨y, hy, h | h⟩ := h
      · simp only [headOps, List.mem_cons, List.not_mem_nil, or_false] at h
        rcases h with h | h | h
        · cases h
        · injection h with h1 h2; subst h2; exact ⟨Or.inl hy, h1⟩
        · cases h
      · obtain ⟨_, _, e, _⟩ := lookOps_mem W y _ h; cases e
    · obtain ⟨_, _, e⟩ := h; cases e
    · obtain ⟨_, _, e, _⟩ := lookOps_mem W id _ h; cases e
    · simp only [headOps, List.mem_cons, List.not_mem_nil, or_false] at h
      rcases h with h | h | h
      · cases h
      · injection h with h1 h2; subst h2; exact ⟨Or.inr rfl, h1⟩
      · cases h
  · intro t x n i h
    simp only [List.mem_append, reorgOps, List.mem_flatMap, List.mem_reverse, List.mem_map, List.mem_filter] at h
    rcases h with ((h | h | h) | h) | h
    · obtain ⟨j, e⟩ := hrc _ h; cases e
    · obtain ⟨y, hy, h | h⟩ := h
      · simp only [headOps, List.mem_cons, List.not_mem_nil, or_false] at h
        rcases h with h | h | h <;> cases h
      · obtain ⟨tx, j, e, e2⟩ := lookOps_mem W y _ h
        injection e with e1 e3 e4 e5
        subst e1 e3 e4 e5
        exact ⟨Or.inl hy, rfl, e2⟩
    · obtain ⟨_, _, e⟩ := h; cases e
    · obtain ⟨tx, j, e, e2⟩ := lookOps_mem W id _ h
      injection e with e1 e3 e4 e5
      subst e1 e3 e4 e5
      exact ⟨Or.inr rfl, rfl, e2⟩
    · simp only [headOps, List.mem_cons, List.not_mem_nil, or_false] at h
      rcases h with h | h | h <;> cases h
  · intro x hx
    simp only [List.mem_append, reorgOps, List.mem_flatMap, List.mem_reverse]
    rcases hx with hx | hx
    · left; left; right; left
      exact ⟨x, hx, Or.inl (by simp [headOps])⟩
    · right; subst hx; simp [headOps]
  · intro x t hx ht
    obtain ⟨i, hi⟩ := lookOps_mem_of_tx W x t ht
    refine ⟨i, ?_⟩
    simp only [List.mem_append, reorgOps, List.mem_flatMap, List.mem_reverse]
    left; left; right; left
    exact ⟨x, hx, Or.inr hi⟩
  · intro t h1 h2
    simp only [List.mem_append, reorgOps, List.mem_map, List.mem_filter]
    left; left; right; right
    refine ⟨t, ⟨h1, ?_⟩, rfl⟩
    simpa using h2

theorem mem_txsOf (W : World) (l : List Nat) (t : Nat) : t ∈ txsOf W l ↔ ∃ x ∈ l, t ∈ (W.blk x).txs := by
  simp [txsOf, List.mem_flatMap]

/-- The index switch of a reorganising import.  `db1`: consistent for the old head `cur`, the new block `id` stored with
    its state; `oc`/`nc`: the linked paths from `cur` and from `id` down to a common ancestor `A`. -/
theorem batch_reorg_consistent (W : World) (db1 : DB) (cur id : Nat) (oc nc : List Nat) (A : Nat) (rc : List BOp)
    (hrc : ∀ op ∈ rc, ∃ j, op = BOp.rcpt j)
    (hcons : Consistent W db1 cur) (hst : Stored db1 id) (hroot : db1.st (W.blk id).root = true)
    (hoc : Linked W db1 oc A) (hnc : Linked W db1 nc A) (htoc : top oc A = cur) (htnc : top nc A = id) :
    Consistent W (db1.applyOps (rc ++ reorgOps W oc nc ++ lookOps W id ++ headOps W id)) id ∧
    (db1.applyOps (rc ++ reorgOps W oc nc ++ lookOps W id ++ headOps W id)).headBlk = some id := by
  have hF := batch_facts W id oc nc rc hrc
  generalize hFd : rc ++ reorgOps W oc nc ++ lookOps W id ++ headOps W id = F at *
  have hhead : (db1.applyOps F).headBlk = some id := by
    rw [← hFd, applyOps_append]; simp [headOps, DB.applyOps, DB.applyOp]
  obtain ⟨hb, hh, hn, hs⟩ := applyOps_data F db1
  generalize hd3 : db1.applyOps F = db3 at *
  -- numbers
  have hnum_cur : (W.blk cur).num = (W.blk A).num + oc.length := by rw [← htoc]; exact linked_num_top W db1 oc A hoc
  have hnum_id : (W.blk id).num = (W.blk A).num + nc.length := by rw [← htnc]; exact linked_num_top W db1 nc A hnc
  obtain ⟨hcanOc, hcanA⟩ := linked_canon W db1 cur hcons.index oc A hoc (by rw [htoc]; exact Nat.le_refl _)
    (by rw [htoc]; exact hcons.index.canonHead)
  have hmemNc := linked_mem W db1 nc A hnc
  have htopNc := top_mem_or nc A
  -- the set S = nc ∪ {id}
  have hS : ∀ x, (x ∈ nc ∨ x = id) → x ∈ nc ∨ (nc = [] ∧ x = A) := by
    intro x hx
    rcases hx with hx | hx
    · exact Or.inl hx
    · rcases htopNc with ⟨e1, e2⟩ | e
      · right; exact ⟨e1, by rw [hx, ← htnc, e2]⟩
      · left; rw [hx, ← htnc]; exact e
  have hSinj : ∀ x x', (x ∈ nc ∨ x = id) → (x' ∈ nc ∨ x' = id) → (W.blk x).num = (W.blk x').num → x = x' := by
    intro x x' hx hx' e
    rcases hS x hx with h | ⟨h1, h2⟩ <;> rcases hS x' hx' with h' | ⟨h1', h2'⟩
    · exact linked_inj W db1 nc A hnc x h x' h' e
    · rw [h1'] at h; cases h
    · rw [h1] at h'; cases h'
    · rw [h2, h2']
  have hCnew : ∀ x, (x ∈ nc ∨ x = id) → db3.canon (W.blk x).num = some x := by
    intro x hx
    rcases applyOps_canon_cases F db1 (W.blk x).num with ⟨_, h2⟩ | ⟨y, hm, he⟩
    · exact absurd (hF.canonOut x hx) (h2 x)
    · obtain ⟨hy, e⟩ := hF.canonIn _ _ hm
      rw [hd3] at he
      rw [he, hSinj x y hx hy e]
  have hCold : ∀ n, n ≤ (W.blk A).num → db3.canon n = db1.canon n := by
    intro n hn'
    rcases applyOps_canon_cases F db1 n with ⟨h1, _⟩ | ⟨y, hm, he⟩
    · rw [hd3] at h1; exact h1
    · obtain ⟨hy, e⟩ := hF.canonIn _ _ hm
      rw [hd3] at he
      rcases hS y hy with h | ⟨_, h2⟩
      · have := (hmemNc y h).1; omega
      · rw [he, e, h2, hcanA]
  have hhas : ∀ x, HasBlk db1 x → HasBlk db3 x := by
    intro x hx; unfold HasBlk at *; rw [hb, hh]; exact hx
  have hidS : id ∈ nc ∨ id = id := Or.inr rfl
  refine ⟨⟨⟨?_, hCnew id hidS, ?_, ?_⟩, by rw [hs]; exact hroot, ?_⟩, hhead⟩
  · unfold Stored at *; rw [hb, hh, hn]; exact hst
  · -- the index chain
    intro n hnle
    by_cases hnA : n ≤ (W.blk A).num
    · obtain ⟨x, x1, x2, x3, x4⟩ := hcons.index.chain n (by omega)
      refine ⟨x, by rw [hCold n hnA]; exact x1, hhas x x2, x3, ?_⟩
      intro hpos
      rw [hCold (n - 1) (by omega)]; exact x4 hpos
    · obtain ⟨x, hx, hxn⟩ := linked_cover W db1 nc A hnc n (by omega) (by rw [htnc]; exact hnle)
      obtain ⟨_, _, m3, m4, m5, m6⟩ := hmemNc x hx
      refine ⟨x, by rw [← hxn]; exact hCnew x (Or.inl hx), ?_, hxn, ?_⟩
      · rcases m6 with m6 | m6
        · rw [m6, htnc]; exact hhas id hst.hasBlk
        · exact hhas x m6
      · intro _
        have hpn : (W.blk (W.blk x).parent).num = n - 1 := by omega
        rcases m3 with m3 | m3
        · rw [← hpn]; exact hCnew _ (Or.inl m3)
        · rw [← hpn, hCold _ (by rw [m3]; exact Nat.le_refl _), m3]; exact hcanA
  · rw [hCold 0 (Nat.zero_le _)]; exact hcons.index.genesis
  · -- lookups
    intro t h n i ht
    rcases applyOps_look_cases F db1 t with ⟨h1, h2⟩ | ⟨x, n', i', hm, he⟩ | h3
    · rw [hd3] at h1
      rw [h1] at ht
      obtain ⟨l1, l2, l3⟩ := hcons.lookups t h n i ht
      by_cases hnA : n ≤ (W.blk A).num
      · exact ⟨by omega, by rw [hCold n hnA]; exact l2, l3⟩
      · exfalso
        obtain ⟨y, hy, hyn⟩ := linked_cover W db1 oc A hoc n (by omega) (by rw [htoc]; exact l1)
        have hyh : y = h := by
          have := hcanOc y hy; rw [hyn, l2] at this; exact (Option.some.inj this).symm
        subst hyh
        have htin : t ∈ (W.blk y).txs := List.mem_of_getElem? l3
        have htoc' : t ∈ txsOf W oc := (mem_txsOf W oc t).2 ⟨y, hy, htin⟩
        by_cases htn : t ∈ txsOf W nc
        · obtain ⟨z, hz, htz⟩ := (mem_txsOf W nc t).1 htn
          obtain ⟨j, hj⟩ := hF.lookOut z t hz htz
          exact h2 _ hj (by simp [touches])
        · exact h2 _ (hF.delOut t htoc' htn) (by simp [touches])
    · rw [hd3] at he
      rw [he] at ht
      injection ht with ht
      injection ht with e1 ht
      injection ht with e2 e3
      subst e1 e2 e3
      obtain ⟨hx, e, etx⟩ := hF.lookIn _ _ _ _ hm
      subst e
      refine ⟨?_, hCnew x hx, etx⟩
      rcases hx with hx | hx
      · have := (hmemNc x hx).2.1; rw [htnc] at this; exact this
      · rw [hx]; exact Nat.le_refl _
    · rw [hd3] at h3; rw [h3] at ht; cases ht

end YouVerif.C11
