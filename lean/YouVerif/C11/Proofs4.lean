/-
C11 — reorg: what `reorgChains` returns (two parent-linked paths below a common ancestor), facts about such paths.
-/
import YouVerif.C11.Proofs3
namespace YouVerif.C11

theorem getBlock_iff (W : World) (db : DB) (p n : Nat) :
    getBlock W db p n = true ↔ db.hdr p = true ∧ db.body p = true ∧ (W.blk p).num = n := by
  simp only [getBlock, hasHeader, hasBody, Bool.and_eq_true, beq_iff_eq]
  constructor
  · rintro ⟨⟨a, b⟩, c, _⟩; exact ⟨a, c, b⟩
  · rintro ⟨a, c, b⟩; exact ⟨⟨a, b⟩, c, b⟩

/-- top of a path: its newest block, or the base when the path is empty -/
def top (l : List Nat) (y : Nat) : Nat := l.headD y

@[simp] theorem top_nil (y : Nat) : top [] y = y := rfl
@[simp] theorem top_cons (x : Nat) (l : List Nat) (y : Nat) : top (x :: l) y = x := rfl

/-- `l` (newest first) is a parent-linked path of present blocks down to, and excluding, `y` -/
def Linked (W : World) (db : DB) : List Nat → Nat → Prop
  | [], _ => True
  | x :: l, y => (W.blk x).num ≠ 0 ∧ getBlock W db (W.blk x).parent ((W.blk x).num - 1) = true ∧
                 (W.blk x).parent = top l y ∧ Linked W db l y

theorem walkDown_spec (W : World) (db : DB) : ∀ (fuel x n : Nat) (l : List Nat) (y : Nat),
    walkDown W db fuel x n = some (l, y) → Linked W db l y ∧ top l y = x ∧ (W.blk y).num = n := by
  intro fuel
  induction fuel with
  | zero =>
    intro x n l y h
    simp only [walkDown] at h
    split at h
    · cases h; exact ⟨trivial, rfl, by assumption⟩
    · cases h
  | succ f ih =>
    intro x n l y h
    simp only [walkDown] at h
    split at h
    · cases h; exact ⟨trivial, rfl, by assumption⟩
    · split at h
      · rename_i hc
        simp only [Bool.and_eq_true, decide_eq_true_eq] at hc
        cases hr : walkDown W db f (W.blk x).parent n with
        | none => simp [hr] at h
        | some p =>
          obtain ⟨l', y'⟩ := p
          simp only [hr, Option.some.injEq, Prod.mk.injEq] at h
          obtain ⟨h1, h2⟩ := h
          subst h1 h2
          obtain ⟨i1, i2, i3⟩ := ih _ _ _ _ hr
          exact ⟨⟨hc.1, hc.2, i2.symm, i1⟩, rfl, i3⟩
      · cases h

theorem meet_spec (W : World) (db : DB) : ∀ (fuel o n : Nat) (lo ln : List Nat), (W.blk o).num = (W.blk n).num →
    meet W db fuel o n = some (lo, ln) →
    ∃ A, Linked W db lo A ∧ Linked W db ln A ∧ top lo A = o ∧ top ln A = n := by
  intro fuel
  induction fuel with
  | zero =>
    intro o n lo ln _ h
    simp only [meet] at h
    split at h
    · cases h; rename_i e; exact ⟨o, trivial, trivial, rfl, e⟩
    · cases h
  | succ f ih =>
    intro o n lo ln hnum h
    simp only [meet] at h
    split at h
    · cases h; rename_i e; exact ⟨o, trivial, trivial, rfl, e⟩
    · split at h
      · cases h
      · rename_i hz
        split at h
        · rename_i hc
          simp only [Bool.and_eq_true] at hc
          cases hr : meet W db f (W.blk o).parent (W.blk n).parent with
          | none => simp [hr] at h
          | some p =>
            obtain ⟨lo', ln'⟩ := p
            simp only [hr, Option.some.injEq, Prod.mk.injEq] at h
            obtain ⟨h1, h2⟩ := h
            subst h1 h2
            have e1 := (getBlock_iff W db _ _).1 hc.1
            have e2 := (getBlock_iff W db _ _).1 hc.2
            obtain ⟨A, i1, i2, i3, i4⟩ := ih _ _ _ _ (by rw [e1.2.2, e2.2.2, hnum]) hr
            exact ⟨A, ⟨hz, hc.1, i3.symm, i1⟩, ⟨by rw [← hnum]; exact hz, hc.2, i4.symm, i2⟩, rfl, rfl⟩
        · cases h

theorem linked_append (W : World) (db : DB) : ∀ (l1 : List Nat) (y1 : Nat) (l2 : List Nat) (y2 : Nat),
    Linked W db l1 y1 → Linked W db l2 y2 → y1 = top l2 y2 →
    Linked W db (l1 ++ l2) y2 ∧ top (l1 ++ l2) y2 = top l1 y1 := by
  intro l1
  induction l1 with
  | nil => intro y1 l2 y2 _ h2 e; exact ⟨h2, e.symm⟩
  | cons x l ih =>
    intro y1 l2 y2 h1 h2 e
    obtain ⟨a, b, c, d⟩ := h1
    obtain ⟨i1, i2⟩ := ih y1 l2 y2 d h2 e
    exact ⟨⟨a, b, by rw [c]; exact i2.symm, i1⟩, rfl⟩

/-- reorg's two chains are parent-linked paths from the old head and from the new block down to a common ancestor -/
theorem reorg_spec (W : World) (db : DB) (old new : Nat) (oc nc : List Nat)
    (h : reorgChains W db old new = some (oc, nc)) :
    ∃ A, Linked W db oc A ∧ Linked W db nc A ∧ top oc A = old ∧ top nc A = new := by
  unfold reorgChains at h
  simp only [] at h
  split at h
  · cases hw : walkDown W db (W.blk old).num old (W.blk new).num with
    | none => simp [hw] at h
    | some p =>
      obtain ⟨lo, o'⟩ := p
      obtain ⟨w1, w2, w3⟩ := walkDown_spec W db _ _ _ _ _ hw
      simp only [hw] at h
      cases hm : meet W db ((W.blk new).num + 1) o' new with
      | none => simp [hm] at h
      | some q =>
        obtain ⟨lo2, ln⟩ := q
        simp only [hm, Option.some.injEq, Prod.mk.injEq] at h
        obtain ⟨h1, h2⟩ := h
        subst h1 h2
        obtain ⟨A, m1, m2, m3, m4⟩ := meet_spec W db _ _ _ _ _ w3 hm
        obtain ⟨a1, a2⟩ := linked_append W db lo o' lo2 A w1 m1 m3.symm
        exact ⟨A, a1, m2, by rw [a2, w2], m4⟩
  · cases hw : walkDown W db (W.blk new).num new (W.blk old).num with
    | none => simp [hw] at h
    | some p =>
      obtain ⟨ln, n'⟩ := p
      obtain ⟨w1, w2, w3⟩ := walkDown_spec W db _ _ _ _ _ hw
      simp only [hw] at h
      cases hm : meet W db ((W.blk old).num + 1) old n' with
      | none => simp [hm] at h
      | some q =>
        obtain ⟨lo, ln2⟩ := q
        simp only [hm, Option.some.injEq, Prod.mk.injEq] at h
        obtain ⟨h1, h2⟩ := h
        subst h1 h2
        obtain ⟨A, m1, m2, m3, m4⟩ := meet_spec W db _ _ _ _ _ w3.symm hm
        obtain ⟨a1, a2⟩ := linked_append W db ln n' ln2 A w1 m2 m4.symm
        exact ⟨A, m1, a1, m3, by rw [a2, w2]⟩

-- ---- facts about linked paths ------------------------------------------------------------------------------------

theorem linked_num_top (W : World) (db : DB) : ∀ (l : List Nat) (A : Nat), Linked W db l A →
    (W.blk (top l A)).num = (W.blk A).num + l.length := by
  intro l
  induction l with
  | nil => intro A _; simp
  | cons x l ih =>
    intro A h
    obtain ⟨a, b, c, d⟩ := h
    have e := ((getBlock_iff W db _ _).1 b).2.2
    have := ih A d
    rw [← c, e] at this
    simp only [top_cons, List.length_cons]
    omega

theorem linked_mem (W : World) (db : DB) : ∀ (l : List Nat) (A : Nat), Linked W db l A → ∀ x ∈ l,
    (W.blk A).num < (W.blk x).num ∧ (W.blk x).num ≤ (W.blk (top l A)).num ∧
    ((W.blk x).parent ∈ l ∨ (W.blk x).parent = A) ∧ (W.blk (W.blk x).parent).num + 1 = (W.blk x).num ∧
    HasBlk db (W.blk x).parent ∧ (x = top l A ∨ HasBlk db x) := by
  intro l
  induction l with
  | nil => intro A _ x hx; cases hx
  | cons y l ih =>
    intro A h x hx
    have htop := linked_num_top W db (y :: l) A h
    obtain ⟨a, b, c, d⟩ := h
    have e := (getBlock_iff W db _ _).1 b
    have htl := linked_num_top W db l A d
    simp only [top_cons, List.length_cons] at htop
    rcases List.mem_cons.1 hx with rfl | hx'
    · refine ⟨by omega, Nat.le_refl _, ?_, by omega, ⟨e.2.1, e.1⟩, Or.inl rfl⟩
      cases l with
      | nil => right; simpa using c
      | cons z l' => left; rw [c]; simp
    · obtain ⟨i1, i2, i3, i4, i5, i6⟩ := ih A d x hx'
      refine ⟨i1, by simp only [top_cons]; omega, ?_, i4, i5, ?_⟩
      · rcases i3 with i3 | i3
        · exact Or.inl (List.mem_cons_of_mem _ i3)
        · exact Or.inr i3
      · right
        rcases i6 with i6 | i6
        · rw [i6, ← c]; exact ⟨e.2.1, e.1⟩
        · exact i6

theorem linked_cover (W : World) (db : DB) : ∀ (l : List Nat) (A : Nat), Linked W db l A → ∀ n,
    (W.blk A).num < n → n ≤ (W.blk (top l A)).num → ∃ x ∈ l, (W.blk x).num = n := by
  intro l
  induction l with
  | nil => intro A _ n h1 h2; simp at h2; omega
  | cons y l ih =>
    intro A h n h1 h2
    have htop := linked_num_top W db (y :: l) A h
    obtain ⟨a, b, c, d⟩ := h
    have htl := linked_num_top W db l A d
    simp only [top_cons, List.length_cons] at htop h2
    by_cases hn : n = (W.blk y).num
    · exact ⟨y, by simp, hn.symm⟩
    · obtain ⟨x, hx, hx2⟩ := ih A d n h1 (by omega)
      exact ⟨x, List.mem_cons_of_mem _ hx, hx2⟩

theorem linked_inj (W : World) (db : DB) : ∀ (l : List Nat) (A : Nat), Linked W db l A → ∀ x ∈ l, ∀ x' ∈ l,
    (W.blk x).num = (W.blk x').num → x = x' := by
  intro l
  induction l with
  | nil => intro A _ x hx; cases hx
  | cons y l ih =>
    intro A h x hx x' hx' hnum
    have htop := linked_num_top W db (y :: l) A h
    have hall := linked_mem W db (y :: l) A h
    obtain ⟨a, b, c, d⟩ := h
    have htl := linked_num_top W db l A d
    have hl := linked_mem W db l A d
    simp only [top_cons, List.length_cons] at htop
    rcases List.mem_cons.1 hx with rfl | hx1 <;> rcases List.mem_cons.1 hx' with rfl | hx1'
    · rfl
    · have := (hl x' hx1').2.1; omega
    · have := (hl x hx1).2.1; omega
    · exact ih A d x hx1 x' hx1' hnum

theorem top_mem_or (l : List Nat) (A : Nat) : (l = [] ∧ top l A = A) ∨ top l A ∈ l := by
  cases l with
  | nil => left; exact ⟨rfl, rfl⟩
  | cons x l => right; simp

/-- a path that starts on the canonical chain at or below the head runs along the canonical chain -/
theorem linked_canon (W : World) (db : DB) (cur : Nat) (hi : IndexOK W db cur) : ∀ (l : List Nat) (A : Nat),
    Linked W db l A → (W.blk (top l A)).num ≤ (W.blk cur).num → db.canon (W.blk (top l A)).num = some (top l A) →
    (∀ x ∈ l, db.canon (W.blk x).num = some x) ∧ db.canon (W.blk A).num = some A := by
  intro l
  induction l with
  | nil => intro A _ _ h; exact ⟨fun x hx => (by cases hx), h⟩
  | cons y l ih =>
    intro A h hle hc
    obtain ⟨a, b, c, d⟩ := h
    simp only [top_cons] at hle hc
    have e := (getBlock_iff W db _ _).1 b
    obtain ⟨x, x1, _, x3, x4⟩ := hi.chain _ hle
    have hx : x = y := by rw [hc] at x1; exact (Option.some.inj x1).symm
    subst hx
    have hp := x4 (by omega)
    have := ih A d (by rw [← c, e.2.2]; omega) (by rw [← c, e.2.2]; exact hp)
    refine ⟨?_, this.2⟩
    intro z hz
    rcases List.mem_cons.1 hz with rfl | hz'
    · exact hc
    · exact this.1 z hz'

theorem linked_mono (W : World) (db db' : DB) (hb : db'.body = db.body) (hh : db'.hdr = db.hdr) :
    ∀ (l : List Nat) (A : Nat), Linked W db l A → Linked W db' l A := by
  intro l
  induction l with
  | nil => intro A _; trivial
  | cons y l ih =>
    intro A h
    obtain ⟨a, b, c, d⟩ := h
    refine ⟨a, ?_, c, ih A d⟩
    simpa [getBlock, hasHeader, hasBody, hb, hh] using b

end YouVerif.C11
