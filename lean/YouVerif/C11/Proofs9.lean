/-
C11 — not wedged, assembled.
-/
import YouVerif.C11.Proofs8
namespace YouVerif.C11

theorem wbs_ok_facts (W : World) (nd : Node) (id : Nat) (h : (writeBlockWithState W nd id).ok = true) :
    (∃ b, (writeBlockWithState W nd id).ws = (blockWrites id ++ [Wr.state (W.blk id).root]) ++ [b]) ∧
    (writeBlockWithState W nd id).nd.cur = id ∧ (writeBlockWithState W nd id).nd.fut = nd.fut.erase id ∧
    (writeBlockWithState W nd id).nd.db.headHdr = some id := by
  unfold writeBlockWithState at h ⊢
  simp only [] at h ⊢
  split
  · refine ⟨⟨_, rfl⟩, rfl, rfl, ?_⟩
    simp only [write_db, DB.applyAll, List.foldl, DB.apply]
    rw [applyOps_append]; simp [headOps, DB.applyOps, DB.applyOp]
  · rename_i hp
    simp only [hp, if_false] at h
    split
    · rename_i hr; simp only [write_db] at hr; simp [hr] at h
    · refine ⟨⟨_, rfl⟩, rfl, rfl, ?_⟩
      simp only [write_db, DB.applyAll, List.foldl, DB.apply]
      rw [applyOps_append]; simp [headOps, DB.applyOps, DB.applyOp]

theorem engineVerdict_ok_transfer (W : World) (db db' : DB) (id : Nat) (h : engineVerdict W db id none id = .ok)
    (h1 : (canonHdr W db' (if (W.blk id).num > 8 then (W.blk id).num - 8 else 0)).isSome = true)
    (h2 : hasHeader W db' (W.blk id).parent ((W.blk id).num - 1) = true)
    (h3 : canonHdr W db' (W.blk id).num = some id) : engineVerdict W db' id none id = .ok := by
  unfold engineVerdict at h ⊢
  by_cases hs : W.strict = true
  · simp only [hs, Bool.not_true, Bool.false_eq_true, if_false] at h ⊢
    simp only [h1, h2, h3] at h ⊢
    repeat' split at h
    all_goals first | (exact absurd h (by decide)) | simp_all [Option.isSome_iff_ne_none]
  · simp [hs]

/-- The node that never crashed and the node that crashed after k primitive writes, restarted and was offered the
    interrupted block again. -/
theorem not_wedged_core (W : World) (nd : Node) (id : Nat) (hg : (W.blk genesisId).num = 0)
    (hinv : NodeInv W nd) (hd : Direct W nd id) (hfresh : ∀ n, nd.db.canon n ≠ some id) (k : Nat) :
    ∃ r, recover W (nd.db.applyAll ((insertChain W nd [id]).ws.take k)) = some r ∧
      (insertChain W r.nd [id]).nd.db = (insertChain W nd [id]).nd.db ∧
      (insertChain W r.nd [id]).nd.cur = (insertChain W nd [id]).nd.cur ∧
      (insertChain W nd [id]).nd.cur = id ∧
      (insertChain W r.nd [id]).nd.fut = [] ∧ (insertChain W nd [id]).nd.fut = nd.fut.erase id := by
  have hrun := insertChain_direct W nd id hd
  obtain ⟨⟨b, hws⟩, hcur, hfut, hhh⟩ := wbs_ok_facts W nd id hd.wbsOk
  have hnumP := validateBody_num W nd.db id hd.body
  have hinvR : NodeInv W (writeBlockWithState W nd id).nd := wbs_nodeInv W nd id hinv (fun hp => by rw [← hp]; exact hnumP)
  have hsound : (writeBlockWithState W nd id).nd.db = nd.db.applyAll (writeBlockWithState W nd id).ws := wbs_sound W nd id
  rw [hrun]
  simp only []
  by_cases hk : k ≤ 4
  · -- crash inside the data writes
    have htake : (writeBlockWithState W nd id).ws.take k = (blockWrites id ++ [Wr.state (W.blk id).root]).take k := by
      rw [hws]; exact List.take_append_of_le_length (by simp [blockWrites]; exact hk)
    rw [htake]
    have hdata : ∀ w ∈ (blockWrites id ++ [Wr.state (W.blk id).root]).take k, DataWrite w :=
      fun w hw => pre_data id _ w (List.mem_of_mem_take hw)
    obtain ⟨hck, hhk⟩ := consistent_applyAll_data W nd.cur _ nd.db hdata hinv.1
    obtain ⟨r, hr, _⟩ := recover_of_dbinv W _ hg nd.cur (hhk.trans hinv.2) hck
    obtain ⟨e1, e2, e3⟩ := recover_db_of_dbinv W _ hg nd.cur (hhk.trans hinv.2) hck r hr
    obtain ⟨hext, hcompl⟩ := crashed_ext W nd.db id nd.cur k hk
    rw [← e2] at hext hcompl
    obtain ⟨c1, c2, c3⟩ := wbs_congr W nd r.nd id (some nd.cur) e1 hcompl hd.wbsOk
    have hd' := direct_ext W nd r.nd id hd e1 hext hfresh c3
    refine ⟨r, hr, ?_⟩
    rw [insertChain_direct W r.nd id hd']
    simp only []
    refine ⟨c1, c2, hcur, ?_, hfut⟩
    rw [(wbs_ok_facts W r.nd id c3).2.2.1, e3]; rfl
  · -- crash after the batch: the import was complete
    have htake : (writeBlockWithState W nd id).ws.take k = (writeBlockWithState W nd id).ws := by
      apply List.take_of_length_le; rw [hws]; simp [blockWrites]; omega
    rw [htake, ← hsound]
    replace hinvR : Consistent W (writeBlockWithState W nd id).nd.db id ∧ (writeBlockWithState W nd id).nd.db.headBlk = some id := by
      have := hinvR; unfold NodeInv at this; rwa [hcur] at this
    obtain ⟨r, hr, _⟩ := recover_of_dbinv W _ hg id hinvR.2 hinvR.1
    obtain ⟨e1, e2, e3⟩ := recover_db_of_dbinv W _ hg id hinvR.2 hinvR.1 r hr
    have hdbr : r.nd.db = (writeBlockWithState W nd id).nd.db := by
      rw [e2]
      have := db_headHdr_self (writeBlockWithState W nd id).nd.db (some id) hhh
      simpa [DB.applyAll, DB.apply] using this
    have hcons := hinvR.1
    rw [← hdbr] at hcons
    -- facts about the completed database
    have hstored := hcons.index.headStored
    have hcanId : canonHdr W r.nd.db (W.blk id).num = some id := by
      simp [canonHdr, hcons.index.canonHead, hasHeader, hstored.2.1]
    have hcanSome : ∀ n, n ≤ (W.blk id).num → (canonHdr W r.nd.db n).isSome = true := by
      intro n hn
      obtain ⟨x, x1, x2, x3, _⟩ := hcons.index.chain n hn
      simp [canonHdr, x1, hasHeader, x2.2, x3]
    have hparHdr : hasHeader W r.nd.db (W.blk id).parent ((W.blk id).num - 1) = true := by
      obtain ⟨x, x1, _, _, x4⟩ := hcons.index.chain (W.blk id).num (Nat.le_refl _)
      have hx : x = id := by rw [hcons.index.canonHead] at x1; exact (Option.some.inj x1).symm
      subst hx
      obtain ⟨y, y1, y2, y3, _⟩ := hcons.index.chain ((W.blk x).num - 1) (by omega)
      have : y = (W.blk x).parent := by rw [x4 (by have := hd.num0; omega)] at y1; exact (Option.some.inj y1).symm
      subst this
      simp [hasHeader, y2.2, y3]
    have hv' : engineVerdict W r.nd.db id none id = .ok :=
      engineVerdict_ok_transfer W nd.db r.nd.db id hd.verdict (hcanSome _ (by split <;> omega)) hparHdr hcanId
    have hb' : validateBody W r.nd.db id = .known := by
      unfold validateBody
      simp [hasBlockAndState, getBlock, hasHeader, hasBody, hstored.1, hstored.2.1, hcons.state, hcanId]
    have hknown := insertChain_known W r.nd id hd.num0 (hcanSome _ (by omega)) hv' hb'
    refine ⟨r, hr, ?_⟩
    rw [hknown]
    exact ⟨hdbr, by rw [e1, hcur], hcur, e3, hfut⟩

theorem node_ext (a b : Node) (h1 : a.db = b.db) (h2 : a.cur = b.cur) (h3 : a.fut = b.fut) : a = b := by
  cases a; cases b; simp_all

end YouVerif.C11
