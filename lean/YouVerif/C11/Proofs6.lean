/-
C11 — WriteBlockWithState in general, and the induction through insertChain's dispatch: a state predicate that every
step preserves holds after any import, and every crash prefix of the import's write list is safe.
-/
import YouVerif.C11.Proofs5
namespace YouVerif.C11

theorem nodeInv_dbInv (W : World) (nd : Node) (h : NodeInv W nd) : DBInv W nd.db := ⟨nd.cur, h.2, h.1⟩

theorem pre_data (id r : Nat) : ∀ w ∈ blockWrites id ++ [Wr.state r], DataWrite w := by
  intro w hw; simp [blockWrites] at hw; rcases hw with h | h | h | h <;> subst h <;> simp [DataWrite]

theorem pre_effect (db : DB) (id r : Nat) :
    Stored (db.applyAll (blockWrites id ++ [Wr.state r])) id ∧ (db.applyAll (blockWrites id ++ [Wr.state r])).st r = true := by
  simp [DB.applyAll, blockWrites, DB.apply, Stored, upd]

/-- WriteBlockWithState keeps the node invariant (head-extending, reorganising, or failing in reorg) -/
theorem wbs_nodeInv (W : World) (nd : Node) (id : Nat) (h : NodeInv W nd)
    (hnum : (W.blk id).parent = nd.cur → (W.blk id).num = (W.blk nd.cur).num + 1) :
    NodeInv W (writeBlockWithState W nd id).nd := by
  by_cases hp : (W.blk id).parent = nd.cur
  · obtain ⟨h1, h2⟩ := wbs_extend_consistent W nd id hp (hnum hp) h.1
    have hc := (wbs_extend_db W nd id hp).choose_spec.2.2.1
    unfold NodeInv
    rw [hc]
    exact ⟨h1, h2⟩
  · obtain ⟨hcons1, hhb1⟩ := consistent_applyAll_data W nd.cur _ nd.db (pre_data id (W.blk id).root) h.1
    obtain ⟨hst, hroot⟩ := pre_effect nd.db id (W.blk id).root
    unfold writeBlockWithState
    simp only [hp, if_false]
    cases hr : reorgChains W (nd.write (blockWrites id ++ [Wr.state (W.blk id).root])).db nd.cur id with
    | none =>
      simp only []
      exact ⟨by simpa using hcons1, by simpa using hhb1.trans h.2⟩
    | some p =>
      obtain ⟨oc, nc⟩ := p
      obtain ⟨A, l1, l2, l3, l4⟩ := reorg_spec W _ _ _ _ _ hr
      simp only [write_db] at l1 l2
      have hrc : ∀ op ∈ (if (W.blk id).txs.isEmpty = true then [] else [BOp.rcpt id]), ∃ j, op = BOp.rcpt j := by
        intro op hop; split at hop
        · cases hop
        · simp at hop; exact ⟨id, hop⟩
      have := batch_reorg_consistent W _ nd.cur id oc nc A _ hrc hcons1 hst hroot l1 l2 l3 l4
      simp only []
      unfold NodeInv
      simpa [DB.applyAll, DB.apply] using this

theorem wbs_ws_shape (W : World) (nd : Node) (id : Nat) :
    ∃ tail, (writeBlockWithState W nd id).ws = (blockWrites id ++ [Wr.state (W.blk id).root]) ++ tail ∧
      (tail = [] ∨ ∃ b, tail = [b]) := by
  unfold writeBlockWithState
  simp only []
  split
  · exact ⟨_, rfl, Or.inr ⟨_, rfl⟩⟩
  · split
    · exact ⟨[], by simp, Or.inl rfl⟩
    · exact ⟨_, rfl, Or.inr ⟨_, rfl⟩⟩

theorem safe_nil (W : World) (db : DB) (h : DBInv W db) : SafeWrites W db [] := by
  intro k; simpa using h

theorem wbs_safe (W : World) (nd : Node) (id : Nat) (h : NodeInv W nd) (h' : NodeInv W (writeBlockWithState W nd id).nd) :
    SafeWrites W nd.db (writeBlockWithState W nd id).ws := by
  have hs : (writeBlockWithState W nd id).nd.db = nd.db.applyAll (writeBlockWithState W nd id).ws := wbs_sound W nd id
  obtain ⟨tail, e, ht⟩ := wbs_ws_shape W nd id
  rw [e] at hs ⊢
  rcases ht with rfl | ⟨b, rfl⟩
  · simpa using safe_data W nd.db _ (pre_data id _) (nodeInv_dbInv W nd h)
  · apply safe_data_then_batch W nd.db _ b (pre_data id _) (nodeInv_dbInv W nd h)
    rw [← hs]; exact nodeInv_dbInv W _ h'

theorem processBlock_cases (W : World) (nd : Node) (prev : Option Nat) (id : Nat) (r : Res)
    (h : processBlock W nd prev id = some r) : (r.nd = nd ∧ r.ws = []) ∨ r = writeBlockWithState W nd id := by
  unfold processBlock at h
  simp only [] at h
  repeat' split at h
  all_goals (cases h <;> first | exact Or.inr rfl | exact Or.inl ⟨rfl, rfl⟩)

theorem validateBody_num (W : World) (db : DB) (id : Nat) (h : validateBody W db id = .ok) :
    (W.blk id).num = (W.blk (W.blk id).parent).num + 1 := by
  obtain ⟨_, h2, h3⟩ := validateBody_ok W db id h
  simp only [hasBlockAndState, Bool.and_eq_true] at h3
  have := ((getBlock_iff W db _ _).1 h3.1).2.2
  omega

theorem processBlock_nodeInv (W : World) (nd : Node) (prev : Option Nat) (id : Nat) (r : Res) (h : NodeInv W nd)
    (hv : validateBody W nd.db id = .ok) (hp : processBlock W nd prev id = some r) : NodeInv W r.nd := by
  rcases processBlock_cases W nd prev id r hp with ⟨e, _⟩ | e
  · rw [e]; exact h
  · rw [e]
    apply wbs_nodeInv W nd id h
    intro hpar
    rw [← hpar]; exact validateBody_num W nd.db id hv

theorem processBlock_safe (W : World) (nd : Node) (prev : Option Nat) (id : Nat) (r : Res) (h : NodeInv W nd)
    (h' : NodeInv W r.nd) (hp : processBlock W nd prev id = some r) : SafeWrites W nd.db r.ws := by
  rcases processBlock_cases W nd prev id r hp with ⟨_, e⟩ | e
  · rw [e]; exact safe_nil W nd.db (nodeInv_dbInv W nd h)
  · subst e; exact wbs_safe W nd id h h'

theorem sideWrites_data (W : World) : ∀ (ch : List Nat) (db : DB), ∀ w ∈ sideWrites W db ch, DataWrite w := by
  intro ch
  induction ch with
  | nil => intro db w hw; cases hw
  | cons id rest ih =>
    intro db w hw
    simp only [sideWrites] at hw
    split at hw
    · rcases List.mem_append.1 hw with h | h
      · simp [blockWrites] at h; rcases h with h | h | h <;> subst h <;> simp [DataWrite]
      · exact ih _ w h
    · exact ih _ w hw

-- ---- the induction through the dispatch -------------------------------------------------------------------------------

/-- every crash prefix of a write list leaves a database satisfying `Q` -/
def SafeQ (Q : DB → Prop) (db : DB) (ws : List Wr) : Prop := ∀ k, Q (db.applyAll (ws.take k))

theorem safeQ_nil (Q : DB → Prop) (db : DB) (h : Q db) : SafeQ Q db [] := by
  intro k; simpa using h

theorem safeQ_append (Q : DB → Prop) (db : DB) (a b : List Wr) (ha : SafeQ Q db a) (hb : SafeQ Q (db.applyAll a) b) :
    SafeQ Q db (a ++ b) := by
  intro k
  by_cases hk : k ≤ a.length
  · rw [List.take_append_of_le_length hk]; exact ha k
  · have : (a ++ b).take k = a ++ b.take (k - a.length) := by
      rw [List.take_append]
      congr 1
      exact List.take_of_length_le (by omega)
    rw [this, applyAll_append]
    exact hb _

theorem safeQ_pres (Q : DB → Prop) (R : Wr → Prop) (hpres : ∀ db w, Q db → R w → Q (db.apply w)) :
    ∀ (ws : List Wr) (db : DB), (∀ w ∈ ws, R w) → Q db → SafeQ Q db ws := by
  intro ws
  induction ws with
  | nil => intro db _ h; exact safeQ_nil Q db h
  | cons w rest ih =>
    intro db hall h k
    cases k with
    | zero => simpa using h
    | succ n =>
      have := ih (db.apply w) (fun x hx => hall x (by simp [hx])) (hpres db w h (hall w (by simp))) n
      simpa [DB.applyAll] using this

theorem safeQ_single (Q : DB → Prop) (db : DB) (w : Wr) (h0 : Q db) (h1 : Q (db.apply w)) : SafeQ Q db [w] := by
  intro k
  cases k with
  | zero => simpa using h0
  | succ n => simpa [DB.applyAll] using h1

theorem safeWrites_eq (W : World) (db : DB) (ws : List Wr) : SafeWrites W db ws = SafeQ (DBInv W) db ws := rfl

/-- what a node predicate `P` and a database predicate `Q` must satisfy so that `P` survives every import and `Q` holds
    at every crash prefix of it -/
structure StepOK (W : World) (P : Node → Prop) (Q : DB → Prop) : Prop where
  qinv : ∀ nd, P nd → Q nd.db
  fut : ∀ nd f, P nd → P { nd with fut := f }
  side : ∀ nd ch, P nd → P (nd.write (sideWrites W nd.db ch))
  qside : ∀ nd ch, P nd → SafeQ Q nd.db (sideWrites W nd.db ch)
  proc : ∀ nd prev id r, P nd → validateBody W nd.db id = .ok → processBlock W nd prev id = some r → P r.nd
  qproc : ∀ nd prev id r, P nd → validateBody W nd.db id = .ok → processBlock W nd prev id = some r → SafeQ Q nd.db r.ws

/-- the predicate holds after the run, the write list is sound, and every crash prefix of it is safe -/
def Good (P : Node → Prop) (Q : DB → Prop) (nd0 : Node) (r : Res) : Prop :=
  P r.nd ∧ r.nd.db = nd0.db.applyAll r.ws ∧ SafeQ Q nd0.db r.ws

theorem good_refl (W : World) (P : Node → Prop) (Q : DB → Prop) (hP : StepOK W P Q) (nd : Node) (h : P nd) (ok : Bool) :
    Good P Q nd { nd := nd, ws := [], ok := ok } :=
  ⟨h, rfl, safeQ_nil Q nd.db (hP.qinv nd h)⟩

theorem insertLoop_good (W : World) (P : Node → Prop) (Q : DB → Prop) (hP : StepOK W P Q) (side : Node → List Nat → Res)
    (hside : ∀ nd ch, P nd → Good P Q nd (side nd ch)) (nd0 : Node) :
    ∀ (vs : List (Nat × Verdict)) (nd : Node) (prev : Option Nat) (first : Bool) (acc : List Wr),
      P nd → nd.db = nd0.db.applyAll acc → SafeQ Q nd0.db acc →
      Good P Q nd0 (insertLoop W side nd vs prev first acc) := by
  intro vs
  induction vs with
  | nil => intro nd prev first acc h1 h2 h3; exact ⟨h1, h2, h3⟩
  | cons hd rest ih =>
    intro nd prev first acc h1 h2 h3
    obtain ⟨id, v⟩ := hd
    have hstop : ∀ ok, Good P Q nd0 { nd := nd, ws := acc, ok := ok } := fun ok => ⟨h1, h2, h3⟩
    have hcomb : ∀ (r : Res), r.nd.db = nd.db.applyAll r.ws → SafeQ Q nd.db r.ws →
        (r.nd.db = nd0.db.applyAll (acc ++ r.ws) ∧ SafeQ Q nd0.db (acc ++ r.ws)) := by
      intro r hs hsafe
      refine ⟨by rw [hs, h2, applyAll_append], safeQ_append Q nd0.db acc r.ws h3 (by rw [← h2]; exact hsafe)⟩
    have hproc : validateBody W nd.db id = .ok →
        Good P Q nd0 (match processBlock W nd prev id with
          | none => insertLoop W side nd rest (some id) false acc
          | some r => if r.ok then insertLoop W side r.nd rest (some id) false (acc ++ r.ws)
                      else { nd := r.nd, ws := acc ++ r.ws, ok := false }) := by
      intro hv
      cases hp : processBlock W nd prev id with
      | none => exact ih _ _ _ _ h1 h2 h3
      | some r =>
        have hPr := hP.proc nd prev id r h1 hv hp
        have hsound : r.nd.db = nd.db.applyAll r.ws := processBlock_sound W nd prev id r hp
        have hsafe := hP.qproc nd prev id r h1 hv hp
        obtain ⟨c1, c2⟩ := hcomb r hsound hsafe
        simp only []
        split
        · exact ih _ _ _ _ hPr c1 c2
        · exact ⟨hPr, c1, c2⟩
    have hsideacc : ∀ ch, Good P Q nd0 { nd := (side nd ch).nd, ws := acc ++ (side nd ch).ws, ok := (side nd ch).ok } := by
      intro ch
      obtain ⟨s1, s2, s3⟩ := hside nd ch h1
      obtain ⟨c1, c2⟩ := hcomb (side nd ch) s2 s3
      exact ⟨s1, c1, c2⟩
    unfold insertLoop
    simp only []
    split
    · exact ih _ _ _ _ h1 h2 h3
    · split
      · exact hstop _
      · exact ih _ _ _ _ (hP.fut nd _ h1) h2 h3
    · split
      · exact ih _ _ _ _ (hP.fut nd _ h1) h2 h3
      · exact hstop _
    · exact hsideacc _
    · split
      · exact hsideacc _
      · split
        · rename_i hv; exact hproc hv
        · exact hstop _
    · exact hstop _
    · rename_i heq
      apply hproc
      by_cases hvo : v = .ok
      · simpa [hvo] using heq
      · simp [hvo] at heq

theorem insertSide_good (W : World) (P : Node → Prop) (Q : DB → Prop) (hP : StepOK W P Q) (rec : Node → List Nat → Res)
    (hrec : ∀ nd ch, P nd → Good P Q nd (rec nd ch)) (nd : Node) (ch : List Nat) (h : P nd) :
    Good P Q nd (insertSide W rec nd ch) := by
  have hP1 := hP.side nd (stripCanon W nd.db ch) h
  have hsafe1 := hP.qside nd (stripCanon W nd.db ch) h
  have hmid : ∀ ok, Good P Q nd (Res.mk (nd.write (sideWrites W nd.db (stripCanon W nd.db ch)))
      (sideWrites W nd.db (stripCanon W nd.db ch)) ok) := fun ok => ⟨hP1, rfl, hsafe1⟩
  unfold insertSide
  simp only []
  split
  · exact good_refl W P Q hP nd h _
  · split
    · exact good_refl W P Q hP nd h _
    · split
      · exact hmid _
      · split
        · exact hmid _
        · exact hmid _
        · split
          · exact hmid _
          · obtain ⟨r1, r2, r3⟩ := hrec (nd.write (sideWrites W nd.db (stripCanon W nd.db ch))) _ hP1
            refine ⟨r1, ?_, ?_⟩
            · simp only []; rw [r2, applyAll_append]; rfl
            · exact safeQ_append Q nd.db _ _ hsafe1 r3

theorem insertChainV_good (W : World) (P : Node → Prop) (Q : DB → Prop) (hP : StepOK W P Q) :
    ∀ (fuel : Nat) (nd : Node) (ch : List Nat), P nd → Good P Q nd (insertChainV W fuel nd ch) := by
  intro fuel
  induction fuel with
  | zero => intro nd ch h; exact good_refl W P Q hP nd h _
  | succ n ih =>
    intro nd ch h
    unfold insertChainV
    exact insertLoop_good W P Q hP _ (fun nd' ch' h' => insertSide_good W P Q hP _ ih nd' ch' h') nd _ nd _ _ _ h rfl
      (safeQ_nil Q nd.db (hP.qinv nd h))

theorem insertChain_good (W : World) (P : Node → Prop) (Q : DB → Prop) (hP : StepOK W P Q) (nd : Node) (ch : List Nat)
    (h : P nd) : Good P Q nd (insertChain W nd ch) := by
  unfold insertChain
  split
  · exact good_refl W P Q hP nd h _
  · split
    · exact good_refl W P Q hP nd h _
    · split
      · exact good_refl W P Q hP nd h _
      · exact insertChainV_good W P Q hP 3 nd _ h

/-- the node invariant with the persistent invariant is such a pair -/
theorem stepOK_nodeInv (W : World) : StepOK W (NodeInv W) (DBInv W) where
  qinv := fun nd h => nodeInv_dbInv W nd h
  fut := fun _ _ h => h
  side := by
    intro nd ch h
    obtain ⟨a, b⟩ := consistent_applyAll_data W nd.cur _ nd.db (sideWrites_data W ch nd.db) h.1
    exact ⟨a, b.trans h.2⟩
  qside := fun nd ch h => safe_data W nd.db _ (sideWrites_data W ch nd.db) (nodeInv_dbInv W nd h)
  proc := fun nd prev id r h hv hp => processBlock_nodeInv W nd prev id r h hv hp
  qproc := fun nd prev id r h hv hp =>
    processBlock_safe W nd prev id r h (processBlock_nodeInv W nd prev id r h hv hp) hp

end YouVerif.C11
