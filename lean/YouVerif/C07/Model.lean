/-
C07 — executable ledger model of go-youchain's native-token movements (protocol version V5 branches).

Hand-written from: core/message_context.go (buyGas/refundGas), core/state_processor.go (ApplyTransaction,
GasRewards), core/state_transition.go, staking/tx_converter.go, staking/handler.go, staking/delegation_handler.go,
staking/take_effect_handler.go, staking/endblock.go, staking/slash.go (doPenalize/takePenalty),
staking/slash_youv5.go (inactivity), core/state/statedb_val.go + statedb.go (validator replace / delete-when-empty),
core/state/statedb_staking.go (pending records).  Core Lean only.

Conventions: `*big.Int` ↦ `Int`; addresses ↦ `Nat` ids (0 = the zero address); Go `panic`/`logging.Crit` ↦ `crash`;
`UpdateValidator(newVal, old)` ↦ `putVal` (replaces the stored object by `newVal`, whatever is stored now — this is
what makes the stale-object defect F-C07a expressible); map iteration order of the staking-record trie is an input.
The EVM is opaque: a contract call is an observed outcome (failed, gas, refund, burn, extra moves).
-/
namespace YouVerif.C07

abbrev Addr := Nat

/-! ## association lists -/

def getI : List (Addr × Int) → Addr → Int
  | [], _ => 0
  | (k, v) :: t, a => if k = a then v else getI t a

def addI : List (Addr × Int) → Addr → Int → List (Addr × Int)
  | [], a, x => [(a, x)]
  | (k, v) :: t, a, x => if k = a then (k, v + x) :: t else (k, v) :: addI t a x

def sumI : List (Addr × Int) → Int
  | [] => 0
  | (_, v) :: t => v + sumI t

def getN : List (Addr × Nat) → Addr → Nat
  | [], _ => 0
  | (k, v) :: t, a => if k = a then v else getN t a

def setN : List (Addr × Nat) → Addr → Nat → List (Addr × Nat)
  | [], a, x => [(a, x)]
  | (k, v) :: t, a, x => if k = a then (k, x) :: t else (k, v) :: setN t a x

/-! ## records -/

structure Deleg where
  who : Addr
  token : Int
  stake : Int
  deriving Repr, BEq, DecidableEq

structure Val where
  addr : Addr
  operator : Addr
  coinbase : Addr
  role : Nat            -- 1 chancellor, 2 senator, 3 house
  status : Nat          -- 1 online
  token : Int
  stake : Int
  selfToken : Int
  selfStake : Int
  rewards : Int         -- RewardsDistributable
  lastSettled : Nat
  commission : Nat
  risk : Nat
  accept : Nat
  expelled : Bool
  expelExpired : Nat
  lastInactive : Nat
  lastActive : Nat
  delegs : List Deleg   -- kept sorted by delegator id
  deriving Repr, BEq, DecidableEq

structure WRec where
  validator : Addr
  delegator : Addr      -- 0 = the validator's own stake
  recipient : Addr
  final : Int
  finished : Bool
  completion : Nat
  deriving Repr, BEq, DecidableEq

/-- A pending staking transaction as the take-effect handlers see it. `kind` is the staking ActionType. -/
structure PTx where
  kind : Nat
  sender : Addr
  val : Addr
  value : Int := 0
  aux : Addr := 0       -- recipient (withdraw) / coinbase (create)
  a : Nat := 0          -- status (change status) / role (create) / commission (update)
  b : Nat := 0          -- commission (create) / risk (update)
  c : Nat := 0          -- risk (create) / accept (update)
  d : Nat := 0          -- accept (create)
  nonce : Nat := 0
  deriving Repr, BEq, DecidableEq

structure PRec where
  d : Addr
  v : Addr
  final : Int
  txs : List PTx
  deriving Repr, BEq, DecidableEq

structure Params where
  unit : Int := 1000000000000000000
  minStake : Nat → Nat := fun r => if r = 1 then 1000 else if r = 2 then 500 else 100
  maxStake : Nat → Nat := fun r => if r = 1 then 1000000 else if r = 2 then 180000 else 150000
  minSelf : Nat → Nat := fun r => if r = 3 then 0 else 500
  ratio : Nat → Nat := fun r => if r = 3 then 4 else 3
  maxRewardsPeriod : Nat := 8
  freq : Nat := 16
  withdrawDelay : Nat := 64
  retention : Nat := 64
  expelInactive : Nat := 64
  expelDoubleSign : Nat := 256
  penaltyDoubleSign : Nat := 2
  penaltyPct : Nat := 1
  waitRounds : Nat := 32
  minDelegation : Int := 10000000000000000000
  maxDlgVal : Nat := 20
  maxDlgDel : Nat := 10
  subsidyThreshold : Nat := 15000000000000000000
  subsidyCoeff : Nat := 5
  poolAddr : Addr := 1
  penAddr : Addr := 2
  valCreationGas : Nat := 900000

structure St where
  bal : List (Addr × Int) := []
  nonce : List (Addr × Nat) := []
  vals : List Val := []
  pool1 : Int := 0
  pool2 : Int := 0
  pool3 : Int := 0
  residue : Int := 0
  queue : List WRec := []
  recs : List PRec := []
  rels : List (Addr × Addr) := []
  fees : Int := 0        -- header.GasRewards of the block under construction
  burnt : Int := 0       -- tokens destroyed by self-destruct-to-self (ledger sink)
  gasPool : Nat := 0
  number : Nat := 0
  dsSeen : List Addr := []   -- validators already punished for double signing in the block under construction
  lost : Int := 0        -- diagnostic: rewards overwritten by stale-object settlement in the last end-block (F-C07a)
  lostDel : Int := 0     -- diagnostic: undistributed rewards of validators removed as empty in the last end-block (F-C07d)
  lostOther : Int := 0   -- diagnostic (ghost): value lost on paths no realistic chain reaches: "empty stake" at a period end,
                         -- a visiting order that does not cover the pending records, create on an existing validator,
                         -- a negative withdrawal amount

/-- `big.Int.Uint64()`: the low 64 bits of the absolute value -/
def u64 (x : Int) : Int := ((x.natAbs % 18446744073709551616 : Nat) : Int)

/-! ## validators -/

def getVal : List Val → Addr → Option Val
  | [], _ => none
  | v :: t, a => if v.addr = a then some v else getVal t a

/-- `UpdateValidator(newVal, _)` / `setValidator`: the stored object is replaced (or added). -/
def putVal : List Val → Val → List Val
  | [], n => [n]
  | v :: t, n => if v.addr = n.addr then n :: t else v :: putVal t n

def valMoney (v : Val) : Int := v.token + v.rewards

def sumVals : List Val → Int
  | [] => 0
  | v :: t => valMoney v + sumVals t

def getDeleg : List Deleg → Addr → Option Deleg
  | [], _ => none
  | d :: t, a => if d.who = a then some d else getDeleg t a

/-- `UpdateDelegationFrom`: delete when empty, replace when present, else sorted insert. -/
def putDeleg : List Deleg → Deleg → List Deleg
  | [], n => if n.token = 0 ∧ n.stake = 0 then [] else [n]
  | d :: t, n =>
    if d.who = n.who then (if n.token = 0 ∧ n.stake = 0 then t else n :: t)
    else if n.who < d.who then (if n.token = 0 ∧ n.stake = 0 then d :: t else n :: d :: t)
    else d :: putDeleg t n

/-- what a withdraw record is still worth: processWithdrawQueue never pays a finished record nor a non-positive amount -/
def unfinishedVal (r : WRec) : Int := if r.finished ∨ r.final ≤ 0 then 0 else r.final

def sumUnfinished : List WRec → Int
  | [] => 0
  | r :: t => unfinishedVal r + sumUnfinished t

def detains (k : Nat) : Bool := k = 1 || k = 3 || k = 16

def txsValue : List PTx → Int
  | [] => 0
  | t :: r => (if detains t.kind then t.value else 0) + txsValue r

def pendingValue : List PRec → Int
  | [] => 0
  | r :: t => txsValue r.txs + pendingValue t

/-- The conserved quantity (DESIGN "C07"): balances + staked tokens + validators' undistributed rewards + role pools +
global residue + unfinished withdrawals + tokens detained by pending transactions + fees in flight + burnt. -/
def total (s : St) : Int :=
  sumI s.bal + sumVals s.vals + s.pool1 + s.pool2 + s.pool3 + s.residue + sumUnfinished s.queue
    + pendingValue s.recs + s.fees + s.burnt

def credit (s : St) (a : Addr) (x : Int) : St := { s with bal := addI s.bal a x }
def balOf (s : St) (a : Addr) : Int := getI s.bal a

inductive Out where
  | ok | crash
  deriving Repr, BEq, DecidableEq

/-! ## pending records -/

def getRec : List PRec → Addr → Addr → Option PRec
  | [], _, _ => none
  | r :: t, d, v => if r.d = d ∧ r.v = v then some r else getRec t d v

def recFinal (rs : List PRec) (d v : Addr) : Int := match getRec rs d v with | some r => r.final | none => 0

/-- `AddStakingRecord(d, v, txHash, newFinalValue)`: `fin = none` keeps the value, `tx = none` is the zero hash. -/
def addRec : List PRec → Addr → Addr → Option PTx → Option Int → List PRec
  | [], d, v, tx, fin => [{ d := d, v := v, final := fin.getD 0, txs := tx.toList }]
  | r :: t, d, v, tx, fin =>
    if r.d = d ∧ r.v = v then { r with final := fin.getD r.final, txs := r.txs ++ tx.toList } :: t
    else r :: addRec t d v tx fin

def relExists (rels : List (Addr × Addr)) (d v : Addr) : Bool := rels.any (fun p => p.1 = d && p.2 = v)
def relCountD (rels : List (Addr × Addr)) (d : Addr) : Nat := (rels.filter (fun p => p.1 = d)).length
def relCountV (rels : List (Addr × Addr)) (v : Addr) : Nat := (rels.filter (fun p => p.2 = v)).length
def delegatesTo (vs : List Val) (d : Addr) : Nat := (vs.filter (fun v => (getDeleg v.delegs d).isSome)).length

/-! ## pending handlers (staking/handler.go, delegation_handler.go). `none` = the handler returns an error. -/

def isOperator (v : Val) (a : Addr) : Bool := a = v.operator && a ≠ 0

def overMax (p : Params) (role : Nat) (tokens : Int) : Bool :=
  p.maxStake role > 0 && u64 (tokens / p.unit) > (p.maxStake role : Int)

/-- checkAndUpdateTotalPendingStakesOfValidator -/
def updTotalPending (p : Params) (s : St) (v : Val) (delta : Int) : Option St :=
  let cur := recFinal s.recs 0 v.addr
  let tot := (if cur = 0 then v.token else cur) + delta
  if delta > 0 ∧ overMax p v.role tot then none
  else some { s with recs := addRec s.recs 0 v.addr none (some tot) }

def handle (p : Params) (s : St) (t : PTx) : Option St :=
  let from_ := t.sender
  match t.kind with
  | 1 => -- create: a role, b commission, c risk, d accept, aux coinbase, val = new main address
    if ¬ (1 ≤ t.a ∧ t.a ≤ 3) ∨ t.value ≤ 0 ∨ t.d > 1 ∨ t.b > 10000 ∨ t.c > 10000 ∨ t.aux = 0 ∨ from_ = 0 then none
    else if u64 (t.value / p.unit) < (p.minSelf t.a : Int) then none
    else if overMax p t.a t.value then none
    else if t.val = 0 then none
    else if (getVal s.vals t.val).isSome then none
    else if (getRec s.recs 0 t.val).isSome then none
    else if balOf s from_ < t.value then none
    else some { credit s from_ (-t.value) with recs := addRec s.recs 0 t.val (some t) (some t.value) }
  | 2 => -- update: a commission, b risk, c accept (65535 = not set for PreCheck; 255 = keep for the handler)
    if (t.c ≠ 65535 ∧ t.c > 1) ∨ (t.a ≠ 65535 ∧ t.a > 10000) ∨ (t.b ≠ 65535 ∧ t.b > 10000) then none
    else match getVal s.vals t.val with
    | none => none
    | some v =>
      if ¬ isOperator v from_ then none
      else if (t.c ≠ 255 ∧ t.c ≠ v.accept) ∨ (t.a ≠ 65535 ∧ t.a ≠ v.commission) ∨ (t.b ≠ 65535 ∧ t.b ≠ v.risk) then
        some { s with recs := addRec s.recs 0 t.val (some t) none }
      else none
  | 3 => -- deposit
    if t.value ≤ 0 then none
    else match getVal s.vals t.val with
    | none => none
    | some v =>
      if ¬ isOperator v from_ then none
      else if balOf s from_ < t.value then none
      else
        let cur := recFinal s.recs 0 t.val
        let fin := (if cur = 0 then v.token else cur) + t.value
        if overMax p v.role fin then none
        else some { credit s from_ (-t.value) with recs := addRec s.recs 0 t.val (some t) (some fin) }
  | 4 => -- withdraw: aux recipient
    if t.aux = 0 ∨ t.value ≤ 0 then none
    else match getVal s.vals t.val with
    | none => none
    | some v =>
      if ¬ isOperator v from_ then none
      else
        let cur := recFinal s.recs 0 t.val
        let cur := if cur = 0 then v.selfToken else cur
        if cur < t.value then none
        else some { s with recs := addRec s.recs 0 t.val (some t) (some (cur - t.value)) }
  | 5 => -- change status: a status
    if t.a > 1 then none
    else match getVal s.vals t.val with
    | none => none
    | some v =>
      if ¬ isOperator v from_ then none
      else if (getRec s.recs 0 t.val).isSome then none
      else if v.expelled ∧ ((s.number / p.freq + 1) * p.freq - 1 < v.expelExpired) then none
      else if v.status = t.a then none
      else if t.a = 1 ∧ u64 v.stake < (p.minStake v.role : Int) then none
      else some { s with recs := addRec s.recs 0 t.val (some t) none }
  | 6 => -- settle
    match getVal s.vals t.val with
    | none => none
    | some v =>
      if ¬ isOperator v from_ then none
      else if v.status ≠ 1 then none
      else some { s with recs := addRec s.recs 0 t.val (some t) none }
  | 16 => -- delegation add
    if t.val = 0 ∨ t.value ≤ 0 then none
    else match getVal s.vals t.val with
    | none => none
    | some v =>
      let exist := (getDeleg v.delegs from_).isSome
      let pend := relExists s.rels from_ t.val
      if v.accept ≠ 1 then none
      else if v.expelled then none
      else if from_ = t.val then none
      else if t.value < p.minDelegation then none
      else if balOf s from_ < t.value then none
      else if ¬ (exist ∨ pend) ∧ (delegatesTo s.vals from_ + relCountD s.rels from_ ≥ p.maxDlgDel
                                  ∨ v.delegs.length + relCountV s.rels t.val ≥ p.maxDlgVal) then none
      else match updTotalPending p s v t.value with
      | none => none
      | some s1 =>
        let cur : Int :=
          if exist ∨ pend then
            let r := recFinal s1.recs from_ t.val
            if r = 0 then (match getDeleg v.delegs from_ with | some d => d.token | none => 0) else r
          else 0
        let s2 := credit s1 from_ (-t.value)
        let s3 := if exist ∨ pend then s2 else { s2 with rels := s2.rels ++ [(from_, t.val)] }
        some { s3 with recs := addRec s3.recs from_ t.val (some t) (some (cur + t.value)) }
  | 17 => -- delegation sub
    if t.val = 0 ∨ t.value ≤ 0 then none
    else match getVal s.vals t.val with
    | none => none
    | some v =>
      if from_ = t.val then none
      else
        let r := recFinal s.recs from_ t.val
        let cur? : Option Int :=
          if r = 0 then (match getDeleg v.delegs from_ with | some d => some d.token | none => none) else some r
        match cur? with
        | none => none
        | some cur =>
          if t.value > cur then none
          else match updTotalPending p s v (-t.value) with
          | none => none
          | some s1 => some { s1 with recs := addRec s1.recs from_ t.val (some t) (some (cur - t.value)) }
  | 18 => -- delegation settle
    if t.val = 0 then none
    else match getVal s.vals t.val with
    | none => none
    | some v =>
      if (getDeleg v.delegs from_).isNone then none
      else some { s with recs := addRec s.recs from_ t.val (some t) none }
  | _ => none

/-! ## transactions (core/state_processor.go ApplyMessageEntry + converters) -/

inductive TxBody where
  | transfer (to : Addr) (value : Int)
  /-- observed EVM outcome: value moved unless failed, `refund` gas handed back, extra moves, burnt amount -/
  | evm (to : Addr) (value : Int) (failed : Bool) (gasUsed refund : Nat) (burnt : Int) (moves : List (Addr × Addr × Int))
  | staking (decodeOK : Bool) (t : PTx)

structure Tx where
  sender : Addr
  nonce : Nat
  gasLimit : Nat
  price : Nat
  intrinsic : Nat
  body : TxBody

inductive TxOut where
  | skipped                          -- ApplyTransaction returned an error; the builder reverted to its snapshot
  | included (gasUsed : Nat) (failed : Bool)
  deriving Repr, BEq, DecidableEq

/-- charge the net fee and credit GasRewards. `gasCharged` is what the sender finally pays for (after refundGas),
`gasRewarded` what `gasRewards.Add(price * gas)` uses. In the code these differ by the EVM refund counter. -/
def settleGas (s : St) (t : Tx) (gasCharged gasRewarded : Nat) : St :=
  let s := credit s t.sender (-((gasCharged : Int) * (t.price : Int)))
  { s with fees := s.fees + (gasRewarded : Int) * (t.price : Int), gasPool := s.gasPool - t.gasLimit + (t.gasLimit - gasCharged) }

def applyMoves (s : St) : List (Addr × Addr × Int) → St
  | [] => s
  | (a, b, x) :: t => applyMoves (credit (credit s a (-x)) b x) t

/-- observed effect of an EVM call that did not fail: value, extra moves, burn -/
def evmEffect (s : St) (sender to : Addr) (value : Int) (failed : Bool) (burnt : Int) (moves : List (Addr × Addr × Int)) : St :=
  if failed then s
  else
    let s1 := applyMoves (credit (credit s sender (-value)) to value) moves
    { credit s1 to (-burnt) with burnt := s1.burnt + burnt }

/-- the message body after preCheck and intrinsic gas: `none` = ApplyTransaction returns an error (the builder reverts);
otherwise (state, gas the sender finally pays for, gas credited to GasRewards, failed). -/
def execBody (p : Params) (s : St) (t : Tx) : Option (St × Nat × Nat × Bool) :=
  match t.body with
  | .transfer to value =>
    if balOf s t.sender - (t.gasLimit : Int) * (t.price : Int) < value then none      -- vm.ErrInsufficientBalance
    else some (credit (credit s t.sender (-value)) to value, t.intrinsic, t.intrinsic, false)
  | .evm to value failed gasUsed refund burnt moves =>
    if balOf s t.sender - (t.gasLimit : Int) * (t.price : Int) < value then none
    else some (evmEffect s t.sender to value failed burnt moves, gasUsed - refund, gasUsed, failed)
  | .staking decodeOK pt =>
    if ¬ decodeOK then some (s, t.gasLimit, t.gasLimit, true)
    else if pt.kind = 1 ∧ t.gasLimit - t.intrinsic < p.valCreationGas then some (s, t.intrinsic, t.intrinsic, true)
    else
      let used := t.intrinsic + (if pt.kind = 1 then p.valCreationGas else 0)
      match handle p s pt with
      | none => some (s, t.gasLimit, t.gasLimit, true)
      | some s2 => some (s2, used, used, false)

def applyTx (p : Params) (s : St) (t : Tx) : St × TxOut :=
  if getN s.nonce t.sender ≠ t.nonce then (s, .skipped)
  else if balOf s t.sender < (t.gasLimit : Int) * (t.price : Int) then (s, .skipped)
  else if s.gasPool < t.gasLimit then (s, .skipped)
  else if t.gasLimit < t.intrinsic then (s, .skipped)
  else
    match execBody p { s with nonce := setN s.nonce t.sender (t.nonce + 1) } t with
    | none => (s, .skipped)
    | some (s2, charged, rewarded, failed) => (settleGas s2 t charged rewarded, .included rewarded failed)

/-! ## end block -/

def onlineCount (vs : List Val) (role : Nat) : Nat := (vs.filter (fun v => v.role = role && v.status = 1)).length
def onlineStake : List Val → Nat → Int
  | [], _ => 0
  | v :: t, role => (if v.role = role ∧ v.status = 1 then v.stake else 0) + onlineStake t role

def pos (x : Int) : Int := if x > 0 then x else 0

/-- blockRewards: the subsidy taken from the rewards pool account -/
def subsidyOf (p : Params) (s : St) : Int :=
  let dflt := s.fees + s.residue
  let poolBal := balOf s p.poolAddr
  if 0 ≤ dflt ∧ dflt < 18446744073709551616 ∧ dflt < p.subsidyThreshold ∧ poolBal > 0 then
    let want : Int := ((p.subsidyThreshold - dflt.toNat) / 10 * p.subsidyCoeff : Nat)
    if poolBal < want then poolBal else want
  else 0

def roleOn (vs : List Val) (r : Nat) : Bool := onlineCount vs r > 0
def portionsOf (p : Params) (vs : List Val) : Nat :=
  (if roleOn vs 1 then p.ratio 1 else 0) + (if roleOn vs 2 then p.ratio 2 else 0) + (if roleOn vs 3 then p.ratio 3 else 0)
def chamberShare (p : Params) (vs : List Val) (per : Int) : Int :=
  (if roleOn vs 1 then per * p.ratio 1 else 0) + (if roleOn vs 2 then per * p.ratio 2 else 0)
def houseShare (p : Params) (vs : List Val) (per : Int) : Int := if roleOn vs 3 then per * p.ratio 3 else 0

/-- rewardsToPool, V5 branch: chamber shares to the proposer, house share to the house pool, remainder to the residue -/
def distributeBlock (p : Params) (s : St) (pr : Val) (per res : Int) : St :=
  { s with vals := putVal s.vals { pr with lastActive := s.number, rewards := pr.rewards + chamberShare p s.vals per },
           pool3 := s.pool3 + houseShare p s.vals per, residue := res, fees := 0 }

/-- blockRewards + rewardsToPool (V5 branch) -/
def rewardsToPool (p : Params) (s : St) (coinbase : Addr) : St × Out :=
  let subsidy := subsidyOf p s
  let tot := pos s.fees + pos s.residue + pos subsidy
  let s1 := if subsidy > 0 then credit s p.poolAddr (-subsidy) else s
  if tot ≤ 0 then (s1, .ok)
  else if portionsOf p s1.vals = 0 then (s1, .crash)       -- QuoRem by zero panics
  else match getVal s1.vals coinbase with
    | none => (s1, .crash)                                 -- logging.Crit: proposer not in the validator set
    | some pr => (distributeBlock p s1 pr (tot / portionsOf p s1.vals) (tot % portionsOf p s1.vals), .ok)

/-- pay `per * stake` to every delegator; returns the new balances and what is left of `tot` -/
def payDelegs (bal : List (Addr × Int)) (per : Int) (tot : Int) : List Deleg → List (Addr × Int) × Int
  | [] => (bal, tot)
  | d :: t => payDelegs (addI bal d.who (per * d.stake)) per (tot - per * d.stake) t

/-- the distribution part of settleValidatorRewards, for given commission, per-stake reward and expected residue -/
def settleMain (s : St) (v : Val) (commission per residue : Int) : St × Out :=
  let selfReward := per * v.selfStake
  let r := payDelegs (addI s.bal v.coinbase (selfReward + commission)) per (v.rewards - commission - selfReward) v.delegs
  if r.2 ≠ residue then (s, .crash)              -- logging.Crit "validator rewards distribution fatal"
  else
    ({ s with bal := if v.status ≠ 1 then addI r.1 v.coinbase residue else r.1,
              vals := putVal s.vals { v with rewards := if v.status ≠ 1 then 0 else residue, lastSettled := s.number } }, .ok)

/-- settleValidatorRewards(ctx, val, currRound): `v` is the object the caller holds, which `putVal` writes back. -/
def settle (s : St) (v : Val) : St × Out :=
  if v.stake = 0 ∧ v.rewards > 0 then
    ({ credit s v.coinbase v.rewards with vals := putVal s.vals { v with rewards := 0, lastSettled := s.number } }, .ok)
  else if v.stake = 0 ∨ v.rewards = 0 then (s, .ok)
  else
    let commission : Int := if v.commission > 0 then v.rewards * v.commission / 10000 else 0
    settleMain s v commission ((v.rewards - commission) / v.stake) ((v.rewards - commission) % v.stake)

/-! ### penalties (slash.go) -/

/-- result of the first phase of takePenalty: (queue, selfRest, delegator shares, taken, remaining) -/
abbrev TQ := List WRec × Int × List (Addr × Int) × Int × Int
def consQ (r : WRec) (x : TQ) : TQ := (r :: x.1, x.2)

/-- first phase of takePenalty: take from the validator's unfinished withdraw records.
`selfRest`/`dl` are the shares still to be taken. -/
def takeFromQueue (va : Addr) : List WRec → Int → List (Addr × Int) → Int → Int → TQ
  | [], selfRest, dl, taken, remaining => ([], selfRest, dl, taken, remaining)
  | r :: t, selfRest, dl, taken, remaining =>
    if remaining ≤ 0 then (r :: t, selfRest, dl, taken, remaining)
    else if r.validator ≠ va ∨ r.finished then consQ r (takeFromQueue va t selfRest dl taken remaining)
    else if r.delegator ≠ 0 ∧ ¬ dl.any (fun e => e.1 = r.delegator) then consQ r (takeFromQueue va t selfRest dl taken remaining)
    else if (if r.delegator ≠ 0 then getI dl r.delegator else selfRest) ≤ 0 then consQ r (takeFromQueue va t selfRest dl taken remaining)
    else if (if r.final ≥ (if r.delegator ≠ 0 then getI dl r.delegator else selfRest) then (if r.delegator ≠ 0 then getI dl r.delegator else selfRest) else r.final) ≤ 0 then
      consQ r (takeFromQueue va t selfRest dl taken remaining)
    else
      let take := if r.final ≥ (if r.delegator ≠ 0 then getI dl r.delegator else selfRest) then (if r.delegator ≠ 0 then getI dl r.delegator else selfRest) else r.final
      consQ { r with final := r.final - take }
        (takeFromQueue va t (if r.delegator ≠ 0 then selfRest else selfRest - take)
          (if r.delegator ≠ 0 then addI dl r.delegator (-take) else dl) (taken + take) (remaining - take))

/-- second phase over delegations: returns (delegs, tokenTaken, stakeTaken, remaining) -/
def takeFromDelegs (unit : Int) (dl : List (Addr × Int)) : List Deleg → Int → List Deleg × Int × Int × Int
  | [], remaining => ([], 0, 0, remaining)
  | d :: t, remaining =>
    if remaining ≤ 0 then (d :: t, 0, 0, remaining)
    else
      let rest := getI dl d.who
      let take := if d.token ≥ rest then rest else d.token
      if rest > 0 ∧ take > 0 then
        let nt := d.token - take
        let ns := nt / unit
        let (ds, tt, st, rem) := takeFromDelegs unit dl t (remaining - take)
        let d' : Deleg := { d with token := nt, stake := ns }
        ((if nt = 0 ∧ ns = 0 then ds else d' :: ds), tt + take, st + (d.stake - ns), rem)
      else
        let (ds, tt, st, rem) := takeFromDelegs unit dl t remaining
        (d :: ds, tt, st, rem)

/-- second phase of takePenalty: from the validator's own stake, then from the delegations.
`tq` is the outcome of the first phase; returns (new validator object, total penalty). -/
def takeFromStake (unit : Int) (v : Val) (tq : TQ) : Val × Int :=
  if tq.2.2.2.2 > 0 then
    let selfRest := tq.2.1
    let takeSelf := if selfRest > 0 then (if v.selfToken ≥ selfRest then selfRest else v.selfToken) else 0
    let takeSelf := if takeSelf > 0 then takeSelf else 0
    let nSelf := v.selfToken - takeSelf
    let nSelfStake := if takeSelf > 0 then nSelf / unit else v.selfStake
    let r := takeFromDelegs unit tq.2.2.1 v.delegs (tq.2.2.2.2 - takeSelf)
    ({ v with selfToken := nSelf, selfStake := nSelfStake, token := v.token - takeSelf - r.2.1,
              stake := v.stake - (v.selfStake - nSelfStake) - r.2.2.1, delegs := r.1 }, tq.2.2.2.1 + takeSelf + r.2.1)
  else (v, tq.2.2.2.1)

/-- takePenalty(currentDB, val, penaltyAmount) for amount > 0: (queue, newVal, totalPenalty). A validator whose parts are all
below one stake unit has Stake = 0 < Token: nothing to prorate by, the whole amount is remainder and is borne by the
validator itself (repo fix 2215675; before it QuoRem panicked). -/
def takePenalty (unit : Int) (queue : List WRec) (v : Val) (amount : Int) : List WRec × Val × Int :=
  let obligation : Int := if v.risk > 0 ∧ v.risk ≤ 10000 then amount * v.risk / 10000 else 0
  let per : Int := if v.stake = 0 then 0 else (amount - obligation) / v.stake
  let rem : Int := if v.stake = 0 then amount - obligation else (amount - obligation) % v.stake
  let tq := takeFromQueue v.addr queue (per * v.selfStake + rem + obligation) (v.delegs.map (fun d => (d.who, per * d.stake))) 0 amount
  (tq.1, takeFromStake unit v tq)

/-- the expelling part of doPenalize; `ds` = double-sign evidence (longer expulsion, LastInactive untouched) -/
def expel (p : Params) (ds : Bool) (n : Nat) (nv : Val) : Val :=
  { nv with status := 0, expelled := true, lastInactive := if ds then nv.lastInactive else n,
            expelExpired := if n + (if ds then p.expelDoubleSign else p.expelInactive) > nv.expelExpired
                            then n + (if ds then p.expelDoubleSign else p.expelInactive) else nv.expelExpired }

/-- doPenalize (takePenalty + expel + credit PenaltyTo). `v` is the stored object. -/
def penalize (p : Params) (s : St) (v : Val) (amount : Int) (ds : Bool := false) : St × Out :=
  if amount > 0 then
    let r := takePenalty p.unit s.queue v amount
    (credit { s with queue := r.1, vals := putVal s.vals (expel p ds s.number r.2.1) } p.penAddr r.2.2, .ok)
  else (credit { s with vals := putVal s.vals (expel p ds s.number v), lostOther := s.lostOther - amount } p.penAddr amount, .ok)   -- amount ≤ 0 (= 0 on any real state)

/-- one validator of slashingAndRecoveringYouV5; `v` is the stored object -/
def slashOne (p : Params) (s : St) (v : Val) : St × Out :=
  if v.expelled ∧ v.expelExpired < s.number then
    ({ s with vals := putVal s.vals { v with expelled := false, expelExpired := 0 } }, .ok)
  else if v.role = 3 ∨ v.status ≠ 1 then (s, .ok)
  else if s.number - v.lastActive ≤ p.waitRounds then (s, .ok)
  else penalize p s v (if p.penaltyPct > 0 then v.token * p.penaltyPct / 100 else 0)

/-- slashingAndRecoveringYouV5: GetValidatorsForUpdate hands out the live objects in index order; an iteration only
touches its own validator, so the object it holds is the one stored when its turn comes -/
def slashLoop (p : Params) : List Addr → St → St × Out
  | [], s => (s, .ok)
  | a :: t, s =>
    match getVal s.vals a with
    | none => slashLoop p t s
    | some v => match slashOne p s v with
      | (s', .ok) => slashLoop p t s'
      | r => r

structure RoleRec where
  per : Int
  residue : Int
  left : Int

def poolOf (s : St) (role : Nat) : Int := if role = 1 then s.pool1 else if role = 2 then s.pool2 else s.pool3

def roleRec (s : St) (role : Nat) : Option RoleRec :=
  if onlineCount s.vals role = 0 then some { per := 0, residue := 0, left := 0 }   -- role skipped
  else
    let cnt : Int := if role = 3 then (onlineCount s.vals role : Int) else onlineStake s.vals role
    if cnt = 0 then none                                                            -- QuoRem by zero panics
    else some { per := poolOf s role / cnt, residue := poolOf s role % cnt, left := poolOf s role }

def forced (p : Params) (v : Val) (n : Nat) : Bool :=
  v.lastSettled < n && v.lastSettled + p.maxRewardsPeriod * p.freq ≤ n

/-- settleValidatorRewards writes its argument back unless it returns early -/
def settleWrites (v : Val) : Bool := (v.stake = 0 ∧ v.rewards > 0) ∨ (v.stake ≠ 0 ∧ v.rewards ≠ 0)

/-- what is left of the three role records: (chancellor, senator, house) -/
abbrev Lefts := Int × Int × Int
def leftOf (l : Lefts) (role : Nat) : Int := if role = 1 then l.1 else if role = 2 then l.2.1 else l.2.2
def subLeft (l : Lefts) (role : Nat) (x : Int) : Lefts :=
  if role = 1 then (l.1 - x, l.2) else if role = 2 then (l.1, l.2.1 - x, l.2.2) else (l.1, l.2.1, l.2.2 - x)

/-- what an online validator receives: equal shares for House, by stake for the chamber roles -/
def rwOf (per : Nat → Int) (v : Val) : Int := if v.role = 3 then per 3 else per v.role * v.stake

/-- AddTotalRewards + UpdateValidator, then the forced settlement when it is due -/
def distOnline (p : Params) (s : St) (v : Val) (rw : Int) : St × Out :=
  if forced p v s.number then
    -- DEFECT F-C07a: settleValidatorRewards is called with the pre-update object `v`, whose write-back
    -- overwrites the rewards just added.
    ({ (settle { s with vals := putVal s.vals { v with rewards := v.rewards + rw } } v).1 with
         lost := (settle { s with vals := putVal s.vals { v with rewards := v.rewards + rw } } v).1.lost + (if settleWrites v then rw else 0) },
     (settle { s with vals := putVal s.vals { v with rewards := v.rewards + rw } } v).2)
  else ({ s with vals := putVal s.vals { v with rewards := v.rewards + rw } }, .ok)

/-- one validator of the distributeRewards loop; `v` is the stored object -/
def distOne (p : Params) (per : Nat → Int) (s : St) (v : Val) (lefts : Lefts) : St × Lefts × Out :=
  if v.status ≠ 1 then ((settle s v).1, lefts, (settle s v).2)
  else if v.role < 1 ∨ v.role > 3 then (s, lefts, .crash)                 -- rewardsRecord[val.Role] is nil: nil dereference
  else if leftOf (subLeft lefts v.role (rwOf per v)) v.role < 0 then (s, lefts, .crash)   -- logging.Crit "not enough rewards to distribute"
  else ((distOnline p s v (rwOf per v)).1, subLeft lefts v.role (rwOf per v), (distOnline p s v (rwOf per v)).2)

/-- the loop of distributeRewards -/
def distLoop (p : Params) (per : Nat → Int) : List Addr → St → Lefts → St × Lefts × Out
  | [], s, lefts => (s, lefts, .ok)
  | a :: t, s, lefts =>
    match getVal s.vals a with
    | none => distLoop p per t s lefts
    | some v => match distOne p per s v lefts with
      | (s', lefts', .ok) => distLoop p per t s' lefts'
      | r => r

/-- `stat.ResetRewards(record.residue)` for the roles that have online validators -/
def resetPools (vs : List Val) (s' : St) (x1 x2 x3 : Int) : St :=
  { s' with pool1 := (if roleOn vs 1 then x1 else s'.pool1), pool2 := (if roleOn vs 2 then x2 else s'.pool2),
            pool3 := (if roleOn vs 3 then x3 else s'.pool3) }

def distribute (p : Params) (s : St) : St × Out × Bool :=
  if onlineStake s.vals 1 + onlineStake s.vals 2 + onlineStake s.vals 3 ≤ 0 then (s, .ok, false)   -- "empty stake": endStakingPeriod stops here
  else match roleRec s 1, roleRec s 2, roleRec s 3 with
  | some r1, some r2, some r3 =>
    match distLoop p (fun r => if r = 1 then r1.per else if r = 2 then r2.per else r3.per) (s.vals.map (·.addr)) s (r1.left, r2.left, r3.left) with
    | (s', lefts', .ok) =>
      if lefts'.1 ≠ r1.residue ∨ lefts'.2.1 ≠ r2.residue ∨ lefts'.2.2 ≠ r3.residue then (s', .crash, true)  -- "wrong residue"
      else
        (resetPools s.vals s' r1.residue r2.residue r3.residue, .ok, true)
    | (s', _, o) => (s', o, true)
  | _, _, _ => (s, .crash, true)

/-- one record of processWithdrawQueue: (updated record, amount released to the recipient) -/
def payRec (n : Nat) (r : WRec) : WRec × Int :=
  if r.final ≤ 0 then ({ r with finished := true }, 0)                       -- no more token for withdrawing
  else if r.completion < n ∧ ¬ r.finished then ({ r with finished := true }, r.final)
  else (r, 0)

/-- discard rule; the uint64 subtraction wraps when the record is not yet mature -/
def discardRec (p : Params) (n : Nat) (r : WRec) : Bool :=
  r.finished && decide ((if n ≥ r.completion then n - r.completion else n + 18446744073709551616 - r.completion) > p.retention)

/-- processWithdrawQueue -/
def processQueue (p : Params) (n : Nat) : List WRec → List (Addr × Int) → List WRec × List (Addr × Int)
  | [], bal => ([], bal)
  | r :: t, bal =>
    let rest := processQueue p n t (addI bal r.recipient (payRec n r).2)
    if discardRec p n (payRec n r).1 then rest else ((payRec n r).1 :: rest.1, rest.2)

/-- UpdateDelegation(d, val, delta): returns the new validator object -/
def updateDelegation (unit : Int) (v : Val) (d : Addr) (delta : Int) : Val :=
  if delta = 0 then v
  else
    match getDeleg v.delegs d with
    | none =>
      if delta < 0 then v
      else
        let nd : Deleg := { who := d, token := delta, stake := delta / unit }
        { v with token := v.token + delta, stake := v.stake + nd.stake, delegs := putDeleg v.delegs nd }
    | some df =>
      let nt := df.token + delta
      let ns := nt / unit
      { v with token := v.token + delta, stake := v.stake + (ns - df.stake), delegs := putDeleg v.delegs { df with token := nt, stake := ns } }

/-- teDelegationSub: the amount actually withdrawn (capped by the delegation; everything when the rest would fall
below MinDelegationTokens) -/
def subAmount (p : Params) (df : Deleg) (value : Int) : Int :=
  let w := if value > df.token then df.token else value
  if df.token - w > 0 ∧ df.token - w < p.minDelegation then w + (df.token - w) else w

def offIfLow (p : Params) (nv : Val) : Val :=
  if nv.status = 1 ∧ u64 nv.stake < (p.minStake nv.role : Int) then { nv with status := 0 } else nv

/-- teDelegationSub: UpdateDelegation(-w), forced offline when the total stake falls below MinStakes, withdraw record -/
def subEffect (p : Params) (s : St) (v : Val) (sender : Addr) (w : Int) : St :=
  { s with vals := putVal s.vals (offIfLow p (updateDelegation p.unit v sender (-w))),
           queue := s.queue ++ [{ validator := v.addr, delegator := sender, recipient := sender, final := w, finished := false,
                                  completion := s.number + p.withdrawDelay }] }

/-- take-effect handlers (V5) -/
def takeEffect (p : Params) (s : St) (t : PTx) : St × Out :=
  let n := s.number
  match t.kind with
  | 1 =>
    if (getVal s.vals t.val).isSome then ({ s with lostOther := s.lostOther + t.value }, .ok)   -- CreateValidator returns nil: value gone
    else
      let st := t.value / p.unit
      let v : Val := { addr := t.val, operator := t.sender, coinbase := t.aux, role := t.a, status := 0, token := t.value, stake := st,
                       selfToken := t.value, selfStake := st, rewards := 0, lastSettled := 0, commission := t.b, risk := t.c, accept := t.d,
                       expelled := false, expelExpired := 0, lastInactive := 0, lastActive := 0, delegs := [] }
      ({ s with vals := putVal s.vals v }, .ok)
  | 2 =>
    match getVal s.vals t.val with
    | none => (s, .crash)
    | some v =>
      let v := { v with accept := if t.c ≠ 255 then t.c else v.accept, commission := if t.a ≠ 65535 then t.a else v.commission,
                        risk := if t.b ≠ 65535 then t.b else v.risk }
      ({ s with vals := putVal s.vals v }, .ok)
  | 3 =>
    match getVal s.vals t.val with
    | none => (s, .crash)
    | some v =>
      let nSelf := v.selfToken + t.value
      let nSelfStake := nSelf / p.unit
      let nv := { v with selfToken := nSelf, selfStake := nSelfStake, token := v.token + t.value, stake := v.stake + (nSelfStake - v.selfStake) }
      if p.maxStake v.role > 0 ∧ u64 nv.stake > (p.maxStake v.role : Int) then (credit s t.sender t.value, .ok)   -- V5 refund
      else ({ s with vals := putVal s.vals nv }, .ok)
  | 4 =>
    match getVal s.vals t.val with
    | none => (s, .crash)
    | some v =>
      let w : Int :=
        if t.value > v.selfToken then v.selfToken
        else if u64 ((v.selfToken - t.value) / p.unit) < (p.minSelf v.role : Int) then v.selfToken
        else t.value
      let nSelf := v.selfToken - w
      let nSelfStake := nSelf / p.unit
      let delta := v.selfStake - nSelfStake
      let off := v.status = 1 ∧ (u64 nSelfStake < (p.minSelf v.role : Int) ∨ u64 v.stake < (p.minStake v.role : Int) + u64 delta)
      let nv := { v with selfToken := nSelf, selfStake := nSelfStake, status := if off then 0 else v.status,
                         token := v.token - w, stake := v.stake - delta }
      let r : WRec := { validator := v.addr, delegator := 0, recipient := t.aux, final := w, finished := false, completion := n + p.withdrawDelay }
      ({ s with vals := putVal s.vals nv, queue := s.queue ++ [r], lostOther := s.lostOther + (if w < 0 then w else 0) }, .ok)
  | 5 =>
    match getVal s.vals t.val with
    | none => (s, .crash)
    | some v =>
      if t.a = 1 ∧ u64 v.stake < (p.minStake v.role : Int) then (s, .ok)
      else ({ s with vals := putVal s.vals { v with status := t.a, lastActive := n } }, .ok)
  | 16 =>
    match getVal s.vals t.val with
    | none => (s, .crash)
    | some v =>
      if v.expelled ∨ v.accept = 0 then (credit s t.sender t.value, .ok)                                        -- V5 refund
      else if p.maxStake v.role > 0 ∧ u64 ((v.token + t.value) / p.unit) > (p.maxStake v.role : Int) then (credit s t.sender t.value, .ok)
      else ({ s with vals := putVal s.vals (updateDelegation p.unit v t.sender t.value) }, .ok)
  | 17 =>
    match getVal s.vals t.val with
    | none => (s, .crash)
    | some v =>
      match getDeleg v.delegs t.sender with
      | none => (s, .ok)
      | some df =>
        if (if t.value > df.token then df.token else t.value) ≤ 0 then (s, .ok)
        else (subEffect p s v t.sender (subAmount p df t.value), .ok)
  | _ => (s, .ok)

def takeEffects (p : Params) : List PTx → St → St × Out
  | [], s => (s, .ok)
  | t :: r, s => match takeEffect p s t with
    | (s', .ok) => takeEffects p r s'
    | x => x

/-- settle-before-take-effect of processPendingTxs -/
def settleFirst (s : St) (settled : List Addr) (va : Addr) : St × Out :=
  if settled.contains va then (s, .ok)
  else match getVal s.vals va with
    | some v => settle s v
    | none => (s, .ok)

/-- processPendingTxs: records visited in the given order; `settled` = validators already settled in this block -/
def pendingLoop (p : Params) : List PRec → List Addr → St → St × Out
  | [], _, s => (s, .ok)
  | r :: t, settled, s =>
    match settleFirst s settled r.v with
    | (s1, .crash) => (s1, .crash)
    | (s1, .ok) =>
      match takeEffects p r.txs s1 with
      | (s2, .ok) => pendingLoop p t (r.v :: settled) s2
      | x => x

def settledSet (p : Params) (vs : List Val) (n : Nat) : List Addr :=
  (vs.filter (fun v => v.status ≠ 1 || forced p v n)).map (·.addr)

def orderRecs (recs : List PRec) : List (Addr × Addr) → List PRec
  | [] => []
  | (d, v) :: t => (match getRec recs d v with | some r => [r] | none => []) ++ orderRecs recs t

def isInvalid (v : Val) : Bool := u64 v.token ≤ 0 && u64 v.stake ≤ 0

def removedMoney : List Val → Int
  | [] => 0
  | v :: t => (if isInvalid v then valMoney v else 0) + removedMoney t

/-- IntermediateRoot(deleteEmptyObjects = true): validators with no token and no stake are deleted — together with
whatever undistributed rewards they still hold (DEFECT F-C07d). -/
def removeInvalid (s : St) : St :=
  { s with vals := s.vals.filter (fun v => ¬ isInvalid v), lostDel := removedMoney s.vals }

/-- endStakingPeriod after the pending records `pend` have been taken out of the staking trie (nothing but
processPendingTxs reads them during the hook; the trie is reset for the next block anyway) -/
def periodEnd (p : Params) (s : St) (pend : List PRec) : St × Out :=
  match slashLoop p (s.vals.map (·.addr)) s with
  | (s, .crash) => (s, .crash)
  | (s, .ok) =>
    match distribute p s with
    | (s', .crash, _) => (s', .crash)
    | (s', .ok, false) => ({ s' with lostOther := s'.lostOther + pendingValue pend }, .ok)   -- "empty stake": nothing takes effect
    | (s', .ok, true) =>
      pendingLoop p pend (settledSet p s.vals s.number)
        { s' with queue := (processQueue p s'.number s'.queue s'.bal).1, bal := (processQueue p s'.number s'.queue s'.bal).2 }

/-- take the pending records out in the visiting order given by the staking trie -/
def takePending (s : St) (order : List (Addr × Addr)) : St :=
  { s with recs := [], rels := [], lostOther := s.lostOther + (pendingValue s.recs - pendingValue (orderRecs s.recs order)) }

/-- EndBlock (V5, no evidence) + IntermediateRoot's removal of empty validators + staking-trie reset at a period end. -/
def endBlock (p : Params) (s : St) (coinbase : Addr) (order : List (Addr × Addr)) : St × Out :=
  match rewardsToPool p { s with lost := 0, lostDel := 0, lostOther := 0 } coinbase with
  | (s1, .crash) => (s1, .crash)
  | (s1, .ok) =>
    if (s1.number + 1) % p.freq ≠ 0 then (removeInvalid s1, .ok)
    else
      match periodEnd p (takePending s1 order) (orderRecs s1.recs order) with
      | (s2, .crash) => (s2, .crash)
      | (s2, .ok) => (removeInvalid s2, .ok)

/-! ## operations and runs -/

/-- processDoubleSignV5 for an evidence whose signatures verified against validator `a` of the look-back set (crypto and
look-back resolution are the harness' observation; C05 models them): once per validator and block, 2 % of the token -/
def evidenceStep (p : Params) (s : St) (a : Addr) : St × Out :=
  if s.dsSeen.contains a then (s, .ok)
  else match getVal s.vals a with
    | none => (s, .ok)
    | some v =>
      ((penalize p { s with dsSeen := a :: s.dsSeen } v (v.token * p.penaltyDoubleSign / 100) true).1,
       (penalize p { s with dsSeen := a :: s.dsSeen } v (v.token * p.penaltyDoubleSign / 100) true).2)

inductive Op where
  | beginBlock (number gasLimit : Nat)
  | tx (t : Tx)
  | evidence (a : Addr)
  | endBlock (coinbase : Addr) (order : List (Addr × Addr))

def step (p : Params) (s : St) : Op → St × Out
  | .beginBlock n g => ({ s with number := n, gasPool := g, dsSeen := [] }, .ok)
  | .evidence a => evidenceStep p s a
  | .tx t => ((applyTx p s t).1, .ok)
  | .endBlock cb order => endBlock p s cb order

def run (p : Params) : St → List Op → St × Out
  | s, [] => (s, .ok)
  | s, o :: t => match step p s o with
    | (s', .ok) => run p s' t
    | x => x

end YouVerif.C07
