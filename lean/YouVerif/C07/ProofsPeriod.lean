/-
C07 helper lemmas for the staking-period end: every phase of endStakingPeriod preserves
`tl s = total s + s.lost + s.lostOther` (the conserved quantity plus the ghost loss counters) and a frame.
-/
import YouVerif.C07.Proofs
namespace YouVerif.C07

/-- the conserved quantity plus the ghost loss counters of the running end-block -/
def tl (s : St) : Int := total s + s.lost + s.lostOther

/-- fields no phase of endStakingPeriod (except the pool reset of distributeRewards) touches -/
def Frame (s s' : St) : Prop :=
  s'.pool1 = s.pool1 ∧ s'.pool2 = s.pool2 ∧ s'.pool3 = s.pool3 ∧ s'.residue = s.residue ∧ s'.fees = s.fees ∧ s'.number = s.number
    ∧ s'.recs = s.recs

theorem Frame.refl (s : St) : Frame s s := ⟨rfl, rfl, rfl, rfl, rfl, rfl, rfl⟩
theorem Frame.trans {a b c : St} (h1 : Frame a b) (h2 : Frame b c) : Frame a c := by
  obtain ⟨a1, a2, a3, a4, a5, a6, a7⟩ := h1
  obtain ⟨b1, b2, b3, b4, b5, b6, b7⟩ := h2
  exact ⟨b1.trans a1, b2.trans a2, b3.trans a3, b4.trans a4, b5.trans a5, b6.trans a6, b7.trans a7⟩

/-! ### settleValidatorRewards, handed any object -/

theorem settleMain_acct (s : St) (v : Val) (c per res : Int) (hok : (settleMain s v c per res).2 = .ok) :
    tl (settleMain s v c per res).1 = tl s + (valMoney v - storedMoney s.vals v.addr) ∧ Frame s (settleMain s v c per res).1 := by
  unfold settleMain at *
  simp only at *
  have hp := payDelegs_spec (addI s.bal v.coinbase (per * v.selfStake + c)) per (v.rewards - c - per * v.selfStake) v.delegs
  split
  · simp_all
  · rename_i hne
    simp at hne
    simp only [sumI_addI] at hp
    refine ⟨?_, by simp [Frame]⟩
    split <;> simp [tl, total, sumI_addI, sumVals_putVal, valMoney, *] <;> omega

theorem settle_acct (s : St) (v : Val) (hok : (settle s v).2 = .ok) :
    tl (settle s v).1 = tl s + (if settleWrites v then valMoney v - storedMoney s.vals v.addr else 0) ∧ Frame s (settle s v).1 := by
  by_cases h1 : v.stake = 0 ∧ v.rewards > 0
  · have hs : settle s v = ({ credit s v.coinbase v.rewards with vals := putVal s.vals { v with rewards := 0, lastSettled := s.number } }, .ok) := by
      simp [settle, h1]
    have hw : settleWrites v = true := by simp [settleWrites, h1]
    rw [hs, hw]
    refine ⟨?_, by simp [Frame, credit]⟩
    simp [tl, total, credit, sumI_addI, sumVals_putVal, valMoney]; omega
  · by_cases h2 : v.stake = 0 ∨ v.rewards = 0
    · have hs : settle s v = (s, .ok) := by simp [settle, h1, h2]
      have hw : settleWrites v = false := by
        simp only [settleWrites, decide_eq_false_iff_not]
        rintro (h | h)
        · exact h1 h
        · rcases h2 with h2 | h2
          · exact h.1 h2
          · exact h.2 h2
      rw [hs, hw]; exact ⟨by simp, Frame.refl s⟩
    · have hs : settle s v = settleMain s v (if v.commission > 0 then v.rewards * v.commission / 10000 else 0)
          ((v.rewards - (if v.commission > 0 then v.rewards * v.commission / 10000 else 0)) / v.stake)
          ((v.rewards - (if v.commission > 0 then v.rewards * v.commission / 10000 else 0)) % v.stake) := by
        simp [settle, h1, h2]
      have hw : settleWrites v = true := by
        simp only [settleWrites, decide_eq_true_eq]
        right; exact ⟨fun h => h2 (Or.inl h), fun h => h2 (Or.inr h)⟩
      rw [hs] at hok ⊢
      rw [hw]
      simpa using settleMain_acct s v _ _ _ hok

/-- the stored object: conservation -/
theorem settle_stored (s : St) (v : Val) (h : getVal s.vals v.addr = some v) (hok : (settle s v).2 = .ok) :
    tl (settle s v).1 = tl s ∧ Frame s (settle s v).1 := by
  have := settle_acct s v hok
  rw [storedMoney_of_get h] at this
  refine ⟨?_, this.2⟩
  rw [this.1]; split <;> omega

/-! ### takePenalty / doPenalize -/

@[simp] theorem consQ_fst (r : WRec) (x : TQ) : (consQ r x).1 = r :: x.1 := rfl
@[simp] theorem consQ_taken (r : WRec) (x : TQ) : (consQ r x).2.2.2.1 = x.2.2.2.1 := rfl

/-- whatever the first phase takes out of withdraw records is counted in `taken` -/
theorem takeFromQueue_spec (va : Addr) (q : List WRec) (sr : Int) (dl : List (Addr × Int)) (taken rem : Int) :
    sumUnfinished (takeFromQueue va q sr dl taken rem).1 + (takeFromQueue va q sr dl taken rem).2.2.2.1 = sumUnfinished q + taken := by
  induction q generalizing sr dl taken rem with
  | nil => simp [takeFromQueue, sumUnfinished]
  | cons r t ih =>
    have ih1 := ih sr dl taken rem
    unfold takeFromQueue
    generalize (if r.delegator ≠ 0 then getI dl r.delegator else sr) = rest
    by_cases c1 : rem ≤ 0
    · rw [if_pos c1]
    rw [if_neg c1]
    by_cases c2 : r.validator ≠ va ∨ r.finished
    · rw [if_pos c2]; simp only [consQ_fst, consQ_taken, sumUnfinished]; omega
    rw [if_neg c2]
    by_cases c3 : r.delegator ≠ 0 ∧ ¬ dl.any (fun e => e.1 = r.delegator)
    · rw [if_pos c3]; simp only [consQ_fst, consQ_taken, sumUnfinished]; omega
    rw [if_neg c3]
    by_cases c4 : rest ≤ 0
    · rw [if_pos c4]; simp only [consQ_fst, consQ_taken, sumUnfinished]; omega
    rw [if_neg c4]
    by_cases c5 : (if r.final ≥ rest then rest else r.final) ≤ 0
    · rw [if_pos c5]; simp only [consQ_fst, consQ_taken, sumUnfinished]; omega
    rw [if_neg c5]
    simp only [consQ_fst, consQ_taken, sumUnfinished]
    have ih2 := ih (if r.delegator ≠ 0 then sr else sr - (if r.final ≥ rest then rest else r.final))
      (if r.delegator ≠ 0 then addI dl r.delegator (-(if r.final ≥ rest then rest else r.final)) else dl)
      (taken + (if r.final ≥ rest then rest else r.final)) (rem - (if r.final ≥ rest then rest else r.final))
    have hf : r.finished = false := by
      cases h : r.finished
      · rfl
      · exact absurd (Or.inr h) c2
    have hu : unfinishedVal { r with final := r.final - (if r.final ≥ rest then rest else r.final) } + (if r.final ≥ rest then rest else r.final)
        = unfinishedVal r := by
      simp only [unfinishedVal, hf, Bool.false_eq_true, false_or]
      split at c5 <;> split <;> split <;> omega
    omega

theorem takeFromStake_money (u : Int) (v : Val) (tq : TQ) :
    valMoney (takeFromStake u v tq).1 + (takeFromStake u v tq).2 = valMoney v + tq.2.2.2.1 ∧ (takeFromStake u v tq).1.addr = v.addr := by
  unfold takeFromStake
  split
  · simp [valMoney]; omega
  · simp

theorem takePenalty_core (u : Int) (q : List WRec) (v : Val) (amount sp : Int) (dl : List (Addr × Int)) :
    sumUnfinished (takeFromQueue v.addr q sp dl 0 amount).1 + valMoney (takeFromStake u v (takeFromQueue v.addr q sp dl 0 amount)).1
        + (takeFromStake u v (takeFromQueue v.addr q sp dl 0 amount)).2 = sumUnfinished q + valMoney v
      ∧ (takeFromStake u v (takeFromQueue v.addr q sp dl 0 amount)).1.addr = v.addr := by
  have h1 := takeFromQueue_spec v.addr q sp dl 0 amount
  have h2 := takeFromStake_money u v (takeFromQueue v.addr q sp dl 0 amount)
  exact ⟨by omega, h2.2⟩

theorem takePenalty_spec (u : Int) (q : List WRec) (v : Val) (amount : Int) :
    sumUnfinished (takePenalty u q v amount).1 + valMoney (takePenalty u q v amount).2.1 + (takePenalty u q v amount).2.2
      = sumUnfinished q + valMoney v ∧ (takePenalty u q v amount).2.1.addr = v.addr := by
  unfold takePenalty
  exact takePenalty_core u q v amount _ _

theorem expel_money (p : Params) (ds : Bool) (n : Nat) (v : Val) : valMoney (expel p ds n v) = valMoney v ∧ (expel p ds n v).addr = v.addr := by
  simp [expel, valMoney]

/-- penalties arrive in the penalty account: doPenalize moves exactly what takePenalty took (from withdraw records, own
stake, delegations) to PenaltyTo -/
theorem penalize_acct (p : Params) (s : St) (v : Val) (amount : Int) (h : getVal s.vals v.addr = some v) (ds : Bool := false)
    (hok : (penalize p s v amount ds).2 = .ok) : tl (penalize p s v amount ds).1 = tl s ∧ Frame s (penalize p s v amount ds).1 := by
  unfold penalize at *
  · split
    · have hp := takePenalty_spec p.unit s.queue v amount
      have he := expel_money p ds s.number (takePenalty p.unit s.queue v amount).2.1
      refine ⟨?_, by simp [Frame, credit]⟩
      simp only [tl, total, credit, sumI_addI, sumVals_putVal, storedMoney, he.2, hp.2, h, he.1]
      omega
    · have he := expel_money p ds s.number v
      refine ⟨?_, by simp [Frame, credit]⟩
      simp only [tl, total, credit, sumI_addI, sumVals_putVal, storedMoney, he.2, h, he.1]
      omega

/-! ### inactivity slashing -/

theorem slashOne_acct (p : Params) (s : St) (v : Val) (h : getVal s.vals v.addr = some v) (hok : (slashOne p s v).2 = .ok) :
    tl (slashOne p s v).1 = tl s ∧ Frame s (slashOne p s v).1 := by
  by_cases c1 : v.expelled ∧ v.expelExpired < s.number
  · have e : slashOne p s v = ({ s with vals := putVal s.vals { v with expelled := false, expelExpired := 0 } }, .ok) := by
      simp [slashOne, c1]
    rw [e]
    refine ⟨?_, by simp [Frame]⟩
    simp [tl, total, sumVals_putVal, storedMoney, h, valMoney]
  · by_cases c2 : v.role = 3 ∨ v.status ≠ 1
    · have e : slashOne p s v = (s, .ok) := by simp only [slashOne, if_neg c1, if_pos c2]
      rw [e]; exact ⟨rfl, Frame.refl s⟩
    · by_cases c3 : s.number - v.lastActive ≤ p.waitRounds
      · have e : slashOne p s v = (s, .ok) := by simp only [slashOne, if_neg c1, if_neg c2, if_pos c3]
        rw [e]; exact ⟨rfl, Frame.refl s⟩
      · have e : slashOne p s v = penalize p s v (if p.penaltyPct > 0 then v.token * p.penaltyPct / 100 else 0) := by
          simp only [slashOne, if_neg c1, if_neg c2, if_neg c3]
        rw [e] at hok ⊢
        exact penalize_acct p s v _ h false hok

theorem slashLoop_acct (p : Params) (as : List Addr) (s : St) (hok : (slashLoop p as s).2 = .ok) :
    tl (slashLoop p as s).1 = tl s ∧ Frame s (slashLoop p as s).1 := by
  induction as generalizing s with
  | nil => exact ⟨rfl, Frame.refl s⟩
  | cons a t ih =>
    cases hg : getVal s.vals a with
    | none =>
      have e : slashLoop p (a :: t) s = slashLoop p t s := by simp [slashLoop, hg]
      rw [e] at hok ⊢; exact ih s hok
    | some v =>
      have ha := getVal_addr hg
      have h1 := slashOne_acct p s v (ha ▸ hg)
      cases hso : slashOne p s v with
      | mk s' o =>
        cases o with
        | crash =>
          have e : slashLoop p (a :: t) s = (s', .crash) := by simp [slashLoop, hg, hso]
          rw [e] at hok; simp at hok
        | ok =>
          have e : slashLoop p (a :: t) s = slashLoop p t s' := by simp [slashLoop, hg, hso]
          rw [e] at hok ⊢
          rw [hso] at h1
          have h2 := ih s' hok
          have h3 := h1 rfl
          exact ⟨by rw [h2.1, h3.1], Frame.trans h3.2 h2.2⟩

/-! ### distributeRewards -/

def sumLefts (l : Lefts) : Int := l.1 + l.2.1 + l.2.2

theorem sumLefts_subLeft (l : Lefts) (r : Nat) (x : Int) : sumLefts (subLeft l r x) = sumLefts l - x := by
  unfold subLeft sumLefts
  split
  · simp; omega
  · split <;> simp <;> omega

theorem getVal_putVal_self (vs : List Val) (n : Val) : getVal (putVal vs n) n.addr = some n := by
  induction vs with
  | nil => simp [putVal, getVal]
  | cons v t ih =>
    unfold putVal
    by_cases h : v.addr = n.addr
    · simp [h, getVal]
    · simp [h, getVal, ih]

theorem distOnline_acct (p : Params) (s : St) (v : Val) (rw : Int) (h : getVal s.vals v.addr = some v)
    (hok : (distOnline p s v rw).2 = .ok) : tl (distOnline p s v rw).1 = tl s + rw ∧ Frame s (distOnline p s v rw).1 := by
  have hs1 : tl { s with vals := putVal s.vals { v with rewards := v.rewards + rw } } = tl s + rw := by
    simp [tl, total, sumVals_putVal, storedMoney, h, valMoney]; omega
  by_cases c : forced p v s.number = true
  · have e : distOnline p s v rw =
        ({ (settle { s with vals := putVal s.vals { v with rewards := v.rewards + rw } } v).1 with
             lost := (settle { s with vals := putVal s.vals { v with rewards := v.rewards + rw } } v).1.lost + (if settleWrites v then rw else 0) },
         (settle { s with vals := putVal s.vals { v with rewards := v.rewards + rw } } v).2) := by
      simp only [distOnline, if_pos c]
    rw [e] at hok ⊢
    simp only at hok
    have hst := settle_acct { s with vals := putVal s.vals { v with rewards := v.rewards + rw } } v hok
    have hsm : storedMoney (putVal s.vals { v with rewards := v.rewards + rw }) v.addr = valMoney v + rw := by
      have := getVal_putVal_self s.vals { v with rewards := v.rewards + rw }
      simp only at this
      simp [storedMoney, this, valMoney]; omega
    simp only [hsm] at hst
    generalize settle { s with vals := putVal s.vals { v with rewards := v.rewards + rw } } v = r at *
    refine ⟨?_, ?_⟩
    · have : tl { r.1 with lost := r.1.lost + (if settleWrites v then rw else 0) } = tl r.1 + (if settleWrites v then rw else 0) := by
        simp [tl, total]; omega
      simp only [this, hst.1, hs1]
      split <;> omega
    · have := hst.2
      simp [Frame] at this ⊢
      exact this
  · have e : distOnline p s v rw = ({ s with vals := putVal s.vals { v with rewards := v.rewards + rw } }, .ok) := by
      simp only [distOnline, if_neg c]
    rw [e]
    exact ⟨hs1, by simp [Frame]⟩

/-- one iteration of the distributeRewards loop: what the validator receives leaves the role record; the forced
settlement with the stale object loses exactly what `lost` records (F-C07a) -/
theorem distOne_acct (p : Params) (per : Nat → Int) (s : St) (v : Val) (lefts : Lefts) (h : getVal s.vals v.addr = some v)
    (hok : (distOne p per s v lefts).2.2 = .ok) :
    tl (distOne p per s v lefts).1 + sumLefts (distOne p per s v lefts).2.1 = tl s + sumLefts lefts
      ∧ Frame s (distOne p per s v lefts).1 := by
  by_cases c1 : v.status ≠ 1
  · have e : distOne p per s v lefts = ((settle s v).1, lefts, (settle s v).2) := by simp only [distOne, if_pos c1]
    rw [e] at hok ⊢
    have := settle_stored s v h hok
    exact ⟨by simp [this.1], this.2⟩
  · by_cases c2 : v.role < 1 ∨ v.role > 3
    · have e : distOne p per s v lefts = (s, lefts, .crash) := by simp only [distOne, if_neg c1, if_pos c2]
      rw [e] at hok; simp at hok
    · by_cases c3 : leftOf (subLeft lefts v.role (rwOf per v)) v.role < 0
      · have e : distOne p per s v lefts = (s, lefts, .crash) := by simp only [distOne, if_neg c1, if_neg c2, if_pos c3]
        rw [e] at hok; simp at hok
      · have e : distOne p per s v lefts = ((distOnline p s v (rwOf per v)).1, subLeft lefts v.role (rwOf per v), (distOnline p s v (rwOf per v)).2) := by
          simp only [distOne, if_neg c1, if_neg c2, if_neg c3]
        rw [e] at hok ⊢
        have := distOnline_acct p s v (rwOf per v) h hok
        have hsl := sumLefts_subLeft lefts v.role (rwOf per v)
        exact ⟨by simp only [this.1, hsl]; omega, this.2⟩

theorem distLoop_acct (p : Params) (per : Nat → Int) (as : List Addr) (s : St) (lefts : Lefts)
    (hok : (distLoop p per as s lefts).2.2 = .ok) :
    tl (distLoop p per as s lefts).1 + sumLefts (distLoop p per as s lefts).2.1 = tl s + sumLefts lefts
      ∧ Frame s (distLoop p per as s lefts).1 := by
  induction as generalizing s lefts with
  | nil => exact ⟨rfl, Frame.refl s⟩
  | cons a t ih =>
    cases hg : getVal s.vals a with
    | none =>
      have e : distLoop p per (a :: t) s lefts = distLoop p per t s lefts := by simp [distLoop, hg]
      rw [e] at hok ⊢; exact ih s lefts hok
    | some v =>
      have ha := getVal_addr hg
      have h1 := distOne_acct p per s v lefts (ha ▸ hg)
      cases hso : distOne p per s v lefts with
      | mk s' r =>
        obtain ⟨l', o⟩ := r
        cases o with
        | crash =>
          have e : distLoop p per (a :: t) s lefts = (s', l', .crash) := by simp [distLoop, hg, hso]
          rw [e] at hok; simp at hok
        | ok =>
          have e : distLoop p per (a :: t) s lefts = distLoop p per t s' l' := by simp [distLoop, hg, hso]
          rw [e] at hok ⊢
          rw [hso] at h1
          have h2 := ih s' l' hok
          have h3 := h1 rfl
          exact ⟨by rw [h2.1]; exact h3.1, Frame.trans h3.2 h2.2⟩

/-- what Inv needs: residue, fees in flight and block number untouched -/
def FrameI (s s' : St) : Prop := s'.residue = s.residue ∧ s'.fees = s.fees ∧ s'.number = s.number ∧ s'.recs = s.recs
theorem Frame.toI {s s' : St} (h : Frame s s') : FrameI s s' := ⟨h.2.2.2.1, h.2.2.2.2.1, h.2.2.2.2.2.1, h.2.2.2.2.2.2⟩
theorem FrameI.refl (s : St) : FrameI s s := ⟨rfl, rfl, rfl, rfl⟩
theorem FrameI.trans {a b c : St} (h1 : FrameI a b) (h2 : FrameI b c) : FrameI a c := by
  obtain ⟨a1, a2, a3, a4⟩ := h1
  obtain ⟨b1, b2, b3, b4⟩ := h2
  exact ⟨b1.trans a1, b2.trans a2, b3.trans a3, b4.trans a4⟩

theorem roleRec_left {s : St} {r : Nat} {rr : RoleRec} (h : roleRec s r = some rr) :
    (roleOn s.vals r = true → rr.left = poolOf s r) ∧ (roleOn s.vals r = false → rr.left = 0 ∧ rr.residue = 0) := by
  unfold roleRec at h
  by_cases c : onlineCount s.vals r = 0
  · rw [if_pos c] at h
    injection h with h; subst h
    simp [roleOn, c]
  · rw [if_neg c] at h
    simp only at h
    have hon : roleOn s.vals r = true := by simp [roleOn]; omega
    repeat' (split at h)
    all_goals (first | (cases h; done) | (injection h with h; subst h; simp [hon]))

/-- distributeRewards: what leaves the role pools reaches the validators (or is recorded in `lost`, F-C07a); the pools keep
exactly the division remainders -/
theorem distribute_acct (p : Params) (s : St) (hok : (distribute p s).2.1 = .ok) :
    tl (distribute p s).1 = tl s ∧ FrameI s (distribute p s).1 := by
  by_cases c0 : onlineStake s.vals 1 + onlineStake s.vals 2 + onlineStake s.vals 3 ≤ 0
  · have e : distribute p s = (s, .ok, false) := by simp only [distribute, if_pos c0]
    rw [e]; exact ⟨rfl, FrameI.refl s⟩
  · cases h1 : roleRec s 1 with
    | none =>
      have e : distribute p s = (s, .crash, true) := by simp [distribute, c0, h1]
      rw [e] at hok; simp at hok
    | some r1 =>
    cases h2 : roleRec s 2 with
    | none =>
      have e : distribute p s = (s, .crash, true) := by simp [distribute, c0, h1, h2]
      rw [e] at hok; simp at hok
    | some r2 =>
    cases h3 : roleRec s 3 with
    | none =>
      have e : distribute p s = (s, .crash, true) := by simp [distribute, c0, h1, h2, h3]
      rw [e] at hok; simp at hok
    | some r3 =>
      have hl := distLoop_acct p (fun r => if r = 1 then r1.per else if r = 2 then r2.per else r3.per) (s.vals.map (·.addr)) s (r1.left, r2.left, r3.left)
      cases hd : distLoop p (fun r => if r = 1 then r1.per else if r = 2 then r2.per else r3.per) (s.vals.map (·.addr)) s (r1.left, r2.left, r3.left) with
      | mk s' x =>
        obtain ⟨l', o⟩ := x
        rw [hd] at hl
        cases o with
        | crash =>
          have e : distribute p s = (s', .crash, true) := by simp [distribute, c0, h1, h2, h3, hd]
          rw [e] at hok; simp at hok
        | ok =>
          have hl := hl rfl
          by_cases cr : l'.1 ≠ r1.residue ∨ l'.2.1 ≠ r2.residue ∨ l'.2.2 ≠ r3.residue
          · have e : distribute p s = (s', .crash, true) := by simp only [distribute, if_neg c0, h1, h2, h3, hd, if_pos cr]
            rw [e] at hok; simp at hok
          · have e : distribute p s = (resetPools s.vals s' r1.residue r2.residue r3.residue, .ok, true) := by
              simp only [distribute, if_neg c0, h1, h2, h3, hd, if_neg cr]
            rw [e]
            have f1 := roleRec_left h1
            have f2 := roleRec_left h2
            have f3 := roleRec_left h3
            obtain ⟨hacc, hfr⟩ := hl
            simp only [Frame] at hfr
            simp only [sumLefts] at hacc
            simp only [poolOf] at f1 f2 f3
            refine ⟨?_, by simp [FrameI, resetPools]; exact ⟨hfr.2.2.2.1, hfr.2.2.2.2.1, hfr.2.2.2.2.2.1, hfr.2.2.2.2.2.2⟩⟩
            have hn : ¬ (l'.1 ≠ r1.residue) ∧ ¬ (l'.2.1 ≠ r2.residue) ∧ ¬ (l'.2.2 ≠ r3.residue) := by
              refine ⟨fun h => cr (Or.inl h), fun h => cr (Or.inr (Or.inl h)), fun h => cr (Or.inr (Or.inr h))⟩
            simp only [tl, total, resetPools] at hacc ⊢
            simp only [ne_eq, Decidable.not_not] at hn
            cases o1 : roleOn s.vals 1 <;> cases o2 : roleOn s.vals 2 <;> cases o3 : roleOn s.vals 3 <;>
              simp [o1, o2, o3] at f1 f2 f3 ⊢ <;> omega

/-! ### processWithdrawQueue -/

theorem payRec_spec (n : Nat) (r : WRec) : unfinishedVal (payRec n r).1 + (payRec n r).2 = unfinishedVal r := by
  unfold payRec
  split
  · rename_i h; simp [unfinishedVal, h]
  · split
    · rename_i h1 h2
      have : r.finished = false := by simpa using h2.2
      simp [unfinishedVal, this]; omega
    · simp

theorem discardRec_finished {p : Params} {n : Nat} {r : WRec} (h : discardRec p n r = true) : unfinishedVal r = 0 := by
  unfold discardRec at h
  simp at h
  simp [unfinishedVal, h.1]

/-- processWithdrawQueue pays each matured unfinished record exactly once (it is marked finished in the same step), never
touches a finished one and only discards finished ones: balances + outstanding records are unchanged -/
theorem processQueue_spec (p : Params) (n : Nat) (q : List WRec) (bal : List (Addr × Int)) :
    sumUnfinished (processQueue p n q bal).1 + sumI (processQueue p n q bal).2 = sumUnfinished q + sumI bal := by
  induction q generalizing bal with
  | nil => simp [processQueue]
  | cons r t ih =>
    have h0 := payRec_spec n r
    have := ih (addI bal r.recipient (payRec n r).2)
    rw [sumI_addI] at this
    unfold processQueue
    simp only
    split
    · rename_i hd
      have := discardRec_finished hd
      simp only [sumUnfinished]; omega
    · simp only [sumUnfinished]; omega

theorem sumUnfinished_append (q : List WRec) (r : WRec) : sumUnfinished (q ++ [r]) = sumUnfinished q + unfinishedVal r := by
  induction q with
  | nil => simp [sumUnfinished]
  | cons h t ih => simp [sumUnfinished, ih]; omega

/-! ### take-effect handlers -/

theorem updateDelegation_money (u : Int) (v : Val) (d : Addr) (x : Int) (h : (getDeleg v.delegs d).isSome ∨ 0 ≤ x) :
    valMoney (updateDelegation u v d x) = valMoney v + x ∧ (updateDelegation u v d x).addr = v.addr := by
  unfold updateDelegation
  split
  · simp_all
  · split
    · split
      · rename_i hn hl; simp [hn] at h; omega
      · simp [valMoney]; omega
    · simp [valMoney]; omega

theorem offIfLow_money (p : Params) (v : Val) : valMoney (offIfLow p v) = valMoney v ∧ (offIfLow p v).addr = v.addr := by
  unfold offIfLow; split <;> simp [valMoney]

theorem subAmount_pos (p : Params) (df : Deleg) (value : Int) (h : ¬ (if value > df.token then df.token else value) ≤ 0) :
    0 < subAmount p df value := by
  unfold subAmount
  simp only
  split <;> omega

theorem subEffect_acct (p : Params) (s : St) (v : Val) (d : Addr) (w : Int) (h : getVal s.vals v.addr = some v)
    (hd : (getDeleg v.delegs d).isSome) (hw : 0 < w) : tl (subEffect p s v d w) = tl s ∧ Frame s (subEffect p s v d w) := by
  have h1 := updateDelegation_money p.unit v d (-w) (Or.inl hd)
  have h2 := offIfLow_money p (updateDelegation p.unit v d (-w))
  refine ⟨?_, by simp [Frame, subEffect]⟩
  have hu : unfinishedVal { validator := v.addr, delegator := d, recipient := d, final := w, finished := false, completion := s.number + p.withdrawDelay } = w := by
    simp [unfinishedVal]; omega
  simp only [subEffect, tl, total, sumVals_putVal, sumUnfinished_append, hu, storedMoney, h2.2, h1.2, h, h2.1, h1.1]
  omega

theorem te_create (p : Params) (s : St) (t : PTx) (hk : t.kind = 1) :
    tl (takeEffect p s t).1 = tl s + t.value ∧ Frame s (takeEffect p s t).1 := by
  unfold takeEffect
  simp only [hk]
  split
  · refine ⟨?_, by simp [Frame]⟩
    simp [tl, total]; omega
  · rename_i hn
    have : getVal s.vals t.val = none := by simpa using hn
    refine ⟨?_, by simp [Frame]⟩
    simp [tl, total, sumVals_putVal, storedMoney, this, valMoney]; omega

theorem te_meta (p : Params) (s : St) (t : PTx) (hk : t.kind = 2 ∨ t.kind = 5) (hok : (takeEffect p s t).2 = .ok) :
    tl (takeEffect p s t).1 = tl s ∧ Frame s (takeEffect p s t).1 := by
  unfold takeEffect at *
  rcases hk with hk | hk <;> simp only [hk] at *
  · split
    · simp_all
    · rename_i v hg
      have ha := getVal_addr hg
      refine ⟨?_, by simp [Frame]⟩
      simp [tl, total, sumVals_putVal, storedMoney, valMoney, ha, hg]
  · split
    · simp_all
    · rename_i v hg
      have ha := getVal_addr hg
      split
      · exact ⟨rfl, Frame.refl s⟩
      · refine ⟨?_, by simp [Frame]⟩
        simp [tl, total, sumVals_putVal, storedMoney, valMoney, ha, hg]

theorem te_deposit (p : Params) (s : St) (t : PTx) (hk : t.kind = 3) (hok : (takeEffect p s t).2 = .ok) :
    tl (takeEffect p s t).1 = tl s + t.value ∧ Frame s (takeEffect p s t).1 := by
  unfold takeEffect at *
  simp only [hk] at *
  split
  · simp_all
  · rename_i v hg
    have ha := getVal_addr hg
    split
    · refine ⟨?_, by simp [Frame, credit]⟩
      simp [tl, total, credit, sumI_addI]; omega
    · refine ⟨?_, by simp [Frame]⟩
      simp [tl, total, sumVals_putVal, storedMoney, valMoney, ha, hg]; omega

theorem te_withdraw (p : Params) (s : St) (t : PTx) (hk : t.kind = 4) (hok : (takeEffect p s t).2 = .ok) :
    tl (takeEffect p s t).1 = tl s ∧ Frame s (takeEffect p s t).1 := by
  unfold takeEffect at *
  simp only [hk] at *
  split
  · simp_all
  · rename_i v hg
    have ha := getVal_addr hg
    refine ⟨?_, by simp [Frame]⟩
    simp only [tl, total, sumVals_putVal, storedMoney, valMoney, ha, hg, sumUnfinished_append, unfinishedVal]
    simp
    split <;> split <;> omega

theorem te_delegationAdd (p : Params) (s : St) (t : PTx) (hk : t.kind = 16) (hv : 0 ≤ t.value)
    (hok : (takeEffect p s t).2 = .ok) : tl (takeEffect p s t).1 = tl s + t.value ∧ Frame s (takeEffect p s t).1 := by
  unfold takeEffect at *
  simp only [hk] at *
  split
  · simp_all
  · rename_i v hg
    have ha := getVal_addr hg
    have hm := updateDelegation_money p.unit v t.sender t.value (Or.inr hv)
    split
    · refine ⟨?_, by simp [Frame, credit]⟩
      simp [tl, total, credit, sumI_addI]; omega
    · split
      · refine ⟨?_, by simp [Frame, credit]⟩
        simp [tl, total, credit, sumI_addI]; omega
      · refine ⟨?_, by simp [Frame]⟩
        simp only [tl, total, sumVals_putVal, storedMoney, hm.1, hm.2, ha, hg]
        omega

theorem te_delegationSub (p : Params) (s : St) (t : PTx) (hk : t.kind = 17) (hok : (takeEffect p s t).2 = .ok) :
    tl (takeEffect p s t).1 = tl s ∧ Frame s (takeEffect p s t).1 := by
  unfold takeEffect at *
  simp only [hk] at *
  split
  · simp_all
  · rename_i v hg
    have ha := getVal_addr hg
    split
    · exact ⟨rfl, Frame.refl s⟩
    · rename_i df hd
      by_cases hpos : (if t.value > df.token then df.token else t.value) ≤ 0
      · rw [if_pos hpos]; exact ⟨rfl, Frame.refl s⟩
      · rw [if_neg hpos]
        exact subEffect_acct p s v t.sender (subAmount p df t.value) (ha ▸ hg) (by simp [hd]) (subAmount_pos p df t.value hpos)

/-- every take-effect handler moves exactly the detained value out of "pending": into the validator's stake, back to the
sender (V5 refunds), or — create on an existing validator, negative withdrawal: unreachable — into the ghost counter -/
theorem takeEffect_acct (p : Params) (s : St) (t : PTx) (hv : t.kind = 16 → 0 ≤ t.value) (hok : (takeEffect p s t).2 = .ok) :
    tl (takeEffect p s t).1 = tl s + (if detains t.kind then t.value else 0) ∧ Frame s (takeEffect p s t).1 := by
  by_cases h1 : t.kind = 1
  · have := te_create p s t h1; simpa [detains, h1] using this
  by_cases h3 : t.kind = 3
  · have := te_deposit p s t h3 hok; simpa [detains, h3] using this
  by_cases h16 : t.kind = 16
  · have := te_delegationAdd p s t h16 (hv h16) hok; simpa [detains, h16] using this
  have hd : detains t.kind = false := by simp [detains, h1, h3, h16]
  simp only [hd]
  by_cases h4 : t.kind = 4
  · simpa using te_withdraw p s t h4 hok
  by_cases h2 : t.kind = 2
  · simpa using te_meta p s t (Or.inl h2) hok
  by_cases h5 : t.kind = 5
  · simpa using te_meta p s t (Or.inr h5) hok
  by_cases h17 : t.kind = 17
  · simpa using te_delegationSub p s t h17 hok
  have : takeEffect p s t = (s, .ok) := by
    unfold takeEffect
    split <;> simp_all
  rw [this]; exact ⟨by simp, Frame.refl s⟩

theorem takeEffects_acct (p : Params) (ts : List PTx) (s : St) (hv : ∀ t ∈ ts, t.kind = 16 → 0 ≤ t.value)
    (hok : (takeEffects p ts s).2 = .ok) :
    tl (takeEffects p ts s).1 = tl s + txsValue ts ∧ Frame s (takeEffects p ts s).1 := by
  induction ts generalizing s with
  | nil => exact ⟨by simp [takeEffects, txsValue], Frame.refl s⟩
  | cons t r ih =>
    have h1 := takeEffect_acct p s t (hv t List.mem_cons_self)
    cases hte : takeEffect p s t with
    | mk s' o =>
      cases o with
      | crash =>
        have e : takeEffects p (t :: r) s = (s', .crash) := by simp [takeEffects, hte]
        rw [e] at hok; simp at hok
      | ok =>
        have e : takeEffects p (t :: r) s = takeEffects p r s' := by simp [takeEffects, hte]
        rw [e] at hok ⊢
        rw [hte] at h1
        have h2 := ih s' (fun x hx => hv x (List.mem_cons_of_mem _ hx)) hok
        have h3 := h1 rfl
        refine ⟨?_, Frame.trans h3.2 h2.2⟩
        rw [h2.1, h3.1]; simp only [txsValue]; omega

theorem settleFirst_acct (s : St) (settled : List Addr) (va : Addr) (hok : (settleFirst s settled va).2 = .ok) :
    tl (settleFirst s settled va).1 = tl s ∧ Frame s (settleFirst s settled va).1 := by
  by_cases hc : settled.contains va = true
  · have e : settleFirst s settled va = (s, .ok) := by simp only [settleFirst, if_pos hc]
    rw [e]; exact ⟨rfl, Frame.refl s⟩
  · cases hg : getVal s.vals va with
    | none =>
      have e : settleFirst s settled va = (s, .ok) := by simp only [settleFirst, if_neg hc, hg]
      rw [e]; exact ⟨rfl, Frame.refl s⟩
    | some v =>
      have e : settleFirst s settled va = settle s v := by simp only [settleFirst, if_neg hc, hg]
      rw [e] at hok ⊢
      have ha := getVal_addr hg
      exact settle_stored s v (ha ▸ hg) hok

def PendOK (pend : List PRec) : Prop := ∀ r ∈ pend, ∀ t ∈ r.txs, t.kind = 16 → 0 ≤ t.value

/-- processPendingTxs: all pending value takes effect -/
theorem pendingLoop_acct (p : Params) (pend : List PRec) (settled : List Addr) (s : St) (hp : PendOK pend)
    (hok : (pendingLoop p pend settled s).2 = .ok) :
    tl (pendingLoop p pend settled s).1 = tl s + pendingValue pend ∧ Frame s (pendingLoop p pend settled s).1 := by
  induction pend generalizing s settled with
  | nil => exact ⟨by simp [pendingLoop, pendingValue], Frame.refl s⟩
  | cons r t ih =>
    have h1 := settleFirst_acct s settled r.v
    cases hsf : settleFirst s settled r.v with
    | mk s1 o1 =>
      rw [hsf] at h1
      cases o1 with
      | crash =>
        have e : pendingLoop p (r :: t) settled s = (s1, .crash) := by simp [pendingLoop, hsf]
        rw [e] at hok; simp at hok
      | ok =>
        have h1 := h1 rfl
        have h2 := takeEffects_acct p r.txs s1 (hp r List.mem_cons_self)
        cases hte : takeEffects p r.txs s1 with
        | mk s2 o2 =>
          rw [hte] at h2
          cases o2 with
          | crash =>
            have e : pendingLoop p (r :: t) settled s = (s2, .crash) := by simp [pendingLoop, hsf, hte]
            rw [e] at hok; simp at hok
          | ok =>
            have e : pendingLoop p (r :: t) settled s = pendingLoop p t (r.v :: settled) s2 := by simp [pendingLoop, hsf, hte]
            rw [e] at hok ⊢
            have h2 := h2 rfl
            have h3 := ih (r.v :: settled) s2 (fun x hx => hp x (List.mem_cons_of_mem _ hx)) hok
            refine ⟨?_, Frame.trans h1.2 (Frame.trans h2.2 h3.2)⟩
            rw [h3.1, h2.1, h1.1]; simp only [pendingValue]; omega

/-! ### the whole period end -/

theorem processQueue_state (p : Params) (s : St) :
    tl { s with queue := (processQueue p s.number s.queue s.bal).1, bal := (processQueue p s.number s.queue s.bal).2 } = tl s := by
  have := processQueue_spec p s.number s.queue s.bal
  simp only [tl, total]; omega

/-- endStakingPeriod: inactivity slashing, distributeRewards, processWithdrawQueue, processPendingTxs -/
theorem periodEnd_acct (p : Params) (s : St) (pend : List PRec) (hp : PendOK pend) (hok : (periodEnd p s pend).2 = .ok) :
    tl (periodEnd p s pend).1 = tl s + pendingValue pend ∧ FrameI s (periodEnd p s pend).1 := by
  have h1 := slashLoop_acct p (s.vals.map (·.addr)) s
  cases hsl : slashLoop p (s.vals.map (·.addr)) s with
  | mk s1 o1 =>
    rw [hsl] at h1
    cases o1 with
    | crash =>
      have e : periodEnd p s pend = (s1, .crash) := by simp [periodEnd, hsl]
      rw [e] at hok; simp at hok
    | ok =>
      have h1 := h1 rfl
      have h2 := distribute_acct p s1
      cases hd : distribute p s1 with
      | mk s2 x =>
        obtain ⟨o2, b⟩ := x
        rw [hd] at h2
        cases o2 with
        | crash =>
          have e : periodEnd p s pend = (s2, .crash) := by simp [periodEnd, hsl, hd]
          rw [e] at hok; simp at hok
        | ok =>
          have h2 := h2 rfl
          cases b with
          | false =>
            have e : periodEnd p s pend = ({ s2 with lostOther := s2.lostOther + pendingValue pend }, .ok) := by simp [periodEnd, hsl, hd]
            rw [e]
            refine ⟨?_, ?_⟩
            · have : tl { s2 with lostOther := s2.lostOther + pendingValue pend } = tl s2 + pendingValue pend := by
                simp [tl, total]; omega
              rw [this, h2.1, h1.1]
            · have := FrameI.trans h1.2.toI h2.2
              simpa [FrameI] using this
          | true =>
            have e : periodEnd p s pend = pendingLoop p pend (settledSet p s1.vals s1.number)
                { s2 with queue := (processQueue p s2.number s2.queue s2.bal).1, bal := (processQueue p s2.number s2.queue s2.bal).2 } := by
              simp [periodEnd, hsl, hd]
            rw [e] at hok ⊢
            have h3 := pendingLoop_acct p pend _ _ hp hok
            refine ⟨by rw [h3.1, processQueue_state, h2.1, h1.1], ?_⟩
            have f3 : FrameI s2 (pendingLoop p pend (settledSet p s1.vals s1.number)
                { s2 with queue := (processQueue p s2.number s2.queue s2.bal).1, bal := (processQueue p s2.number s2.queue s2.bal).2 }).1 :=
              ⟨h3.2.toI.1, h3.2.toI.2.1, h3.2.toI.2.2.1, h3.2.toI.2.2.2⟩
            exact FrameI.trans (FrameI.trans h1.2.toI h2.2) f3

theorem getRec_mem {rs : List PRec} {d v : Addr} {x : PRec} (h : getRec rs d v = some x) : x ∈ rs := by
  induction rs with
  | nil => simp [getRec] at h
  | cons y ys ih =>
    unfold getRec at h
    split at h
    · simp at h; subst h; exact List.mem_cons_self
    · exact List.mem_cons_of_mem _ (ih h)

theorem mem_orderRecs {rs : List PRec} {order : List (Addr × Addr)} {r : PRec} (h : r ∈ orderRecs rs order) : r ∈ rs := by
  induction order with
  | nil => simp [orderRecs] at h
  | cons o t ih =>
    obtain ⟨d, v⟩ := o
    simp only [orderRecs, List.mem_append] at h
    rcases h with h | h
    · cases hgr : getRec rs d v with
      | none => simp [hgr] at h
      | some x => simp [hgr] at h; subst h; exact getRec_mem hgr
    · exact ih h

theorem takePending_acct (s : St) (order : List (Addr × Addr)) :
    tl (takePending s order) + pendingValue (orderRecs s.recs order) = tl s
      ∧ (takePending s order).residue = s.residue ∧ (takePending s order).fees = s.fees ∧ (takePending s order).recs = [] := by
  refine ⟨?_, by simp [takePending]⟩
  simp [tl, total, takePending, pendingValue]; omega

theorem rewardsToPool_ghost (p : Params) (s : St) (cb : Addr) :
    (rewardsToPool p s cb).1.lost = s.lost ∧ (rewardsToPool p s cb).1.lostOther = s.lostOther ∧ (rewardsToPool p s cb).1.recs = s.recs := by
  unfold rewardsToPool
  simp only
  repeat' split
  all_goals simp [distributeBlock, credit]

theorem removeInvalid_acct (s : St) : total (removeInvalid s) + (removeInvalid s).lostDel = total s
    ∧ (removeInvalid s).lost = s.lost ∧ (removeInvalid s).lostOther = s.lostOther ∧ FrameI s (removeInvalid s) := by
  have := removeInvalid_total s
  refine ⟨?_, rfl, rfl, by simp [FrameI, removeInvalid]⟩
  rw [this]; simp [removeInvalid]

/-- the part of the invariant the accounting needs: fees in flight and the global residue are non-negative -/
def Inv0 (s : St) : Prop := 0 ≤ s.fees ∧ 0 ≤ s.residue

theorem Inv.to0 {s : St} (h : Inv s) : Inv0 s := ⟨h.1, h.2.1⟩

theorem rewardsToPool_inv0 (p : Params) (s : St) (cb : Addr) (h : Inv0 s) (hok : (rewardsToPool p s cb).2 = .ok) :
    Inv0 (rewardsToPool p s cb).1 := by
  obtain ⟨hf, hr⟩ := h
  unfold rewardsToPool at *
  simp only at *
  generalize hs1d : (if subsidyOf p s > 0 then credit s p.poolAddr (-subsidyOf p s) else s) = s1 at *
  have hfe : s1.fees = s.fees ∧ s1.residue = s.residue := by
    subst hs1d; split <;> simp [credit]
  have hI1 : Inv0 s1 := ⟨by rw [hfe.1]; exact hf, by rw [hfe.2]; exact hr⟩
  split
  · exact hI1
  · split
    · exact hI1
    · split
      · exact hI1
      · rename_i hp pr hg
        refine ⟨by simp [distributeBlock], ?_⟩
        simp only [distributeBlock]
        apply Int.emod_nonneg
        omega

/-- the whole end-block hook, period end or not: exact accounting. Everything that leaves `total` is recorded in one of
the three loss counters: `lost` (F-C07a), `lostDel` (F-C07d), `lostOther` (paths no realistic chain reaches). -/
theorem endBlock_acct (p : Params) (s : St) (cb : Addr) (order : List (Addr × Addr)) (hI : Inv0 s) (hp : PendOK s.recs)
    (hok : (endBlock p s cb order).2 = .ok) :
    total (endBlock p s cb order).1 + (endBlock p s cb order).1.lost + (endBlock p s cb order).1.lostDel
        + (endBlock p s cb order).1.lostOther = total s
      ∧ Inv (endBlock p s cb order).1 := by
  have hI' : Inv0 { s with lost := 0, lostDel := 0, lostOther := 0 } := hI
  generalize hs0 : ({ s with lost := 0, lostDel := 0, lostOther := 0 } : St) = s0 at *
  have ht0 : total s0 = total s ∧ s0.lost = 0 ∧ s0.lostOther = 0 ∧ s0.recs = s.recs := by subst hs0; exact ⟨rfl, rfl, rfl, rfl⟩
  have hr := rewardsToPool_total p s0 cb hI'.1 hI'.2
  have hi := rewardsToPool_inv0 p s0 cb hI'
  have hg := rewardsToPool_ghost p s0 cb
  cases hrp : rewardsToPool p s0 cb with
  | mk s1 o =>
    rw [hrp] at hr hi hg
    cases o with
    | crash =>
      have e : endBlock p s cb order = (s1, .crash) := by simp [endBlock, hs0, hrp]
      rw [e] at hok; simp at hok
    | ok =>
      have hr := hr rfl
      have hi := hi rfl
      simp only at hr hi hg
      have hri := removeInvalid_acct
      by_cases hn : (s1.number + 1) % p.freq ≠ 0
      · have e : endBlock p s cb order = (removeInvalid s1, .ok) := by simp only [endBlock, hs0, hrp, if_pos hn]
        rw [e]
        have h := hri s1
        refine ⟨?_, ?_⟩
        · simp only; omega
        · exact ⟨by rw [h.2.2.2.2.1]; exact hi.1, by rw [h.2.2.2.1]; exact hi.2, removeInvalid_valid s1⟩
      · have hrecs : PendOK (orderRecs s1.recs order) := by
          have : s1.recs = s.recs := by rw [hg.2.2, ht0.2.2.2]
          rw [this]
          intro r hr
          exact hp r (mem_orderRecs hr)
        have htp := takePending_acct s1 order
        have hpe := periodEnd_acct p (takePending s1 order) (orderRecs s1.recs order) hrecs
        cases hpd : periodEnd p (takePending s1 order) (orderRecs s1.recs order) with
        | mk s2 o2 =>
          rw [hpd] at hpe
          cases o2 with
          | crash =>
            have e : endBlock p s cb order = (s2, .crash) := by simp only [endBlock, hs0, hrp, if_neg hn, hpd]
            rw [e] at hok; simp at hok
          | ok =>
            have e : endBlock p s cb order = (removeInvalid s2, .ok) := by simp only [endBlock, hs0, hrp, if_neg hn, hpd]
            rw [e]
            have hpe := hpe rfl
            have h := hri s2
            simp only at hpe
            refine ⟨?_, ?_⟩
            · simp only [tl] at htp hpe ⊢
              omega
            · have f := FrameI.trans hpe.2 h.2.2.2
              exact ⟨by rw [f.2.1, htp.2.2.1]; exact hi.1, by rw [f.1, htp.2.1]; exact hi.2, removeInvalid_valid s2⟩

/-! ### PendOK is an invariant -/

theorem pendOK_addRec {rs : List PRec} (h : PendOK rs) (d v : Addr) (tx : Option PTx) (fin : Option Int)
    (ht : ∀ t, tx = some t → t.kind = 16 → 0 ≤ t.value) : PendOK (addRec rs d v tx fin) := by
  have htl : ∀ t ∈ tx.toList, t.kind = 16 → 0 ≤ t.value := by
    intro t htm
    cases tx with
    | none => simp at htm
    | some x => simp at htm; rw [htm]; exact ht x rfl
  induction rs with
  | nil =>
    intro r hr t htm
    simp [addRec] at hr
    rw [hr] at htm
    exact htl t htm
  | cons r0 rest ih =>
    have hrest : PendOK rest := fun r hr => h r (List.mem_cons_of_mem _ hr)
    unfold addRec
    split
    · intro r hr t htm
      simp at hr
      rcases hr with hr | hr
      · rw [hr] at htm
        simp at htm
        rcases htm with htm | htm
        · exact h r0 List.mem_cons_self t htm
        · exact htl t (by simpa using htm)
      · exact hrest r hr t htm
    · intro r hr t htm
      simp at hr
      rcases hr with hr | hr
      · rw [hr] at htm; exact h r0 List.mem_cons_self t htm
      · exact ih hrest r hr t htm

theorem handle_pendOK (p : Params) (s s' : St) (t : PTx) (h : handle p s t = some s') (hp : PendOK s.recs) : PendOK s'.recs := by
  unfold handle at h
  simp only at h
  repeat' (split at h)
  all_goals (first
    | (simp at h; done)
    | (injection h with h; subst h
       try (obtain ⟨x, hx⟩ := updTotalPending_eq ‹updTotalPending _ _ _ _ = some _›; subst hx)
       simp only [credit]
       repeat' (first | (apply pendOK_addRec) | (split)))
    )
  all_goals (first | exact hp | (intro t' ht' hk; simp at ht'; try subst ht'; omega) | skip)

theorem applyMoves_recs (s : St) (ms : List (Addr × Addr × Int)) : (applyMoves s ms).recs = s.recs := by
  induction ms generalizing s with
  | nil => rfl
  | cons m t ih => obtain ⟨a, b, x⟩ := m; simp [applyMoves, ih, credit]

theorem execBody_pendOK {p : Params} {s s2 : St} {t : Tx} {c r : Nat} {f : Bool} (h : execBody p s t = some (s2, c, r, f))
    (hp : PendOK s.recs) : PendOK s2.recs := by
  unfold execBody at h
  split at h
  · split at h
    · simp at h
    · simp at h; obtain ⟨h1, _⟩ := h; subst h1; simpa [credit] using hp
  · split at h
    · simp at h
    · simp at h; obtain ⟨h1, _⟩ := h; subst h1
      unfold evmEffect; split
      · exact hp
      · simpa [credit, applyMoves_recs] using hp
  · simp only at h
    repeat' (split at h)
    all_goals (simp at h; obtain ⟨h1, _⟩ := h; subst h1; try exact hp)
    all_goals exact handle_pendOK _ _ _ _ ‹_› hp

theorem applyTx_pendOK (p : Params) (s : St) (t : Tx) (hp : PendOK s.recs) : PendOK (applyTx p s t).1.recs := by
  unfold applyTx
  split
  · exact hp
  · split
    · exact hp
    · split
      · exact hp
      · split
        · exact hp
        · split
          · exact hp
          · rename_i h
            have := execBody_pendOK h (by simpa using hp)
            simpa [settleGas, credit] using this

theorem pendOK_nil : PendOK [] := by intro r hr; simp at hr

theorem endBlock_pendOK (p : Params) (s : St) (cb : Addr) (order : List (Addr × Addr)) (hp : PendOK s.recs)
    (hok : (endBlock p s cb order).2 = .ok) : PendOK (endBlock p s cb order).1.recs := by
  have hg := rewardsToPool_ghost p { s with lost := 0, lostDel := 0, lostOther := 0 } cb
  cases hrp : rewardsToPool p { s with lost := 0, lostDel := 0, lostOther := 0 } cb with
  | mk s1 o =>
    rw [hrp] at hg
    have hrecs : s1.recs = s.recs := hg.2.2
    cases o with
    | crash =>
      have e : endBlock p s cb order = (s1, .crash) := by simp [endBlock, hrp]
      rw [e] at hok; simp at hok
    | ok =>
      by_cases hn : (s1.number + 1) % p.freq ≠ 0
      · have e : endBlock p s cb order = (removeInvalid s1, .ok) := by simp only [endBlock, hrp, if_pos hn]
        rw [e]
        have : (removeInvalid s1).recs = s.recs := by simp [removeInvalid, hrecs]
        simp only [this]; exact hp
      · have hpo : PendOK (orderRecs s1.recs order) := by
          rw [hrecs]; intro r hr; exact hp r (mem_orderRecs hr)
        have hpe := periodEnd_acct p (takePending s1 order) (orderRecs s1.recs order) hpo
        cases hpd : periodEnd p (takePending s1 order) (orderRecs s1.recs order) with
        | mk s2 o2 =>
          rw [hpd] at hpe
          cases o2 with
          | crash =>
            have e : endBlock p s cb order = (s2, .crash) := by simp only [endBlock, hrp, if_neg hn, hpd]
            rw [e] at hok; simp at hok
          | ok =>
            have e : endBlock p s cb order = (removeInvalid s2, .ok) := by simp only [endBlock, hrp, if_neg hn, hpd]
            rw [e]
            have h1 : s2.recs = (takePending s1 order).recs := (hpe rfl).2.2.2.2
            have : (removeInvalid s2).recs = [] := by simp [removeInvalid, h1, takePending]
            simp only [this]; exact pendOK_nil

/-! ### double-sign evidence -/

theorem penalize_lost (p : Params) (s : St) (v : Val) (amount : Int) (ds : Bool) : (penalize p s v amount ds).1.lost = s.lost := by
  unfold penalize
  repeat' split
  all_goals simp [credit]

/-- accepted double-sign evidence: the penalty (2 % of the token, taken from withdraw records, own stake, delegations)
arrives in the penalty account -/
theorem evidenceStep_acct (p : Params) (s : St) (a : Addr) (hok : (evidenceStep p s a).2 = .ok) :
    tl (evidenceStep p s a).1 = tl s ∧ (evidenceStep p s a).1.lost = s.lost ∧ FrameI s (evidenceStep p s a).1 := by
  by_cases c : s.dsSeen.contains a = true
  · have e : evidenceStep p s a = (s, .ok) := by simp only [evidenceStep, if_pos c]
    rw [e]; exact ⟨rfl, rfl, FrameI.refl s⟩
  · cases hg : getVal s.vals a with
    | none =>
      have e : evidenceStep p s a = (s, .ok) := by simp only [evidenceStep, if_neg c, hg]
      rw [e]; exact ⟨rfl, rfl, FrameI.refl s⟩
    | some v =>
      have e : evidenceStep p s a = ((penalize p { s with dsSeen := a :: s.dsSeen } v (v.token * p.penaltyDoubleSign / 100) true).1,
          (penalize p { s with dsSeen := a :: s.dsSeen } v (v.token * p.penaltyDoubleSign / 100) true).2) := by
        simp only [evidenceStep, if_neg c, hg]
      rw [e] at hok ⊢
      have ha := getVal_addr hg
      have h := penalize_acct p { s with dsSeen := a :: s.dsSeen } v (v.token * p.penaltyDoubleSign / 100) (by simpa [ha] using hg) true hok
      have hl := penalize_lost p { s with dsSeen := a :: s.dsSeen } v (v.token * p.penaltyDoubleSign / 100) true
      refine ⟨?_, hl, ?_⟩
      · simp only; rw [h.1]; simp [tl, total]
      · have := h.2.toI
        exact ⟨this.1, this.2.1, this.2.2.1, this.2.2.2⟩

end YouVerif.C07
