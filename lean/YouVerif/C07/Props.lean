/-
C07 — native tokens are conserved: property theorems over the ledger model `YouVerif.C07.Model`.

`total` = balances + staked tokens + validators' undistributed rewards + role pools + global residue + unfinished
withdrawals + tokens detained by pending transactions + fees in flight (header.GasRewards) + burnt.
-/
import YouVerif.C07.ProofsPeriod
namespace YouVerif.C07

/-! ## transactions -/

/-- every offered transaction (valid or refused; transfer, staking message, observed contract call) changes `total` by
exactly the refunded gas that was nevertheless credited to GasRewards; in particular nothing for a refused one -/
theorem tx_total (p : Params) (s : St) (t : Tx) :
    total (applyTx p s t).1 = total s + (if (applyTx p s t).2 = .skipped then 0 else (mintedGas t : Int) * (t.price : Int)) :=
  applyTx_total p s t

/-- transfers, all nine staking messages (successful or failed) and contract calls without a gas refund conserve -/
theorem tx_conserves (p : Params) (s : St) (t : Tx) (h : mintedGas t = 0) : total (applyTx p s t).1 = total s := by
  rw [applyTx_total, h]; split <;> simp

example : mintedGas { sender := 1, nonce := 0, gasLimit := 21000, price := 3, intrinsic := 21000, body := .transfer 2 5 } = 0 := rfl

/-- a pending handler that accepts the message only moves its payload value from the sender into "pending" -/
theorem pending_handler_conserves (p : Params) (s s' : St) (t : PTx) (h : handle p s t = some s') : total s' = total s :=
  handle_conserves p s s' t h

/-- fees paid = rewards credited: for a message body without EVM refund the gas the sender pays for is the gas GasRewards gets -/
theorem fees_eq_rewards {p : Params} {s s2 : St} {t : Tx} {c r : Nat} {f : Bool}
    (h : execBody p s t = some (s2, c, r, f)) (hm : mintedGas t = 0) : c = r := by
  have := (execBody_total h).2
  rw [hm] at this
  omega

/-- F-C07c (DEFECT, proved on the model, reproduced on the real code): a contract call whose refund counter is non-zero
mints `refund * gasPrice` -/
def w07c : St := { bal := [(7, 1000000000)], gasPool := 30000000 }
def t07c : Tx := { sender := 7, nonce := 0, gasLimit := 100000, price := 7, intrinsic := 21000, body := .evm 8 0 false 26136 13068 0 [] }
theorem tx_conserves_counterexample : total (applyTx {} w07c t07c).1 = total w07c + 13068 * 7 := by decide

/-! ## end of block -/

/-- subsidies come out of the rewards pool account and fees + residue + subsidy are fully credited (proposer, house pool,
new residue): rewardsToPool conserves -/
theorem subsidy_from_pool (p : Params) (s : St) (cb : Addr) (hf : 0 ≤ s.fees) (hr : 0 ≤ s.residue)
    (hok : (rewardsToPool p s cb).2 = .ok) : total (rewardsToPool p s cb).1 = total s :=
  rewardsToPool_total p s cb hf hr hok

/-- rewards distributed to a validator are not lost by a settlement that is handed the stored validator object:
commission + per-stake shares + residue add up (or the code stops with logging.Crit = `crash`) -/
theorem settle_conserves (s : St) (v : Val) (h : getVal s.vals v.addr = some v) (hok : (settle s v).2 = .ok) :
    total (settle s v).1 = total s :=
  settle_total s v h hok

/-- the whole end-block hook of a block that is not a period end conserves and re-establishes the invariant -/
theorem endBlock_conserves_within_period (p : Params) (s : St) (cb : Addr) (order : List (Addr × Addr)) (hI : Inv s)
    (hn : (s.number + 1) % p.freq ≠ 0) (hok : (endBlock p s cb order).2 = .ok) :
    total (endBlock p s cb order).1 = total s ∧ Inv (endBlock p s cb order).1 :=
  endBlock_within_period p s cb order hI hn hok

/-- withdrawn stake returns to its recipient exactly once: processWithdrawQueue releases a matured record and marks it
finished in the same step, never touches a finished one, never pays a non-positive amount and only discards finished
records — balances + outstanding records are unchanged, for every queue -/
theorem withdraw_paid_once (p : Params) (n : Nat) (q : List WRec) (bal : List (Addr × Int)) :
    sumUnfinished (processQueue p n q bal).1 + sumI (processQueue p n q bal).2 = sumUnfinished q + sumI bal :=
  processQueue_spec p n q bal

example : (processQueue {} 200 [{ validator := 5, delegator := 0, recipient := 9, final := 70, finished := false, completion := 100 }] []).2 = [(9, 70)] := by decide

/-- a delegation that fails to activate (validator expelled or no longer accepting) is refunded to the delegator (V5) -/
theorem failed_delegation_refunded (p : Params) (s : St) (t : PTx) (v : Val) (hk : t.kind = 16)
    (hg : getVal s.vals t.val = some v) (hx : v.expelled = true ∨ v.accept = 0) :
    takeEffect p s t = (credit s t.sender t.value, .ok) ∧ total (takeEffect p s t).1 = total s + t.value := by
  have : takeEffect p s t = (credit s t.sender t.value, .ok) := by
    unfold takeEffect
    simp [hk, hg, hx]
  rw [this]; exact ⟨rfl, total_credit _ _ _⟩

/-- a deposit that fails to activate (total stake over MaxStakes) is refunded to the sender (V5) -/
theorem failed_deposit_refunded (p : Params) (s : St) (t : PTx) (v : Val) (hk : t.kind = 3)
    (hg : getVal s.vals t.val = some v)
    (hx : p.maxStake v.role > 0 ∧ u64 (v.stake + ((v.selfToken + t.value) / p.unit - v.selfStake)) > (p.maxStake v.role : Int)) :
    takeEffect p s t = (credit s t.sender t.value, .ok) ∧ total (takeEffect p s t).1 = total s + t.value := by
  have : takeEffect p s t = (credit s t.sender t.value, .ok) := by
    unfold takeEffect
    simp [hk, hg, hx]
  rw [this]; exact ⟨rfl, total_credit _ _ _⟩

/-- every take-effect handler (all nine kinds) moves exactly the detained value out of "pending": into the validator's
stake, into the withdraw queue, or back to the sender (V5 refunds). `tl` = `total` + the ghost loss counters; the only
branches that feed a counter are unreachable ones (create on an existing validator, negative withdrawal amount). -/
theorem takeEffect_conserves (p : Params) (s : St) (t : PTx) (hv : t.kind = 16 → 0 ≤ t.value) (hok : (takeEffect p s t).2 = .ok) :
    tl (takeEffect p s t).1 = tl s + (if detains t.kind then t.value else 0) :=
  (takeEffect_acct p s t hv hok).1

/-- penalties arrive in the penalty account: doPenalize/takePenalty (from unfinished withdraw records first, then own
stake, then delegations, each capped by what is there) credit PenaltyTo with exactly what was taken -/
theorem penalty_to_penaltyAccount (p : Params) (s : St) (v : Val) (amount : Int) (ds : Bool) (h : getVal s.vals v.addr = some v)
    (hok : (penalize p s v amount ds).2 = .ok) : tl (penalize p s v amount ds).1 = tl s :=
  (penalize_acct p s v amount h ds hok).1

/-- accepted double-sign evidence (processDoubleSignV5 after signature and look-back checks): once per validator and
block, exactly what is taken reaches the penalty account -/
theorem double_sign_penalty_conserves (p : Params) (s : St) (a : Addr) (hok : (evidenceStep p s a).2 = .ok) :
    tl (evidenceStep p s a).1 = tl s :=
  (evidenceStep_acct p s a hok).1

example : (penalize {} { vals := [⟨5, 105, 205, 1, 1, 2000, 2000, 2000, 2000, 0, 0, 0, 0, 0, false, 0, 0, 0, []⟩] }
    ⟨5, 105, 205, 1, 1, 2000, 2000, 2000, 2000, 0, 0, 0, 0, 0, false, 0, 0, 0, []⟩ 20).1.bal = [(2, 20)] := by decide

/-- inactivity slashing and recovery of expired expulsions over all validators -/
theorem inactivity_slashing_conserves (p : Params) (s : St) (hok : (slashLoop p (s.vals.map (·.addr)) s).2 = .ok) :
    tl (slashLoop p (s.vals.map (·.addr)) s).1 = tl s :=
  (slashLoop_acct p _ s hok).1

/-- distributeRewards: what leaves the role pools reaches the validators and the pools keep exactly the division
remainders — except what the forced settlement with the stale validator object overwrites, which `lost` records exactly
(F-C07a). Side condition of conservation proper: `(distribute p s).1.lost = s.lost`. -/
theorem distribute_accounting (p : Params) (s : St) (hok : (distribute p s).2.1 = .ok) :
    total (distribute p s).1 + (distribute p s).1.lost + (distribute p s).1.lostOther = total s + s.lost + s.lostOther :=
  (distribute_acct p s hok).1

/-- processPendingTxs: settle first, then every pending transaction takes effect; all pending value arrives -/
theorem pending_take_effect_conserves (p : Params) (pend : List PRec) (settled : List Addr) (s : St) (hp : PendOK pend)
    (hok : (pendingLoop p pend settled s).2 = .ok) :
    tl (pendingLoop p pend settled s).1 = tl s + pendingValue pend :=
  (pendingLoop_acct p pend settled s hp hok).1

/-- the whole end-block hook of ANY block (period end or not): exact accounting. Whatever leaves `total` is recorded in
exactly one loss counter: `lost` = rewards overwritten by the forced settlement (F-C07a), `lostDel` = rewards of
validators removed as empty (F-C07d), `lostOther` = paths no realistic chain reaches ("empty stake", a visiting order
not covering the pending records, create on an existing validator, negative withdrawal/penalty). -/
theorem endBlock_accounting (p : Params) (s : St) (cb : Addr) (order : List (Addr × Addr)) (hI : Inv0 s) (hp : PendOK s.recs)
    (hok : (endBlock p s cb order).2 = .ok) :
    total (endBlock p s cb order).1 + (endBlock p s cb order).1.lost + (endBlock p s cb order).1.lostDel
      + (endBlock p s cb order).1.lostOther = total s :=
  (endBlock_acct p s cb order hI hp hok).1

/-! ## chains -/

/-- non-vacuity: an initial state with a genesis validator satisfies the invariant, and a block with a transfer is Quiet -/
def mkVal (a : Addr) (role status : Nat) (tokenYou : Int) (rewards : Int) : Val :=
  { addr := a, operator := a + 100, coinbase := a + 200, role := role, status := status, token := tokenYou * 1000000000000000000, stake := tokenYou,
    selfToken := tokenYou * 1000000000000000000, selfStake := tokenYou, rewards := rewards, lastSettled := 0, commission := 0, risk := 0, accept := 0,
    expelled := false, expelExpired := 0, lastInactive := 0, lastActive := 143, delegs := [] }
def g0 : St := { bal := [(10, 5000000)], vals := [mkVal 5 1 1 2000 0], number := 0 }
example : Inv g0 := ⟨by decide, by decide, by decide⟩
def ops0 : List Op := [.beginBlock 1 30000000, .tx { sender := 10, nonce := 0, gasLimit := 21000, price := 2, intrinsic := 21000, body := .transfer 11 7 }, .endBlock 5 []]
example : (run {} g0 ops0).2 = .ok := by decide
example : total (run {} g0 ops0).1 = total g0 := by decide
example : (run {} g0 ops0).1.fees = 0 ∧ balOf (run {} g0 ops0).1 11 = 7 := by decide

/-! ## period ends: the full statement, its known failures, and what is proved of it -/

/-- The full property on the model: every non-crashing step conserves (all inputs, including period ends). -/
def step_conserves_statement : Prop :=
  ∀ (p : Params) (s : St) (o : Op), Inv s → (step p s o).2 = .ok → total (step p s o).1 = total s

/-- F-C07a witness: block 143 (period end; 0 + 8·16 ≤ 143), an online house validator holding 500 LU of unsettled
rewards and never settled, 9000 LU in the house pool. -/
def w07a : St := { vals := [mkVal 5 1 1 2000 0, mkVal 6 3 1 100 500], pool3 := 9000, number := 143 }
/-- F-C07d witness: block 15 (period end), an online house validator with 250 LU of unsettled rewards (below its stake,
so settlement keeps them as residue) whose full withdrawal takes effect. -/
def w07d : St := { vals := [mkVal 5 1 1 2000 0, mkVal 6 3 1 100 250], number := 15,
                   recs := [{ d := 0, v := 6, final := 0, txs := [{ kind := 4, sender := 106, val := 6, value := 100000000000000000000, aux := 9 }] }] }

/-- F-C07a (DEFECT): the forced settlement with the stale validator object destroys the rewards just distributed -/
theorem forced_settle_counterexample :
    (endBlock {} w07a 5 []).2 = .ok ∧ total (endBlock {} w07a 5 []).1 = total w07a - 9000 ∧ (endBlock {} w07a 5 []).1.lost = 9000 := by decide

/-- F-C07d (DEFECT): a validator emptied by a withdrawal is removed together with its undistributed residue -/
theorem removed_validator_counterexample :
    (endBlock {} w07d 5 [(0, 6)]).2 = .ok ∧ total (endBlock {} w07d 5 [(0, 6)]).1 = total w07d - 50 ∧ (endBlock {} w07d 5 [(0, 6)]).1.lostDel = 50 := by decide

/-- hence the full statement is false of the code that exists -/
theorem step_conserves_counterexample : ¬ step_conserves_statement := by
  intro h
  have h1 := h {} w07a (.endBlock 5 []) ⟨by decide, by decide, by decide⟩ (by decide)
  revert h1
  decide

/-! ## the chain theorem across staking-period ends -/

/-- the decidable side conditions, evaluated along the run, that exclude exactly the known-finding branches:
no EVM gas refund in a transaction (F-C07c), and an end-block hook whose loss counters stay 0 — no reward overwritten by the
forced settlement (F-C07a), no validator removed with undistributed rewards (F-C07d), none of the unreachable paths -/
def Clean (p : Params) : St → List Op → Prop
  | _, [] => True
  | s, o :: t =>
    (match o with
     | .tx tx => mintedGas tx = 0
     | .endBlock cb order => (endBlock p s cb order).1.lost = 0 ∧ (endBlock p s cb order).1.lostDel = 0 ∧ (endBlock p s cb order).1.lostOther = 0
     | .evidence a => (evidenceStep p s a).1.lostOther = s.lostOther
     | .beginBlock _ _ => True) ∧ Clean p (step p s o).1 t

/-- step_conserves: every operation kind, period ends included -/
theorem step_conserves (p : Params) (s : St) (o : Op) (hI : Inv0 s) (hp : PendOK s.recs) (hc : Clean p s [o])
    (hok : (step p s o).2 = .ok) :
    total (step p s o).1 = total s ∧ Inv0 (step p s o).1 ∧ PendOK (step p s o).1.recs := by
  cases o with
  | beginBlock n g => exact ⟨rfl, hI, hp⟩
  | tx t =>
    obtain ⟨hv, hr, hf⟩ := applyTx_frame p s t
    refine ⟨tx_conserves p s t hc.1, ?_, applyTx_pendOK p s t hp⟩
    simp only [step]
    exact ⟨by have := hI.1; omega, by rw [hr]; exact hI.2⟩
  | evidence a =>
    have h := evidenceStep_acct p s a hok
    have hcl := hc.1
    simp only [step] at *
    refine ⟨?_, ⟨by rw [h.2.2.2.1]; exact hI.1, by rw [h.2.2.1]; exact hI.2⟩, by rw [h.2.2.2.2.2]; exact hp⟩
    have h1 := h.1
    have h2 := h.2.1
    simp only [tl] at h1
    omega
  | endBlock cb order =>
    have h := endBlock_acct p s cb order hI hp hok
    have hcl := hc.1
    simp only at hcl
    refine ⟨?_, h.2.to0, endBlock_pendOK p s cb order hp hok⟩
    have h1 := h.1
    simp only [step] at *
    omega

/-- chain_conserves: for every history of blocks — any valid or invalid transfers, contract calls (observed), all nine
staking messages, accepted double-sign evidence, block rewards and subsidies, inactivity penalties, reward distribution
and settlement, withdrawals, activation or refund of pending deposits and delegations, over any number of staking
periods — `total` at the end equals `total` at the start, provided the run is `Clean` (decidable; excludes exactly
F-C07a, F-C07c, F-C07d and the unreachable paths) and does not crash. `Inv0` and `PendOK` hold of every genesis state and
are proved to be maintained. -/
theorem chain_conserves (p : Params) (ops : List Op) (s : St) (hI : Inv0 s) (hp : PendOK s.recs) (hc : Clean p s ops)
    (hok : (run p s ops).2 = .ok) : total (run p s ops).1 = total s := by
  induction ops generalizing s with
  | nil => rfl
  | cons o t ih =>
    unfold run at hok ⊢
    have hc1 : Clean p s [o] := ⟨hc.1, trivial⟩
    generalize hst : step p s o = r at *
    obtain ⟨s', out⟩ := r
    cases out with
    | crash => simp at hok
    | ok =>
      simp only at *
      have := step_conserves p s o hI hp hc1 (by rw [hst])
      rw [hst] at this
      have hc2 : Clean p s' t := by have := hc.2; rw [hst] at this; exact this
      rw [ih s' this.2.1 this.2.2 hc2 hok, this.1]

/-- non-vacuity: a two-period chain (32 blocks worth of end-block hooks compressed to the two period ends) with a pending
deposit that takes effect is Clean, does not crash, and conserves -/
def gp : St := { bal := [(105, 50000)], vals := [mkVal 5 1 1 2000 0, mkVal 6 3 1 100 0], number := 14 }
def opsp : List Op :=
  [.beginBlock 15 30000000,
   .tx { sender := 105, nonce := 0, gasLimit := 1200000, price := 0, intrinsic := 100000,
         body := .staking true { kind := 3, sender := 105, val := 5, value := 700 } },
   .evidence 6,
   .endBlock 5 [(0, 5)]]
example : Inv0 gp ∧ PendOK gp.recs := ⟨⟨by decide, by decide⟩, by intro r hr; simp [gp] at hr⟩
example : (run {} gp opsp).2 = .ok := by decide
example : Clean {} gp opsp := ⟨trivial, rfl, by decide, by decide, trivial⟩
example : total (run {} gp opsp).1 = total gp ∧ balOf (run {} gp opsp).1 2 = 2000000000000000000 := by decide

end YouVerif.C07
