import YouVerif.C07.Model
namespace YouVerif.C07

/-- placeholder first theorem (replaced below as proofs land): crediting an account changes `sumI` by the amount -/
theorem sumI_addI (m : List (Addr × Int)) (a : Addr) (x : Int) : sumI (addI m a x) = sumI m + x := by
  induction m with
  | nil => simp [addI, sumI]
  | cons h t ih =>
    obtain ⟨k, v⟩ := h
    unfold addI
    split <;> simp [sumI, ih] <;> omega

end YouVerif.C07
