/-
Helper lemmas for C07: how each primitive state update changes `total`.
-/
import YouVerif.C07.Model
namespace YouVerif.C07

theorem sumI_addI (m : List (Addr × Int)) (a : Addr) (x : Int) : sumI (addI m a x) = sumI m + x := by
  induction m with
  | nil => simp [addI, sumI]
  | cons h t ih =>
    obtain ⟨k, v⟩ := h
    unfold addI
    split <;> simp [sumI, ih] <;> omega

/-- what the stored object at `a` is worth -/
def storedMoney (vs : List Val) (a : Addr) : Int := match getVal vs a with | some o => valMoney o | none => 0

theorem sumVals_putVal (vs : List Val) (n : Val) :
    sumVals (putVal vs n) = sumVals vs - storedMoney vs n.addr + valMoney n := by
  induction vs with
  | nil => simp [putVal, sumVals, storedMoney, getVal]
  | cons v t ih =>
    unfold putVal
    by_cases h : v.addr = n.addr
    · simp [h, sumVals, storedMoney, getVal]; omega
    · simp [h, sumVals, storedMoney, getVal, ih] at *; omega

theorem storedMoney_of_get {vs : List Val} {v : Val} (h : getVal vs v.addr = some v) : storedMoney vs v.addr = valMoney v := by
  simp [storedMoney, h]

theorem getVal_addr {vs : List Val} {a : Addr} {v : Val} (h : getVal vs a = some v) : v.addr = a := by
  induction vs with
  | nil => simp [getVal] at h
  | cons w t ih =>
    unfold getVal at h
    split at h
    · simp at h; subst h; assumption
    · exact ih h

theorem total_credit (s : St) (a : Addr) (x : Int) : total (credit s a x) = total s + x := by
  simp [total, credit, sumI_addI]; omega

def txValue (t : Option PTx) : Int := match t with | some t => if detains t.kind then t.value else 0 | none => 0

theorem txsValue_append (a b : List PTx) : txsValue (a ++ b) = txsValue a + txsValue b := by
  induction a with
  | nil => simp [txsValue]
  | cons h t ih => simp [txsValue, ih]; omega

theorem txsValue_toList (t : Option PTx) : txsValue t.toList = txValue t := by
  cases t <;> simp [txsValue, txValue, Option.toList]

theorem pendingValue_addRec (rs : List PRec) (d v : Addr) (tx : Option PTx) (fin : Option Int) :
    pendingValue (addRec rs d v tx fin) = pendingValue rs + txValue tx := by
  induction rs with
  | nil => simp [addRec, pendingValue, txsValue_toList]
  | cons r t ih =>
    unfold addRec
    split
    · simp [pendingValue, txsValue_append, txsValue_toList]; omega
    · simp [pendingValue, ih]; omega

theorem updTotalPending_eq {p : Params} {s s1 : St} {v : Val} {d : Int} (h : updTotalPending p s v d = some s1) :
    ∃ x, s1 = { s with recs := addRec s.recs 0 v.addr none (some x) } := by
  unfold updTotalPending at h
  simp only at h
  repeat' (split at h)
  all_goals (first | (injection h with h; exact ⟨_, h.symm⟩) | (simp at h))

/-- every pending handler that succeeds only moves the payload value from the sender's balance into "pending" -/
theorem handle_conserves (p : Params) (s s' : St) (t : PTx) (h : handle p s t = some s') : total s' = total s := by
  unfold handle at h
  simp only at h
  repeat' (split at h)
  all_goals (first
    | (simp at h; done)
    | (injection h with h; subst h
       try (obtain ⟨x, hx⟩ := updTotalPending_eq ‹updTotalPending _ _ _ _ = some _›; subst hx)
       simp [total, credit, sumI_addI, pendingValue_addRec, txValue, detains, *]; try omega))

theorem settleGas_total (s : St) (t : Tx) (c r : Nat) :
    total (settleGas s t c r) = total s + ((r : Int) - (c : Int)) * (t.price : Int) := by
  simp [settleGas, total, credit, sumI_addI]
  rw [Int.sub_mul]; omega

theorem applyMoves_total (s : St) (ms : List (Addr × Addr × Int)) : total (applyMoves s ms) = total s := by
  induction ms generalizing s with
  | nil => rfl
  | cons m t ih =>
    obtain ⟨a, b, x⟩ := m
    simp [applyMoves, ih, total_credit]; omega

theorem evmEffect_total (s : St) (a b : Addr) (v : Int) (f : Bool) (bu : Int) (ms : List (Addr × Addr × Int)) :
    total (evmEffect s a b v f bu ms) = total s := by
  unfold evmEffect
  split
  · rfl
  · have h := applyMoves_total (credit (credit s a (-v)) b v) ms
    simp only [total_credit] at h
    simp [total, credit, sumI_addI] at *
    omega

/-- gas handed back to the sender by the refund counter although GasRewards was credited with it -/
def mintedGas (t : Tx) : Nat := match t.body with
  | .evm _ _ _ gasUsed refund _ _ => gasUsed - (gasUsed - refund)
  | _ => 0

theorem execBody_total {p : Params} {s s2 : St} {t : Tx} {c r : Nat} {f : Bool} (h : execBody p s t = some (s2, c, r, f)) :
    total s2 = total s ∧ (r : Int) - (c : Int) = (mintedGas t : Int) := by
  unfold execBody at h
  split at h
  · split at h
    · simp at h
    · simp at h; obtain ⟨h1, h2, h3, _⟩ := h; subst h1 h2 h3
      simp [total_credit, mintedGas, *]; omega
  · split at h
    · simp at h
    · simp at h; obtain ⟨h1, h2, h3, _⟩ := h; subst h1 h2 h3
      simp [evmEffect_total, mintedGas, *]; omega
  · simp only at h
    repeat' (split at h)
    all_goals (simp at h; obtain ⟨h1, h2, h3, _⟩ := h; subst h1 h2 h3; simp [mintedGas, *])
    all_goals exact handle_conserves _ _ _ _ ‹_›

theorem applyTx_total (p : Params) (s : St) (t : Tx) :
    total (applyTx p s t).1 = total s + (if (applyTx p s t).2 = .skipped then 0 else (mintedGas t : Int) * (t.price : Int)) := by
  unfold applyTx
  split
  · simp
  · split
    · simp
    · split
      · simp
      · split
        · simp
        · split
          · simp
          · rename_i h
            obtain ⟨h1, h2⟩ := execBody_total h
            simp only [settleGas_total, h1, h2]
            simp [total]
theorem shares_sum (p : Params) (vs : List Val) (per : Int) :
    chamberShare p vs per + houseShare p vs per = per * (portionsOf p vs : Int) := by
  unfold chamberShare houseShare portionsOf
  split <;> split <;> split <;> simp [Int.mul_add] <;> omega

theorem distributeBlock_total (p : Params) (s : St) (pr : Val) (per res : Int) (h : getVal s.vals pr.addr = some pr) :
    total (distributeBlock p s pr per res) = total s + per * (portionsOf p s.vals : Int) + res - s.residue - s.fees := by
  have hs := shares_sum p s.vals per
  simp [distributeBlock, total, sumVals_putVal, storedMoney, h, valMoney]
  omega

theorem rewardsToPool_total (p : Params) (s : St) (cb : Addr) (hf : 0 ≤ s.fees) (hr : 0 ≤ s.residue)
    (hok : (rewardsToPool p s cb).2 = .ok) : total (rewardsToPool p s cb).1 = total s := by
  unfold rewardsToPool at *
  simp only at *
  have hs1 : total (if subsidyOf p s > 0 then credit s p.poolAddr (-subsidyOf p s) else s) = total s - pos (subsidyOf p s) := by
    unfold pos; split <;> simp [total_credit] <;> omega
  have hp1 : 0 ≤ pos (subsidyOf p s) := by unfold pos; split <;> omega
  have hp2 : pos s.fees = s.fees := by unfold pos; split <;> omega
  have hp3 : pos s.residue = s.residue := by unfold pos; split <;> omega
  generalize hs1d : (if subsidyOf p s > 0 then credit s p.poolAddr (-subsidyOf p s) else s) = s1 at *
  have hfe : s1.fees = s.fees ∧ s1.residue = s.residue := by
    subst hs1d; split <;> simp [credit]
  split
  · rw [hs1]; omega
  · split
    · exfalso; split at hok
      · omega
      · simp at hok
    · split
      · exfalso; revert hok; simp_all
        rw [if_neg (by omega)]; simp
      · rename_i pr hg
        have ha := getVal_addr hg
        rw [distributeBlock_total p s1 pr _ _ (ha ▸ hg), hs1, hfe.1, hfe.2]
        have := Int.emod_add_mul_ediv (pos s.fees + pos s.residue + pos (subsidyOf p s)) (portionsOf p s1.vals : Int)
        rw [Int.mul_comm] at this
        omega

theorem payDelegs_spec (bal : List (Addr × Int)) (per tot : Int) (ds : List Deleg) :
    sumI (payDelegs bal per tot ds).1 + (payDelegs bal per tot ds).2 = sumI bal + tot := by
  induction ds generalizing bal tot with
  | nil => simp [payDelegs]
  | cons d t ih => simp [payDelegs, ih, sumI_addI]; omega

theorem settleMain_total (s : St) (v : Val) (c per res : Int) (h : getVal s.vals v.addr = some v)
    (hok : (settleMain s v c per res).2 = .ok) : total (settleMain s v c per res).1 = total s := by
  unfold settleMain at *
  simp only at *
  have hp := payDelegs_spec (addI s.bal v.coinbase (per * v.selfStake + c)) per (v.rewards - c - per * v.selfStake) v.delegs
  split
  · simp_all
  · rename_i hne
    simp at hne
    simp only [sumI_addI] at hp
    split <;> simp [total, sumI_addI, sumVals_putVal, storedMoney, h, valMoney, *] <;> omega

/-- settleValidatorRewards conserves when it is handed the object that is actually stored -/
theorem settle_total (s : St) (v : Val) (h : getVal s.vals v.addr = some v) (hok : (settle s v).2 = .ok) :
    total (settle s v).1 = total s := by
  unfold settle at *
  split
  · simp [total, credit, sumI_addI, sumVals_putVal, storedMoney, h, valMoney]; omega
  · split
    · rfl
    · simp_all [settleMain_total]

theorem handle_frame (p : Params) (s s' : St) (t : PTx) (h : handle p s t = some s') :
    s'.vals = s.vals ∧ s'.residue = s.residue ∧ s'.fees = s.fees := by
  unfold handle at h
  simp only at h
  repeat' (split at h)
  all_goals (first
    | (simp at h; done)
    | (injection h with h; subst h
       try (obtain ⟨x, hx⟩ := updTotalPending_eq ‹updTotalPending _ _ _ _ = some _›; subst hx)
       simp [credit]))

theorem applyMoves_frame (s : St) (ms : List (Addr × Addr × Int)) :
    (applyMoves s ms).vals = s.vals ∧ (applyMoves s ms).residue = s.residue ∧ (applyMoves s ms).fees = s.fees := by
  induction ms generalizing s with
  | nil => simp [applyMoves]
  | cons m t ih => obtain ⟨a, b, x⟩ := m; simp [applyMoves, ih, credit]

theorem execBody_frame {p : Params} {s s2 : St} {t : Tx} {c r : Nat} {f : Bool} (h : execBody p s t = some (s2, c, r, f)) :
    s2.vals = s.vals ∧ s2.residue = s.residue ∧ s2.fees = s.fees := by
  unfold execBody at h
  split at h
  · split at h
    · simp at h
    · simp at h; obtain ⟨h1, _⟩ := h; subst h1; simp [credit]
  · split at h
    · simp at h
    · simp at h; obtain ⟨h1, _⟩ := h; subst h1
      unfold evmEffect; split
      · simp
      · simp [credit, applyMoves_frame]
  · simp only at h
    repeat' (split at h)
    all_goals (simp at h; obtain ⟨h1, _⟩ := h; subst h1; try simp)
    all_goals exact handle_frame _ _ _ _ ‹_›

theorem applyTx_frame (p : Params) (s : St) (t : Tx) :
    (applyTx p s t).1.vals = s.vals ∧ (applyTx p s t).1.residue = s.residue ∧ s.fees ≤ (applyTx p s t).1.fees := by
  unfold applyTx
  split
  · simp
  · split
    · simp
    · split
      · simp
      · split
        · simp
        · split
          · simp
          · rename_i h
            obtain ⟨h1, h2, h3⟩ := execBody_frame h
            simp [settleGas, credit, h1, h2, h3]
            rename_i rewarded _
            have : 0 ≤ (rewarded : Int) * (t.price : Int) := Int.mul_nonneg (Int.natCast_nonneg _) (Int.natCast_nonneg _)
            omega

/-- inductive invariant used by the chain theorem -/
def Inv (s : St) : Prop := 0 ≤ s.fees ∧ 0 ≤ s.residue ∧ ∀ v ∈ s.vals, isInvalid v = false

theorem removedMoney_zero {vs : List Val} (h : ∀ v ∈ vs, isInvalid v = false) : removedMoney vs = 0 := by
  induction vs with
  | nil => rfl
  | cons v t ih =>
    simp [removedMoney, h v (List.mem_cons_self), ih (fun w hw => h w (List.mem_cons_of_mem _ hw))]

theorem removeInvalid_total (s : St) : total (removeInvalid s) = total s - removedMoney s.vals := by
  have : ∀ vs : List Val, sumVals (vs.filter (fun v => !isInvalid v)) = sumVals vs - removedMoney vs := by
    intro vs
    induction vs with
    | nil => rfl
    | cons v t ih =>
      by_cases hv : isInvalid v <;> simp [List.filter, hv, sumVals, removedMoney, ih] <;> omega
  simp [removeInvalid, total, this]; omega

theorem removeInvalid_valid (s : St) : ∀ v ∈ (removeInvalid s).vals, isInvalid v = false := by
  intro v hv
  simp [removeInvalid] at hv
  exact hv.2

theorem mem_putVal {vs : List Val} {n w : Val} (h : w ∈ putVal vs n) : w = n ∨ w ∈ vs := by
  induction vs with
  | nil => simp [putVal] at h; exact Or.inl h
  | cons v t ih =>
    unfold putVal at h
    split at h
    · simp at h; rcases h with h | h
      · exact Or.inl h
      · exact Or.inr (List.mem_cons_of_mem _ h)
    · simp at h; rcases h with h | h
      · exact Or.inr (h ▸ List.mem_cons_self)
      · rcases ih h with h | h
        · exact Or.inl h
        · exact Or.inr (List.mem_cons_of_mem _ h)

theorem getVal_mem {vs : List Val} {a : Addr} {v : Val} (h : getVal vs a = some v) : v ∈ vs := by
  induction vs with
  | nil => simp [getVal] at h
  | cons w t ih =>
    unfold getVal at h
    split at h
    · simp at h; subst h; exact List.mem_cons_self
    · exact List.mem_cons_of_mem _ (ih h)

theorem rewardsToPool_inv (p : Params) (s : St) (cb : Addr) (h : Inv s) (hok : (rewardsToPool p s cb).2 = .ok) :
    Inv (rewardsToPool p s cb).1 := by
  obtain ⟨hf, hr, hv⟩ := h
  unfold rewardsToPool at *
  simp only at *
  generalize hs1d : (if subsidyOf p s > 0 then credit s p.poolAddr (-subsidyOf p s) else s) = s1 at *
  have hfe : s1.fees = s.fees ∧ s1.residue = s.residue ∧ s1.vals = s.vals := by
    subst hs1d; split <;> simp [credit]
  have hI1 : Inv s1 := ⟨by rw [hfe.1]; exact hf, by rw [hfe.2.1]; exact hr, by rw [hfe.2.2]; exact hv⟩
  split
  · exact hI1
  · split
    · exact hI1
    · split
      · exact hI1
      · rename_i hp pr hg
        refine ⟨by simp [distributeBlock], ?_, ?_⟩
        · simp only [distributeBlock]
          apply Int.emod_nonneg
          omega
        · intro w hw
          simp only [distributeBlock] at hw
          rcases mem_putVal hw with h | h
          · subst h
            have := hv pr (hfe.2.2 ▸ getVal_mem hg)
            simpa [isInvalid] using this
          · exact hv w (hfe.2.2 ▸ h)

theorem rewardsToPool_number (p : Params) (s : St) (cb : Addr) : (rewardsToPool p s cb).1.number = s.number := by
  unfold rewardsToPool
  simp only
  have : (if subsidyOf p s > 0 then credit s p.poolAddr (-subsidyOf p s) else s).number = s.number := by
    split <;> simp [credit]
  repeat' split
  all_goals simp [distributeBlock, credit]

theorem endBlock_within_period (p : Params) (s : St) (cb : Addr) (order : List (Addr × Addr)) (hI : Inv s)
    (hn : (s.number + 1) % p.freq ≠ 0) (hok : (endBlock p s cb order).2 = .ok) :
    total (endBlock p s cb order).1 = total s ∧ Inv (endBlock p s cb order).1 := by
  unfold endBlock at *
  have hI' : Inv { s with lost := 0, lostDel := 0, lostOther := 0 } := hI
  generalize hs0 : ({ s with lost := 0, lostDel := 0, lostOther := 0 } : St) = s0 at *
  have hnum : s0.number = s.number := by subst hs0; rfl
  have ht0 : total s0 = total s := by subst hs0; rfl
  have hr := rewardsToPool_total p s0 cb hI'.1 hI'.2.1
  have hi := rewardsToPool_inv p s0 cb hI'
  have hnn := rewardsToPool_number p s0 cb
  generalize hrp : rewardsToPool p s0 cb = r at *
  obtain ⟨s1, o⟩ := r
  cases o with
  | crash => simp at hok
  | ok =>
    simp only at *
    have hnp : (s1.number + 1) % p.freq ≠ 0 := by rw [hnn, hnum]; exact hn
    simp only [hnp, ne_eq, not_false_eq_true, ite_true] at *
    have h1 := hr trivial
    have h2 := hi trivial
    refine ⟨?_, ?_⟩
    · rw [removeInvalid_total, removedMoney_zero h2.2.2, h1, ht0]; omega
    · exact ⟨by simpa [removeInvalid] using h2.1, by simpa [removeInvalid] using h2.2.1, removeInvalid_valid s1⟩

end YouVerif.C07
