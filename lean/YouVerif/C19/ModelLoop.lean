/-
C19 — the outcome of the downloader's trie-sync loop (you/downloader/triesync.go: `trieSync.loop`, `process`,
the deferred `commit(true)`), over the scheduler model.  Peers, timers and task bookkeeping are abstracted into
the events the loop's `select` receives; what is modelled is which error value the loop ends with.
Core Lean only.
-/
import YouVerif.C19.Model

namespace YouVerif.C19

/-- what the loop's `select` receives while `sched.Pending() > 0` -/
inductive LoopEv where
  | response (blobs : List Blob) (gaveUp : Bool)
      -- `req := <-s.deliver`: the blobs of a finished request (none for a timeout / dropped peer); `gaveUp` = `process`
      -- finds an unfulfilled task that failed with all peers ("state node … failed with all peers")
  | cancel                                   -- `<-s.cancel` / `<-s.d.cancelCh`
  | wake                                     -- `<-newPeer`: nothing but another `assignTasks`
  | flush (writeOK : Bool)
      -- `commit(false)` with `bytesUncommitted >= IdealBatchSize`: `sched.Commit(batch)` stages the membatch into the
      -- batch and drops it; `writeOK` = whether `batch.Write()` succeeds
deriving Repr, Inhabited

inductive LoopOut where
  | ok        -- `loop` returned nil: `Wait()` returns nil
  | err       -- `loop` returned an error
  | waiting   -- no more events: still blocked in `select`, nothing reported
deriving Repr, DecidableEq, Inhabited

/-- `trieSync.process`: each blob goes through `processNodeData`; `ErrNotRequested` / `ErrAlreadyProcessed` are
counted and skipped, any other error ("invalid trie node") aborts.  Returns the state and whether it aborted. -/
def processBlobs (e : Env) : St → List Blob → St × Bool
  | s, [] => (s, false)
  | s, b :: t =>
    match step e s (.deliver b) with
    | (s', .processed _ _ none) => processBlobs e s' t
    | (s', .processed _ _ (some .notRequested)) => processBlobs e s' t
    | (s', .processed _ _ (some .alreadyProcessed)) => processBlobs e s' t
    | (s', _) => (s', true)

/-- the deferred `s.commit(true)` / a flush whose batch write succeeds -/
def flushAll (s : St) : St := (commitTo s none).1

/-- a flush whose batch write fails: `Sync.Commit` has already dropped the membatch, nothing reached the database.
The loop aborts, the `Sync` object is abandoned; what survives is the database. -/
def abandoned (s : St) : St := St.init s.db

/-- what a loop that *tolerated* the failed write would continue with (seeded change C19-6): the staged entries are in
neither the membatch nor the database, their requests are gone -/
def lostFlush (s : St) : St := { s with membatch := [] }

/-- `trieSync.loop`: `for s.sched.Pending() > 0 { … select … }; return nil`, every exit followed by the deferred commit -/
def loopExit (finalWriteOK : Bool) (s : St) (out : LoopOut) : St × LoopOut :=
  if finalWriteOK then (flushAll s, out) else (abandoned s, .err)   -- `if err == nil { err = cerr }`

/-- `finalWriteOK` = whether the batch write of the deferred forced commit succeeds -/
def loopRun (e : Env) (finalWriteOK : Bool) : St → List LoopEv → St × LoopOut
  | s, [] => if s.pending = 0 then loopExit finalWriteOK s .ok else (s, .waiting)
  | s, ev :: t =>
    if s.pending = 0 then loopExit finalWriteOK s .ok else
    match ev with
    | .cancel => loopExit finalWriteOK s .err
    | .wake => loopRun e finalWriteOK s t
    | .flush true => loopRun e finalWriteOK (flushAll s) t
    | .flush false => (abandoned s, .err)        -- "DB write error": the sync aborts
    | .response blobs gaveUp =>
      let r := processBlobs e s blobs
      if r.2 || gaveUp then loopExit finalWriteOK r.1 .err else loopRun e finalWriteOK r.1 t

end YouVerif.C19
