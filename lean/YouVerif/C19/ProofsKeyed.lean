/-
C19 — whatever is stored is keyed by its own hash, for every schedule whose deliveries are hash-checked
(`deliver`, or `process` items carrying the blob's own hash).  Unconditional facts about the model.
-/
import YouVerif.C19.ProofsKept

namespace YouVerif.C19

variable {e : Env}

def ReqKeyed (e : Env) (r : Req) : Prop := ∀ b, r.data = some b → e.H b = r.hash

structure HK (e : Env) (s : St) : Prop where
  req : ∀ r ∈ s.requests, ReqKeyed e r
  mem : HashKeyed e s.membatch
  db : HashKeyed e s.db

theorem hashKeyed_append {a b : List Entry} (ha : HashKeyed e a) (hb : HashKeyed e b) : HashKeyed e (a ++ b) := by
  intro h x hm
  rcases List.mem_append.mp hm with hm | hm
  · exact ha h x hm
  · exact hb h x hm

theorem hashKeyed_sub {a b : List Entry} (hb : HashKeyed e b) (hs : ∀ x ∈ a, x ∈ b) : HashKeyed e a :=
  fun h x hm => hb h x (hs _ hm)

theorem hk_foldl {α : Type} (f : St → α → St) (hf : ∀ s a, HK e s → HK e (f s a)) :
    ∀ (l : List α) (s : St), HK e s → HK e (l.foldl f s) := by
  intro l
  induction l with
  | nil => intro s h; exact h
  | cons a t ih => intro s h; rw [List.foldl_cons]; exact ih _ (hf s a h)

theorem hk_setReq {s : St} {r : Req} (hk : HK e s) (hr : ReqKeyed e r) :
    HK e { s with requests := setReq s.requests r } := by
  refine ⟨?_, hk.mem, hk.db⟩
  intro x hx
  rcases mem_setReq.mp hx with ⟨hx, _⟩ | ⟨rfl, _⟩
  · exact hk.req x hx
  · exact hr

theorem hk_schedule {s : St} {req : Req} (hk : HK e s) (hd : req.data = none) : HK e (schedule s req) := by
  cases hf : findReq s.requests req.hash with
  | some old =>
    rw [schedule_old hf]
    exact hk_setReq hk (hk.req old (findReq_some hf).1)
  | none =>
    rw [schedule_new hf]
    refine ⟨?_, hk.mem, hk.db⟩
    intro x hx
    rcases List.mem_append.mp hx with hx | hx
    · exact hk.req x hx
    · rw [List.mem_singleton.mp hx]; intro b hb; rw [hd] at hb; cases hb

theorem hk_bumpParent {s s1 : St} {p : Hash} {ps : List Hash} (hk : HK e s) (hb : bumpParent e s p = some (s1, ps)) : HK e s1 := by
  unfold bumpParent at hb
  split at hb
  · cases hb; exact hk
  · split at hb
    · cases hb
    · rename_i a hf
      cases hb
      exact hk_setReq hk (hk.req a (findReq_some hf).1)

theorem hk_addSubTrie {s s' : St} {root parent : Hash} {depth : Nat} {cb : Bool} (hk : HK e s)
    (ha : addSubTrie e s root depth parent cb = some s') : HK e s' := by
  unfold addSubTrie at ha
  by_cases h1 : root = e.emptyRoot
  · simp [h1] at ha; subst ha; exact hk
  by_cases h2 : s.inMem root = true
  · simp [h1, h2] at ha; subst ha; exact hk
  by_cases h3 : knownNode e s root = true
  · simp [h1, h2, h3] at ha; subst ha; exact hk
  simp only [beq_iff_eq, h1, if_false, h2, h3] at ha
  cases hb : bumpParent e s parent with
  | none => simp [hb] at ha
  | some sp =>
    obtain ⟨s1, ps⟩ := sp
    simp [hb] at ha
    subst ha
    exact hk_schedule (hk_bumpParent hk hb) rfl

theorem hk_addRawEntry {s s' : St} {h parent : Hash} {depth : Nat} (hk : HK e s)
    (ha : addRawEntry e s h depth parent = some s') : HK e s' := by
  unfold addRawEntry at ha
  by_cases h1 : h = e.emptyState
  · simp [h1] at ha; subst ha; exact hk
  by_cases h2 : s.inMem h = true
  · simp [h1, h2] at ha; subst ha; exact hk
  by_cases h3 : s.dbHas h = true
  · simp [h1, h2, h3] at ha; subst ha; exact hk
  simp only [beq_iff_eq, h1, if_false, h2, h3] at ha
  cases hb : bumpParent e s parent with
  | none => simp [hb] at ha
  | some sp =>
    obtain ⟨s1, ps⟩ := sp
    simp [hb] at ha
    subst ha
    exact hk_schedule (hk_bumpParent hk hb) rfl

theorem hk_runAdd (h : Hash) (s : St) (a : Add) (hk : HK e s) : HK e (runAdd e h s a) := by
  cases a with
  | sub root =>
    simp only [runAdd]
    cases ha : addSubTrie e s root 64 h false with
    | none => exact hk
    | some s' => exact hk_addSubTrie hk ha
  | raw c =>
    simp only [runAdd]
    cases ha : addRawEntry e s c 64 h with
    | none => exact hk
    | some s' => exact hk_addRawEntry hk ha

theorem hk_commitReq : ∀ (fuel : Nat) (s : St) (r : Req), HK e s → ReqKeyed e r → HK e (commitReq fuel s r) := by
  intro fuel
  induction fuel with
  | zero => intro s r hk _; exact hk
  | succ fuel ih =>
    intro s r hk hr
    rw [commitReq_succ]
    have h1 : HK e { s with membatch := s.membatch ++ [(r.hash, r.data)], requests := eraseReq s.requests r.hash } := by
      refine ⟨fun x hx => hk.req x (mem_eraseReq.mp hx).1, ?_, hk.db⟩
      apply hashKeyed_append hk.mem
      intro h b hm
      simp only [List.mem_singleton, Prod.mk.injEq] at hm
      rw [hm.1]; exact hr b hm.2.symm
    refine hk_foldl _ ?_ _ _ h1
    intro s' q hk'
    unfold cascade
    cases hf : findReq s'.requests q with
    | none => exact hk'
    | some p =>
      have hp : ReqKeyed e (decDeps p) := hk'.req p (findReq_some hf).1
      simp only
      split
      · exact ih _ _ (hk_setReq hk' hp) hp
      · exact hk_setReq hk' hp

theorem hk_processTail (s0 : St) (r : Req) (v : NodeView) (adds : List Add) (hk : HK e s0) :
    HK e (processTail e s0 r v adds).1 := by
  unfold processTail
  have h1 := hk_foldl (runAdd e r.hash) (hk_runAdd r.hash) adds s0 hk
  generalize adds.foldl (runAdd e r.hash) s0 = s1 at h1
  simp only
  split
  · exact h1
  · rename_i r1 hf
    have hr1 : ReqKeyed e r1 := h1.req r1 (findReq_some hf).1
    split
    · exact hk_commitReq _ _ _ h1 hr1
    · refine hk_foldl _ (fun s c hk => hk_schedule hk rfl) _ _ (hk_setReq h1 ?_)
      exact hr1

theorem hk_processNode (s : St) (r : Req) (b : Blob) (v : NodeView) (hk : HK e s) (hb : e.H b = r.hash) :
    HK e (processNode e s r b v).1 := by
  have h0 : HK e { s with requests := setReq s.requests { r with data := some b } } :=
    hk_setReq hk (fun b' hb' => by
      have : b = b' := by simpa using hb'
      subst this; exact hb)
  unfold processNode
  simp only
  split
  · exact h0
  · exact hk_processTail _ _ _ _ h0
  · exact hk_processTail _ _ _ _ h0

theorem hk_processOne (s : St) (h : Hash) (b : Blob) (hk : HK e s) (hb : e.H b = h) : HK e (processOne e s h b).1 := by
  unfold processOne
  split
  · exact hk
  · rename_i r hf
    have hh := (findReq_some hf).2
    split
    · exact hk
    · split
      · apply hk_commitReq _ _ _ hk
        intro b' hb'
        have : b = b' := by simpa using hb'
        subst this
        exact hb.trans hh.symm
      · split
        · exact hk
        · exact hk_processNode _ _ _ _ hk (hb.trans hh.symm)

theorem hk_processList : ∀ (items : List (Hash × Blob)) (s : St) (i : Nat) (c : Bool), HK e s →
    (∀ p ∈ items, e.H p.2 = p.1) → HK e (processList e s items i c).1 := by
  intro items
  induction items with
  | nil => intro s i c hk _; exact hk
  | cons p t ih =>
    intro s i c hk hok
    obtain ⟨h, b⟩ := p
    have h1 := hk_processOne (e := e) s h b hk (hok (h, b) List.mem_cons_self)
    unfold processList
    split
    · rename_i s' err _ heq
      rw [heq] at h1; exact h1
    · rename_i s' c' heq
      rw [heq] at h1
      exact ih s' (i + 1) (c || c') h1 (fun p hp => hok p (List.mem_cons_of_mem _ hp))

theorem hk_commitTo (s : St) (failAt : Option Nat) (hk : HK e s) : HK e (commitTo s failAt).1 := by
  have hall : HK e { s with db := s.membatch.reverse ++ s.db, membatch := [] } :=
    ⟨hk.req, (fun _ _ h => by cases h),
      hashKeyed_append (hashKeyed_sub hk.mem (fun x hx => List.mem_reverse.mp hx)) hk.db⟩
  unfold commitTo
  cases failAt with
  | none => exact hall
  | some k =>
    simp only
    split
    · exact ⟨hk.req, hk.mem,
        hashKeyed_append (hashKeyed_sub hk.mem (fun x hx => List.mem_of_mem_take (List.mem_reverse.mp hx))) hk.db⟩
    · exact hall

/-- deliveries are hash-checked -/
def OpKeyed (e : Env) : Op → Prop
  | .process items => ∀ p ∈ items, e.H p.2 = p.1
  | _ => True

theorem hk_step {s : St} {op : Op} (hk : HK e s) (hok : OpKeyed e op) : HK e (step e s op).1 := by
  cases op with
  | addSub root depth parent cb =>
    simp only [step]
    cases ha : addSubTrie e s root depth parent cb with
    | none => exact hk
    | some s' => exact hk_addSubTrie hk ha
  | addRaw h depth parent =>
    simp only [step]
    cases ha : addRawEntry e s h depth parent with
    | none => exact hk
    | some s' => exact hk_addRawEntry hk ha
  | missing max popped =>
    simp only [step, missing]
    cases hq : missingQueue s.queue max popped with
    | none => exact hk
    | some q => exact ⟨hk.req, hk.mem, hk.db⟩
  | process items => exact hk_processList items s 0 false hk hok
  | deliver b =>
    exact hk_processList [(e.H b, b)] s 0 false hk (fun p hp => by rw [List.mem_singleton.mp hp])
  | commit failAt => exact hk_commitTo s failAt hk
  | restart => exact ⟨(fun r hr => by cases hr), (fun _ _ h => by cases h), hk.db⟩

theorem hk_run : ∀ (ops : List Op) (s : St), HK e s → (∀ op ∈ ops, OpKeyed e op) → HK e (run e s ops) := by
  intro ops
  induction ops with
  | nil => intro s hk _; exact hk
  | cons op t ih =>
    intro s hk hok
    exact ih _ (hk_step hk (hok op List.mem_cons_self)) (fun o ho => hok o (List.mem_cons_of_mem _ ho))

theorem hk_init {db0 : List Entry} (h : HashKeyed e db0) : HK e (St.init db0) :=
  ⟨(fun r hr => by cases hr), (fun _ _ h => by cases h), h⟩

end YouVerif.C19
