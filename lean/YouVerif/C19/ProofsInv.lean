/-
C19 — preservation of the scheduler invariant: building blocks.
-/
import YouVerif.C19.ProofsStore

namespace YouVerif.C19

variable {e : Env} {role : Hash → Role}

theorem pending_iff_keys {s : St} {h : Hash} : Pending s h ↔ h ∈ s.requests.map (·.hash) := by
  unfold Pending
  simp only [List.mem_map]

theorem pending_setReq {s : St} {r : Req} {h : Hash} :
    Pending { s with requests := setReq s.requests r } h ↔ Pending s h := by
  rw [pending_iff_keys, pending_iff_keys]; simp only [setReq_keys]

theorem load_le_of_count_le {D D' : List Hash} {rs : List Req} {h : Hash} (hc : D'.count h ≤ D.count h) :
    load D' rs h ≤ load D rs h := by
  unfold load; omega

theorem inStore_iff {s : St} {x : Hash} : s.inStore x = true ↔ hasKey s.db x = true ∨ hasKey s.membatch x = true := by
  simp [St.inStore, St.dbHas, St.inMem]

/-- the invariant only gets easier when fewer decrements are owed -/
theorem Inv.mono_D {D D' : List Hash} {o : Option Hash} {s : St} (hi : Inv e role D o s)
    (hc : ∀ h, D'.count h ≤ D.count h) : Inv e role D' o s := by
  refine { hi with fresh := ?_, cnt := ?_, dpar := ?_ }
  · intro r hr hd
    have := hi.fresh r hr hd
    have := load_le_of_count_le (rs := s.requests) (hc r.hash)
    omega
  · intro r hr
    have := hi.cnt r hr
    have := load_le_of_count_le (rs := s.requests) (hc r.hash)
    omega
  · intro q hq
    apply hi.dpar
    have h1 := List.count_pos_iff.mpr hq
    have h2 := hc q
    exact List.count_pos_iff.mp (by omega)

theorem Linked.mono {s s' : St} {x h : Hash}
    (hm : ∀ c ∈ s.requests, ∃ c' ∈ s'.requests, c'.hash = c.hash ∧ ∀ q ∈ c.parents, q ∈ c'.parents)
    (hl : Linked s x h) : Linked s' x h := by
  obtain ⟨c, hc, hx, hp⟩ := hl
  obtain ⟨c', hc', hh, hsub⟩ := hm c hc
  exact ⟨c', hc', hh.trans hx, hsub h hp⟩

/-- replacing a request by one with the same hash and at least the same parents keeps all links -/
theorem setReq_links {rs : List Req} {p p' : Req} (hh : p'.hash = p.hash) (hp : p ∈ rs)
    (hsub : ∀ q ∈ p.parents, q ∈ p'.parents) (nd : (rs.map (·.hash)).Nodup) :
    ∀ c ∈ rs, ∃ c' ∈ setReq rs p', c'.hash = c.hash ∧ ∀ q ∈ c.parents, q ∈ c'.parents := by
  intro c hc
  by_cases hcp : c.hash = p'.hash
  · have : c = p := key_unique nd hc hp (hcp.trans hh)
    subst this
    exact ⟨p', mem_setReq.mpr (Or.inr ⟨rfl, c, hc, hcp⟩), hh, hsub⟩
  · exact ⟨c, mem_setReq.mpr (Or.inl ⟨hc, hcp⟩), rfl, fun q hq => hq⟩

/-! ### the first step of `commit`: move the request into the membatch -/

theorem inv_erase {D : List Hash} {s : St} {r r0 : Req} (hi : Inv e role D none s)
    (hr0 : r0 ∈ s.requests) (hh : r0.hash = r.hash) (hp : r0.parents = r.parents)
    (hl : load D s.requests r.hash = 0) (hg : GoodEntry e role r.hash r.data)
    (hr : ∀ x ∈ refs e role r.hash r.data, s.inStore x = true) :
    Inv e role (D ++ r.parents) none
      { s with membatch := s.membatch ++ [(r.hash, r.data)], requests := eraseReq s.requests r.hash } := by
  have hrc : refcount s.requests r.hash = 0 := by unfold load at hl; omega
  have hDc : D.count r.hash = 0 := by unfold load at hl; omega
  have hload : ∀ h', load (D ++ r.parents) (eraseReq s.requests r.hash) h' = load D s.requests h' := by
    intro h'
    have := refcount_erase hi.nodup hr0 h'
    rw [hh, hp] at this
    unfold load
    rw [List.count_append]
    omega
  have hnotpar : ∀ c ∈ s.requests, r.hash ∉ c.parents := refcount_zero hrc
  refine
    { db := hi.db, mem := ?_, nodup := eraseReq_nodup _ hi.nodup, flags := ?_, nz := ?_, good := ?_, fresh := ?_,
      cnt := ?_, par := ?_, dpar := ?_, link := ?_ }
  · refine closedFrom_snoc hi.mem hg ?_
    intro x hx
    exact inStore_iff.mp (hr x hx)
  · intro r' hr'; exact hi.flags r' (mem_eraseReq.mp hr').1
  · intro r' hr'; exact hi.nz r' (mem_eraseReq.mp hr').1
  · intro r' hr'; exact hi.good r' (mem_eraseReq.mp hr').1
  · intro r' hr' hd
    show load (D ++ r.parents) (eraseReq s.requests r.hash) r'.hash = 0
    rw [hload]; exact hi.fresh r' (mem_eraseReq.mp hr').1 hd
  · intro r' hr'
    show (load (D ++ r.parents) (eraseReq s.requests r.hash) r'.hash : Int) ≤ r'.deps
    rw [hload]; exact hi.cnt r' (mem_eraseReq.mp hr').1
  · intro c hc q hq
    have hc' := (mem_eraseReq.mp hc).1
    obtain ⟨p, hp', hpq⟩ := hi.par c hc' q hq
    refine ⟨p, mem_eraseReq.mpr ⟨hp', ?_⟩, hpq⟩
    intro hpr
    exact hnotpar c hc' (by rw [← hpr, hpq]; exact hq)
  · intro q hq
    rcases List.mem_append.mp hq with hq | hq
    · obtain ⟨p, hp', hpq⟩ := hi.dpar q hq
      refine ⟨p, mem_eraseReq.mpr ⟨hp', ?_⟩, hpq⟩
      intro hpr
      have : q = r.hash := by rw [← hpq, hpr]
      subst this
      exact absurd (List.count_pos_iff.mpr hq) (by omega)
    · rw [← hp] at hq
      obtain ⟨p, hp', hpq⟩ := hi.par r0 hr0 q hq
      refine ⟨p, mem_eraseReq.mpr ⟨hp', ?_⟩, hpq⟩
      intro hpr
      exact hnotpar r0 hr0 (by rw [← hpr, hpq]; exact hq)
  · intro r' hr' ho b hb x hx
    have hr'' := mem_eraseReq.mp hr'
    rcases hi.link r' hr''.1 ho b hb x hx with hst | ⟨c, hc, hcx, hcp⟩
    · left
      rw [inStore_iff] at hst ⊢
      rcases hst with h1 | h1
      · exact Or.inl h1
      · right; show hasKey (s.membatch ++ [(r.hash, r.data)]) x = true
        rw [hasKey_append]; simp [h1]
    · by_cases hcr : c.hash = r.hash
      · left
        rw [inStore_iff]; right
        show hasKey (s.membatch ++ [(r.hash, r.data)]) x = true
        rw [hasKey_append, hasKey_cons]; simp [← hcx, hcr]
      · right
        exact ⟨c, mem_eraseReq.mpr ⟨hc, hcr⟩, hcx, hcp⟩

/-! ### one decrement of the cascade -/

theorem count_mid (D rest : List Hash) (q h : Hash) :
    (D ++ q :: rest).count h = (D ++ rest).count h + (if q = h then 1 else 0) := by
  rw [List.count_append, List.count_append, List.count_cons]
  by_cases hq : q = h <;> simp [hq] <;> omega

theorem inv_dec {D rest : List Hash} {q : Hash} {s : St} {p : Req} (hi : Inv e role (D ++ q :: rest) none s)
    (hp : p ∈ s.requests) (hq : p.hash = q) :
    Inv e role (D ++ rest) none { s with requests := setReq s.requests (decDeps p) } := by
  subst hq
  have hrc : ∀ h, refcount (setReq s.requests (decDeps p)) h = refcount s.requests h := by
    intro h
    have := refcount_setReq hi.nodup hp (new := decDeps p) rfl h
    simp only [decDeps] at this ⊢
    omega
  have hload : ∀ h, load (D ++ rest) (setReq s.requests (decDeps p)) h + (if p.hash = h then 1 else 0)
      = load (D ++ p.hash :: rest) s.requests h := by
    intro h
    unfold load
    rw [hrc, count_mid D rest p.hash h]
    omega
  have hlinks := setReq_links (p := p) (p' := decDeps p) rfl hp (fun q hq => hq) hi.nodup
  refine
    { db := hi.db, mem := hi.mem, nodup := by rw [show ({ s with requests := setReq s.requests (decDeps p) } : St).requests = setReq s.requests (decDeps p) from rfl, setReq_keys]; exact hi.nodup,
      flags := ?_, nz := ?_, good := ?_, fresh := ?_, cnt := ?_, par := ?_, dpar := ?_, link := ?_ }
  · intro x hx
    rcases mem_setReq.mp hx with ⟨hx, _⟩ | ⟨rfl, _⟩
    · exact hi.flags x hx
    · exact hi.flags p hp
  · intro x hx
    rcases mem_setReq.mp hx with ⟨hx, _⟩ | ⟨rfl, _⟩
    · exact hi.nz x hx
    · exact hi.nz p hp
  · intro x hx
    rcases mem_setReq.mp hx with ⟨hx, _⟩ | ⟨rfl, _⟩
    · exact hi.good x hx
    · exact hi.good p hp
  · intro x hx hd
    show load (D ++ rest) (setReq s.requests (decDeps p)) x.hash = 0
    have h1 := hload x.hash
    rcases mem_setReq.mp hx with ⟨hx, _⟩ | ⟨rfl, _⟩
    · have := hi.fresh x hx hd; omega
    · have h2 := hi.fresh p hp hd
      have h3 : (decDeps p).hash = p.hash := rfl
      rw [h3] at h1 ⊢
      omega
  · intro x hx
    show (load (D ++ rest) (setReq s.requests (decDeps p)) x.hash : Int) ≤ x.deps
    have h1 := hload x.hash
    rcases mem_setReq.mp hx with ⟨hx, _⟩ | ⟨rfl, _⟩
    · have := hi.cnt x hx; omega
    · have h2 := hi.cnt p hp
      have h3 : (decDeps p).hash = p.hash := rfl
      have h4 : (decDeps p).deps = p.deps - 1 := rfl
      rw [h3] at h1 ⊢
      rw [h4]
      simp only [if_true] at h1
      omega
  · intro c hc q' hq'
    apply pending_setReq.mpr
    rcases mem_setReq.mp hc with ⟨hc, _⟩ | ⟨rfl, _⟩
    · exact hi.par c hc q' hq'
    · exact hi.par p hp q' hq'
  · intro q' hq'
    apply pending_setReq.mpr
    apply hi.dpar
    rcases List.mem_append.mp hq' with h | h
    · exact List.mem_append_left _ h
    · exact List.mem_append_right _ (List.mem_cons_of_mem _ h)
  · intro x hx ho b hb y hy
    have key : ∀ x0 ∈ s.requests, x0.hash = x.hash → x0.data = x.data →
        s.inStore y = true ∨ Linked s y x.hash := by
      intro x0 hx0 hh hd
      have := hi.link x0 hx0 (by simp) b (by rw [hd]; exact hb) y (by rw [hh]; exact hy)
      rw [hh] at this; exact this
    have : s.inStore y = true ∨ Linked s y x.hash := by
      rcases mem_setReq.mp hx with ⟨hx, _⟩ | ⟨rfl, _⟩
      · exact key x hx rfl rfl
      · exact key p hp rfl rfl
    rcases this with h1 | h1
    · exact Or.inl h1
    · exact Or.inr (Linked.mono (s' := { s with requests := setReq s.requests (decDeps p) }) hlinks h1)

/-! ### `commit`: the whole cascade -/

/-- the body of the loop over `req.parents` in `Sync.commit` -/
def cascade (fuel : Nat) (s : St) (q : Hash) : St :=
  match findReq s.requests q with
  | none => s
  | some p =>
    if (decDeps p).deps == 0 then
      commitReq fuel { s with requests := setReq s.requests (decDeps p) } (decDeps p)
    else { s with requests := setReq s.requests (decDeps p) }

theorem commitReq_succ (fuel : Nat) (s : St) (r : Req) : commitReq (fuel + 1) s r =
    r.parents.foldl (cascade fuel)
      { s with membatch := s.membatch ++ [(r.hash, r.data)], requests := eraseReq s.requests r.hash } := by
  rfl

/-- what must hold of a request when `commit` is entered for it -/
def CommitPre (e : Env) (role : Hash → Role) (D : List Hash) (s : St) (r : Req) : Prop :=
  (∃ r0 ∈ s.requests, r0.hash = r.hash ∧ r0.parents = r.parents) ∧ load D s.requests r.hash = 0 ∧
  GoodEntry e role r.hash r.data ∧ ∀ x ∈ refs e role r.hash r.data, s.inStore x = true

theorem linked_refcount_pos {s : St} {x h : Hash} (hl : Linked s x h) : 0 < refcount s.requests h := by
  obtain ⟨c, hc, _, hp⟩ := hl
  exact refcount_pos_of_mem hc hp

theorem goodEntry_of_req {D : List Hash} {o : Option Hash} {s : St} {p : Req} {b : Blob} (hi : Inv e role D o s)
    (hp : p ∈ s.requests) (hb : p.data = some b) : GoodEntry e role p.hash p.data := by
  have hg := hi.good p hp b hb
  have hf := hi.flags p hp
  unfold GoodEntry
  rw [hf, roleFlags, hg.1]
  exact ⟨b, hb, hg.2⟩

theorem cascade_fold_inv (fuel : Nat)
    (IH : ∀ D s r, Inv e role D none s → CommitPre e role D s r → Inv e role D none (commitReq fuel s r)) :
    ∀ (ps D : List Hash) (s : St), Inv e role (D ++ ps) none s → Inv e role D none (ps.foldl (cascade fuel) s) := by
  intro ps
  induction ps with
  | nil => intro D s hi; simpa using hi
  | cons q rest ih =>
    intro D s hi
    rw [List.foldl_cons]
    have hstep : Inv e role (D ++ rest) none (cascade fuel s q) := by
      unfold cascade
      cases hf : findReq s.requests q with
      | none =>
        exact hi.mono_D (fun h => by rw [count_mid D rest q h]; omega)
      | some p =>
        obtain ⟨hp, hq⟩ := findReq_some hf
        have hi2 := inv_dec hi hp hq
        simp only
        split
        · rename_i hz
          have hz' : (decDeps p).deps = 0 := by simpa using hz
          have hmem : decDeps p ∈ setReq s.requests (decDeps p) := mem_setReq.mpr (Or.inr ⟨rfl, p, hp, rfl⟩)
          have hload : load (D ++ rest) (setReq s.requests (decDeps p)) p.hash = 0 := by
            have := hi2.cnt (decDeps p) hmem
            rw [hz'] at this
            have h3 : (decDeps p).hash = p.hash := rfl
            rw [h3] at this
            have h4 : ({ s with requests := setReq s.requests (decDeps p) } : St).requests = setReq s.requests (decDeps p) := rfl
            rw [h4] at this
            omega
          apply IH _ _ _ hi2
          refine ⟨⟨decDeps p, hmem, rfl, rfl⟩, hload, ?_, ?_⟩
          · cases hd : p.data with
            | none =>
              have := hi.fresh p hp hd
              rw [hq] at this
              unfold load at this
              rw [count_mid D rest q q] at this
              simp at this
            | some b =>
              have := goodEntry_of_req hi2 hmem (b := b) hd
              exact this
          · intro x hx
            cases hd : p.data with
            | none =>
              have h5 : (decDeps p).data = none := hd
              rw [h5] at hx
              unfold refs at hx
              split at hx <;> simp_all
            | some b =>
              have h5 : (decDeps p).data = some b := hd
              rw [h5] at hx
              rcases hi2.link (decDeps p) hmem (by simp) b h5 x hx with h1 | h1
              · exact h1
              · have := linked_refcount_pos h1
                have h3 : (decDeps p).hash = p.hash := rfl
                rw [h3] at this
                unfold load at hload
                have h4 : ({ s with requests := setReq s.requests (decDeps p) } : St).requests = setReq s.requests (decDeps p) := rfl
                rw [h4] at this
                omega
        · exact hi2
    exact ih D _ hstep

theorem commitReq_inv : ∀ (fuel : Nat) (D : List Hash) (s : St) (r : Req),
    Inv e role D none s → CommitPre e role D s r → Inv e role D none (commitReq fuel s r) := by
  intro fuel
  induction fuel with
  | zero => intro D s r hi _; exact hi
  | succ fuel ih =>
    intro D s r hi hpre
    obtain ⟨⟨r0, hr0, hh, hp⟩, hl, hg, hr⟩ := hpre
    rw [commitReq_succ]
    exact cascade_fold_inv fuel ih r.parents D _ (inv_erase hi hr0 hh hp hl hg hr)

end YouVerif.C19
