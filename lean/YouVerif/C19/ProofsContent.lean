/-
C19 — two closed, hash-keyed databases holding the same root show a reader the same content.
-/
import YouVerif.C19.ProofsKeyed

namespace YouVerif.C19

variable {e : Env} {role : Hash → Role}

theorem goodEntry_some {h : Hash} {v : Option Blob} (hg : GoodEntry e role h v) : ∃ b, v = some b := by
  unfold GoodEntry at hg
  split at hg
  · exact hg
  · obtain ⟨b, hb, _⟩ := hg; exact ⟨b, hb⟩

theorem exists_of_hasKey {l : List Entry} {x : Hash} (h : hasKey l x = true) : ∃ v, (x, v) ∈ l := by
  simp only [hasKey, List.any_eq_true, beq_iff_eq] at h
  obtain ⟨⟨k, v⟩, hm, hk⟩ := h
  exact ⟨v, by simpa [← hk] using hm⟩

theorem same_entry {d1 d2 : List Entry} (hinj : ∀ a b, e.H a = e.H b → a = b)
    (hc1 : DbClosed e role d1) (hk1 : HashKeyed e d1) (hc2 : DbClosed e role d2) (hk2 : HashKeyed e d2)
    {x : Hash} {v : Option Blob} (h2 : hasKey d2 x = true) (h1 : (x, v) ∈ d1) : (x, v) ∈ d2 := by
  obtain ⟨v2, hm2⟩ := exists_of_hasKey h2
  obtain ⟨b, rfl⟩ := goodEntry_some (hc1 x v h1).1
  obtain ⟨b2, rfl⟩ := goodEntry_some (hc2 x v2 hm2).1
  have : b = b2 := hinj b b2 ((hk1 x b h1).trans (hk2 x b2 hm2).symm)
  subst this
  exact hm2

theorem reach_transfer {d1 d2 : List Entry} {root : Hash} (hinj : ∀ a b, e.H a = e.H b → a = b)
    (hc1 : DbClosed e role d1) (hk1 : HashKeyed e d1) (hc2 : DbClosed e role d2) (hk2 : HashKeyed e d2)
    (hr2 : hasKey d2 root = true) {x : Hash} (hx : Reach e role d1 root x) :
    hasKey d2 x = true ∧ Reach e role d2 root x ∧ ∀ v, (x, v) ∈ d1 → (x, v) ∈ d2 := by
  induction hx with
  | root => exact ⟨hr2, Reach.root, fun v hv => same_entry hinj hc1 hk1 hc2 hk2 hr2 hv⟩
  | step _ hm hxr ih =>
    have hm2 := ih.2.2 _ hm
    have hk := (hc2 _ _ hm2).2 _ hxr
    exact ⟨hk, Reach.step ih.2.1 hm2 hxr, fun v hv => same_entry hinj hc1 hk1 hc2 hk2 hk hv⟩

theorem inj_of_not_collision (hn : ¬ Collision e) : ∀ a b, e.H a = e.H b → a = b := by
  intro a b hab
  apply Classical.byContradiction
  intro hne
  exact hn ⟨a, b, hne, hab⟩

theorem addSubTrie_zero_some (s : St) (root : Hash) (depth : Nat) (cb : Bool) :
    ∃ s', addSubTrie e s root depth e.zeroHash cb = some s' := by
  unfold addSubTrie
  rw [bumpParent_zero]
  split
  · exact ⟨_, rfl⟩
  · split
    · exact ⟨_, rfl⟩
    · split
      · exact ⟨_, rfl⟩
      · exact ⟨_, rfl⟩

end YouVerif.C19
