/-
C19 — executable model of trie/sync.go (`trie.Sync`: AddSubTrie, AddRawEntry, Missing, Process, children,
schedule, commit, Commit, Pending), of the leaf callback of core/state/sync.go (`NewStateSync`) and of the
delivery hashing of you/downloader/triesync.go (`processNodeData`).

Hashes and blobs are natural-number ids.  What a blob *means* is given by the environment:
`Env.view b` is the result of `decodeNode` on the blob seen through `Sync.children` (hash references with
their key step, and the result of the state leaf callback on a directly attached value); `Env.H b` is
the Keccak-256 of the blob.  Both are uninterpreted functions in the theorems; the driver instantiates
them with the table the harness extracts from the real code (`trie.VerifNodeView`, `rlp.Decode` into
`state.Account`, `crypto.Keccak256`).

Core Lean only.
-/
namespace YouVerif.C19

abbrev Hash := Nat
abbrev Blob := Nat

/-- what the state leaf callback schedules for one account leaf, in call order -/
inductive Add where
  | sub (root : Hash)        -- syncer.AddSubTrie(obj.Root, 64, parent, nil)
  | raw (h : Hash)           -- syncer.AddRawEntry(codeHash / delegationsHash, 64, parent)
deriving Repr, DecidableEq, Inhabited

/-- result of the leaf callback on a value node -/
inductive Leaf where
  | err                      -- rlp.Decode into Account failed
  | adds (l : List Add)
deriving Repr, DecidableEq, Inhabited

/-- a blob that decodes as a trie node, as `Sync.children` sees it.  A short node has one child, a full
node has at most one value child (slot 16), hence at most one leaf per node; embedded child nodes are
neither hash nor value nodes and are ignored by `children`. -/
structure NodeView where
  children : List (Hash × Nat)   -- hash-node children: (hash, key nibbles consumed)
  leaf : Option Leaf             -- value-node child, seen through the state callback
deriving Repr, DecidableEq, Inhabited

/-- `none` = `decodeNode` returns an error -/
abbrev View := Option NodeView

structure Env where
  view : Blob → View
  H : Blob → Hash
  emptyRoot : Hash
  emptyState : Hash
  zeroHash : Hash

/-- `trie.request` (the callback is either nil or the state callback: a flag) -/
structure Req where
  hash : Hash
  data : Option Blob
  raw : Bool
  parents : List Hash
  depth : Nat
  deps : Int
  cb : Bool
deriving Repr, DecidableEq, Inhabited

abbrev Entry := Hash × Option Blob     -- a stored value; `none` = nil data (empty value)

structure St where
  requests : List Req                  -- `Sync.requests`, keyed by hash
  queue : List (Hash × Nat)            -- `Sync.queue` with the priority (= depth at first scheduling)
  membatch : List Entry                -- `membatch.order` zipped with `membatch.batch`
  db : List Entry                      -- the database read by the scheduler and written by Commit (latest Put first)
deriving Repr, Inhabited

def St.init (db0 : List Entry) : St := { requests := [], queue := [], membatch := [], db := db0 }

/-! ### lookups -/

def findReq (rs : List Req) (h : Hash) : Option Req := rs.find? (fun r => r.hash == h)
def setReq (rs : List Req) (r : Req) : List Req := rs.map (fun x => if x.hash == r.hash then r else x)
def eraseReq (rs : List Req) (h : Hash) : List Req := rs.filter (fun r => r.hash != h)

def hasKey (l : List Entry) (h : Hash) : Bool := l.any (fun e => e.1 == h)
def getKey (l : List Entry) (h : Hash) : Option (Option Blob) := (l.find? (fun e => e.1 == h)).map (·.2)

def St.inMem (s : St) (h : Hash) : Bool := hasKey s.membatch h
def St.dbHas (s : St) (h : Hash) : Bool := hasKey s.db h
def St.inStore (s : St) (h : Hash) : Bool := s.dbHas h || s.inMem h
def St.pending (s : St) : Nat := s.requests.length

/-- `blob, _ := database.Get(key); local, err := decodeNode(key, blob); local != nil && err == nil` -/
def knownNode (e : Env) (s : St) (h : Hash) : Bool :=
  match getKey s.db h with
  | some (some b) => (e.view b).isSome
  | _ => false

/-! ### schedule / AddSubTrie / AddRawEntry -/

def schedule (s : St) (r : Req) : St :=
  match findReq s.requests r.hash with
  | some old => { s with requests := setReq s.requests { old with parents := old.parents ++ r.parents } }
  | none => { s with queue := s.queue ++ [(r.hash, r.depth)], requests := s.requests ++ [r] }

/-- `ancestor.deps++`; `none` = the Go code panics ("ancestor not found"), before any mutation -/
def bumpParent (e : Env) (s : St) (parent : Hash) : Option (St × List Hash) :=
  if parent == e.zeroHash then some (s, [])
  else match findReq s.requests parent with
    | none => none
    | some a => some ({ s with requests := setReq s.requests { a with deps := a.deps + 1 } }, [parent])

def addSubTrie (e : Env) (s : St) (root : Hash) (depth : Nat) (parent : Hash) (cb : Bool) : Option St :=
  if root == e.emptyRoot then some s
  else if s.inMem root then some s
  else if knownNode e s root then some s
  else match bumpParent e s parent with
    | none => none
    | some (s, ps) => some (schedule s { hash := root, data := none, raw := false, parents := ps, depth := depth, deps := 0, cb := cb })

def addRawEntry (e : Env) (s : St) (h : Hash) (depth : Nat) (parent : Hash) : Option St :=
  if h == e.emptyState then some s
  else if s.inMem h then some s
  else if s.dbHas h then some s
  else match bumpParent e s parent with
    | none => none
    | some (s, ps) => some (schedule s { hash := h, data := none, raw := true, parents := ps, depth := depth, deps := 0, cb := false })

/-! ### commit (cascade to parents whose last dependency resolved) -/

def decDeps (p : Req) : Req := { p with deps := p.deps - 1 }

/-- `Sync.commit`.  Fuel bounds the recursion depth (each level deletes one request). -/
def commitReq : Nat → St → Req → St
  | 0, s, _ => s
  | fuel + 1, s, r =>
    let s1 : St := { s with membatch := s.membatch ++ [(r.hash, r.data)], requests := eraseReq s.requests r.hash }
    r.parents.foldl (fun s q =>
      match findReq s.requests q with
      | none => s
      | some p =>
        let s2 : St := { s with requests := setReq s.requests (decDeps p) }
        if (decDeps p).deps == 0 then commitReq fuel s2 (decDeps p) else s2) s1

/-! ### Process -/

inductive Err where
  | notRequested | alreadyProcessed | decode | callback
deriving Repr, DecidableEq, Inhabited

def runAdd (e : Env) (parent : Hash) (s : St) (a : Add) : St :=
  match a with
  | .sub root => (addSubTrie e s root 64 parent false).getD s    -- the parent is the request being processed: present
  | .raw h => (addRawEntry e s h 64 parent).getD s

def childReq (r : Req) (c : Hash × Nat) : Req :=
  { hash := c.1, data := none, raw := false, parents := [r.hash], depth := r.depth + c.2, deps := 0, cb := r.cb }

/-- the node branch of `Process` after `children` has run the leaf callback's additions `adds`:
collect the missing children, then commit or schedule -/
def processTail (e : Env) (s0 : St) (r : Req) (v : NodeView) (adds : List Add) : St × Option Err × Bool :=
  let s1 := adds.foldl (runAdd e r.hash) s0
  let news := v.children.filter (fun c => !(s1.inStore c.1))
  match findReq s1.requests r.hash with
  | none => (s1, none, false)
  | some r1 =>
    if news.isEmpty && r1.deps == 0 then (commitReq (s1.requests.length + 1) s1 r1, none, true)
    else
      let s2 : St := { s1 with requests := setReq s1.requests { r1 with deps := r1.deps + news.length } }
      (news.foldl (fun s c => schedule s (childReq r1 c)) s2, none, false)

/-- the node branch of `Process` after a successful decode: `request.data = item.Data`, `children` (leaf
callback first: a callback error aborts with nothing but the data set), then commit or schedule -/
def processNode (e : Env) (s : St) (r : Req) (b : Blob) (v : NodeView) : St × Option Err × Bool :=
  let s0 : St := { s with requests := setReq s.requests { r with data := some b } }
  match (if r.cb then v.leaf else none) with
  | some .err => (s0, some .callback, false)
  | some (.adds l) => processTail e s0 r v l
  | none => processTail e s0 r v []

def processOne (e : Env) (s : St) (h : Hash) (b : Blob) : St × Option Err × Bool :=
  match findReq s.requests h with
  | none => (s, some .notRequested, false)
  | some r =>
    if r.data.isSome then (s, some .alreadyProcessed, false)
    else if r.raw then (commitReq (s.requests.length + 1) s { r with data := some b }, none, true)
    else match e.view b with
      | none => (s, some .decode, false)
      | some v => processNode e s r b v

/-- `Sync.Process`: returns (state, committed, index, error) -/
def processList (e : Env) : St → List (Hash × Blob) → Nat → Bool → St × Bool × Nat × Option Err
  | s, [], _, c => (s, c, 0, none)
  | s, (h, b) :: rest, i, c =>
    match processOne e s h b with
    | (s', some err, _) => (s', c, i, some err)
    | (s', none, c') => processList e s' rest (i + 1) (c || c')

/-! ### Missing / Commit -/

def removeFirst (q : List (Hash × Nat)) (h : Hash) : Option ((Hash × Nat) × List (Hash × Nat)) :=
  match q with
  | [] => none
  | x :: t => if x.1 == h then some (x, t) else (removeFirst t h).map (fun (y, t') => (y, x :: t'))

/-- remove the popped hashes from the queue, returning their priorities in pop order -/
def popAll : List (Hash × Nat) → List Hash → Option (List Nat × List (Hash × Nat))
  | q, [] => some ([], q)
  | q, h :: t =>
    match removeFirst q h with
    | none => none
    | some (x, q') => (popAll q' t).map (fun (ps, q'') => (x.2 :: ps, q''))

def nonIncreasing : List Nat → Bool
  | a :: b :: t => decide (b ≤ a) && nonIncreasing (b :: t)
  | _ => true

/-- `Sync.Missing(max)` pops from a priority queue whose order among equal priorities is an implementation
detail of `prque`; the model takes the popped list as given and checks that it is a legal answer:
the right number of distinct queued hashes, highest priority first. -/
def missingQueue (q : List (Hash × Nat)) (max : Nat) (popped : List Hash) : Option (List (Hash × Nat)) :=
  let want := if max == 0 then q.length else min max q.length
  if popped.length != want then none else
  match popAll q popped with
  | none => none
  | some (prios, rest) =>
    let lo := prios.foldl min (prios.headD 0)
    if nonIncreasing prios && rest.all (fun x => decide (x.2 ≤ lo)) then some rest else none

def missing (s : St) (max : Nat) (popped : List Hash) : Option St :=
  (missingQueue s.queue max popped).map (fun q => { s with queue := q })

/-- `Sync.Commit` with a writer whose `Put` fails at index `k` (`none` = never): the first `k` entries of
`membatch.order` are written; the membatch is dropped only if every `Put` succeeded. -/
def commitTo (s : St) (failAt : Option Nat) : St × List Hash :=
  match failAt with
  | some k =>
    if k < s.membatch.length then
      ({ s with db := (s.membatch.take k).reverse ++ s.db }, (s.membatch.take k).map (·.1))
    else ({ s with db := s.membatch.reverse ++ s.db, membatch := [] }, s.membatch.map (·.1))
  | none => ({ s with db := s.membatch.reverse ++ s.db, membatch := [] }, s.membatch.map (·.1))

/-! ### operations -/

inductive Op where
  | addSub (root : Hash) (depth : Nat) (parent : Hash) (cb : Bool)
  | addRaw (h : Hash) (depth : Nat) (parent : Hash)
  | missing (max : Nat) (popped : List Hash)
  | process (items : List (Hash × Blob))
  | deliver (b : Blob)                      -- downloader `processNodeData`: `Process [(Keccak(b), b)]`
  | commit (failAt : Option Nat)
  | restart                                 -- the Sync object is dropped (crash / cancel) and a new one is created over the same database
deriving Repr, Inhabited

inductive Out where
  | ok
  | crash                                     -- Go panics
  | bad                                       -- not a legal `Missing` answer
  | processed (committed : Bool) (idx : Nat) (err : Option Err)
  | written (l : List Hash)
deriving Repr, DecidableEq, Inhabited

def step (e : Env) (s : St) : Op → St × Out
  | .addSub root depth parent cb =>
    match addSubTrie e s root depth parent cb with
    | some s' => (s', .ok)
    | none => (s, .crash)
  | .addRaw h depth parent =>
    match addRawEntry e s h depth parent with
    | some s' => (s', .ok)
    | none => (s, .crash)
  | .missing max popped =>
    match missing s max popped with
    | some s' => (s', .ok)
    | none => (s, .bad)
  | .process items =>
    let (s', c, i, err) := processList e s items 0 false
    (s', .processed c i err)
  | .deliver b =>
    let (s', c, i, err) := processList e s [(e.H b, b)] 0 false
    (s', .processed c i err)
  | .commit failAt =>
    let (s', l) := commitTo s failAt
    (s', .written l)
  | .restart => (St.init s.db, .ok)

def run (e : Env) (s : St) (ops : List Op) : St := ops.foldl (fun s op => (step e s op).1) s

/-- `NewSync(root, database, callback)` -/
def newSync (e : Env) (db0 : List Entry) (root : Hash) (cb : Bool) : St :=
  (step e (St.init db0) (.addSub root 0 e.zeroHash cb)).1

end YouVerif.C19
