/-
C19 — preservation of the scheduler invariant by `schedule`, the dependency bumps and `request.data = …`.
-/
import YouVerif.C19.ProofsInv

namespace YouVerif.C19

variable {e : Env} {role : Hash → Role}

/-- `s'` extends `s`: same store, every request still there with the same identity and at least the same parents -/
def Ext (s s' : St) : Prop :=
  s'.db = s.db ∧ s'.membatch = s.membatch ∧
  ∀ p ∈ s.requests, ∃ p' ∈ s'.requests, p'.hash = p.hash ∧ p'.data = p.data ∧ p'.raw = p.raw ∧ p'.cb = p.cb ∧
    p'.depth = p.depth ∧ ∀ q ∈ p.parents, q ∈ p'.parents

theorem Ext.refl (s : St) : Ext s s := ⟨rfl, rfl, fun p hp => ⟨p, hp, rfl, rfl, rfl, rfl, rfl, fun _ h => h⟩⟩

theorem Ext.trans {a b c : St} (h1 : Ext a b) (h2 : Ext b c) : Ext a c := by
  refine ⟨h2.1.trans h1.1, h2.2.1.trans h1.2.1, ?_⟩
  intro p hp
  obtain ⟨p', hp', e1, e2, e3, e4, e5, e6⟩ := h1.2.2 p hp
  obtain ⟨p'', hp'', f1, f2, f3, f4, f5, f6⟩ := h2.2.2 p' hp'
  exact ⟨p'', hp'', f1.trans e1, f2.trans e2, f3.trans e3, f4.trans e4, f5.trans e5, fun q hq => f6 q (e6 q hq)⟩

theorem Ext.linked {s s' : St} (hx : Ext s s') {x h : Hash} (hl : Linked s x h) : Linked s' x h :=
  Linked.mono (fun c hc => by obtain ⟨c', hc', e1, _, _, _, _, e6⟩ := hx.2.2 c hc; exact ⟨c', hc', e1, e6⟩) hl

theorem Ext.inStore {s s' : St} (hx : Ext s s') (x : Hash) : s'.inStore x = s.inStore x := by
  simp [St.inStore, St.dbHas, St.inMem, hx.1, hx.2.1]

theorem Ext.pending {s s' : St} (hx : Ext s s') {h : Hash} (hp : Pending s h) : Pending s' h := by
  obtain ⟨p, hp, hh⟩ := hp
  obtain ⟨p', hp', e1, _⟩ := hx.2.2 p hp
  exact ⟨p', hp', e1.trans hh⟩

/-- a `setReq` that keeps identity and parents (or adds parents) is an extension -/
theorem ext_setReq {s : St} {p p' : Req} (nd : (s.requests.map (·.hash)).Nodup) (hp : p ∈ s.requests)
    (h1 : p'.hash = p.hash) (h2 : p'.data = p.data) (h3 : p'.raw = p.raw) (h4 : p'.cb = p.cb) (h5 : p'.depth = p.depth)
    (h6 : ∀ q ∈ p.parents, q ∈ p'.parents) : Ext s { s with requests := setReq s.requests p' } := by
  refine ⟨rfl, rfl, ?_⟩
  intro c hc
  by_cases hcp : c.hash = p'.hash
  · have : c = p := key_unique nd hc hp (hcp.trans h1)
    subst this
    exact ⟨p', mem_setReq.mpr (Or.inr ⟨rfl, c, hc, hcp⟩), h1, h2, h3, h4, h5, h6⟩
  · exact ⟨c, mem_setReq.mpr (Or.inl ⟨hc, hcp⟩), rfl, rfl, rfl, rfl, rfl, fun q hq => hq⟩

/-! ### `schedule` -/

theorem schedule_old {s : St} {req old : Req} (hf : findReq s.requests req.hash = some old) :
    schedule s req = { s with requests := setReq s.requests { old with parents := old.parents ++ req.parents } } := by
  simp [schedule, hf]

theorem schedule_new {s : St} {req : Req} (hf : findReq s.requests req.hash = none) :
    schedule s req = { s with queue := s.queue ++ [(req.hash, req.depth)], requests := s.requests ++ [req] } := by
  simp [schedule, hf]

theorem schedule_ext {s : St} {req : Req} (nd : (s.requests.map (·.hash)).Nodup) : Ext s (schedule s req) := by
  cases hf : findReq s.requests req.hash with
  | some old =>
    rw [schedule_old hf]
    obtain ⟨ho, _⟩ := findReq_some hf
    exact ext_setReq nd ho rfl rfl rfl rfl rfl (fun q hq => List.mem_append_left _ hq)
  | none =>
    rw [schedule_new hf]
    exact ⟨rfl, rfl, fun p hp => ⟨p, List.mem_append_left _ hp, rfl, rfl, rfl, rfl, rfl, fun _ h => h⟩⟩

theorem schedule_linked {s : St} {req : Req} : ∀ q ∈ req.parents, Linked (schedule s req) req.hash q := by
  intro q hq
  cases hf : findReq s.requests req.hash with
  | some old =>
    rw [schedule_old hf]
    obtain ⟨ho, hh⟩ := findReq_some hf
    exact ⟨_, mem_setReq.mpr (Or.inr ⟨rfl, old, ho, rfl⟩), hh, List.mem_append_right _ hq⟩
  | none =>
    rw [schedule_new hf]
    exact ⟨req, List.mem_append_right _ (List.mem_singleton.mpr rfl), rfl, hq⟩

theorem schedule_load {s : St} {req : Req} (nd : (s.requests.map (·.hash)).Nodup) (D : List Hash) (h : Hash) :
    load D (schedule s req).requests h = load (req.parents ++ D) s.requests h := by
  unfold load
  rw [List.count_append]
  cases hf : findReq s.requests req.hash with
  | some old =>
    rw [schedule_old hf]
    obtain ⟨ho, hh⟩ := findReq_some hf
    have := refcount_setReq nd ho (new := { old with parents := old.parents ++ req.parents }) rfl h
    simp only [List.count_append] at this
    show refcount (setReq s.requests { old with parents := old.parents ++ req.parents }) h + _ = _
    omega
  | none =>
    rw [schedule_new hf]
    show refcount (s.requests ++ [req]) h + _ = _
    rw [refcount_append, refcount_cons, refcount_nil]
    omega

theorem inv_schedule {D : List Hash} {o : Option Hash} {s : St} {req : Req}
    (hi : Inv e role (req.parents ++ D) o s) (hdata : req.data = none) (hdeps : req.deps = 0)
    (hflags : role req.hash = roleFlags req) (hnz : req.hash ≠ e.zeroHash) :
    Inv e role D o (schedule s req) := by
  have hext := schedule_ext (req := req) hi.nodup
  have hload := schedule_load (req := req) hi.nodup D
  cases hf : findReq s.requests req.hash with
  | some old =>
    obtain ⟨ho, hh⟩ := findReq_some hf
    rw [schedule_old hf] at hext hload ⊢
    have hmem : ∀ x ∈ setReq s.requests { old with parents := old.parents ++ req.parents },
        ∃ x0 ∈ s.requests, x.hash = x0.hash ∧ x.data = x0.data ∧ x.raw = x0.raw ∧ x.cb = x0.cb ∧ x.deps = x0.deps ∧
          ∀ q ∈ x.parents, q ∈ x0.parents ∨ q ∈ req.parents := by
      intro x hx
      rcases mem_setReq.mp hx with ⟨hx, _⟩ | ⟨rfl, _⟩
      · exact ⟨x, hx, rfl, rfl, rfl, rfl, rfl, fun q hq => Or.inl hq⟩
      · exact ⟨old, ho, rfl, rfl, rfl, rfl, rfl, fun q hq => List.mem_append.mp hq⟩
    refine
      { db := hi.db, mem := hi.mem, nodup := by show ((setReq _ _).map _).Nodup; rw [setReq_keys]; exact hi.nodup,
        flags := ?_, nz := ?_, good := ?_, fresh := ?_, cnt := ?_, par := ?_, dpar := ?_, link := ?_ }
    · intro x hx
      obtain ⟨x0, hx0, e1, _, e3, e4, _, _⟩ := hmem x hx
      have := hi.flags x0 hx0
      unfold roleFlags at this ⊢
      rw [e1, e3, e4]; exact this
    · intro x hx
      obtain ⟨x0, hx0, e1, _⟩ := hmem x hx
      rw [e1]; exact hi.nz x0 hx0
    · intro x hx b hb
      obtain ⟨x0, hx0, _, e2, e3, _⟩ := hmem x hx
      rw [e3]; exact hi.good x0 hx0 b (by rw [← e2]; exact hb)
    · intro x hx hd
      obtain ⟨x0, hx0, e1, e2, _⟩ := hmem x hx
      rw [hload, e1]; exact hi.fresh x0 hx0 (by rw [← e2]; exact hd)
    · intro x hx
      obtain ⟨x0, hx0, e1, _, _, _, e5, _⟩ := hmem x hx
      rw [hload, e1, e5]; exact hi.cnt x0 hx0
    · intro x hx q hq
      obtain ⟨x0, hx0, _, _, _, _, _, e6⟩ := hmem x hx
      apply hext.pending
      rcases e6 q hq with h1 | h1
      · exact hi.par x0 hx0 q h1
      · exact hi.dpar q (List.mem_append_left _ h1)
    · intro q hq
      exact hext.pending (hi.dpar q (List.mem_append_right _ hq))
    · intro x hx hxo b hb y hy
      obtain ⟨x0, hx0, e1, e2, _⟩ := hmem x hx
      rw [e1] at hxo hy ⊢
      rcases hi.link x0 hx0 hxo b (by rw [← e2]; exact hb) y hy with h1 | h1
      · left; rw [hext.inStore]; exact h1
      · right; exact hext.linked h1
  | none =>
    have hnone := findReq_none hf
    rw [schedule_new hf] at hext hload ⊢
    have hnotpending : ¬ Pending s req.hash := fun ⟨p, hp, hph⟩ => hnone p hp hph
    have hreq0 : load (req.parents ++ D) s.requests req.hash = 0 := by
      unfold load
      have h1 : refcount s.requests req.hash = 0 :=
        refcount_eq_zero_of (fun c hc hq => hnotpending (hi.par c hc _ hq))
      have h2 : (req.parents ++ D).count req.hash = 0 :=
        List.count_eq_zero.mpr (fun hq => hnotpending (hi.dpar _ hq))
      omega
    refine
      { db := hi.db, mem := hi.mem, nodup := ?_, flags := ?_, nz := ?_, good := ?_, fresh := ?_, cnt := ?_, par := ?_,
        dpar := ?_, link := ?_ }
    · show ((s.requests ++ [req]).map (·.hash)).Nodup
      rw [List.map_append, List.nodup_append]
      refine ⟨hi.nodup, by simp, ?_⟩
      intro a ha b hb
      simp only [List.map_cons, List.map_nil, List.mem_singleton] at hb
      obtain ⟨p, hp, rfl⟩ := List.mem_map.mp ha
      rw [hb]; exact hnone p hp
    · intro x hx
      rcases List.mem_append.mp hx with hx | hx
      · exact hi.flags x hx
      · rw [List.mem_singleton.mp hx]; exact hflags
    · intro x hx
      rcases List.mem_append.mp hx with hx | hx
      · exact hi.nz x hx
      · rw [List.mem_singleton.mp hx]; exact hnz
    · intro x hx b hb
      rcases List.mem_append.mp hx with hx | hx
      · exact hi.good x hx b hb
      · rw [List.mem_singleton.mp hx, hdata] at hb; cases hb
    · intro x hx hd
      rw [hload]
      rcases List.mem_append.mp hx with hx | hx
      · exact hi.fresh x hx hd
      · rw [List.mem_singleton.mp hx]; exact hreq0
    · intro x hx
      rw [hload]
      rcases List.mem_append.mp hx with hx | hx
      · exact hi.cnt x hx
      · rw [List.mem_singleton.mp hx, hreq0, hdeps]; simp
    · intro x hx q hq
      apply hext.pending
      rcases List.mem_append.mp hx with hx | hx
      · exact hi.par x hx q hq
      · rw [List.mem_singleton.mp hx] at hq
        exact hi.dpar q (List.mem_append_left _ hq)
    · intro q hq
      exact hext.pending (hi.dpar q (List.mem_append_right _ hq))
    · intro x hx hxo b hb y hy
      rcases List.mem_append.mp hx with hx | hx
      · rcases hi.link x hx hxo b hb y hy with h1 | h1
        · left; rw [hext.inStore]; exact h1
        · right; exact hext.linked h1
      · rw [List.mem_singleton.mp hx, hdata] at hb; cases hb

end YouVerif.C19
