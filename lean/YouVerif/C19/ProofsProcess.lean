/-
C19 — preservation of the scheduler invariant by `Process` and by every operation.
-/
import YouVerif.C19.ProofsAdd

namespace YouVerif.C19

variable {e : Env} {role : Hash → Role}

theorem runAdd_cb {s : St} {h : Hash} {a : Add} (hi : Inv e role [] (some h) s) (hp : HasParent s h)
    (hok : AddOK e role a) :
    Inv e role [] (some h) (runAdd e h s a) ∧ Ext s (runAdd e h s a) ∧
      ∀ x, addRef e a = some x → (runAdd e h s a).inStore x = true ∨ Linked (runAdd e h s a) x h := by
  cases a with
  | sub root =>
    obtain ⟨s', hs', hi', hx', hl⟩ := addSubTrie_cb (depth := 64) hi hp hok
    simp only [runAdd, hs', Option.getD_some]
    refine ⟨hi', hx', ?_⟩
    intro x hx
    simp only [addRef] at hx
    by_cases h1 : root = e.emptyRoot
    · simp [h1] at hx
    · simp [h1] at hx; subst hx
      rcases hl with hl | hl
      · exact absurd hl h1
      · exact hl
  | raw c =>
    obtain ⟨s', hs', hi', hx', hl⟩ := addRawEntry_cb (depth := 64) hi hp hok
    simp only [runAdd, hs', Option.getD_some]
    refine ⟨hi', hx', ?_⟩
    intro x hx
    simp only [addRef] at hx
    by_cases h1 : c = e.emptyState
    · simp [h1] at hx
    · simp [h1] at hx; subst hx
      rcases hl with hl | hl
      · exact absurd hl h1
      · exact hl

theorem adds_fold {h : Hash} : ∀ (adds : List Add) (s : St), Inv e role [] (some h) s → HasParent s h →
    (∀ a ∈ adds, AddOK e role a) →
    Inv e role [] (some h) (adds.foldl (runAdd e h) s) ∧ Ext s (adds.foldl (runAdd e h) s) ∧
      ∀ x ∈ adds.filterMap (addRef e), (adds.foldl (runAdd e h) s).inStore x = true ∨ Linked (adds.foldl (runAdd e h) s) x h := by
  intro adds
  induction adds with
  | nil => intro s hi _ _; exact ⟨hi, Ext.refl s, fun x hx => by simp at hx⟩
  | cons a t ih =>
    intro s hi hp hok
    obtain ⟨hi1, hx1, hl1⟩ := runAdd_cb hi hp (hok a List.mem_cons_self)
    obtain ⟨hi2, hx2, hl2⟩ := ih (runAdd e h s a) hi1 (hp.ext hx1) (fun a' ha' => hok a' (List.mem_cons_of_mem _ ha'))
    rw [List.foldl_cons]
    refine ⟨hi2, hx1.trans hx2, ?_⟩
    intro x hx
    rw [List.filterMap_cons] at hx
    cases har : addRef e a with
    | none => rw [har] at hx; exact hl2 x hx
    | some y =>
      rw [har] at hx
      rcases List.mem_cons.mp hx with rfl | hx
      · rcases hl1 x har with h1 | h1
        · left; rw [hx2.inStore]; exact h1
        · right; exact hx2.linked h1
      · exact hl2 x hx

theorem children_fold {h : Hash} {r1 : Req} (hr1 : r1.hash = h) : ∀ (news : List (Hash × Nat)) (s : St),
    Inv e role (List.replicate news.length h) (some h) s →
    (∀ c ∈ news, role c.1 = .node r1.cb ∧ c.1 ≠ e.zeroHash) →
    Inv e role [] (some h) (news.foldl (fun s c => schedule s (childReq r1 c)) s) ∧
      Ext s (news.foldl (fun s c => schedule s (childReq r1 c)) s) ∧
      ∀ c ∈ news, Linked (news.foldl (fun s c => schedule s (childReq r1 c)) s) c.1 h := by
  intro news
  induction news with
  | nil => intro s hi _; exact ⟨by simpa using hi, Ext.refl s, fun c hc => by cases hc⟩
  | cons c t ih =>
    intro s hi hok
    obtain ⟨hrole, hnz⟩ := hok c List.mem_cons_self
    have hi1 : Inv e role (List.replicate t.length h) (some h) (schedule s (childReq r1 c)) := by
      apply inv_schedule (req := childReq r1 c) _ rfl rfl (by simp [roleFlags, childReq, hrole]) hnz
      simpa [childReq, hr1, List.replicate_succ] using hi
    have hx1 := schedule_ext (s := s) (req := childReq r1 c) hi.nodup
    obtain ⟨hi2, hx2, hl2⟩ := ih _ hi1 (fun c' hc' => hok c' (List.mem_cons_of_mem _ hc'))
    rw [List.foldl_cons]
    refine ⟨hi2, hx1.trans hx2, ?_⟩
    intro c' hc'
    rcases List.mem_cons.mp hc' with rfl | hc'
    · apply hx2.linked
      have := schedule_linked (s := s) (req := childReq r1 c') r1.hash (by simp [childReq])
      simpa [childReq, hr1] using this
    · exact hl2 c' hc'

theorem refs_node {h : Hash} {b : Blob} {cb : Bool} {v : NodeView} (hr : role h = .node cb) (hv : e.view b = some v) :
    refs e role h (some b) = v.children.map (·.1) ++ (if cb then leafRefs e v.leaf else []) := by
  simp [refs, hr, hv]

/-- entering `commit` for a fully linked request whose load is zero -/
theorem commitPre_of {s : St} {r1 : Req} {b : Blob} (hi : Inv e role [] none s) (hr1 : r1 ∈ s.requests)
    (hb : r1.data = some b) (hz : r1.deps = 0) : CommitPre e role [] s r1 := by
  have hload : load [] s.requests r1.hash = 0 := by
    have := hi.cnt r1 hr1
    rw [hz] at this; omega
  refine ⟨⟨r1, hr1, rfl, rfl⟩, hload, goodEntry_of_req hi hr1 hb, ?_⟩
  intro x hx
  rw [hb] at hx
  rcases hi.link r1 hr1 (by simp) b hb x hx with h1 | h1
  · exact h1
  · have := linked_refcount_pos h1
    unfold load at hload
    omega

theorem processTail_inv {s0 : St} {r : Req} {b : Blob} {v : NodeView} (adds : List Add)
    (hv : e.view b = some v) (_hrole : role r.hash = .node r.cb)
    (hchild : ∀ c ∈ v.children, role c.1 = .node r.cb ∧ c.1 ≠ e.zeroHash)
    (hi0 : Inv e role [] (some r.hash) s0) (hp0 : HasParent s0 r.hash)
    (hdata_of : ∀ s', Ext s0 s' → (s'.requests.map (·.hash)).Nodup → ∀ r' ∈ s'.requests, r'.hash = r.hash →
      r'.data = some b ∧ r'.cb = r.cb ∧ r'.raw = false)
    (haddok : ∀ a ∈ adds, AddOK e role a)
    (hrefs : refs e role r.hash (some b) = v.children.map (·.1) ++ adds.filterMap (addRef e)) :
    Inv e role [] none (processTail e s0 r v adds).1 := by
  obtain ⟨hi1, hx1, hl1⟩ := adds_fold adds s0 hi0 hp0 haddok
  unfold processTail
  generalize hs1 : adds.foldl (runAdd e r.hash) s0 = s1 at hi1 hx1 hl1
  obtain ⟨p1, hp1m, hp1h, _⟩ := hp0.ext hx1
  have hf : findReq s1.requests r.hash = some p1 := hp1h ▸ findReq_of_mem hi1.nodup hp1m
  simp only [hf]
  obtain ⟨hp1d, hp1cb, _⟩ := hdata_of s1 hx1 hi1.nodup p1 hp1m hp1h
  split
  · -- nothing missing and no dependency: commit
    rename_i hc
    simp only [Bool.and_eq_true, List.isEmpty_iff, beq_iff_eq] at hc
    obtain ⟨hnews, hz⟩ := hc
    have hclosed : Inv e role [] none s1 := by
      apply hi1.close
      intro r' hr' hh b' hb' x hx
      have hb'' := (hdata_of s1 hx1 hi1.nodup r' hr' hh).1
      have : b' = b := by rw [hb''] at hb'; exact (Option.some.inj hb').symm
      subst this
      rw [hrefs] at hx
      rcases List.mem_append.mp hx with hx | hx
      · obtain ⟨c, hc, rfl⟩ := List.mem_map.mp hx
        left
        have := List.filter_eq_nil_iff.mp hnews c hc
        simpa using this
      · exact hl1 x hx
    exact commitReq_inv _ [] s1 p1 hclosed (commitPre_of hclosed hp1m hp1d hz)
  · -- schedule the missing children
    have hi2 := inv_addDeps (v.children.filter (fun c => !(s1.inStore c.1))).length hi1 hp1m (by rw [hp1d]; simp)
    have hx2 : Ext s1 { s1 with requests := setReq s1.requests { p1 with deps := p1.deps + (v.children.filter (fun c => !(s1.inStore c.1))).length } } :=
      ext_setReq hi1.nodup hp1m rfl rfl rfl rfl rfl (fun q hq => hq)
    have hrep : ∀ n, List.replicate n p1.hash = List.replicate n r.hash := fun n => by rw [hp1h]
    rw [hrep] at hi2
    obtain ⟨hi3, hx3, hl3⟩ := children_fold (r1 := p1) hp1h _ _ (by simpa using hi2)
      (fun c hc => by rw [hp1cb]; exact hchild c (List.mem_filter.mp hc).1)
    have hx13 := hx2.trans hx3
    apply hi3.close
    intro r' hr' hh b' hb' x hx
    have hb'' := (hdata_of _ (hx1.trans hx13) hi3.nodup r' hr' hh).1
    have : b' = b := by rw [hb''] at hb'; exact (Option.some.inj hb').symm
    subst this
    rw [hrefs] at hx
    rcases List.mem_append.mp hx with hx | hx
    · obtain ⟨c, hc, rfl⟩ := List.mem_map.mp hx
      by_cases hst : s1.inStore c.1 = true
      · left; rw [hx13.inStore]; exact hst
      · right
        exact hl3 c (List.mem_filter.mpr ⟨hc, by simpa using hst⟩)
    · rcases hl1 x hx with h1 | h1
      · left; rw [hx13.inStore]; exact h1
      · right; exact hx13.linked h1

theorem processNode_inv {s : St} {r : Req} {b : Blob} {v : NodeView} (hi : Inv e role [] none s)
    (hr : r ∈ s.requests) (hraw : r.raw = false) (hv : e.view b = some v)
    (hok : BlobOK e role r.hash b) : Inv e role [] none (processNode e s r b v).1 := by
  have hrole : role r.hash = .node r.cb := by
    have := hi.flags r hr
    simpa [roleFlags, hraw] using this
  obtain ⟨hchild, hleaf⟩ := hok r.cb hrole v hv
  have hi0 := inv_setData (b := b) hi hr hraw (by simp [hv])
  have hp0 : HasParent { s with requests := setReq s.requests { r with data := some b } } r.hash :=
    ⟨{ r with data := some b }, mem_setReq.mpr (Or.inr ⟨rfl, r, hr, rfl⟩), rfl, by simp⟩
  have hdata_of : ∀ s', Ext { s with requests := setReq s.requests { r with data := some b } } s' →
      (s'.requests.map (·.hash)).Nodup → ∀ r' ∈ s'.requests, r'.hash = r.hash →
      r'.data = some b ∧ r'.cb = r.cb ∧ r'.raw = false := by
    intro s' hx nd r' hr' hh
    obtain ⟨p', hp', e1, e2, e3, e4, _⟩ := hx.2.2 { r with data := some b } (mem_setReq.mpr (Or.inr ⟨rfl, r, hr, rfl⟩))
    have : r' = p' := key_unique nd hr' hp' (hh.trans e1.symm)
    subst this
    exact ⟨e2, e4, e3.trans hraw⟩
  have hrefs0 := refs_node (e := e) (role := role) hrole hv
  unfold processNode
  by_cases hcb : r.cb = true
  · rw [if_pos hcb] at hrefs0 ⊢
    cases hl : v.leaf with
    | none =>
      exact processTail_inv [] hv hrole hchild hi0 hp0 hdata_of (fun a ha => by cases ha) (by rw [hrefs0, hl]; simp [leafRefs])
    | some l =>
      cases l with
      | err => exact absurd hl (hleaf hcb).1
      | adds adds =>
        exact processTail_inv adds hv hrole hchild hi0 hp0 hdata_of ((hleaf hcb).2 adds hl) (by rw [hrefs0, hl]; simp [leafRefs])
  · rw [if_neg hcb] at hrefs0 ⊢
    exact processTail_inv [] hv hrole hchild hi0 hp0 hdata_of (fun a ha => by cases ha) (by rw [hrefs0]; simp)

theorem processOne_inv {s : St} {h : Hash} {b : Blob} (hi : Inv e role [] none s) (hok : BlobOK e role h b) :
    Inv e role [] none (processOne e s h b).1 := by
  unfold processOne
  cases hf : findReq s.requests h with
  | none => exact hi
  | some r =>
    obtain ⟨hr, hh⟩ := findReq_some hf
    simp only
    split
    · exact hi
    · rename_i hd
      have hd' : r.data = none := by simpa using hd
      split
      · rename_i hraw
        apply commitReq_inv _ [] s _ hi
        refine ⟨⟨r, hr, rfl, rfl⟩, hi.fresh r hr hd', ?_, ?_⟩
        · have := hi.flags r hr
          simp only [roleFlags, hraw, if_true] at this
          simp [GoodEntry, this]
        · have := hi.flags r hr
          simp only [roleFlags, hraw, if_true] at this
          intro x hx
          simp [refs, this] at hx
      · rename_i hraw
        cases hv : e.view b with
        | none => exact hi
        | some v => exact processNode_inv hi hr (by simpa using hraw) hv (hh ▸ hok)

theorem processList_inv : ∀ (items : List (Hash × Blob)) (s : St) (i : Nat) (c : Bool), Inv e role [] none s →
    (∀ p ∈ items, BlobOK e role p.1 p.2) → Inv e role [] none (processList e s items i c).1 := by
  intro items
  induction items with
  | nil => intro s i c hi _; exact hi
  | cons p t ih =>
    intro s i c hi hok
    obtain ⟨h, b⟩ := p
    have h1 := processOne_inv (h := h) (b := b) hi (hok (h, b) List.mem_cons_self)
    unfold processList
    split
    · rename_i s' err _ heq
      rw [heq] at h1; exact h1
    · rename_i s' c' heq
      rw [heq] at h1
      exact ih s' (i + 1) (c || c') h1 (fun p hp => hok p (List.mem_cons_of_mem _ hp))

theorem inv_queue {D : List Hash} {o : Option Hash} {s : St} (q : List (Hash × Nat)) (hi : Inv e role D o s) :
    Inv e role D o { s with queue := q } :=
  { db := hi.db, mem := hi.mem, nodup := hi.nodup, flags := hi.flags, nz := hi.nz, good := hi.good, fresh := hi.fresh,
    cnt := hi.cnt, par := hi.par, dpar := hi.dpar, link := hi.link }

theorem missing_inv {s s' : St} {max : Nat} {popped : List Hash} (hi : Inv e role [] none s)
    (hm : missing s max popped = some s') : Inv e role [] none s' := by
  unfold missing at hm
  cases hq : missingQueue s.queue max popped with
  | none => simp [hq] at hm
  | some q =>
    simp only [hq, Option.map_some, Option.some.injEq] at hm
    subst hm
    exact inv_queue _ hi

/-- moving a prefix of the membatch (in order) into the database -/
theorem inv_flush {s : St} (k : Nat) (mem' : List Entry) (hi : Inv e role [] none s)
    (hm : mem' = s.membatch ∨ (mem' = [] ∧ s.membatch.length ≤ k)) :
    Inv e role [] none { s with db := (s.membatch.take k).reverse ++ s.db, membatch := mem' } := by
  have hdb : DbClosed e role ((s.membatch.take k).reverse ++ s.db) :=
    dbClosed_flush hi.db (closedFrom_take k hi.mem)
  have hkeys : ∀ x, hasKey s.db x = true → hasKey ((s.membatch.take k).reverse ++ s.db) x = true := by
    intro x hx; rw [hasKey_append]; simp [hx]
  have hstore : ∀ x, s.inStore x = true →
      ({ s with db := (s.membatch.take k).reverse ++ s.db, membatch := mem' } : St).inStore x = true := by
    intro x hx
    rw [inStore_iff] at hx ⊢
    rcases hx with hx | hx
    · exact Or.inl (hkeys x hx)
    · rcases hm with hm | ⟨hm, hlen⟩
      · right; rw [hm]; exact hx
      · left
        show hasKey ((s.membatch.take k).reverse ++ s.db) x = true
        rw [List.take_of_length_le hlen, hasKey_append, hasKey_reverse]; simp [hx]
  refine
    { db := hdb, mem := ?_, nodup := hi.nodup, flags := hi.flags, nz := hi.nz, good := hi.good, fresh := hi.fresh,
      cnt := hi.cnt, par := hi.par, dpar := hi.dpar, link := ?_ }
  · rcases hm with hm | ⟨hm, _⟩
    · show ClosedFrom e role _ mem'
      rw [hm]; exact closedFrom_mono hkeys hi.mem
    · show ClosedFrom e role _ mem'
      rw [hm]; trivial
  · intro r hr ho b hb x hx
    rcases hi.link r hr ho b hb x hx with h1 | h1
    · exact Or.inl (hstore x h1)
    · exact Or.inr h1

theorem commitTo_inv {s : St} (failAt : Option Nat) (hi : Inv e role [] none s) :
    Inv e role [] none (commitTo s failAt).1 := by
  have hall : Inv e role [] none { s with db := s.membatch.reverse ++ s.db, membatch := [] } := by
    have := inv_flush s.membatch.length [] hi (Or.inr ⟨rfl, Nat.le_refl _⟩)
    simpa using this
  unfold commitTo
  cases failAt with
  | none => exact hall
  | some k =>
    simp only
    split
    · exact inv_flush k s.membatch hi (Or.inl rfl)
    · exact hall

theorem init_inv {db0 : List Entry} (hd : DbClosed e role db0) : Inv e role [] none (St.init db0) :=
  { db := hd, mem := trivial, nodup := List.nodup_nil, flags := (fun r hr => by cases hr), nz := (fun r hr => by cases hr),
    good := (fun r hr => by cases hr), fresh := (fun r hr => by cases hr), cnt := (fun r hr => by cases hr),
    par := (fun r hr => by cases hr), dpar := (fun q hq => by cases hq), link := (fun r hr => by cases hr) }

/-- every operation the repository issues preserves the invariant -/
theorem step_inv {s : St} {op : Op} (hi : Inv e role [] none s) (hok : OpOK e role op) :
    Inv e role [] none (step e s op).1 := by
  cases op with
  | addSub root depth parent cb =>
    obtain ⟨hp, hr⟩ := hok
    subst hp
    simp only [step]
    cases ha : addSubTrie e s root depth e.zeroHash cb with
    | none => exact hi
    | some s' => exact addSubTrie_top hi hr ha
  | addRaw h depth parent =>
    obtain ⟨hp, hr⟩ := hok
    subst hp
    simp only [step]
    cases ha : addRawEntry e s h depth e.zeroHash with
    | none => exact hi
    | some s' => exact addRawEntry_top hi hr ha
  | missing max popped =>
    simp only [step]
    cases hm : missing s max popped with
    | none => exact hi
    | some s' => exact missing_inv hi hm
  | process items => exact processList_inv items s 0 false hi hok
  | deliver b =>
    exact processList_inv [(e.H b, b)] s 0 false hi (fun p hp => by rw [List.mem_singleton.mp hp]; exact hok)
  | commit failAt => exact commitTo_inv failAt hi
  | restart => exact init_inv hi.db

theorem run_inv : ∀ (ops : List Op) (s : St), Inv e role [] none s → (∀ op ∈ ops, OpOK e role op) →
    Inv e role [] none (run e s ops) := by
  intro ops
  induction ops with
  | nil => intro s hi _; exact hi
  | cons op t ih =>
    intro s hi hok
    exact ih _ (step_inv hi (hok op List.mem_cons_self)) (fun o ho => hok o (List.mem_cons_of_mem _ ho))

theorem step_inv_at {s : St} {op : Op} (hi : Inv e role [] none s) (hok : OpOKAt e role s op) :
    Inv e role [] none (step e s op).1 := by
  cases op with
  | deliver b =>
    rcases hok with hn | hb
    · have : step e s (.deliver b) = (s, .processed false 0 (some .notRequested)) := by
        simp [step, processList, processOne, hn]
      rw [this]; exact hi
    · exact step_inv hi hb
  | addSub root depth parent cb => exact step_inv hi hok
  | addRaw h depth parent => exact step_inv hi hok
  | missing max popped => exact step_inv hi hok
  | process items => exact step_inv hi hok
  | commit failAt => exact step_inv hi hok
  | restart => exact step_inv hi hok

theorem run_inv_at : ∀ (ops : List Op) (s : St), Inv e role [] none s → RunOK e role s ops →
    Inv e role [] none (run e s ops) := by
  intro ops
  induction ops with
  | nil => intro s hi _; exact hi
  | cons op t ih =>
    intro s hi hok
    exact ih _ (step_inv_at hi hok.1) hok.2

theorem runOK_of_opOK : ∀ (ops : List Op) (s : St), (∀ op ∈ ops, OpOK e role op) → RunOK e role s ops := by
  intro ops
  induction ops with
  | nil => intro s _; trivial
  | cons op t ih =>
    intro s hok
    refine ⟨?_, ih _ (fun o ho => hok o (List.mem_cons_of_mem _ ho))⟩
    have h := hok op List.mem_cons_self
    cases op <;> first | exact Or.inr h | exact h

end YouVerif.C19
