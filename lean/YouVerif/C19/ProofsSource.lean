/-
C19 — every requested hash is a hash the source holds; hence, for a role-consistent (clash-free) source and
collision-free Keccak, every *accepted* blob is the source's blob and `RunOK` holds for arbitrary deliveries.
-/
import YouVerif.C19.ProofsContent

namespace YouVerif.C19

variable {e : Env} {role : Hash → Role}

def AllReq (P : Hash → Prop) (s : St) : Prop := ∀ r ∈ s.requests, P r.hash

variable {P : Hash → Prop}

theorem allreq_foldl {α : Type} (f : St → α → St) (l : List α) (Q : α → Prop)
    (hf : ∀ s a, Q a → AllReq P s → AllReq P (f s a)) : ∀ (s : St), (∀ a ∈ l, Q a) → AllReq P s → AllReq P (l.foldl f s) := by
  induction l with
  | nil => intro s _ h; exact h
  | cons a t ih =>
    intro s hq h
    rw [List.foldl_cons]
    exact ih _ (fun a' ha' => hq a' (List.mem_cons_of_mem _ ha')) (hf s a (hq a List.mem_cons_self) h)

theorem allreq_setReq {s : St} {r : Req} (h : AllReq P s) (hr : P r.hash) :
    AllReq P { s with requests := setReq s.requests r } := by
  intro x hx
  rcases mem_setReq.mp hx with ⟨hx, _⟩ | ⟨rfl, _⟩
  · exact h x hx
  · exact hr

theorem allreq_schedule {s : St} {req : Req} (h : AllReq P s) (hr : P req.hash) : AllReq P (schedule s req) := by
  cases hf : findReq s.requests req.hash with
  | some old =>
    rw [schedule_old hf]
    exact allreq_setReq h (h old (findReq_some hf).1)
  | none =>
    rw [schedule_new hf]
    intro x hx
    rcases List.mem_append.mp hx with hx | hx
    · exact h x hx
    · rw [List.mem_singleton.mp hx]; exact hr

theorem allreq_bumpParent {s s1 : St} {p : Hash} {ps : List Hash} (h : AllReq P s)
    (hb : bumpParent e s p = some (s1, ps)) : AllReq P s1 := by
  unfold bumpParent at hb
  split at hb
  · cases hb; exact h
  · split at hb
    · cases hb
    · rename_i a hf
      cases hb
      exact allreq_setReq h (h a (findReq_some hf).1)

theorem allreq_addSubTrie {s s' : St} {root parent : Hash} {depth : Nat} {cb : Bool} (h : AllReq P s)
    (hr : root = e.emptyRoot ∨ P root) (ha : addSubTrie e s root depth parent cb = some s') : AllReq P s' := by
  unfold addSubTrie at ha
  by_cases h1 : root = e.emptyRoot
  · simp [h1] at ha; subst ha; exact h
  by_cases h2 : s.inMem root = true
  · simp [h1, h2] at ha; subst ha; exact h
  by_cases h3 : knownNode e s root = true
  · simp [h1, h2, h3] at ha; subst ha; exact h
  simp only [beq_iff_eq, h1, if_false, h2, h3] at ha
  cases hb : bumpParent e s parent with
  | none => simp [hb] at ha
  | some sp =>
    obtain ⟨s1, ps⟩ := sp
    simp [hb] at ha
    subst ha
    exact allreq_schedule (allreq_bumpParent h hb) (hr.resolve_left h1)

theorem allreq_addRawEntry {s s' : St} {x parent : Hash} {depth : Nat} (h : AllReq P s)
    (hr : x = e.emptyState ∨ P x) (ha : addRawEntry e s x depth parent = some s') : AllReq P s' := by
  unfold addRawEntry at ha
  by_cases h1 : x = e.emptyState
  · simp [h1] at ha; subst ha; exact h
  by_cases h2 : s.inMem x = true
  · simp [h1, h2] at ha; subst ha; exact h
  by_cases h3 : s.dbHas x = true
  · simp [h1, h2, h3] at ha; subst ha; exact h
  simp only [beq_iff_eq, h1, if_false, h2, h3] at ha
  cases hb : bumpParent e s parent with
  | none => simp [hb] at ha
  | some sp =>
    obtain ⟨s1, ps⟩ := sp
    simp [hb] at ha
    subst ha
    exact allreq_schedule (allreq_bumpParent h hb) (hr.resolve_left h1)

theorem allreq_runAdd (h0 : Hash) (s : St) (a : Add) (hq : ∀ x, addRef e a = some x → P x) (h : AllReq P s) :
    AllReq P (runAdd e h0 s a) := by
  cases a with
  | sub root =>
    simp only [runAdd]
    cases ha : addSubTrie e s root 64 h0 false with
    | none => exact h
    | some s' =>
      refine allreq_addSubTrie h ?_ ha
      by_cases h1 : root = e.emptyRoot
      · exact Or.inl h1
      · exact Or.inr (hq root (by simp [addRef, h1]))
  | raw c =>
    simp only [runAdd]
    cases ha : addRawEntry e s c 64 h0 with
    | none => exact h
    | some s' =>
      refine allreq_addRawEntry h ?_ ha
      by_cases h1 : c = e.emptyState
      · exact Or.inl h1
      · exact Or.inr (hq c (by simp [addRef, h1]))

theorem allreq_commitReq : ∀ (fuel : Nat) (s : St) (r : Req), AllReq P s → AllReq P (commitReq fuel s r) := by
  intro fuel
  induction fuel with
  | zero => intro s r h; exact h
  | succ fuel ih =>
    intro s r h
    rw [commitReq_succ]
    have h1 : AllReq P { s with membatch := s.membatch ++ [(r.hash, r.data)], requests := eraseReq s.requests r.hash } :=
      fun x hx => h x (mem_eraseReq.mp hx).1
    refine allreq_foldl (cascade fuel) r.parents (fun _ => True) ?_ _ (fun _ _ => trivial) h1
    intro s' q _ h'
    unfold cascade
    cases hf : findReq s'.requests q with
    | none => exact h'
    | some p =>
      have hp : P (decDeps p).hash := h' p (findReq_some hf).1
      simp only
      split
      · exact ih _ _ (allreq_setReq h' hp)
      · exact allreq_setReq h' hp

theorem allreq_processTail (s0 : St) (r : Req) (v : NodeView) (adds : List Add) (h : AllReq P s0)
    (hadds : ∀ a ∈ adds, ∀ x, addRef e a = some x → P x) (hch : ∀ c ∈ v.children, P c.1) :
    AllReq P (processTail e s0 r v adds).1 := by
  unfold processTail
  have h1 := allreq_foldl (runAdd e r.hash) adds (fun a => ∀ x, addRef e a = some x → P x)
    (fun s a hq h => allreq_runAdd r.hash s a hq h) s0 hadds h
  generalize adds.foldl (runAdd e r.hash) s0 = s1 at h1
  simp only
  split
  · exact h1
  · rename_i r1 hf
    have hr1 : P r1.hash := h1 r1 (findReq_some hf).1
    split
    · exact allreq_commitReq _ _ _ h1
    · refine allreq_foldl _ _ (fun c => P c.1) (fun s c hc h => allreq_schedule h hc) _ ?_ (allreq_setReq h1 hr1)
      intro c hc
      exact hch c (List.mem_filter.mp hc).1

theorem mem_leafRefs {lf : Option Leaf} {l : List Add} (hl : lf = some (.adds l)) {a : Add} (ha : a ∈ l) {x : Hash}
    (hx : addRef e a = some x) : x ∈ leafRefs e lf := by
  subst hl
  simp only [leafRefs, List.mem_filterMap]
  exact ⟨a, ha, hx⟩

theorem allreq_processNode (s : St) (r : Req) (b : Blob) (v : NodeView) (h : AllReq P s) (hr : P r.hash)
    (hrefs : ∀ x ∈ v.children.map (·.1) ++ (if r.cb = true then leafRefs e v.leaf else []), P x) :
    AllReq P (processNode e s r b v).1 := by
  have h0 : AllReq P { s with requests := setReq s.requests { r with data := some b } } := allreq_setReq h hr
  have hch : ∀ c ∈ v.children, P c.1 :=
    fun c hc => hrefs c.1 (List.mem_append_left _ (List.mem_map.mpr ⟨c, hc, rfl⟩))
  unfold processNode
  by_cases hcb : r.cb = true
  · rw [if_pos hcb] at hrefs ⊢
    cases hl : v.leaf with
    | none => exact allreq_processTail _ _ _ _ h0 (fun a ha => by cases ha) hch
    | some l =>
      cases l with
      | err => exact h0
      | adds adds =>
        refine allreq_processTail _ _ _ _ h0 ?_ hch
        intro a ha x hx
        exact hrefs x (List.mem_append_right _ (mem_leafRefs hl ha hx))
  · rw [if_neg hcb]
    exact allreq_processTail _ _ _ _ h0 (fun a ha => by cases ha) hch

/-- `Process` of one item keeps "every requested hash satisfies `P`" if everything the accepted blob references
(in the role of the request) satisfies `P` -/
theorem allreq_processOne (s : St) (h : Hash) (b : Blob) (hall : AllReq P s)
    (hrefs : ∀ r, findReq s.requests h = some r → r.raw = false → ∀ v, e.view b = some v →
      ∀ x ∈ v.children.map (·.1) ++ (if r.cb = true then leafRefs e v.leaf else []), P x) :
    AllReq P (processOne e s h b).1 := by
  unfold processOne
  split
  · exact hall
  · rename_i r hf
    split
    · exact hall
    · split
      · exact allreq_commitReq _ _ _ hall
      · rename_i hraw
        split
        · exact hall
        · rename_i v hv
          exact allreq_processNode _ _ _ _ hall (hall r (findReq_some hf).1) (hrefs r hf (by simpa using hraw) v hv)

theorem allreq_commitTo (s : St) (failAt : Option Nat) (h : AllReq P s) : AllReq P (commitTo s failAt).1 := by
  unfold commitTo
  cases failAt with
  | none => exact h
  | some k =>
    simp only
    split
    · exact h
    · exact h

/-! ### schedules against a source -/

/-- the source is role-consistent: every blob it holds references hashes in roles consistent with `role` -/
def SrcOK (e : Env) (role : Hash → Role) (src : List Entry) : Prop := ∀ h b, (h, some b) ∈ src → BlobOK e role h b

/-- operations of a downloader-level schedule against `src`: arbitrary deliveries; roots are source roots -/
def SrcOp (e : Env) (role : Hash → Role) (src : List Entry) : Op → Prop
  | .addSub root _ parent cb =>
    parent = e.zeroHash ∧ (root = e.emptyRoot ∨ (role root = .node cb ∧ root ≠ e.zeroHash ∧ hasKey src root = true))
  | .addRaw h _ parent =>
    parent = e.zeroHash ∧ (h = e.emptyState ∨ (role h = .raw ∧ h ≠ e.zeroHash ∧ hasKey src h = true))
  | .process _ => False
  | _ => True

theorem source_step {src : List Entry} {s : St} {op : Op} (hinj : ∀ a b, e.H a = e.H b → a = b)
    (hsrc : DbClosed e role src) (hksrc : HashKeyed e src) (hsok : SrcOK e role src)
    (hi : Inv e role [] none s) (hq : AllReq (fun h => hasKey src h = true) s) (hop : SrcOp e role src op) :
    OpOKAt e role s op ∧ AllReq (fun h => hasKey src h = true) (step e s op).1 := by
  cases op with
  | addSub root depth parent cb =>
    obtain ⟨hp, hr⟩ := hop
    refine ⟨⟨hp, hr.imp id (fun h => ⟨h.1, h.2.1⟩)⟩, ?_⟩
    simp only [step]
    cases ha : addSubTrie e s root depth parent cb with
    | none => exact hq
    | some s' => exact allreq_addSubTrie hq (hr.imp id (fun h => h.2.2)) ha
  | addRaw h depth parent =>
    obtain ⟨hp, hr⟩ := hop
    refine ⟨⟨hp, hr.imp id (fun h => ⟨h.1, h.2.1⟩)⟩, ?_⟩
    simp only [step]
    cases ha : addRawEntry e s h depth parent with
    | none => exact hq
    | some s' => exact allreq_addRawEntry hq (hr.imp id (fun h => h.2.2)) ha
  | missing max popped =>
    refine ⟨trivial, ?_⟩
    simp only [step, missing]
    cases hm : missingQueue s.queue max popped with
    | none => exact hq
    | some q => exact hq
  | process items => exact absurd hop id
  | commit failAt => exact ⟨trivial, allreq_commitTo s failAt hq⟩
  | restart => exact ⟨trivial, fun r hr => by cases hr⟩
  | deliver b =>
    cases hf : findReq s.requests (e.H b) with
    | none =>
      refine ⟨Or.inl hf, ?_⟩
      have : step e s (.deliver b) = (s, .processed false 0 (some .notRequested)) := by
        simp [step, processList, processOne, hf]
      rw [this]; exact hq
    | some r =>
      obtain ⟨hr, hh⟩ := findReq_some hf
      -- the accepted blob is the source's blob
      obtain ⟨v0, hm0⟩ := exists_of_hasKey (hq r hr)
      obtain ⟨b0, rfl⟩ := goodEntry_some (hsrc _ _ hm0).1
      have hb0 : b0 = b := hinj b0 b ((hksrc _ _ hm0).trans hh)
      subst hb0
      rw [hh] at hm0
      refine ⟨Or.inr (hsok _ _ hm0), ?_⟩
      have hstep : (step e s (.deliver b0)).1 = (processOne e s (e.H b0) b0).1 := by
        simp only [step, processList]
        cases hpo : processOne e s (e.H b0) b0 with
        | mk s' rest =>
          obtain ⟨err, c⟩ := rest
          cases err <;> simp [processList]
      rw [hstep]
      apply allreq_processOne s (e.H b0) b0 hq
      intro r' hf' hraw v hv x hx
      rw [hf] at hf'; cases hf'
      have hrole : role (e.H b0) = .node r.cb := by
        have := hi.flags r hr
        rw [hh] at this
        simpa [roleFlags, hraw] using this
      have : x ∈ refs e role (e.H b0) (some b0) := by rw [refs_node hrole hv]; exact hx
      exact (hsrc _ _ hm0).2 x this

theorem source_run {src : List Entry} (hinj : ∀ a b, e.H a = e.H b → a = b)
    (hsrc : DbClosed e role src) (hksrc : HashKeyed e src) (hsok : SrcOK e role src) :
    ∀ (ops : List Op) (s : St), Inv e role [] none s → AllReq (fun h => hasKey src h = true) s →
    (∀ op ∈ ops, SrcOp e role src op) → RunOK e role s ops := by
  intro ops
  induction ops with
  | nil => intro s _ _ _; trivial
  | cons op t ih =>
    intro s hi hq hops
    obtain ⟨hok, hq'⟩ := source_step hinj hsrc hksrc hsok hi hq (hops op List.mem_cons_self)
    exact ⟨hok, ih _ (step_inv_at hi hok) hq' (fun o ho => hops o (List.mem_cons_of_mem _ ho))⟩

end YouVerif.C19
