/-
C19 — preservation of the scheduler invariant by the dependency bumps, `request.data = …`, AddSubTrie and
AddRawEntry (top level and from the leaf callback).
-/
import YouVerif.C19.ProofsSched

namespace YouVerif.C19

variable {e : Env} {role : Hash → Role}

theorem count_replicate_append (n : Nat) (a h : Hash) (D : List Hash) :
    (List.replicate n a ++ D).count h = D.count h + (if a = h then n else 0) := by
  rw [List.count_append, List.count_replicate]
  by_cases hah : a = h <;> simp [hah] <;> omega

theorem inv_addDeps {D : List Hash} {o : Option Hash} {s : St} {a : Req} (n : Nat) (hi : Inv e role D o s)
    (ha : a ∈ s.requests) (hdata : a.data ≠ none) :
    Inv e role (List.replicate n a.hash ++ D) o
      { s with requests := setReq s.requests { a with deps := a.deps + n } } := by
  have hext : Ext s { s with requests := setReq s.requests { a with deps := a.deps + n } } :=
    ext_setReq hi.nodup ha rfl rfl rfl rfl rfl (fun q hq => hq)
  have hrc : ∀ h, refcount (setReq s.requests { a with deps := a.deps + n }) h = refcount s.requests h := by
    intro h
    have := refcount_setReq hi.nodup ha (new := { a with deps := a.deps + n }) rfl h
    dsimp only at this
    omega
  have hload : ∀ h, load (List.replicate n a.hash ++ D) (setReq s.requests { a with deps := a.deps + n }) h
      = load D s.requests h + (if a.hash = h then n else 0) := by
    intro h
    unfold load
    rw [hrc, count_replicate_append]
    omega
  refine
    { db := hi.db, mem := hi.mem, nodup := by show ((setReq _ _).map _).Nodup; rw [setReq_keys]; exact hi.nodup,
      flags := ?_, nz := ?_, good := ?_, fresh := ?_, cnt := ?_, par := ?_, dpar := ?_, link := ?_ }
  · intro x hx
    rcases mem_setReq.mp hx with ⟨hx, _⟩ | ⟨rfl, _⟩
    · exact hi.flags x hx
    · exact hi.flags a ha
  · intro x hx
    rcases mem_setReq.mp hx with ⟨hx, _⟩ | ⟨rfl, _⟩
    · exact hi.nz x hx
    · exact hi.nz a ha
  · intro x hx
    rcases mem_setReq.mp hx with ⟨hx, _⟩ | ⟨rfl, _⟩
    · exact hi.good x hx
    · exact hi.good a ha
  · intro x hx hd
    show load _ (setReq s.requests { a with deps := a.deps + n }) x.hash = 0
    rw [hload]
    rcases mem_setReq.mp hx with ⟨hx, hne⟩ | ⟨rfl, _⟩
    · have := hi.fresh x hx hd
      have hne' : ¬ a.hash = x.hash := fun h => hne h.symm
      simp [hne', this]
    · exact absurd hd hdata
  · intro x hx
    show (load _ (setReq s.requests { a with deps := a.deps + n }) x.hash : Int) ≤ x.deps
    rw [hload]
    rcases mem_setReq.mp hx with ⟨hx, hne⟩ | ⟨rfl, _⟩
    · have := hi.cnt x hx
      have hne' : ¬ a.hash = x.hash := fun h => hne h.symm
      simp [hne', this]
    · have := hi.cnt a ha
      show ((load D s.requests a.hash + (if a.hash = a.hash then n else 0) : Nat) : Int) ≤ a.deps + n
      simp only [if_true]
      omega
  · intro c hc q hq
    apply hext.pending
    rcases mem_setReq.mp hc with ⟨hc, _⟩ | ⟨rfl, _⟩
    · exact hi.par c hc q hq
    · exact hi.par a ha q hq
  · intro q hq
    apply hext.pending
    rcases List.mem_append.mp hq with h | h
    · rw [List.eq_of_mem_replicate h]; exact ⟨a, ha, rfl⟩
    · exact hi.dpar q h
  · intro x hx hxo b hb y hy
    have key : ∀ x0 ∈ s.requests, x0.hash = x.hash → x0.data = x.data → s.inStore y = true ∨ Linked s y x.hash := by
      intro x0 hx0 hh hd
      have := hi.link x0 hx0 (by rw [hh]; exact hxo) b (by rw [hd]; exact hb) y (by rw [hh]; exact hy)
      rw [hh] at this; exact this
    have : s.inStore y = true ∨ Linked s y x.hash := by
      rcases mem_setReq.mp hx with ⟨hx, _⟩ | ⟨rfl, _⟩
      · exact key x hx rfl rfl
      · exact key a ha rfl rfl
    rcases this with h1 | h1
    · left; rw [hext.inStore]; exact h1
    · right; exact hext.linked h1

theorem inv_setData {s : St} {r : Req} {b : Blob} (hi : Inv e role [] none s) (hr : r ∈ s.requests)
    (hraw : r.raw = false) (hv : (e.view b).isSome = true) :
    Inv e role [] (some r.hash) { s with requests := setReq s.requests { r with data := some b } } := by
  have hrc : ∀ h, refcount (setReq s.requests { r with data := some b }) h = refcount s.requests h := by
    intro h
    have := refcount_setReq hi.nodup hr (new := { r with data := some b }) rfl h
    dsimp only at this
    omega
  have hlinks := setReq_links (p := r) (p' := { r with data := some b }) rfl hr (fun q hq => hq) hi.nodup
  refine
    { db := hi.db, mem := hi.mem, nodup := by show ((setReq _ _).map _).Nodup; rw [setReq_keys]; exact hi.nodup,
      flags := ?_, nz := ?_, good := ?_, fresh := ?_, cnt := ?_, par := ?_, dpar := ?_, link := ?_ }
  · intro x hx
    rcases mem_setReq.mp hx with ⟨hx, _⟩ | ⟨rfl, _⟩
    · exact hi.flags x hx
    · exact hi.flags r hr
  · intro x hx
    rcases mem_setReq.mp hx with ⟨hx, _⟩ | ⟨rfl, _⟩
    · exact hi.nz x hx
    · exact hi.nz r hr
  · intro x hx b' hb'
    rcases mem_setReq.mp hx with ⟨hx, _⟩ | ⟨rfl, _⟩
    · exact hi.good x hx b' hb'
    · have : b = b' := by simpa using hb'
      subst this
      exact ⟨hraw, hv⟩
  · intro x hx hd
    show load [] (setReq s.requests { r with data := some b }) x.hash = 0
    unfold load; rw [hrc]
    rcases mem_setReq.mp hx with ⟨hx, _⟩ | ⟨rfl, _⟩
    · exact hi.fresh x hx hd
    · cases hd
  · intro x hx
    show (load [] (setReq s.requests { r with data := some b }) x.hash : Int) ≤ x.deps
    unfold load; rw [hrc]
    rcases mem_setReq.mp hx with ⟨hx, _⟩ | ⟨rfl, _⟩
    · exact hi.cnt x hx
    · exact hi.cnt r hr
  · intro c hc q hq
    apply pending_setReq.mpr
    rcases mem_setReq.mp hc with ⟨hc, _⟩ | ⟨rfl, _⟩
    · exact hi.par c hc q hq
    · exact hi.par r hr q hq
  · intro q hq; cases hq
  · intro x hx hxo b' hb' y hy
    rcases mem_setReq.mp hx with ⟨hx, _⟩ | ⟨rfl, _⟩
    · rcases hi.link x hx (by simp) b' hb' y hy with h1 | h1
      · exact Or.inl h1
      · exact Or.inr (Linked.mono (s' := { s with requests := setReq s.requests { r with data := some b } }) hlinks h1)
    · exact absurd rfl hxo

theorem Inv.open_ {D : List Hash} {s : St} (hi : Inv e role D none s) (h : Hash) : Inv e role D (some h) s :=
  { hi with link := fun r hr _ => hi.link r hr (by simp) }

theorem Inv.close {D : List Hash} {s : St} {h : Hash} (hi : Inv e role D (some h) s)
    (hl : ∀ r ∈ s.requests, r.hash = h → ∀ b, r.data = some b → ∀ x ∈ refs e role h (some b),
      s.inStore x = true ∨ Linked s x h) : Inv e role D none s := by
  refine { hi with link := ?_ }
  intro r hr _ b hb x hx
  by_cases hrh : r.hash = h
  · rw [hrh] at hx ⊢; exact hl r hr hrh b hb x hx
  · exact hi.link r hr (by simpa using hrh) b hb x hx

/-! ### linking to a parent -/

theorem bumpParent_zero (s : St) : bumpParent e s e.zeroHash = some (s, []) := by
  simp [bumpParent]

theorem bumpParent_cb {s : St} {h : Hash} {p : Req} (hi : Inv e role [] (some h) s) (hp : p ∈ s.requests)
    (hph : p.hash = h) (hd : p.data ≠ none) :
    ∃ s1, bumpParent e s h = some (s1, [h]) ∧ Inv e role [h] (some h) s1 ∧ Ext s s1 := by
  have hnz : h ≠ e.zeroHash := hph ▸ hi.nz p hp
  have hf : findReq s.requests h = some p := hph ▸ findReq_of_mem hi.nodup hp
  refine ⟨{ s with requests := setReq s.requests { p with deps := p.deps + 1 } }, ?_, ?_, ?_⟩
  · simp [bumpParent, hnz, hf]
  · have := inv_addDeps 1 hi hp hd
    simpa [hph] using this
  · exact ext_setReq hi.nodup hp rfl rfl rfl rfl rfl (fun q hq => hq)

theorem knownNode_dbHas {s : St} {x : Hash} (hk : knownNode e s x = true) : hasKey s.db x = true := by
  unfold knownNode getKey at hk
  cases hf : s.db.find? (fun en => en.1 == x) with
  | none => simp [hf] at hk
  | some en =>
    have h1 := List.mem_of_find?_eq_some hf
    have h2 := List.find?_some hf
    simp only [hasKey, List.any_eq_true]
    exact ⟨en, h1, h2⟩

/-- the processed parent request persists along extensions -/
def HasParent (s : St) (h : Hash) : Prop := ∃ p ∈ s.requests, p.hash = h ∧ p.data ≠ none

theorem HasParent.ext {s s' : St} {h : Hash} (hp : HasParent s h) (hx : Ext s s') : HasParent s' h := by
  obtain ⟨p, hp, hh, hd⟩ := hp
  obtain ⟨p', hp', e1, e2, _⟩ := hx.2.2 p hp
  exact ⟨p', hp', e1.trans hh, by rw [e2]; exact hd⟩

/-! ### AddSubTrie / AddRawEntry from the leaf callback (parent = the request being processed) -/

theorem addSubTrie_cb {s : St} {h x : Hash} {depth : Nat} (hi : Inv e role [] (some h) s) (hp : HasParent s h)
    (hok : x = e.emptyRoot ∨ (role x = .node false ∧ x ≠ e.zeroHash)) :
    ∃ s', addSubTrie e s x depth h false = some s' ∧ Inv e role [] (some h) s' ∧ Ext s s' ∧
      (x = e.emptyRoot ∨ s'.inStore x = true ∨ Linked s' x h) := by
  unfold addSubTrie
  by_cases h1 : x = e.emptyRoot
  · exact ⟨s, by simp [h1], hi, Ext.refl s, Or.inl h1⟩
  by_cases h2 : s.inMem x = true
  · refine ⟨s, by simp [h1, h2], hi, Ext.refl s, Or.inr (Or.inl ?_)⟩
    simp [St.inStore, h2]
  by_cases h3 : knownNode e s x = true
  · refine ⟨s, by simp [h1, h2, h3], hi, Ext.refl s, Or.inr (Or.inl ?_)⟩
    simp [St.inStore, St.dbHas, knownNode_dbHas h3]
  obtain ⟨p, hpm, hph, hpd⟩ := hp
  obtain ⟨s1, hb, hi1, hx1⟩ := bumpParent_cb hi hpm hph hpd
  rcases hok with hok | ⟨hrole, hnz⟩
  · exact absurd hok h1
  refine ⟨schedule s1 { hash := x, data := none, raw := false, parents := [h], depth := depth, deps := 0, cb := false },
    by simp [h1, h2, h3, hb], ?_, hx1.trans (schedule_ext hi1.nodup), Or.inr (Or.inr ?_)⟩
  · exact inv_schedule (D := []) (by simpa using hi1) rfl rfl (by simp [roleFlags, hrole]) hnz
  · exact schedule_linked (req := { hash := x, data := none, raw := false, parents := [h], depth := depth, deps := 0, cb := false }) h (by simp)

theorem addRawEntry_cb {s : St} {h x : Hash} {depth : Nat} (hi : Inv e role [] (some h) s) (hp : HasParent s h)
    (hok : x = e.emptyState ∨ (role x = .raw ∧ x ≠ e.zeroHash)) :
    ∃ s', addRawEntry e s x depth h = some s' ∧ Inv e role [] (some h) s' ∧ Ext s s' ∧
      (x = e.emptyState ∨ s'.inStore x = true ∨ Linked s' x h) := by
  unfold addRawEntry
  by_cases h1 : x = e.emptyState
  · exact ⟨s, by simp [h1], hi, Ext.refl s, Or.inl h1⟩
  by_cases h2 : s.inMem x = true
  · refine ⟨s, by simp [h1, h2], hi, Ext.refl s, Or.inr (Or.inl ?_)⟩
    simp [St.inStore, h2]
  by_cases h3 : s.dbHas x = true
  · refine ⟨s, by simp [h1, h2, h3], hi, Ext.refl s, Or.inr (Or.inl ?_)⟩
    simp [St.inStore, h3]
  obtain ⟨p, hpm, hph, hpd⟩ := hp
  obtain ⟨s1, hb, hi1, hx1⟩ := bumpParent_cb hi hpm hph hpd
  rcases hok with hok | ⟨hrole, hnz⟩
  · exact absurd hok h1
  refine ⟨schedule s1 { hash := x, data := none, raw := true, parents := [h], depth := depth, deps := 0, cb := false },
    by simp [h1, h2, h3, hb], ?_, hx1.trans (schedule_ext hi1.nodup), Or.inr (Or.inr ?_)⟩
  · exact inv_schedule (D := []) (by simpa using hi1) rfl rfl (by simp [roleFlags, hrole]) hnz
  · exact schedule_linked (req := { hash := x, data := none, raw := true, parents := [h], depth := depth, deps := 0, cb := false }) h (by simp)

/-! ### AddSubTrie / AddRawEntry at top level (no parent, as `NewSync` does) -/

theorem addSubTrie_top {s s' : St} {x : Hash} {depth : Nat} {cb : Bool} (hi : Inv e role [] none s)
    (hok : x = e.emptyRoot ∨ (role x = .node cb ∧ x ≠ e.zeroHash))
    (ha : addSubTrie e s x depth e.zeroHash cb = some s') : Inv e role [] none s' := by
  unfold addSubTrie at ha
  by_cases h1 : x = e.emptyRoot
  · simp [h1] at ha; exact ha ▸ hi
  by_cases h2 : s.inMem x = true
  · simp [h1, h2] at ha; exact ha ▸ hi
  by_cases h3 : knownNode e s x = true
  · simp [h1, h2, h3] at ha; exact ha ▸ hi
  rcases hok with hok | ⟨hrole, hnz⟩
  · exact absurd hok h1
  simp [h1, h2, h3, bumpParent_zero] at ha
  rw [← ha]
  exact inv_schedule (D := []) (by simpa using hi) rfl rfl (by simp [roleFlags, hrole]) hnz

theorem addRawEntry_top {s s' : St} {x : Hash} {depth : Nat} (hi : Inv e role [] none s)
    (hok : x = e.emptyState ∨ (role x = .raw ∧ x ≠ e.zeroHash))
    (ha : addRawEntry e s x depth e.zeroHash = some s') : Inv e role [] none s' := by
  unfold addRawEntry at ha
  by_cases h1 : x = e.emptyState
  · simp [h1] at ha; exact ha ▸ hi
  by_cases h2 : s.inMem x = true
  · simp [h1, h2] at ha; exact ha ▸ hi
  by_cases h3 : s.dbHas x = true
  · simp [h1, h2, h3] at ha; exact ha ▸ hi
  rcases hok with hok | ⟨hrole, hnz⟩
  · exact absurd hok h1
  simp [h1, h2, h3, bumpParent_zero] at ha
  rw [← ha]
  exact inv_schedule (D := []) (by simpa using hi) rfl rfl (by simp [roleFlags, hrole]) hnz

end YouVerif.C19
