/-
C19 — vocabulary of the property: the role in which a hash is read, what a reader of a stored entry needs
next, closure of the store, the scheduler invariant, well-formedness of operations, reachability.
-/
import YouVerif.C19.ProofsBasic

namespace YouVerif.C19

/-- how a reader arrives at a hash: as a raw entry (code, delegations) or as a node of a trie that is
synced with (`true`) / without (`false`) the state leaf callback -/
inductive Role where
  | raw
  | node (cb : Bool)
deriving DecidableEq, Repr

def addRef (e : Env) : Add → Option Hash
  | .sub r => if r = e.emptyRoot then none else some r
  | .raw h => if h = e.emptyState then none else some h

def leafRefs (e : Env) : Option Leaf → List Hash
  | some (.adds l) => l.filterMap (addRef e)
  | _ => []

/-- what a reader of the entry `(h, v)` follows next, when `h` is read in role `role h` -/
def refs (e : Env) (role : Hash → Role) (h : Hash) (v : Option Blob) : List Hash :=
  match role h, v with
  | .node cb, some b =>
    match e.view b with
    | some nv => nv.children.map (·.1) ++ (if cb then leafRefs e nv.leaf else [])
    | none => []
  | _, _ => []

/-- a stored entry is usable in its role: it holds a blob, and a node entry holds a blob that decodes -/
def GoodEntry (e : Env) (role : Hash → Role) (h : Hash) (v : Option Blob) : Prop :=
  match role h with
  | .raw => ∃ b, v = some b
  | .node _ => ∃ b, v = some b ∧ (e.view b).isSome = true

/-- the database is closed: every entry is usable and everything it references is in the database -/
def DbClosed (e : Env) (role : Hash → Role) (db : List Entry) : Prop :=
  ∀ h v, (h, v) ∈ db → GoodEntry e role h v ∧ ∀ x ∈ refs e role h v, hasKey db x = true

/-- the membatch is closed *in order*: every entry references only what is in the database or earlier in
the membatch (so that any prefix written by an interrupted `Commit` leaves the database closed) -/
def ClosedFrom (e : Env) (role : Hash → Role) (base : Hash → Bool) : List Entry → Prop
  | [] => True
  | (h, v) :: t => (GoodEntry e role h v ∧ ∀ x ∈ refs e role h v, base x = true) ∧
      ClosedFrom e role (fun x => base x || x == h) t

/-- request `x` is pending and will notify `h` when it completes -/
def Linked (s : St) (x h : Hash) : Prop := ∃ c ∈ s.requests, c.hash = x ∧ h ∈ c.parents

def Pending (s : St) (h : Hash) : Prop := ∃ p ∈ s.requests, p.hash = h

def roleFlags (r : Req) : Role := if r.raw then .raw else .node r.cb

/-- The scheduler invariant.  `D` = decrements still owed by a commit cascade in progress, `o` = the request
whose children are being scheduled right now (both empty between operations). -/
structure Inv (e : Env) (role : Hash → Role) (D : List Hash) (o : Option Hash) (s : St) : Prop where
  db : DbClosed e role s.db
  mem : ClosedFrom e role (hasKey s.db) s.membatch
  nodup : (s.requests.map (·.hash)).Nodup
  flags : ∀ r ∈ s.requests, role r.hash = roleFlags r
  nz : ∀ r ∈ s.requests, r.hash ≠ e.zeroHash
  good : ∀ r ∈ s.requests, ∀ b, r.data = some b → r.raw = false ∧ (e.view b).isSome = true
  fresh : ∀ r ∈ s.requests, r.data = none → load D s.requests r.hash = 0
  cnt : ∀ r ∈ s.requests, (load D s.requests r.hash : Int) ≤ r.deps
  par : ∀ c ∈ s.requests, ∀ q ∈ c.parents, Pending s q
  dpar : ∀ q ∈ D, Pending s q
  link : ∀ r ∈ s.requests, some r.hash ≠ o → ∀ b, r.data = some b →
    ∀ x ∈ refs e role r.hash (some b), s.inStore x = true ∨ Linked s x r.hash

/-- references made by a leaf callback are consistent with the roles -/
def AddOK (e : Env) (role : Hash → Role) : Add → Prop
  | .sub r => r = e.emptyRoot ∨ (role r = .node false ∧ r ≠ e.zeroHash)
  | .raw h => h = e.emptyState ∨ (role h = .raw ∧ h ≠ e.zeroHash)

/-- the blob `b`, read under hash `h`, references hashes in roles consistent with `role`, never the zero
hash, and — in a trie synced with the state callback — carries a decodable account in its leaf -/
def BlobOK (e : Env) (role : Hash → Role) (h : Hash) (b : Blob) : Prop :=
  ∀ cb, role h = .node cb → ∀ nv, e.view b = some nv →
    (∀ c ∈ nv.children, role c.1 = .node cb ∧ c.1 ≠ e.zeroHash) ∧
    (cb = true → nv.leaf ≠ some .err ∧ ∀ l, nv.leaf = some (.adds l) → ∀ a ∈ l, AddOK e role a)

/-- operations as the repository issues them: roots are added without a parent (as `NewSync` does) in the
role they are read in; accepted blobs are role-consistent -/
def OpOK (e : Env) (role : Hash → Role) : Op → Prop
  | .addSub root _ parent cb => parent = e.zeroHash ∧ (root = e.emptyRoot ∨ (role root = .node cb ∧ root ≠ e.zeroHash))
  | .addRaw h _ parent => parent = e.zeroHash ∧ (h = e.emptyState ∨ (role h = .raw ∧ h ≠ e.zeroHash))
  | .process items => ∀ p ∈ items, BlobOK e role p.1 p.2
  | .deliver b => BlobOK e role (e.H b) b
  | _ => True

/-- an operation is admissible in state `s`: as `OpOK`, except that a delivered blob only has to be
role-consistent if it is *accepted* — a blob whose hash is not pending (corrupted, unsolicited, late) is
unconstrained -/
def OpOKAt (e : Env) (role : Hash → Role) (s : St) : Op → Prop
  | .deliver b => findReq s.requests (e.H b) = none ∨ BlobOK e role (e.H b) b
  | op => OpOK e role op

/-- every operation of the schedule is admissible in the state it is applied to -/
def RunOK (e : Env) (role : Hash → Role) : St → List Op → Prop
  | _, [] => True
  | s, op :: t => OpOKAt e role s op ∧ RunOK e role (step e s op).1 t

/-- whatever blob is stored under `h` hashes to `h` -/
def HashKeyed (e : Env) (l : List Entry) : Prop := ∀ h b, (h, some b) ∈ l → e.H b = h

/-- a Keccak collision -/
def Collision (e : Env) : Prop := ∃ a b, a ≠ b ∧ e.H a = e.H b

/-- what a reader reaches from `root` by following the entries of `db` -/
inductive Reach (e : Env) (role : Hash → Role) (db : List Entry) (root : Hash) : Hash → Prop where
  | root : Reach e role db root root
  | step {h x : Hash} {v : Option Blob} : Reach e role db root h → (h, v) ∈ db → x ∈ refs e role h v →
      Reach e role db root x

end YouVerif.C19
