/-
C19 — basic lemmas about the request table (an association list keyed by hash), reference counts and the
vocabulary of the invariant.
-/
import YouVerif.C19.Model

namespace YouVerif.C19

/-! ### request table -/

theorem setReq_nil (r : Req) : setReq [] r = [] := rfl
theorem setReq_cons (x : Req) (t : List Req) (r : Req) :
    setReq (x :: t) r = (if x.hash = r.hash then r else x) :: setReq t r := by
  simp [setReq]
theorem eraseReq_cons (x : Req) (t : List Req) (h : Hash) :
    eraseReq (x :: t) h = if x.hash = h then eraseReq t h else x :: eraseReq t h := by
  by_cases hx : x.hash = h <;> simp [eraseReq, hx]
theorem findReq_cons (x : Req) (t : List Req) (h : Hash) :
    findReq (x :: t) h = if x.hash = h then some x else findReq t h := by
  by_cases hx : x.hash = h <;> simp [findReq, List.find?_cons, hx]

theorem findReq_some {rs : List Req} {h : Hash} {r : Req} (hf : findReq rs h = some r) : r ∈ rs ∧ r.hash = h := by
  unfold findReq at hf
  have h1 := List.mem_of_find?_eq_some hf
  have h2 := List.find?_some hf
  exact ⟨h1, by simpa using h2⟩

theorem findReq_none {rs : List Req} {h : Hash} (hf : findReq rs h = none) : ∀ r ∈ rs, r.hash ≠ h := by
  unfold findReq at hf
  intro r hr
  have := List.find?_eq_none.mp hf r hr
  simpa using this

theorem findReq_isSome_of_mem {rs : List Req} {r : Req} (hr : r ∈ rs) : ∃ r', findReq rs r.hash = some r' := by
  cases hf : findReq rs r.hash with
  | some r' => exact ⟨r', rfl⟩
  | none => exact absurd rfl (findReq_none hf r hr)

theorem key_unique {rs : List Req} (nd : (rs.map (·.hash)).Nodup) {a b : Req} (ha : a ∈ rs) (hb : b ∈ rs)
    (hab : a.hash = b.hash) : a = b := by
  induction rs with
  | nil => cases ha
  | cons x t ih =>
    simp only [List.map_cons, List.nodup_cons, List.mem_map, not_exists, not_and] at nd
    rcases List.mem_cons.mp ha with rfl | ha' <;> rcases List.mem_cons.mp hb with rfl | hb'
    · rfl
    · exact absurd hab.symm (nd.1 b hb')
    · exact absurd hab (nd.1 a ha')
    · exact ih nd.2 ha' hb'

theorem findReq_of_mem {rs : List Req} (nd : (rs.map (·.hash)).Nodup) {r : Req} (hr : r ∈ rs) :
    findReq rs r.hash = some r := by
  obtain ⟨r', hf⟩ := findReq_isSome_of_mem hr
  have := findReq_some hf
  rw [hf, key_unique nd this.1 hr this.2]

theorem setReq_keys (rs : List Req) (r : Req) : (setReq rs r).map (·.hash) = rs.map (·.hash) := by
  induction rs with
  | nil => rfl
  | cons x t ih =>
    rw [setReq_cons, List.map_cons, List.map_cons, ih]
    by_cases hx : x.hash = r.hash <;> simp [hx]

theorem mem_setReq {rs : List Req} {r x : Req} :
    x ∈ setReq rs r ↔ (x ∈ rs ∧ x.hash ≠ r.hash) ∨ (x = r ∧ ∃ y ∈ rs, y.hash = r.hash) := by
  induction rs with
  | nil => simp [setReq_nil]
  | cons a t ih =>
    rw [setReq_cons, List.mem_cons, ih]
    by_cases ha : a.hash = r.hash
    · simp only [ha, if_true, List.mem_cons]
      constructor
      · rintro (rfl | h | ⟨rfl, y, hy, hyr⟩)
        · exact Or.inr ⟨rfl, a, Or.inl rfl, ha⟩
        · exact Or.inl ⟨Or.inr h.1, h.2⟩
        · exact Or.inr ⟨rfl, y, Or.inr hy, hyr⟩
      · rintro (⟨rfl | h, hne⟩ | ⟨rfl, _⟩)
        · exact absurd ha hne
        · exact Or.inr (Or.inl ⟨h, hne⟩)
        · exact Or.inl rfl
    · simp only [ha, if_false, List.mem_cons]
      constructor
      · rintro (rfl | h | ⟨rfl, y, hy, hyr⟩)
        · exact Or.inl ⟨Or.inl rfl, ha⟩
        · exact Or.inl ⟨Or.inr h.1, h.2⟩
        · exact Or.inr ⟨rfl, y, Or.inr hy, hyr⟩
      · rintro (⟨rfl | h, hne⟩ | ⟨rfl, y, rfl | hy, hyr⟩)
        · exact Or.inl rfl
        · exact Or.inr (Or.inl ⟨h, hne⟩)
        · exact absurd hyr ha
        · exact Or.inr (Or.inr ⟨rfl, y, hy, hyr⟩)

theorem mem_eraseReq {rs : List Req} {h : Hash} {x : Req} : x ∈ eraseReq rs h ↔ x ∈ rs ∧ x.hash ≠ h := by
  unfold eraseReq; simp

theorem eraseReq_nodup {rs : List Req} (h : Hash) (nd : (rs.map (·.hash)).Nodup) :
    ((eraseReq rs h).map (·.hash)).Nodup := by
  unfold eraseReq
  exact (List.filter_sublist.map _).nodup nd

/-! ### reference counts -/

/-- how many parent links point at `h` -/
def refcount (rs : List Req) (h : Hash) : Nat := (rs.map (fun c => c.parents.count h)).sum

/-- links pointing at `h` plus decrements still owed to `h` by a commit cascade in progress -/
def load (D : List Hash) (rs : List Req) (h : Hash) : Nat := refcount rs h + D.count h

theorem refcount_nil (h : Hash) : refcount [] h = 0 := rfl
theorem refcount_cons (x : Req) (t : List Req) (h : Hash) : refcount (x :: t) h = x.parents.count h + refcount t h := by
  simp [refcount]
theorem refcount_append (a b : List Req) (h : Hash) : refcount (a ++ b) h = refcount a h + refcount b h := by
  simp [refcount]

theorem refcount_pos_of_mem {rs : List Req} {c : Req} {h : Hash} (hc : c ∈ rs) (hp : h ∈ c.parents) : 0 < refcount rs h := by
  induction rs with
  | nil => cases hc
  | cons x t ih =>
    rw [refcount_cons]
    rcases List.mem_cons.mp hc with rfl | hc'
    · have := List.count_pos_iff.mpr hp; omega
    · have := ih hc'; omega

theorem refcount_zero {rs : List Req} {h : Hash} (hz : refcount rs h = 0) : ∀ c ∈ rs, h ∉ c.parents := by
  intro c hc hp
  have := refcount_pos_of_mem hc hp
  omega

theorem refcount_eq_zero_of {rs : List Req} {h : Hash} (hz : ∀ c ∈ rs, h ∉ c.parents) : refcount rs h = 0 := by
  induction rs with
  | nil => rfl
  | cons x t ih =>
    rw [refcount_cons, ih (fun c hc => hz c (List.mem_cons_of_mem _ hc))]
    have : x.parents.count h = 0 := List.count_eq_zero.mpr (hz x List.mem_cons_self)
    omega

theorem eraseReq_of_not_mem {t : List Req} {h : Hash} (hn : ∀ y ∈ t, y.hash ≠ h) : eraseReq t h = t := by
  induction t with
  | nil => rfl
  | cons x t ih =>
    rw [eraseReq_cons, if_neg (hn x List.mem_cons_self), ih (fun y hy => hn y (List.mem_cons_of_mem _ hy))]

theorem refcount_erase {rs : List Req} (nd : (rs.map (·.hash)).Nodup) {r : Req} (hr : r ∈ rs) (h : Hash) :
    refcount (eraseReq rs r.hash) h + r.parents.count h = refcount rs h := by
  induction rs with
  | nil => cases hr
  | cons x t ih =>
    simp only [List.map_cons, List.nodup_cons, List.mem_map, not_exists, not_and] at nd
    rcases List.mem_cons.mp hr with rfl | hr'
    · rw [eraseReq_cons, if_pos rfl, eraseReq_of_not_mem (fun y hy => nd.1 y hy), refcount_cons]; omega
    · have hne : x.hash ≠ r.hash := fun hx => nd.1 r hr' hx.symm
      rw [eraseReq_cons, if_neg hne, refcount_cons, refcount_cons]
      have := ih nd.2 hr'
      omega

theorem setReq_of_not_mem {t : List Req} {new : Req} (hn : ∀ y ∈ t, y.hash ≠ new.hash) : setReq t new = t := by
  induction t with
  | nil => rfl
  | cons x t ih =>
    rw [setReq_cons, if_neg (hn x List.mem_cons_self), ih (fun y hy => hn y (List.mem_cons_of_mem _ hy))]

theorem refcount_setReq {rs : List Req} (nd : (rs.map (·.hash)).Nodup) {old new : Req} (ho : old ∈ rs)
    (hh : new.hash = old.hash) (h : Hash) :
    refcount (setReq rs new) h + old.parents.count h = refcount rs h + new.parents.count h := by
  induction rs with
  | nil => cases ho
  | cons x t ih =>
    simp only [List.map_cons, List.nodup_cons, List.mem_map, not_exists, not_and] at nd
    rcases List.mem_cons.mp ho with rfl | ho'
    · rw [setReq_cons, if_pos hh.symm, setReq_of_not_mem (fun y hy => by rw [hh]; exact fun h1 => nd.1 y hy h1),
        refcount_cons, refcount_cons]; omega
    · have hne : x.hash ≠ new.hash := by rw [hh]; exact fun hx => nd.1 old ho' hx.symm
      rw [setReq_cons, if_neg hne, refcount_cons, refcount_cons]
      have := ih nd.2 ho'
      omega

end YouVerif.C19
