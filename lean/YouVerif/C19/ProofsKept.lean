/-
C19 — nothing is ever forgotten: between restarts, what is stored stays stored and a pending request stays
pending until it is stored.  Unconditional facts about the model (no hypothesis on the operations).
-/
import YouVerif.C19.ProofsProcess

namespace YouVerif.C19

variable {e : Env}

def Kept (s s' : St) : Prop :=
  (∀ h, s.inStore h = true → s'.inStore h = true) ∧ (∀ h, Pending s h → Pending s' h ∨ s'.inStore h = true)

theorem Kept.refl (s : St) : Kept s s := ⟨fun _ h => h, fun _ h => Or.inl h⟩

theorem Kept.trans {a b c : St} (h1 : Kept a b) (h2 : Kept b c) : Kept a c := by
  refine ⟨fun h hs => h2.1 h (h1.1 h hs), fun h hp => ?_⟩
  rcases h1.2 h hp with hp | hs
  · exact h2.2 h hp
  · exact Or.inr (h2.1 h hs)

theorem kept_foldl {α : Type} (f : St → α → St) (hf : ∀ s a, Kept s (f s a)) : ∀ (l : List α) (s : St), Kept s (l.foldl f s) := by
  intro l
  induction l with
  | nil => intro s; exact Kept.refl s
  | cons a t ih => intro s; rw [List.foldl_cons]; exact (hf s a).trans (ih _)

theorem kept_setReq (s : St) (r : Req) : Kept s { s with requests := setReq s.requests r } :=
  ⟨fun _ h => h, fun _ hp => Or.inl (pending_setReq.mpr hp)⟩

theorem kept_schedule (s : St) (req : Req) : Kept s (schedule s req) := by
  cases hf : findReq s.requests req.hash with
  | some old => rw [schedule_old hf]; exact kept_setReq s _
  | none =>
    rw [schedule_new hf]
    exact ⟨fun _ h => h, fun _ ⟨p, hp, hh⟩ => Or.inl ⟨p, List.mem_append_left _ hp, hh⟩⟩

theorem schedule_pending (s : St) (req : Req) : Pending (schedule s req) req.hash := by
  cases hf : findReq s.requests req.hash with
  | some old =>
    rw [schedule_old hf]
    obtain ⟨ho, hh⟩ := findReq_some hf
    exact pending_setReq.mpr ⟨old, ho, hh⟩
  | none =>
    rw [schedule_new hf]
    exact ⟨req, List.mem_append_right _ (List.mem_singleton.mpr rfl), rfl⟩

theorem kept_bumpParent {s s1 : St} {p : Hash} {ps : List Hash} (hb : bumpParent e s p = some (s1, ps)) : Kept s s1 := by
  unfold bumpParent at hb
  split at hb
  · cases hb; exact Kept.refl s
  · split at hb
    · cases hb
    · cases hb; exact kept_setReq s _

theorem kept_addSubTrie {s s' : St} {root parent : Hash} {depth : Nat} {cb : Bool}
    (ha : addSubTrie e s root depth parent cb = some s') :
    Kept s s' ∧ (root = e.emptyRoot ∨ s'.inStore root = true ∨ Pending s' root) := by
  unfold addSubTrie at ha
  by_cases h1 : root = e.emptyRoot
  · simp [h1] at ha; subst ha; exact ⟨Kept.refl s, Or.inl h1⟩
  by_cases h2 : s.inMem root = true
  · simp [h1, h2] at ha; subst ha
    exact ⟨Kept.refl s, Or.inr (Or.inl (by simp [St.inStore, h2]))⟩
  by_cases h3 : knownNode e s root = true
  · simp [h1, h2, h3] at ha; subst ha
    exact ⟨Kept.refl s, Or.inr (Or.inl (by simp [St.inStore, St.dbHas, knownNode_dbHas h3]))⟩
  simp only [beq_iff_eq, h1, if_false, h2, h3] at ha
  cases hb : bumpParent e s parent with
  | none => simp [hb] at ha
  | some sp =>
    obtain ⟨s1, ps⟩ := sp
    simp [hb] at ha
    subst ha
    exact ⟨(kept_bumpParent hb).trans (kept_schedule _ _), Or.inr (Or.inr (schedule_pending _ _))⟩

theorem kept_addRawEntry {s s' : St} {h parent : Hash} {depth : Nat}
    (ha : addRawEntry e s h depth parent = some s') : Kept s s' := by
  unfold addRawEntry at ha
  by_cases h1 : h = e.emptyState
  · simp [h1] at ha; subst ha; exact Kept.refl s
  by_cases h2 : s.inMem h = true
  · simp [h1, h2] at ha; subst ha; exact Kept.refl s
  by_cases h3 : s.dbHas h = true
  · simp [h1, h2, h3] at ha; subst ha; exact Kept.refl s
  simp only [beq_iff_eq, h1, if_false, h2, h3] at ha
  cases hb : bumpParent e s parent with
  | none => simp [hb] at ha
  | some sp =>
    obtain ⟨s1, ps⟩ := sp
    simp [hb] at ha
    subst ha
    exact (kept_bumpParent hb).trans (kept_schedule _ _)

theorem kept_runAdd (h : Hash) (s : St) (a : Add) : Kept s (runAdd e h s a) := by
  cases a with
  | sub root =>
    simp only [runAdd]
    cases ha : addSubTrie e s root 64 h false with
    | none => exact Kept.refl s
    | some s' => exact (kept_addSubTrie ha).1
  | raw c =>
    simp only [runAdd]
    cases ha : addRawEntry e s c 64 h with
    | none => exact Kept.refl s
    | some s' => exact kept_addRawEntry ha

theorem kept_commitReq : ∀ (fuel : Nat) (s : St) (r : Req), Kept s (commitReq fuel s r) := by
  intro fuel
  induction fuel with
  | zero => intro s r; exact Kept.refl s
  | succ fuel ih =>
    intro s r
    rw [commitReq_succ]
    have h1 : Kept s { s with membatch := s.membatch ++ [(r.hash, r.data)], requests := eraseReq s.requests r.hash } := by
      refine ⟨fun h hs => ?_, fun h hp => ?_⟩
      · rw [inStore_iff] at hs ⊢
        rcases hs with hs | hs
        · exact Or.inl hs
        · right; show hasKey (s.membatch ++ [(r.hash, r.data)]) h = true
          rw [hasKey_append]; simp [hs]
      · obtain ⟨p, hp, hh⟩ := hp
        by_cases hr : h = r.hash
        · right
          rw [inStore_iff]; right
          show hasKey (s.membatch ++ [(r.hash, r.data)]) h = true
          rw [hasKey_append, hasKey_cons]; simp [hr]
        · left
          exact ⟨p, mem_eraseReq.mpr ⟨hp, by rw [hh]; exact hr⟩, hh⟩
    refine h1.trans (kept_foldl _ ?_ _ _)
    intro s' q
    unfold cascade
    cases hf : findReq s'.requests q with
    | none => exact Kept.refl s'
    | some p =>
      simp only
      split
      · exact (kept_setReq s' _).trans (ih _ _)
      · exact kept_setReq s' _

theorem kept_processTail (s0 : St) (r : Req) (v : NodeView) (adds : List Add) :
    Kept s0 (processTail e s0 r v adds).1 := by
  unfold processTail
  have h1 := kept_foldl (runAdd e r.hash) (kept_runAdd r.hash) adds s0
  generalize adds.foldl (runAdd e r.hash) s0 = s1 at h1
  simp only
  split
  · exact h1
  · split
    · exact h1.trans (kept_commitReq _ _ _)
    · exact h1.trans ((kept_setReq s1 _).trans (kept_foldl _ (fun s c => kept_schedule s _) _ _))

theorem kept_processNode (s : St) (r : Req) (b : Blob) (v : NodeView) : Kept s (processNode e s r b v).1 := by
  unfold processNode
  simp only
  split
  · exact kept_setReq s _
  · exact (kept_setReq s _).trans (kept_processTail _ _ _ _)
  · exact (kept_setReq s _).trans (kept_processTail _ _ _ _)

theorem kept_processOne (s : St) (h : Hash) (b : Blob) : Kept s (processOne e s h b).1 := by
  unfold processOne
  split
  · exact Kept.refl s
  · split
    · exact Kept.refl s
    · split
      · exact kept_commitReq _ _ _
      · split
        · exact Kept.refl s
        · exact kept_processNode _ _ _ _

theorem kept_processList : ∀ (items : List (Hash × Blob)) (s : St) (i : Nat) (c : Bool),
    Kept s (processList e s items i c).1 := by
  intro items
  induction items with
  | nil => intro s i c; exact Kept.refl s
  | cons p t ih =>
    intro s i c
    obtain ⟨h, b⟩ := p
    have h1 := kept_processOne (e := e) s h b
    unfold processList
    split
    · rename_i s' err _ heq
      rw [heq] at h1; exact h1
    · rename_i s' c' heq
      rw [heq] at h1
      exact h1.trans (ih s' (i + 1) (c || c'))

theorem kept_commitTo (s : St) (failAt : Option Nat) : Kept s (commitTo s failAt).1 := by
  have hall : Kept s { s with db := s.membatch.reverse ++ s.db, membatch := [] } := by
    refine ⟨fun h hs => ?_, fun h hp => Or.inl hp⟩
    rw [inStore_iff] at hs ⊢
    left; show hasKey (s.membatch.reverse ++ s.db) h = true
    rw [hasKey_append, hasKey_reverse]
    rcases hs with hs | hs <;> simp [hs]
  unfold commitTo
  cases failAt with
  | none => exact hall
  | some k =>
    simp only
    split
    · refine ⟨fun h hs => ?_, fun h hp => Or.inl hp⟩
      rw [inStore_iff] at hs ⊢
      rcases hs with hs | hs
      · left; show hasKey ((s.membatch.take k).reverse ++ s.db) h = true
        rw [hasKey_append]; simp [hs]
      · exact Or.inr hs
    · exact hall

theorem kept_step {s : St} {op : Op} (hno : op ≠ .restart) : Kept s (step e s op).1 := by
  cases op with
  | addSub root depth parent cb =>
    simp only [step]
    cases ha : addSubTrie e s root depth parent cb with
    | none => exact Kept.refl s
    | some s' => exact (kept_addSubTrie ha).1
  | addRaw h depth parent =>
    simp only [step]
    cases ha : addRawEntry e s h depth parent with
    | none => exact Kept.refl s
    | some s' => exact kept_addRawEntry ha
  | missing max popped =>
    simp only [step, missing]
    cases hq : missingQueue s.queue max popped with
    | none => exact Kept.refl s
    | some q => exact ⟨fun _ h => h, fun _ h => Or.inl h⟩
  | process items => exact kept_processList items s 0 false
  | deliver b => exact kept_processList [(e.H b, b)] s 0 false
  | commit failAt => exact kept_commitTo s failAt
  | restart => exact absurd rfl hno

theorem kept_run : ∀ (ops : List Op) (s : St), (∀ op ∈ ops, op ≠ .restart) → Kept s (run e s ops) := by
  intro ops
  induction ops with
  | nil => intro s _; exact Kept.refl s
  | cons op t ih =>
    intro s hno
    exact (kept_step (hno op List.mem_cons_self)).trans (ih _ (fun o ho => hno o (List.mem_cons_of_mem _ ho)))

end YouVerif.C19
