/-
C19 — lemmas about the store (database + ordered membatch).
-/
import YouVerif.C19.Spec

namespace YouVerif.C19

theorem hasKey_nil (x : Hash) : hasKey [] x = false := rfl
theorem hasKey_cons (a : Entry) (l : List Entry) (x : Hash) : hasKey (a :: l) x = (a.1 == x || hasKey l x) := by
  simp [hasKey]
theorem hasKey_append (a b : List Entry) (x : Hash) : hasKey (a ++ b) x = (hasKey a x || hasKey b x) := by
  simp [hasKey]
theorem hasKey_reverse (a : List Entry) (x : Hash) : hasKey a.reverse x = hasKey a x := by
  simp [hasKey]
theorem hasKey_of_mem {l : List Entry} {h : Hash} {v : Option Blob} (hm : (h, v) ∈ l) : hasKey l h = true := by
  simp only [hasKey, List.any_eq_true]
  exact ⟨(h, v), hm, by simp⟩
theorem hasKey_take {l : List Entry} {k : Nat} {x : Hash} (h : hasKey (l.take k) x = true) : hasKey l x = true := by
  simp only [hasKey, List.any_eq_true] at h ⊢
  obtain ⟨a, ha, hx⟩ := h
  exact ⟨a, List.mem_of_mem_take ha, hx⟩

theorem closedFrom_mono {e : Env} {role : Hash → Role} {l : List Entry} :
    ∀ {base base' : Hash → Bool}, (∀ x, base x = true → base' x = true) →
    ClosedFrom e role base l → ClosedFrom e role base' l := by
  induction l with
  | nil => intros; trivial
  | cons a t ih =>
    intro base base' hb hc
    obtain ⟨h, v⟩ := a
    obtain ⟨⟨hg, hr⟩, ht⟩ := hc
    refine ⟨⟨hg, fun x hx => hb x (hr x hx)⟩, ih ?_ ht⟩
    intro x hx
    simp only [Bool.or_eq_true] at hx ⊢
    exact hx.imp (hb x) id

theorem closedFrom_snoc {e : Env} {role : Hash → Role} {l : List Entry} {h : Hash} {v : Option Blob} :
    ∀ {base : Hash → Bool}, ClosedFrom e role base l → GoodEntry e role h v →
    (∀ x ∈ refs e role h v, base x = true ∨ hasKey l x = true) → ClosedFrom e role base (l ++ [(h, v)]) := by
  induction l with
  | nil =>
    intro base _ hg hr
    refine ⟨⟨hg, fun x hx => ?_⟩, trivial⟩
    rcases hr x hx with h1 | h1
    · exact h1
    · simp [hasKey] at h1
  | cons a t ih =>
    intro base hc hg hr
    obtain ⟨h', v'⟩ := a
    obtain ⟨hh, ht⟩ := hc
    refine ⟨hh, ih ht hg ?_⟩
    intro x hx
    rcases hr x hx with h1 | h1
    · left; simp [h1]
    · rw [hasKey_cons] at h1
      simp only [Bool.or_eq_true, beq_iff_eq] at h1 ⊢
      rcases h1 with h1 | h1
      · left; right; exact h1.symm
      · right; exact h1

theorem closedFrom_take {e : Env} {role : Hash → Role} {l : List Entry} (k : Nat) :
    ∀ {base : Hash → Bool}, ClosedFrom e role base l → ClosedFrom e role base (l.take k) := by
  induction l generalizing k with
  | nil => intros; simp; trivial
  | cons a t ih =>
    intro base hc
    cases k with
    | zero => simp; trivial
    | succ k =>
      obtain ⟨h, v⟩ := a
      exact ⟨hc.1, ih k hc.2⟩

theorem dbClosed_cons {e : Env} {role : Hash → Role} {db : List Entry} {h : Hash} {v : Option Blob}
    (hd : DbClosed e role db) (hg : GoodEntry e role h v) (hr : ∀ x ∈ refs e role h v, hasKey db x = true) :
    DbClosed e role ((h, v) :: db) := by
  intro h' v' hm
  rcases List.mem_cons.mp hm with heq | hm'
  · cases heq
    exact ⟨hg, fun x hx => by rw [hasKey_cons]; simp [hr x hx]⟩
  · obtain ⟨g, r⟩ := hd h' v' hm'
    exact ⟨g, fun x hx => by rw [hasKey_cons]; simp [r x hx]⟩

/-- flushing the membatch (all of it, in order) keeps the database closed -/
theorem dbClosed_flush {e : Env} {role : Hash → Role} {mem : List Entry} :
    ∀ {db : List Entry}, DbClosed e role db → ClosedFrom e role (hasKey db) mem → DbClosed e role (mem.reverse ++ db) := by
  induction mem with
  | nil => intro db hd _; simpa using hd
  | cons a t ih =>
    intro db hd hc
    obtain ⟨h, v⟩ := a
    obtain ⟨⟨hg, hr⟩, ht⟩ := hc
    have hd' := dbClosed_cons hd hg hr
    have ht' : ClosedFrom e role (hasKey ((h, v) :: db)) t := by
      refine closedFrom_mono ?_ ht
      intro x hx
      rw [hasKey_cons]
      simp only [Bool.or_eq_true, beq_iff_eq] at hx ⊢
      rcases hx with hx | hx
      · exact Or.inr hx
      · exact Or.inl hx.symm
    have := ih hd' ht'
    simpa [List.reverse_cons, List.append_assoc] using this

theorem closedFrom_mem {e : Env} {role : Hash → Role} {l : List Entry} {h : Hash} {v : Option Blob} :
    ∀ {base : Hash → Bool}, ClosedFrom e role base l → (h, v) ∈ l →
    GoodEntry e role h v ∧ ∀ x ∈ refs e role h v, base x = true ∨ hasKey l x = true := by
  induction l with
  | nil => intro _ _ hm; cases hm
  | cons a t ih =>
    intro base hc hm
    obtain ⟨h', v'⟩ := a
    obtain ⟨⟨hg, hr⟩, ht⟩ := hc
    rcases List.mem_cons.mp hm with heq | hm'
    · cases heq
      exact ⟨hg, fun x hx => Or.inl (hr x hx)⟩
    · obtain ⟨g, r⟩ := ih ht hm'
      refine ⟨g, fun x hx => ?_⟩
      rcases r x hx with h1 | h1
      · simp only [Bool.or_eq_true, beq_iff_eq] at h1
        rcases h1 with h1 | h1
        · exact Or.inl h1
        · right; rw [hasKey_cons]; simp [h1]
      · right; rw [hasKey_cons]; simp [h1]

/-- everything reachable from a present root through a closed database is present -/
theorem reach_in_db {e : Env} {role : Hash → Role} {db : List Entry} {root x : Hash}
    (hd : DbClosed e role db) (hroot : hasKey db root = true) (hr : Reach e role db root x) : hasKey db x = true := by
  induction hr with
  | root => exact hroot
  | step _ hm hx _ => exact (hd _ _ hm).2 _ hx

end YouVerif.C19
