/-
C19 — the loop reports completion only when nothing is pending; its state is a run of deliveries and commits.
-/
import YouVerif.C19.ModelLoop
import YouVerif.C19.ProofsSource

namespace YouVerif.C19

variable {e : Env}

theorem run_append (s : St) (a b : List Op) : run e s (a ++ b) = run e (run e s a) b := by
  simp [run, List.foldl_append]

/-- operations a loop run consists of -/
def LoopOp : Op → Prop
  | .deliver _ => True
  | .commit none => True
  | _ => False

theorem processBlobs_run : ∀ (blobs : List Blob) (s s' : St), processBlobs e s blobs = (s', false) →
    s' = run e s (blobs.map Op.deliver) := by
  intro blobs
  induction blobs with
  | nil => intro s s' h; simp [processBlobs] at h; simp [run, h]
  | cons b t ih =>
    intro s s' h
    unfold processBlobs at h
    have hrun : run e s ((b :: t).map Op.deliver) = run e (step e s (.deliver b)).1 (t.map Op.deliver) := by
      simp [run]
    rw [hrun]
    split at h
    · rename_i s1 _ _ heq; rw [heq]; exact ih _ _ h
    · rename_i s1 _ _ heq; rw [heq]; exact ih _ _ h
    · rename_i s1 _ _ heq; rw [heq]; exact ih _ _ h
    · simp at h

theorem loopExit_ok {w : Bool} {s s' : St} {out : LoopOut} (h : loopExit w s out = (s', .ok)) :
    out = .ok ∧ s' = flushAll s := by
  unfold loopExit at h
  split at h
  · simp only [Prod.mk.injEq] at h; exact ⟨h.2, h.1.symm⟩
  · simp at h

theorem loopRun_ok {w : Bool} : ∀ (evs : List LoopEv) (s s' : St), loopRun e w s evs = (s', .ok) →
    ∃ ops, (∀ op ∈ ops, LoopOp op) ∧ (run e s ops).pending = 0 ∧ s' = (step e (run e s ops) (.commit none)).1 := by
  intro evs
  induction evs with
  | nil =>
    intro s s' h
    unfold loopRun at h
    split at h
    · rename_i hp
      exact ⟨[], (fun _ h => by cases h), hp, (loopExit_ok h).2⟩
    · simp at h
  | cons ev t ih =>
    intro s s' h
    unfold loopRun at h
    split at h
    · rename_i hp
      exact ⟨[], (fun _ h => by cases h), hp, (loopExit_ok h).2⟩
    · cases ev with
      | cancel => exact absurd (loopExit_ok h).1 (by simp)
      | wake => exact ih s s' h
      | flush wok =>
        cases wok with
        | false => simp at h
        | true =>
          obtain ⟨ops, hops, hp, hs⟩ := ih _ s' h
          refine ⟨.commit none :: ops, ?_, hp, hs⟩
          intro op hop
          rcases List.mem_cons.mp hop with rfl | hop
          · trivial
          · exact hops op hop
      | response blobs gaveUp =>
        simp only at h
        split at h
        · exact absurd (loopExit_ok h).1 (by simp)
        · rename_i hno
          simp only [Bool.or_eq_true, not_or, Bool.not_eq_true] at hno
          have hpb : processBlobs e s blobs = ((processBlobs e s blobs).1, false) := by
            rw [← hno.1]
          have hrun := processBlobs_run blobs s _ hpb
          obtain ⟨ops, hops, hp, hs⟩ := ih _ s' h
          rw [hrun] at hp hs
          refine ⟨blobs.map Op.deliver ++ ops, ?_, by rw [run_append]; exact hp, by rw [run_append]; exact hs⟩
          intro op hop
          rcases List.mem_append.mp hop with hop | hop
          · obtain ⟨b, _, rfl⟩ := List.mem_map.mp hop; trivial
          · exact hops op hop

theorem loopOp_not_restart {op : Op} (h : LoopOp op) : op ≠ .restart := by
  intro heq; subst heq; exact h

theorem loopOp_srcOp {role : Hash → Role} {src : List Entry} {op : Op} (h : LoopOp op) : SrcOp e role src op := by
  cases op with
  | deliver b => trivial
  | commit f => trivial
  | addSub _ _ _ _ => exact absurd h id
  | addRaw _ _ _ => exact absurd h id
  | missing _ _ => exact absurd h id
  | process _ => exact absurd h id
  | restart => exact absurd h id

end YouVerif.C19
