/-
C19 — property theorems (state/trie sync reproduces the source exactly or reports incompleteness).
-/
import YouVerif.C19.Model

namespace YouVerif.C19

/-- A delivered blob whose Keccak is not a pending request is reported `ErrNotRequested` and changes nothing
(`processNodeData` keys the blob by its own hash; `H` is uninterpreted). -/
theorem wrong_data_rejected (e : Env) (s : St) (b : Blob) (h : findReq s.requests (e.H b) = none) :
    step e s (.deliver b) = (s, .processed false 0 (some .notRequested)) := by
  simp [step, processList, processOne, h]

end YouVerif.C19
