/-
C19 — property theorems: state/trie sync reproduces the source exactly or reports incompleteness.

Vocabulary (Spec.lean): `role` says in which role a hash is read (raw entry, node of a trie synced with /
without the state leaf callback); `refs e role h v` is what a reader of the stored entry `(h, v)` follows next;
`DbClosed` = every stored entry is usable and everything it references is stored; `OpOK` = the operation is one
the repository issues (roots added without parent in the role they are read in, accepted blobs consistent with
`role`).  `e.view` (decodeNode + leaf callback) and `e.H` (Keccak-256) are uninterpreted.

All theorems are about `run e (St.init db0) ops` for an arbitrary operation list `ops`: every prefix of a
schedule is again such a list, so each statement holds at every interruption point, for every order, batching,
duplication, omission and corruption of responses, every `Missing` answer, every failing `Commit` writer and
every restart.
-/
import YouVerif.C19.ProofsProcess

namespace YouVerif.C19

variable {e : Env} {role : Hash → Role}

/-! ## Wrong data is rejected -/

/-- A delivered blob whose Keccak is not a pending request is reported `ErrNotRequested` and changes nothing
(`processNodeData` keys the blob by its own hash; `H` is uninterpreted). -/
theorem wrong_data_rejected (e : Env) (s : St) (b : Blob) (h : findReq s.requests (e.H b) = none) :
    step e s (.deliver b) = (s, .processed false 0 (some .notRequested)) := by
  simp [step, processList, processOne, h]

/-- If a blob `b` is accepted where the genuine blob `b0` was requested, then `(b, b0)` is a Keccak collision. -/
theorem accepted_wrong_blob_is_collision (e : Env) (s : St) (b b0 : Blob) (r : Req)
    (hacc : findReq s.requests (e.H b) = some r) (hreq : r.hash = e.H b0) (hne : b ≠ b0) :
    b ≠ b0 ∧ e.H b = e.H b0 :=
  ⟨hne, (findReq_some hacc).2.symm.trans hreq⟩

/-- The same at the level of `trie.Sync.Process` (explicit hashes): an item whose hash is not pending stops the
batch with `ErrNotRequested` at its index, leaving the state as the items before it left it. -/
theorem unrequested_item_rejected (e : Env) (s : St) (h : Hash) (b : Blob) (rest : List (Hash × Blob)) (i : Nat) (c : Bool)
    (hn : findReq s.requests h = none) :
    processList e s ((h, b) :: rest) i c = (s, c, i, some .notRequested) := by
  simp [processList, processOne, hn]

/-! ## Parents commit last: the store is closed under children at every interruption point -/

/-- **closed_under_children.**  After any schedule, every entry of the database or of the membatch is usable in
its role and everything it references is in the database or the membatch. -/
theorem closed_under_children {db0 : List Entry} {ops : List Op} (hd : DbClosed e role db0)
    (hok : ∀ op ∈ ops, OpOK e role op) (h : Hash) (v : Option Blob)
    (hm : (h, v) ∈ (run e (St.init db0) ops).db ∨ (h, v) ∈ (run e (St.init db0) ops).membatch) :
    GoodEntry e role h v ∧ ∀ x ∈ refs e role h v, (run e (St.init db0) ops).inStore x = true := by
  have hi := run_inv ops _ (init_inv hd) hok
  rcases hm with hm | hm
  · obtain ⟨g, r⟩ := hi.db h v hm
    exact ⟨g, fun x hx => by rw [inStore_iff]; exact Or.inl (r x hx)⟩
  · obtain ⟨g, r⟩ := closedFrom_mem hi.mem hm
    exact ⟨g, fun x hx => by rw [inStore_iff]; exact r x hx⟩

/-- The database alone is closed (the membatch is flushed in completion order, children first, so this also holds
after a `Commit` whose writer failed half-way: `.commit (some k)` is one of the operations). -/
theorem db_closed_always {db0 : List Entry} {ops : List Op} (hd : DbClosed e role db0)
    (hok : ∀ op ∈ ops, OpOK e role op) : DbClosed e role (run e (St.init db0) ops).db :=
  (run_inv ops _ (init_inv hd) hok).db

/-- **never_partial_as_complete.**  At every interruption point: if the root is in the database then everything a
reader reaches from it is in the database and usable — a partially filled trie is never presented as present. -/
theorem never_partial_as_complete {db0 : List Entry} {ops : List Op} (hd : DbClosed e role db0)
    (hok : ∀ op ∈ ops, OpOK e role op) (root x : Hash)
    (hroot : (run e (St.init db0) ops).dbHas root = true)
    (hx : Reach e role (run e (St.init db0) ops).db root x) :
    (run e (St.init db0) ops).dbHas x = true ∧
      ∀ v, (x, v) ∈ (run e (St.init db0) ops).db → GoodEntry e role x v :=
  ⟨reach_in_db (db_closed_always hd hok) hroot hx, fun v hv => ((db_closed_always hd hok) x v hv).1⟩

/-! ## The property is false without role consistency: known finding F-C19a

A state in which a raw entry (contract code) is byte-identical to a trie node with children has no consistent
`role`; the scheduler keeps one request per hash with a sticky `raw` flag, and the outcome depends on the order
of the answers.  Concrete witness (replayed on the real code by the harness probe `F-C19a`). -/

/-- hashes: 10 account-trie root, 11 / 12 account leaves of Y / X, 20 = X's storage root = hash of Y's code,
21 storage leaf; 1 / 2 = emptyRoot / emptyState -/
def cxEnv : Env :=
  { view := fun b => match b with
      | 1 => some { children := [(11, 1), (12, 1)], leaf := none }
      | 2 => some { children := [], leaf := some (.adds [.sub 1, .raw 20]) }
      | 3 => some { children := [], leaf := some (.adds [.sub 20, .raw 2]) }
      | 4 => some { children := [(21, 1)], leaf := none }
      | 5 => some { children := [], leaf := none }
      | _ => none
    H := fun b => match b with
      | 1 => 10 | 2 => 11 | 3 => 12 | 4 => 20 | 5 => 21 | _ => 99
    emptyRoot := 1, emptyState := 2, zeroHash := 0 }

def cxRun (order : List Blob) : St :=
  run cxEnv (newSync cxEnv [] 10 true) (order.map Op.deliver ++ [.commit none])

/-- Only correct, hash-checked blobs are delivered, the sync reports completion (`Pending = 0`), the root is in the
database — and the storage leaf 21, referenced by the stored node 20, is not. -/
theorem clash_counterexample :
    (cxRun [1, 2, 3, 4]).pending = 0 ∧ (cxRun [1, 2, 3, 4]).dbHas 10 = true ∧
    (cxRun [1, 2, 3, 4]).dbHas 20 = true ∧ (cxRun [1, 2, 3, 4]).dbHas 21 = false := by decide

/-- The other order of the same answers is still waiting for 21 and, once it arrives, ends complete: the result
depends on the schedule. -/
theorem clash_schedule_dependent :
    (cxRun [1, 3, 2, 4]).pending = 5 ∧ (cxRun [1, 3, 2, 4, 5]).pending = 0 ∧ (cxRun [1, 3, 2, 4, 5]).dbHas 21 = true := by
  decide

/-! ## Non-vacuity: a concrete state, role assignment and adversarial schedule satisfying every hypothesis -/

/-- as `cxEnv`, but Y's code is its own blob 6 under hash 30 -/
def okEnv : Env :=
  { cxEnv with
    view := fun b => match b with
      | 2 => some { children := [], leaf := some (.adds [.sub 1, .raw 30]) }
      | 6 => none
      | b => cxEnv.view b
    H := fun b => match b with
      | 6 => 30
      | b => cxEnv.H b }

def okRole : Hash → Role := fun h =>
  if h = 10 ∨ h = 11 ∨ h = 12 then .node true else if h = 30 then .raw else .node false

/-- a schedule with an unsolicited blob, a duplicate, a corrupted blob (7), a failing writer and a restart -/
def okOps : List Op :=
  [.addSub 10 0 0 true, .missing 0 [10], .deliver 5, .deliver 1, .deliver 3, .deliver 7, .deliver 4, .deliver 4,
   .commit (some 0), .deliver 5, .commit (some 1), .restart, .addSub 10 0 0 true, .deliver 1, .deliver 2, .deliver 3,
   .deliver 6, .deliver 4, .commit none]

example : DbClosed okEnv okRole [] := fun _ _ h => by cases h

example : ∀ op ∈ okOps, OpOK okEnv okRole op := by
  intro op hop
  simp only [okOps, List.mem_cons, List.not_mem_nil, or_false] at hop
  rcases hop with rfl | rfl | rfl | rfl | rfl | rfl | rfl | rfl | rfl | rfl | rfl | rfl | rfl | rfl | rfl | rfl | rfl | rfl | rfl
  all_goals first
    | trivial
    | (refine ⟨rfl, Or.inr ⟨by decide, by decide⟩⟩)
    | (intro cb hr nv hv
       simp [okEnv, cxEnv] at hv hr
       try subst hv
       try simp_all [okRole, AddOK, okEnv, cxEnv])

/-- test on literals: the schedule above ends complete with everything reachable stored -/
example : (run okEnv (St.init []) okOps).pending = 0 ∧ (run okEnv (St.init []) okOps).dbHas 10 = true ∧
    (run okEnv (St.init []) okOps).dbHas 21 = true ∧ (run okEnv (St.init []) okOps).dbHas 30 = true := by decide

end YouVerif.C19
