/-
C19 — property theorems: state/trie sync reproduces the source exactly or reports incompleteness.

Vocabulary (Spec.lean): `role` says in which role a hash is read (raw entry, node of a trie synced with /
without the state leaf callback); `refs e role h v` is what a reader of the stored entry `(h, v)` follows next;
`DbClosed` = every stored entry is usable and everything it references is stored; `OpOK` = the operation is one
the repository issues (roots added without parent in the role they are read in, accepted blobs consistent with
`role`).  `e.view` (decodeNode + leaf callback) and `e.H` (Keccak-256) are uninterpreted.

All theorems are about `run e (St.init db0) ops` for an arbitrary operation list `ops` with `RunOK`: every prefix
of a schedule is again such a list, so each statement holds at every interruption point, for every order,
batching, duplication, omission and corruption of responses, every `Missing` answer, every failing `Commit`
writer and every restart.  `RunOK` constrains only the blobs that are *accepted* (role-consistent: true of a
clash-free source unless Keccak collides; its failure is finding F-C19a, proved below); rejected blobs —
corrupted, unsolicited, late — are arbitrary.
-/
import YouVerif.C19.ProofsLoop

namespace YouVerif.C19

variable {e : Env} {role : Hash → Role}

/-! ## Wrong data is rejected -/

/-- A delivered blob whose Keccak is not a pending request is reported `ErrNotRequested` and changes nothing
(`processNodeData` keys the blob by its own hash; `H` is uninterpreted). -/
theorem wrong_data_rejected (e : Env) (s : St) (b : Blob) (h : findReq s.requests (e.H b) = none) :
    step e s (.deliver b) = (s, .processed false 0 (some .notRequested)) := by
  simp [step, processList, processOne, h]

/-- If a blob `b` is accepted where the genuine blob `b0` was requested, then `(b, b0)` is a Keccak collision. -/
theorem accepted_wrong_blob_is_collision (e : Env) (s : St) (b b0 : Blob) (r : Req)
    (hacc : findReq s.requests (e.H b) = some r) (hreq : r.hash = e.H b0) (hne : b ≠ b0) :
    b ≠ b0 ∧ e.H b = e.H b0 :=
  ⟨hne, (findReq_some hacc).2.symm.trans hreq⟩

/-- The same at the level of `trie.Sync.Process` (explicit hashes): an item whose hash is not pending stops the
batch with `ErrNotRequested` at its index, leaving the state as the items before it left it. -/
theorem unrequested_item_rejected (e : Env) (s : St) (h : Hash) (b : Blob) (rest : List (Hash × Blob)) (i : Nat) (c : Bool)
    (hn : findReq s.requests h = none) :
    processList e s ((h, b) :: rest) i c = (s, c, i, some .notRequested) := by
  simp [processList, processOne, hn]

/-! ## Parents commit last: the store is closed under children at every interruption point -/

/-- **closed_under_children.**  After any schedule, every entry of the database or of the membatch is usable in
its role and everything it references is in the database or the membatch. -/
theorem closed_under_children {db0 : List Entry} {ops : List Op} (hd : DbClosed e role db0)
    (hok : RunOK e role (St.init db0) ops) (h : Hash) (v : Option Blob)
    (hm : (h, v) ∈ (run e (St.init db0) ops).db ∨ (h, v) ∈ (run e (St.init db0) ops).membatch) :
    GoodEntry e role h v ∧ ∀ x ∈ refs e role h v, (run e (St.init db0) ops).inStore x = true := by
  have hi := run_inv_at ops _ (init_inv hd) hok
  rcases hm with hm | hm
  · obtain ⟨g, r⟩ := hi.db h v hm
    exact ⟨g, fun x hx => by rw [inStore_iff]; exact Or.inl (r x hx)⟩
  · obtain ⟨g, r⟩ := closedFrom_mem hi.mem hm
    exact ⟨g, fun x hx => by rw [inStore_iff]; exact r x hx⟩

/-- The database alone is closed (the membatch is flushed in completion order, children first, so this also holds
after a `Commit` whose writer failed half-way: `.commit (some k)` is one of the operations). -/
theorem db_closed_always {db0 : List Entry} {ops : List Op} (hd : DbClosed e role db0)
    (hok : RunOK e role (St.init db0) ops) : DbClosed e role (run e (St.init db0) ops).db :=
  (run_inv_at ops _ (init_inv hd) hok).db

/-- **never_partial_as_complete.**  At every interruption point: if the root is in the database then everything a
reader reaches from it is in the database and usable — a partially filled trie is never presented as present. -/
theorem never_partial_as_complete {db0 : List Entry} {ops : List Op} (hd : DbClosed e role db0)
    (hok : RunOK e role (St.init db0) ops) (root x : Hash)
    (hroot : (run e (St.init db0) ops).dbHas root = true)
    (hx : Reach e role (run e (St.init db0) ops).db root x) :
    (run e (St.init db0) ops).dbHas x = true ∧
      ∀ v, (x, v) ∈ (run e (St.init db0) ops).db → GoodEntry e role x v :=
  ⟨reach_in_db (db_closed_always hd hok) hroot hx, fun v hv => ((db_closed_always hd hok) x v hv).1⟩

/-! ## Completion: nothing requested is forgotten -/

/-- **complete_when_done.**  Unconditionally (any operations, any blobs): if, without a restart in between, the
sync started for `root` reports `Pending = 0`, then after `Commit` the root is in the database.  Contrapositive:
as long as anything requested is unanswered the sync does not report completion. -/
theorem complete_when_done {db0 : List Entry} {root : Hash} {cb : Bool} {ops : List Op}
    (hno : ∀ op ∈ ops, op ≠ .restart) (hne : root ≠ e.emptyRoot)
    (hdone : (run e (newSync e db0 root cb) ops).pending = 0) :
    (step e (run e (newSync e db0 root cb) ops) (.commit none)).1.dbHas root = true := by
  obtain ⟨s0, hs0⟩ := addSubTrie_zero_some (e := e) (St.init db0) root 0 cb
  have hnew : newSync e db0 root cb = s0 := by simp [newSync, step, hs0]
  obtain ⟨_, htr⟩ := kept_addSubTrie hs0
  rw [hnew] at hdone ⊢
  have hk := kept_run (e := e) ops s0 hno
  have hreq : (run e s0 ops).requests = [] := List.length_eq_zero_iff.mp hdone
  have hst : (run e s0 ops).inStore root = true := by
    rcases htr with h | h | h
    · exact absurd h hne
    · exact hk.1 root h
    · rcases hk.2 root h with ⟨p, hp, _⟩ | h
      · rw [hreq] at hp; cases hp
      · exact h
  show hasKey ((run e s0 ops).membatch.reverse ++ (run e s0 ops).db) root = true
  rw [hasKey_append, hasKey_reverse]
  rw [inStore_iff] at hst
  rcases hst with h | h <;> simp [h]

/-! ## Content: what is stored is the source's data -/

/-- Hash-checked deliveries (`deliver`, i.e. the downloader's `processNodeData`) only ever store a blob under its
own Keccak. -/
theorem synced_db_hash_keyed {db0 : List Entry} {ops : List Op} (h0 : HashKeyed e db0)
    (hok : ∀ op ∈ ops, OpKeyed e op) :
    HashKeyed e (run e (St.init db0) ops).db ∧ HashKeyed e (run e (St.init db0) ops).membatch :=
  ⟨(hk_run ops _ (hk_init h0) hok).db, (hk_run ops _ (hk_init h0) hok).mem⟩

/-- Two closed, hash-keyed databases that hold the same root show a reader exactly the same entries from that
root — or a Keccak collision exists (no injectivity axiom). -/
theorem reads_identical_content {d1 d2 : List Entry} {root : Hash}
    (hc1 : DbClosed e role d1) (hk1 : HashKeyed e d1) (hc2 : DbClosed e role d2) (hk2 : HashKeyed e d2)
    (hr1 : hasKey d1 root = true) (hr2 : hasKey d2 root = true) :
    Collision e ∨ ∀ x, (Reach e role d1 root x ↔ Reach e role d2 root x) ∧
      (Reach e role d1 root x → ∀ v, (x, v) ∈ d1 ↔ (x, v) ∈ d2) := by
  by_cases hcol : Collision e
  · exact Or.inl hcol
  right
  have hinj := inj_of_not_collision hcol
  intro x
  have h12 := fun hx => reach_transfer (x := x) hinj hc1 hk1 hc2 hk2 hr2 hx
  have h21 := fun hx => reach_transfer (x := x) hinj hc2 hk2 hc1 hk1 hr1 hx
  refine ⟨⟨fun hx => (h12 hx).2.1, fun hx => (h21 hx).2.1⟩, fun hx v => ⟨(h12 hx).2.2 v, ?_⟩⟩
  exact (h21 (h12 hx).2.1).2.2 v

/-- **sync_reproduces_source.**  For every schedule (any order, batching, duplication, delay, corrupted and
unsolicited blobs, failing writers) without restart after the sync was started: once it reports completion, the
committed database holds the root, is closed, and a reader sees from the root exactly the entries the source
shows — or a Keccak collision exists. -/
theorem sync_reproduces_source {db0 src : List Entry} {root : Hash} {cb : Bool} {ops : List Op}
    (hd0 : DbClosed e role db0) (hk0 : HashKeyed e db0)
    (hsrc : DbClosed e role src) (hksrc : HashKeyed e src) (hroot : hasKey src root = true)
    (hrole : root = e.emptyRoot ∨ (role root = .node cb ∧ root ≠ e.zeroHash)) (hne : root ≠ e.emptyRoot)
    (hok : RunOK e role (newSync e db0 root cb) ops) (hkey : ∀ op ∈ ops, OpKeyed e op)
    (hno : ∀ op ∈ ops, op ≠ .restart)
    (hdone : (run e (newSync e db0 root cb) ops).pending = 0) :
    hasKey (step e (run e (newSync e db0 root cb) ops) (.commit none)).1.db root = true ∧
    DbClosed e role (step e (run e (newSync e db0 root cb) ops) (.commit none)).1.db ∧
    (Collision e ∨ ∀ x,
      (Reach e role (step e (run e (newSync e db0 root cb) ops) (.commit none)).1.db root x ↔ Reach e role src root x) ∧
      (Reach e role (step e (run e (newSync e db0 root cb) ops) (.commit none)).1.db root x →
        ∀ v, (x, v) ∈ (step e (run e (newSync e db0 root cb) ops) (.commit none)).1.db ↔ (x, v) ∈ src)) := by
  have hroot' := complete_when_done (e := e) (db0 := db0) (cb := cb) hno hne hdone
  have hi0 : Inv e role [] none (newSync e db0 root cb) :=
    step_inv (init_inv hd0) (show OpOK e role (.addSub root 0 e.zeroHash cb) from ⟨rfl, hrole⟩)
  have hi := step_inv (op := .commit none) (run_inv_at ops _ hi0 hok) trivial
  have hk0' : HK e (newSync e db0 root cb) := hk_step (op := .addSub root 0 e.zeroHash cb) (hk_init hk0) trivial
  have hk := hk_step (op := .commit none) (hk_run ops _ hk0' hkey) trivial
  exact ⟨hroot', hi.db, reads_identical_content hi.db hk.db hsrc hksrc hroot' hroot⟩

/-- **schedule_independent.**  Two schedules for the same root — different order, batching, duplication, delays,
corruptions, `Missing` answers, writer failures — that both report completion leave databases from which a reader
sees exactly the same entries, or a Keccak collision exists. -/
theorem schedule_independent {db1 db2 : List Entry} {root : Hash} {cb : Bool} {ops1 ops2 : List Op}
    (hd1 : DbClosed e role db1) (hk1 : HashKeyed e db1) (hd2 : DbClosed e role db2) (hk2 : HashKeyed e db2)
    (hrole : root = e.emptyRoot ∨ (role root = .node cb ∧ root ≠ e.zeroHash)) (hne : root ≠ e.emptyRoot)
    (hok1 : RunOK e role (newSync e db1 root cb) ops1) (hkey1 : ∀ op ∈ ops1, OpKeyed e op) (hno1 : ∀ op ∈ ops1, op ≠ .restart)
    (hok2 : RunOK e role (newSync e db2 root cb) ops2) (hkey2 : ∀ op ∈ ops2, OpKeyed e op) (hno2 : ∀ op ∈ ops2, op ≠ .restart)
    (hdone1 : (run e (newSync e db1 root cb) ops1).pending = 0)
    (hdone2 : (run e (newSync e db2 root cb) ops2).pending = 0) :
    Collision e ∨ ∀ x,
      (Reach e role (step e (run e (newSync e db1 root cb) ops1) (.commit none)).1.db root x ↔
        Reach e role (step e (run e (newSync e db2 root cb) ops2) (.commit none)).1.db root x) ∧
      (Reach e role (step e (run e (newSync e db1 root cb) ops1) (.commit none)).1.db root x →
        ∀ v, (x, v) ∈ (step e (run e (newSync e db1 root cb) ops1) (.commit none)).1.db ↔
          (x, v) ∈ (step e (run e (newSync e db2 root cb) ops2) (.commit none)).1.db) := by
  have hr1 := complete_when_done (e := e) (db0 := db1) (cb := cb) hno1 hne hdone1
  have hr2 := complete_when_done (e := e) (db0 := db2) (cb := cb) hno2 hne hdone2
  have mk : ∀ (db0 : List Entry) (ops : List Op), DbClosed e role db0 → HashKeyed e db0 →
      RunOK e role (newSync e db0 root cb) ops → (∀ op ∈ ops, OpKeyed e op) →
      DbClosed e role (step e (run e (newSync e db0 root cb) ops) (.commit none)).1.db ∧
      HashKeyed e (step e (run e (newSync e db0 root cb) ops) (.commit none)).1.db := by
    intro db0 ops hd hk hok hkey
    have hi0 : Inv e role [] none (newSync e db0 root cb) :=
      step_inv (init_inv hd) (show OpOK e role (.addSub root 0 e.zeroHash cb) from ⟨rfl, hrole⟩)
    have hk0' : HK e (newSync e db0 root cb) := hk_step (op := .addSub root 0 e.zeroHash cb) (hk_init hk) trivial
    exact ⟨(step_inv (op := .commit none) (run_inv_at ops _ hi0 hok) trivial).db,
      (hk_step (op := .commit none) (hk_run ops _ hk0' hkey) trivial).db⟩
  obtain ⟨c1, k1⟩ := mk db1 ops1 hd1 hk1 hok1 hkey1
  obtain ⟨c2, k2⟩ := mk db2 ops2 hd2 hk2 hok2 hkey2
  exact reads_identical_content c1 k1 c2 k2 hr1 hr2

/-! ## The same, from hypotheses on the source only

`SrcOK` = the source is role-consistent (clash-free); `SrcOp` = a downloader-level operation: *any* blob may be
delivered, `Missing`, `Commit` (also failing), restart, and (re)starting the sync for a root the source holds.
That every accepted blob is then role-consistent (`RunOK`) is proved, not assumed: every requested hash is a hash
the source holds, so an accepted blob is the source's blob unless Keccak collides. -/

/-- **interrupted_sync_never_partial.**  For a clash-free source and any downloader-level schedule whatsoever, at
every interruption point: a root present in the database has everything a reader reaches from it — or a Keccak
collision exists. -/
theorem interrupted_sync_never_partial {db0 src : List Entry} {ops : List Op}
    (hd0 : DbClosed e role db0) (hsrc : DbClosed e role src) (hksrc : HashKeyed e src) (hsok : SrcOK e role src)
    (hops : ∀ op ∈ ops, SrcOp e role src op) :
    Collision e ∨ ∀ root x, (run e (St.init db0) ops).dbHas root = true →
      Reach e role (run e (St.init db0) ops).db root x → (run e (St.init db0) ops).dbHas x = true := by
  by_cases hcol : Collision e
  · exact Or.inl hcol
  right
  have hinj := inj_of_not_collision hcol
  have hok := source_run hinj hsrc hksrc hsok ops (St.init db0) (init_inv hd0) (fun r hr => by cases hr) hops
  intro root x hr hx
  exact (never_partial_as_complete hd0 hok root x hr hx).1

/-- **sync_correct.**  For a clash-free source, a closed hash-keyed initial database and any downloader-level
schedule without restart after the sync was started: once the sync reports completion, the committed database
holds the root, is closed, and shows a reader from the root exactly the entries the source shows — or a Keccak
collision exists. -/
theorem sync_correct {db0 src : List Entry} {root : Hash} {cb : Bool} {ops : List Op}
    (hd0 : DbClosed e role db0) (hk0 : HashKeyed e db0)
    (hsrc : DbClosed e role src) (hksrc : HashKeyed e src) (hsok : SrcOK e role src)
    (hroot : hasKey src root = true) (hrole : role root = .node cb) (hnz : root ≠ e.zeroHash) (hne : root ≠ e.emptyRoot)
    (hops : ∀ op ∈ ops, SrcOp e role src op) (hno : ∀ op ∈ ops, op ≠ .restart)
    (hdone : (run e (newSync e db0 root cb) ops).pending = 0) :
    Collision e ∨
    (hasKey (step e (run e (newSync e db0 root cb) ops) (.commit none)).1.db root = true ∧
     DbClosed e role (step e (run e (newSync e db0 root cb) ops) (.commit none)).1.db ∧
     ∀ x,
      (Reach e role (step e (run e (newSync e db0 root cb) ops) (.commit none)).1.db root x ↔ Reach e role src root x) ∧
      (Reach e role (step e (run e (newSync e db0 root cb) ops) (.commit none)).1.db root x →
        ∀ v, (x, v) ∈ (step e (run e (newSync e db0 root cb) ops) (.commit none)).1.db ↔ (x, v) ∈ src)) := by
  by_cases hcol : Collision e
  · exact Or.inl hcol
  right
  have hinj := inj_of_not_collision hcol
  have hstart : SrcOp e role src (.addSub root 0 e.zeroHash cb) := ⟨rfl, Or.inr ⟨hrole, hnz, hroot⟩⟩
  obtain ⟨hok0, hq0⟩ := source_step hinj hsrc hksrc hsok (init_inv hd0) (fun r hr => by cases hr) hstart
  have hi0 : Inv e role [] none (newSync e db0 root cb) := step_inv_at (init_inv hd0) hok0
  have hok := source_run hinj hsrc hksrc hsok ops (newSync e db0 root cb) hi0 hq0 hops
  have hkey : ∀ op ∈ ops, OpKeyed e op := by
    intro op hop
    have := hops op hop
    cases op <;> first | trivial | exact absurd this id
  obtain ⟨h1, h2, h3⟩ := sync_reproduces_source hd0 hk0 hsrc hksrc hroot (Or.inr ⟨hrole, hnz⟩) hne hok hkey hno hdone
  exact ⟨h1, h2, h3.resolve_left hcol⟩

/-! ## The downloader loop reports completion only when the trie is there

`loopRun` (ModelLoop.lean) is `trieSync.loop` with its deferred `commit(true)`: events are what the loop's `select`
receives (a finished request with its blobs and whether `process` gave up on a task, cancellation, a new peer, a
threshold commit with the outcome of its batch write); `w` = whether the final forced commit's write succeeds; the outcome is the error value `Wait()` returns.  Tied to the code by the end-to-end oracle of the
harness (real Downloader, scripted peers), not by line-by-line correspondence. -/

/-- **reports_incomplete.**  If the loop ends with nil (`.ok`) then nothing was pending, its state is a run of
hash-checked deliveries and commits followed by the final commit, and the root is in the database.  Contrapositive:
whenever the sync stops with something unanswered (a task failed with all peers, an invalid node, cancellation) or a
batch write fails (periodic or final: `flush_failure_is_reported`), the outcome is not `.ok`. -/
theorem reports_incomplete {db0 : List Entry} {root : Hash} {cb : Bool} {evs : List LoopEv} {s' : St} {w : Bool}
    (hne : root ≠ e.emptyRoot) (h : loopRun e w (newSync e db0 root cb) evs = (s', .ok)) :
    ∃ ops, (∀ op ∈ ops, LoopOp op) ∧ (run e (newSync e db0 root cb) ops).pending = 0 ∧
      s' = (step e (run e (newSync e db0 root cb) ops) (.commit none)).1 ∧ s'.dbHas root = true := by
  obtain ⟨ops, hops, hp, hs⟩ := loopRun_ok evs _ s' h
  refine ⟨ops, hops, hp, hs, ?_⟩
  rw [hs]
  exact complete_when_done (fun op hop => loopOp_not_restart (hops op hop)) hne hp

/-- **flush_failure_is_reported.**  A failed batch write — of a periodic flush reached while something is pending, or
of the final forced commit — never ends in `.ok`. -/
theorem flush_failure_is_reported (e : Env) (w : Bool) (s : St) (t : List LoopEv) :
    (s.pending ≠ 0 → (loopRun e w s (.flush false :: t)).2 = .err) ∧
    (∀ evs, (loopRun e false s evs).2 ≠ .ok) := by
  refine ⟨fun hp => by simp [loopRun, hp], ?_⟩
  intro evs hok
  have h : loopRun e false s evs = ((loopRun e false s evs).1, .ok) := by rw [← hok]
  clear hok
  generalize (loopRun e false s evs).1 = s' at h
  induction evs generalizing s with
  | nil =>
    unfold loopRun at h
    split at h
    · exact absurd (loopExit_ok h) (by simp [loopExit] at h)
    · simp at h
  | cons ev t ih =>
    unfold loopRun at h
    split at h
    · simp [loopExit] at h
    · cases ev with
      | cancel => simp [loopExit] at h
      | wake => exact ih _ h
      | flush wok =>
        cases wok with
        | false => simp at h
        | true => exact ih _ h
      | response blobs gaveUp =>
        simp only at h
        split at h
        · simp [loopExit] at h
        · exact ih _ h

/-- **loop_ok_reproduces_source.**  `reports_incomplete` composed with `sync_correct`: for a clash-free source, when
the loop ends with nil the database shows a reader from the root exactly the source's entries, or Keccak collides. -/
theorem loop_ok_reproduces_source {db0 src : List Entry} {root : Hash} {cb : Bool} {evs : List LoopEv} {s' : St} {w : Bool}
    (hd0 : DbClosed e role db0) (hk0 : HashKeyed e db0)
    (hsrc : DbClosed e role src) (hksrc : HashKeyed e src) (hsok : SrcOK e role src)
    (hroot : hasKey src root = true) (hrole : role root = .node cb) (hnz : root ≠ e.zeroHash) (hne : root ≠ e.emptyRoot)
    (h : loopRun e w (newSync e db0 root cb) evs = (s', .ok)) :
    Collision e ∨
    (hasKey s'.db root = true ∧ DbClosed e role s'.db ∧
     ∀ x, (Reach e role s'.db root x ↔ Reach e role src root x) ∧
      (Reach e role s'.db root x → ∀ v, (x, v) ∈ s'.db ↔ (x, v) ∈ src)) := by
  obtain ⟨ops, hops, hp, hs⟩ := loopRun_ok evs _ s' h
  rw [hs]
  exact sync_correct hd0 hk0 hsrc hksrc hsok hroot hrole hnz hne (fun op hop => loopOp_srcOp (hops op hop))
    (fun op hop => loopOp_not_restart (hops op hop)) hp

/-! ## The property is false without role consistency: known finding F-C19a

A state in which a raw entry (contract code) is byte-identical to a trie node with children has no consistent
`role`; the scheduler keeps one request per hash with a sticky `raw` flag, and the outcome depends on the order
of the answers.  Concrete witness (replayed on the real code by the harness probe `F-C19a`). -/

/-- hashes: 10 account-trie root, 11 / 12 account leaves of Y / X, 20 = X's storage root = hash of Y's code,
21 storage leaf; 1 / 2 = emptyRoot / emptyState -/
def cxEnv : Env :=
  { view := fun b => match b with
      | 1 => some { children := [(11, 1), (12, 1)], leaf := none }
      | 2 => some { children := [], leaf := some (.adds [.sub 1, .raw 20]) }
      | 3 => some { children := [], leaf := some (.adds [.sub 20, .raw 2]) }
      | 4 => some { children := [(21, 1)], leaf := none }
      | 5 => some { children := [], leaf := none }
      | _ => none
    H := fun b => match b with
      | 1 => 10 | 2 => 11 | 3 => 12 | 4 => 20 | 5 => 21 | _ => 99
    emptyRoot := 1, emptyState := 2, zeroHash := 0 }

def cxRun (order : List Blob) : St :=
  run cxEnv (newSync cxEnv [] 10 true) (order.map Op.deliver ++ [.commit none])

/-- Only correct, hash-checked blobs are delivered, the sync reports completion (`Pending = 0`), the root is in the
database — and the storage leaf 21, referenced by the stored node 20, is not. -/
theorem clash_counterexample :
    (cxRun [1, 2, 3, 4]).pending = 0 ∧ (cxRun [1, 2, 3, 4]).dbHas 10 = true ∧
    (cxRun [1, 2, 3, 4]).dbHas 20 = true ∧ (cxRun [1, 2, 3, 4]).dbHas 21 = false := by decide

/-- The other order of the same answers is still waiting for 21 and, once it arrives, ends complete: the result
depends on the schedule. -/
theorem clash_schedule_dependent :
    (cxRun [1, 3, 2, 4]).pending = 5 ∧ (cxRun [1, 3, 2, 4, 5]).pending = 0 ∧ (cxRun [1, 3, 2, 4, 5]).dbHas 21 = true := by
  decide

/-! ## Non-vacuity: a concrete state, role assignment and adversarial schedule satisfying every hypothesis -/

/-- as `cxEnv`, but Y's code is its own blob 6 under hash 30 -/
def okEnv : Env :=
  { cxEnv with
    view := fun b => match b with
      | 2 => some { children := [], leaf := some (.adds [.sub 1, .raw 30]) }
      | 6 => none
      | b => cxEnv.view b
    H := fun b => match b with
      | 6 => 30
      | b => cxEnv.H b }

def okRole : Hash → Role := fun h =>
  if h = 10 ∨ h = 11 ∨ h = 12 then .node true else if h = 30 then .raw else .node false

/-- a schedule with an unsolicited blob, a duplicate, a corrupted blob (7), a failing writer and a restart -/
def okOps : List Op :=
  [.addSub 10 0 0 true, .missing 0 [10], .deliver 5, .deliver 1, .deliver 3, .deliver 7, .deliver 4, .deliver 4,
   .commit (some 0), .deliver 5, .commit (some 1), .restart, .addSub 10 0 0 true, .deliver 1, .deliver 2, .deliver 3,
   .deliver 6, .deliver 4, .commit none]

example : DbClosed okEnv okRole [] := fun _ _ h => by cases h

example : ∀ op ∈ okOps, OpOK okEnv okRole op := by
  intro op hop
  simp only [okOps, List.mem_cons, List.not_mem_nil, or_false] at hop
  rcases hop with rfl | rfl | rfl | rfl | rfl | rfl | rfl | rfl | rfl | rfl | rfl | rfl | rfl | rfl | rfl | rfl | rfl | rfl | rfl
  all_goals first
    | trivial
    | (refine ⟨rfl, Or.inr ⟨by decide, by decide⟩⟩)
    | (intro cb hr nv hv
       simp [okEnv, cxEnv] at hv hr
       try subst hv
       try simp_all [okRole, AddOK, okEnv, cxEnv])

example : RunOK okEnv okRole (St.init []) okOps :=
  runOK_of_opOK okOps _ (by
    intro op hop
    simp only [okOps, List.mem_cons, List.not_mem_nil, or_false] at hop
    rcases hop with rfl | rfl | rfl | rfl | rfl | rfl | rfl | rfl | rfl | rfl | rfl | rfl | rfl | rfl | rfl | rfl | rfl | rfl | rfl
    all_goals first
      | trivial
      | (refine ⟨rfl, Or.inr ⟨by decide, by decide⟩⟩)
      | (intro cb hr nv hv
         simp [okEnv, cxEnv] at hv hr
         try subst hv
         try simp_all [okRole, AddOK, okEnv, cxEnv]))

example : ∀ op ∈ okOps, OpKeyed okEnv op := by
  intro op hop
  simp only [okOps, List.mem_cons, List.not_mem_nil, or_false] at hop
  rcases hop with rfl | rfl | rfl | rfl | rfl | rfl | rfl | rfl | rfl | rfl | rfl | rfl | rfl | rfl | rfl | rfl | rfl | rfl | rfl
  all_goals trivial

/-- test on literals: the schedule above ends complete with everything reachable stored -/
example : (run okEnv (St.init []) okOps).pending = 0 ∧ (run okEnv (St.init []) okOps).dbHas 10 = true ∧
    (run okEnv (St.init []) okOps).dbHas 21 = true ∧ (run okEnv (St.init []) okOps).dbHas 30 = true := by decide

/-! ### the source-level hypotheses of `sync_correct` / `interrupted_sync_never_partial` are satisfiable -/


def okSrc : List Entry := [(10, some 1), (11, some 2), (12, some 3), (20, some 4), (21, some 5), (30, some 6)]

example : HashKeyed okEnv okSrc := by
  intro h b hm
  simp only [okSrc, List.mem_cons, Prod.mk.injEq, List.not_mem_nil, or_false] at hm
  rcases hm with ⟨rfl, h⟩ | ⟨rfl, h⟩ | ⟨rfl, h⟩ | ⟨rfl, h⟩ | ⟨rfl, h⟩ | ⟨rfl, h⟩ <;> cases h <;> rfl

example : DbClosed okEnv okRole okSrc := by
  intro h v hm
  simp only [okSrc, List.mem_cons, Prod.mk.injEq, List.not_mem_nil, or_false] at hm
  rcases hm with ⟨rfl, rfl⟩ | ⟨rfl, rfl⟩ | ⟨rfl, rfl⟩ | ⟨rfl, rfl⟩ | ⟨rfl, rfl⟩ | ⟨rfl, rfl⟩ <;>
    (constructor
     · simp [GoodEntry, okRole, okEnv, cxEnv]
     · intro x hx
       simp [refs, okRole, okEnv, cxEnv, leafRefs, addRef] at hx
       try (rcases hx with rfl | rfl <;> decide)
       try (subst hx; decide))

example : SrcOK okEnv okRole okSrc := by
  intro h b hm
  simp only [okSrc, List.mem_cons, Prod.mk.injEq, List.not_mem_nil, or_false] at hm
  rcases hm with ⟨rfl, h⟩ | ⟨rfl, h⟩ | ⟨rfl, h⟩ | ⟨rfl, h⟩ | ⟨rfl, h⟩ | ⟨rfl, h⟩ <;> cases h <;>
    (intro cb hr nv hv
     simp [okEnv, cxEnv] at hv hr
     try subst hv
     try simp_all [okRole, AddOK, okEnv, cxEnv])

example : ∀ op ∈ okOps, SrcOp okEnv okRole okSrc op := by
  intro op hop
  simp only [okOps, List.mem_cons, List.not_mem_nil, or_false] at hop
  rcases hop with rfl | rfl | rfl | rfl | rfl | rfl | rfl | rfl | rfl | rfl | rfl | rfl | rfl | rfl | rfl | rfl | rfl | rfl | rfl
  all_goals first
    | trivial
    | exact ⟨rfl, Or.inr ⟨by decide, by decide, by decide⟩⟩

/-- a restart-free adversarial schedule after `newSync` (unsolicited 5, corrupted 7, duplicate 4, failing writer) -/
def okOps2 : List Op :=
  [.missing 1 [10], .deliver 5, .deliver 1, .deliver 3, .deliver 7, .deliver 4, .deliver 4, .commit (some 0), .deliver 5,
   .commit (some 1), .deliver 2, .deliver 6]

example : (run okEnv (newSync okEnv [] 10 true) okOps2).pending = 0 := by decide

example : ∀ op ∈ okOps2, op ≠ .restart := by
  intro op hop
  simp only [okOps2, List.mem_cons, List.not_mem_nil, or_false] at hop
  rcases hop with rfl | rfl | rfl | rfl | rfl | rfl | rfl | rfl | rfl | rfl | rfl | rfl <;> simp

example : ∀ op ∈ okOps2, SrcOp okEnv okRole okSrc op := by
  intro op hop
  simp only [okOps2, List.mem_cons, List.not_mem_nil, or_false] at hop
  rcases hop with rfl | rfl | rfl | rfl | rfl | rfl | rfl | rfl | rfl | rfl | rfl | rfl
  all_goals trivial

/-- tests on literals: a task given up and a cancellation end with `.err`; silence is `.waiting`;
honest answers end with `.ok` -/
example : (loopRun okEnv true (newSync okEnv [] 10 true) [.response [1, 3] false, .response [] true]).2 = .err ∧
    (loopRun okEnv true (newSync okEnv [] 10 true) [.response [1] false, .cancel]).2 = .err ∧
    (loopRun okEnv true (newSync okEnv [] 10 true) [.response [1, 2] false, .wake]).2 = .waiting ∧
    (loopRun okEnv true (newSync okEnv [] 10 true) [.response [1, 7, 2] false, .flush true, .response [3, 4, 5, 6] false]).2 = .ok ∧
    (loopRun okEnv true (newSync okEnv [] 10 true) [.response [1, 7, 2] false, .flush false, .response [3, 4, 5, 6] false]).2 = .err := by
  decide

/-- **lost_flush_counterexample** (seeded change C19-6 on the model).  If the loop tolerated a failed periodic write
and went on (`lostFlush`: the staged entries are in neither membatch nor database), honest answers would end with
`Pending = 0` and the root in the database while the stored node 20 lacks its child 21 and 12, 20 are missing. -/
theorem lost_flush_counterexample :
    let s1 := run okEnv (newSync okEnv [] 10 true) [.deliver 1, .deliver 3, .deliver 4, .deliver 5]
    let s2 := (step okEnv (run okEnv (lostFlush s1) [.deliver 2, .deliver 6]) (.commit none)).1
    s1.membatch.map (·.1) = [21, 20, 12] ∧ s2.pending = 0 ∧ s2.dbHas 10 = true ∧ s2.dbHas 12 = false ∧
      s2.dbHas 20 = false ∧ s2.dbHas 21 = false := by
  decide

end YouVerif.C19
