/-
C13 — canonical form: a well-formed trie is determined by the map it stores; keys of a prefix-free
set are always compatible with a well-formed trie that stores only keys of that set.
-/
import YouVerif.C13.ProofsWF
namespace YouVerif.C13

theorem exists_path {t : Node} (hw : WF t) (hne : t.isEmpty = false) : ∃ p, lookup t p ≠ none := by
  induction t with
  | empty => simp at hne
  | value v => exact ⟨[], by simp⟩
  | short k n ih =>
    obtain ⟨p, hp⟩ := ih hw.2.2.2.1 hw.2.1
    exact ⟨k ++ p, by simpa using hp⟩
  | full cs ih =>
    obtain ⟨hch, ⟨i, _, _, hi, _⟩, _⟩ := hw
    obtain ⟨p, hp⟩ := ih i (hch i) hi
    exact ⟨i :: p, by simpa using hp⟩

theorem exists_two_paths {cs : Nib → Node} (hw : WF (.full cs)) :
    ∃ i j p q, i ≠ j ∧ lookup (.full cs) (i :: p) ≠ none ∧ lookup (.full cs) (j :: q) ≠ none := by
  obtain ⟨hch, ⟨i, j, hij, hi, hj⟩, _⟩ := hw
  obtain ⟨p, hp⟩ := exists_path (hch i) hi
  obtain ⟨q, hq⟩ := exists_path (hch j) hj
  exact ⟨i, j, p, q, hij, by simpa using hp, by simpa using hq⟩

theorem prefix_of_lookup_short {k n key} (h : lookup (.short k n) key ≠ none) : k <+: key := by
  by_cases hp : k <+: key
  · exact hp
  · exact absurd (lookup_short_none hp) h

def PrefixFree (P : List Nib → Prop) : Prop := ∀ a b, P a → P (a ++ b) → b = []

/-- On a prefix-free key set the Go code never meets one of its panic / subtree-destroying cases. -/
theorem compat_of_prefixFree {t : Node} (hw : WF t) :
    ∀ (P : List Nib → Prop), PrefixFree P → (∀ p, lookup t p ≠ none → P p) → ∀ key, P key → Compat t key := by
  induction t with
  | empty => intros; trivial
  | value v =>
    intro P hP hdom key hk
    exact hP [] key (hdom [] (by simp)) (by simpa using hk)
  | short k n ih =>
    intro P hP hdom key hk
    obtain ⟨hkne, hne, hns, hwn, _, _⟩ := hw
    rcases splitCommon_cases key k with ⟨r, hkey, hs⟩ | ⟨p, a, as, b, bs, hkey, hk2, hne2, hs⟩ | ⟨b, bs, hk2, hs⟩
    · rw [hkey]
      apply compat_short_append.2
      apply ih hwn (fun p => P (k ++ p))
      · intro a b ha hb
        exact hP (k ++ a) b ha (by simpa [List.append_assoc] using hb)
      · intro p hp
        exact hdom (k ++ p) (by simpa using hp)
      · rw [← hkey]; exact hk
    · simp [Compat, hs]
    · exfalso
      obtain ⟨p, hp⟩ := exists_path hwn hne
      have h1 : P (k ++ p) := hdom (k ++ p) (by simpa using hp)
      rw [hk2, List.append_assoc] at h1
      have := hP key _ hk h1
      simp at this
  | full cs ih =>
    intro P hP hdom key hk
    cases key with
    | nil =>
      exfalso
      obtain ⟨i, _, p, _, _, hp, _⟩ := exists_two_paths hw
      have := hP [] (i :: p) hk (by simpa using hdom _ hp)
      simp at this
    | cons i r =>
      apply compat_full_cons.2
      apply ih i (hw.1 i) (fun p => P (i :: p))
      · intro a b ha hb
        exact hP (i :: a) b ha (by simpa using hb)
      · intro p hp
        exact hdom (i :: p) (by simpa using hp)
      · exact hk

/-- a well-formed node that is neither nil nor short cannot have all its paths start with one letter -/
theorem no_common_head {n : Node} (hw : WF n) (hne : n.isEmpty = false) (hns : n.isShort = false) (r0 : Nib)
    (hall : ∀ q, lookup n q ≠ none → ∃ q', q = r0 :: q') : False := by
  cases n with
  | empty => simp at hne
  | value v => obtain ⟨q', h⟩ := hall [] (by simp); simp at h
  | short _ _ => simp at hns
  | full cs =>
    obtain ⟨i, j, p, q, hij, hp, hq⟩ := exists_two_paths hw
    obtain ⟨_, h1⟩ := hall _ hp
    obtain ⟨_, h2⟩ := hall _ hq
    simp at h1 h2
    exact hij (h1.1.trans h2.1.symm)

theorem short_ne_full {k n cs} (hw1 : WF (.short k n)) (hw2 : WF (.full cs))
    (heq : ∀ key, lookup (.short k n) key = lookup (.full cs) key) : False := by
  obtain ⟨i, j, p, q, hij, hp, hq⟩ := exists_two_paths hw2
  rw [← heq] at hp hq
  obtain ⟨t1, h1⟩ := prefix_of_lookup_short hp
  obtain ⟨t2, h2⟩ := prefix_of_lookup_short hq
  cases k with
  | nil => exact hw1.1 rfl
  | cons x xs =>
    simp at h1 h2
    exact hij (h1.1.symm.trans h2.1)

/-- if one short key strictly extends the other, the tries differ on some key -/
theorem short_key_extension {k n n2 r0 rs} (_hw1 : WF (.short (k ++ r0 :: rs) n)) (hw2 : WF (.short k n2))
    (heq : ∀ key, lookup (.short (k ++ r0 :: rs) n) key = lookup (.short k n2) key) : False := by
  obtain ⟨_, hne2, hns2, hwn2, _, _⟩ := hw2
  apply no_common_head hwn2 hne2 hns2 r0
  intro q hq
  have : lookup (.short (k ++ r0 :: rs) n) (k ++ q) ≠ none := by rw [heq]; simpa using hq
  obtain ⟨t, ht⟩ := prefix_of_lookup_short this
  rw [List.append_assoc] at ht
  have := List.append_cancel_left ht
  simp at this
  exact ⟨rs ++ t, this.symm⟩

/-- **canonical form**: two well-formed tries that store the same map are the same tree -/
theorem canonical {t1 t2 : Node} (h1 : WF t1) (h2 : WF t2) (heq : ∀ key, lookup t1 key = lookup t2 key) :
    t1 = t2 := by
  induction t1 generalizing t2 with
  | empty =>
    cases he : t2.isEmpty with
    | true => exact (isEmpty_eq_true.1 he).symm
    | false =>
      obtain ⟨p, hp⟩ := exists_path h2 he
      rw [← heq] at hp; simp at hp
  | value v =>
    have := heq []
    cases t2 with
    | empty => simp at this
    | value w => simp at this; rw [this]
    | short k n => rw [lookup_short_none (by intro ⟨t, ht⟩; simp at ht; exact h2.1 ht.1)] at this; simp at this
    | full cs => simp at this
  | short k n ih =>
    cases t2 with
    | empty =>
      obtain ⟨p, hp⟩ := exists_path h1 rfl
      rw [heq] at hp; simp at hp
    | value w =>
      have := heq []
      rw [lookup_short_none (by intro ⟨t, ht⟩; simp at ht; exact h1.1 ht.1)] at this; simp at this
    | full cs => exact (short_ne_full h1 h2 heq).elim
    | short k2 n2 =>
      have hk : k = k2 := by
        rcases splitCommon_cases k k2 with ⟨r, hk, _⟩ | ⟨p, a, as, b, bs, hk, hk2, hne, _⟩ | ⟨b, bs, hk2, _⟩
        · cases r with
          | nil => simpa using hk
          | cons r0 rs =>
            subst hk
            exact (short_key_extension h1 h2 heq).elim
        · exfalso
          obtain ⟨q, hq⟩ := exists_path h1 rfl
          have hq2 := hq
          rw [heq] at hq2
          obtain ⟨t1, ht1⟩ := prefix_of_lookup_short hq
          obtain ⟨t2, ht2⟩ := prefix_of_lookup_short hq2
          rw [← ht1, hk, hk2, List.append_assoc, List.append_assoc] at ht2
          have := List.append_cancel_left ht2
          simp at this
          exact hne this.1.symm
        · subst hk2
          exact (short_key_extension h2 h1 (fun key => (heq key).symm)).elim
      subst hk
      have : n = n2 := by
        apply ih h1.2.2.2.1 h2.2.2.2.1
        intro q
        have := heq (k ++ q)
        simpa using this
      rw [this]
  | full cs ih =>
    cases t2 with
    | empty =>
      obtain ⟨p, hp⟩ := exists_path h1 rfl
      rw [heq] at hp; simp at hp
    | value w => have := heq []; simp at this
    | short k2 n2 => exact (short_ne_full h2 h1 (fun key => (heq key).symm)).elim
    | full cs2 =>
      have : cs = cs2 := by
        funext i
        apply ih i (h1.1 i) (h2.1 i)
        intro r
        have := heq (i :: r)
        simpa using this
      rw [this]

end YouVerif.C13
