/-
C13 — the standard construction `specTrie` is well-formed and stores exactly its association list
(for prefix-free keys with the terminator last); with `canonical` this makes the Go trie's root the
standard root of its content.
-/
import YouVerif.C13.Spec
import YouVerif.C13.ProofsIter
namespace YouVerif.C13

/-- no key of the list is a prefix of another (in particular keys are distinct) -/
def PFA (ps : Assoc) : Prop := ps.Pairwise fun a b => ¬ a.1 <+: b.1 ∧ ¬ b.1 <+: a.1

theorem alook_sub (i : Nib) (ps : Assoc) (r : List Nib) : alook (sub i ps) r = alook ps (i :: r) := by
  induction ps with
  | nil => simp [alook, sub]
  | cons e es ih =>
    obtain ⟨k, v⟩ := e
    unfold alook sub at *
    cases k with
    | nil => simpa [List.filterMap_cons, List.find?_cons] using ih
    | cons j t =>
      by_cases hj : j = i
      · subst hj
        by_cases ht : t = r
        · subst ht; simp [List.filterMap_cons, List.find?_cons]
        · simpa [List.filterMap_cons, List.find?_cons, ht] using ih
      · have : ¬ (j :: t = i :: r) := by intro e; simp at e; exact hj e.1
        simpa [List.filterMap_cons, List.find?_cons, hj, this] using ih

theorem mem_sub {i : Nib} {ps : Assoc} {r : List Nib} {v : Val} : (r, v) ∈ sub i ps ↔ (i :: r, v) ∈ ps := by
  unfold sub
  simp only [List.mem_filterMap]
  constructor
  · rintro ⟨⟨k, w⟩, hm, he⟩
    cases k with
    | nil => simp at he
    | cons j t =>
      simp only at he
      split at he
      · rename_i hj; simp at he; obtain ⟨rfl, rfl⟩ := he; subst hj; exact hm
      · simp at he
  · intro hm
    exact ⟨(i :: r, v), hm, by simp⟩

theorem pfa_sub (i : Nib) {ps : Assoc} (h : PFA ps) : PFA (sub i ps) := by
  unfold PFA sub
  apply List.Pairwise.filterMap _ _ h
  intro a a' hR b hb b' hb'
  obtain ⟨ka, va⟩ := a
  obtain ⟨ka', va'⟩ := a'
  cases ka with
  | nil => simp at hb
  | cons j t =>
    cases ka' with
    | nil => simp at hb'
    | cons j' t' =>
      simp only at hb hb'
      split at hb
      · rename_i hj
        split at hb'
        · rename_i hj'
          simp at hb hb'
          subst hb hb' hj hj'
          simp only at hR ⊢
          constructor
          · intro ⟨x, hx⟩; exact hR.1 ⟨x, by simp [hx]⟩
          · intro ⟨x, hx⟩; exact hR.2 ⟨x, by simp [hx]⟩
        · simp at hb'
      · simp at hb

theorem lookup_contract (cs : Nib → Node) (key : List Nib) : lookup (contract cs) key = lookup (.full cs) key := by
  unfold contract
  split
  · rename_i pos h
    obtain ⟨_, hothers⟩ := livePos_single h
    have hshort : lookup (.short [pos] (cs pos)) key = lookup (.full cs) key := by
      cases key with
      | nil => simp [lookup, splitCommon]
      | cons j r =>
        by_cases hj : j = pos
        · subst hj
          have := lookup_short_append [j] (cs j) r
          simpa using this
        · have h1 : ¬ [pos] <+: j :: r := by
            intro ⟨t, ht⟩; simp at ht; exact hj ht.1.symm
          simp [lookup_short_none h1, hothers j hj]
    split
    · rename_i k2 n2 hc
      rw [hc] at hshort
      rw [← hshort]
      exact lookup_short_short [pos] k2 n2 key
    · exact hshort
  · rfl

theorem contract_eq_collapse {cs : Nib → Node} (h : (cs 16).isShort = false) : contract cs = collapse cs := by
  unfold contract collapse
  generalize livePos cs = l
  match l with
  | [] => rfl
  | _ :: _ :: _ => rfl
  | [pos] =>
    simp only
    by_cases hp : pos = 16
    · subst hp
      simp only [if_true]
      cases hc : cs 16 with
      | short k n => rw [hc] at h; simp at h
      | _ => rfl
    · simp only [hp, if_false]
      cases cs pos <;> rfl

theorem contract_isEmpty (cs : Nib → Node) : (contract cs).isEmpty = false := by
  unfold contract
  split
  · split <;> rfl
  · rfl

theorem tabulate_eq (g : Nib → Node) : ofList (allNibs.map g) = g := by
  funext i
  have := i.isLt
  simp [ofList, allNibs, List.getD, this]

/-- unfolding `build` on a non-empty list with fuel -/
theorem build_cons (fuel : Nat) (e : List Nib × Val) (es : Assoc) :
    build (fuel + 1) (e :: es) =
      if es = [] ∧ e.1 = [] then .value e.2 else contract fun i => build fuel (sub i (e :: es)) := by
  obtain ⟨k, v⟩ := e
  cases es with
  | nil =>
    cases k with
    | nil => simp [build]
    | cons x xs => simp [build, tabulate_eq]
  | cons e2 es2 => simp [build, tabulate_eq]

theorem pfa_no_nil {e : List Nib × Val} {es : Assoc} (h : PFA (e :: es)) (hne : ¬ (es = [] ∧ e.1 = [])) :
    ∀ e' ∈ e :: es, e'.1 ≠ [] := by
  unfold PFA at h
  rw [List.pairwise_cons] at h
  obtain ⟨h1, h2⟩ := h
  intro e' he'
  rcases List.mem_cons.1 he' with rfl | hm
  · intro hk
    cases es with
    | nil => exact hne ⟨rfl, hk⟩
    | cons e2 es2 => exact (h1 e2 (by simp)).1 (by rw [hk]; exact List.nil_prefix)
  · intro hk
    exact (h1 e' hm).2 (by rw [hk]; exact List.nil_prefix)

theorem alook_nil_none {ps : Assoc} (h : ∀ e ∈ ps, e.1 ≠ []) : alook ps [] = none := by
  unfold alook
  cases hf : ps.find? (fun e => e.1 = []) with
  | none => rfl
  | some e =>
    have hm := List.mem_of_find?_eq_some hf
    have hp := List.find?_some hf
    simp at hp
    exact absurd hp (h e hm)

/-- **the construction stores exactly its association list** -/
theorem lookup_build : ∀ (fuel : Nat) (ps : Assoc), PFA ps → (∀ e ∈ ps, e.1.length < fuel) →
    ∀ key, lookup (build fuel ps) key = alook ps key := by
  intro fuel
  induction fuel with
  | zero =>
    intro ps _ hlen key
    cases ps with
    | nil => simp [build, alook]
    | cons e es => exact absurd (hlen e (by simp)) (by omega)
  | succ fuel ih =>
    intro ps hpf hlen key
    cases ps with
    | nil => simp [build, alook]
    | cons e es =>
      rw [build_cons]
      split
      · rename_i h
        obtain ⟨rfl, hk⟩ := h
        obtain ⟨k, v⟩ := e
        simp only at hk; subst hk
        cases key <;> simp [alook]
      · rename_i h
        have hnn := pfa_no_nil hpf h
        rw [lookup_contract]
        cases key with
        | nil => rw [lookup_full_nil, alook_nil_none hnn]
        | cons i r =>
          rw [lookup_full_cons, ih (sub i (e :: es)) (pfa_sub i hpf) _ r, alook_sub]
          intro e' he'
          obtain ⟨r', v'⟩ := e'
          have := hlen _ (mem_sub.1 he')
          simp at this ⊢; omega

theorem build_isEmpty : ∀ (fuel : Nat) (ps : Assoc), ps ≠ [] → (∀ e ∈ ps, e.1.length < fuel) →
    (build fuel ps).isEmpty = false := by
  intro fuel ps hne hlen
  cases ps with
  | nil => exact absurd rfl hne
  | cons e es =>
    cases fuel with
    | zero => exact absurd (hlen e (by simp)) (by omega)
    | succ f =>
      rw [build_cons]
      split
      · rfl
      · exact contract_isEmpty _

theorem all_nil_shape {qs : Assoc} (h : ∀ e ∈ qs, e.1 = []) (hpf : PFA qs) : qs = [] ∨ ∃ v, qs = [([], v)] := by
  cases qs with
  | nil => left; rfl
  | cons e es =>
    right
    obtain ⟨k, v⟩ := e
    have hk : k = [] := h (k, v) (by simp)
    subst hk
    cases es with
    | nil => exact ⟨v, rfl⟩
    | cons e2 es2 =>
      unfold PFA at hpf
      rw [List.pairwise_cons] at hpf
      exact absurd List.nil_prefix (hpf.1 e2 (by simp)).1

/-- **the construction is well-formed** -/
theorem wf_build : ∀ (fuel : Nat) (ps : Assoc), PFA ps → (∀ e ∈ ps, TermLast e.1) → (∀ e ∈ ps, e.1.length < fuel) →
    WF (build fuel ps) := by
  intro fuel
  induction fuel with
  | zero =>
    intro ps _ _ hlen
    cases ps with
    | nil => simp [build, WF]
    | cons e es => simp [build, WF]
  | succ fuel ih =>
    intro ps hpf hterm hlen
    cases ps with
    | nil => simp [build, WF]
    | cons e es =>
      rw [build_cons]
      split
      · simp [WF]
      · rename_i h
        have hnn := pfa_no_nil hpf h
        have hlen' : ∀ i, ∀ e' ∈ sub i (e :: es), e'.1.length < fuel := by
          intro i e' he'
          obtain ⟨r', v'⟩ := e'
          have := hlen _ (mem_sub.1 he')
          simp at this ⊢; omega
        have hterm' : ∀ i, ∀ e' ∈ sub i (e :: es), TermLast e'.1 := by
          intro i e' he'
          obtain ⟨r', v'⟩ := e'
          exact termLast_suffix (a := [i]) (hterm _ (mem_sub.1 he'))
        -- slot 16 holds nothing or a value: behind the terminator every key is exhausted
        have h16 : (build fuel (sub 16 (e :: es))).isEmpty = true ∨ (build fuel (sub 16 (e :: es))).isValue = true := by
          have hall : ∀ e' ∈ sub 16 (e :: es), e'.1 = [] := by
            intro e' he'
            obtain ⟨r', v'⟩ := e'
            exact termLast_cons16 (hterm _ (mem_sub.1 he'))
          rcases all_nil_shape hall (pfa_sub 16 hpf) with h0 | ⟨v, hv⟩
          · left; rw [h0]; cases fuel <;> simp [build]
          · rw [hv]
            cases fuel with
            | zero => left; simp [build]
            | succ f => right; simp [build]
        have hns : (build fuel (sub 16 (e :: es))).isShort = false := by
          rcases h16 with h | h
          · rw [isEmpty_eq_true.1 h]; rfl
          · cases hb : build fuel (sub 16 (e :: es)) <;> simp_all
        rw [contract_eq_collapse hns]
        apply wf_collapse
        · intro i; exact ih _ (pfa_sub i hpf) (hterm' i) (hlen' i)
        · obtain ⟨k, v⟩ := e
          cases k with
          | nil => exact absurd rfl (hnn ([], v) (by simp))
          | cons j r =>
            refine ⟨j, build_isEmpty fuel _ ?_ (hlen' j)⟩
            intro he
            have : (r, v) ∈ sub j ((j :: r, v) :: es) := mem_sub.2 (by simp)
            rw [he] at this; simp at this
        · exact h16

theorem length_lt_maxLen {ps : Assoc} {e : List Nib × Val} (h : e ∈ ps) : e.1.length < maxLen ps + 1 := by
  unfold maxLen
  induction ps with
  | nil => simp at h
  | cons a as ih =>
    simp only [List.map_cons, List.foldr_cons]
    rcases List.mem_cons.1 h with rfl | h
    · have := Nat.le_max_left e.1.length ((as.map fun e => e.1.length).foldr max 0); omega
    · have := ih h
      have := Nat.le_max_right a.1.length ((as.map fun e => e.1.length).foldr max 0); omega

theorem specTrie_spec {ps : Assoc} (hpf : PFA ps) (hterm : ∀ e ∈ ps, TermLast e.1) :
    WF (specTrie ps) ∧ ∀ key, lookup (specTrie ps) key = alook ps key :=
  ⟨wf_build _ ps hpf hterm (fun _ he => length_lt_maxLen he),
   lookup_build _ ps hpf (fun _ he => length_lt_maxLen he)⟩


/-! ### the leaves of a trie are such an association list -/

theorem alook_leaves (t : Node) (key : List Nib) : alook (leaves t) key = lookup t key := by
  unfold alook
  cases hf : (leaves t).find? (fun e => e.1 = key) with
  | some e =>
    have hm := List.mem_of_find?_eq_some hf
    have hp := List.find?_some hf
    simp at hp
    obtain ⟨k, v⟩ := e
    simp only at hp; subst hp
    simp [(mem_leaves t k v).1 hm]
  | none =>
    cases hl : lookup t key with
    | none => rfl
    | some v =>
      have hm := (mem_leaves t key v).2 hl
      rw [List.find?_eq_none] at hf
      have := hf (key, v) hm
      simp at this

theorem pfa_leaves {t : Node} (hi : Inv t) : PFA (leaves t) := by
  unfold PFA
  apply (leaves_sorted t).imp_of_mem
  intro a b ha hb hlt
  obtain ⟨ka, va⟩ := a
  obtain ⟨kb, vb⟩ := b
  have hka : IsHexKey ka := hi.2 ka (by rw [(mem_leaves t ka va).1 ha]; simp)
  have hkb : IsHexKey kb := hi.2 kb (by rw [(mem_leaves t kb vb).1 hb]; simp)
  simp only at hlt ⊢
  constructor
  · intro ⟨r, hr⟩
    have : r = [] := prefixFree_hexKey ka r hka (by rw [hr]; exact hkb)
    subst this
    simp at hr; subst hr
    exact List.lt_irrefl _ hlt
  · intro ⟨r, hr⟩
    have : r = [] := prefixFree_hexKey kb r hkb (by rw [hr]; exact hka)
    subst this
    simp at hr; subst hr
    exact List.lt_irrefl _ hlt

end YouVerif.C13
