/-
C13 — iteration: the leaves the iterator yields are exactly the stored pairs, strictly ascending in
hex order (terminator last), which is ascending byte-key order whenever no key is a prefix of another.
-/
import YouVerif.C13.ProofsApi
namespace YouVerif.C13

theorem mem_leaves (t : Node) : ∀ p v, (p, v) ∈ leaves t ↔ lookup t p = some v := by
  induction t with
  | empty => simp [leaves]
  | value w =>
    intro p v
    cases p <;> simp [leaves, eq_comm]
  | short k n ih =>
    intro p v
    simp only [leaves, List.mem_map, Prod.mk.injEq, Prod.exists]
    constructor
    · rintro ⟨q, w, hm, rfl, rfl⟩
      rw [lookup_short_append]; exact (ih q w).1 hm
    · intro h
      obtain ⟨r, rfl⟩ := prefix_of_lookup_short (by rw [h]; simp)
      rw [lookup_short_append] at h
      exact ⟨r, v, (ih r v).2 h, rfl, rfl⟩
  | full cs ih =>
    intro p v
    simp only [leaves, List.mem_flatMap, List.mem_map, Prod.mk.injEq, Prod.exists]
    constructor
    · rintro ⟨i, _, q, w, hm, rfl, rfl⟩
      rw [lookup_full_cons]; exact (ih i q w).1 hm
    · intro h
      cases p with
      | nil => simp at h
      | cons i q =>
        rw [lookup_full_cons] at h
        exact ⟨i, mem_allNibs i, q, v, (ih i q v).2 h, rfl, rfl⟩

theorem append_lt_append_left (k : List Nib) {a b : List Nib} (h : a < b) : k ++ a < k ++ b := by
  induction k with
  | nil => simpa
  | cons x xs ih => simpa using ih

/-- leaves come out strictly ascending in hex order -/
theorem leaves_sorted (t : Node) : (leaves t).Pairwise (fun a b => a.1 < b.1) := by
  induction t with
  | empty => simp [leaves]
  | value w => simp [leaves]
  | short k n ih =>
    simp only [leaves, List.pairwise_map]
    exact ih.imp (fun h => append_lt_append_left k h)
  | full cs ih =>
    simp only [leaves, List.pairwise_flatMap, List.pairwise_map]
    refine ⟨fun i _ => (ih i).imp (fun h => by simpa using h), ?_⟩
    refine allNibs_sorted.imp ?_
    intro i j hij x hx y hy
    simp only [List.mem_map] at hx hy
    obtain ⟨x', _, rfl⟩ := hx
    obtain ⟨y', _, rfl⟩ := hy
    exact List.cons_lt_cons_iff.2 (Or.inl hij)

/-! ### hex order versus byte order -/

theorem byte_lt_of_nibs {x y : UInt8} (_hne : x ≠ y)
    (h : nibHi x < nibHi y ∨ nibHi x = nibHi y ∧ nibLo x < nibLo y) : x < y := by
  rw [UInt8.lt_iff_toNat_lt]
  rcases h with h | ⟨h1, h2⟩
  · have : (nibHi x).val < (nibHi y).val := h
    simp [nibHi] at this
    omega
  · have e1 := congrArg Fin.val h1
    have : (nibLo x).val < (nibLo y).val := h2
    simp [nibHi, nibLo] at e1 this
    omega

/-- for keys neither of which is a prefix of the other, hex order is byte order -/
theorem bytes_lt_of_hexKey_lt {a b : List UInt8} (h1 : ¬ a <+: b) (h2 : ¬ b <+: a)
    (h : hexKey a < hexKey b) : a < b := by
  induction a generalizing b with
  | nil => exact absurd (List.nil_prefix) h1
  | cons x xs ih =>
    cases b with
    | nil => exact absurd (List.nil_prefix) h2
    | cons y ys =>
      by_cases hxy : x = y
      · subst hxy
        have h1' : ¬ xs <+: ys := fun ⟨t, ht⟩ => h1 ⟨t, by simp [ht]⟩
        have h2' : ¬ ys <+: xs := fun ⟨t, ht⟩ => h2 ⟨t, by simp [ht]⟩
        have : hexKey xs < hexKey ys := by
          simpa [hexKey, hexNibs] using h
        exact List.cons_lt_cons_iff.2 (Or.inr ⟨rfl, ih h1' h2' this⟩)
      · apply List.cons_lt_cons_iff.2
        left
        apply byte_lt_of_nibs hxy
        simp only [hexKey, hexNibs, List.cons_append] at h
        rcases List.cons_lt_cons_iff.1 h with h | ⟨e, h⟩
        · exact Or.inl h
        · rcases List.cons_lt_cons_iff.1 h with h | ⟨e2, _⟩
          · exact Or.inr ⟨e, h⟩
          · exact absurd (byte_of_nibs e e2) hxy

end YouVerif.C13
