/-
C13 — helper lemmas about the trie model: specification-level lookup, prefix compatibility,
well-formedness, and the basic facts about `splitCommon`.
-/
import YouVerif.C13.Model
namespace YouVerif.C13

/-! ### splitCommon -/

theorem splitCommon_spec (a b : List Nib) :
    a = (splitCommon a b).1 ++ (splitCommon a b).2.1 ∧ b = (splitCommon a b).1 ++ (splitCommon a b).2.2 := by
  induction a generalizing b with
  | nil => simp [splitCommon]
  | cons x xs ih =>
    cases b with
    | nil => simp [splitCommon]
    | cons y ys =>
      simp only [splitCommon]
      split
      · rename_i h; subst h
        have := ih ys
        simp only [List.cons_append, List.cons.injEq, true_and]
        exact this
      · simp

theorem splitCommon_eq {a b p a' b' : List Nib} (h : splitCommon a b = (p, a', b')) :
    a = p ++ a' ∧ b = p ++ b' := by
  have := splitCommon_spec a b
  rw [h] at this
  exact this

theorem splitCommon_heads {a b p : List Nib} {x y : Nib} {xs ys : List Nib}
    (h : splitCommon a b = (p, x :: xs, y :: ys)) : x ≠ y := by
  induction a generalizing b p with
  | nil => simp [splitCommon] at h
  | cons a0 as ih =>
    cases b with
    | nil => simp [splitCommon] at h
    | cons b0 bs =>
      simp only [splitCommon] at h
      split at h
      · simp only [Prod.mk.injEq] at h
        obtain ⟨_, h2, h3⟩ := h
        exact ih (p := (splitCommon as bs).1) (by rw [← h2, ← h3])
      · simp only [Prod.mk.injEq, List.cons.injEq] at h
        obtain ⟨_, ⟨hx, _⟩, ⟨hy, _⟩⟩ := h
        subst hx hy; assumption

theorem splitCommon_append (k r : List Nib) : splitCommon (k ++ r) k = (k, r, []) := by
  induction k with
  | nil => cases r <;> simp [splitCommon]
  | cons x xs ih => simp [splitCommon, ih]

theorem splitCommon_diverge (p : List Nib) {x y : Nib} (xs ys : List Nib) (h : x ≠ y) :
    splitCommon (p ++ x :: xs) (p ++ y :: ys) = (p, x :: xs, y :: ys) := by
  induction p with
  | nil => simp [splitCommon, h]
  | cons a as ih => simp [splitCommon, ih]

theorem splitCommon_short (p : List Nib) (y : Nib) (ys : List Nib) :
    splitCommon p (p ++ y :: ys) = (p, [], y :: ys) := by
  induction p with
  | nil => simp [splitCommon]
  | cons a as ih => simp [splitCommon, ih]

/-- the three ways a key can relate to a short node's key -/
theorem splitCommon_cases (key k : List Nib) :
    (∃ r, key = k ++ r ∧ splitCommon key k = (k, r, [])) ∨
    (∃ p x xs y ys, key = p ++ x :: xs ∧ k = p ++ y :: ys ∧ x ≠ y ∧ splitCommon key k = (p, x :: xs, y :: ys)) ∨
    (∃ y ys, k = key ++ y :: ys ∧ splitCommon key k = (key, [], y :: ys)) := by
  rcases h : splitCommon key k with ⟨p, a', b'⟩
  obtain ⟨h1, h2⟩ := splitCommon_eq h
  cases b' with
  | nil =>
    left
    simp at h2
    subst h2
    exact ⟨a', h1, rfl⟩
  | cons y ys =>
    cases a' with
    | nil =>
      right; right
      simp at h1
      subst h1
      exact ⟨y, ys, h2, rfl⟩
    | cons x xs =>
      right; left
      have hne := splitCommon_heads h
      exact ⟨p, x, xs, y, ys, h1, h2, hne, rfl⟩

/-! ### specification-level lookup: a value answers only the exhausted key -/

def lookup : Node → List Nib → Option Val
  | .empty, _ => none
  | .value v, [] => some v
  | .value _, _ :: _ => none
  | .short k n, key =>
    match splitCommon key k with
    | (_, rest, []) => lookup n rest
    | _ => none
  | .full _, [] => none
  | .full cs, i :: rest => lookup (cs i) rest

@[simp] theorem lookup_empty (key) : lookup .empty key = none := by simp [lookup]
@[simp] theorem lookup_value_nil (v) : lookup (.value v) [] = some v := by simp [lookup]
@[simp] theorem lookup_value_cons (v x xs) : lookup (.value v) (x :: xs) = none := by simp [lookup]
@[simp] theorem lookup_full_nil (cs) : lookup (.full cs) [] = none := by simp [lookup]
@[simp] theorem lookup_full_cons (cs i r) : lookup (.full cs) (i :: r) = lookup (cs i) r := by simp [lookup]

theorem lookup_value (v key) : lookup (.value v) key = if key = [] then some v else none := by
  cases key <;> simp

@[simp] theorem lookup_short_append (k n r) : lookup (.short k n) (k ++ r) = lookup n r := by
  simp [lookup, splitCommon_append]

theorem lookup_short_none {k n key} (h : ¬ k <+: key) : lookup (.short k n) key = none := by
  rcases splitCommon_cases key k with ⟨r, hk, _⟩ | ⟨p, x, xs, y, ys, _, _, _, hs⟩ | ⟨y, ys, _, hs⟩
  · exact absurd ⟨r, hk.symm⟩ h
  · simp [lookup, hs]
  · simp [lookup, hs]

theorem lookup_short (k n key) :
    lookup (.short k n) key = if k <+: key then lookup n (key.drop k.length) else none := by
  by_cases h : k <+: key
  · obtain ⟨r, rfl⟩ := h
    simp
  · simp [h, lookup_short_none h]

theorem lookup_mkShort (k n key) : lookup (mkShort k n) key = lookup (.short k n) key := by
  cases k with
  | nil =>
    have : lookup (.short [] n) ([] ++ key) = lookup n key := lookup_short_append [] n key
    simpa [mkShort] using this.symm
  | cons x xs => simp [mkShort]

theorem lookup_short_short (k k2 n2 key) :
    lookup (.short (k ++ k2) n2) key = lookup (.short k (.short k2 n2)) key := by
  by_cases h : k <+: key
  · obtain ⟨r, rfl⟩ := h
    rw [lookup_short_append]
    by_cases h2 : k2 <+: r
    · obtain ⟨r2, rfl⟩ := h2
      rw [← List.append_assoc, lookup_short_append, lookup_short_append]
    · rw [lookup_short_none h2, lookup_short_none]
      intro ⟨t, ht⟩
      apply h2
      rw [List.append_assoc] at ht
      exact ⟨t, List.append_cancel_left ht⟩
  · rw [lookup_short_none h, lookup_short_none]
    intro ⟨t, ht⟩
    apply h
    exact ⟨k2 ++ t, by rw [← ht, List.append_assoc]⟩

end YouVerif.C13
