/-
C13 — helper lemmas about the trie model (generic in the 17-letter alphabet).
-/
import YouVerif.C13.Model
namespace YouVerif.C13

theorem splitCommon_spec (a b : List Nib) :
    a = (splitCommon a b).1 ++ (splitCommon a b).2.1 ∧ b = (splitCommon a b).1 ++ (splitCommon a b).2.2 := by
  induction a generalizing b with
  | nil => simp [splitCommon]
  | cons x xs ih =>
    cases b with
    | nil => simp [splitCommon]
    | cons y ys =>
      simp only [splitCommon]
      split
      · rename_i h; subst h
        have := ih ys
        simp only [List.cons_append, List.cons.injEq, true_and]
        exact this
      · simp

end YouVerif.C13
