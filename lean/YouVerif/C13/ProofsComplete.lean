/-
C13 — completeness of Prove/VerifyProof, modulo the node codec: if decoding the encoding of each
stored node on the path gives a node that steps like the original (`Codec`), the honest proof verifies
against the root hash to exactly `lookup`, or a hash collision is exhibited.
-/
import YouVerif.C13.ProofsProof
import YouVerif.C13.ProofsApi
namespace YouVerif.C13
open YouVerif.Common

def answer : Option Val → VRes
  | none => .absent
  | some v => .value v

/-- the codec assumption for one stored node: decode ∘ encode yields something that steps alike -/
def Codec (H : Hash) (n : Node) : Prop :=
  ∃ pn, decodeNode (decodeFuel (encBytes H n)) (encBytes H n) = .ok pn ∧
    ∀ key, pget ((encBytes H n).length + 2) pn key = nstep H n key

theorem pathNodes_length {n : Node} (hw : WF n) (key : List Nib) : (pathNodes n key).length ≤ key.length := by
  induction n generalizing key with
  | empty => cases key <;> simp [pathNodes]
  | value v => cases key <;> simp [pathNodes]
  | short k c ih =>
    cases key with
    | nil => simp [pathNodes]
    | cons x xs =>
      simp only [pathNodes]
      rcases splitCommon_cases (x :: xs) k with ⟨r, hkey, hs⟩ | ⟨p, a, as, b, bs, hkey, hk2, hne2, hs⟩ | ⟨b, bs, hk2, hs⟩
      · simp only [hs, List.length_cons]
        have h1 := ih hw.2.2.2.1 r
        have h2 := congrArg List.length hkey
        have h3 : k.length ≠ 0 := fun e => hw.1 (List.eq_nil_of_length_eq_zero e)
        simp at h2
        omega
      · simp [hs]
      · simp [hs]
  | full cs ih =>
    cases key with
    | nil => simp [pathNodes]
    | cons i r =>
      simp only [pathNodes, List.length_cons]
      have := ih i (hw.1 i) r
      omega

/-- what a step means: an answer agrees with `lookup`; a continuation names a hashed descendant that
lies further down the path collected by `Prove` -/
def StepOK (H : Hash) (n : Node) (key : List Nib) : Step → Prop
  | .absent => lookup n key = none
  | .found v => lookup n key = some v
  | .crash => False
  | .next r h => ∃ c pre, isHashed H c = true ∧ h = H (encBytes H c) ∧ lookup n key = lookup c r ∧
      Compat c r ∧ WF c ∧ r ≠ [] ∧ pre ≠ [] ∧ pathNodes n key = pre ++ pathNodes c r

theorem stepOK_lift {H : Hash} {n c : Node} {key r : List Nib} {n0 : Node} {s : Step}
    (hl : lookup n key = lookup c r) (hp : pathNodes n key = n0 :: pathNodes c r)
    (h : StepOK H c r s) : StepOK H n key s := by
  cases s with
  | absent => exact hl.trans h
  | found v => exact hl.trans h
  | crash => exact h
  | next r' h' =>
    obtain ⟨c', pre, h1, h2, h3, h4, h5, h6, _, h8⟩ := h
    exact ⟨c', n0 :: pre, h1, h2, hl.trans h3, h4, h5, h6, by simp, by rw [hp, h8]; simp⟩

theorem nstep_spec (H : Hash) {n : Node} (hw : WF n) {key : List Nib} (hk : key ≠ []) (hc : Compat n key) :
    StepOK H n key (nstep H n key) := by
  induction n generalizing key with
  | empty => simp [nstep, StepOK]
  | value v => have : key = [] := hc; exact absurd this hk
  | short k c ih =>
    obtain ⟨hkne, hne, hns, hwc, _, _⟩ := hw
    cases key with
    | nil => exact absurd rfl hk
    | cons x xs =>
      rcases splitCommon_cases (x :: xs) k with ⟨r, hkey, hs⟩ | ⟨p, a, as, b, bs, hkey, hk2, hne2, hs⟩ | ⟨b, bs, hk2, hs⟩
      · have hc' : Compat c r := by rw [hkey] at hc; exact compat_short_append.1 hc
        have hl : lookup (.short k c) (x :: xs) = lookup c r := by rw [hkey]; simp
        have hp : pathNodes (.short k c) (x :: xs) = .short k c :: pathNodes c r := by simp [pathNodes, hs]
        simp only [nstep, hs]
        -- is the child a value (then r = [] and it answers), or a full node (then r ≠ [])?
        cases c with
        | empty => simp at hne
        | short _ _ => simp at hns
        | value v =>
          have : r = [] := hc'
          subst this
          simp [isHashed, enc, nstep, StepOK, hl]
        | full cs =>
          have hr : r ≠ [] := by intro e; subst e; simp [Compat] at hc'
          by_cases hh : isHashed H (.full cs) = true
          · rw [if_pos hh]
            exact ⟨.full cs, [.short k (.full cs)], hh, rfl, hl, hc', hwc, hr, by simp, by rw [hp]; simp⟩
          · rw [if_neg hh]
            exact stepOK_lift hl hp (ih hwc hr hc')
      · simp [nstep, hs, lookup, StepOK]
      · simp [Compat, hs] at hc
  | full cs ih =>
    cases key with
    | nil => exact absurd rfl hk
    | cons i r =>
      have hc' : Compat (cs i) r := compat_full_cons.1 hc
      have hwi := hw.1 i
      have hl : lookup (.full cs) (i :: r) = lookup (cs i) r := by simp
      have hp : pathNodes (.full cs) (i :: r) = .full cs :: pathNodes (cs i) r := by simp [pathNodes]
      simp only [nstep]
      by_cases hh : isHashed H (cs i) = true
      · rw [if_pos hh]
        have hr : r ≠ [] := by
          intro e; subst e
          cases hci : cs i with
          | empty => rw [hci] at hh; simp [isHashed, enc] at hh
          | value v => rw [hci] at hh; simp [isHashed, enc] at hh
          | short k c => rw [hci] at hc' hwi; exact compat_short_nil hwi.1 hc'
          | full cs2 => rw [hci] at hc'; simp [Compat] at hc'
        exact ⟨cs i, [.full cs], hh, rfl, hl, hc', hwi, hr, by simp, by rw [hp]; simp⟩
      · rw [if_neg hh]
        by_cases hr : r = []
        · subst hr
          -- key exhausted: the child is nil or a value (anything else is incompatible)
          cases hci : cs i with
          | empty => simp [nstep, StepOK, hci]
          | value v => simp [nstep, StepOK, hci]
          | short k c => rw [hci] at hc' hwi; exact absurd hc' (compat_short_nil hwi.1)
          | full cs2 => rw [hci] at hc'; simp [Compat] at hc'
        · exact stepOK_lift hl hp (ih i hwi hr hc')


theorem dbGet_keyed_mem {H : Hash} {proof : List (List UInt8)} {b : List UInt8} (hb : b ∈ proof) :
    ∃ buf, dbGet (keyed H proof) (H b) = some buf ∧ H buf = H b := by
  have hsome : ((keyed H proof).find? (fun e => e.1 == H b)).isSome := by
    rw [List.find?_isSome]
    exact ⟨(H b, b), by simp only [keyed, List.mem_map]; exact ⟨b, hb, rfl⟩, by simp⟩
  cases hf : (keyed H proof).find? (fun e => e.1 == H b) with
  | none => rw [hf] at hsome; simp at hsome
  | some e =>
    have hg : dbGet (keyed H proof) (H b) = some e.2 := by simp [dbGet, hf]
    exact ⟨e.2, hg, dbGet_keyed hg⟩

theorem isHashed_len {H : Hash} {m : Node} (h : isHashed H m = true) : 32 ≤ (encBytes H m).length := by
  unfold isHashed at h
  unfold encBytes
  split at h
  · simp at h
  · rename_i l he
    rw [he]; simpa using h

theorem pathNodes_head {H : Hash} {c : Node} (h : isHashed H c = true) (x : Nib) (xs : List Nib) :
    ∃ tl, pathNodes c (x :: xs) = c :: tl := by
  cases c with
  | empty => simp [isHashed, enc] at h
  | value v => simp [isHashed, enc] at h
  | short k n => simp only [pathNodes]; exact ⟨_, rfl⟩
  | full cs => simp only [pathNodes]; exact ⟨_, rfl⟩

theorem mem_proofElems {H : Hash} {m : Node} {l : List Node} (i : Nat) (hm : m ∈ l)
    (hl : 32 ≤ (encBytes H m).length) : encBytes H m ∈ proofElems H i l := by
  induction l generalizing i with
  | nil => simp at hm
  | cons a as ih =>
    simp only [proofElems]
    rcases List.mem_cons.1 hm with rfl | h
    · simp [hl]
    · split
      · exact List.mem_cons_of_mem _ (ih (i + 1) h)
      · exact ih (i + 1) h

/-- the walk of `VerifyProof` over an honest proof store, node by node -/
theorem verify_walk (H : Hash) (proof : List (List UInt8)) :
    ∀ (len : Nat) (n : Node) (key : List Nib) (fuel : Nat),
      (pathNodes n key).length ≤ len → WF n → key ≠ [] → Compat n key →
      encBytes H n ∈ proof → Codec H n →
      (∀ m ∈ pathNodes n key, isHashed H m = true → encBytes H m ∈ proof ∧ Codec H m) →
      len < fuel →
      verifyRaw fuel (keyed H proof) (H (encBytes H n)) key = answer (lookup n key) ∨
        ∃ x y : List UInt8, x ≠ y ∧ H x = H y := by
  intro len
  induction len with
  | zero =>
    intro n key fuel hlen hw hk hc hb hcod hall hf
    cases fuel with
    | zero => omega
    | succ f =>
      obtain ⟨buf, hg, hh⟩ := dbGet_keyed_mem (H := H) hb
      by_cases hbuf : buf = encBytes H n
      · subst hbuf
        obtain ⟨pn, hdec, hstep⟩ := hcod
        have hs := nstep_spec H hw hk hc
        unfold verifyRaw
        simp only [hg, hdec, hstep]
        cases hst : nstep H n key with
        | absent => rw [hst] at hs; left; simp [StepOK] at hs; simp [hs, answer]
        | found v => rw [hst] at hs; left; simp [StepOK] at hs; simp [hs, answer]
        | crash => rw [hst] at hs; exact hs.elim
        | next r h =>
          rw [hst] at hs
          obtain ⟨c, pre, _, _, _, _, _, _, hpre, hpath⟩ := hs
          rw [hpath] at hlen
          cases pre with
          | nil => exact absurd rfl hpre
          | cons a as => simp at hlen
      · right; exact ⟨buf, _, hbuf, hh⟩
  | succ len ih =>
    intro n key fuel hlen hw hk hc hb hcod hall hf
    cases fuel with
    | zero => omega
    | succ f =>
      obtain ⟨buf, hg, hh⟩ := dbGet_keyed_mem (H := H) hb
      by_cases hbuf : buf = encBytes H n
      · subst hbuf
        obtain ⟨pn, hdec, hstep⟩ := hcod
        have hs := nstep_spec H hw hk hc
        unfold verifyRaw
        simp only [hg, hdec, hstep]
        cases hst : nstep H n key with
        | absent => rw [hst] at hs; left; simp [StepOK] at hs; simp [hs, answer]
        | found v => rw [hst] at hs; left; simp [StepOK] at hs; simp [hs, answer]
        | crash => rw [hst] at hs; exact hs.elim
        | next r h =>
          rw [hst] at hs
          obtain ⟨c, pre, hch, hhash, hlook, hcc, hwc, hr, hpre, hpath⟩ := hs
          simp only
          subst hhash
          rw [hlook]
          have hsub : ∀ m ∈ pathNodes c r, m ∈ pathNodes n key := by
            intro m hm; rw [hpath]; exact List.mem_append_right _ hm
          have hcmem : c ∈ pathNodes c r := by
            cases r with
            | nil => exact absurd rfl hr
            | cons x xs =>
              obtain ⟨tl, htl⟩ := pathNodes_head hch x xs
              rw [htl]; simp
          obtain ⟨hcb, hccod⟩ := hall c (hsub c hcmem) hch
          apply ih c r f _ hwc hr hcc hcb hccod (fun m hm hmh => hall m (hsub m hm) hmh) (by omega)
          rw [hpath] at hlen
          cases pre with
          | nil => exact absurd rfl hpre
          | cons a as => simp at hlen; omega
      · right; exact ⟨buf, _, hbuf, hh⟩

theorem inv_root_shape {t : Node} (hinv : Inv t) (hne : t.isEmpty = false) : t.isValue = false := by
  cases t with
  | value v =>
    obtain ⟨bs, hbs⟩ := hinv.2 [] (by simp)
    simp [hexKey] at hbs
  | _ => simp

end YouVerif.C13
