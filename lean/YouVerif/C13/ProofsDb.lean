/-
C13 — facts about the trie.Database model: nothing but `Dereference` ever makes a node unavailable,
the disk only grows, and `Commit(root)` leaves everything cached below `root` on disk.
-/
import YouVerif.C13.ModelDb
namespace YouVerif.C13.Db

/-- a node can be read back: it is cached or on disk (`Database.node`) -/
def avail (s : State) (h : H32) : Prop := (∃ n ∈ s.mem, n.hash = h) ∨ h ∈ s.disk

theorem mem_addDisk {d : List H32} {h x : H32} : x ∈ addDisk d h ↔ x ∈ d ∨ x = h := by
  unfold addDisk
  split
  · rename_i hc
    have : h ∈ d := by simpa using hc
    constructor
    · exact Or.inl
    · rintro (h1 | rfl) <;> assumption
  · simp

theorem mem_foldl_addDisk {l : List H32} {d : List H32} {x : H32} :
    x ∈ l.foldl addDisk d ↔ x ∈ d ∨ x ∈ l := by
  induction l generalizing d with
  | nil => simp
  | cons a as ih => simp [ih, mem_addDisk, or_assoc, eq_comm]

theorem mem_foldl_addDisk_nodes {l : List CNode} {d : List H32} {x : H32} :
    x ∈ l.foldl (fun d n => addDisk d n.hash) d ↔ x ∈ d ∨ ∃ n ∈ l, n.hash = x := by
  induction l generalizing d with
  | nil => simp
  | cons a as ih => simp [ih, mem_addDisk, or_assoc, eq_comm]

theorem bump_hashes (m : List CNode) (k : H32) (h : H32) :
    (∃ n ∈ bump m k, n.hash = h) ↔ ∃ n ∈ m, n.hash = h := by
  unfold bump
  constructor
  · rintro ⟨n, hn, rfl⟩
    simp only [List.mem_map] at hn
    obtain ⟨n0, hn0, rfl⟩ := hn
    exact ⟨n0, hn0, by split <;> rfl⟩
  · rintro ⟨n, hn, rfl⟩
    refine ⟨_, List.mem_map.2 ⟨n, hn, rfl⟩, ?_⟩
    split <;> rfl

theorem foldl_bump_hashes (kids : List H32) (m : List CNode) (h : H32) :
    (∃ n ∈ kids.foldl bump m, n.hash = h) ↔ ∃ n ∈ m, n.hash = h := by
  induction kids generalizing m with
  | nil => simp
  | cons k ks ih => simp only [List.foldl_cons]; rw [ih, bump_hashes]

theorem avail_insert {s : State} {h : H32} (x : H32) (size : Nat) (kids : List H32) (ha : avail s h) :
    avail (insert s x size kids) h := by
  unfold insert
  split
  · exact ha
  · rcases ha with ⟨n, hn, rfl⟩ | hd
    · left
      obtain ⟨n', hn', he⟩ := (foldl_bump_hashes kids s.mem n.hash).2 ⟨n, hn, rfl⟩
      exact ⟨n', by simp [hn'], he⟩
    · right; exact hd

theorem avail_reference {s : State} {h : H32} (x : H32) (ha : avail s h) : avail (reference s x) h := by
  unfold reference
  split
  · rcases ha with hm | hd
    · left; exact (bump_hashes s.mem x h).2 hm
    · right; exact hd
  · exact ha

theorem avail_cap {s : State} {h : H32} (limit : Nat) (ha : avail s h) : avail (cap s limit) h := by
  unfold cap
  simp only
  rcases ha with ⟨n, hn, rfl⟩ | hd
  · rw [← List.take_append_drop (capCount s.mem (memSize s.mem + s.mem.length * 64) limit) s.mem] at hn
    rcases List.mem_append.1 hn with h1 | h2
    · right; exact mem_foldl_addDisk_nodes.2 (Or.inr ⟨n, h1, rfl⟩)
    · left; exact ⟨n, h2, rfl⟩
  · right; exact mem_foldl_addDisk_nodes.2 (Or.inl hd)

theorem avail_commit {s : State} {h : H32} (root : H32) (ha : avail s h) : avail (commit s root) h := by
  unfold commit
  simp only
  rcases ha with ⟨n, hn, rfl⟩ | hd
  · by_cases hr : (reach (s.mem.length + 1) s.mem root []).contains n.hash = true
    · right; exact mem_foldl_addDisk.2 (Or.inr (by simpa using hr))
    · left; exact ⟨n, by simp at hr; simp [List.mem_filter, hn, hr], rfl⟩
  · right; exact mem_foldl_addDisk.2 (Or.inl hd)

theorem disk_dereference (s : State) (x : H32) : (dereference s x).disk = s.disk := rfl

/-- everything `commit` decided to write is on disk afterwards -/
theorem commit_writes (s : State) (root h : H32) (hr : h ∈ reach (s.mem.length + 1) s.mem root []) :
    h ∈ (commit s root).disk := by
  unfold commit
  exact mem_foldl_addDisk.2 (Or.inr hr)

/-- `reach` from a cached root contains the root -/
theorem root_mem_reach (m : List CNode) (root : H32) (hm : (find m root).isSome) (fuel : Nat) :
    root ∈ reach (fuel + 1) m root [] := by
  unfold reach
  cases hf : find m root with
  | none => simp [hf] at hm
  | some n => simp

inductive DbOp where
  | insert (h : H32) (size : Nat) (kids : List H32)
  | reference (h : H32)
  | dereference (h : H32)
  | cap (limit : Nat)
  | commit (h : H32)

def apply (s : State) : DbOp → State
  | .insert h size kids => insert s h size kids
  | .reference h => reference s h
  | .dereference h => dereference s h
  | .cap l => cap s l
  | .commit h => commit s h

/-- the disk only grows, whatever the schedule -/
theorem disk_mono (s : State) (op : DbOp) (h : H32) (hd : h ∈ s.disk) : h ∈ (apply s op).disk := by
  cases op with
  | insert x size kids => simp only [apply, insert]; split <;> exact hd
  | reference x => simp only [apply, reference]; split <;> exact hd
  | dereference x => exact hd
  | cap l => exact mem_foldl_addDisk_nodes.2 (Or.inl hd)
  | commit x => exact mem_foldl_addDisk.2 (Or.inl hd)

theorem disk_mono_run (ops : List DbOp) (s : State) (h : H32) (hd : h ∈ s.disk) :
    h ∈ (ops.foldl apply s).disk := by
  induction ops generalizing s with
  | nil => exact hd
  | cons op ops ih => exact ih _ (disk_mono s op h hd)

def DbOp.isDereference : DbOp → Bool
  | .dereference _ => true
  | _ => false

/-- nothing but `Dereference` makes a readable node unreadable -/
theorem avail_apply (s : State) (op : DbOp) (hop : op.isDereference = false) (h : H32) (ha : avail s h) :
    avail (apply s op) h := by
  cases op with
  | insert x size kids => exact avail_insert x size kids ha
  | reference x => exact avail_reference x ha
  | dereference x => simp [DbOp.isDereference] at hop
  | cap l => exact avail_cap l ha
  | commit x => exact avail_commit x ha


/-! ### `Commit` writes children before parents -/

/-- in the list `L`, every cached child of an entry occurs before it -/
def ChildrenFirst (m : List CNode) (L : List H32) : Prop :=
  ∀ i x, L[i]? = some x → ∀ n, find m x = some n → ∀ k ∈ n.kids, (find m k).isSome → k ∈ L.take i

theorem reach_not_cached {m : List CNode} {k : H32} (h : find m k = none) (fuel : Nat) (acc : List H32) :
    reach fuel m k acc = acc := by
  cases fuel <;> simp [reach, h]

theorem childrenFirst_snoc {m : List CNode} {A : List H32} {h : H32} (hA : ChildrenFirst m A)
    (hk : ∀ n, find m h = some n → ∀ k ∈ n.kids, (find m k).isSome → k ∈ A) : ChildrenFirst m (A ++ [h]) := by
  intro i x hx n hn k hkm hks
  by_cases hi : i < A.length
  · rw [List.getElem?_append_left hi] at hx
    have := hA i x hx n hn k hkm hks
    rw [List.take_append_of_le_length (by omega)]
    exact this
  · have hi' : i = A.length := by
      by_cases h2 : i = A.length
      · exact h2
      · rw [List.getElem?_append_right (by omega)] at hx
        have : i - A.length ≥ 1 := by omega
        cases hd : i - A.length with
        | zero => omega
        | succ d => rw [hd] at hx; simp at hx
    subst hi'
    simp at hx
    subst hx
    simp
    exact hk n hn k hkm hks

/-- the main induction: with fuel above the rank of `h`, `reach` extends `acc`, keeps it children-first,
and contains `h` if it is cached -/
theorem reach_spec (m : List CNode) (rk : H32 → Nat)
    (hrk : ∀ n ∈ m, ∀ k ∈ n.kids, (find m k).isSome → rk k < rk n.hash) :
    ∀ fuel h acc, rk h < fuel → ChildrenFirst m acc →
      ChildrenFirst m (reach fuel m h acc) ∧ (∃ ext, reach fuel m h acc = acc ++ ext) ∧
      ((find m h).isSome → h ∈ reach fuel m h acc) := by
  intro fuel
  induction fuel with
  | zero => intro h acc hf; omega
  | succ fuel ih =>
    intro h acc hf hacc
    unfold reach
    cases hfind : find m h with
    | none => exact ⟨hacc, ⟨[], by simp⟩, by simp⟩
    | some n =>
      simp only
      have hnm : n ∈ m := List.mem_of_find?_eq_some hfind
      have hnh : n.hash = h := by
        have := List.find?_some hfind
        simpa using this
      by_cases hc : acc.contains h = true
      · simp only [hc, if_true]
        exact ⟨hacc, ⟨[], by simp⟩, fun _ => by simpa using hc⟩
      · simp only [hc, Bool.false_eq_true, if_false]
        -- fold over the children
        have hfold : ∀ (ks : List H32) (A : List H32), (∀ k ∈ ks, k ∈ n.kids) → ChildrenFirst m A →
            ChildrenFirst m (ks.foldl (fun a k => reach fuel m k a) A) ∧
            (∃ ext, ks.foldl (fun a k => reach fuel m k a) A = A ++ ext) ∧
            (∀ k ∈ ks, (find m k).isSome → k ∈ ks.foldl (fun a k => reach fuel m k a) A) := by
          intro ks
          induction ks with
          | nil => intro A _ hA; exact ⟨hA, ⟨[], by simp⟩, by simp⟩
          | cons k ks ihk =>
            intro A hsub hA
            simp only [List.foldl_cons]
            have hstep : ChildrenFirst m (reach fuel m k A) ∧ (∃ ext, reach fuel m k A = A ++ ext) ∧
                ((find m k).isSome → k ∈ reach fuel m k A) := by
              cases hk : find m k with
              | none => rw [reach_not_cached hk]; exact ⟨hA, ⟨[], by simp⟩, by simp⟩
              | some nk =>
                have hr := hrk n hnm k (hsub k (by simp)) (by simp [hk])
                have := ih k A (by rw [hnh] at hr; omega) hA
                simpa [hk] using this
            obtain ⟨h1, ⟨e1, he1⟩, h3⟩ := hstep
            obtain ⟨g1, ⟨e2, he2⟩, g3⟩ := ihk (reach fuel m k A) (fun k' hk' => hsub k' (by simp [hk'])) h1
            refine ⟨g1, ⟨e1 ++ e2, by rw [he2, he1, List.append_assoc]⟩, ?_⟩
            intro k' hk' hs
            rcases List.mem_cons.1 hk' with rfl | hk''
            · rw [he2]; exact List.mem_append_left _ (h3 hs)
            · exact g3 k' hk'' hs
        obtain ⟨f1, ⟨ext, hext⟩, f3⟩ := hfold n.kids acc (fun _ hk => hk) hacc
        refine ⟨?_, ⟨ext ++ [h], by rw [hext, List.append_assoc]⟩, fun _ => by simp⟩
        apply childrenFirst_snoc f1
        intro n' hn' k hk hs
        rw [hfind] at hn'
        simp only [Option.some.injEq] at hn'
        subst hn'
        exact f3 k hk hs

/-- **`Database.Commit` writes children before parents**: if the flush-list is ordered (a rank `rk` below
the list length decreases from every cached node to its cached children — children are inserted before
their parents) and every child of a cached node is cached or on disk, then at every point of the write
sequence of `Commit(root)` the children of the node being written are already written or on disk.  So the
disk content after a crash between any two writes is closed under children. -/
theorem commit_children_first (s : State) (root : H32) (rk : H32 → Nat)
    (hrk : ∀ n ∈ s.mem, ∀ k ∈ n.kids, (find s.mem k).isSome → rk k < rk n.hash)
    (hbound : ∀ x, rk x ≤ s.mem.length)
    (hclosed : ∀ n ∈ s.mem, ∀ k ∈ n.kids, (find s.mem k).isSome ∨ k ∈ s.disk) :
    ∀ i x, (commitOrder s root)[i]? = some x → ∀ n, find s.mem x = some n →
      ∀ k ∈ n.kids, k ∈ (commitOrder s root).take i ∨ k ∈ s.disk := by
  intro i x hx n hn k hk
  have hspec := (reach_spec s.mem rk hrk (s.mem.length + 1) root [] (by have := hbound root; omega)
    (by intro i x hx; simp at hx)).1
  rcases hclosed n (List.mem_of_find?_eq_some hn) k hk with hm | hd
  · exact Or.inl (hspec i x hx n hn k hk hm)
  · exact Or.inr hd

/-- reachability through the (content-addressed) children relation `K` -/
inductive Reach (K : H32 → List H32) : H32 → H32 → Prop where
  | refl (a : H32) : Reach K a a
  | step {a c b : H32} : c ∈ K a → Reach K c b → Reach K a b

/-- the contract under which the node cache is used -/
def Disciplined (K : H32 → List H32) : State → List DbOp → Prop
  | _, [] => True
  | s, op :: ops =>
    (match op with
     | .insert h _ kids => kids = K h ∧ ∀ c ∈ kids, avail s c
     | .dereference h => metaCount s h > 0
     | _ => True) ∧ Disciplined K (apply s op) ops

end YouVerif.C13.Db
