/-
C13 — facts about the trie.Database model: nothing but `Dereference` ever makes a node unavailable,
the disk only grows, and `Commit(root)` leaves everything cached below `root` on disk.
-/
import YouVerif.C13.ModelDb
namespace YouVerif.C13.Db

/-- a node can be read back: it is cached or on disk (`Database.node`) -/
def avail (s : State) (h : H32) : Prop := (∃ n ∈ s.mem, n.hash = h) ∨ h ∈ s.disk

theorem mem_addDisk {d : List H32} {h x : H32} : x ∈ addDisk d h ↔ x ∈ d ∨ x = h := by
  unfold addDisk
  split
  · rename_i hc
    have : h ∈ d := by simpa using hc
    constructor
    · exact Or.inl
    · rintro (h1 | rfl) <;> assumption
  · simp

theorem mem_foldl_addDisk {l : List H32} {d : List H32} {x : H32} :
    x ∈ l.foldl addDisk d ↔ x ∈ d ∨ x ∈ l := by
  induction l generalizing d with
  | nil => simp
  | cons a as ih => simp [ih, mem_addDisk, or_assoc, eq_comm]

theorem mem_foldl_addDisk_nodes {l : List CNode} {d : List H32} {x : H32} :
    x ∈ l.foldl (fun d n => addDisk d n.hash) d ↔ x ∈ d ∨ ∃ n ∈ l, n.hash = x := by
  induction l generalizing d with
  | nil => simp
  | cons a as ih => simp [ih, mem_addDisk, or_assoc, eq_comm]

theorem bump_hashes (m : List CNode) (k : H32) (h : H32) :
    (∃ n ∈ bump m k, n.hash = h) ↔ ∃ n ∈ m, n.hash = h := by
  unfold bump
  constructor
  · rintro ⟨n, hn, rfl⟩
    simp only [List.mem_map] at hn
    obtain ⟨n0, hn0, rfl⟩ := hn
    exact ⟨n0, hn0, by split <;> rfl⟩
  · rintro ⟨n, hn, rfl⟩
    refine ⟨_, List.mem_map.2 ⟨n, hn, rfl⟩, ?_⟩
    split <;> rfl

theorem foldl_bump_hashes (kids : List H32) (m : List CNode) (h : H32) :
    (∃ n ∈ kids.foldl bump m, n.hash = h) ↔ ∃ n ∈ m, n.hash = h := by
  induction kids generalizing m with
  | nil => simp
  | cons k ks ih => simp only [List.foldl_cons]; rw [ih, bump_hashes]

theorem avail_insert {s : State} {h : H32} (x : H32) (size : Nat) (kids : List H32) (ha : avail s h) :
    avail (insert s x size kids) h := by
  unfold insert
  split
  · exact ha
  · rcases ha with ⟨n, hn, rfl⟩ | hd
    · left
      obtain ⟨n', hn', he⟩ := (foldl_bump_hashes kids s.mem n.hash).2 ⟨n, hn, rfl⟩
      exact ⟨n', by simp [hn'], he⟩
    · right; exact hd

theorem avail_reference {s : State} {h : H32} (x : H32) (ha : avail s h) : avail (reference s x) h := by
  unfold reference
  split
  · rcases ha with hm | hd
    · left; exact (bump_hashes s.mem x h).2 hm
    · right; exact hd
  · exact ha

theorem avail_cap {s : State} {h : H32} (limit : Nat) (ha : avail s h) : avail (cap s limit) h := by
  unfold cap
  simp only
  rcases ha with ⟨n, hn, rfl⟩ | hd
  · rw [← List.take_append_drop (capCount s.mem (memSize s.mem + s.mem.length * 64) limit) s.mem] at hn
    rcases List.mem_append.1 hn with h1 | h2
    · right; exact mem_foldl_addDisk_nodes.2 (Or.inr ⟨n, h1, rfl⟩)
    · left; exact ⟨n, h2, rfl⟩
  · right; exact mem_foldl_addDisk_nodes.2 (Or.inl hd)

theorem avail_commit {s : State} {h : H32} (root : H32) (ha : avail s h) : avail (commit s root) h := by
  unfold commit
  simp only
  rcases ha with ⟨n, hn, rfl⟩ | hd
  · by_cases hr : (reach (s.mem.length + 1) s.mem root []).contains n.hash = true
    · right; exact mem_foldl_addDisk.2 (Or.inr (by simpa using hr))
    · left; exact ⟨n, by simp at hr; simp [List.mem_filter, hn, hr], rfl⟩
  · right; exact mem_foldl_addDisk.2 (Or.inl hd)

theorem disk_dereference (s : State) (x : H32) : (dereference s x).disk = s.disk := rfl

/-- everything `commit` decided to write is on disk afterwards -/
theorem commit_writes (s : State) (root h : H32) (hr : h ∈ reach (s.mem.length + 1) s.mem root []) :
    h ∈ (commit s root).disk := by
  unfold commit
  exact mem_foldl_addDisk.2 (Or.inr hr)

/-- `reach` from a cached root contains the root -/
theorem root_mem_reach (m : List CNode) (root : H32) (hm : (find m root).isSome) (fuel : Nat) :
    root ∈ reach (fuel + 1) m root [] := by
  unfold reach
  cases hf : find m root with
  | none => simp [hf] at hm
  | some n => simp

inductive DbOp where
  | insert (h : H32) (size : Nat) (kids : List H32)
  | reference (h : H32)
  | dereference (h : H32)
  | cap (limit : Nat)
  | commit (h : H32)

def apply (s : State) : DbOp → State
  | .insert h size kids => insert s h size kids
  | .reference h => reference s h
  | .dereference h => dereference s h
  | .cap l => cap s l
  | .commit h => commit s h

/-- the disk only grows, whatever the schedule -/
theorem disk_mono (s : State) (op : DbOp) (h : H32) (hd : h ∈ s.disk) : h ∈ (apply s op).disk := by
  cases op with
  | insert x size kids => simp only [apply, insert]; split <;> exact hd
  | reference x => simp only [apply, reference]; split <;> exact hd
  | dereference x => exact hd
  | cap l => exact mem_foldl_addDisk_nodes.2 (Or.inl hd)
  | commit x => exact mem_foldl_addDisk.2 (Or.inl hd)

theorem disk_mono_run (ops : List DbOp) (s : State) (h : H32) (hd : h ∈ s.disk) :
    h ∈ (ops.foldl apply s).disk := by
  induction ops generalizing s with
  | nil => exact hd
  | cons op ops ih => exact ih _ (disk_mono s op h hd)

def DbOp.isDereference : DbOp → Bool
  | .dereference _ => true
  | _ => false

/-- nothing but `Dereference` makes a readable node unreadable -/
theorem avail_apply (s : State) (op : DbOp) (hop : op.isDereference = false) (h : H32) (ha : avail s h) :
    avail (apply s op) h := by
  cases op with
  | insert x size kids => exact avail_insert x size kids ha
  | reference x => exact avail_reference x ha
  | dereference x => simp [DbOp.isDereference] at hop
  | cap l => exact avail_cap l ha
  | commit x => exact avail_commit x ha


/-- reachability through the (content-addressed) children relation `K` -/
inductive Reach (K : H32 → List H32) : H32 → H32 → Prop where
  | refl (a : H32) : Reach K a a
  | step {a c b : H32} : c ∈ K a → Reach K c b → Reach K a b

/-- the contract under which the node cache is used -/
def Disciplined (K : H32 → List H32) : State → List DbOp → Prop
  | _, [] => True
  | s, op :: ops =>
    (match op with
     | .insert h _ kids => kids = K h ∧ ∀ c ∈ kids, avail s c
     | .dereference h => metaCount s h > 0
     | _ => True) ∧ Disciplined K (apply s op) ops

end YouVerif.C13.Db
