/-
C13 — hex-prefix (compact) key encoding round trip: `compactToHex (hexToCompact k) = k` for every hex key
whose terminator, if any, is its last letter.
-/
import YouVerif.C13.ModelHash
import YouVerif.C13.ProofsWF
namespace YouVerif.C13

theorem nib_lt16 {a : Nib} (h : a ≠ 16) : a.val < 16 := by
  have := a.isLt
  have : a.val ≠ 16 := fun e => h (Fin.ext e)
  omega

theorem nibOfNat_val {a : Nib} : nibOfNat a.val = a := by
  apply Fin.ext
  have := a.isLt
  simp [nibOfNat]

theorem byte_nibs (a b : Nib) (ha : a ≠ 16) (hb : b ≠ 16) :
    nibOfNat ((UInt8.ofNat (a.val * 16 + b.val)).toNat / 16) = a ∧
    nibOfNat ((UInt8.ofNat (a.val * 16 + b.val)).toNat % 16) = b := by
  have h1 := nib_lt16 ha
  have h2 := nib_lt16 hb
  have ht : (UInt8.ofNat (a.val * 16 + b.val)).toNat = a.val * 16 + b.val := by
    simp [UInt8.toNat_ofNat']; omega
  rw [ht]
  have e1 : (a.val * 16 + b.val) / 16 = a.val := by omega
  have e2 : (a.val * 16 + b.val) % 16 = b.val := by omega
  rw [e1, e2]
  exact ⟨nibOfNat_val, nibOfNat_val⟩

def nib2 (b : UInt8) : List Nib := [nibOfNat (b.toNat / 16), nibOfNat (b.toNat % 16)]

theorem unpack_pack : ∀ (n : Nat) (l : List Nib), l.length = 2 * n → (16 : Nib) ∉ l →
    (packNibs l).flatMap nib2 = l := by
  intro n
  induction n with
  | zero => intro l hl _; have : l = [] := List.eq_nil_of_length_eq_zero (by omega); subst this; simp [packNibs]
  | succ n ih =>
    intro l hl h16
    match l, hl with
    | a :: b :: r, hl =>
      simp only [List.mem_cons, not_or] at h16
      have := byte_nibs a b (fun e => h16.1 e.symm) (fun e => h16.2.1 e.symm)
      simp only [packNibs, List.flatMap_cons, nib2, this.1, this.2]
      rw [ih r (by simp at hl; omega) h16.2.2]
      rfl

/-- the body of `hexToCompact` once the terminator has been split off -/
def compactRaw (t : Bool) (hex : List Nib) : List UInt8 :=
  let flag : Nat := if t then 32 else 0
  if hex.length % 2 = 1 then
    match hex with
    | h :: rest => UInt8.ofNat (flag + 16 + h.val) :: packNibs rest
    | [] => [UInt8.ofNat flag]
  else UInt8.ofNat flag :: packNibs hex

theorem compact_eq (k : List Nib) : compact k = compactRaw (hasTerm k) (if hasTerm k then k.dropLast else k) := rfl

/-- `compactToHex` on a first byte with nibbles `f, lo` followed by bytes unpacking to `body` -/
theorem compactToHex_cons (b0 : UInt8) (c : List UInt8) (f lo : Nib) (body : List Nib)
    (hf : nibOfNat (b0.toNat / 16) = f) (hl : nibOfNat (b0.toNat % 16) = lo) (hbody : c.flatMap nib2 = body) :
    compactToHex (b0 :: c) =
      .ok (List.drop (2 - f.val % 2) (if f.val < 2 then f :: lo :: body else f :: lo :: (body ++ [16]))) := by
  have hb : ((b0 :: c).flatMap fun b => [nibOfNat (b.toNat / 16), nibOfNat (b.toNat % 16)]) ++ [16]
      = f :: lo :: (body ++ [16]) := by
    rw [List.flatMap_cons, hf, hl]
    rw [show (c.flatMap fun b => [nibOfNat (b.toNat / 16), nibOfNat (b.toNat % 16)]) = c.flatMap nib2 from rfl, hbody]
    rfl
  unfold compactToHex
  simp only [hb]
  have hd : (f :: lo :: (body ++ [16])).dropLast = f :: lo :: body := by
    rw [show f :: lo :: (body ++ [16]) = (f :: lo :: body) ++ [16] from rfl, List.dropLast_concat]
  rw [hd]
  have hlen : ¬ (2 - f.val % 2 > (if f.val < 2 then f :: lo :: body else f :: lo :: (body ++ [16])).length) := by
    split <;> simp <;> omega
  rw [if_neg hlen]

theorem compactToHex_raw (t : Bool) (hex : List Nib) (h16 : (16 : Nib) ∉ hex) :
    compactToHex (compactRaw t hex) = .ok (hex ++ if t then [16] else []) := by
  unfold compactRaw
  by_cases hodd : hex.length % 2 = 1
  · simp only [hodd, if_true]
    cases hex with
    | nil => simp at hodd
    | cons h rest =>
      simp only [List.mem_cons, not_or] at h16
      have hh := nib_lt16 (fun e => h16.1 e.symm)
      have hrest : (packNibs rest).flatMap nib2 = rest :=
        unpack_pack (rest.length / 2) rest (by simp at hodd; omega) h16.2
      cases t with
      | false =>
        have ht : (UInt8.ofNat (0 + 16 + h.val)).toNat = 16 + h.val := by simp [UInt8.toNat_ofNat']; omega
        have e1 : (16 + h.val) / 16 = 1 := by omega
        have e2 : (16 + h.val) % 16 = h.val := by omega
        have := compactToHex_cons (UInt8.ofNat (0 + 16 + h.val)) (packNibs rest) 1 h rest
          (by rw [ht, e1]; rfl) (by rw [ht, e2]; exact nibOfNat_val) hrest
        simp only [Bool.false_eq_true, if_false]
        rw [this]
        simp
      | true =>
        have ht : (UInt8.ofNat (32 + 16 + h.val)).toNat = 48 + h.val := by simp [UInt8.toNat_ofNat']; omega
        have e1 : (48 + h.val) / 16 = 3 := by omega
        have e2 : (48 + h.val) % 16 = h.val := by omega
        have := compactToHex_cons (UInt8.ofNat (32 + 16 + h.val)) (packNibs rest) 3 h rest
          (by rw [ht, e1]; rfl) (by rw [ht, e2]; exact nibOfNat_val) hrest
        simp only [if_true]
        rw [this]
        have e3 : ((3 : Nib).val) = 3 := rfl
        simp [e3]
  · simp only [hodd, if_false]
    have hrest : (packNibs hex).flatMap nib2 = hex := unpack_pack (hex.length / 2) hex (by omega) h16
    cases t with
    | false =>
      have := compactToHex_cons (UInt8.ofNat 0) (packNibs hex) 0 0 hex (by decide) (by decide) hrest
      simp only [Bool.false_eq_true, if_false]
      rw [this]
      simp
    | true =>
      have := compactToHex_cons (UInt8.ofNat 32) (packNibs hex) 2 0 hex (by decide) (by decide) hrest
      simp only [if_true]
      rw [this]
      simp

theorem termLast_cases {k : List Nib} (h : TermLast k) :
    ((16 : Nib) ∉ k ∧ hasTerm k = false) ∨ ∃ a, k = a ++ [16] ∧ (16 : Nib) ∉ a ∧ hasTerm k = true := by
  by_cases hm : (16 : Nib) ∈ k
  · right
    obtain ⟨a, b, rfl⟩ := List.append_of_mem hm
    have hb : b = [] := h a b rfl
    subst hb
    refine ⟨a, rfl, ?_, by simp [hasTerm]⟩
    exact (termLast_prefix (a := a) (b := [16]) h (by simp)).2
  · left
    refine ⟨hm, ?_⟩
    cases hg : k.getLast? with
    | none => simp [hasTerm, hg]
    | some x =>
      have : x ∈ k := List.mem_of_getLast? hg
      have hx : x ≠ 16 := fun e => hm (e ▸ this)
      simp [hasTerm, hg, hx]

/-- **compact key round trip** -/
theorem compactToHex_compact {k : List Nib} (h : TermLast k) : compactToHex (compact k) = .ok k := by
  rw [compact_eq]
  rcases termLast_cases h with ⟨h16, ht⟩ | ⟨a, rfl, h16, ht⟩
  · simp only [ht, Bool.false_eq_true, if_false]
    rw [compactToHex_raw false k h16]; simp
  · simp only [ht, if_true, List.dropLast_concat]
    rw [compactToHex_raw true a h16]; simp

end YouVerif.C13
