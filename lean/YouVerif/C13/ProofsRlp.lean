/-
C13 — the raw.go-style splitting functions of ModelHash (readKind / split / countValues) on RLP
encodings.  The header arithmetic is not re-proved: it is imported from C14's untyped round trip
(`hdr_dec` about `Rlp.decodeHeader`) through one bridging lemma (`readKind_of_header`).
-/
import YouVerif.C13.ModelHash
import YouVerif.C14.ProofsUntyped
namespace YouVerif.C13
open YouVerif.Common YouVerif.Common.Rlp
open YouVerif.C14 (hdr_dec encode_str_ne1 encode_str_lo encode_str_hi encode_list toNat_ofNat_lt encode_ne_nil
  encode_str_len_ge encodeLength_len_pos)

@[simp] theorem kind_beq_ss : (Kind.string == Kind.string) = true := rfl
@[simp] theorem kind_beq_ll : (Kind.list == Kind.list) = true := rfl
@[simp] theorem kind_beq_bb : (Kind.byte == Kind.byte) = true := rfl
@[simp] theorem kind_beq_sl : (Kind.string == Kind.list) = false := rfl
@[simp] theorem kind_beq_ls : (Kind.list == Kind.string) = false := rfl
@[simp] theorem kind_beq_bl : (Kind.byte == Kind.list) = false := rfl
@[simp] theorem kind_beq_bs : (Kind.byte == Kind.string) = false := rfl

def kindOfHeader (isList : Bool) (h : Nat) : Kind :=
  if isList then .list else if h = 0 then .byte else .string

/-- `rlp.readKind` (raw.go) agrees with the strict stream header of Common/Rlp wherever the latter
accepts and the content fits into the input. -/
theorem readKind_of_header {buf : List UInt8} {isList : Bool} {n h : Nat}
    (hd : decodeHeader buf = .ok (isList, n, h)) (hfit : n ≤ buf.length - h) :
    readKind buf = .ok (kindOfHeader isList h, h, n) := by
  cases buf with
  | nil => simp [decodeHeader] at hd
  | cons b rest =>
    simp only [decodeHeader] at hd
    simp only [readKind]
    split at hd
    · -- single byte
      rename_i ht
      simp only [Except.ok.injEq, Prod.mk.injEq] at hd
      obtain ⟨rfl, rfl, rfl⟩ := hd
      have ht' : b.toNat < 0x80 := ht
      simp [ht', kindOfHeader] at hfit ⊢
    · rename_i ht
      split at hd
      · rename_i ht2
        have h1 : ¬ b.toNat < 0x80 := ht
        have h2 : b.toNat < 0xB8 := ht2
        simp only [h1, h2, if_false, if_true]
        split at hd
        · rename_i hn1
          cases rest with
          | nil => simp at hd
          | cons c tl =>
            simp only at hd
            split at hd
            · simp at hd
            · rename_i hc
              simp only [Except.ok.injEq, Prod.mk.injEq] at hd
              obtain ⟨rfl, rfl, rfl⟩ := hd
              have : b.toNat - 0x80 = 1 := hn1
              simp [this, hc, kindOfHeader] at hfit ⊢
        · rename_i hn1
          simp only [Except.ok.injEq, Prod.mk.injEq] at hd
          obtain ⟨rfl, rfl, rfl⟩ := hd
          have : ¬ (b.toNat - 0x80 = 1) := hn1
          simp [this, kindOfHeader] at hfit ⊢
          omega
      · rename_i ht2
        split at hd
        · -- long string
          rename_i ht3
          have h1 : ¬ b.toNat < 0x80 := ht
          have h2 : ¬ b.toNat < 0xB8 := ht2
          have h3 : b.toNat < 0xC0 := ht3
          simp only [h1, h2, h3, if_false, if_true]
          split at hd
          · simp at hd
          · rename_i hlen
            cases hlb : rest.take (b.toNat - 183) with
            | nil => simp [hlb] at hd
            | cons l0 tl =>
              simp only [hlb] at hd
              split at hd
              · simp at hd
              · rename_i hl0
                split at hd
                · simp at hd
                · rename_i h56
                  simp only [Except.ok.injEq, Prod.mk.injEq] at hd
                  obtain ⟨rfl, rfl, rfl⟩ := hd
                  have hhead : rest.head? = some l0 := by
                    cases rest with
                    | nil => simp at hlb
                    | cons r0 rs =>
                      have hpos : b.toNat - 183 = (b.toNat - 184) + 1 := by omega
                      rw [hpos] at hlb
                      simp at hlb
                      simp [hlb.1]
                  have e1 : b.toNat - 0xB7 = b.toNat - 183 := rfl
                  simp only [readSize, e1]
                  rw [if_neg (by omega)]
                  simp only [hlb, hhead]
                  have hl0' : ¬ (l0 = 0) := hl0
                  simp [h56, hl0', kindOfHeader] at hfit ⊢
                  rw [if_neg (by omega)]
                  simp; omega
        · rename_i ht3
          split at hd
          · -- short list
            rename_i ht4
            have h1 : ¬ b.toNat < 0x80 := ht
            have h2 : ¬ b.toNat < 0xB8 := ht2
            have h3 : ¬ b.toNat < 0xC0 := ht3
            have h4 : b.toNat < 0xF8 := ht4
            simp only [Except.ok.injEq, Prod.mk.injEq] at hd
            obtain ⟨rfl, rfl, rfl⟩ := hd
            simp [h1, h2, h3, h4, kindOfHeader] at hfit ⊢
            omega
          · -- long list
            rename_i ht4
            have h1 : ¬ b.toNat < 0x80 := ht
            have h2 : ¬ b.toNat < 0xB8 := ht2
            have h3 : ¬ b.toNat < 0xC0 := ht3
            have h4 : ¬ b.toNat < 0xF8 := ht4
            simp only [h1, h2, h3, h4, if_false]
            split at hd
            · simp at hd
            · rename_i hlen
              cases hlb : rest.take (b.toNat - 247) with
              | nil => simp [hlb] at hd
              | cons l0 tl =>
                simp only [hlb] at hd
                split at hd
                · simp at hd
                · rename_i hl0
                  split at hd
                  · simp at hd
                  · rename_i h56
                    simp only [Except.ok.injEq, Prod.mk.injEq] at hd
                    obtain ⟨rfl, rfl, rfl⟩ := hd
                    have hhead : rest.head? = some l0 := by
                      cases rest with
                      | nil => simp at hlb
                      | cons r0 rs =>
                        have hpos : b.toNat - 247 = (b.toNat - 248) + 1 := by omega
                        rw [hpos] at hlb
                        simp at hlb
                        simp [hlb.1]
                    have e1 : b.toNat - 0xF7 = b.toNat - 247 := rfl
                    simp only [readSize, e1]
                    rw [if_neg (by omega)]
                    simp only [hlb, hhead]
                    have hl0' : ¬ (l0 = 0) := hl0
                    simp [h56, hl0', kindOfHeader] at hfit ⊢
                    rw [if_neg (by omega)]
                    simp; omega


def kindOf : Item → Kind
  | .str [b] => if b.toNat < 128 then .byte else .string
  | .str _ => .string
  | .list _ => .list

def payload : Item → List UInt8
  | .str p => p
  | .list is => encodeList is

theorem split_of_header {buf : List UInt8} {isL : Bool} {n : Nat} {hdr pl rest : List UInt8}
    (hbuf : buf = hdr ++ pl ++ rest) (hpl : pl.length = n) (hpos : 1 ≤ hdr.length)
    (hd : decodeHeader buf = .ok (isL, n, hdr.length)) :
    split buf = .ok (if isL then .list else .string, pl, rest) := by
  have hlen : buf.length = hdr.length + pl.length + rest.length := by rw [hbuf]; simp [List.length_append]; omega
  have hfit : n ≤ buf.length - hdr.length := by omega
  simp only [split, readKind_of_header hd hfit]
  have hk : kindOfHeader isL hdr.length = (if isL then Kind.list else Kind.string) := by
    unfold kindOfHeader
    cases isL with
    | true => simp
    | false => have : hdr.length ≠ 0 := by omega
               simp [this]
  rw [hk, hbuf]
  simp only [Except.ok.injEq, Prod.mk.injEq, true_and]
  constructor
  · rw [List.append_assoc, List.drop_left, ← hpl, List.take_left]
  · rw [← hpl, ← List.length_append, List.drop_left]

theorem split_encode (it : Item) (rest : List UInt8) (h64 : (payload it).length < 2 ^ 64) :
    split (encode it ++ rest) = .ok (kindOf it, payload it, rest) := by
  cases it with
  | str p =>
    by_cases h1 : p.length = 1
    · match p, h1 with
      | [b], _ =>
        by_cases hb : b.toNat < 128
        · rw [encode_str_lo b hb]
          have : b.toNat < 0x80 := hb
          simp [split, readKind, this, kindOf, payload, hb]
        · rw [encode_str_hi b hb]
          have h129 : (UInt8.ofNat 129).toNat = 129 := by decide
          simp [split, readKind, h129, kindOf, payload, hb]
    · rw [encode_str_ne1 p h1]
      have h64' : p.length < 2 ^ 64 := h64
      have hh := hdr_dec p.length false h64' (fun _ => h1) (p ++ rest)
      rw [show (if false = true then 192 else 128) = 128 from rfl] at hh
      have := split_of_header (buf := encodeLength p.length 128 ++ p ++ rest) (isL := false) (n := p.length)
        (hdr := encodeLength p.length 128) (pl := p) (rest := rest) rfl rfl
        (encodeLength_len_pos _ _) (by rw [List.append_assoc]; exact hh)
      rw [this]
      have hk : kindOf (.str p) = .string := by
        cases p with
        | nil => rfl
        | cons a t =>
          cases t with
          | nil => exact absurd rfl h1
          | cons _ _ => rfl
      simp [hk, payload]
  | list is =>
    rw [encode_list]
    have h64' : (encodeList is).length < 2 ^ 64 := h64
    have hh := hdr_dec (encodeList is).length true h64' (by simp) (encodeList is ++ rest)
    rw [show (if true = true then 192 else 128) = 192 from rfl] at hh
    have := split_of_header (buf := encodeLength (encodeList is).length 192 ++ encodeList is ++ rest) (isL := true)
      (n := (encodeList is).length) (hdr := encodeLength (encodeList is).length 192) (pl := encodeList is)
      (rest := rest) rfl rfl (encodeLength_len_pos _ _) (by rw [List.append_assoc]; exact hh)
    rw [this]
    simp [kindOf, payload]

theorem kindOf_str_ne_list (p : List UInt8) : (kindOf (.str p) == Kind.list) = false := by
  unfold kindOf
  split
  · split <;> rfl
  · rfl
  · rename_i h; cases h

theorem splitString_encode (p rest : List UInt8) (h64 : p.length < 2 ^ 64) :
    splitString (encode (.str p) ++ rest) = .ok (p, rest) := by
  simp [splitString, split_encode (.str p) rest h64, kindOf_str_ne_list, payload]

theorem splitList_encode (is : List Item) (rest : List UInt8) (h64 : (encodeList is).length < 2 ^ 64) :
    splitList (encode (.list is) ++ rest) = .ok (encodeList is, rest) := by
  simp [splitList, split_encode (.list is) rest h64, kindOf, payload]

theorem payload_le (it : Item) : (payload it).length ≤ (encode it).length := by
  cases it with
  | str p => exact encode_str_len_ge p
  | list is => rw [encode_list]; simp [payload]

/-- `rlp.CountValues` on a concatenation of encodings counts the items -/
theorem countValues_encodeList (is : List Item) (i : Nat) (h64 : (encodeList is).length < 2 ^ 64) :
    ∀ fuel, (encodeList is).length < fuel → countValues fuel (encodeList is) i = i + is.length := by
  induction is generalizing i with
  | nil => intro fuel hf; cases fuel <;> simp_all [countValues, encodeList]
  | cons it is ih =>
    intro fuel hf
    cases fuel with
    | zero => omega
    | succ f =>
      have hne := encode_ne_nil it
      simp only [encodeList, List.length_append] at hf h64
      have hp := payload_le it
      have hsplit := split_encode it (encodeList is) (by omega)
      simp only [split] at hsplit
      simp only [encodeList, countValues]
      split
      · rename_i e; simp at e; exact absurd e.1 hne
      · cases hrk : readKind (encode it ++ encodeList is) with
        | error e => rw [hrk] at hsplit; simp at hsplit
        | ok r =>
          obtain ⟨k, ts, cs⟩ := r
          rw [hrk] at hsplit
          simp only [Except.ok.injEq, Prod.mk.injEq] at hsplit
          simp only [hsplit.2.2]
          have hlen : 1 ≤ (encode it).length := by
            cases h : encode it with
            | nil => exact absurd h hne
            | cons _ _ => simp
          rw [ih (i + 1) (by omega) f (by omega)]
          simp; omega

end YouVerif.C13
