/-
C13 — the trie refines a finite map: lookup after insert / delete, for every key that is
prefix-compatible with the trie (`Compat`), generic in the alphabet.
-/
import YouVerif.C13.Proofs
namespace YouVerif.C13

/-- `Compat t key`: walking `key` down `t` never meets a value node with key left over, never runs out
of key at a full node or inside a short node's key.  These are exactly the situations in which the Go
code panics or silently destroys a subtree; they cannot arise for keys of a prefix-free set
(`compat_of_prefixFree`), in particular not for `keybytesToHex` keys. -/
def Compat : Node → List Nib → Prop
  | .empty, _ => True
  | .value _, key => key = []
  | .short k n, key =>
    match splitCommon key k with
    | (_, rest, []) => Compat n rest
    | (_, _ :: _, _ :: _) => True
    | (_, [], _ :: _) => False
  | .full _, [] => False
  | .full cs, i :: rest => Compat (cs i) rest

theorem compat_short_append {k n r} : Compat (.short k n) (k ++ r) ↔ Compat n r := by
  simp [Compat, splitCommon_append]

theorem compat_full_cons {cs i r} : Compat (.full cs) (i :: r) ↔ Compat (cs i) r := by
  simp [Compat]

/-- a trie compatible with the empty key stores nothing below it -/
theorem lookup_of_compat_nil {t : Node} (h : Compat t []) : ∀ key, key ≠ [] → lookup t key = none := by
  induction t with
  | empty => intros; simp
  | value v => intro key hk; cases key <;> simp_all
  | short k n ih =>
    intro key hk
    cases k with
    | nil =>
      have : Compat n [] := by simpa using (compat_short_append (k := []) (n := n) (r := [])).1 h
      have h2 := lookup_short_append [] n key
      simp only [List.nil_append] at h2
      rw [h2]; exact ih this key hk
    | cons y ys => simp [Compat, splitCommon] at h
  | full cs ih => simp [Compat] at h

theorem lookup_upd (cs : Nib → Node) (i : Nib) (c : Node) (j : Nib) (r : List Nib) :
    lookup (upd cs i c j) r = if j = i then lookup c r else lookup (cs j) r := by
  unfold upd; split <;> rfl

/-- lookup in a freshly made leaf -/
theorem lookup_mkShort_value (k : List Nib) (v : Val) (key : List Nib) :
    lookup (mkShort k (.value v)) key = if key = k then some v else none := by
  rw [lookup_mkShort, lookup_short]
  by_cases h : k <+: key
  · obtain ⟨r, rfl⟩ := h
    simp [lookup_value]
  · have : key ≠ k := by intro e; subst e; exact h (List.prefix_refl _)
    simp [h, this]

/-- **insert refines map update** -/
theorem lookup_tinsert (t : Node) (key : List Nib) (v : Val) (hc : Compat t key) :
    ∀ key', lookup (tinsert t key (.value v)) key' = if key' = key then some v else lookup t key' := by
  induction t generalizing key with
  | empty =>
    intro key'
    cases key with
    | nil => simp [tinsert, lookup_value]
    | cons x xs =>
      have := lookup_mkShort_value (x :: xs) v key'
      simpa [tinsert, mkShort] using this
  | value w =>
    intro key'
    have : key = [] := hc
    subst this
    by_cases h : key' = []
    · simp [tinsert, h]
    · cases key' <;> simp_all [tinsert]
  | short k n ih =>
    intro key'
    cases key with
    | nil =>
      simp only [tinsert]
      have := lookup_of_compat_nil hc
      by_cases h : key' = []
      · simp [h]
      · rw [this key' h]; cases key' <;> simp_all
    | cons x xs =>
      rcases splitCommon_cases (x :: xs) k with ⟨r, hk, hs⟩ | ⟨p, a, as, b, bs, hk, hk2, hne, hs⟩ | ⟨b, bs, hk2, hs⟩
      · -- the whole short key matches
        simp only [tinsert, hs]
        rw [hk] at hc ⊢
        have hc' := compat_short_append.1 hc
        by_cases hp : k <+: key'
        · obtain ⟨r', rfl⟩ := hp
          simp [ih r hc' r']
        · have : key' ≠ k ++ r := by intro e; exact hp ⟨r, e.symm⟩
          simp [lookup_short_none hp, this]
      · -- branch out
        simp only [tinsert, hs]
        rw [lookup_mkShort, hk]
        by_cases hp : p <+: key'
        · obtain ⟨r', rfl⟩ := hp
          rw [lookup_short_append]
          cases r' with
          | nil =>
            have h1 : ¬ k <+: p := by
              rw [hk2]; intro ⟨t, ht⟩
              have := congrArg List.length ht
              simp at this
            simp [lookup_short_none h1]
          | cons c r'' =>
            simp only [lookup_full_cons, lookup_upd, List.append_cancel_left_eq, List.cons.injEq]
            by_cases hca : c = a
            · subst hca
              simp only [true_and, if_true]
              rw [lookup_mkShort_value]
              by_cases hr : r'' = as
              · simp [hr]
              · have h1 : ¬ k <+: p ++ c :: r'' := by
                  rw [hk2]; intro ⟨t, ht⟩
                  rw [List.append_assoc] at ht
                  have := List.append_cancel_left ht
                  simp at this
                  exact hne this.1.symm
                simp [hr, lookup_short_none h1]
            · simp only [hca, false_and, if_false]
              by_cases hcb : c = b
              · subst hcb
                simp only [if_true]
                rw [lookup_mkShort, hk2]
                rw [show p ++ c :: bs = (p ++ [c]) ++ bs by simp, show p ++ c :: r'' = (p ++ [c]) ++ r'' by simp]
                rw [lookup_short_short (p ++ [c]) bs n, lookup_short_append]
              · have h1 : ¬ k <+: p ++ c :: r'' := by
                  rw [hk2]; intro ⟨t, ht⟩
                  rw [List.append_assoc] at ht
                  have := List.append_cancel_left ht
                  simp at this
                  exact hcb this.1.symm
                simp [hcb, noChildren, lookup_short_none h1]
        · have h1 : key' ≠ p ++ a :: as := by intro e; exact hp ⟨a :: as, e.symm⟩
          have h2 : ¬ k <+: key' := by
            rw [hk2]; intro ⟨t, ht⟩
            exact hp ⟨b :: bs ++ t, by rw [← ht, List.append_assoc]⟩
          simp [lookup_short_none hp, lookup_short_none h2, h1]
      · -- key ends inside the short key: excluded by Compat
        simp [Compat, hs] at hc
  | full cs ih =>
    intro key'
    cases key with
    | nil => simp [Compat] at hc
    | cons i rest =>
      have hc' : Compat (cs i) rest := compat_full_cons.1 hc
      simp only [tinsert]
      cases key' with
      | nil => simp
      | cons j r' =>
        simp only [lookup_full_cons, lookup_upd, List.cons.injEq]
        by_cases hj : j = i
        · subst hj; simp [ih j rest hc' r']
        · simp [hj]


/-! ### delete -/

theorem mem_allNibs (i : Nib) : i ∈ allNibs := by simp [allNibs]

theorem mem_livePos {cs : Nib → Node} {i : Nib} : i ∈ livePos cs ↔ (cs i).isEmpty = false := by
  simp [livePos, mem_allNibs]

theorem isEmpty_eq_true {n : Node} : n.isEmpty = true ↔ n = .empty := by
  cases n <;> simp [Node.isEmpty]

theorem livePos_single {cs : Nib → Node} {pos : Nib} (h : livePos cs = [pos]) :
    (cs pos).isEmpty = false ∧ ∀ j, j ≠ pos → cs j = .empty := by
  constructor
  · exact mem_livePos.1 (by rw [h]; simp)
  · intro j hj
    apply isEmpty_eq_true.1
    cases he : (cs j).isEmpty with
    | true => rfl
    | false =>
      have : j ∈ livePos cs := mem_livePos.2 he
      rw [h] at this
      simp at this
      exact absurd this hj

/-- collapsing a full node does not change what it stores -/
theorem lookup_collapse (cs : Nib → Node) (key : List Nib) : lookup (collapse cs) key = lookup (.full cs) key := by
  unfold collapse
  split
  · rename_i pos h
    obtain ⟨_, hothers⟩ := livePos_single h
    have hshort : lookup (.short [pos] (cs pos)) key = lookup (.full cs) key := by
      cases key with
      | nil => simp [lookup, splitCommon]
      | cons j r =>
        by_cases hj : j = pos
        · subst hj
          have := lookup_short_append [j] (cs j) r
          simpa using this
        · have h1 : ¬ [pos] <+: j :: r := by
            intro ⟨t, ht⟩; simp at ht; exact hj ht.1.symm
          simp [lookup_short_none h1, hothers j hj]
    split
    · exact hshort
    · split
      · rename_i k2 n2 hc
        rw [hc] at hshort
        rw [← hshort]
        exact lookup_short_short [pos] k2 n2 key
      · exact hshort
  · rfl

theorem del_none_lookup {t : Node} {key : List Nib} (h : del t key = none) : lookup t key = none := by
  induction t generalizing key with
  | empty => simp
  | value v => simp [del] at h
  | short k n ih =>
    rcases splitCommon_cases key k with ⟨r, hk, hs⟩ | ⟨p, a, as, b, bs, hk, hk2, hne, hs⟩ | ⟨b, bs, hk2, hs⟩
    · cases r with
      | nil => simp [del, hs] at h
      | cons r0 rs =>
        simp only [del, hs] at h
        rw [hk, lookup_short_append]
        apply ih
        revert h
        split <;> simp_all
    · simp [lookup, hs]
    · simp [lookup, hs]
  | full cs ih =>
    cases key with
    | nil => simp
    | cons i rest =>
      simp only [del] at h
      rw [lookup_full_cons]
      apply ih
      revert h
      split <;> simp_all

theorem lookup_del_some {t : Node} {key : List Nib} (hc : Compat t key) {t' : Node} (h : del t key = some t') :
    ∀ key', lookup t' key' = if key' = key then none else lookup t key' := by
  induction t generalizing key t' with
  | empty => simp [del] at h
  | value v =>
    have : key = [] := hc
    subst this
    simp only [del, Option.some.injEq] at h
    subst h
    intro key'; cases key' <;> simp
  | short k n ih =>
    rcases splitCommon_cases key k with ⟨r, hk, hs⟩ | ⟨p, a, as, b, bs, hk, hk2, hne, hs⟩ | ⟨b, bs, hk2, hs⟩
    · rw [hk] at hc
      have hc' := compat_short_append.1 hc
      cases r with
      | nil =>
        simp only [del, hs, Option.some.injEq] at h
        subst h
        intro key'
        simp only [lookup_empty]
        by_cases hp : k <+: key'
        · obtain ⟨r', rfl⟩ := hp
          rw [lookup_short_append, hk]
          by_cases hr : r' = []
          · simp [hr]
          · simp [hr, lookup_of_compat_nil hc' r' hr]
        · simp [lookup_short_none hp]
      | cons r0 rs =>
        simp only [del, hs] at h
        intro key'
        have key_eq : ∀ c, del n (r0 :: rs) = some c → lookup (.short k c) key' = if key' = key then none else lookup (.short k n) key' := by
          intro c hdc
          have := ih hc' hdc
          by_cases hp : k <+: key'
          · obtain ⟨r', rfl⟩ := hp
            simp [hk, this r']
          · have : key' ≠ key := by rw [hk]; intro e; exact hp ⟨_, e.symm⟩
            simp [lookup_short_none hp, this]
        revert h
        split
        · simp
        · rename_i k2 n2 hd
          intro h
          simp only [Option.some.injEq] at h
          subst h
          rw [lookup_short_short]
          exact key_eq _ hd
        · rename_i c _ hd
          intro h
          simp only [Option.some.injEq] at h
          subst h
          exact key_eq _ hd
    · simp [del, hs] at h
    · simp [del, hs] at h
  | full cs ih =>
    cases key with
    | nil => simp [del] at h
    | cons i rest =>
      have hc' : Compat (cs i) rest := compat_full_cons.1 hc
      simp only [del] at h
      intro key'
      revert h
      split
      · simp
      · rename_i c hd
        intro h
        simp only [Option.some.injEq] at h
        subst h
        rw [lookup_collapse]
        cases key' with
        | nil => simp
        | cons j r' =>
          simp only [lookup_full_cons, lookup_upd, List.cons.injEq]
          by_cases hj : j = i
          · subst hj; simp [ih j hc' hd r']
          · simp [hj]

/-- **delete refines map removal** -/
theorem lookup_tdelete (t : Node) (key : List Nib) (hc : Compat t key) :
    ∀ key', lookup (tdelete t key) key' = if key' = key then none else lookup t key' := by
  intro key'
  unfold tdelete
  cases h : del t key with
  | none =>
    simp only [Option.getD_none]
    by_cases hk : key' = key
    · simp [hk, del_none_lookup h]
    · simp [hk]
  | some t' => simpa using lookup_del_some hc h key'

end YouVerif.C13
