/-
C13 — executable model of go-youchain's Merkle-Patricia trie (trie/trie.go, trie/encoding.go,
trie/iterator.go at the level of leaf order, trie/secure_trie.go key hashing is in ModelHash).

The model mirrors the Go representation:

  * keys are *hex keys*: lists of nibbles over the 17-letter alphabet 0..15 + terminator 16
    (`keybytesToHex` appends the terminator; trie.go treats it as one more nibble);
  * nodes are `nil | valueNode | shortNode{Key,Val} | fullNode{Children[17]}`.  Hash nodes are a
    caching/storage artefact (`resolveHash ∘ store = id`); the in-memory graph the Go code works on
    after resolving is exactly this tree.  That transparency is what the commit/reopen part of the
    correspondence harness checks, and what `ModelDb` is about.
  * dirty flags / cache generations are not modelled, except where they decide the *shape* of the
    result (`delete` returns the node unchanged — no collapsing — when nothing was deleted).

Core Lean only (the driver links natively).  Functions are structurally recursive on the node so
that proofs can unfold them.
-/
namespace YouVerif.C13

/-- A hex-key letter: nibbles 0..15 and the terminator 16 (`fullNode.Children` has 17 slots). -/
abbrev Nib := Fin 17
abbrev Val := List UInt8

inductive Node where
  | empty : Node                       -- Go: nil
  | value : Val → Node                 -- Go: valueNode
  | short : List Nib → Node → Node     -- Go: *shortNode{Key, Val}
  | full  : (Nib → Node) → Node        -- Go: *fullNode{Children [17]node}
  deriving Inhabited

def Node.isEmpty : Node → Bool
  | .empty => true
  | _ => false

def allNibs : List Nib := List.finRange 17

def noChildren : Nib → Node := fun _ => .empty

/-- `n.Children[i] = c` on a copy. -/
def upd (cs : Nib → Node) (i : Nib) (c : Node) : Nib → Node := fun j => if j = i then c else cs j

/-- `splitCommon a b = (p, a', b')` with `a = p ++ a'`, `b = p ++ b'`, `p` the longest common prefix
(`prefixLen` of encoding.go is `p.length`). -/
def splitCommon : List Nib → List Nib → List Nib × List Nib × List Nib
  | a :: as, b :: bs =>
    if a = b then
      let r := splitCommon as bs
      (a :: r.1, r.2.1, r.2.2)
    else ([], a :: as, b :: bs)
  | as, bs => ([], as, bs)

/-- `t.insert(nil, prefix, key, node)`: the node itself for an empty key, else a short node. -/
def mkShort (k : List Nib) (n : Node) : Node :=
  match k with
  | [] => n
  | _ :: _ => .short k n

/-- trie.go `insert` (the `value` argument is a node: the branch-out case re-inserts `n.Val`).
Two places panic in Go and are totalised here (they are flagged by `tinsertPanics` and proved
unreachable for keys produced by `keybytesToHex`, theorem `api_never_panics`):
a value node met with a non-empty rest key (`default: panic("invalid node")`), and a key that ends
strictly inside a short node's key (`key[matchlen]` out of range). -/
def tinsert : Node → List Nib → Node → Node
  | _, [], v => v
  | .empty, k :: ks, v => .short (k :: ks) v
  | .value w, _ :: _, _ => .value w
  | .short k n, x :: xs, v =>
    match splitCommon (x :: xs) k with
    | (_, rest, []) => .short k (tinsert n rest v)           -- matchlen == len(n.Key)
    | (p, xc :: xrest, kc :: krest) =>                       -- branch out where they differ
      let branch := Node.full (upd (upd noChildren kc (mkShort krest n)) xc (mkShort xrest v))
      mkShort p branch
    | (_, [], _ :: _) => .short k n
  | .full cs, i :: rest, v => .full (upd cs i (tinsert (cs i) rest v))

def tinsertPanics : Node → List Nib → Bool
  | _, [] => false
  | .empty, _ :: _ => false
  | .value _, _ :: _ => true
  | .short k n, x :: xs =>
    match splitCommon (x :: xs) k with
    | (_, rest, []) => tinsertPanics n rest
    | (_, _ :: _, _ :: _) => false
    | (_, [], _ :: _) => true
  | .full cs, i :: rest => tinsertPanics (cs i) rest

/-- trie.go `tryGet`.  A value node answers whatever is left of the key (as in Go); a full node
met with an exhausted key indexes out of range in Go (`tgetPanics`). -/
def tget : Node → List Nib → Option Val
  | .empty, _ => none
  | .value v, _ => some v
  | .short k n, key =>
    match splitCommon key k with
    | (_, rest, []) => tget n rest
    | _ => none
  | .full _, [] => none
  | .full cs, i :: rest => tget (cs i) rest

def tgetPanics : Node → List Nib → Bool
  | .empty, _ => false
  | .value _, _ => false
  | .short k n, key =>
    match splitCommon key k with
    | (_, rest, []) => tgetPanics n rest
    | _ => false
  | .full _, [] => true
  | .full cs, i :: rest => tgetPanics (cs i) rest

/-- indices of the non-nil children, ascending -/
def livePos (cs : Nib → Node) : List Nib := allNibs.filter fun i => !(cs i).isEmpty

/-- The tail of the fullNode case of trie.go `delete`: reduce a full node with exactly one
remaining child to a short node (merging with a short child, except under the terminator slot). -/
def collapse (cs : Nib → Node) : Node :=
  match livePos cs with
  | [pos] =>
    if pos = 16 then .short [pos] (cs pos)
    else
      match cs pos with
      | .short k2 n2 => .short (pos :: k2) n2
      | c => .short [pos] c
  | _ => .full cs

/-- trie.go `delete`; `none` is Go's `dirty = false` (the caller keeps its node untouched). -/
def del : Node → List Nib → Option Node
  | .empty, _ => none
  | .value _, _ => some .empty
  | .short k n, key =>
    match splitCommon key k with
    | (_, [], []) => some .empty                     -- matchlen == len(key): remove n entirely
    | (_, r :: rest, []) =>
      match del n (r :: rest) with
      | none => none
      | some (.short k2 n2) => some (.short (k ++ k2) n2)
      | some c => some (.short k c)
    | _ => none                                       -- matchlen < len(n.Key)
  | .full _, [] => none
  | .full cs, i :: rest =>
    match del (cs i) rest with
    | none => none
    | some c => some (collapse (upd cs i c))

def delPanics : Node → List Nib → Bool
  | .empty, _ => false
  | .value _, _ => false
  | .short k n, key =>
    match splitCommon key k with
    | (_, r :: rest, []) => delPanics n (r :: rest)
    | _ => false
  | .full _, [] => true
  | .full cs, i :: rest => delPanics (cs i) rest

def tdelete (t : Node) (key : List Nib) : Node := (del t key).getD t

/-- Leaves in the order `nodeIterator` visits them (pre-order, children 0..16, so the value in
slot 16 of a full node comes after everything below slots 0..15), with their hex paths. -/
def leaves : Node → List (List Nib × Val)
  | .empty => []
  | .value v => [([], v)]
  | .short k n => (leaves n).map fun pv => (k ++ pv.1, pv.2)
  | .full cs => allNibs.flatMap fun i => (leaves (cs i)).map fun pv => (i :: pv.1, pv.2)

/-! ### byte keys (encoding.go) -/

def nibHi (b : UInt8) : Nib := ⟨b.toNat / 16, by have := b.toNat_lt; omega⟩
def nibLo (b : UInt8) : Nib := ⟨b.toNat % 16, by omega⟩

def hexNibs : List UInt8 → List Nib
  | [] => []
  | b :: bs => nibHi b :: nibLo b :: hexNibs bs

/-- `keybytesToHex` -/
def hexKey (bs : List UInt8) : List Nib := hexNibs bs ++ [16]

/-- `hexToKeybytes` on a path with terminator and an even number of nibbles (what LeafKey sees);
odd length panics in Go and yields `none` here. -/
def unhexNibs : List Nib → Option (List UInt8)
  | [] => some []
  | [_] => none
  | a :: b :: r => (unhexNibs r).map fun l => UInt8.ofNat (a.val * 16 + b.val) :: l

def dropTerm (k : List Nib) : List Nib :=
  if k.getLast? = some 16 then k.dropLast else k

def unhexKey (k : List Nib) : Option (List UInt8) := unhexNibs (dropTerm k)

/-! ### exported API level: Update / Delete / Get on byte keys -/

/-- `TryUpdate`: an empty value deletes. -/
def update (t : Node) (k v : List UInt8) : Node :=
  if v.isEmpty then tdelete t (hexKey k) else tinsert t (hexKey k) (.value v)

def lookupB (t : Node) (k : List UInt8) : Option Val := tget t (hexKey k)

abbrev Op := List UInt8 × List UInt8

def run (ops : List Op) : Node := ops.foldl (fun t op => update t op.1 op.2) .empty

/-- does any exported operation of the sequence reach one of the Go panics listed above? -/
def runPanics : Node → List Op → Bool
  | _, [] => false
  | t, op :: ops =>
    (if op.2.isEmpty then delPanics t (hexKey op.1) else tinsertPanics t (hexKey op.1)) ||
    runPanics (update t op.1 op.2) ops

/-- the reference map: last write wins, an empty value removes -/
def stepMap (m : List UInt8 → Option Val) (op : Op) : List UInt8 → Option Val :=
  fun k => if k = op.1 then (if op.2.isEmpty then none else some op.2) else m k

def applyMap (ops : List Op) : List UInt8 → Option Val := ops.foldl stepMap (fun _ => none)

/-- strict lexicographic order on hex paths (`bytes.Compare(a, b) < 0`) -/
def nibsLt : List Nib → List Nib → Bool
  | [], [] => false
  | [], _ :: _ => true
  | _ :: _, [] => false
  | a :: as, b :: bs => if a.val < b.val then true else if b.val < a.val then false else nibsLt as bs

/-- what `NewIterator(t.NodeIterator(start))` yields: `seek` skips every node whose path is
`< keybytesToHex(start)` without its terminator. -/
def leavesFrom (t : Node) (start : List UInt8) : List (List Nib × Val) :=
  (leaves t).filter fun pv => !nibsLt pv.1 (hexNibs start)

end YouVerif.C13
