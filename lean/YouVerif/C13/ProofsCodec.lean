/-
C13 — the node codec: `decodeNode (rlp.Encode (collapsed n))` is the node again (in decoded form `toP`),
for every stored node of a trie built through the API; and stepping through the decoded node is
stepping through the node (`Codec`).
-/
import YouVerif.C13.ProofsRlp
import YouVerif.C13.ProofsCompact
import YouVerif.C13.ProofsComplete
namespace YouVerif.C13
open YouVerif.Common YouVerif.Common.Rlp
open YouVerif.C14 (encode_list encode_ne_nil encode_str_len_ge encodeLength_len_pos)

/-! ### values sit only below a terminator and are never empty -/

def NoStray : Node → Prop
  | .empty => True
  | .value v => v ≠ []
  | .short k c => (c.isValue = true → (16 : Nib) ∈ k) ∧ NoStray c
  | .full cs => (∀ i, (cs i).isValue = true → i = 16) ∧ ∀ i, NoStray (cs i)

theorem noStray_of_paths {t : Node} (hw : WF t) :
    ∀ pre : List Nib, (∀ p v, lookup t p = some v → (pre ++ p).getLast? = some 16 ∧ v ≠ []) → NoStray t := by
  induction t with
  | empty => intros; trivial
  | value v => intro pre h; exact (h [] v (by simp)).2
  | short k c ih =>
    intro pre h
    obtain ⟨hk, _, _, hwc, _, _⟩ := hw
    refine ⟨?_, ih hwc (pre ++ k) (fun p v hp => by
      have := h (k ++ p) v (by simpa using hp)
      simpa [List.append_assoc] using this)⟩
    intro hv
    cases c with
    | value v =>
      have hl : lookup (.short k (.value v)) (k ++ []) = some v := by rw [lookup_short_append]; simp
      have := (h (k ++ []) v hl).1
      simp only [List.append_nil, List.getLast?_append] at this
      cases hg : k.getLast? with
      | none => simp [List.getLast?_eq_none_iff] at hg; exact absurd hg hk
      | some x =>
        rw [hg] at this
        simp at this
        subst this
        exact List.mem_of_getLast? hg
    | _ => simp at hv
  | full cs ih =>
    intro pre h
    refine ⟨?_, fun i => ih i (hw.1 i) (pre ++ [i]) (fun p v hp => by
      have := h (i :: p) v (by simpa using hp)
      simpa [List.append_assoc] using this)⟩
    intro i hv
    cases hci : cs i with
    | value v =>
      have := (h [i] v (by simp [hci])).1
      simp [List.getLast?_append] at this
      exact this
    | _ => rw [hci] at hv; simp at hv

/-- no stored value is empty (Update with an empty value deletes) -/
def NEV (t : Node) : Prop := ∀ p v, lookup t p = some v → v ≠ []

theorem nev_update {t : Node} (hi : Inv t) (hn : NEV t) (k v : List UInt8) : NEV (update t k v) := by
  have hc := compat_of_inv hi k
  unfold update
  split
  · intro p w hp
    rw [lookup_tdelete t _ hc] at hp
    split at hp
    · simp at hp
    · exact hn p w hp
  · rename_i hv
    intro p w hp
    rw [lookup_tinsert t _ v hc] at hp
    split at hp
    · simp at hp; subst hp; intro e; subst e; simp at hv
    · exact hn p w hp

theorem nev_foldl (ops : List Op) {t : Node} (hi : Inv t) (hn : NEV t) :
    NEV (ops.foldl (fun t op => update t op.1 op.2) t) := by
  induction ops generalizing t with
  | nil => exact hn
  | cons op ops ih => exact ih (inv_update hi op.1 op.2) (nev_update hi hn op.1 op.2)

theorem nev_run (ops : List Op) : NEV (run ops) := nev_foldl ops inv_empty (by intro p v h; simp at h)

theorem noStray_of_inv {t : Node} (hi : Inv t) (hn : NEV t) : NoStray t := by
  apply noStray_of_paths hi.1 []
  intro p v hp
  obtain ⟨bs, hbs⟩ := hi.2 p (by rw [hp]; simp)
  refine ⟨?_, hn p v hp⟩
  rw [List.nil_append, hbs]; simp [hexKey]


/-! ### decoded form of a stored node -/

/-- how a child shows up after decoding: by hash, or in place -/
def toP (H : Hash) : Node → PNode
  | .empty => .nil
  | .value v => .value v
  | .short k c => .short k (if isHashed H c then .hash (H (encBytes H c)) else toP H c)
  | .full cs => .full (allNibs.map fun i => if isHashed H (cs i) then .hash (H (encBytes H (cs i))) else toP H (cs i))

def rp (H : Hash) (c : Node) : PNode := if isHashed H c then .hash (H (encBytes H c)) else toP H c

def cref (H : Hash) (c : Node) : Item := embedOrHash H (enc H c)

def maxL (l : List Nat) : Nat := l.foldr max 0

theorem le_maxL {l : List Nat} {x : Nat} (h : x ∈ l) : x ≤ maxL l := by
  induction l with
  | nil => simp at h
  | cons a as ih =>
    simp only [maxL, List.foldr_cons]
    rcases List.mem_cons.1 h with rfl | h
    · exact Nat.le_max_left _ _
    · exact Nat.le_trans (ih h) (Nat.le_max_right _ _)

/-- nesting depth of embedded (< 32 byte) nodes inside a stored node -/
def emb (H : Hash) : Node → Nat
  | .empty => 0
  | .value _ => 0
  | .short _ c => 1 + (if isHashed H c then 0 else emb H c)
  | .full cs => 1 + maxL (allNibs.map fun i => if isHashed H (cs i) then 0 else emb H (cs i))

def embc (H : Hash) (c : Node) : Nat := if isHashed H c then 0 else emb H c

/-- decoding the encoding of `n` (followed by anything) gives `toP n`, with enough fuel -/
def DecOK (H : Hash) (n : Node) : Prop :=
  ∀ fuel rest, 19 * emb H n ≤ fuel → decodeNode fuel (encBytes H n ++ rest) = .ok (toP H n)

theorem isHashed_empty (H : Hash) : isHashed H .empty = false := by simp [isHashed, enc]
theorem isHashed_value (H : Hash) (v) : isHashed H (.value v) = false := by simp [isHashed, enc]

/-- the encoding of a short or full node is an RLP list -/
theorem enc_list_of (H : Hash) {c : Node} (hv : c.isValue = false) (he : c.isEmpty = false) :
    ∃ l, enc H c = .list l := by
  cases c with
  | empty => simp at he
  | value v => simp at hv
  | short k c => exact ⟨_, rfl⟩
  | full cs => exact ⟨_, rfl⟩

theorem cref_cases (H : Hash) {c : Node} (hv : c.isValue = false) (he : c.isEmpty = false) :
    (isHashed H c = true ∧ cref H c = .str (H (encBytes H c))) ∨
    (isHashed H c = false ∧ cref H c = enc H c ∧ (encBytes H c).length < 32 ∧ ∃ l, enc H c = .list l) := by
  obtain ⟨l, hl⟩ := enc_list_of H hv he
  by_cases hlen : (Rlp.encode (.list l)).length < 32
  · right
    refine ⟨by simp [isHashed, hl]; omega, by simp [cref, hl, embedOrHash, hlen], by simpa [encBytes, hl] using hlen, l, hl⟩
  · left
    refine ⟨by simp [isHashed, hl]; omega, by simp [cref, hl, embedOrHash, hlen, encBytes]⟩

theorem decodeRef_cref (H : Hash) (h32 : ∀ x, (H x).length = 32) {c : Node} (hv : c.isValue = false)
    (hdec : c.isEmpty = false → isHashed H c = false → DecOK H c) :
    ∀ f rest, 19 * embc H c ≤ f → decodeRef (f + 1) (Rlp.encode (cref H c) ++ rest) = .ok (rp H c, rest) := by
  intro f rest hf
  cases he : c.isEmpty with
  | true =>
    have hc : c = .empty := isEmpty_eq_true.1 he
    subst hc
    have hs := split_encode (.str []) rest (by simp [payload])
    have hcr : cref H .empty = .str [] := by simp [cref, enc, embedOrHash]
    simp only [decodeRef, hcr, hs, kindOf, payload]
    simp [rp, isHashed_empty, toP]
  | false =>
    rcases cref_cases H hv he with ⟨hh, hcr⟩ | ⟨hh, hcr, hlen, l, hl⟩
    · have hs := split_encode (.str (H (encBytes H c))) rest (by simp [payload, h32])
      have hk : kindOf (.str (H (encBytes H c))) = .string := by
        have := h32 (encBytes H c)
        match hx : H (encBytes H c), this with
        | a :: b :: _, _ => rfl
      simp only [decodeRef, hcr, hs, hk, payload, h32]
      simp [rp, hh]
    · have hpl : (payload (.list l)).length < 2 ^ 64 := by
        have := payload_le (.list l)
        rw [← hl] at this
        have h2 : (Rlp.encode (enc H c)).length < 32 := hlen
        have : (payload (.list l)).length < 32 := by rw [hl] at h2 this; omega
        omega
      have hs := split_encode (.list l) rest hpl
      have hdn := hdec he hh f rest (by simpa [embc, hh] using hf)
      rw [hcr, hl]
      rw [show encBytes H c = Rlp.encode (.list l) by simp [encBytes, hl]] at hdn hlen
      simp only [decodeRef, hs, kindOf, hdn]
      have : ¬ (32 < (Rlp.encode (.list l)).length) := by omega
      simp [this, rp, hh]


theorem encodeList_append (a b : List Item) : encodeList (a ++ b) = encodeList a ++ encodeList b := by
  induction a with
  | nil => simp [encodeList]
  | cons x xs ih => simp [encodeList, ih]

theorem decodeRefs_list (H : Hash) (h32 : ∀ x, (H x).length = 32) (l : List Node)
    (hv : ∀ c ∈ l, c.isValue = false)
    (hdec : ∀ c ∈ l, c.isEmpty = false → isHashed H c = false → DecOK H c) :
    ∀ fuel rest, l.length + 1 ≤ fuel → (∀ c ∈ l, 19 * embc H c + l.length + 1 ≤ fuel) →
      decodeRefs fuel l.length (encodeList (l.map (cref H)) ++ rest) = .ok (l.map (rp H), rest) := by
  induction l with
  | nil =>
    intro fuel rest hf _
    cases fuel with
    | zero => omega
    | succ f => simp [decodeRefs, encodeList]
  | cons c cs ih =>
    intro fuel rest hf hall
    cases fuel with
    | zero => omega
    | succ f =>
      have hc := hall c (by simp)
      simp only [List.length_cons] at hf hc
      cases f with
      | zero => omega
      | succ f' =>
        have h1 := decodeRef_cref H h32 (hv c (by simp)) (hdec c (by simp)) f'
          (encodeList (cs.map (cref H)) ++ rest) (by omega)
        have h2 := ih (fun c' hc' => hv c' (by simp [hc'])) (fun c' hc' => hdec c' (by simp [hc']))
          (f' + 1) rest (by omega) (fun c' hc' => by
            have := hall c' (by simp [hc'])
            simp only [List.length_cons] at this
            omega)
        simp only [List.map_cons, encodeList, List.length_cons, List.append_assoc]
        rw [decodeRefs]
        simp only [h1, h2]


def first16 : List Nib := [0, 1, 2, 3, 4, 5, 6, 7, 8, 9, 10, 11, 12, 13, 14, 15]
theorem allNibs_split : allNibs = first16 ++ [16] := by decide
theorem first16_ne16 : ∀ i ∈ first16, i ≠ 16 := by decide

theorem encode_isEmpty (it : Item) (rest : List UInt8) : (Rlp.encode it ++ rest).isEmpty = false := by
  cases h : Rlp.encode it with
  | nil => exact absurd h (encode_ne_nil it)
  | cons _ _ => rfl

theorem encode_le_encodeList {it : Item} {is : List Item} (h : it ∈ is) :
    (Rlp.encode it).length ≤ (encodeList is).length := by
  induction is with
  | nil => simp at h
  | cons a as ih =>
    simp only [encodeList, List.length_append]
    rcases List.mem_cons.1 h with rfl | h
    · omega
    · have := ih h; omega

theorem hasTerm_of_mem {k : List Nib} (ht : TermLast k) (hm : (16 : Nib) ∈ k) : hasTerm k = true := by
  rcases termLast_cases ht with ⟨h, _⟩ | ⟨_, _, _, h⟩
  · exact absurd hm h
  · exact h

theorem mem_of_hasTerm {k : List Nib} (h : hasTerm k = true) : (16 : Nib) ∈ k := by
  unfold hasTerm at h
  exact List.mem_of_getLast? (by simpa using h)

/-- **decodeNode ∘ encode** on a stored node -/
theorem decOK (H : Hash) (h32 : ∀ x, (H x).length = 32) :
    ∀ n : Node, WF n → NoStray n → n.isValue = false → n.isEmpty = false →
      (encBytes H n).length < 2 ^ 64 → DecOK H n := by
  intro n
  induction n with
  | empty => intro _ _ _ he; simp at he
  | value v => intro _ _ hv; simp at hv
  | short k c ih =>
    intro hw hs _ _ hlen fuel rest hf
    obtain ⟨hk, hne, hns, hwc, htk, hvk⟩ := hw
    obtain ⟨hstray, hsc⟩ := hs
    have henc : encBytes H (.short k c) = Rlp.encode (.list [.str (compact k), cref H c]) := rfl
    have hpl : (encodeList [.str (compact k), cref H c]).length < 2 ^ 64 := by
      have := payload_le (.list [.str (compact k), cref H c])
      rw [henc] at hlen; simp only [payload] at this; omega
    have hemb : emb H (.short k c) = 1 + embc H c := rfl
    cases fuel with
    | zero => omega
    | succ f =>
      rw [henc, decodeNode, encode_isEmpty]
      simp only [Bool.false_eq_true, if_false, splitList_encode _ rest hpl]
      have hcount := countValues_encodeList [.str (compact k), cref H c] 0 hpl
        ((encodeList [.str (compact k), cref H c]).length + 1) (by omega)
      simp only [hcount, List.length_cons, List.length_nil, Nat.zero_add, if_true]
      have hck : (compact k).length < 2 ^ 64 := by
        have h1 := encode_str_len_ge (compact k)
        have h2 := encode_le_encodeList (it := .str (compact k)) (is := [.str (compact k), cref H c]) (by simp)
        omega
      have hel : encodeList [.str (compact k), cref H c] =
          Rlp.encode (.str (compact k)) ++ (Rlp.encode (cref H c) ++ []) := by simp [encodeList]
      rw [hel, splitString_encode _ _ hck]
      simp only [compactToHex_compact htk]
      cases hterm : hasTerm k with
      | true =>
        have hcv := hvk (mem_of_hasTerm hterm)
        cases c with
        | value v =>
          have hcr : cref H (.value v) = .str v := by simp [cref, enc, embedOrHash]
          have hvl : v.length < 2 ^ 64 := by
            have h1 : v.length ≤ (Rlp.encode (cref H (.value v))).length := by rw [hcr]; exact encode_str_len_ge v
            have h2 := encode_le_encodeList (it := cref H (.value v)) (is := [.str (compact k), cref H (.value v)]) (by simp)
            omega
          simp only [if_true, hcr, splitString_encode _ _ hvl]
          simp [toP, isHashed_value]
        | _ => simp at hcv
      | false =>
        have hcv : c.isValue = false := by
          cases hcv : c.isValue with
          | false => rfl
          | true => rw [hasTerm_of_mem htk (hstray hcv)] at hterm; exact absurd hterm (by simp)
        simp only [Bool.false_eq_true, if_false]
        cases f with
        | zero => omega
        | succ f' =>
          have hdec : c.isEmpty = false → isHashed H c = false → DecOK H c := by
            intro he hh
            apply ih hwc hsc hcv he
            rcases cref_cases H hcv he with ⟨h1, _⟩ | ⟨_, _, h3, _⟩
            · rw [h1] at hh; simp at hh
            · omega
          rw [decodeRef_cref H h32 hcv hdec f' [] (by omega)]
          simp [toP, rp]
  | full cs ih =>
    intro hw hs _ _ hlen fuel rest hf
    obtain ⟨hch, _, h16⟩ := hw
    obtain ⟨hstray, hsc⟩ := hs
    have hitems : (allNibs.map fun i => embedOrHash H (enc H (cs i))) =
        (first16.map cs).map (cref H) ++ [cref H (cs 16)] := by
      rw [allNibs_split]; simp [cref, List.map_append, Function.comp_def]
    have henc : encBytes H (.full cs) = Rlp.encode (.list ((first16.map cs).map (cref H) ++ [cref H (cs 16)])) := by
      simp only [encBytes, enc, hitems]
    have hpl : (encodeList ((first16.map cs).map (cref H) ++ [cref H (cs 16)])).length < 2 ^ 64 := by
      have := payload_le (.list ((first16.map cs).map (cref H) ++ [cref H (cs 16)]))
      rw [henc] at hlen; simp only [payload] at this; omega
    have hM : ∀ i, embc H (cs i) + 1 ≤ emb H (.full cs) := by
      intro i
      have : embc H (cs i) ∈ allNibs.map fun i => if isHashed H (cs i) then 0 else emb H (cs i) :=
        List.mem_map.2 ⟨i, mem_allNibs i, rfl⟩
      have := le_maxL this
      simp only [emb]; omega
    cases fuel with
    | zero => have := hM 0; omega
    | succ f =>
      rw [henc, decodeNode, encode_isEmpty]
      simp only [Bool.false_eq_true, if_false, splitList_encode _ rest hpl]
      have hcount := countValues_encodeList ((first16.map cs).map (cref H) ++ [cref H (cs 16)]) 0 hpl
        ((encodeList ((first16.map cs).map (cref H) ++ [cref H (cs 16)])).length + 1) (by omega)
      have hl17 : ((first16.map cs).map (cref H) ++ [cref H (cs 16)]).length = 17 := by simp [first16]
      rw [hl17] at hcount
      simp only [hcount, Nat.zero_add]
      have e172 : ¬ ((17 : Nat) = 2) := by decide
      simp only [e172, if_false, if_true]
      have hv16 : ∀ c ∈ first16.map cs, c.isValue = false := by
        intro c hc
        obtain ⟨i, hi, rfl⟩ := List.mem_map.1 hc
        cases hcv : (cs i).isValue with
        | false => rfl
        | true => exact absurd (hstray i hcv) (first16_ne16 i hi)
      have hdec16 : ∀ c ∈ first16.map cs, c.isEmpty = false → isHashed H c = false → DecOK H c := by
        intro c hc he hh
        obtain ⟨i, hi, rfl⟩ := List.mem_map.1 hc
        apply ih i (hch i) (hsc i) (hv16 _ hc) he
        rcases cref_cases H (hv16 _ hc) he with ⟨h1, _⟩ | ⟨_, _, h3, _⟩
        · rw [h1] at hh; simp at hh
        · omega
      have hrefs := decodeRefs_list H h32 (first16.map cs) hv16 hdec16 f (Rlp.encode (cref H (cs 16)) ++ [])
        (by simp [first16]; have := hM 0; omega)
        (by
          intro c hc
          obtain ⟨i, _, rfl⟩ := List.mem_map.1 hc
          have := hM i
          simp [first16]; omega)
      have hl16 : (first16.map cs).length = 16 := by simp [first16]
      rw [hl16] at hrefs
      rw [encodeList_append]
      have hlast : encodeList [cref H (cs 16)] = Rlp.encode (cref H (cs 16)) ++ [] := by simp [encodeList]
      rw [hlast, hrefs]
      simp only
      -- slot 17: nothing or a (non-empty) value
      have htop : toP H (.full cs) = .full ((first16.map cs).map (rp H) ++ [rp H (cs 16)]) := by
        simp only [toP]
        rw [allNibs_split]; simp [rp, List.map_append, Function.comp_def]
      rw [htop]
      rcases h16 with h | h
      · have hc : cs 16 = .empty := isEmpty_eq_true.1 h
        have hcr : cref H (cs 16) = .str [] := by rw [hc]; simp [cref, enc, embedOrHash]
        rw [hcr, splitString_encode [] [] (by simp)]
        simp [hc, rp, isHashed_empty, toP]
      · cases hc : cs 16 with
        | value v =>
          have hcr : cref H (.value v) = .str v := by simp [cref, enc, embedOrHash]
          have hvne : v ≠ [] := by have := hsc 16; rw [hc] at this; exact this
          have hvl : v.length < 2 ^ 64 := by
            have h1 : v.length ≤ (Rlp.encode (cref H (cs 16))).length := by rw [hc, hcr]; exact encode_str_len_ge v
            have h2 := encode_le_encodeList (it := cref H (cs 16))
              (is := (first16.map cs).map (cref H) ++ [cref H (cs 16)]) (by simp)
            omega
          rw [hcr, splitString_encode v [] hvl]
          have : v.isEmpty = false := by cases v <;> simp_all
          simp [this, rp, isHashed_value, toP]
        | _ => rw [hc] at h; simp at h


/-! ### stepping through the decoded node is stepping through the node -/

theorem getD_allNibs_map {α : Type} (g : Nib → α) (i : Nib) (d : α) : (allNibs.map g).getD i.val d = g i := by
  have := i.isLt
  simp [allNibs, List.getD, this]

theorem pget_rp (H : Hash) (c : Node) (f : Nat) (rest : List Nib)
    (ih : ∀ fuel key, emb H c + 1 ≤ fuel → pget fuel (toP H c) key = nstep H c key) (hf : embc H c + 1 ≤ f) :
    pget f (rp H c) rest = if isHashed H c then .next rest (H (encBytes H c)) else nstep H c rest := by
  unfold rp
  cases hh : isHashed H c with
  | true =>
    cases f with
    | zero => omega
    | succ f' => simp [pget]
  | false =>
    simp only [Bool.false_eq_true, if_false]
    exact ih f rest (by simpa [embc, hh] using hf)

theorem pget_toP (H : Hash) : ∀ (n : Node) (fuel : Nat) (key : List Nib), emb H n + 1 ≤ fuel →
    pget fuel (toP H n) key = nstep H n key := by
  intro n
  induction n with
  | empty => intro fuel key hf; cases fuel with
    | zero => omega
    | succ f => simp [pget, toP, nstep]
  | value v => intro fuel key hf; cases fuel with
    | zero => omega
    | succ f => simp [pget, toP, nstep]
  | short k c ih =>
    intro fuel key hf
    cases fuel with
    | zero => omega
    | succ f =>
      have hemb : emb H (.short k c) = 1 + embc H c := rfl
      have hr := fun rest => pget_rp H c f rest ih (by omega)
      simp only [toP, pget, nstep]
      split <;> simp_all [rp]
  | full cs ih =>
    intro fuel key hf
    cases fuel with
    | zero => omega
    | succ f =>
      cases key with
      | nil => simp [toP, pget, nstep]
      | cons i rest =>
        have hM : embc H (cs i) + 1 ≤ emb H (.full cs) := by
          have : embc H (cs i) ∈ allNibs.map fun i => if isHashed H (cs i) then 0 else emb H (cs i) :=
            List.mem_map.2 ⟨i, mem_allNibs i, rfl⟩
          have := le_maxL this
          simp only [emb]; omega
        have hr := pget_rp H (cs i) f rest (ih i) (by omega)
        simp only [toP, pget, nstep, getD_allNibs_map]
        exact hr

/-! ### embedding depth is bounded by the encoding length -/

theorem cref_of_not_hashed (H : Hash) {c : Node} (h : isHashed H c = false) : cref H c = enc H c := by
  unfold cref embedOrHash
  unfold isHashed at h
  split
  · rename_i s he; rw [he]
  · rename_i l he
    rw [he] at h
    simp only [decide_eq_false_iff_not, Nat.not_le] at h
    simp [he, h]

theorem maxL_le {l : List Nat} {b : Nat} (h : ∀ x ∈ l, x ≤ b) : maxL l ≤ b := by
  induction l with
  | nil => simp [maxL]
  | cons a as ih =>
    simp only [maxL, List.foldr_cons]
    exact Nat.max_le.2 ⟨h a (by simp), ih (fun x hx => h x (by simp [hx]))⟩

theorem emb_le_len (H : Hash) : ∀ n : Node, emb H n ≤ (encBytes H n).length := by
  intro n
  induction n with
  | empty => simp [emb]
  | value v => simp [emb]
  | short k c ih =>
    have henc : encBytes H (.short k c) = Rlp.encode (.list [.str (compact k), cref H c]) := rfl
    have h1 := payload_le (.list [.str (compact k), cref H c])
    have h2 := encode_le_encodeList (it := cref H c) (is := [.str (compact k), cref H c]) (by simp)
    have h3 := encodeLength_len_pos (encodeList [.str (compact k), cref H c]).length 192
    rw [henc, encode_list]
    simp only [List.length_append, emb]
    split
    · have := encode_ne_nil (cref H c)
      have : (Rlp.encode (cref H c)).length ≠ 0 := by simpa using this
      omega
    · rename_i hh
      have hh' : isHashed H c = false := by simpa using hh
      have : (Rlp.encode (cref H c)).length = (encBytes H c).length := by rw [cref_of_not_hashed H hh']; rfl
      omega
  | full cs ih =>
    have henc : encBytes H (.full cs) = Rlp.encode (.list (allNibs.map fun i => cref H (cs i))) := rfl
    have h3 := encodeLength_len_pos (encodeList (allNibs.map fun i => cref H (cs i))).length 192
    rw [henc, encode_list]
    simp only [List.length_append, emb]
    have : maxL (allNibs.map fun i => if isHashed H (cs i) then 0 else emb H (cs i)) ≤
        (encodeList (allNibs.map fun i => cref H (cs i))).length := by
      apply maxL_le
      intro x hx
      obtain ⟨i, _, rfl⟩ := List.mem_map.1 hx
      have h2 := encode_le_encodeList (it := cref H (cs i)) (is := allNibs.map fun i => cref H (cs i))
        (List.mem_map.2 ⟨i, mem_allNibs i, rfl⟩)
      split
      · omega
      · rename_i hh
        have hh' : isHashed H (cs i) = false := by simpa using hh
        have : (Rlp.encode (cref H (cs i))).length = (encBytes H (cs i)).length := by
          rw [cref_of_not_hashed H hh']; rfl
        have := ih i
        omega
    omega

/-- **the codec hypothesis holds** of every stored short/full node -/
theorem codec_of (H : Hash) (h32 : ∀ x, (H x).length = 32) {n : Node} (hw : WF n) (hs : NoStray n)
    (hv : n.isValue = false) (he : n.isEmpty = false) (hlen : (encBytes H n).length < 2 ^ 64) : Codec H n := by
  have hemb := emb_le_len H n
  refine ⟨toP H n, ?_, fun key => pget_toP H n _ key (by omega)⟩
  have := decOK H h32 n hw hs hv he hlen (decodeFuel (encBytes H n)) [] (by simp only [decodeFuel]; omega)
  simpa using this

theorem pathNodes_sub {t : Node} (hw : WF t) (hs : NoStray t) :
    ∀ key m, m ∈ pathNodes t key → WF m ∧ NoStray m ∧ m.isValue = false ∧ m.isEmpty = false := by
  induction t with
  | empty => intro key m hm; cases key <;> simp [pathNodes] at hm
  | value v => intro key m hm; cases key <;> simp [pathNodes] at hm
  | short k c ih =>
    intro key m hm
    cases key with
    | nil => simp [pathNodes] at hm
    | cons x xs =>
      simp only [pathNodes, List.mem_cons] at hm
      rcases hm with rfl | hm
      · exact ⟨hw, hs, rfl, rfl⟩
      · split at hm
        · exact ih hw.2.2.2.1 hs.2 _ m hm
        · simp at hm
  | full cs ih =>
    intro key m hm
    cases key with
    | nil => simp [pathNodes] at hm
    | cons i r =>
      simp only [pathNodes, List.mem_cons] at hm
      rcases hm with rfl | hm
      · exact ⟨hw, hs, rfl, rfl⟩
      · exact ih i (hw.1 i) (hs.2 i) _ m hm


/-- the honest proof verifies to `lookup` given the codec hypothesis on the path (then discharged by `codec_of`) -/
theorem verify_complete_of_codec (H : Hash) (t : Node) (hinv : Inv t) (hne : t.isEmpty = false)
    (k : List UInt8) (hcodec : ∀ m ∈ pathNodes t (hexKey k), Codec H m) :
    verify H (rootHash H t) (hexKey k) (prove H t (hexKey k)) = answer (lookupB t k) ∨
      ∃ x y : List UInt8, x ≠ y ∧ H x = H y := by
  have hk : hexKey k ≠ [] := by simp [hexKey]
  have hc := compat_of_inv hinv k
  rw [lookupB_eq_lookup hinv]
  obtain ⟨x, xs, hx⟩ : ∃ x xs, hexKey k = x :: xs := by
    cases h : hexKey k with
    | nil => exact absurd h hk
    | cons x xs => exact ⟨x, xs, rfl⟩
  have hv := inv_root_shape hinv hne
  have hhead : ∃ tl, pathNodes t (hexKey k) = t :: tl := by
    rw [hx]
    cases t with
    | empty => simp at hne
    | value v => simp at hv
    | short k n => simp only [pathNodes]; exact ⟨_, rfl⟩
    | full cs => simp only [pathNodes]; exact ⟨_, rfl⟩
  obtain ⟨tl, htl⟩ := hhead
  have htmem : t ∈ pathNodes t (hexKey k) := by rw [htl]; simp
  have hroot : encBytes H t ∈ prove H t (hexKey k) := by
    simp [prove, htl, proofElems]
  unfold verify rootHash
  apply verify_walk H _ (hexKey k).length t (hexKey k) _ (pathNodes_length hinv.1 _) hinv.1 hk hc hroot
    (hcodec t htmem)
  · intro m hm hmh
    exact ⟨by simp only [prove, List.drop_zero]; exact mem_proofElems 0 hm (isHashed_len hmh), hcodec m hm⟩
  · simp [verifyFuel]; omega


end YouVerif.C13
