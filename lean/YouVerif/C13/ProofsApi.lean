/-
C13 — from hex keys to the exported byte-key API: `keybytesToHex` keys form a prefix-free set with
the terminator last, so every exported operation is compatible with the trie it meets; the run
invariant; refinement of the reference map; history independence.
-/
import YouVerif.C13.ProofsCanon
namespace YouVerif.C13

/-! ### keybytesToHex -/

theorem nibHi_ne16 (b : UInt8) : nibHi b ≠ 16 := by
  intro h
  have := congrArg Fin.val h
  have hb := b.toNat_lt
  simp [nibHi] at this
  omega

theorem nibLo_ne16 (b : UInt8) : nibLo b ≠ 16 := by
  intro h
  have := congrArg Fin.val h
  simp [nibLo] at this
  omega

theorem not_mem_hexNibs (bs : List UInt8) : (16 : Nib) ∉ hexNibs bs := by
  induction bs with
  | nil => simp [hexNibs]
  | cons b bs ih =>
    simp only [hexNibs, List.mem_cons, not_or]
    exact ⟨fun h => nibHi_ne16 b h.symm, fun h => nibLo_ne16 b h.symm, ih⟩

theorem termLast_hexKey (bs : List UInt8) : TermLast (hexKey bs) :=
  termLast_append (not_mem_hexNibs bs) (termLast_single 16)

theorem byte_of_nibs {a b : UInt8} (h1 : nibHi a = nibHi b) (h2 : nibLo a = nibLo b) : a = b := by
  apply UInt8.toNat_inj.1
  have e1 := congrArg Fin.val h1
  have e2 := congrArg Fin.val h2
  simp [nibHi, nibLo] at e1 e2
  omega

theorem hexNibs_inj {a b : List UInt8} (h : hexNibs a = hexNibs b) : a = b := by
  induction a generalizing b with
  | nil => cases b <;> simp_all [hexNibs]
  | cons x xs ih =>
    cases b with
    | nil => simp [hexNibs] at h
    | cons y ys =>
      simp only [hexNibs, List.cons.injEq] at h
      rw [byte_of_nibs h.1 h.2.1, ih h.2.2]

theorem hexKey_inj {a b : List UInt8} (h : hexKey a = hexKey b) : a = b := by
  unfold hexKey at h
  exact hexNibs_inj (List.append_cancel_right h)

def IsHexKey (key : List Nib) : Prop := ∃ bs, key = hexKey bs

theorem prefixFree_hexKey : PrefixFree IsHexKey := by
  intro a b ⟨a0, ha⟩ ⟨c, hc⟩
  subst ha
  have := termLast_hexKey c (hexNibs a0) b (by rw [← hc]; simp [hexKey])
  exact this

/-! ### the Go-faithful `tget` agrees with `lookup`, and nothing panics, on compatible keys -/

theorem tget_eq_lookup {t : Node} {key : List Nib} (hc : Compat t key) : tget t key = lookup t key := by
  induction t generalizing key with
  | empty => simp [tget]
  | value v => have : key = [] := hc; subst this; simp [tget]
  | short k n ih =>
    rcases splitCommon_cases key k with ⟨r, hkey, hs⟩ | ⟨p, a, as, b, bs, hkey, hk2, hne2, hs⟩ | ⟨b, bs, hk2, hs⟩
    · rw [hkey] at hc
      simp only [tget, lookup, hs]
      exact ih (compat_short_append.1 hc)
    · simp [tget, lookup, hs]
    · simp [tget, lookup, hs]
  | full cs ih =>
    cases key with
    | nil => simp [tget]
    | cons i r => simp only [tget, lookup]; exact ih i (compat_full_cons.1 hc)

theorem no_panic_of_compat {t : Node} {key : List Nib} (hc : Compat t key) :
    tinsertPanics t key = false ∧ tgetPanics t key = false ∧ delPanics t key = false := by
  induction t generalizing key with
  | empty => cases key <;> simp [tinsertPanics, tgetPanics, delPanics]
  | value v => have : key = [] := hc; subst this; simp [tinsertPanics, tgetPanics, delPanics]
  | short k n ih =>
    rcases splitCommon_cases key k with ⟨r, hkey, hs⟩ | ⟨p, a, as, b, bs, hkey, hk2, hne2, hs⟩ | ⟨b, bs, hk2, hs⟩
    · have hc' : Compat n r := by rw [hkey] at hc; exact compat_short_append.1 hc
      have := ih hc'
      refine ⟨?_, ?_, ?_⟩
      · cases key with
        | nil => simp [tinsertPanics]
        | cons x xs => simp only [tinsertPanics, hs]; exact this.1
      · simp only [tgetPanics, hs]; exact this.2.1
      · cases r with
        | nil => simp [delPanics, hs]
        | cons r0 rs => simp only [delPanics, hs]; exact this.2.2
    · refine ⟨?_, ?_, ?_⟩
      · cases key with
        | nil => simp [tinsertPanics]
        | cons x xs => simp [tinsertPanics, hs]
      · simp [tgetPanics, hs]
      · simp [delPanics, hs]
    · simp [Compat, hs] at hc
  | full cs ih =>
    cases key with
    | nil => simp [Compat] at hc
    | cons i r =>
      have := ih i (compat_full_cons.1 hc)
      simp only [tinsertPanics, tgetPanics, delPanics]
      exact this

/-! ### the run invariant -/

/-- what holds of every trie reachable through `Update`/`Delete` on byte keys -/
def Inv (t : Node) : Prop := WF t ∧ ∀ p, lookup t p ≠ none → IsHexKey p

theorem inv_empty : Inv .empty := ⟨trivial, by simp⟩

theorem compat_of_inv {t : Node} (h : Inv t) (k : List UInt8) : Compat t (hexKey k) :=
  compat_of_prefixFree h.1 IsHexKey prefixFree_hexKey h.2 (hexKey k) ⟨k, rfl⟩

theorem inv_update {t : Node} (h : Inv t) (k v : List UInt8) : Inv (update t k v) := by
  have hc := compat_of_inv h k
  unfold update
  split
  · refine ⟨wf_tdelete t _ h.1 hc, ?_⟩
    intro p hp
    rw [lookup_tdelete t _ hc] at hp
    split at hp
    · simp at hp
    · exact h.2 p hp
  · refine ⟨wf_tinsert t _ v h.1 hc (termLast_hexKey k), ?_⟩
    intro p hp
    rw [lookup_tinsert t _ v hc] at hp
    split at hp
    · rename_i e; exact ⟨k, e⟩
    · exact h.2 p hp

theorem lookupB_eq_lookup {t : Node} (h : Inv t) (k : List UInt8) : lookupB t k = lookup t (hexKey k) :=
  tget_eq_lookup (compat_of_inv h k)

theorem lookupB_update {t : Node} (h : Inv t) (k v k' : List UInt8) :
    lookupB (update t k v) k' = stepMap (lookupB t) (k, v) k' := by
  rw [lookupB_eq_lookup (inv_update h k v), stepMap, lookupB_eq_lookup h]
  have hc := compat_of_inv h k
  unfold update
  by_cases hk : k' = k
  · subst hk
    split
    · simp [lookup_tdelete t _ hc, *]
    · simp [lookup_tinsert t _ v hc, *]
  · have hne : hexKey k' ≠ hexKey k := fun e => hk (hexKey_inj e)
    split
    · simp [lookup_tdelete t _ hc, hne]
    · simp [lookup_tinsert t _ v hc, hne]

theorem inv_foldl (ops : List Op) {t : Node} (h : Inv t) :
    Inv (ops.foldl (fun t op => update t op.1 op.2) t) := by
  induction ops generalizing t with
  | nil => exact h
  | cons op ops ih => exact ih (inv_update h op.1 op.2)

theorem lookupB_foldl (ops : List Op) {t : Node} (h : Inv t) (k : List UInt8) :
    lookupB (ops.foldl (fun t op => update t op.1 op.2) t) k = ops.foldl stepMap (lookupB t) k := by
  induction ops generalizing t with
  | nil => rfl
  | cons op ops ih =>
    simp only [List.foldl_cons]
    rw [ih (inv_update h op.1 op.2)]
    have : lookupB (update t op.1 op.2) = stepMap (lookupB t) op := by
      funext k'; exact lookupB_update h op.1 op.2 k'
    rw [this]

theorem inv_run (ops : List Op) : Inv (run ops) := inv_foldl ops inv_empty

theorem runPanics_false {t : Node} (h : Inv t) (ops : List Op) : runPanics t ops = false := by
  induction ops generalizing t with
  | nil => rfl
  | cons op ops ih =>
    have hp := no_panic_of_compat (compat_of_inv h op.1)
    simp only [runPanics, Bool.or_eq_false_iff]
    refine ⟨?_, ih (inv_update h op.1 op.2)⟩
    split
    · exact hp.2.2
    · exact hp.1

/-- two tries satisfying the run invariant that answer every `Get` alike are the same tree -/
theorem canonical_api {t1 t2 : Node} (h1 : Inv t1) (h2 : Inv t2)
    (heq : ∀ k, lookupB t1 k = lookupB t2 k) : t1 = t2 := by
  apply canonical h1.1 h2.1
  intro key
  by_cases hk : IsHexKey key
  · obtain ⟨k, rfl⟩ := hk
    rw [← lookupB_eq_lookup h1, ← lookupB_eq_lookup h2]
    exact heq k
  · have e1 : lookup t1 key = none := by
      cases h : lookup t1 key with
      | none => rfl
      | some v => exact absurd (h1.2 key (by simp [h])) hk
    have e2 : lookup t2 key = none := by
      cases h : lookup t2 key with
      | none => rfl
      | some v => exact absurd (h2.2 key (by simp [h])) hk
    rw [e1, e2]

end YouVerif.C13
