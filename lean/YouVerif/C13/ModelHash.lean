/-
C13 — hashing, proofs and their verification (trie/hasher.go, trie/node.go decodeNode,
trie/encoding.go compact keys, trie/proof.go, trie/secure_trie.go hashKey,
core/types/derive_sha.go).  The hash is a parameter `H`; the driver instantiates Keccak-256.
Core Lean only.
-/
import YouVerif.C13.Model
import YouVerif.Common.Rlp
import YouVerif.Common.Hex
namespace YouVerif.C13
open YouVerif.Common
open YouVerif.Common.Rlp (Item)

abbrev Hash := List UInt8 → List UInt8

/-! ### compact (hex-prefix) key encoding -/

def hasTerm (k : List Nib) : Bool := k.getLast? == some 16

def packNibs : List Nib → List UInt8
  | a :: b :: r => UInt8.ofNat (a.val * 16 + b.val) :: packNibs r
  | _ => []

/-- `hexToCompact` -/
def compact (k : List Nib) : List UInt8 :=
  let t := hasTerm k
  let hex := if t then k.dropLast else k
  let flag : Nat := if t then 32 else 0
  if hex.length % 2 = 1 then
    match hex with
    | h :: rest => UInt8.ofNat (flag + 16 + h.val) :: packNibs rest
    | [] => [UInt8.ofNat flag]
  else UInt8.ofNat flag :: packNibs hex

/-! ### hasher: collapsed form as an RLP item -/

/-- `hasher.store(collapsed, force = false)` for a child: strings (values, nil) stay, a node whose
encoding is shorter than 32 bytes is embedded, anything else is replaced by its hash. -/
def embedOrHash (H : Hash) (it : Item) : Item :=
  match it with
  | .str s => .str s
  | .list l =>
    let bs := Rlp.encode (.list l)
    if bs.length < 32 then .list l else .str (H bs)

/-- `hashChildren` + RLP shape of the collapsed node (`nilValueNode` for absent children). -/
def enc (H : Hash) : Node → Item
  | .empty => .str []
  | .value v => .str v
  | .short k n => .list [.str (compact k), embedOrHash H (enc H n)]
  | .full cs => .list (allNibs.map fun i => embedOrHash H (enc H (cs i)))

def encBytes (H : Hash) (n : Node) : List UInt8 := Rlp.encode (enc H n)

/-- `Trie.Hash()`: the root is always hashed (`force = true`); the empty trie gives
`H(rlp(""))`, which is the constant `emptyRoot` for Keccak-256. -/
def rootHash (H : Hash) (t : Node) : List UInt8 := H (encBytes H t)

/-! ### Prove -/

/-- the nodes `Prove` collects on the way to `key` -/
def pathNodes : Node → List Nib → List Node
  | _, [] => []
  | .empty, _ :: _ => []
  | .value _, _ :: _ => []                       -- Go: panic("invalid node"); unreachable for API keys
  | .short k n, x :: xs =>
    .short k n ::
      (match splitCommon (x :: xs) k with
       | (_, rest, []) => pathNodes n rest
       | _ => [])
  | .full cs, i :: rest => .full cs :: pathNodes (cs i) rest

def proofElems (H : Hash) : Nat → List Node → List (List UInt8)
  | _, [] => []
  | i, n :: ns =>
    let bs := encBytes H n
    if i = 0 ∨ 32 ≤ bs.length then bs :: proofElems H (i + 1) ns else proofElems H (i + 1) ns

/-- `Trie.Prove(key, fromLevel, db)`: the encodings that get `Put`, in path order. -/
def prove (H : Hash) (t : Node) (key : List Nib) (fromLevel : Nat := 0) : List (List UInt8) :=
  (proofElems H 0 (pathNodes t key)).drop fromLevel

/-! ### decodeNode (node.go) on raw bytes, mirroring rlp/raw.go -/

inductive DErr where
  | err      -- Go returns an error
  | crash    -- Go panics
  deriving Repr, BEq, DecidableEq

/-- decoded proof node; children of a full node as a list of 17 -/
inductive PNode where
  | nil : PNode
  | value : List UInt8 → PNode
  | hash : List UInt8 → PNode
  | short : List Nib → PNode → PNode
  | full : List PNode → PNode
  deriving Inhabited

inductive Kind where
  | byte | string | list
  deriving BEq, DecidableEq

def readSize (b : List UInt8) (slen : Nat) : Except DErr Nat :=
  if slen > b.length then .error .err else
  let s := natOfBytesBE (b.take slen)
  if s < 56 || b.head? == some 0 then .error .err else .ok s

/-- rlp `readKind`: (kind, tagsize, contentsize) -/
def readKind (buf : List UInt8) : Except DErr (Kind × Nat × Nat) :=
  match buf with
  | [] => .error .err
  | b :: rest =>
    let t := b.toNat
    let r : Except DErr (Kind × Nat × Nat) :=
      if t < 0x80 then .ok (.byte, 0, 1)
      else if t < 0xB8 then
        let cs := t - 0x80
        if cs = 1 && (match rest with | c :: _ => decide (c.toNat < 128) | [] => false) then .error .err
        else .ok (.string, 1, cs)
      else if t < 0xC0 then
        match readSize rest (t - 0xB7) with
        | .error e => .error e
        | .ok s => .ok (.string, t - 0xB7 + 1, s)
      else if t < 0xF8 then .ok (.list, 1, t - 0xC0)
      else
        match readSize rest (t - 0xF7) with
        | .error e => .error e
        | .ok s => .ok (.list, t - 0xF7 + 1, s)
    match r with
    | .error e => .error e
    | .ok (k, ts, cs) => if cs > buf.length - ts then .error .err else .ok (k, ts, cs)

/-- rlp `Split`: (kind, content, rest) -/
def split (buf : List UInt8) : Except DErr (Kind × List UInt8 × List UInt8) :=
  match readKind buf with
  | .error e => .error e
  | .ok (k, ts, cs) => .ok (k, (buf.drop ts).take cs, buf.drop (ts + cs))

def splitString (buf : List UInt8) : Except DErr (List UInt8 × List UInt8) :=
  match split buf with
  | .error e => .error e
  | .ok (k, c, r) => if k == .list then .error .err else .ok (c, r)

def splitList (buf : List UInt8) : Except DErr (List UInt8 × List UInt8) :=
  match split buf with
  | .error e => .error e
  | .ok (k, c, r) => if k == .list then .ok (c, r) else .error .err

/-- rlp `CountValues`, with the error dropped as decodeNode does (`c, _ :=`): 0 on error -/
def countValues : Nat → List UInt8 → Nat → Nat
  | 0, _, _ => 0
  | fuel + 1, b, i =>
    match b with
    | [] => i
    | _ =>
      match readKind b with
      | .error _ => 0
      | .ok (_, ts, cs) => countValues fuel (b.drop (ts + cs)) (i + 1)

def nibOfNat (n : Nat) : Nib := Fin.ofNat 17 n

/-- `compactToHex`; Go slices out of range (panics) on an empty input -/
def compactToHex (c : List UInt8) : Except DErr (List Nib) :=
  let base : List Nib := (c.flatMap fun b => [nibOfNat (b.toNat / 16), nibOfNat (b.toNat % 16)]) ++ [16]
  match base with
  | [] => .error .crash
  | f :: _ =>
    let base := if f.val < 2 then base.dropLast else base
    let chop := 2 - f.val % 2
    if chop > base.length then .error .crash else .ok (base.drop chop)

mutual
  /-- `decodeNode(hash, buf)`; fuel bounds the nesting depth of embedded nodes -/
  def decodeNode (fuel : Nat) (buf : List UInt8) : Except DErr PNode :=
    match fuel with
    | 0 => .error .err
    | fuel + 1 =>
      if buf.isEmpty then .error .err else
      match splitList buf with
      | .error e => .error e
      | .ok (elems, _) =>
        let c := countValues (elems.length + 1) elems 0
        if c = 2 then
          -- decodeShort
          match splitString elems with
          | .error e => .error e
          | .ok (kbuf, rest) =>
            match compactToHex kbuf with
            | .error e => .error e
            | .ok key =>
              if hasTerm key then
                match splitString rest with
                | .error e => .error e
                | .ok (val, _) => .ok (.short key (.value val))
              else
                match decodeRef fuel rest with
                | .error e => .error e
                | .ok (r, _) => .ok (.short key r)
        else if c = 17 then
          -- decodeFull
          match decodeRefs fuel 16 elems with
          | .error e => .error e
          | .ok (cs, rest) =>
            match splitString rest with
            | .error e => .error e
            | .ok (val, _) => .ok (.full (cs ++ [if val.isEmpty then .nil else .value val]))
        else .error .err
  /-- `decodeRef` -/
  def decodeRef (fuel : Nat) (buf : List UInt8) : Except DErr (PNode × List UInt8) :=
    match fuel with
    | 0 => .error .err
    | fuel + 1 =>
      match split buf with
      | .error e => .error e
      | .ok (kind, val, rest) =>
        if kind == .list then
          if buf.length - rest.length > 32 then .error .err
          else
            match decodeNode fuel buf with
            | .error e => .error e
            | .ok n => .ok (n, rest)
        else if kind == .string ∧ val.length = 0 then .ok (.nil, rest)
        else if kind == .string ∧ val.length = 32 then .ok (.hash val, rest)
        else .error .err
  def decodeRefs (fuel : Nat) (n : Nat) (buf : List UInt8) : Except DErr (List PNode × List UInt8) :=
    match fuel with
    | 0 => .error .err
    | fuel + 1 =>
      match n with
      | 0 => .ok ([], buf)
      | n + 1 =>
        match decodeRef fuel buf with
        | .error e => .error e
        | .ok (c, rest) =>
          match decodeRefs fuel n rest with
          | .error e => .error e
          | .ok (cs, rest') => .ok (c :: cs, rest')
end

/-- fuel that never runs out on real input: every nesting level consumes at least one byte, and
`decodeRefs` spends one unit per element -/
def decodeFuel (buf : List UInt8) : Nat := 20 * buf.length + 40

/-! ### VerifyProof -/

inductive Step where
  | absent                                   -- `cld == nil`: the trie doesn't contain the key
  | found (v : List UInt8)                   -- value node
  | next (keyrest : List Nib) (h : List UInt8)  -- hash node: continue there
  | crash                                    -- Go panics (key exhausted at a full node)
  deriving Inhabited, BEq

/-- proof.go `get(tn, key)` -/
def pget : Nat → PNode → List Nib → Step
  | 0, _, _ => .crash
  | fuel + 1, n, key =>
    match n with
    | .nil => .absent
    | .value v => .found v
    | .hash h => .next key h
    | .short k c =>
      match splitCommon key k with
      | (_, rest, []) => pget fuel c rest
      | _ => .absent
    | .full cs =>
      match key with
      | [] => .crash
      | i :: rest => pget fuel (cs.getD i.val .nil) rest

inductive VRes where
  | value (v : List UInt8)
  | absent
  | err
  | crash
  deriving Repr, BEq, DecidableEq

abbrev ProofDb := List (List UInt8 × List UInt8)

def dbGet (db : ProofDb) (h : List UInt8) : Option (List UInt8) :=
  (db.find? fun e => e.1 == h).map (·.2)

/-- `VerifyProof(rootHash, key, proofDb)` against a raw key→blob store (Go does not re-hash what it
reads).  `fuel` bounds the number of proof nodes visited; Go loops until an answer. -/
def verifyRaw : Nat → ProofDb → List UInt8 → List Nib → VRes
  | 0, _, _, _ => .err
  | fuel + 1, db, want, key =>
    match dbGet db want with
    | none => .err
    | some buf =>
      match decodeNode (decodeFuel buf) buf with
      | .error .err => .err
      | .error .crash => .crash
      | .ok n =>
        match pget (buf.length + 2) n key with
        | .absent => .absent
        | .found v => .value v
        | .crash => .crash
        | .next keyrest h => verifyRaw fuel db h keyrest

def verifyFuel (db : ProofDb) (key : List Nib) : Nat := db.length + key.length + 2

/-- a proof as a verifier receives it: a list of blobs, stored under their own hashes -/
def keyed (H : Hash) (proof : List (List UInt8)) : ProofDb := proof.map fun b => (H b, b)

def verify (H : Hash) (root : List UInt8) (key : List Nib) (proof : List (List UInt8)) : VRes :=
  verifyRaw (verifyFuel (keyed H proof) key) (keyed H proof) root key

/-! ### node-level stepping (specification side of the codec hypothesis of `proof_complete_partial`) -/

/-- is the node referenced by hash from its parent (encoding of 32 bytes or more)? -/
def isHashed (H : Hash) (n : Node) : Bool :=
  match enc H n with
  | .str _ => false
  | .list l => decide (32 ≤ (Rlp.encode (.list l)).length)

/-- one step of verification at node level: walk through a stored node and the nodes embedded in it,
until a value, a dead end, or a child that is referenced by hash -/
def nstep (H : Hash) : Node → List Nib → Step
  | .empty, _ => .absent
  | .value v, _ => .found v
  | .short k c, key =>
    match splitCommon key k with
    | (_, rest, []) => if isHashed H c then .next rest (H (encBytes H c)) else nstep H c rest
    | _ => .absent
  | .full _, [] => .crash
  | .full cs, i :: rest =>
    if isHashed H (cs i) then .next rest (H (encBytes H (cs i))) else nstep H (cs i) rest

/-- executable instance check of the codec hypothesis: decoding the encoding of `n` and stepping through
the result with `key` equals stepping through `n` itself -/
def codecHoldsAt (H : Hash) (n : Node) (key : List Nib) : Bool :=
  let b := encBytes H n
  match decodeNode (decodeFuel b) b with
  | .ok pn => pget (b.length + 2) pn key == nstep H n key
  | .error _ => false

/-- … for every node `Prove` collects for `key`, each with the part of the key that reaches it and with
the extra probe keys -/
def codecHoldsOnPath (H : Hash) : Node → List Nib → List (List Nib) → Bool
  | _, [], _ => true
  | .empty, _ :: _, _ => true
  | .value _, _ :: _, _ => true
  | .short k n, x :: xs, probes =>
    (codecHoldsAt H (.short k n) (x :: xs) && probes.all (codecHoldsAt H (.short k n))) &&
      (match splitCommon (x :: xs) k with
       | (_, rest, []) => codecHoldsOnPath H n rest probes
       | _ => true)
  | .full cs, i :: rest, probes =>
    (codecHoldsAt H (.full cs) (i :: rest) && probes.all (codecHoldsAt H (.full cs))) &&
      codecHoldsOnPath H (cs i) rest probes

/-! ### SecureTrie and DeriveSha -/

/-- SecureTrie.TryUpdate: the key is hashed first -/
def secUpdate (H : Hash) (t : Node) (k v : List UInt8) : Node := update t (H k) v
def secGet (H : Hash) (t : Node) (k : List UInt8) : Option Val := lookupB t (H k)

/-- `rlp.Encode(uint(i))` -/
def rlpUint (i : Nat) : List UInt8 := Rlp.encode (Rlp.ofNat i)

/-- core/types `DeriveSha`: item `i` under key `rlp(i)` -/
def deriveTrie : Nat → List (List UInt8) → Node → Node
  | _, [], t => t
  | i, x :: xs, t => deriveTrie (i + 1) xs (update t (rlpUint i) x)

def deriveSha (H : Hash) (items : List (List UInt8)) : List UInt8 :=
  rootHash H (deriveTrie 0 items .empty)

end YouVerif.C13
