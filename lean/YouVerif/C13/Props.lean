/-
C13 — property theorems.  Only statements; proofs are one-liners over Proofs*.lean.

Vocabulary (all defined in Model*.lean, which the driver executes against the Go code):
  `run ops`        the trie after the exported operations `ops` (Update with an empty value = Delete)
  `lookupB t k`    `Trie.Get(k)` (the Go-faithful `tget` on `keybytesToHex k`)
  `applyMap ops`   the reference key-value map: last write wins, empty value removes
  `lookup`         specification-level lookup on hex keys (a value answers only the exhausted key)
  `WF`             the shape invariant (ProofsWF.lean)
  `rootHash H t`   `Trie.Hash()` for an arbitrary hash function `H`
-/
import YouVerif.C13.ProofsApi
import YouVerif.C13.ProofsIter
import YouVerif.C13.ProofsCodec
import YouVerif.C13.ProofsSpec
import YouVerif.C13.ProofsDb
import YouVerif.C13.ModelHash
namespace YouVerif.C13

/-- **Faithful map**: after any sequence of updates and deletes, `Get` returns exactly the surviving
value of every key (for all histories and all keys, including keys that are nibble-prefixes of
others, which the terminator makes prefix-free). -/
theorem get_after (ops : List Op) (k : List UInt8) : lookupB (run ops) k = applyMap ops k :=
  lookupB_foldl ops inv_empty k

/-- None of the Go panics (value node met with key left over, key exhausted at a full node or inside
a short key) is reachable through the exported byte-key API. -/
theorem api_never_panics (ops : List Op) : runPanics .empty ops = false :=
  runPanics_false inv_empty ops

/-- The shape invariant holds after every history: insert and delete (with its node collapsing)
preserve it. -/
theorem wf_run (ops : List Op) : WF (run ops) := (inv_run ops).1

/-- **Canonical form**: a well-formed trie is determined by the map it stores (general keys, no
fixed-length or prefix-freeness assumption). -/
theorem canonical_form {t1 t2 : Node} (h1 : WF t1) (h2 : WF t2)
    (heq : ∀ key, lookup t1 key = lookup t2 key) : t1 = t2 :=
  canonical h1 h2 heq

/-- Histories with the same surviving content build the same tree … -/
theorem run_determined_by_content (ops1 ops2 : List Op)
    (h : ∀ k, applyMap ops1 k = applyMap ops2 k) : run ops1 = run ops2 :=
  canonical_api (inv_run ops1) (inv_run ops2) (fun k => by rw [get_after, get_after, h])

/-- … hence the same root hash, for any hash function: the root is independent of history. -/
theorem root_history_independent (H : Hash) (ops1 ops2 : List Op)
    (h : ∀ k, applyMap ops1 k = applyMap ops2 k) : rootHash H (run ops1) = rootHash H (run ops2) := by
  rw [run_determined_by_content ops1 ops2 h]

/-- **Identical across implementations**: any tree that satisfies the structural constraints of the
Merkle-Patricia definition (`WF`: leaf for a single key, extension for a common prefix, branch with at
least two children otherwise, values only under the terminator) and stores the same content as the
Go trie after `ops` *is* that trie, so it has the same root — whatever construction produced it
(e.g. the Yellow Paper's c(J,0); that this construction yields a `WF` tree is not formalised here, it is
what the independent root calculator of the harness samples). -/
theorem root_unique_among_wellformed (H : Hash) (ops : List Op) (s : Node) (hs : WF s)
    (hcontent : ∀ key, lookup s key = lookup (run ops) key) : rootHash H s = rootHash H (run ops) := by
  rw [canonical hs (wf_run ops) hcontent]

/-- **The root is the standard root of the content.**  `specRoot H ps` (Spec.lean) is the root of the
trie built from the finite map `ps` alone — the radix trie of the keys with single-child branches
contracted, i.e. the Yellow Paper's leaf / extension / branch composition — with no reference to
insertion, deletion or history.  For every history, and every association list `ps` that lists the
surviving content (keys in hex form, none a prefix of another), `Trie.Hash()` equals it. -/
theorem root_is_standard (H : Hash) (ops : List Op) (ps : Assoc) (hpf : PFA ps)
    (hkeys : ∀ e ∈ ps, ∃ k, e.1 = hexKey k) (hcontent : ∀ k, alook ps (hexKey k) = applyMap ops k) :
    rootHash H (run ops) = specRoot H ps := by
  have hterm : ∀ e ∈ ps, TermLast e.1 := by
    intro e he; obtain ⟨k, hk⟩ := hkeys e he; rw [hk]; exact termLast_hexKey k
  obtain ⟨hw, hl⟩ := specTrie_spec hpf hterm
  unfold specRoot
  rw [canonical (wf_run ops) hw]
  intro key
  rw [hl]
  by_cases hk : IsHexKey key
  · obtain ⟨k, rfl⟩ := hk
    rw [← lookupB_eq_lookup (inv_run ops), get_after, hcontent]
  · have e1 : lookup (run ops) key = none := by
      cases h : lookup (run ops) key with
      | none => rfl
      | some v => exact absurd ((inv_run ops).2 key (by simp [h])) hk
    rw [e1]
    unfold alook
    cases hf : ps.find? (fun e => e.1 = key) with
    | none => rfl
    | some e =>
      have hm := List.mem_of_find?_eq_some hf
      have hp := List.find?_some hf
      simp at hp
      obtain ⟨k, hk'⟩ := hkeys e hm
      exact absurd ⟨k, by rw [← hp, hk']⟩ hk

/-- such a list always exists — the iteration output is one — so the statement is not vacuous: the root
after any history is the standard root of what iteration yields. -/
theorem root_is_standard_of_leaves (H : Hash) (ops : List Op) :
    rootHash H (run ops) = specRoot H (leaves (run ops)) :=
  root_is_standard H ops (leaves (run ops)) (pfa_leaves (inv_run ops))
    (fun e he => (inv_run ops).2 e.1 (by rw [(mem_leaves _ e.1 e.2).1 he]; simp))
    (fun k => by rw [alook_leaves, ← lookupB_eq_lookup (inv_run ops), get_after])

/-! ### iteration (`leaves` = what `NewIterator(t.NodeIterator(nil))` yields, in that order) -/

/-- Iteration returns exactly the surviving pairs … -/
theorem iter_exact (ops : List Op) (k v : List UInt8) :
    (hexKey k, v) ∈ leaves (run ops) ↔ applyMap ops k = some v := by
  rw [mem_leaves, ← lookupB_eq_lookup (inv_run ops), get_after]

/-- … and nothing else: every yielded path is the hex form of a byte key. -/
theorem iter_only_keys (ops : List Op) (p : List Nib) (v : Val) (h : (p, v) ∈ leaves (run ops)) :
    ∃ k, p = hexKey k :=
  (inv_run ops).2 p (by rw [(mem_leaves _ p v).1 h]; simp)

/-- Leaves come out strictly ascending in hex order (nibbles, terminator 16 last) — in particular
without repetition — for every trie. -/
theorem iter_sorted (t : Node) : (leaves t).Pairwise (fun a b => a.1 < b.1) := leaves_sorted t

/-- … which is ascending byte-key order for any two yielded keys neither of which is a prefix of the
other (so: ascending key order whenever no key is a prefix of another; a key that is a prefix of
others comes after them, which is what the Go iterator does). -/
theorem iter_ascending_keys (t : Node) :
    (leaves t).Pairwise (fun a b => ∀ ka kb, a.1 = hexKey ka → b.1 = hexKey kb →
      ¬ ka <+: kb → ¬ kb <+: ka → ka < kb) :=
  (leaves_sorted t).imp (fun h ka kb ea eb h1 h2 => bytes_lt_of_hexKey_lt h1 h2 (by rw [← ea, ← eb]; exact h))

/-! ### Merkle proofs (`prove` = Trie.Prove, `verify` = VerifyProof over blobs stored under their hashes) -/

/-- **Soundness**: whatever two proofs — honest, corrupted in any byte, with nodes substituted,
added or removed — verify to against the same root and key, they verify to the same answer, or two
different byte strings with the same hash have been exhibited.  `H` is arbitrary: no injectivity or
cryptographic assumption is used, and nothing is assumed about `decodeNode`. -/
theorem proof_sound (H : Hash) (root : List UInt8) (key : List Nib) (p1 p2 : List (List UInt8))
    (h1 : (verify H root key p1).isAnswer = true) (h2 : (verify H root key p2).isAnswer = true) :
    verify H root key p1 = verify H root key p2 ∨ ∃ x y : List UInt8, x ≠ y ∧ H x = H y :=
  verifyRaw_agree H p1 p2 _ _ root key h1 h2

/-- **Completeness**: for every history whose trie is not empty and every key, the proof produced by
`Prove` verifies against the root hash to exactly the surviving value of the key, or to absence — or two
different byte strings with the same hash are exhibited.  `H` is any function with 32-byte results (so
that a hash reference decodes as one); the node encodings on the path are shorter than 2^64 bytes (what
RLP length prefixes can express).  The proof covers the whole chain: hasher (collapse, < 32-byte
embedding, forced root), hex-prefix keys, RLP encoding, raw.go-style splitting and `decodeNode`
(the RLP header round trip is imported from C14), which nodes `Prove` emits, retrieval by hash, key
consumption across embedded and hashed nodes. -/
theorem proof_complete (H : Hash) (h32 : ∀ x, (H x).length = 32) (ops : List Op) (k : List UInt8)
    (hne : (run ops).isEmpty = false)
    (hsize : ∀ m ∈ pathNodes (run ops) (hexKey k), (encBytes H m).length < 2 ^ 64) :
    verify H (rootHash H (run ops)) (hexKey k) (prove H (run ops) (hexKey k)) = answer (applyMap ops k) ∨
      ∃ x y : List UInt8, x ≠ y ∧ H x = H y := by
  rw [← get_after]
  apply verify_complete_of_codec H (run ops) (inv_run ops) hne k
  intro m hm
  obtain ⟨hw, hs, hv, he⟩ := pathNodes_sub (inv_run ops).1 (noStray_of_inv (inv_run ops) (nev_run ops)) _ m hm
  exact codec_of H h32 hw hs hv he (hsize m hm)

/-! ### trie.Database (`Db.*` = model of database.go, compared state-for-state with the Go code) -/

/-- Nothing but `Dereference` ever makes a readable node unreadable: insert, Reference, Cap and
Commit keep every node that was cached or on disk cached or on disk. -/
theorem db_only_dereference_removes (s : Db.State) (op : Db.DbOp) (hop : op.isDereference = false)
    (h : Db.H32) (ha : Db.avail s h) : Db.avail (Db.apply s op) h :=
  Db.avail_apply s op hop h ha

/-- The disk only grows under every schedule, so whatever `Database.Commit(root)` wrote stays
readable for ever — across any later Reference/Dereference/Cap/Commit and across a restart. -/
theorem db_committed_is_permanent (s : Db.State) (root h : Db.H32)
    (hr : h ∈ Db.reach (s.mem.length + 1) s.mem root []) (ops : List Db.DbOp) :
    h ∈ (ops.foldl Db.apply (Db.commit s root)).disk :=
  Db.disk_mono_run ops _ h (Db.commit_writes s root h hr)

/-- what `Commit(root)` writes includes the root itself when it is cached -/
theorem db_commit_writes_root (s : Db.State) (root : Db.H32) (hm : (Db.find s.mem root).isSome) :
    root ∈ (Db.commit s root).disk :=
  Db.commit_writes s root root (Db.root_mem_reach s.mem root hm s.mem.length)

/-- **Commit writes children before parents**, so a crash between two of its (non-atomic, 100 KB) batch
writes loses nothing that is visible: at every point of the write sequence of `Database.Commit(root)` the
children of the node being written are already written or already on disk — every prefix of the sequence,
together with the disk, is closed under children.  Hypotheses: the cached nodes are acyclic through the
children relation (a rank bounded by the cache size decreases from each cached node to its cached children;
true of hash-linked nodes unless a hash cycle exists) and every child of a cached node is cached or on disk;
both are evaluated by the compiled model on the state before every sampled `Commit` (`ordered-closed` in
the answer to DBCOMMIT), and the write ORDER of the Go `Commit`/`Cap` is compared with the model's. -/
theorem db_commit_children_first (s : Db.State) (root : Db.H32) (rk : Db.H32 → Nat)
    (hrk : ∀ n ∈ s.mem, ∀ k ∈ n.kids, (Db.find s.mem k).isSome → rk k < rk n.hash)
    (hbound : ∀ x, rk x ≤ s.mem.length)
    (hclosed : ∀ n ∈ s.mem, ∀ k ∈ n.kids, (Db.find s.mem k).isSome ∨ k ∈ s.disk) :
    ∀ i x, (Db.commitOrder s root)[i]? = some x → ∀ n, Db.find s.mem x = some n →
      ∀ k ∈ n.kids, k ∈ (Db.commitOrder s root).take i ∨ k ∈ s.disk :=
  Db.commit_children_first s root rk hrk hbound hclosed

/-- the full garbage-collection statement (not proved; sampled by the correspondence check and the
snapshot oracle): under the contract of the API — every inserted node's children are readable when it
is inserted, `Dereference(r)` releases an earlier `Reference(r)` — every node reachable from a root that
is still referenced, or was committed, is readable. -/
def gc_preserves_statement : Prop :=
  ∀ (K : Db.H32 → List Db.H32) (ops : List Db.DbOp), Db.Disciplined K {} ops →
    ∀ r, (Db.metaCount (ops.foldl Db.apply {}) r > 0 ∨ r ∈ (ops.foldl Db.apply {}).disk) →
      ∀ h, Db.Reach K r h → Db.avail (ops.foldl Db.apply {}) h

/-! Non-vacuity (tests on literals): the hypotheses are met by concrete, non-trivial histories. -/

-- two different histories (one with an overwritten and a deleted key, and a key that is a prefix of
-- another) with the same surviving content
example : ∀ k, applyMap [([1], [7]), ([1, 2], [8])] k =
               applyMap [([1, 2], [9]), ([3], [5]), ([1], [7]), ([3], []), ([1, 2], [8])] k := by
  intro k
  simp only [applyMap, List.foldl, stepMap]
  by_cases h1 : k = [1, 2] <;> by_cases h2 : k = [1] <;> by_cases h3 : k = [3] <;> simp_all

example : applyMap [([1], [7]), ([1, 2], [8]), ([1], [])] [1, 2] = some [8] := by decide
example : applyMap [([1], [7]), ([1, 2], [8]), ([1], [])] [1] = none := by decide


/-! Non-vacuity for the proof and database theorems (tests on literals, with a toy hash function that
the kernel can evaluate: the first 32 bytes of the input, zero-padded). -/
namespace Examples

def toyH : Hash := fun b => (b ++ List.replicate 32 0).take 32
def leafTrie : Node := run [([1], [7])]
def big (b : UInt8) : List UInt8 := List.replicate 40 b
/-- three 40-byte values under keys one of which is a prefix of another: a four-node proof -/
def t2 : Node := run [([1], big 7), ([1, 2], big 8), ([0x21], big 9)]

example : (prove toyH t2 (hexKey [1, 2])).length = 4 := by decide
example : verify toyH (rootHash toyH t2) (hexKey [1, 2]) (prove toyH t2 (hexKey [1, 2])) = .value (big 8) := by decide
example : verify toyH (rootHash toyH t2) (hexKey [1, 3]) (prove toyH t2 (hexKey [1, 3])) = .absent := by decide
-- one changed byte in every node: the nodes no longer hash to what their parents name
example : verify toyH (rootHash toyH t2) (hexKey [1, 2])
    ((prove toyH t2 (hexKey [1, 2])).map fun b => b.set 5 0x55) = .err := by decide
-- the hypotheses of `proof_sound` are met by the honest proof (and by itself with a junk blob added)
example : (verify toyH (rootHash toyH t2) (hexKey [1, 2]) (prove toyH t2 (hexKey [1, 2]))).isAnswer = true := by decide
example : (verify toyH (rootHash toyH t2) (hexKey [1, 2]) ([1, 2, 3] :: prove toyH t2 (hexKey [1, 2]))).isAnswer = true := by decide

-- `proof_complete` applies: the toy hash has 32-byte results, the encodings are tiny
theorem toyH_len (x : List UInt8) : (toyH x).length = 32 := by simp [toyH]
example : verify toyH (rootHash toyH leafTrie) (hexKey [1]) (prove toyH leafTrie (hexKey [1])) =
      answer (applyMap [([1], [7])] [1]) ∨ ∃ x y : List UInt8, x ≠ y ∧ toyH x = toyH y :=
  proof_complete toyH toyH_len [([1], [7])] [1] rfl (by
    intro m hm
    have : m = leafTrie := by simpa [leafTrie, run, update, tinsert, hexKey, hexNibs, pathNodes, splitCommon] using hm
    rw [this]; decide)

-- trie.Database: a leaf `a`, a root `r` above it, Commit(r) writes both
def dbS : Db.State := Db.insert (Db.insert {} [0xaa] 40 []) [0xbb] 50 [[0xaa]]
example : Db.reach (dbS.mem.length + 1) dbS.mem [0xbb] [] = [[0xaa], [0xbb]] := by decide
example : [0xaa] ∈ (([Db.DbOp.dereference [0xbb], .cap 0].foldl Db.apply (Db.commit dbS [0xbb])).disk) :=
  db_committed_is_permanent dbS [0xbb] [0xaa] (by decide) _
example : (Db.find dbS.mem [0xbb]).isSome = true := by decide
-- the hypotheses of `db_commit_children_first` hold of it (rank: leaf 0, root 1), and the order is leaf, root
example : ∀ i x, (Db.commitOrder dbS [0xbb])[i]? = some x → ∀ n, Db.find dbS.mem x = some n →
    ∀ k ∈ n.kids, k ∈ (Db.commitOrder dbS [0xbb]).take i ∨ k ∈ dbS.disk :=
  db_commit_children_first dbS [0xbb] (fun x => if x = [0xbb] then 1 else 0) (by decide)
    (by intro x; show (if x = [0xbb] then 1 else 0) ≤ 2; split <;> omega) (by decide)
example : Db.commitOrder dbS [0xbb] = [[0xaa], [0xbb]] := by decide
example : Db.orderedClosed dbS = true := by decide

end Examples

end YouVerif.C13
