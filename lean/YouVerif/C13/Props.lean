/-
C13 — property theorems (only statements that are proved; helper lemmas live in Proofs*.lean).
-/
import YouVerif.C13.Proofs
namespace YouVerif.C13

/-- `prefixLen`/`splitCommon` really splits both keys at a common prefix. -/
theorem split_common_is_split (a b : List Nib) :
    a = (splitCommon a b).1 ++ (splitCommon a b).2.1 ∧ b = (splitCommon a b).1 ++ (splitCommon a b).2.2 :=
  splitCommon_spec a b

end YouVerif.C13
