/-
C13 — property theorems.  Only statements; proofs are one-liners over Proofs*.lean.

Vocabulary (all defined in Model*.lean, which the driver executes against the Go code):
  `run ops`        the trie after the exported operations `ops` (Update with an empty value = Delete)
  `lookupB t k`    `Trie.Get(k)` (the Go-faithful `tget` on `keybytesToHex k`)
  `applyMap ops`   the reference key-value map: last write wins, empty value removes
  `lookup`         specification-level lookup on hex keys (a value answers only the exhausted key)
  `WF`             the shape invariant (ProofsWF.lean)
  `rootHash H t`   `Trie.Hash()` for an arbitrary hash function `H`
-/
import YouVerif.C13.ProofsApi
import YouVerif.C13.ProofsIter
import YouVerif.C13.ModelHash
namespace YouVerif.C13

/-- **Faithful map**: after any sequence of updates and deletes, `Get` returns exactly the surviving
value of every key (for all histories and all keys, including keys that are nibble-prefixes of
others, which the terminator makes prefix-free). -/
theorem get_after (ops : List Op) (k : List UInt8) : lookupB (run ops) k = applyMap ops k :=
  lookupB_foldl ops inv_empty k

/-- None of the Go panics (value node met with key left over, key exhausted at a full node or inside
a short key) is reachable through the exported byte-key API. -/
theorem api_never_panics (ops : List Op) : runPanics .empty ops = false :=
  runPanics_false inv_empty ops

/-- The shape invariant holds after every history: insert and delete (with its node collapsing)
preserve it. -/
theorem wf_run (ops : List Op) : WF (run ops) := (inv_run ops).1

/-- **Canonical form**: a well-formed trie is determined by the map it stores (general keys, no
fixed-length or prefix-freeness assumption). -/
theorem canonical_form {t1 t2 : Node} (h1 : WF t1) (h2 : WF t2)
    (heq : ∀ key, lookup t1 key = lookup t2 key) : t1 = t2 :=
  canonical h1 h2 heq

/-- Histories with the same surviving content build the same tree … -/
theorem run_determined_by_content (ops1 ops2 : List Op)
    (h : ∀ k, applyMap ops1 k = applyMap ops2 k) : run ops1 = run ops2 :=
  canonical_api (inv_run ops1) (inv_run ops2) (fun k => by rw [get_after, get_after, h])

/-- … hence the same root hash, for any hash function: the root is independent of history. -/
theorem root_history_independent (H : Hash) (ops1 ops2 : List Op)
    (h : ∀ k, applyMap ops1 k = applyMap ops2 k) : rootHash H (run ops1) = rootHash H (run ops2) := by
  rw [run_determined_by_content ops1 ops2 h]

/-! ### iteration (`leaves` = what `NewIterator(t.NodeIterator(nil))` yields, in that order) -/

/-- Iteration returns exactly the surviving pairs … -/
theorem iter_exact (ops : List Op) (k v : List UInt8) :
    (hexKey k, v) ∈ leaves (run ops) ↔ applyMap ops k = some v := by
  rw [mem_leaves, ← lookupB_eq_lookup (inv_run ops), get_after]

/-- … and nothing else: every yielded path is the hex form of a byte key. -/
theorem iter_only_keys (ops : List Op) (p : List Nib) (v : Val) (h : (p, v) ∈ leaves (run ops)) :
    ∃ k, p = hexKey k :=
  (inv_run ops).2 p (by rw [(mem_leaves _ p v).1 h]; simp)

/-- Leaves come out strictly ascending in hex order (nibbles, terminator 16 last) — in particular
without repetition — for every trie. -/
theorem iter_sorted (t : Node) : (leaves t).Pairwise (fun a b => a.1 < b.1) := leaves_sorted t

/-- … which is ascending byte-key order for any two yielded keys neither of which is a prefix of the
other (so: ascending key order whenever no key is a prefix of another; a key that is a prefix of
others comes after them, which is what the Go iterator does). -/
theorem iter_ascending_keys (t : Node) :
    (leaves t).Pairwise (fun a b => ∀ ka kb, a.1 = hexKey ka → b.1 = hexKey kb →
      ¬ ka <+: kb → ¬ kb <+: ka → ka < kb) :=
  (leaves_sorted t).imp (fun h ka kb ea eb h1 h2 => bytes_lt_of_hexKey_lt h1 h2 (by rw [← ea, ← eb]; exact h))

/-! Non-vacuity (tests on literals): the hypotheses are met by concrete, non-trivial histories. -/

-- two different histories (one with an overwritten and a deleted key, and a key that is a prefix of
-- another) with the same surviving content
example : ∀ k, applyMap [([1], [7]), ([1, 2], [8])] k =
               applyMap [([1, 2], [9]), ([3], [5]), ([1], [7]), ([3], []), ([1, 2], [8])] k := by
  intro k
  simp only [applyMap, List.foldl, stepMap]
  by_cases h1 : k = [1, 2] <;> by_cases h2 : k = [1] <;> by_cases h3 : k = [3] <;> simp_all

example : applyMap [([1], [7]), ([1, 2], [8]), ([1], [])] [1, 2] = some [8] := by decide
example : applyMap [([1], [7]), ([1, 2], [8]), ([1], [])] [1] = none := by decide

end YouVerif.C13
