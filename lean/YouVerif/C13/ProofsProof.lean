/-
C13 — Merkle proofs: soundness of `VerifyProof` against a store keyed by the hash of its blobs,
for an arbitrary hash function, modulo an exhibited collision (no injectivity assumption).
-/
import YouVerif.C13.ModelHash
namespace YouVerif.C13

def VRes.isAnswer : VRes → Bool
  | .value _ => true
  | .absent => true
  | _ => false

theorem dbGet_keyed {H : Hash} {proof : List (List UInt8)} {h buf : List UInt8}
    (hg : dbGet (keyed H proof) h = some buf) : H buf = h := by
  unfold dbGet at hg
  cases hf : (keyed H proof).find? (fun e => e.1 == h) with
  | none => simp [hf] at hg
  | some e =>
    simp [hf] at hg
    have hm := List.mem_of_find?_eq_some hf
    have hp := List.find?_some hf
    simp only [keyed, List.mem_map] at hm
    obtain ⟨b, _, rfl⟩ := hm
    simp at hp hg
    subst hg; exact hp

/-- Lock-step: two walks from the same hash for the same key either read different blobs with the
same hash (a collision), or read the same blob and therefore take the same step. -/
theorem verifyRaw_agree (H : Hash) (p1 p2 : List (List UInt8)) :
    ∀ (f1 f2 : Nat) (want : List UInt8) (key : List Nib),
      (verifyRaw f1 (keyed H p1) want key).isAnswer = true →
      (verifyRaw f2 (keyed H p2) want key).isAnswer = true →
      verifyRaw f1 (keyed H p1) want key = verifyRaw f2 (keyed H p2) want key ∨
      ∃ x y : List UInt8, x ≠ y ∧ H x = H y := by
  intro f1
  induction f1 with
  | zero => intro f2 want key h1; simp [verifyRaw, VRes.isAnswer] at h1
  | succ f1 ih =>
    intro f2 want key h1 h2
    cases f2 with
    | zero => simp [verifyRaw, VRes.isAnswer] at h2
    | succ f2 =>
      unfold verifyRaw at h1 h2 ⊢
      cases hg1 : dbGet (keyed H p1) want with
      | none => simp [hg1, VRes.isAnswer] at h1
      | some b1 =>
        cases hg2 : dbGet (keyed H p2) want with
        | none => simp [hg2, VRes.isAnswer] at h2
        | some b2 =>
          by_cases hb : b1 = b2
          · subst hb
            simp only [hg1, hg2] at h1 h2 ⊢
            cases hd : decodeNode (decodeFuel b1) b1 with
            | error e => cases e <;> simp [hd, VRes.isAnswer] at h1
            | ok n =>
              simp only [hd] at h1 h2 ⊢
              cases hp : pget (b1.length + 2) n key with
              | absent => left; rfl
              | found v => left; rfl
              | crash => simp [hp, VRes.isAnswer] at h1
              | next kr h =>
                simp only [hp] at h1 h2 ⊢
                exact ih f2 h kr h1 h2
          · right
            exact ⟨b1, b2, hb, by rw [dbGet_keyed hg1, dbGet_keyed hg2]⟩

end YouVerif.C13
