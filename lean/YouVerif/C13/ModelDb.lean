/-
C13 — model of trie/database.go: the reference-counted node cache in front of the disk database.

  * `mem`   the cached nodes in flush-list order (oldest first); each knows the hashes of its children
            inside the collapsed node (`gatherChildren`, with multiplicity), its `parents` counter and
            its byte size;
  * `meta`  the explicit children of the meta root `common.Hash{}` (root references, counted);
  * `disk`  the keys present in the persistent database.

Operations: `insert` (called by the hasher for every stored node during `Trie.Commit`),
`Reference(root, {})`, `Dereference(root)`, `Cap(limit)`, `Commit(root)`.  Explicit references between
two trie nodes (account → storage trie, `Reference(child, parent)` with a non-meta parent) are outside
this model.  Hashes are opaque byte strings.  Core Lean only.
-/
namespace YouVerif.C13.Db

abbrev H32 := List UInt8

structure CNode where
  hash : H32
  size : Nat
  kids : List H32
  parents : Nat
  deriving Repr, Inhabited

structure State where
  mem : List CNode := []
  roots : List (H32 × Nat) := []
  disk : List H32 := []
  deriving Repr, Inhabited

def find (m : List CNode) (h : H32) : Option CNode := m.find? (·.hash == h)
def inMem (s : State) (h : H32) : Bool := s.mem.any (·.hash == h)
def onDisk (s : State) (h : H32) : Bool := s.disk.contains h

def bump (m : List CNode) (h : H32) : List CNode :=
  m.map fun n => if n.hash == h then { n with parents := n.parents + 1 } else n

/-- `db.insert(hash, blob, node)` -/
def insert (s : State) (h : H32) (size : Nat) (kids : List H32) : State :=
  if inMem s h then s
  else
    let m := kids.foldl bump s.mem
    { s with mem := m ++ [{ hash := h, size := size, kids := kids, parents := 0 }] }

def metaCount (s : State) (h : H32) : Nat := ((s.roots.find? (·.1 == h)).map (·.2)).getD 0

def metaSet (rs : List (H32 × Nat)) (h : H32) (c : Nat) : List (H32 × Nat) :=
  let rest := rs.filter (fun e => !(e.1 == h))
  if c = 0 then rest else rest ++ [(h, c)]

/-- `Reference(child, common.Hash{})` -/
def reference (s : State) (h : H32) : State :=
  if inMem s h then
    { s with mem := bump s.mem h, roots := metaSet s.roots h (metaCount s h + 1) }
  else s

/-- the cascade of `dereference(child, parent)` below the parent's own bookkeeping; `fuel` bounds the
recursion (each step removes a cached node or stops) -/
def derefNode : Nat → List CNode → H32 → List CNode
  | 0, m, _ => m
  | fuel + 1, m, h =>
    match find m h with
    | none => m
    | some n =>
      let p := if n.parents > 0 then n.parents - 1 else 0
      if p > 0 then m.map fun x => if x.hash == h then { x with parents := p } else x
      else
        let m' := m.filter fun x => !(x.hash == h)
        n.kids.foldl (derefNode fuel) m'

def derefFuel (m : List CNode) : Nat := m.length + 1

/-- `Dereference(root)` (for `root ≠ common.Hash{}`; the zero hash is refused by the Go code) -/
def dereference (s : State) (h : H32) : State :=
  let c := metaCount s h
  let rs := if c > 0 then metaSet s.roots h (c - 1) else s.roots
  { s with roots := rs, mem := derefNode (derefFuel s.mem) s.mem h }

def memSize (m : List CNode) : Nat := m.foldl (fun acc n => acc + 32 + n.size) 0

/-- the flush loop of `Cap`: how many of the oldest nodes are written -/
def capCount : List CNode → Nat → Nat → Nat
  | [], _, _ => 0
  | n :: rest, size, limit => if size > limit then 1 + capCount rest (size - (96 + n.size)) limit else 0

def addDisk (d : List H32) (h : H32) : List H32 := if d.contains h then d else d ++ [h]

/-- `Cap(limit)` -/
def cap (s : State) (limit : Nat) : State :=
  let size := memSize s.mem + s.mem.length * 64
  let k := capCount s.mem size limit
  { s with mem := s.mem.drop k, disk := (s.mem.take k).foldl (fun d n => addDisk d n.hash) s.disk }

/-- the cached nodes reachable from `h` through cached nodes (post-order, as `commit` writes them) -/
def reach : Nat → List CNode → H32 → List H32 → List H32
  | 0, _, _, acc => acc
  | fuel + 1, m, h, acc =>
    match find m h with
    | none => acc
    | some n =>
      if acc.contains h then acc
      else (n.kids.foldl (fun a k => reach fuel m k a) acc) ++ [h]

/-- does a walk down the cached children from `h` run out of `fuel` (a cycle, if fuel exceeds the cache size)? -/
def tooDeep : Nat → List CNode → H32 → Bool
  | 0, _, _ => true
  | fuel + 1, m, h =>
    match find m h with
    | none => false
    | some n => n.kids.any (tooDeep fuel m)

/-- the hypotheses of `db_commit_children_first`, as an executable check of a state: every child of a cached
node is cached or on disk, and the cached nodes are acyclic through the children relation -/
def orderedClosed (s : State) : Bool :=
  s.mem.all (fun n => n.kids.all (fun k => inMem s k || onDisk s k)) &&
  s.mem.all (fun n => !tooDeep (s.mem.length + 1) s.mem n.hash)

/-- the nodes `Commit(root)` writes, in the order it writes them (children before parents) -/
def commitOrder (s : State) (h : H32) : List H32 := reach (s.mem.length + 1) s.mem h []

/-- the nodes `Cap(limit)` writes, in order (the flush-list, oldest first) -/
def capOrder (s : State) (limit : Nat) : List H32 :=
  (s.mem.take (capCount s.mem (memSize s.mem + s.mem.length * 64) limit)).map (·.hash)

/-- `Commit(root)`: write everything cached below `root`, then `uncache` it -/
def commit (s : State) (h : H32) : State :=
  let r := reach (s.mem.length + 1) s.mem h []
  { s with mem := s.mem.filter (fun n => !r.contains n.hash), disk := r.foldl addDisk s.disk }

end YouVerif.C13.Db
