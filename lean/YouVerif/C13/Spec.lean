/-
C13 — the standard Merkle-Patricia construction over a finite map, as a function of the map alone
(no insertion order, no history): the radix trie of the hex keys in which every branch with a single
child is contracted into its child — which is the Yellow Paper's structural composition c(J, i):
a leaf when one key remains, an extension over the common prefix, a branch otherwise (with the value
of the exhausted key in slot 17; here the terminator nibble 16 plays that role).
-/
import YouVerif.C13.ModelHash
namespace YouVerif.C13

abbrev Assoc := List (List Nib × Val)

def alook (ps : Assoc) (key : List Nib) : Option Val := (ps.find? fun e => e.1 = key).map (·.2)

/-- the entries whose key starts with `i`, with that letter removed -/
def sub (i : Nib) (ps : Assoc) : Assoc :=
  ps.filterMap fun e =>
    match e.1 with
    | j :: r => if j = i then some (r, e.2) else none
    | [] => none

/-- contract a branch with exactly one child into that child (prefixing its letter) -/
def contract (cs : Nib → Node) : Node :=
  match livePos cs with
  | [pos] =>
    match cs pos with
    | .short k n => .short (pos :: k) n
    | c => .short [pos] c
  | _ => .full cs

/-- children given as an evaluated list of 17 -/
def ofList (l : List Node) : Nib → Node := fun i => l.getD i.val .empty

/-- the construction; `fuel` bounds the key length -/
def build : Nat → Assoc → Node
  | _, [] => .empty
  | 0, _ :: _ => .empty
  | _ + 1, [([], v)] => .value v
  | fuel + 1, e :: es =>
    -- the 17 sub-tries are evaluated once, then looked up
    let l := allNibs.map fun i => build fuel (sub i (e :: es))
    contract (ofList l)

def maxLen (ps : Assoc) : Nat := (ps.map fun e => e.1.length).foldr max 0

/-- the standard trie of a finite map given as an association list of (hex key, value) -/
def specTrie (ps : Assoc) : Node := build (maxLen ps + 1) ps

/-- the standard root -/
def specRoot (H : Hash) (ps : Assoc) : List UInt8 := rootHash H (specTrie ps)

end YouVerif.C13
