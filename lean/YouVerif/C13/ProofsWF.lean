/-
C13 — well-formedness (the shape invariant that makes the trie canonical) and its preservation by
insert and delete.  This is where the node collapsing of `delete` is pinned down.
-/
import YouVerif.C13.ProofsMap
namespace YouVerif.C13

def Node.isShort : Node → Bool
  | .short _ _ => true
  | _ => false

def Node.isValue : Node → Bool
  | .value _ => true
  | _ => false

/-- the terminator occurs at most as the last letter -/
def TermLast (k : List Nib) : Prop := ∀ a b, k = a ++ 16 :: b → b = []

/-- Shape invariant: no short node with an empty key, none whose child is nil or another short node,
full nodes have at least two children, slot 16 of a full node and the child of a short node whose key
contains the terminator hold a value (or nothing). -/
def WF : Node → Prop
  | .empty => True
  | .value _ => True
  | .short k n =>
    k ≠ [] ∧ n.isEmpty = false ∧ n.isShort = false ∧ WF n ∧ TermLast k ∧ (16 ∈ k → n.isValue = true)
  | .full cs =>
    (∀ i, WF (cs i)) ∧ (∃ i j, i ≠ j ∧ (cs i).isEmpty = false ∧ (cs j).isEmpty = false) ∧
    ((cs 16).isEmpty = true ∨ (cs 16).isValue = true)

theorem termLast_suffix {a b : List Nib} (h : TermLast (a ++ b)) : TermLast b := by
  intro x y e
  exact h (a ++ x) y (by rw [e, List.append_assoc])

theorem termLast_mem_prefix {a b : List Nib} (h : TermLast (a ++ b)) (hm : (16 : Nib) ∈ a) : b = [] := by
  obtain ⟨s, t, rfl⟩ := List.append_of_mem hm
  have := h s (t ++ b) (by simp)
  simp at this
  exact this.2

theorem termLast_prefix {a b : List Nib} (h : TermLast (a ++ b)) (hb : b ≠ []) : TermLast a ∧ (16 : Nib) ∉ a := by
  have hn : (16 : Nib) ∉ a := fun hm => hb (termLast_mem_prefix h hm)
  refine ⟨?_, hn⟩
  intro x y e
  exact absurd (by rw [e]; simp) hn

theorem termLast_cons16 {r : List Nib} (h : TermLast ((16 : Nib) :: r)) : r = [] := h [] r rfl

@[simp] theorem isEmpty_empty : Node.empty.isEmpty = true := rfl
@[simp] theorem isEmpty_value (v) : (Node.value v).isEmpty = false := rfl
@[simp] theorem isEmpty_short (k n) : (Node.short k n).isEmpty = false := rfl
@[simp] theorem isEmpty_full (cs) : (Node.full cs).isEmpty = false := rfl
@[simp] theorem isShort_empty : Node.empty.isShort = false := rfl
@[simp] theorem isShort_value (v) : (Node.value v).isShort = false := rfl
@[simp] theorem isShort_short (k n) : (Node.short k n).isShort = true := rfl
@[simp] theorem isShort_full (cs) : (Node.full cs).isShort = false := rfl
@[simp] theorem isValue_empty : Node.empty.isValue = false := rfl
@[simp] theorem isValue_value (v) : (Node.value v).isValue = true := rfl
@[simp] theorem isValue_short (k n) : (Node.short k n).isValue = false := rfl
@[simp] theorem isValue_full (cs) : (Node.full cs).isValue = false := rfl

theorem mkShort_isEmpty {k n} (h : n.isEmpty = false) : (mkShort k n).isEmpty = false := by
  cases k <;> simp [mkShort, h]

theorem wf_mkShort {k n} (hn : WF n) (he : n.isEmpty = false) (hs : n.isShort = false) (ht : TermLast k)
    (hv : (16 : Nib) ∈ k → n.isValue = true) : WF (mkShort k n) := by
  cases k with
  | nil => simpa [mkShort]
  | cons x xs => exact ⟨by simp, he, hs, hn, ht, hv⟩

theorem tinsert_isEmpty (t key) (v : Val) : (tinsert t key (.value v)).isEmpty = false := by
  cases t with
  | empty => cases key <;> simp [tinsert]
  | value w => cases key <;> simp [tinsert]
  | short k n =>
    cases key with
    | nil => simp [tinsert]
    | cons x xs =>
      simp only [tinsert]
      split
      · simp
      · exact mkShort_isEmpty (by simp)
      · simp
  | full cs => cases key <;> simp [tinsert]

theorem compat_short_nil {k n} (hk : k ≠ []) : ¬ Compat (.short k n) [] := by
  cases k with
  | nil => exact absurd rfl hk
  | cons y ys => simp [Compat, splitCommon]

/-- **insert preserves the shape invariant** -/
theorem wf_tinsert (t : Node) (key : List Nib) (v : Val) (hw : WF t) (hc : Compat t key) (ht : TermLast key) :
    WF (tinsert t key (.value v)) := by
  induction t generalizing key with
  | empty =>
    cases key with
    | nil => simp [tinsert, WF]
    | cons x xs => exact ⟨by simp, rfl, rfl, trivial, ht, fun _ => rfl⟩
  | value w =>
    have : key = [] := hc
    subst this; simp [tinsert, WF]
  | short k n ih =>
    obtain ⟨hk, hne, hns, hwn, htk, hvk⟩ := hw
    cases key with
    | nil => exact absurd hc (compat_short_nil hk)
    | cons x xs =>
      rcases splitCommon_cases (x :: xs) k with ⟨r, hkey, hs⟩ | ⟨p, a, as, b, bs, hkey, hk2, hne2, hs⟩ | ⟨b, bs, hk2, hs⟩
      · simp only [tinsert, hs]
        rw [hkey] at hc ht
        have hc' := compat_short_append.1 hc
        have hwi := ih r hwn hc' (termLast_suffix ht)
        refine ⟨hk, tinsert_isEmpty _ _ _, ?_, hwi, htk, ?_⟩
        · -- the new child is not a short node: the old child was a value or a full node
          cases n with
          | empty => simp at hne
          | value w => have : r = [] := hc'; subst this; simp [tinsert]
          | short _ _ => simp at hns
          | full cs =>
            cases r with
            | nil => simp [Compat] at hc'
            | cons i rest => simp [tinsert]
        · intro h16
          have : r = [] := termLast_mem_prefix ht h16
          subst this; simp [tinsert]
      · simp only [tinsert, hs]
        rw [hkey] at ht
        rw [hk2] at htk hvk
        have hX : WF (mkShort bs n) :=
          wf_mkShort hwn hne hns (termLast_suffix (a := p ++ [b]) (by simpa using htk))
            (fun h => hvk (by simp [h]))
        have hY : WF (mkShort as (.value v)) :=
          wf_mkShort (by simp [WF]) rfl rfl (termLast_suffix (a := p ++ [a]) (by simpa using ht)) (fun _ => rfl)
        have hfull : WF (Node.full (upd (upd noChildren b (mkShort bs n)) a (mkShort as (.value v)))) := by
          refine ⟨?_, ⟨a, b, hne2, ?_, ?_⟩, ?_⟩
          · intro j
            unfold upd
            split
            · exact hY
            · split
              · exact hX
              · simp [noChildren, WF]
          · simp only [upd, if_true]; exact mkShort_isEmpty (by simp)
          · simp [upd, hne2.symm, mkShort_isEmpty hne]
          · unfold upd
            split
            · rename_i h16
              have : as = [] := termLast_cons16 (termLast_suffix (a := p) (by rw [← h16] at ht; exact ht))
              subst this; right; simp [mkShort]
            · split
              · rename_i _ h16
                have hbs : bs = [] := termLast_cons16 (termLast_suffix (a := p) (by rw [← h16] at htk; exact htk))
                subst hbs
                right
                simpa [mkShort] using hvk (by rw [← h16]; simp)
              · left; simp [noChildren]
        have hp := termLast_prefix (a := p) (b := a :: as) ht (by simp)
        exact wf_mkShort hfull rfl rfl hp.1 (fun h => absurd h hp.2)
      · simp [Compat, hs] at hc
  | full cs ih =>
    obtain ⟨hch, ⟨i0, j0, hij, hi0, hj0⟩, h16⟩ := hw
    cases key with
    | nil => simp [Compat] at hc
    | cons i rest =>
      have hc' : Compat (cs i) rest := compat_full_cons.1 hc
      simp only [tinsert]
      refine ⟨?_, ⟨i0, j0, hij, ?_, ?_⟩, ?_⟩
      · intro j
        unfold upd
        split
        · exact ih i rest (hch i) hc' (termLast_suffix (a := [i]) ht)
        · exact hch j
      · unfold upd; split
        · exact tinsert_isEmpty _ _ _
        · exact hi0
      · unfold upd; split
        · exact tinsert_isEmpty _ _ _
        · exact hj0
      · unfold upd; split
        · rename_i h
          have : rest = [] := termLast_cons16 (by rw [← h] at ht; exact ht)
          subst this; right; simp [tinsert]
        · exact h16


/-! ### delete -/

theorem allNibs_sorted : allNibs.Pairwise (· < ·) := by decide

theorem livePos_sorted (cs : Nib → Node) : (livePos cs).Pairwise (· < ·) :=
  List.Pairwise.filter _ allNibs_sorted

theorem termLast_single (x : Nib) : TermLast [x] := by
  intro a b e
  cases a with
  | nil => simp at e; exact e.2
  | cons y ys => simp at e

theorem termLast_cons {x : Nib} {k : List Nib} (hx : x ≠ 16) (h : TermLast k) : TermLast (x :: k) := by
  intro a b e
  cases a with
  | nil => simp at e; exact absurd e.1 hx
  | cons y ys =>
    simp at e
    exact h ys b e.2

theorem termLast_append {a b : List Nib} (ha : (16 : Nib) ∉ a) (h : TermLast b) : TermLast (a ++ b) := by
  induction a with
  | nil => simpa
  | cons x xs ih =>
    simp at ha
    exact termLast_cons (fun e => ha.1 e.symm) (ih ha.2)

theorem collapse_shape (cs : Nib → Node) : (collapse cs).isEmpty = false ∧ (collapse cs).isValue = false := by
  unfold collapse
  split
  · split
    · simp
    · split <;> simp
  · simp

theorem wf_collapse (cs : Nib → Node) (hch : ∀ i, WF (cs i)) (hlive : ∃ j, (cs j).isEmpty = false)
    (h16 : (cs 16).isEmpty = true ∨ (cs 16).isValue = true) : WF (collapse cs) := by
  unfold collapse
  split
  · rename_i pos h
    obtain ⟨hpos, _⟩ := livePos_single h
    split
    · rename_i hp16
      subst hp16
      have hv : (cs 16).isValue = true := by
        rcases h16 with h | h
        · rw [h] at hpos; exact absurd hpos (by simp)
        · exact h
      refine ⟨by simp, hpos, ?_, hch 16, termLast_single _, fun _ => hv⟩
      cases hc : cs 16 <;> simp_all
    · rename_i hp16
      split
      · rename_i k2 n2 hc
        have := hch pos
        rw [hc] at this
        obtain ⟨hk, hne, hns, hwn, htk, hvk⟩ := this
        refine ⟨by simp, hne, hns, hwn, termLast_cons hp16 htk, ?_⟩
        intro hm
        simp at hm
        rcases hm with hm | hm
        · exact absurd hm.symm hp16
        · exact hvk hm
      · rename_i c hns
        refine ⟨by simp, hpos, ?_, hch pos, termLast_single _, ?_⟩
        · cases hc : cs pos with
          | short k2 n2 => exact absurd hc (hns k2 n2)
          | _ => simp
        · intro hm; simp at hm; exact absurd hm.symm hp16
  · rename_i hnot
    refine ⟨hch, ?_, h16⟩
    have hs := livePos_sorted cs
    obtain ⟨j, hj⟩ := hlive
    have hjm : j ∈ livePos cs := mem_livePos.2 hj
    match hl : livePos cs with
    | [] => rw [hl] at hjm; simp at hjm
    | [a] => exact absurd hl (hnot a)
    | a :: b :: rest =>
      rw [hl] at hs
      have hab : a < b := (List.pairwise_cons.1 hs).1 b (by simp)
      have ha : a ∈ livePos cs := by rw [hl]; simp
      have hb : b ∈ livePos cs := by rw [hl]; simp
      exact ⟨a, b, Fin.ne_of_lt hab, mem_livePos.1 ha, mem_livePos.1 hb⟩

/-- the only way a deletion empties a subtree: it was a value, or a short node holding one -/
theorem del_result_shape {t : Node} {key : List Nib} {t' : Node} (hw : WF t) (hc : Compat t key)
    (h : del t key = some t') :
    (t'.isEmpty = true → t.isValue = true ∨ t.isShort = true) ∧ t'.isValue = false := by
  cases t with
  | empty => simp [del] at h
  | value v => simp [del] at h; subst h; simp
  | short k n =>
    refine ⟨fun _ => Or.inr rfl, ?_⟩
    simp only [del] at h
    revert h
    split
    · intro h; simp at h; subst h; simp
    · split
      · simp
      · intro h; simp at h; subst h; simp
      · intro h; simp at h; subst h; simp
    · simp
  | full cs =>
    cases key with
    | nil => simp [del] at h
    | cons i rest =>
      simp only [del] at h
      revert h
      split
      · simp
      · intro h; simp at h; subst h
        have := collapse_shape (upd cs i ‹Node›)
        simp [this.1, this.2]

/-- **delete preserves the shape invariant** -/
theorem wf_del {t : Node} {key : List Nib} {t' : Node} (hw : WF t) (hc : Compat t key)
    (h : del t key = some t') : WF t' := by
  induction t generalizing key t' with
  | empty => simp [del] at h
  | value v => simp [del] at h; subst h; simp [WF]
  | short k n ih =>
    obtain ⟨hk, hne, hns, hwn, htk, hvk⟩ := hw
    rcases splitCommon_cases key k with ⟨r, hkey, hs⟩ | ⟨p, a, as, b, bs, hkey, hk2, hne2, hs⟩ | ⟨b, bs, hk2, hs⟩
    · rw [hkey] at hc
      have hc' := compat_short_append.1 hc
      cases r with
      | nil =>
        simp only [del, hs, Option.some.injEq] at h
        subst h; simp [WF]
      | cons r0 rs =>
        simp only [del, hs] at h
        -- the child is a full node (a value is incompatible with a non-empty rest)
        have hnv : n.isValue = false := by
          cases n with
          | value w => simp [Compat] at hc'
          | _ => simp
        have h16k : (16 : Nib) ∉ k := fun hm => by rw [hvk hm] at hnv; simp at hnv
        revert h
        split
        · simp
        · rename_i k2 n2 hd
          intro h; simp only [Option.some.injEq] at h; subst h
          have hw2 := ih hwn hc' hd
          obtain ⟨hk2, hne2, hns2, hwn2, htk2, hvk2⟩ := hw2
          refine ⟨by simp [hk], hne2, hns2, hwn2, termLast_append h16k htk2, ?_⟩
          intro hm
          simp at hm
          rcases hm with hm | hm
          · exact absurd hm h16k
          · exact hvk2 hm
        · rename_i c hnotshort hd
          intro h; simp only [Option.some.injEq] at h; subst h
          have hw2 := ih hwn hc' hd
          have hsh := del_result_shape hwn hc' hd
          refine ⟨hk, ?_, ?_, hw2, htk, fun hm => absurd hm h16k⟩
          · cases hce : c.isEmpty with
            | false => rfl
            | true =>
              rcases hsh.1 hce with h1 | h1
              · rw [h1] at hnv; simp at hnv
              · rw [h1] at hns; simp at hns
          · cases hc2 : c with
            | short k2 n2 => exact absurd hc2 (hnotshort k2 n2)
            | _ => simp
    · simp [del, hs] at h
    · simp [del, hs] at h
  | full cs ih =>
    obtain ⟨hch, ⟨i0, j0, hij, hi0, hj0⟩, h16⟩ := hw
    cases key with
    | nil => simp [del] at h
    | cons i rest =>
      have hc' : Compat (cs i) rest := compat_full_cons.1 hc
      simp only [del] at h
      revert h
      split
      · simp
      · rename_i c hd
        intro h; simp only [Option.some.injEq] at h; subst h
        apply wf_collapse
        · intro j
          unfold upd; split
          · exact ih i (hch i) hc' hd
          · exact hch j
        · by_cases hi : i0 = i
          · refine ⟨j0, ?_⟩
            have : j0 ≠ i := fun e => hij (by rw [hi, e])
            simp [upd, this, hj0]
          · exact ⟨i0, by simp [upd, hi, hi0]⟩
        · unfold upd; split
          · rename_i hi16
            -- deleting below slot 16: it held a value, which is gone now
            have hsh := del_result_shape (hch i) hc' hd
            rw [hi16] at h16
            rcases h16 with h | h
            · rw [isEmpty_eq_true.1 h] at hd; simp [del] at hd
            · cases hci : cs i with
              | value w => rw [hci] at hd; simp [del] at hd; subst hd; left; rfl
              | _ => rw [hci] at h; simp at h
          · exact h16

theorem wf_tdelete (t : Node) (key : List Nib) (hw : WF t) (hc : Compat t key) : WF (tdelete t key) := by
  unfold tdelete
  cases h : del t key with
  | none => simpa
  | some t' => simpa using wf_del hw hc h

end YouVerif.C13
