/-
C02 — "An honest validator never signs two conflicting votes, even across restarts."

The theorems are about `run init evs` for EVERY event history `evs : List Ev` of the model in Model.lean:
contexts (step timers, index and round changes in any order, also backwards), received votes of any content
(any quorums for any hashes), changes of what the collaborators answer (proposals, own sortition, block cache),
crashes between calls (`Ev.crash`) and inside calls (`Ev.arm n after`: the next call dies at its n-th `db.Put`,
before the write or between the write and the post of the vote). `(run init evs).g.sent` is the list of votes
that left the node (SendMessageEvents) over the whole history, `persisted` records whether the vote's record was in
the database at the moment it was posted.
-/
import YouVerif.C02.ProofsRun
import YouVerif.C02.Legacy
namespace YouVerif.C02.Props
open YouVerif.C02

/-- At most one prevote, one precommit and one certificate vote per (round, index), over every history
    with every crash point. -/
theorem at_most_one_vote (evs : List Ev) (k : Kind) (hk : k ≠ .next) (r i : Nat) :
    (signedIn (run init evs).g.sent k r i).length ≤ 1 := by
  have := (inv_run evs).1.capped k ⟨r, i⟩
  unfold cnt at this
  cases k <;> simp_all [Kind.cap]

/-- At most two next-index votes per (round, index). -/
theorem at_most_two_next (evs : List Ev) (r i : Nat) :
    (signedIn (run init evs).g.sent .next r i).length ≤ 2 :=
  (inv_run evs).1.capped .next ⟨r, i⟩

/-- The property as stated: two votes of the same kind (not next-index) that left the node for the same
    (round, index) are for the same block hash — they are in fact one and the same vote. -/
theorem no_equivocation (evs : List Ev) :
    ∀ a ∈ (run init evs).g.sent, ∀ b ∈ (run init evs).g.sent,
      a.kind = b.kind → a.kind ≠ .next → a.round = b.round → a.index = b.index → a.hash = b.hash := by
  intro a ha b hb hkind hnext hround hindex
  have hlen := at_most_one_vote evs a.kind hnext a.round a.index
  have hma : a ∈ signedIn (run init evs).g.sent a.kind a.round a.index := by
    unfold signedIn; simp [List.mem_filter, ha]
  have hmb : b ∈ signedIn (run init evs).g.sent a.kind a.round a.index := by
    unfold signedIn; simp [List.mem_filter, hb, hkind, hround, hindex]
  generalize signedIn (run init evs).g.sent a.kind a.round a.index = l at *
  match l, hlen, hma, hmb with
  | [x], _, hma, hmb =>
    simp at hma hmb; rw [hma, hmb]
  | _ :: _ :: _, hlen, _, _ => simp at hlen

/-- Every vote that left the node had its record in the database when it was posted (`UpdateVoteData` persists
    before `vote` posts), for every history and crash point. -/
theorem persisted_before_sent (evs : List Ev) : ∀ x ∈ (run init evs).g.sent, x.persisted = true :=
  (inv_run evs).1.persisted

/-- What makes restarts safe: at every moment — also in the middle of a call and after the process has died —
    every vote that left the node is covered by a stored record of its kind for the same or a later (round, index). -/
theorem records_cover_sent (evs : List Ev) :
    ∀ x ∈ (run init evs).g.sent, ∃ idx y, (idx = 1 ∨ (x.kind = .next ∧ idx = 2)) ∧
      (run init evs).g.p x.kind idx = some y ∧ (⟨x.round, x.index⟩ : Ctx).le y :=
  (inv_run evs).1.covered

/-- The list `sent` the theorems speak about is not a separate bookkeeping that could drift from the behaviour
    the correspondence check observes: what any call (from any state `s`) adds to it is exactly the list of
    SendMessageEvents among the events the call posted (`out`, the list compared with the real code), in order. -/
theorem sent_is_what_was_posted (s : St) (e : Ev) :
    (step s e).1.g.sent.map Signed.key = s.g.sent.map Signed.key ++ (step s e).1.g.out.filterMap sendKey :=
  sent_tracks_out s e

/-- A restarted node knows what it signed: the marks rebuilt by `NewVoteDB` from the records are exactly the
    number of records of each kind at the newest recorded context, and that context bounds every record. -/
theorem restart_rebuilds_marks (p : Persist) :
    match (restore p).round with
    | none => ∀ k idx, (idx = 1 ∨ (k = .next ∧ idx = 2)) → p k idx = none
    | some cr => (∀ k idx y, (idx = 1 ∨ (k = .next ∧ idx = 2)) → p k idx = some y → y.le ⟨cr, (restore p).index⟩) ∧
        ∀ k, (restore p).mark k = nrec p k ⟨cr, (restore p).index⟩ := by
  have h := live_restore p
  unfold Live at h
  cases hr : (restore p).round with
  | none => simp only [hr] at h; exact h.1
  | some cr => simp only [hr] at h; exact h

/-- `VoteDB.UpdateContext` never moves the voting context backwards. -/
theorem context_monotone (c : Cache) (r i : Nat) :
    c.updateContext r i = c ∨ ∀ cr, c.round = some cr → (⟨cr, c.index⟩ : Ctx).lt ⟨r, i⟩ := by
  rcases updateContext_cases c r i with h | h
  · exact Or.inl h
  · exact Or.inr h.2

/-- The repair does not change honest behaviour: whenever the requested context is not behind the VoteDB's own
    (the only situation in an execution whose (round, index) moves forward), the repaired `UpdateContext` and
    `alreadyVoted` answer exactly as the old ones did (old code: Legacy.lean). -/
theorem fix_preserves_forward_behaviour (c : Cache) (r i : Nat)
    (h : ∀ cr, c.round = some cr → (⟨cr, c.index⟩ : Ctx).le ⟨r, i⟩) :
    Legacy.updateContext c r i = c.updateContext r i ∧ ∀ k, Legacy.alreadyVoted c k r i = c.alreadyVoted k r i := by
  unfold Legacy.updateContext Cache.updateContext Legacy.alreadyVoted Cache.alreadyVoted
  cases hr : c.round with
  | none => simp
  | some cr =>
    have hle := h cr hr
    unfold Ctx.le at hle
    simp only at hle
    constructor
    · by_cases h1 : cr = r ∧ c.index = i
      · have : cr > r ∨ cr = r ∧ c.index ≥ i := Or.inr ⟨h1.1, by omega⟩
        simp [h1, this]
      · have h2 : ¬ (cr > r ∨ cr = r ∧ c.index ≥ i) := by omega
        have h3 : ¬ (some cr = some r ∧ c.index = i) := by simp; omega
        rw [if_neg h3]
        simp only [h2, if_false]
    · intro k
      have : ¬ cr > r := by omega
      simp [this]

/-- The property was FALSE of the VoteDB as it was before the `fix:` commits (model of the old code in Legacy.lean,
    not tied to /repo any more): the four witnesses, each replayed on the real pre-fix code and kept in corpus/C02.
    F-C02a restart lowers the index, F-C02b certificate record not restored, F-C02c stale index change without any
    restart, F-C02d restore keeps the oldest context. -/
theorem legacy_votedb_equivocated :
    (∃ ops, Legacy.hashesIn (Legacy.run ops) .prevote 7 1 = [10, 11]) ∧
    (∃ ops, Legacy.hashesIn (Legacy.run ops) .cert 2 1 = [5, 4]) ∧
    (∃ ops, (∀ o ∈ ops, o ≠ Legacy.Op.restart) ∧ Legacy.hashesIn (Legacy.run ops) .prevote 7 2 = [10, 13]) ∧
    (∃ ops, Legacy.hashesIn (Legacy.run ops) .prevote 5 1 = [10, 11]) :=
  ⟨⟨_, Legacy.legacy_equivocates_after_restart⟩, ⟨_, Legacy.legacy_second_certificate_vote⟩,
   ⟨_, by intro o ho; simp at ho; rcases ho with h | h | h | h | h <;> (subst h; simp), Legacy.legacy_equivocates_on_lowered_index⟩, ⟨_, Legacy.legacy_restore_keeps_oldest_context⟩⟩

/-! ### non-vacuity: the theorems are not about an empty behaviour (tests on literals) -/

/-- the F-C02a history (prevote 10 in (7,1), on to (7,2), restart, other proposal, back to (7,1)):
    four votes leave the node, and the second visit of (7,1) signs nothing -/
example :
    let evs := [Ev.env { proposal := some ⟨10, 1⟩ }, .ctx 7 1 2 false, .ctx 7 2 2 false, .crash,
                .env { proposal := some ⟨11, 1⟩ }, .ctx 7 1 2 false]
    ((run init evs).g.sent.map fun x => (x.kind.code, x.round, x.index, x.hash)) =
      [(2, 7, 1, 10), (3, 7, 1, 10), (2, 7, 2, 10), (3, 7, 2, 10)] := by decide

/-- a crash between `db.Put` and the post: the record is stored, nothing left the node, and after the restart
    the vote is not signed again -/
example :
    let evs := [Ev.env { proposal := some ⟨10, 1⟩ }, .arm 1 true, .ctx 7 1 2 false, .ctx 7 1 2 false]
    (run init evs).g.sent = [] ∧ (run init evs).g.p .prevote 1 = some ⟨7, 1⟩ := by decide

/-- two next-index votes in one (round, index) do happen (the bound 2 is attained) -/
example :
    let evs := [Ev.env { seat := fun _ => some { w := 1, vt := 1, q := 5 } }, .ctx 3 1 4 false, .ctx 3 1 5 false,
                .ctx 3 1 4 false, .crash, .ctx 3 1 4 false]
    (signedIn (run init evs).g.sent .next 3 1).length = 2 := by decide

end YouVerif.C02.Props
