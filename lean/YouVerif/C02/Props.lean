import YouVerif.C02.Model
namespace YouVerif.C02.Props
open YouVerif.C02

/-- placeholder while the tie is brought up: a fresh node has signed nothing -/
theorem init_signed_nothing : init.g.sent = [] := rfl

end YouVerif.C02.Props
