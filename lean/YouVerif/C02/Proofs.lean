/-
C02 — the invariant of the vote gate and its preservation by every primitive step
(`Gate.cast` = UpdateVoteData + post, `Cache.updateContext`, `restore` = NewVoteDB after a crash).
-/
import YouVerif.C02.Model
namespace YouVerif.C02

/-! ### order on contexts -/

theorem Ctx.le_refl (a : Ctx) : a.le a := by unfold Ctx.le; omega
theorem Ctx.le_trans {a b c : Ctx} (h1 : a.le b) (h2 : b.le c) : a.le c := by unfold Ctx.le at *; omega
theorem Ctx.le_antisymm {a b : Ctx} (h1 : a.le b) (h2 : b.le a) : a = b := by
  cases a; cases b; unfold Ctx.le at *; simp at *; omega
theorem Ctx.lt_iff {a b : Ctx} : a.lt b ↔ a.le b ∧ a ≠ b := by
  cases a; cases b; unfold Ctx.le Ctx.lt; simp; omega
theorem Ctx.le_of_lt {a b : Ctx} (h : a.lt b) : a.le b := (Ctx.lt_iff.1 h).1
theorem Ctx.le_total (a b : Ctx) : a.le b ∨ b.lt a := by unfold Ctx.le Ctx.lt; omega
theorem Ctx.not_le_of_lt {a b : Ctx} (h : a.lt b) : ¬ b.le a := by unfold Ctx.le Ctx.lt at *; omega

/-! ### what the invariant talks about -/

/-- the key indices `NewVoteDB` reads back -/
def readSlot (k : Kind) (idx : Nat) : Prop := idx = 1 ∨ (k = .next ∧ idx = 2)

/-- `t` bounds every stored record -/
def UB (p : Persist) (t : Ctx) : Prop := ∀ k idx y, readSlot k idx → p k idx = some y → y.le t

/-- number of stored records of kind `k` at context `t` -/
def nrec (p : Persist) (k : Kind) (t : Ctx) : Nat :=
  (if p k 1 = some t then 1 else 0) + (if k = .next ∧ p k 2 = some t then 1 else 0)

def Signed.ctx (x : Signed) : Ctx := ⟨x.round, x.index⟩

/-- number of votes of kind `k` that left the node in context `t` -/
def cnt (l : List Signed) (k : Kind) (t : Ctx) : Nat := (signedIn l k t.round t.index).length

/-- What holds of the database and the votes that left the node at EVERY moment, also in the middle of a call and
    after the process died: enough to rebuild the in-memory marks. -/
structure PInv (p : Persist) (sent : List Signed) : Prop where
  /-- every vote that left the node is covered by a stored record of its kind at the same or a later context -/
  covered : ∀ x ∈ sent, ∃ idx y, readSlot x.kind idx ∧ p x.kind idx = some y ∧ x.ctx.le y
  /-- at any context bounding the records, the votes that left the node are backed one-to-one by records -/
  backed : ∀ t, UB p t → ∀ k, cnt sent k t ≤ nrec p k t
  /-- the second next-index record never runs ahead of the first -/
  nextOrder : ∀ y, p .next 2 = some y → ∃ z, p .next 1 = some z ∧ y.le z
  /-- the property: at most `cap` votes of a kind per context -/
  capped : ∀ k t, cnt sent k t ≤ k.cap
  /-- every vote had its record in the database when it was posted -/
  persisted : ∀ x ∈ sent, x.persisted = true

/-- the in-memory cache of a live process agrees with the database -/
def Live (p : Persist) (c : Cache) : Prop :=
  match c.round with
  | none => (∀ k idx, readSlot k idx → p k idx = none) ∧ ∀ k, c.mark k = 0
  | some cr => UB p ⟨cr, c.index⟩ ∧ ∀ k, c.mark k = nrec p k ⟨cr, c.index⟩

def Inv (g : Gate) : Prop := PInv g.p g.sent ∧ (g.dead = false → Live g.p g.c)

/-! ### small facts -/

theorem nrec_le_cap (p : Persist) (k : Kind) (t : Ctx) : nrec p k t ≤ k.cap := by
  unfold nrec Kind.cap; cases k <;> simp <;> split <;> (try split) <;> omega

theorem cnt_append (l : List Signed) (x : Signed) (k : Kind) (t : Ctx) :
    cnt (l ++ [x]) k t = cnt l k t + (if x.kind = k ∧ x.ctx = t then 1 else 0) := by
  unfold cnt signedIn Signed.ctx
  simp only [List.filter_append, List.length_append]
  cases t with | mk tr ti =>
  by_cases h : x.kind = k ∧ x.round = tr ∧ x.index = ti
  · simp [List.filter, h]
  · have : ¬ (x.kind = k ∧ (⟨x.round, x.index⟩ : Ctx) = ⟨tr, ti⟩) := by
      intro hh; apply h; simp at hh; exact ⟨hh.1, hh.2.1, hh.2.2⟩
    simp [List.filter, h]

theorem cnt_pos_mem {l : List Signed} {k : Kind} {t : Ctx} (h : 0 < cnt l k t) :
    ∃ x ∈ l, x.kind = k ∧ x.ctx = t := by
  unfold cnt signedIn at h
  obtain ⟨x, hx⟩ := List.exists_mem_of_length_pos h
  rw [List.mem_filter] at hx
  refine ⟨x, hx.1, ?_⟩
  have := hx.2
  simp at this
  refine ⟨this.1, ?_⟩
  unfold Signed.ctx; cases t; simp_all

/-- votes beyond every record do not exist -/
theorem PInv.cnt_zero_of_lt {p sent} (h : PInv p sent) {t u : Ctx} (hub : UB p t) (hlt : t.lt u) (k : Kind) :
    cnt sent k u = 0 := by
  rcases Nat.eq_zero_or_pos (cnt sent k u) with h0 | hpos
  · exact h0
  · obtain ⟨x, hx, _, hxt⟩ := cnt_pos_mem hpos
    obtain ⟨idx, y, hr, hp, hle⟩ := h.covered x hx
    have := hub _ _ _ hr hp
    rw [hxt] at hle
    exact absurd (Ctx.le_trans hle this) (Ctx.not_le_of_lt hlt)

theorem nrec_ge_one {p : Persist} {k : Kind} {t : Ctx} (h : p k 1 = some t) : 1 ≤ nrec p k t := by
  unfold nrec; simp [h]

theorem nrec_next_two {p : Persist} {t : Ctx} (h1 : p .next 1 = some t) (h2 : p .next 2 = some t) : nrec p .next t = 2 := by
  unfold nrec; simp [h1, h2]

theorem nrec_next_zero {p : Persist} {t : Ctx} (h1 : p .next 1 ≠ some t) (h2 : p .next 2 ≠ some t) : nrec p .next t = 0 := by
  unfold nrec; simp [h1, h2]

theorem nrec_zero_of_lt {p : Persist} {t u : Ctx} (hub : UB p t) (hlt : t.lt u) (k : Kind) : nrec p k u = 0 := by
  unfold nrec
  have h1 : p k 1 ≠ some u := fun h => Ctx.not_le_of_lt hlt (hub k 1 u (Or.inl rfl) h)
  have h2 : ¬ (k = .next ∧ p k 2 = some u) := fun h => Ctx.not_le_of_lt hlt (hub k 2 u (Or.inr ⟨h.1, rfl⟩) h.2)
  simp [h1, h2]

theorem UB.mono {p : Persist} {t u : Ctx} (h : UB p t) (htu : t.le u) : UB p u :=
  fun k idx y hr hp => Ctx.le_trans (h k idx y hr hp) htu

/-! ### `VoteDB.UpdateContext` -/

theorem updateContext_cases (c : Cache) (r i : Nat) :
    c.updateContext r i = c ∨
    (c.updateContext r i = { round := some r, index := i, mark := noMarks } ∧
      ∀ cr, c.round = some cr → (⟨cr, c.index⟩ : Ctx).lt ⟨r, i⟩) := by
  unfold Cache.updateContext
  cases hr : c.round with
  | none => right; simp
  | some cr =>
    simp only
    split
    · left; rfl
    · right; refine ⟨rfl, fun cr' h => ?_⟩
      cases h; unfold Ctx.lt; simp; omega

theorem Live.fresh {p : Persist} {c : Cache} (h : Live p c) {r i : Nat}
    (hlt : ∀ cr, c.round = some cr → (⟨cr, c.index⟩ : Ctx).lt ⟨r, i⟩) :
    UB p ⟨r, i⟩ ∧ ∀ k, nrec p k ⟨r, i⟩ = 0 := by
  unfold Live at h
  cases hr : c.round with
  | none =>
    simp only [hr] at h
    replace h := h.1
    refine ⟨fun k idx y hrd hp => by simp [h k idx hrd] at hp, fun k => ?_⟩
    unfold nrec
    have h1 := h k 1 (Or.inl rfl)
    by_cases hk : k = .next
    · have h2 := h k 2 (Or.inr ⟨hk, rfl⟩); simp [h1, h2]
    · simp [h1, hk]
  | some cr =>
    simp only [hr] at h
    have := hlt cr hr
    exact ⟨h.1.mono (Ctx.le_of_lt this), fun k => nrec_zero_of_lt h.1 this k⟩

theorem Live.updateContext {p : Persist} {c : Cache} (h : Live p c) (r i : Nat) : Live p (c.updateContext r i) := by
  rcases updateContext_cases c r i with he | ⟨he, hlt⟩
  · rw [he]; exact h
  · rw [he]
    have := h.fresh hlt
    unfold Live; simp only
    exact ⟨this.1, fun k => by simp [noMarks, this.2 k]⟩

/-! ### `VoteDB.UpdateVoteData` -/

theorem notVoted_cases {c : Cache} {k : Kind} {r i : Nat} (h : c.alreadyVoted k r i = false) :
    (∀ cr, c.round = some cr → (⟨cr, c.index⟩ : Ctx).lt ⟨r, i⟩) ∨
    (c.round = some r ∧ c.index = i ∧ c.mark k ≠ k.cap) := by
  unfold Cache.alreadyVoted at h
  cases hr : c.round with
  | none => left; intro cr h'; cases h'
  | some cr =>
    simp only [hr] at h
    split at h
    · cases h
    · split at h
      · rename_i h1 h2
        subst h2
        simp only [Bool.or_eq_false_iff, Bool.and_eq_false_iff, decide_eq_false_iff_not] at h
        by_cases hi : c.index = i
        · right; refine ⟨rfl, hi, ?_⟩
          cases k <;> simp [Kind.cap] at h ⊢ <;> omega
        · left; intro cr' h'; cases h'; unfold Ctx.lt; simp; omega
      · left; intro cr' h'; cases h'; unfold Ctx.lt; simp; omega

/-- what a live cache and the database guarantee when `alreadyVoted` answers no -/
theorem cast_live_spec {p : Persist} {c : Cache} {k : Kind} {r i : Nat} (hl : Live p c)
    (hN : ∀ y, p .next 2 = some y → ∃ z, p .next 1 = some z ∧ y.le z)
    (hv : c.alreadyVoted k r i = false) :
    UB p ⟨r, i⟩ ∧ readSlot k (c.voteSlot k r i) ∧ p k (c.voteSlot k r i) ≠ some ⟨r, i⟩ ∧ nrec p k ⟨r, i⟩ < k.cap ∧
    (k = .next → c.voteSlot k r i = 2 → p .next 1 = some ⟨r, i⟩) ∧
    (c.voteSlot k r i = 1 ∨ c.voteSlot k r i = 2) ∧
    (∀ k', (c.afterVote k r i).mark k' = nrec p k' ⟨r, i⟩ + (if k' = k then 1 else 0)) ∧
    (c.afterVote k r i).round = some r ∧ (c.afterVote k r i).index = i := by
  rcases notVoted_cases hv with hlt | ⟨hr, hi, hm⟩
  · -- a context ahead of the cache (or no context yet)
    obtain ⟨hub, hz⟩ := hl.fresh hlt
    have hslot : c.voteSlot k r i = 1 := by
      unfold Cache.voteSlot
      split
      · rename_i hh
        have := hlt r hh.1
        rw [hh.2] at this
        unfold Ctx.lt at this; simp at this
      · rfl
    have hk1 : p k 1 ≠ some ⟨r, i⟩ := by
      intro hh; have := hz k; have := nrec_ge_one hh; omega
    refine ⟨hub, (by rw [hslot]; exact Or.inl rfl), (by rw [hslot]; exact hk1), (by rw [hz k]; cases k <;> simp [Kind.cap]),
      (by intro _ h2; rw [hslot] at h2; cases h2), Or.inl hslot, ?_, rfl, rfl⟩
    intro k'
    rw [hz k']
    unfold Cache.afterVote
    simp only
    have hmarks : ∀ k'', (if (c.round ≠ none ∧ c.round ≠ some r) ∨ c.index ≠ i then noMarks else c.mark) k'' = 0 := by
      intro k''
      split
      · rfl
      · rename_i hnc
        cases hr : c.round with
        | none =>
          unfold Live at hl; simp only [hr] at hl; exact hl.2 k''
        | some cr =>
          exfalso
          have := hlt cr hr
          apply hnc
          by_cases hcr : cr = r
          · right; intro hi; subst hcr; rw [hi] at this; unfold Ctx.lt at this; simp at this
          · left; simp [hr, hcr]
    unfold setMark
    split
    · rw [hmarks]
    · rw [hmarks]
  · -- the context of the cache
    unfold Live at hl
    simp only [hr] at hl
    rw [hi] at hl
    obtain ⟨hub, hmark⟩ := hl
    have hmk := hmark k
    have hcap := nrec_le_cap p k ⟨r, i⟩
    have hlt : c.mark k < k.cap := by omega
    have hslot : c.voteSlot k r i = (c.mark k + 1) % 256 := by
      unfold Cache.voteSlot; simp [hr, hi]
    have hafter : ∀ k', (c.afterVote k r i).mark k' = nrec p k' ⟨r, i⟩ + (if k' = k then 1 else 0) := by
      intro k'
      unfold Cache.afterVote setMark
      simp only [hr, hi]
      have : ¬ ((some r ≠ none ∧ some r ≠ some r) ∨ i ≠ i) := by simp
      simp only [this, if_false]
      split
      · rename_i hk; subst hk
        have : c.mark k' < 2 := by have := hlt; cases k' <;> simp [Kind.cap] at this <;> omega
        rw [← hmk]; simp; omega
      · rw [hmark k']; simp
    have hround : (c.afterVote k r i).round = some r ∧ (c.afterVote k r i).index = i := ⟨rfl, rfl⟩
    by_cases hk : k = .next
    · subst hk
      simp only [Kind.cap] at hlt hcap
      have h01 : c.mark .next = 0 ∨ c.mark .next = 1 := by omega
      rcases h01 with h0 | h1
      · have hs : c.voteSlot .next r i = 1 := by rw [hslot, h0]
        have hk1 : p .next 1 ≠ some ⟨r, i⟩ := by
          intro hh; have := nrec_ge_one hh; omega
        refine ⟨hub, (by rw [hs]; exact Or.inl rfl), (by rw [hs]; exact hk1), (by rw [← hmk, h0]; simp [Kind.cap]),
          (by intro _ h2; rw [hs] at h2; cases h2), Or.inl hs, hafter, hround.1, hround.2⟩
      · have hs : c.voteSlot .next r i = 2 := by rw [hslot, h1]
        have h2ne : p .next 2 ≠ some ⟨r, i⟩ := by
          intro hh
          obtain ⟨z, hz1, hz2⟩ := hN _ hh
          have hz3 := hub .next 1 z (Or.inl rfl) hz1
          have : z = ⟨r, i⟩ := Ctx.le_antisymm hz3 hz2
          rw [this] at hz1
          have := nrec_next_two hz1 hh; omega
        have h1eq : p .next 1 = some ⟨r, i⟩ := by
          by_cases hh : p .next 1 = some ⟨r, i⟩
          · exact hh
          · have := nrec_next_zero hh h2ne; omega
        refine ⟨hub, (by rw [hs]; exact Or.inr ⟨rfl, rfl⟩), (by rw [hs]; exact h2ne), (by rw [← hmk, h1]; simp [Kind.cap]),
          fun _ _ => h1eq, Or.inr hs, hafter, hround.1, hround.2⟩
    · have hc1 : k.cap = 1 := by cases k <;> simp_all [Kind.cap]
      have h0 : c.mark k = 0 := by omega
      have hs : c.voteSlot k r i = 1 := by rw [hslot, h0]
      have hk1 : p k 1 ≠ some ⟨r, i⟩ := by
        intro hh; have := nrec_ge_one hh; omega
      refine ⟨hub, (by rw [hs]; exact Or.inl rfl), (by rw [hs]; exact hk1), (by rw [← hmk, h0, hc1]; omega),
        fun h _ => absurd h hk, Or.inl hs, hafter, hround.1, hround.2⟩

/-! ### the database write and the post -/

theorem put_same (p : Persist) (k : Kind) (idx : Nat) (c : Ctx) : (p.put k idx c) k idx = some c := by
  unfold Persist.put; simp

theorem put_other (p : Persist) {k k' : Kind} {idx idx' : Nat} (c : Ctx) (h : ¬ (k' = k ∧ idx' = idx)) :
    (p.put k idx c) k' idx' = p k' idx' := by
  unfold Persist.put; simp [h]

theorem UB_of_put {p : Persist} {k : Kind} {idx : Nat} {new t : Ctx} (hub : UB p new) (hr : readSlot k idx)
    (h : UB (p.put k idx new) t) : UB p t ∧ new.le t := by
  have hnew : new.le t := h k idx new hr (put_same p k idx new)
  refine ⟨fun k' idx' y hr' hp => ?_, hnew⟩
  by_cases hs : k' = k ∧ idx' = idx
  · exact Ctx.le_trans (hub k' idx' y hr' hp) hnew
  · exact h k' idx' y hr' (by rw [put_other p new hs]; exact hp)

theorem UB_put {p : Persist} {k : Kind} {idx : Nat} {new t : Ctx} (h : UB p t) (hnew : new.le t) :
    UB (p.put k idx new) t := by
  intro k' idx' y hr' hp
  by_cases hs : k' = k ∧ idx' = idx
  · rw [hs.1, hs.2, put_same] at hp; cases hp; exact hnew
  · rw [put_other p new hs] at hp; exact h k' idx' y hr' hp

theorem nrec_put_same {p : Persist} {k : Kind} {idx : Nat} {new : Ctx} (hr : readSlot k idx) (hne : p k idx ≠ some new) :
    nrec (p.put k idx new) k new = nrec p k new + 1 := by
  unfold nrec
  rcases hr with rfl | ⟨rfl, rfl⟩
  · have h2 : (p.put k 1 new) k 2 = p k 2 := put_other p new (by simp)
    simp [put_same, h2, hne]; omega
  · have h1 : (p.put .next 2 new) .next 1 = p .next 1 := put_other p new (by simp)
    simp [put_same, h1, hne]

theorem nrec_put_kind {p : Persist} {k k' : Kind} {idx : Nat} {new t : Ctx} (hk : k' ≠ k) :
    nrec (p.put k idx new) k' t = nrec p k' t := by
  unfold nrec
  rw [put_other p new (by simp [hk] : ¬ (k' = k ∧ 1 = idx)), put_other p new (by simp [hk] : ¬ (k' = k ∧ 2 = idx))]

theorem nrec_put_ctx {p : Persist} {k k' : Kind} {idx : Nat} {new t : Ctx} (ht : t ≠ new) (hold : p k idx ≠ some t) :
    nrec (p.put k idx new) k' t = nrec p k' t := by
  unfold nrec
  have hnew : (some new : Option Ctx) ≠ some t := fun h => ht (by cases h; rfl)
  have e : ∀ i', ((p.put k idx new) k' i' = some t) ↔ (p k' i' = some t) := by
    intro i'
    by_cases hs : k' = k ∧ i' = idx
    · rw [hs.1, hs.2, put_same]; exact ⟨fun h => absurd h hnew, fun h => absurd h hold⟩
    · rw [put_other p new hs]
  simp only [e]

theorem cnt_append_list (l m : List Signed) (k : Kind) (t : Ctx) : cnt (l ++ m) k t = cnt l k t + cnt m k t := by
  unfold cnt signedIn; simp [List.filter_append]

theorem cnt_le_one_of {m : List Signed} (hlen : m.length ≤ 1) (k : Kind) (t : Ctx) : cnt m k t ≤ 1 := by
  unfold cnt signedIn
  exact Nat.le_trans (List.length_filter_le _ _) hlen

theorem cnt_zero_of_all {m : List Signed} {k k' : Kind} {new t : Ctx} (hm : ∀ x ∈ m, x.kind = k ∧ x.ctx = new)
    (h : ¬ (k' = k ∧ t = new)) : cnt m k' t = 0 := by
  rcases Nat.eq_zero_or_pos (cnt m k' t) with h0 | hpos
  · exact h0
  · obtain ⟨x, hx, hk, ht⟩ := cnt_pos_mem hpos
    obtain ⟨h1, h2⟩ := hm x hx
    exact absurd ⟨hk.symm.trans h1, ht.symm.trans h2⟩ h

/-- the database write of `UpdateVoteData`, followed (m = [x]) or not (m = [], the process died in between)
    by the post of the vote -/
theorem PInv.put_post {p : Persist} {sent m : List Signed} {k : Kind} {idx : Nat} {new : Ctx} (h : PInv p sent)
    (hub : UB p new) (hr : readSlot k idx) (hne : p k idx ≠ some new) (hcap : nrec p k new < k.cap)
    (hN : k = .next → idx = 2 → p .next 1 = some new) (hidx : idx = 1 ∨ idx = 2)
    (hlen : m.length ≤ 1) (hm : ∀ x ∈ m, x.kind = k ∧ x.ctx = new ∧ x.persisted = true) :
    PInv (p.put k idx new) (sent ++ m) := by
  have hm' : ∀ x ∈ m, x.kind = k ∧ x.ctx = new := fun x hx => ⟨(hm x hx).1, (hm x hx).2.1⟩
  refine ⟨?_, ?_, ?_, ?_, ?_⟩
  · intro x hx
    rcases List.mem_append.1 hx with hx | hx
    · obtain ⟨idx0, y, hr0, hp0, hle⟩ := h.covered x hx
      by_cases hs : x.kind = k ∧ idx0 = idx
      · exact ⟨idx, new, hs.1 ▸ hr, by rw [hs.1, put_same], Ctx.le_trans hle (hub _ _ _ hr0 hp0)⟩
      · exact ⟨idx0, y, hr0, by rw [put_other p new hs]; exact hp0, hle⟩
    · obtain ⟨h1, h2, _⟩ := hm x hx
      exact ⟨idx, new, h1 ▸ hr, by rw [h1, put_same], by rw [h2]; exact Ctx.le_refl _⟩
  · intro t hubt k'
    obtain ⟨hubp, hnt⟩ := UB_of_put hub hr hubt
    have hb := h.backed t hubp k'
    rw [cnt_append_list]
    by_cases hs : k' = k ∧ t = new
    · obtain ⟨rfl, rfl⟩ := hs
      rw [nrec_put_same hr hne]
      have := cnt_le_one_of hlen k' t
      omega
    · rw [cnt_zero_of_all hm' hs]
      by_cases hk : k' = k
      · have htn : t ≠ new := fun hh => hs ⟨hk, hh⟩
        have hold : p k idx ≠ some t := by
          intro hh
          exact htn (Ctx.le_antisymm (hub k idx t hr hh) hnt)
        rw [nrec_put_ctx htn hold]; omega
      · rw [nrec_put_kind hk]; omega
  · intro y hy
    by_cases h2 : k = .next ∧ idx = 2
    · obtain ⟨rfl, rfl⟩ := h2
      rw [put_same] at hy
      have hy' : new = y := by cases hy; rfl
      subst hy'
      exact ⟨new, by rw [put_other p new (by simp)]; exact hN rfl rfl, Ctx.le_refl _⟩
    · rw [put_other p new (by intro hh; exact h2 ⟨hh.1.symm, hh.2.symm⟩)] at hy
      by_cases h1 : k = .next ∧ idx = 1
      · obtain ⟨rfl, rfl⟩ := h1
        exact ⟨new, put_same _ _ _ _, hub .next 2 y (Or.inr ⟨rfl, rfl⟩) hy⟩
      · obtain ⟨z, hz, hyz⟩ := h.nextOrder y hy
        exact ⟨z, by rw [put_other p new (by intro hh; exact h1 ⟨hh.1.symm, hh.2.symm⟩)]; exact hz, hyz⟩
  · intro k' t
    rw [cnt_append_list]
    by_cases hs : k' = k ∧ t = new
    · obtain ⟨rfl, rfl⟩ := hs
      have := h.backed t hub k'
      have := cnt_le_one_of hlen k' t
      omega
    · rw [cnt_zero_of_all hm' hs]; exact h.capped k' t
  · intro x hx
    rcases List.mem_append.1 hx with hx | hx
    · exact h.persisted x hx
    · exact (hm x hx).2.2

theorem Live.put {p : Persist} {c : Cache} {k : Kind} {idx r i : Nat} (hub : UB p ⟨r, i⟩) (hr : readSlot k idx)
    (hne : p k idx ≠ some ⟨r, i⟩)
    (hmark : ∀ k', (c.afterVote k r i).mark k' = nrec p k' ⟨r, i⟩ + (if k' = k then 1 else 0))
    (hround : (c.afterVote k r i).round = some r) (hindex : (c.afterVote k r i).index = i) :
    Live (p.put k idx ⟨r, i⟩) (c.afterVote k r i) := by
  unfold Live
  simp only [hround, hindex]
  refine ⟨UB_put hub (Ctx.le_refl _), fun k' => ?_⟩
  rw [hmark k']
  by_cases hk : k' = k
  · subst hk; rw [nrec_put_same hr hne]; simp
  · rw [nrec_put_kind hk]; simp [hk]

/-! ### `Gate.cast` = `UpdateVoteData` + post, with the armed crash point -/

theorem put_cases (g : Gate) (k : Kind) (idx : Nat) (c : Ctx) :
    (g.put k idx c).sent = g.sent ∧ (g.put k idx c).c = g.c ∧
    ((g.dead = true ∧ g.put k idx c = g) ∨
     (g.dead = false ∧ (g.put k idx c).dead = true ∧ ((g.put k idx c).p = g.p ∨ (g.put k idx c).p = g.p.put k idx c)) ∨
     (g.dead = false ∧ (g.put k idx c).dead = false ∧ (g.put k idx c).p = g.p.put k idx c)) := by
  unfold Gate.put
  cases hd : g.dead with
  | true => simp
  | false =>
    simp only [Bool.false_eq_true, if_false]
    cases ha : g.armed with
    | none => simp [hd]
    | some a =>
      obtain ⟨m, after⟩ := a
      simp only
      split
      · cases after <;> simp
      · simp [hd]

theorem put_out (g : Gate) (k : Kind) (idx : Nat) (c : Ctx) : (g.put k idx c).out = g.out := by
  unfold Gate.put
  cases hd : g.dead with
  | true => simp
  | false =>
    simp only [Bool.false_eq_true, if_false]
    cases ha : g.armed with
    | none => simp
    | some a =>
      obtain ⟨m, after⟩ := a
      simp only
      split
      · cases after <;> simp
      · simp

theorem has_of_put (p : Persist) (k : Kind) (idx : Nat) (c : Ctx) (hidx : idx = 1 ∨ idx = 2) :
    (p.put k idx c).has k c = true := by
  unfold Persist.has
  rcases hidx with rfl | rfl <;> simp [put_same]

theorem Inv.cast {g : Gate} (h : Inv g) (k : Kind) (r i hh prio w : Nat) : Inv (g.cast k r i hh prio w).1 := by
  unfold Gate.cast
  split
  · exact h
  · rename_i hv
    have hv' : g.c.alreadyVoted k r i = false := by simpa using hv
    obtain ⟨hsent, hc, hcases⟩ := put_cases g k (g.c.voteSlot k r i) ⟨r, i⟩
    simp only
    rcases hcases with ⟨hd, he⟩ | ⟨hd, hd', hp⟩ | ⟨hd, hd', hp⟩
    · -- the process was already dead
      rw [he]; simp only [hd, if_true]
      exact ⟨h.1, by simp [hd]⟩
    · -- it dies at this Put
      simp only [hd', if_true]
      refine ⟨?_, by simp [hd']⟩
      simp only [hsent]
      rcases hp with hp | hp
      · rw [hp]; exact h.1
      · rw [hp]
        obtain ⟨hub, hr, hne, hcap, hN, hidx, _, _, _⟩ := cast_live_spec (h.2 hd) h.1.nextOrder hv'
        have := h.1.put_post (m := []) hub hr hne hcap hN hidx (by simp) (by simp)
        simpa using this
    · -- the vote is stored and posted
      simp only [hd', Bool.false_eq_true, if_false]
      obtain ⟨hub, hr, hne, hcap, hN, hidx, hmark, hround, hindex⟩ := cast_live_spec (h.2 hd) h.1.nextOrder hv'
      refine ⟨?_, fun _ => ?_⟩
      · simp only [hsent, hp]
        refine h.1.put_post hub hr hne hcap hN hidx (by simp) ?_
        intro x hx
        simp at hx
        subst hx
        exact ⟨rfl, rfl, has_of_put _ _ _ _ hidx⟩
      · simp only [hp]
        exact Live.put hub hr hne hmark hround hindex

/-! ### `NewVoteDB` -/

/-- the state of the replay loop after the records `l` -/
def Replayed (l : List (Kind × Option Ctx)) (c : Cache) : Prop :=
  match c.round with
  | none => (∀ e ∈ l, e.2 = none) ∧ ∀ k, c.mark k = 0
  | some cr =>
    (∀ e ∈ l, ∀ y, e.2 = some y → y.le ⟨cr, c.index⟩) ∧
    ∀ k, c.mark k = (l.filter fun e => e.1 = k ∧ e.2 = some ⟨cr, c.index⟩).length

theorem Replayed.step {l : List (Kind × Option Ctx)} {c : Cache} (h : Replayed l c) (hl : l.length < 255)
    (k : Kind) (rec : Option Ctx) : Replayed (l ++ [(k, rec)]) (c.replay k rec) := by
  cases rec with
  | none =>
    unfold Cache.replay
    unfold Replayed at *
    cases hr : c.round with
    | none =>
      simp only [hr] at h ⊢
      refine ⟨fun e he => ?_, h.2⟩
      rcases List.mem_append.1 he with he | he
      · exact h.1 e he
      · simp at he; subst he; rfl
    | some cr =>
      simp only [hr] at h ⊢
      refine ⟨fun e he y hy => ?_, fun k' => ?_⟩
      · rcases List.mem_append.1 he with he | he
        · exact h.1 e he y hy
        · simp at he; subst he; cases hy
      · rw [h.2 k']; simp [List.filter_append, List.filter]
  | some x =>
    unfold Cache.replay
    unfold Replayed at h
    cases hr : c.round with
    | none =>
      simp only [hr] at h ⊢
      unfold Replayed
      simp only
      refine ⟨fun e he y hy => ?_, fun k' => ?_⟩
      · rcases List.mem_append.1 he with he | he
        · rw [h.1 e he] at hy; cases hy
        · simp at he; subst he; cases hy; exact Ctx.le_refl _
      · have hnone : (l.filter fun e => e.1 = k' ∧ e.2 = some ⟨x.round, x.index⟩) = [] := by
          apply List.filter_eq_nil_iff.2
          intro e he; simp [h.1 e he]
        rw [List.filter_append, List.length_append, hnone]
        unfold setMark
        by_cases hk : k' = k
        · subst hk; simp [List.filter]
        · have hk' : ¬ k = k' := fun hh => hk hh.symm
          simp [hk, hk', List.filter, h.2 k']
    | some cr =>
      simp only [hr] at h ⊢
      have hlen : ∀ k', c.mark k' ≤ l.length := fun k' => by rw [h.2 k']; exact List.length_filter_le _ _
      split
      · -- an older record: ignored
        rename_i hold
        unfold Replayed
        simp only [hr]
        refine ⟨fun e he y hy => ?_, fun k' => ?_⟩
        · rcases List.mem_append.1 he with he | he
          · exact h.1 e he y hy
          · simp at he; subst he; cases hy; unfold Ctx.le; simp; omega
        · rw [h.2 k', List.filter_append, List.length_append]
          have : ¬ (x = (⟨cr, c.index⟩ : Ctx)) := by
            intro hh; cases x; simp at hh; simp at hold; omega
          simp [List.filter, this]
      · split
        · -- a record of the current context: one more mark
          rename_i _ hsame
          have hx : x = (⟨cr, c.index⟩ : Ctx) := by cases x; simp at hsame ⊢; exact ⟨hsame.1.symm, hsame.2.symm⟩
          unfold Replayed
          simp only [hr]
          refine ⟨fun e he y hy => ?_, fun k' => ?_⟩
          · rcases List.mem_append.1 he with he | he
            · exact h.1 e he y hy
            · simp at he; subst he; cases hy; rw [hx]; exact Ctx.le_refl _
          · rw [List.filter_append, List.length_append]
            unfold setMark
            by_cases hk : k' = k
            · subst hk
              have := hlen k'
              simp [List.filter, hx, h.2 k'] at *
              omega
            · have hk' : ¬ k = k' := fun hh => hk hh.symm
              simp [hk, hk', List.filter, h.2 k']
        · -- a newer record: move to it
          rename_i hnold hnsame
          have hlt : (⟨cr, c.index⟩ : Ctx).lt x := by
            cases x; unfold Ctx.lt; simp at *; omega
          unfold Replayed
          simp only
          refine ⟨fun e he y hy => ?_, fun k' => ?_⟩
          · rcases List.mem_append.1 he with he | he
            · exact Ctx.le_trans (h.1 e he y hy) (Ctx.le_of_lt hlt)
            · simp at he; subst he; cases hy; exact Ctx.le_refl _
          · have hnone : (l.filter fun e => e.1 = k' ∧ e.2 = some ⟨x.round, x.index⟩) = [] := by
              apply List.filter_eq_nil_iff.2
              intro e he
              simp only [decide_eq_true_eq, not_and]
              intro _ hy
              exact Ctx.not_le_of_lt hlt (h.1 e he _ hy)
            rw [List.filter_append, List.length_append, hnone]
            unfold setMark noMarks
            by_cases hk : k' = k
            · subst hk; simp [List.filter]
            · have hk' : ¬ k = k' := fun hh => hk hh.symm
              simp [hk, hk', List.filter]

theorem Replayed.foldl (l : List (Kind × Option Ctx)) : ∀ (pre : List (Kind × Option Ctx)) (c : Cache),
    Replayed pre c → pre.length + l.length < 256 → Replayed (pre ++ l) (l.foldl (fun c e => c.replay e.1 e.2) c) := by
  induction l with
  | nil => intro pre c h _; simpa using h
  | cons e l ih =>
    intro pre c h hlen
    simp only [List.foldl_cons]
    have := ih (pre ++ [e]) (c.replay e.1 e.2) (h.step (by simp at hlen; omega) e.1 e.2) (by simp at hlen ⊢; omega)
    simpa using this

theorem live_restore (p : Persist) : Live p (restore p) := by
  have h := Replayed.foldl (slots p) [] {} (by unfold Replayed; simp [noMarks]) (by simp [slots])
  simp only [List.nil_append] at h
  change Replayed (slots p) (restore p) at h
  unfold Replayed at h
  unfold Live
  cases hr : (restore p).round with
  | none =>
    simp only [hr] at h ⊢
    refine ⟨fun k idx hrd => ?_, h.2⟩
    have h1 := h.1
    simp only [slots, List.mem_cons, List.not_mem_nil, or_false, forall_eq_or_imp, forall_eq] at h1
    rcases hrd with rfl | ⟨rfl, rfl⟩
    · cases k <;> simp_all
    · simp_all
  | some cr =>
    simp only [hr] at h ⊢
    refine ⟨fun k idx y hrd hp => ?_, fun k => ?_⟩
    · have h1 := h.1
      simp only [slots, List.mem_cons, List.not_mem_nil, or_false, forall_eq_or_imp, forall_eq] at h1
      rcases hrd with rfl | ⟨rfl, rfl⟩
      · cases k
        · exact h1.1 y hp
        · exact h1.2.1 y hp
        · exact h1.2.2.1 y hp
        · exact h1.2.2.2.2 y hp
      · exact h1.2.2.2.1 y hp
    · rw [h.2 k]
      unfold nrec slots
      cases k <;> simp [List.filter] <;> (repeat' split) <;> simp_all

end YouVerif.C02
