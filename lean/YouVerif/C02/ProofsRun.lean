/-
C02 — every function of the Voter model touches the gate (database, VoteDB cache, votes that left the node) only
through `Gate.cast` and `Cache.updateContext`; hence any predicate closed under those (and under restart) holds
along every history, with any crash points.
-/
import YouVerif.C02.Proofs
import Mathlib.Tactic.SplitIfs
namespace YouVerif.C02

/-- a predicate on the gate preserved by the four things that can happen to it -/
structure Closed (P : Gate → Prop) : Prop where
  cast : ∀ g k r i h, P g → P (g.cast k r i h).1
  ctx : ∀ g r i, P g → P { g with c := g.c.updateContext r i }
  frame : ∀ g a n, P g → P { g with armed := a, puts := n }
  restart : ∀ g, P g → P { p := g.p, c := restore g.p, sent := g.sent }

variable {P : Gate → Prop}

@[simp] theorem post_g (s : St) (o : Out) : (s.post o).g = s.g := by unfold St.post; split <;> rfl

theorem voteCore_P (hP : Closed P) (s : St) (k : Kind) (h prio : Nat) (hs : P s.g) : P (voteCore s k h prio).1.g := by
  unfold voteCore
  split
  · exact hs
  · split
    · exact hs
    · simp only
      split_ifs
      all_goals first
        | exact hs
        | (simp only [post_g]; exact hP.cast _ _ _ _ _ hs)

@[simp] theorem judgePre_g (s : St) (k : Kind) (count q h vt : Nat) : (judgePre s k count q h vt).1.g = s.g := by
  unfold judgePre; repeat' split
  all_goals rfl

@[simp] theorem judgeNext_g (s : St) (count q h prio vt : Nat) : (judgeNext s count q h prio vt).g = s.g := by
  unfold judgeNext; simp only; repeat' split
  all_goals simp

theorem voteNext_P (hP : Closed P) (s : St) (h prio : Nat) (hs : P s.g) : P (voteNext s h prio).1.g := by
  unfold voteNext; simp only; split
  · exact voteCore_P hP s .next h prio hs
  · simp only [judgeNext_g]; exact voteCore_P hP s .next h prio hs

theorem setMarkedBlock_P (hP : Closed P) (s : St) (h prio : Nat) (hs : P s.g) : P (setMarkedBlock s h prio).g := by
  unfold setMarkedBlock; simp only; repeat' split
  all_goals first
    | exact hs
    | exact voteNext_P hP s h prio hs

@[simp] theorem commit_g (s : St) (h : Nat) : (commit s h).g = s.g := by
  unfold commit; split
  · rfl
  · simp

theorem judgeCert_P (hP : Closed P) (s : St) (count q h prio vt : Nat) (hs : P s.g) :
    P (judgeCert s count q h prio vt).g := by
  unfold judgeCert; simp only
  have hs' : P (judgePre s .cert count q h vt).1.g := by simpa using hs
  repeat' split
  all_goals first
    | exact hs'
    | exact setMarkedBlock_P hP _ _ _ (by simpa using hs')

theorem voteCert_P (hP : Closed P) (s : St) (h prio : Nat) (hs : P s.g) : P (voteCert s h prio).1.g := by
  unfold voteCert; simp only; split
  · exact voteCore_P hP s .cert h prio hs
  · exact judgeCert_P hP _ _ _ _ _ _ (voteCore_P hP s .cert h prio hs)

theorem judgePrecommit_P (hP : Closed P) (s : St) (count q h prio vt : Nat) (hs : P s.g) :
    P (judgePrecommit s count q h prio vt).g := by
  unfold judgePrecommit; simp only
  have hs' : P (judgePre s .precommit count q h vt).1.g := by simpa using hs
  repeat' split
  all_goals first
    | exact hs'
    | exact setMarkedBlock_P hP _ _ _ (by simpa using hs')
    | exact voteCert_P hP _ _ _ hs'

theorem votePrecommit_P (hP : Closed P) (s : St) (h prio : Nat) (hs : P s.g) : P (votePrecommit s h prio).1.g := by
  unfold votePrecommit; simp only; split
  · exact voteCore_P hP s .precommit h prio hs
  · exact judgePrecommit_P hP _ _ _ _ _ _ (voteCore_P hP s .precommit h prio hs)

theorem judgePrevote_P (hP : Closed P) (s : St) (count q h prio vt : Nat) (hs : P s.g) :
    P (judgePrevote s count q h prio vt).g := by
  unfold judgePrevote; simp only
  have hs' : P (judgePre s .prevote count q h vt).1.g := by simpa using hs
  split
  · exact hs'
  · split
    · apply setMarkedBlock_P hP
      split
      · exact votePrecommit_P hP _ _ _ hs'
      · exact votePrecommit_P hP _ _ _ hs'
    · exact hs'

theorem votePrevote_P (hP : Closed P) (s : St) (h prio : Nat) (hs : P s.g) : P (votePrevote s h prio).g := by
  unfold votePrevote; simp only; split
  · exact voteCore_P hP s .prevote h prio hs
  · exact judgePrevote_P hP _ _ _ _ _ _ (voteCore_P hP s .prevote h prio hs)

theorem judge_P (hP : Closed P) (s : St) (k : Kind) (count q h prio vt : Nat) (hs : P s.g) :
    P (judge s k count q h prio vt).g := by
  unfold judge
  cases k
  · exact judgePrevote_P hP _ _ _ _ _ _ hs
  · exact judgePrecommit_P hP _ _ _ _ _ _ hs
  · simpa using hs
  · exact judgeCert_P hP _ _ _ _ _ _ hs

/-- the latch-resetting first half of `Voter.updateContext` -/
def ctxReset (s : St) (r i : Nat) : St :=
  if s.v.round ≠ some r ∨ s.v.index ≠ i then
    let s := match s.v.updateEv with
      | some (ur, ui, uh) =>
        let s := match s.v.wrappers.get? ur ui with
          | some w => s.post (.update ur ui uh (w.nChamber .precommit uh))
          | none => s
        { s with v := { s.v with updateEv := none } }
      | none => s
    { s with v := { s.v with
        wrappers := s.v.wrappers.new r i, precommitted := false, committed := false, sentChange := false,
        certificated := false, curMarked := if i = 1 then none else s.v.nextVoted,
        nextMarked := none, nextVoted := none, voteOver := [] } }
  else s

@[simp] theorem ctxReset_g (s : St) (r i : Nat) : (ctxReset s r i).g = s.g := by
  unfold ctxReset; repeat' split
  all_goals simp

theorem updateContext_eq (s : St) (r i step : Nat) (cert : Bool) :
    updateContext s r i step cert =
      (let s := ctxReset s r i
       let s := { s with v := { s.v with round := some r, index := i, step := step, shouldCert := cert },
                         g := { s.g with c := s.g.c.updateContext r i } }
       if step = 2 then
         match s.v.curMarked with
         | some m =>
           if m.hash ≠ 0 then votePrevote s m.hash m.prio
           else match s.env.proposal with
             | none => s
             | some pr => votePrevote s pr.hash pr.prio
         | none =>
           match s.env.proposal with
           | none => s
           | some pr => votePrevote s pr.hash pr.prio
       else if step = 4 ∨ step = 5 then
         if s.v.committed ∨ s.v.sentChange then s
         else match s.v.nextMarked with
           | none => setMarkedBlock s 0 0
           | some m => setMarkedBlock s m.hash m.prio
       else s) := by
  unfold updateContext ctxReset; rfl

theorem updateContext_P (hP : Closed P) (s : St) (r i step : Nat) (cert : Bool) (hs : P s.g) :
    P (updateContext s r i step cert).g := by
  rw [updateContext_eq]
  simp only
  have hg : P { (ctxReset s r i).g with c := (ctxReset s r i).g.c.updateContext r i } :=
    hP.ctx _ _ _ (by simpa using hs)
  repeat' split
  all_goals first
    | exact hg
    | exact votePrevote_P hP _ _ _ hg
    | exact setMarkedBlock_P hP _ _ _ hg

theorem countVote_P (hP : Closed P) (s : St) (m : VoteMsg) (w : Wrapper) (k : Kind) (hs : P s.g) :
    P (countVote s m w k).g := by
  unfold countVote; simp only
  split_ifs
  all_goals first
    | exact hs
    | (simp only [post_g]; exact hs)
    | exact judge_P hP _ _ _ _ _ _ _ hs

theorem processVoteMsg_P (hP : Closed P) (s : St) (m : VoteMsg) (hs : P s.g) : P (processVoteMsg s m).1.g := by
  unfold processVoteMsg
  split
  · exact hs
  · simp only
    have hs' : P (if (s.v.wrappers.get? m.round m.index).isNone = true ∧ m.status = 2
        then { s with v := { s.v with wrappers := s.v.wrappers.new m.round m.index } } else s).g := by
      split_ifs <;> exact hs
    split
    · exact hs'
    · split
      · exact hs'
      · exact countVote_P hP _ _ _ _ hs'

theorem restart_P (hP : Closed P) (s : St) (hs : P s.g) : P (restart s).g := by
  unfold restart; exact hP.restart _ hs

theorem finish_P (hP : Closed P) (s : St) (hs : P s.g) : P (finish s).1.g := by
  unfold finish; split
  · exact restart_P hP s hs
  · exact hP.frame _ _ _ hs

theorem step_P (hP : Closed P) (s : St) (e : Ev) (hs : P s.g) : P (step s e).1.g := by
  cases e with
  | ctx r i st cert =>
    unfold step; simp only
    exact finish_P hP _ (updateContext_P hP _ _ _ _ _ (hP.frame s.g s.g.armed 0 hs))
  | vote m =>
    unfold step; simp only
    have h1 : P (processVoteMsg { s with out := [], g := { s.g with puts := 0 } } m).1.g :=
      processVoteMsg_P hP _ m (hP.frame s.g s.g.armed 0 hs)
    have h2 := finish_P hP _ h1
    split_ifs
    · exact h2
    · exact restart_P hP _ h2
    · exact h2
  | crash => unfold step; exact restart_P hP _ hs
  | arm n after => unfold step; exact hP.frame s.g (some (n, after)) s.g.puts hs
  | env e => unfold step; exact hs

theorem run_P (hP : Closed P) (evs : List Ev) : ∀ s : St, P s.g → P (run s evs).g := by
  induction evs with
  | nil => intro s hs; exact hs
  | cons e evs ih => intro s hs; unfold run; simp only [List.foldl_cons]; exact ih _ (step_P hP s e hs)

/-- the gate invariant is closed -/
theorem Inv.closed : Closed Inv where
  cast := fun g k r i h hg => hg.cast k r i h
  ctx := fun g r i hg => ⟨hg.1, fun hd => (hg.2 hd).updateContext r i⟩
  frame := fun g a n hg => ⟨hg.1, hg.2⟩
  restart := fun g hg => ⟨hg.1, fun _ => live_restore g.p⟩

theorem inv_init : Inv init.g := by
  refine ⟨⟨?_, ?_, ?_, ?_, ?_⟩, fun _ => ?_⟩
  · intro x hx; cases hx
  · intro t _ k; simp [init, cnt, signedIn]
  · intro y hy; simp [init, Persist.empty] at hy
  · intro k t; simp [init, cnt, signedIn]
  · intro x hx; cases hx
  · unfold Live; simp [init, Persist.empty, noMarks]

/-- the invariant holds after every history -/
theorem inv_run (evs : List Ev) : Inv (run init evs).g := run_P Inv.closed evs init inv_init

end YouVerif.C02
