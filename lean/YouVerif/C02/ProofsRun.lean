/-
C02 — every function of the Voter model touches the gate (database, VoteDB cache, votes that left the node) only
through `Gate.cast` and `Cache.updateContext`; hence any predicate closed under those (and under restart) holds
along every history, with any crash points.
-/
import YouVerif.C02.Proofs
import Mathlib.Tactic.SplitIfs
namespace YouVerif.C02

/-- a predicate on the gate preserved by the four things that can happen to it -/
structure Closed (P : Gate → Prop) : Prop where
  cast : ∀ g k r i h prio w, P g → P (g.cast k r i h prio w).1
  ctx : ∀ g r i, P g → P { g with c := g.c.updateContext r i }
  post : ∀ g o, o.isSend = false → P g → P (g.post o)
  frame : ∀ g a n, P g → P { g with armed := a, puts := n }
  restart : ∀ g, P g → P { p := g.p, c := restore g.p, sent := g.sent, out := g.out }

variable {P : Gate → Prop}

theorem post_P (hP : Closed P) (s : St) (o : Out) (ho : o.isSend = false) (hs : P s.g) : P (s.post o).g := by
  unfold St.post; exact hP.post _ _ ho hs

theorem voteCore_P (hP : Closed P) (s : St) (k : Kind) (h prio : Nat) (hs : P s.g) : P (voteCore s k h prio).1.g := by
  unfold voteCore
  split
  · exact hs
  · split
    · exact hs
    · simp only
      split_ifs
      all_goals first
        | exact hs
        | exact hP.cast _ _ _ _ _ _ _ hs

@[simp] theorem judgePre_g (s : St) (k : Kind) (count q h vt : Nat) : (judgePre s k count q h vt).1.g = s.g := by
  unfold judgePre; repeat' split
  all_goals rfl

theorem judgeNext_P (hP : Closed P) (s : St) (count q h prio vt : Nat) (hs : P s.g) :
    P (judgeNext s count q h prio vt).g := by
  unfold judgeNext; simp only
  have hs' : P (judgePre s .next count q h vt).1.g := by simpa using hs
  split_ifs
  all_goals first
    | exact hs'
    | exact post_P hP _ _ rfl hs'

theorem voteNext_P (hP : Closed P) (s : St) (h prio : Nat) (hs : P s.g) : P (voteNext s h prio).1.g := by
  unfold voteNext; simp only; split
  · exact voteCore_P hP s .next h prio hs
  · exact judgeNext_P hP _ _ _ _ _ _ (voteCore_P hP s .next h prio hs)

theorem setMarkedBlock_P (hP : Closed P) (s : St) (h prio : Nat) (hs : P s.g) : P (setMarkedBlock s h prio).g := by
  unfold setMarkedBlock; simp only; repeat' split
  all_goals first
    | exact hs
    | exact voteNext_P hP s h prio hs

theorem commit_P (hP : Closed P) (s : St) (h : Nat) (hs : P s.g) : P (commit s h).g := by
  unfold commit; split
  · exact hs
  · split
    · exact hs
    · simp only
      split_ifs
      all_goals first
        | exact hs
        | exact post_P hP _ _ rfl hs

theorem judgeCert_P (hP : Closed P) (s : St) (count q h prio vt : Nat) (hs : P s.g) :
    P (judgeCert s count q h prio vt).g := by
  unfold judgeCert; simp only
  have hs' : P (judgePre s .cert count q h vt).1.g := by simpa using hs
  repeat' split
  all_goals first
    | exact hs'
    | exact setMarkedBlock_P hP _ _ _ (commit_P hP _ _ hs')

theorem voteCert_P (hP : Closed P) (s : St) (h prio : Nat) (hs : P s.g) : P (voteCert s h prio).1.g := by
  unfold voteCert; simp only; split
  · exact voteCore_P hP s .cert h prio hs
  · exact judgeCert_P hP _ _ _ _ _ _ (voteCore_P hP s .cert h prio hs)

theorem judgePrecommit_P (hP : Closed P) (s : St) (count q h prio vt : Nat) (hs : P s.g) :
    P (judgePrecommit s count q h prio vt).g := by
  unfold judgePrecommit; simp only
  have hs' : P (judgePre s .precommit count q h vt).1.g := by simpa using hs
  repeat' split
  all_goals first
    | exact hs'
    | exact setMarkedBlock_P hP _ _ _ (commit_P hP _ _ hs')
    | exact voteCert_P hP _ _ _ hs'

theorem votePrecommit_P (hP : Closed P) (s : St) (h prio : Nat) (hs : P s.g) : P (votePrecommit s h prio).1.g := by
  unfold votePrecommit; simp only; split
  · exact voteCore_P hP s .precommit h prio hs
  · exact judgePrecommit_P hP _ _ _ _ _ _ (voteCore_P hP s .precommit h prio hs)

theorem judgePrevote_P (hP : Closed P) (s : St) (count q h prio vt : Nat) (hs : P s.g) :
    P (judgePrevote s count q h prio vt).g := by
  unfold judgePrevote; simp only
  have hs' : P (judgePre s .prevote count q h vt).1.g := by simpa using hs
  split
  · exact hs'
  · split
    · apply setMarkedBlock_P hP
      split
      · exact votePrecommit_P hP _ _ _ hs'
      · exact votePrecommit_P hP _ _ _ hs'
    · exact hs'

theorem votePrevote_P (hP : Closed P) (s : St) (h prio : Nat) (hs : P s.g) : P (votePrevote s h prio).g := by
  unfold votePrevote; simp only; split
  · exact voteCore_P hP s .prevote h prio hs
  · exact judgePrevote_P hP _ _ _ _ _ _ (voteCore_P hP s .prevote h prio hs)

theorem judge_P (hP : Closed P) (s : St) (k : Kind) (count q h prio vt : Nat) (hs : P s.g) :
    P (judge s k count q h prio vt).g := by
  unfold judge
  cases k
  · exact judgePrevote_P hP _ _ _ _ _ _ hs
  · exact judgePrecommit_P hP _ _ _ _ _ _ hs
  · exact judgeNext_P hP _ _ _ _ _ _ hs
  · exact judgeCert_P hP _ _ _ _ _ _ hs

/-- the latch-resetting first half of `Voter.updateContext` -/
def ctxReset (s : St) (r i : Nat) : St :=
  if s.v.round ≠ some r ∨ s.v.index ≠ i then
    let s := match s.v.updateEv with
      | some (ur, ui, uh) =>
        let s := match s.v.wrappers.get? ur ui with
          | some w => s.post (.update ur ui uh (w.nChamber .precommit uh))
          | none => s
        { s with v := { s.v with updateEv := none } }
      | none => s
    { s with v := { s.v with
        wrappers := s.v.wrappers.new r i, precommitted := false, committed := false, sentChange := false,
        certificated := false, curMarked := if i = 1 then none else s.v.nextVoted,
        nextMarked := none, nextVoted := none, voteOver := [] } }
  else s

theorem ctxReset_P (hP : Closed P) (s : St) (r i : Nat) (hs : P s.g) : P (ctxReset s r i).g := by
  unfold ctxReset; repeat' split
  all_goals first
    | exact hs
    | exact post_P hP _ _ rfl hs

theorem updateContext_eq (s : St) (r i step : Nat) (cert : Bool) :
    updateContext s r i step cert =
      (let s := ctxReset s r i
       let s := { s with v := { s.v with round := some r, index := i, step := step, shouldCert := cert },
                         g := { s.g with c := s.g.c.updateContext r i } }
       if step = 2 then
         match s.v.curMarked with
         | some m =>
           if m.hash ≠ 0 then votePrevote s m.hash m.prio
           else match s.env.proposal with
             | none => s
             | some pr => votePrevote s pr.hash pr.prio
         | none =>
           match s.env.proposal with
           | none => s
           | some pr => votePrevote s pr.hash pr.prio
       else if step = 4 ∨ step = 5 then
         if s.v.committed ∨ s.v.sentChange then s
         else match s.v.nextMarked with
           | none => setMarkedBlock s 0 0
           | some m => setMarkedBlock s m.hash m.prio
       else s) := by
  unfold updateContext ctxReset; rfl

theorem updateContext_P (hP : Closed P) (s : St) (r i step : Nat) (cert : Bool) (hs : P s.g) :
    P (updateContext s r i step cert).g := by
  rw [updateContext_eq]
  simp only
  have hg : P { (ctxReset s r i).g with c := (ctxReset s r i).g.c.updateContext r i } :=
    hP.ctx _ _ _ (ctxReset_P hP _ _ _ hs)
  repeat' split
  all_goals first
    | exact hg
    | exact votePrevote_P hP _ _ _ hg
    | exact setMarkedBlock_P hP _ _ _ hg

theorem countVote_P (hP : Closed P) (s : St) (m : VoteMsg) (w : Wrapper) (k : Kind) (hs : P s.g) :
    P (countVote s m w k).g := by
  unfold countVote; simp only
  split_ifs
  all_goals first
    | exact hs
    | exact post_P hP _ _ rfl hs
    | exact judge_P hP _ _ _ _ _ _ _ hs

theorem processVoteMsg_P (hP : Closed P) (s : St) (m : VoteMsg) (hs : P s.g) : P (processVoteMsg s m).1.g := by
  unfold processVoteMsg
  split
  · exact hs
  · simp only
    have hs' : P (if (s.v.wrappers.get? m.round m.index).isNone = true ∧ m.status = 2
        then { s with v := { s.v with wrappers := s.v.wrappers.new m.round m.index } } else s).g := by
      split_ifs <;> exact hs
    split
    · exact hs'
    · split
      · exact hs'
      · exact countVote_P hP _ _ _ _ hs'

theorem restart_P (hP : Closed P) (s : St) (hs : P s.g) : P (restart s).g := by
  unfold restart; exact hP.restart _ hs

theorem finish_P (hP : Closed P) (s : St) (hs : P s.g) : P (finish s).1.g := by
  unfold finish; split
  · exact restart_P hP s hs
  · exact hP.frame _ _ _ hs

/-- the start of a call: the per-call output and Put counter are reset -/
def Gate.begin (g : Gate) : Gate := { g with puts := 0, out := [] }

theorem removeMarkedBlock_g (s : St) (h : Nat) : (removeMarkedBlock s h).g = s.g := by
  unfold removeMarkedBlock
  split
  · rfl
  · split <;> rfl

theorem call_P (hP : Closed P) (s : St) (e : Ev) (hs : P s.g.begin) :
    P (step s e).1.g ∨ ∃ n after, e = .arm n after ∨ e = .crash ∨ ∃ en, e = .env en := by
  cases e with
  | ctx r i st cert =>
    left; unfold step; simp only
    exact finish_P hP _ (updateContext_P hP _ _ _ _ _ hs)
  | vote m =>
    left; unfold step; simp only
    have h1 : P (processVoteMsg { s with g := { s.g with puts := 0, out := [] }, env := { s.env with bls := false } } m).1.g :=
      processVoteMsg_P hP _ m hs
    have h2 := finish_P hP
      { (processVoteMsg { s with g := { s.g with puts := 0, out := [] }, env := { s.env with bls := false } } m).1 with
        env := { (processVoteMsg { s with g := { s.g with puts := 0, out := [] }, env := { s.env with bls := false } } m).1.env
                 with bls := s.env.bls } } h1
    split_ifs
    · exact h2
    · exact restart_P hP _ h2
    · exact h2
  | unmark h =>
    left; unfold step; simp only
    exact finish_P hP _ (by rw [removeMarkedBlock_g]; exact hs)
  | crash => right; exact ⟨0, false, Or.inr (Or.inl rfl)⟩
  | arm n after => right; exact ⟨n, after, Or.inl rfl⟩
  | env en => right; exact ⟨0, false, Or.inr (Or.inr ⟨en, rfl⟩)⟩

/-- for predicates that do not look at the per-call output -/
theorem step_P (hP : Closed P) (hout : ∀ g o, P g → P { g with out := o }) (s : St) (e : Ev) (hs : P s.g) :
    P (step s e).1.g := by
  have hb : P s.g.begin := hout _ [] (hP.frame s.g s.g.armed 0 hs)
  cases e with
  | ctx r i st cert => rcases call_P hP s (.ctx r i st cert) hb with h | ⟨_, _, h | h | ⟨_, h⟩⟩ <;> first | exact h | cases h
  | vote m => rcases call_P hP s (.vote m) hb with h | ⟨_, _, h | h | ⟨_, h⟩⟩ <;> first | exact h | cases h
  | unmark u => rcases call_P hP s (.unmark u) hb with h | ⟨_, _, h | h | ⟨_, h⟩⟩ <;> first | exact h | cases h
  | crash => unfold step; exact restart_P hP _ (hout _ [] hs)
  | arm n after => unfold step; exact hout _ [] (hP.frame s.g (some (n, after)) s.g.puts hs)
  | env e => unfold step; exact hout _ [] hs

theorem run_P (hP : Closed P) (hout : ∀ g o, P g → P { g with out := o }) (evs : List Ev) :
    ∀ s : St, P s.g → P (run s evs).g := by
  induction evs with
  | nil => intro s hs; exact hs
  | cons e evs ih => intro s hs; unfold run; simp only [List.foldl_cons]; exact ih _ (step_P hP hout s e hs)

/-- the gate invariant is closed -/
theorem Inv.closed : Closed Inv where
  cast := fun g k r i h prio w hg => hg.cast k r i h prio w
  ctx := fun g r i hg => ⟨hg.1, fun hd => (hg.2 hd).updateContext r i⟩
  post := fun g o _ hg => by unfold Gate.post; split <;> exact hg
  frame := fun g a n hg => ⟨hg.1, hg.2⟩
  restart := fun g hg => ⟨hg.1, fun _ => live_restore g.p⟩

theorem inv_init : Inv init.g := by
  refine ⟨⟨?_, ?_, ?_, ?_, ?_⟩, fun _ => ?_⟩
  · intro x hx; cases hx
  · intro t _ k; simp [init, cnt, signedIn]
  · intro y hy; simp [init, Persist.empty] at hy
  · intro k t; simp [init, cnt, signedIn]
  · intro x hx; cases hx
  · unfold Live; simp [init, Persist.empty, noMarks]

/-- the invariant holds after every history -/
theorem inv_run (evs : List Ev) : Inv (run init evs).g := run_P Inv.closed (fun _ _ hg => hg) evs init inv_init

/-! ### the ghost list `sent` is exactly the SendMessageEvents of the calls -/

def Signed.key (x : Signed) : Kind × Nat × Nat × Nat := (x.kind, x.round, x.index, x.hash)

def sendKey : Out → Option (Kind × Nat × Nat × Nat)
  | .send k r i h _ _ => some (k, r, i, h)
  | _ => none

/-- during a call: the votes recorded as having left the node are those recorded before the call plus the
    SendMessageEvents the call has posted so far -/
def Tracks (base : List (Kind × Nat × Nat × Nat)) (g : Gate) : Prop :=
  g.sent.map Signed.key = base ++ g.out.filterMap sendKey

theorem Tracks.closed (base : List (Kind × Nat × Nat × Nat)) : Closed (Tracks base) where
  cast := by
    intro g k r i h prio w hg
    unfold Tracks at *
    unfold Gate.cast
    have hp := put_cases g k (g.c.voteSlot k r i) ⟨r, i⟩
    obtain ⟨hsent, _, _⟩ := hp
    have hout := put_out g k (g.c.voteSlot k r i) ⟨r, i⟩
    by_cases hv : g.c.alreadyVoted k r i = true
    · simp only [hv, if_true]; exact hg
    · simp only [hv, if_false, Bool.false_eq_true]
      by_cases hd : (g.put k (g.c.voteSlot k r i) ⟨r, i⟩).dead = true
      · simp only [hd, if_true, hsent, hout]; exact hg
      · simp only [hd, if_false, Bool.false_eq_true, hsent, hout, List.map_append, List.filterMap_append, hg]
        simp [Signed.key, sendKey, List.append_assoc]
  ctx := fun g r i hg => hg
  post := by
    intro g o ho hg
    unfold Tracks at *
    unfold Gate.post
    split
    · exact hg
    · simp only [List.filterMap_append, hg]
      cases o <;> simp_all [Out.isSend, sendKey]
  frame := fun g a n hg => hg
  restart := fun g hg => hg

/-- per call: what the call adds to `sent` is exactly the list of SendMessageEvents it posted, in order -/
theorem sent_tracks_out (s : St) (e : Ev) :
    (step s e).1.g.sent.map Signed.key = s.g.sent.map Signed.key ++ (step s e).1.g.out.filterMap sendKey := by
  have hb : Tracks (s.g.sent.map Signed.key) s.g.begin := by unfold Tracks Gate.begin; simp
  rcases call_P (Tracks.closed _) s e hb with h | ⟨n, after, h | h | ⟨en, h⟩⟩
  · exact h
  · subst h; unfold step; simp
  · subst h; unfold step restart; simp
  · subst h; unfold step; simp

end YouVerif.C02
