/-
C02 — the VoteDB as it was BEFORE the two `fix:` commits in /repo (3172489, 0298354), kept only to state, as
theorems, that the property was false of that code. This file is documentation of the findings: it is not tied to
/repo any more (the code it describes is gone); the witnesses below were replayed on the real pre-fix code and are
kept as corpus/C02/f-c02*.replay, which the check replays on the current code on every run.
-/
import YouVerif.C02.Model
namespace YouVerif.C02.Legacy
open YouVerif.C02

/-- `updateFn` of the old `NewVoteDB`: a newer record reset the marks but did NOT move (round, index) (F-C02d) -/
def replay (c : Cache) (k : Kind) : Option Ctx → Cache
  | none => c
  | some x =>
    match c.round with
    | none => { round := some x.round, index := x.index, mark := setMark c.mark k 1 }
    | some cr =>
      if cr > x.round ∨ (cr = x.round ∧ c.index > x.index) then c
      else if cr = x.round ∧ c.index = x.index then { c with mark := setMark c.mark k ((c.mark k + 1) % 256) }
      else { c with mark := setMark noMarks k 1 }

/-- the old `NewVoteDB`: the certificate record was not read back (F-C02b) -/
def restore (p : Persist) : Cache :=
  ((((({} : Cache) |> (replay · .prevote (p .prevote 1))) |> (replay · .precommit (p .precommit 1)))
    |> (replay · .next (p .next 1))) |> (replay · .next (p .next 2)))

/-- the old `UpdateContext`: any different context, also an earlier one, cleared the marks (F-C02a, F-C02c) -/
def updateContext (c : Cache) (r i : Nat) : Cache :=
  if c.round = some r ∧ c.index = i then c else { round := some r, index := i, mark := noMarks }

/-- the old `alreadyVoted`: a lower round was not refused -/
def alreadyVoted (c : Cache) (k : Kind) (r i : Nat) : Bool :=
  match c.round with
  | none => false
  | some cr =>
    if cr = r then
      decide (c.index > i) || (decide (c.index = i) && decide (k = .next) && decide (c.mark k = 2)) ||
        (decide (c.index = i) && decide (k ≠ .next) && decide (c.mark k = 1))
    else false

/-- VoteDB-level operations -/
inductive Op
  | ctx (r i : Nat)               -- UpdateContext
  | vote (k : Kind) (r i h : Nat) -- UpdateVoteData; on success the vote for hash h is posted
  | restart

structure DB where
  p : Persist := Persist.empty
  c : Cache := {}
  sent : List Signed := []

def step (d : DB) : Op → DB
  | .ctx r i => { d with c := updateContext d.c r i }
  | .vote k r i h =>
    if alreadyVoted d.c k r i then d
    else { p := d.p.put k (d.c.voteSlot k r i) ⟨r, i⟩, c := d.c.afterVote k r i,
           sent := d.sent ++ [{ kind := k, round := r, index := i, hash := h, persisted := true }] }
  | .restart => { d with c := restore d.p }

def run (ops : List Op) : DB := ops.foldl step {}

def hashesIn (d : DB) (k : Kind) (r i : Nat) : List Nat := (signedIn d.sent k r i).map (·.hash)

/-- F-C02a: restart at index 2, the consensus restarts at index 1: two prevotes for different hashes in (7,1) -/
theorem legacy_equivocates_after_restart :
    hashesIn (run [.ctx 7 1, .vote .prevote 7 1 10, .ctx 7 2, .vote .prevote 7 2 10, .restart, .ctx 7 1,
                   .vote .prevote 7 1 11]) .prevote 7 1 = [10, 11] := by decide

/-- F-C02b: the certificate record is not restored: two certificate votes in (2,1) -/
theorem legacy_second_certificate_vote :
    hashesIn (run [.ctx 2 1, .vote .cert 2 1 5, .restart, .ctx 2 1, .vote .cert 2 1 4]) .cert 2 1 = [5, 4] := by decide

/-- F-C02c: no restart at all, the round index is lowered by a stale RoundIndexChangeEvent -/
theorem legacy_equivocates_on_lowered_index :
    hashesIn (run [.ctx 7 2, .vote .prevote 7 2 10, .ctx 7 3, .ctx 7 2, .vote .prevote 7 2 13]) .prevote 7 2 = [10, 13] := by
  decide

/-- F-C02d: prevote record in (5,1), precommit record in (5,2): the restored context stays (5,1) with the prevote
    mark cleared -/
theorem legacy_restore_keeps_oldest_context :
    hashesIn (run [.ctx 5 1, .vote .prevote 5 1 10, .ctx 5 2, .vote .precommit 5 2 10, .restart, .ctx 5 1,
                   .vote .prevote 5 1 11]) .prevote 5 1 = [10, 11] := by decide

end YouVerif.C02.Legacy
