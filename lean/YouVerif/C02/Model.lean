/-
C02 — executable model of the vote gate of go-youchain's ucon consensus, as the code is NOW
(after `fix: VoteDB never moves its voting context backwards and restores the certificate record`).

Modelled, function by function:
  consensus/ucon/vote_cache.go   NewVoteDB (restore), UpdateContext, UpdateVoteData, ExistVoteData/alreadyVoted, key layout
  consensus/ucon/voter.go        updateContext, vote, judgeVoteCount, setMarkedBlock, commit, processVoteMsg
  consensus/ucon/votes_mgr.go    VoteSta.newVote / addrVoteInfo / getVotesInfo, VotesManager, VotesWrapper, VotesWrapperList

Persistent state = the record map `Persist` (what survives a crash); everything else is volatile.
A crash point exists before and after every `db.Put` (field `armed`), in particular between `db.Put` and the post
of the vote. Core Lean only (this file is linked into the native driver).

Abstractions (all on the harness side of the tie, see props/C02.json):
  * block hashes and priorities are natural numbers, 0 = the empty hash;
  * validators are small numbers (0 = this node), signatures are not modelled (every received vote is really
    signed by the sender in the harness; the address check is the flag `addrOk`);
  * `OverThreshold(count, T, isPos)` is `count ≥ q` with `q` supplied by the harness, which derives it from the
    real `OverThreshold` (the floating-point quorum itself is property C03's);
  * BLS signing is disabled (secp256k1 branch).
-/
namespace YouVerif.C02

/-- The four vote kinds (`VoteType` 2, 3, 4, 5). -/
inductive Kind | prevote | precommit | next | cert
  deriving DecidableEq, Repr, Inhabited

def Kind.code : Kind → Nat
  | .prevote => 2 | .precommit => 3 | .next => 4 | .cert => 5

def Kind.ofCode? : Nat → Option Kind
  | 2 => some .prevote | 3 => some .precommit | 4 => some .next | 5 => some .cert | _ => none

/-- how many votes of a kind may be signed in one (round, index) -/
def Kind.cap : Kind → Nat
  | .next => 2 | _ => 1

/-- (round, round index) -/
structure Ctx where
  round : Nat
  index : Nat
  deriving DecidableEq, Repr, Inhabited

/-- lexicographic order on contexts -/
def Ctx.le (a b : Ctx) : Prop := a.round < b.round ∨ (a.round = b.round ∧ a.index ≤ b.index)
def Ctx.lt (a b : Ctx) : Prop := a.round < b.round ∨ (a.round = b.round ∧ a.index < b.index)
instance (a b : Ctx) : Decidable (a.le b) := by unfold Ctx.le; exact inferInstance
instance (a b : Ctx) : Decidable (a.lt b) := by unfold Ctx.lt; exact inferInstance

/-! ## VoteDB -/

/-- The vote records in the node database: key `v‖addr‖type‖idx` ↦ record (round, index). -/
def Persist := Kind → Nat → Option Ctx

def Persist.empty : Persist := fun _ _ => none
def Persist.put (p : Persist) (k : Kind) (idx : Nat) (c : Ctx) : Persist :=
  fun k' i' => if k' = k ∧ i' = idx then some c else p k' i'

/-- the record (kind, ctx) is stored under index 1 or 2 (the only indices the code reads back) -/
def Persist.has (p : Persist) (k : Kind) (c : Ctx) : Bool := p k 1 == some c || p k 2 == some c

def setMark (m : Kind → Nat) (k : Kind) (n : Nat) : Kind → Nat := fun k' => if k' = k then n else m k'
def noMarks : Kind → Nat := fun _ => 0

/-- in-memory part of `VoteDB` -/
structure Cache where
  round : Option Nat := none
  index : Nat := 0
  mark : Kind → Nat := noMarks

/-- `updateFn` of `NewVoteDB` applied to one record -/
def Cache.replay (c : Cache) (k : Kind) : Option Ctx → Cache
  | none => c
  | some x =>
    match c.round with
    | none => { round := some x.round, index := x.index, mark := setMark c.mark k 1 }
    | some cr =>
      if cr > x.round ∨ (cr = x.round ∧ c.index > x.index) then c
      else if cr = x.round ∧ c.index = x.index then { c with mark := setMark c.mark k ((c.mark k + 1) % 256) }
      else { round := some x.round, index := x.index, mark := setMark noMarks k 1 }

/-- the five records `NewVoteDB` reads back, in the order it reads them:
    prevote, precommit, next-index 1, next-index 2, certificate -/
def slots (p : Persist) : List (Kind × Option Ctx) :=
  [(.prevote, p .prevote 1), (.precommit, p .precommit 1), (.next, p .next 1), (.next, p .next 2), (.cert, p .cert 1)]

/-- `NewVoteDB` -/
def restore (p : Persist) : Cache := (slots p).foldl (fun c e => c.replay e.1 e.2) {}

/-- `VoteDB.UpdateContext` -/
def Cache.updateContext (c : Cache) (r i : Nat) : Cache :=
  match c.round with
  | some cr => if cr > r ∨ (cr = r ∧ c.index ≥ i) then c else { round := some r, index := i, mark := noMarks }
  | none => { round := some r, index := i, mark := noMarks }

/-- `VoteDB.alreadyVoted` -/
def Cache.alreadyVoted (c : Cache) (k : Kind) (r i : Nat) : Bool :=
  match c.round with
  | none => false
  | some cr =>
    if cr > r then true
    else if cr = r then
      decide (c.index > i) || (decide (c.index = i) && decide (k = .next) && decide (c.mark k = 2)) ||
        (decide (c.index = i) && decide (k ≠ .next) && decide (c.mark k = 1))
    else false

/-- `VoteDB.UpdateVoteData` split at the `db.Put`: the key index written, and the cache after the write. -/
def Cache.voteSlot (c : Cache) (k : Kind) (r i : Nat) : Nat :=
  if c.round = some r ∧ c.index = i then (c.mark k + 1) % 256 else 1

def Cache.afterVote (c : Cache) (k : Kind) (r i : Nat) : Cache :=
  let m := if (c.round ≠ none ∧ c.round ≠ some r) ∨ c.index ≠ i then noMarks else c.mark
  { round := some r, index := i, mark := setMark m k ((m k + 1) % 256) }

/-! ## votes_mgr.go -/

def u32 : Nat := 4294967296
def u64 : Nat := 18446744073709551616

def assocGet {β : Type} (l : List (Nat × β)) (k : Nat) : Option β := (l.find? (·.1 == k)).map (·.2)
def assocSet {β : Type} (l : List (Nat × β)) (k : Nat) (v : β) : List (Nat × β) :=
  if l.any (·.1 == k) then l.map (fun e => if e.1 == k then (k, v) else e) else l ++ [(k, v)]

structure AddrVote where
  hash : Nat
  dbl : Bool

/-- `VoteSta` -/
structure VoteSta where
  info : List (Nat × Nat × Nat) := []      -- votesInfo[hash][addr] = weight, as (hash, addr, weight)
  counts : List (Nat × Nat) := []          -- voteCounts[hash] (uint32)
  addrs : List (Nat × AddrVote) := []      -- addressVotes[addr]

def VoteSta.count (v : VoteSta) (h : Nat) : Nat := (assocGet v.counts h).getD 0
def VoteSta.nInfo (v : VoteSta) (h : Nat) : Nat := (v.info.filter (·.1 == h)).length

/-- `VoteSta.newVote` -/
def VoteSta.newVote (v : VoteSta) (addr h w : Nat) : VoteSta × Bool × Nat :=
  match assocGet v.addrs addr with
  | some _ => (v, false, v.count h)
  | none =>
    let v' : VoteSta := { info := v.info ++ [(h, addr, w)], counts := assocSet v.counts h ((v.count h + w) % u32),
                          addrs := assocSet v.addrs addr { hash := h, dbl := false } }
    (v', true, v'.count h)

inductive AddrRes | none | notVoted | exist | different | doubleVoted
  deriving DecidableEq, Repr

/-- `VoteSta.addrVoteInfo` (`isNext` = the statistics object is the next-index one) -/
def VoteSta.addrVoteInfo (v : VoteSta) (isNext : Bool) (addr h : Nat) : VoteSta × AddrRes :=
  match assocGet v.addrs addr with
  | Option.none => (v, .notVoted)
  | some a =>
    if a.dbl then (v, .doubleVoted)
    else if a.hash = h ∨ isNext then (v, .exist)
    else
      let addrs := assocSet v.addrs addr { a with dbl := true }
      match v.info.find? (fun e => e.1 == a.hash && e.2.1 == addr) with
      | some e =>
        ({ info := v.info.filter (fun e => !(e.1 == a.hash && e.2.1 == addr)),
           counts := assocSet v.counts a.hash ((v.count a.hash + u32 - e.2.2 % u32) % u32), addrs := addrs }, .different)
      | Option.none => ({ v with addrs := addrs }, .different)

/-- `VotesManager` -/
structure Manager where
  prevotes : VoteSta := {}
  precommits : VoteSta := {}
  nexts : VoteSta := {}
  certs : VoteSta := {}

def Manager.get (m : Manager) : Kind → VoteSta
  | .prevote => m.prevotes | .precommit => m.precommits | .next => m.nexts | .cert => m.certs
def Manager.set (m : Manager) (k : Kind) (v : VoteSta) : Manager :=
  match k with
  | .prevote => { m with prevotes := v } | .precommit => { m with precommits := v }
  | .next => { m with nexts := v } | .cert => { m with certs := v }

/-- `VotesWrapper` with the (round, index) its managers were cleared for -/
structure Wrapper where
  round : Nat
  index : Nat
  chamber : Manager := {}
  house : Manager := {}

/-- validator kinds: 1 = chamber, 2 = house, anything else selects no manager -/
def Wrapper.mgr? (w : Wrapper) (vt : Nat) : Option Manager :=
  if vt = 1 then some w.chamber else if vt = 2 then some w.house else none
def Wrapper.setMgr (w : Wrapper) (vt : Nat) (m : Manager) : Wrapper :=
  if vt = 1 then { w with chamber := m } else if vt = 2 then { w with house := m } else w

/-- `VotesWrapper.newVote` -/
def Wrapper.newVote (w : Wrapper) (r i : Nat) (k : Kind) (addr h wt vt : Nat) : Wrapper × Bool × Nat :=
  match w.mgr? vt with
  | none => (w, false, 0)
  | some m =>
    if r ≠ w.round ∨ i ≠ w.index then (w, false, 0)
    else
      let (s, add, cnt) := (m.get k).newVote addr h wt
      (w.setMgr vt (m.set k s), add, cnt)

/-- `VotesWrapper.addrVoteInfo` -/
def Wrapper.addrVoteInfo (w : Wrapper) (r i : Nat) (k : Kind) (addr h vt : Nat) : Wrapper × AddrRes :=
  match w.mgr? vt with
  | none => (w, .none)
  | some m =>
    if r ≠ w.round ∨ i ≠ w.index then (w, .none)
    else
      let (s, res) := (m.get k).addrVoteInfo (k == .next) addr h
      (w.setMgr vt (m.set k s), res)

/-- number of chamber votes of a kind recorded for a hash (`len(getVotes(kind, hash, KindChamber))`) -/
def Wrapper.nChamber (w : Wrapper) (k : Kind) (h : Nat) : Nat := (w.chamber.get k).nInfo h

/-- `VotesWrapperList`: at most `MaxVoteCacheCount` = 4 wrappers keyed by (round mod 2^64, index) -/
abbrev Wrappers := List ((Nat × Nat) × Wrapper)

def maxVoteCache : Nat := 4
def wkey (r i : Nat) : Nat × Nat := (r % u64, i)
def Wrappers.get? (ws : Wrappers) (r i : Nat) : Option Wrapper := (ws.find? (·.1 == wkey r i)).map (·.2)
def Wrappers.set (ws : Wrappers) (r i : Nat) (w : Wrapper) : Wrappers :=
  ws.map fun e => if e.1 == wkey r i then (e.1, w) else e
/-- `NewWrapper` -/
def Wrappers.new (ws : Wrappers) (r i : Nat) : Wrappers :=
  match ws.get? r i with
  | some _ => ws
  | none =>
    if ws.length < maxVoteCache then ws ++ [(wkey r i, { round := r, index := i })]
    else ws.drop 1 ++ [(wkey r i, { round := r, index := i })]

/-! ## Voter -/

structure Marked where
  hash : Nat
  prio : Nat
  deriving DecidableEq, Repr

/-- `VoteStatus`: which kinds went over the threshold, per validator kind, and (`chamberTh`) the quorum in force when
    the chamber quorum of a kind was last seen (kept as the quorum count derived from the threshold) -/
structure VoteStatus where
  chamber : List Kind := []
  house : List Kind := []
  chamberQ : List (Nat × Nat) := []

/-- own sortition result for one vote kind (`StepView`): sub-users, validator kind, quorum derived from Threshold -/
structure Seat where
  w : Nat
  vt : Nat
  q : Nat

/-- the scripted collaborators -/
structure Env where
  seat : Kind → Option Seat := fun _ => some { w := 1, vt := 1, q := 0 }
  proposal : Option Marked := none        -- getMaxPriorityFn
  missing : List Nat := []                -- hashes NOT in the block cache (blockInCacheFn returns nil)
  certErr : Bool := false                 -- CertificateParams fails
  bls : Bool := false                     -- CurrentCaravelParams reports BLS enabled while a context is delivered: own votes go
                                          -- through VoteBLSMgr.SignVote, and the node is not in the (empty) look-back validator set

def Env.inCache (e : Env) (h : Nat) : Bool := !e.missing.contains h

structure Voter where
  round : Option Nat := none
  index : Nat := 0
  step : Nat := 0
  precommitted : Bool := false
  committed : Bool := false
  sentChange : Bool := false
  certificated : Bool := false
  shouldCert : Bool := false
  nextMarked : Option Marked := none
  curMarked : Option Marked := none
  nextVoted : Option Marked := none
  voteOver : List (Nat × VoteStatus) := []
  wrappers : Wrappers := []
  updateEv : Option (Nat × Nat × Nat) := none

/-- a vote that left the node -/
structure Signed where
  kind : Kind
  round : Nat
  index : Nat
  hash : Nat
  persisted : Bool     -- ghost: its record was in the database when it was posted
  deriving DecidableEq, Repr

/-- events posted on the mux -/
inductive Out
  | send (k : Kind) (r i h prio w : Nat)
  | rice (r i h prio : Nat)
  | commit (r i h npre ncert : Nat)
  | update (r i h npre : Nat)
  deriving Repr

/-- the part of the state the property is about -/
structure Gate where
  p : Persist := Persist.empty
  c : Cache := {}
  sent : List Signed := []           -- ghost: every vote ever posted, oldest first
  dead : Bool := false               -- the process died at an armed crash point during the current call
  armed : Option (Nat × Bool) := none  -- crash at the n-th Put of the current call (before it / right after it)
  puts : Nat := 0                    -- Puts attempted during the current call
  out : List Out := []               -- events posted on the mux during the current call

structure St where
  g : Gate := {}
  v : Voter := {}
  env : Env := {}

/-- `db.Put` with the armed crash point -/
def Gate.put (g : Gate) (k : Kind) (idx : Nat) (c : Ctx) : Gate :=
  if g.dead then g else
  let n := g.puts + 1
  match g.armed with
  | some (m, after) =>
    if n = m then
      if after then { g with p := g.p.put k idx c, puts := n, dead := true }
      else { g with puts := n, dead := true }
    else { g with p := g.p.put k idx c, puts := n }
  | none => { g with p := g.p.put k idx c, puts := n }

/-- the gate part of `Voter.vote`: `UpdateVoteData` (refusal, or Put + cache update) followed by the post of the
    SendMessageEvent (between the two the real code only updates its in-memory vote statistics).
    Returns the new gate and whether `UpdateVoteData` returned nil. -/
def Gate.cast (g : Gate) (k : Kind) (r i h prio w : Nat) : Gate × Bool :=
  if g.c.alreadyVoted k r i then (g, false) else
  let g1 := g.put k (g.c.voteSlot k r i) ⟨r, i⟩
  let g2 := { g1 with c := g.c.afterVote k r i }
  if g2.dead then (g2, true)
  else ({ g2 with sent := g2.sent ++ [{ kind := k, round := r, index := i, hash := h, persisted := g2.p.has k ⟨r, i⟩ }],
                  out := g2.out ++ [.send k r i h prio w] }, true)

/-- `AsyncPost` of an event -/
def Gate.post (g : Gate) (o : Out) : Gate := if g.dead then g else { g with out := g.out ++ [o] }

def St.post (s : St) (o : Out) : St := { s with g := s.g.post o }

def Out.isSend : Out → Bool
  | .send .. => true
  | _ => false

def Voter.cur? (v : Voter) : Option Wrapper :=
  match v.round with
  | none => none
  | some r => v.wrappers.get? r v.index

def statusHas (vs : VoteStatus) (k : Kind) (vt : Nat) : Bool :=
  if vt = 1 then vs.chamber.contains k else if vt = 2 then vs.house.contains k else false
def statusAdd (vs : VoteStatus) (k : Kind) (vt q : Nat) : VoteStatus :=
  if vt = 1 then { vs with chamber := k :: vs.chamber, chamberQ := assocSet vs.chamberQ k.code q }
  else if vt = 2 then { vs with house := k :: vs.house } else vs
def statusQ (vs : VoteStatus) (k : Kind) : Nat := (assocGet vs.chamberQ k.code).getD 0

/-- everything `Voter.vote` does before `judgeVoteCount`; `some (count, seat)` when the vote was cast -/
def voteCore (s : St) (k : Kind) (h prio : Nat) : St × Option (Nat × Seat) :=
  match s.v.round with
  | none => (s, none)
  | some r =>
    let i := s.v.index
    match s.env.seat k with
    | none => (s, none)                                                        -- not a validator
    | some seat =>
      if k = .next ∧ s.v.nextVoted.isSome ∧ s.g.c.alreadyVoted .next r i then (s, none)   -- "already voted."
      else if k = .cert ∧ s.env.certErr then (s, none)                          -- signVote fails
      else if s.env.bls then (s, none)                                         -- SignVote: "not in validators set"
      else
        let res := s.g.cast k r i h prio seat.w
        if !res.2 then ({ s with g := res.1 }, none)
        else
          -- v.votesMgr.newVote(own address 0)
          let wc : Wrappers × Nat :=
            match s.v.wrappers.get? r i with
            | some w => let nv := w.newVote r i k 0 h seat.w seat.vt; (s.v.wrappers.set r i nv.1, nv.2.2)
            | none => (s.v.wrappers, 0)
          ({ s with g := res.1, v := { s.v with wrappers := wc.1 } }, some (wc.2, seat))

/-- common prefix of `judgeVoteCount`; `true` = go on to the switch -/
def judgePre (s : St) (k : Kind) (count q h vt : Nat) : St × Bool :=
  if !(count ≥ q) ∨ (s.v.committed ∧ k ≠ .precommit) then (s, false)
  else if s.v.committed ∧ k = .precommit then
    ({ s with v := { s.v with updateEv := some (s.v.round.getD 0, s.v.index, h) } }, false)
  else
    let vs := (assocGet s.v.voteOver h).getD {}
    let s' := { s with v := { s.v with voteOver := assocSet s.v.voteOver h (statusAdd vs k vt q) } }
    (s', vt = 1)

def overStatus (s : St) (h : Nat) (k : Kind) : Bool := statusHas ((assocGet s.v.voteOver h).getD {}) k 1

/-- `judgeVoteCount(NextIndex, …)` -/
def judgeNext (s : St) (count q h prio vt : Nat) : St :=
  let pre := judgePre s .next count q h vt
  let s := pre.1
  if !pre.2 then s
  else if s.v.sentChange then s
  else
    let s := s.post (.rice (s.v.round.getD 0) s.v.index h prio)
    { s with v := { s.v with sentChange := true } }

def voteNext (s : St) (h prio : Nat) : St × Bool :=
  let res := voteCore s .next h prio
  match res.2 with
  | none => (res.1, false)
  | some cs => (judgeNext res.1 cs.1 cs.2.q h prio cs.2.vt, true)

/-- `setMarkedBlock` -/
def setMarkedBlock (s : St) (h prio : Nat) : St :=
  let blocked : Bool := match s.v.nextVoted with
    | some nv => decide (nv.hash ≠ 0 ∨ nv.hash = h ∨ h = 0)
    | none => false
  if blocked then s
  else if !s.env.inCache h ∧ h ≠ 0 then s
  else if s.v.step < 4 then
    if s.v.nextMarked.isNone ∧ h ≠ 0 then { s with v := { s.v with nextMarked := some ⟨h, prio⟩ } } else s
  else
    let res := voteNext s h prio
    if !res.2 then { res.1 with v := { res.1.v with nextVoted := some ⟨h, prio⟩ } } else res.1

/-- number of chamber sub-users counted for a hash (`getVotes(kind, hash, KindChamber)` second result) -/
def Wrapper.cChamber (w : Wrapper) (k : Kind) (h : Nat) : Nat := (w.chamber.get k).count h

/-- `commit`: only when the block is cached and the vote sets it packs still reach the quorums latched in `voteOver` -/
def commit (s : St) (h : Nat) : St :=
  if !s.env.inCache h then s
  else
    match assocGet s.v.voteOver h with
    | none => s
    | some vs =>
      let w := s.v.cur?
      let np := match w with | some w => w.nChamber .precommit h | none => 0
      let pc := match w with | some w => w.cChamber .precommit h | none => 0
      let nc := match w with | some w => w.nChamber .cert h | none => 0
      let cc := match w with | some w => w.cChamber .cert h | none => 0
      if !statusHas vs .precommit 1 ∨ !(pc ≥ statusQ vs .precommit) then s
      else if s.v.shouldCert ∧ (!statusHas vs .cert 1 ∨ !(cc ≥ statusQ vs .cert)) then s
      else
        let s := { s with v := { s.v with committed := true } }
        s.post (.commit (s.v.round.getD 0) s.v.index h np (if s.v.shouldCert then nc else 0))

/-- `judgeVoteCount(Certificate, …)` -/
def judgeCert (s : St) (count q h prio vt : Nat) : St :=
  let pre := judgePre s .cert count q h vt
  let s := pre.1
  if !pre.2 then s
  else if overStatus s h .precommit then setMarkedBlock (commit s h) h prio
  else s

def voteCert (s : St) (h prio : Nat) : St × Bool :=
  let res := voteCore s .cert h prio
  match res.2 with
  | none => (res.1, false)
  | some cs => (judgeCert res.1 cs.1 cs.2.q h prio cs.2.vt, true)

/-- `judgeVoteCount(Precommit, …)` -/
def judgePrecommit (s : St) (count q h prio vt : Nat) : St :=
  let pre := judgePre s .precommit count q h vt
  let s := pre.1
  if !pre.2 then s
  else if !s.v.shouldCert then setMarkedBlock (commit s h) h prio
  else if !s.v.certificated then
    let res := voteCert s h prio
    if res.2 then { res.1 with v := { res.1.v with certificated := true } } else res.1
  else if overStatus s h .cert then setMarkedBlock (commit s h) h prio
  else s

def votePrecommit (s : St) (h prio : Nat) : St × Bool :=
  let res := voteCore s .precommit h prio
  match res.2 with
  | none => (res.1, false)
  | some cs => (judgePrecommit res.1 cs.1 cs.2.q h prio cs.2.vt, true)

/-- `judgeVoteCount(Prevote, …)` -/
def judgePrevote (s : St) (count q h prio vt : Nat) : St :=
  let pre := judgePre s .prevote count q h vt
  let s := pre.1
  if !pre.2 then s
  else if !s.v.precommitted then
    let res := votePrecommit s h prio
    let s := if res.2 then { res.1 with v := { res.1.v with precommitted := true } } else res.1
    setMarkedBlock s h prio
  else s

def votePrevote (s : St) (h prio : Nat) : St :=
  let res := voteCore s .prevote h prio
  match res.2 with
  | none => res.1
  | some cs => judgePrevote res.1 cs.1 cs.2.q h prio cs.2.vt

/-- `judgeVoteCount` for a received vote -/
def judge (s : St) (k : Kind) (count q h prio vt : Nat) : St :=
  match k with
  | .prevote => judgePrevote s count q h prio vt
  | .precommit => judgePrecommit s count q h prio vt
  | .next => judgeNext s count q h prio vt
  | .cert => judgeCert s count q h prio vt

/-- `Voter.removeMarkedBlock` (called by `Server.commit` when the insert of the committed block fails);
    nothing marked = nothing to do (since /repo 2371db7; it used to dereference the nil `nextMarked`) -/
def removeMarkedBlock (s : St) (h : Nat) : St :=
  match s.v.nextMarked with
  | none => s
  | some m => if m.hash = h then { s with v := { s.v with nextMarked := none, nextVoted := none } } else s

/-- `Voter.existHashOverVotesThreshold` (read-only): do the prevotes or the precommits counted in the current context,
    summed over all hashes (uint32), reach the two thresholds? -/
def existOver (s : St) (r i chTh hoTh : Nat) : Bool :=
  match s.v.cur? with
  | none => false
  | some w =>
    if r ≠ w.round ∨ i ≠ w.index then false
    else
      let total (m : Manager) (k : Kind) : Nat := ((m.get k).counts.foldl (fun acc e => (acc + e.2) % u32) 0)
      let check (k : Kind) : Bool := decide (total w.chamber k ≥ chTh ∧ total w.house k ≥ hoTh)
      check .prevote || check .precommit

/-- `Voter.updateContext` -/
def updateContext (s : St) (r i step : Nat) (cert : Bool) : St :=
  let changed := s.v.round ≠ some r ∨ s.v.index ≠ i
  let s :=
    if changed then
      let s := match s.v.updateEv with
        | some (ur, ui, uh) =>
          let s := match s.v.wrappers.get? ur ui with
            | some w => s.post (.update ur ui uh (w.nChamber .precommit uh))
            | none => s
          { s with v := { s.v with updateEv := none } }
        | none => s
      { s with v := { s.v with
          wrappers := s.v.wrappers.new r i, precommitted := false, committed := false, sentChange := false,
          certificated := false, curMarked := if i = 1 then none else s.v.nextVoted,
          nextMarked := none, nextVoted := none, voteOver := [] } }
    else s
  let s := { s with v := { s.v with round := some r, index := i, step := step, shouldCert := cert },
                    g := { s.g with c := s.g.c.updateContext r i } }
  if step = 2 then
    match s.v.curMarked with
    | some m =>
      if m.hash ≠ 0 then votePrevote s m.hash m.prio
      else match s.env.proposal with
        | none => s
        | some pr => votePrevote s pr.hash pr.prio
    | none =>
      match s.env.proposal with
      | none => s
      | some pr => votePrevote s pr.hash pr.prio
  else if step = 4 ∨ step = 5 then
    if s.v.committed ∨ s.v.sentChange then s
    else match s.v.nextMarked with
      | none => setMarkedBlock s 0 0
      | some m => setMarkedBlock s m.hash m.prio
  else s

/-- a received vote (`VoteMsgEvent` + `MsgReceivedStatus`) with the scripted answers of the collaborators -/
structure VoteMsg where
  kind : Nat          -- VoteType as sent (2..5 are vote kinds, anything else is garbage)
  round : Nat
  index : Nat
  hash : Nat
  prio : Nat
  sender : Nat        -- validator number (0 = this node)
  addrOk : Bool       -- recovered signer = envelope sender
  w : Nat             -- Votes (uint32)
  status : Nat        -- 0 oldRound, 1 oldRoundIndex, 2 same, 3 future, 4 invalid
  vt : Nat            -- validator kind reported by getStakeFn
  q : Nat             -- quorum for judgeVoteCount (from Threshold, isPos = kind ≠ certificate)
  qOld : Nat          -- quorum of `OverThreshold(total, threshold, false)` (old-round precommits)
  stakeErr : Bool
  sortErr : Bool
  nilVote : Bool

inductive Ret | nil | invalid | panic
  deriving DecidableEq, Repr

/-- the checks of `Voter.processVoteMsg` that return before any state is touched (`none` = go on) -/
def precheck (s : St) (m : VoteMsg) : Option Ret :=
  if m.status = 2 ∧ m.nilVote then some .invalid
  else if m.status = 2 ∧ s.v.round.isNone then some .panic    -- msg.Round.Cmp(nil)
  else if m.status = 2 ∧ (s.v.round ≠ some m.round ∨ s.v.index ≠ m.index) then some .nil
  else if m.kind = 5 ∧ s.env.certErr then some .invalid
  else if m.nilVote then some .panic                         -- nil dereference in getAddrFromVote
  else if !m.addrOk then some .invalid
  else if m.stakeErr then some .invalid
  else if m.sortErr then some .invalid
  else if m.status = 3 ∨ m.status = 4 then some .nil
  else if (m.status = 0 ∨ m.status = 1) ∧ ((s.v.wrappers.get? m.round m.index).isNone ∨ m.kind ≠ 3) then some .nil
  else none

/-- the counting part of `processVoteMsg`, once the wrapper and the vote kind are known -/
def countVote (s : St) (m : VoteMsg) (w : Wrapper) (k : Kind) : St :=
  let ai := w.addrVoteInfo m.round m.index k m.sender m.hash m.vt
  let s := { s with v := { s.v with wrappers := s.v.wrappers.set m.round m.index ai.1 } }
  if ai.2 ≠ .notVoted then s
  else
    let nv := ai.1.newVote m.round m.index k m.sender m.hash m.w m.vt
    let s := { s with v := { s.v with wrappers := s.v.wrappers.set m.round m.index nv.1 } }
    if !nv.2.1 then s
    else if m.status = 2 then judge s k nv.2.2 m.q m.hash m.prio m.vt
    else if nv.2.2 ≥ m.qOld then s.post (.update m.round m.index m.hash (nv.1.nChamber .precommit m.hash))
    else s

/-- `Voter.processVoteMsg` -/
def processVoteMsg (s : St) (m : VoteMsg) : St × Ret :=
  match precheck s m with
  | some r => (s, r)
  | none =>
    let s := if (s.v.wrappers.get? m.round m.index).isNone ∧ m.status = 2
      then { s with v := { s.v with wrappers := s.v.wrappers.new m.round m.index } } else s
    match s.v.wrappers.get? m.round m.index with
    | none => (s, .panic)                                   -- nil wrapper (unknown status value)
    | some w =>
      match Kind.ofCode? m.kind with
      | none => (s, .nil)                                   -- addrNone
      | some k => (countVote s m w k, .nil)

/-! ## Histories -/

/-- one input of the history -/
inductive Ev
  | ctx (r i step : Nat) (cert : Bool)          -- ContextChangeEvent (step timer, index change, new round)
  | vote (m : VoteMsg)                          -- a received vote
  | unmark (h : Nat)                            -- Voter.removeMarkedBlock(h)
  | crash                                       -- kill + restart between two calls
  | arm (n : Nat) (after : Bool)                -- the next ctx/vote call dies at its n-th db.Put (before / right after it)
  | env (e : Env)                               -- the collaborators change their answers (proposals, sortition, cache)

/-- restart on the same database -/
def restart (s : St) : St :=
  { g := { p := s.g.p, c := restore s.g.p, sent := s.g.sent, out := s.g.out }, v := {}, env := s.env }

/-- end of a call: forget the crash point; a dead process restarts -/
def finish (s : St) : St × Bool :=
  if s.g.dead then (restart s, true) else ({ s with g := { s.g with armed := none, puts := 0 } }, false)

/-- outcome of one call as the harness sees it -/
inductive Outcome | done (r : Ret) | crashed
  deriving Repr

def step (s : St) : Ev → St × Outcome
  | .ctx r i st cert =>
    let res := finish (updateContext { s with g := { s.g with puts := 0, out := [] } } r i st cert)
    (res.1, if res.2 then .crashed else .done .nil)
  | .vote m =>
    -- the BLS switch of the scripted environment applies to delivered contexts only
    let pr := processVoteMsg { s with g := { s.g with puts := 0, out := [] }, env := { s.env with bls := false } } m
    let res := finish { pr.1 with env := { pr.1.env with bls := s.env.bls } }
    if res.2 then (res.1, .crashed)
    else if pr.2 = .panic then (restart res.1, .done .panic)
    else (res.1, .done pr.2)
  | .unmark h =>
    ((finish (removeMarkedBlock { s with g := { s.g with puts := 0, out := [] } } h)).1, .done .nil)
  | .crash => (restart { s with g := { s.g with out := [] } }, .done .nil)
  | .arm n after => ({ s with g := { s.g with armed := some (n, after), out := [] } }, .done .nil)
  | .env e => ({ s with g := { s.g with out := [] }, env := e }, .done .nil)

def run (s : St) (evs : List Ev) : St := evs.foldl (fun s e => (step s e).1) s

def init : St := {}

/-- votes of one kind signed in one (round, index) -/
def signedIn (l : List Signed) (k : Kind) (r i : Nat) : List Signed :=
  l.filter fun x => x.kind = k ∧ x.round = r ∧ x.index = i

end YouVerif.C02
