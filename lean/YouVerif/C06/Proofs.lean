/-
C06 — helper lemmas: every loop body of the model is right-commutative, hence every fold over an iteration order is
invariant under permutation of the order (core `List.Perm.foldl_eq'`).
-/
import YouVerif.C06.Model

set_option linter.unusedSimpArgs false

namespace YouVerif.C06

/-- fold over an iteration order is permutation invariant when the body is right-commutative -/
theorem foldl_perm {σ α : Type} (f : σ → α → σ) (comm : ∀ s a b, f (f s a) b = f (f s b) a)
    {o₁ o₂ : List α} (p : o₁.Perm o₂) (s : σ) : o₁.foldl f s = o₂.foldl f s :=
  List.Perm.foldl_eq' p (fun x _ y _ z => comm z x y) s

/-! ### role maps -/

@[simp] theorem RMap.get_set_same {α} (m : RMap α) (r : Role) (x : α) : (m.set r x).get r = some x := by
  cases r <;> rfl

theorem RMap.get_set_ne {α} (m : RMap α) {r r' : Role} (x : α) (h : r ≠ r') : (m.set r x).get r' = m.get r' := by
  cases r <;> cases r' <;> first | rfl | exact absurd rfl h

theorem RMap.set_comm {α} (m : RMap α) {r r' : Role} (x y : α) (h : r ≠ r') :
    (m.set r x).set r' y = (m.set r' y).set r x := by
  cases r <;> cases r' <;> first | rfl | exact absurd rfl h

theorem Stat.upd_comm (st : Stat) {r r' : Role} (f g : RoleStat → RoleStat) (h : r ≠ r') :
    (st.upd r f).upd r' g = (st.upd r' g).upd r f := by
  cases r <;> cases r' <;> first | rfl | exact absurd rfl h

theorem Stat.upd_upd (st : Stat) (r : Role) (f g : RoleStat → RoleStat) :
    (st.upd r f).upd r g = st.upd r (g ∘ f) := by
  cases r <;> rfl

/-! ### rewardsToPool -/

theorem loop1Step_comm (per : Nat) (m : RMap Info) (a b : Role) :
    loop1Step per (loop1Step per m a) b = loop1Step per (loop1Step per m b) a := by
  by_cases hab : a = b
  · subst hab; rfl
  · have hba : b ≠ a := fun h => hab h.symm
    unfold loop1Step
    cases ha : m.get a <;> cases hb : m.get b <;> simp [ha, hb, RMap.get_set_ne _ _ hab, RMap.get_set_ne _ _ hba]
    exact RMap.set_comm _ _ _ hab

theorem loop2Step_comm (v5 : Bool) (pr : Role) (m : RMap Info) (s : Acc) (a b : Role) :
    loop2Step v5 pr m (loop2Step v5 pr m s a) b = loop2Step v5 pr m (loop2Step v5 pr m s b) a := by
  by_cases hab : a = b
  · subst hab; rfl
  · unfold loop2Step
    cases ha : m.get a with
    | none => cases hb : m.get b <;> rfl
    | some ia =>
      cases hb : m.get b with
      | none => rfl
      | some ib =>
        simp only []
        cases v5 <;> simp only [Bool.false_eq_true, if_false, if_true]
        · by_cases h1 : a = pr <;> by_cases h2 : b = pr <;> simp only [h1, h2, if_true, if_false]
          · exact absurd (h1.trans h2.symm) hab
          · rw [Stat.upd_comm _ _ _ hab]
        · by_cases h1 : a = Role.house <;> by_cases h2 : b = Role.house <;> simp only [h1, h2, if_true, if_false]
          · exact absurd (h1.trans h2.symm) hab
          · simp only [Nat.add_right_comm]

/-! ### distributeRewards -/

theorem finalStep_comm (recs : RMap Rec) (s : Out Stat) (a b : Role) :
    finalStep recs (finalStep recs s a) b = finalStep recs (finalStep recs s b) a := by
  by_cases hab : a = b
  · subst hab; rfl
  · unfold finalStep
    cases s with
    | err => rfl
    | crash => rfl
    | ok st =>
      cases ha : recs.get a with
      | none =>
        cases hb : recs.get b with
        | none => simp
        | some rb => by_cases h2 : rb.total = rb.residue <;> simp [h2, ha]
      | some ra =>
        cases hb : recs.get b with
        | none => by_cases h1 : ra.total = ra.residue <;> simp [h1, hb]
        | some rb =>
          by_cases h1 : ra.total = ra.residue <;> by_cases h2 : rb.total = rb.residue <;> simp [h1, h2, ha, hb]
          exact Stat.upd_comm _ _ _ hab

/-! ### Finalise / flush -/

theorem FState.ext' {s t : FState} (h1 : s.objs = t.objs) (h2 : s.pending = t.pending) (h3 : s.dirty = t.dirty)
    (h4 : s.trie = t.trie) : s = t := by
  cases s; cases t; simp_all

theorem finaliseStep_comm (s : FState) (a b : Nat) :
    finaliseStep (finaliseStep s a) b = finaliseStep (finaliseStep s b) a := by
  by_cases hab : a = b
  · subst hab; rfl
  · have hba : b ≠ a := fun h => hab h.symm
    unfold finaliseStep
    cases ha : s.objs a with
    | none =>
      cases hb : s.objs b with
      | none => simp [ha, hb]
      | some ob => simp [ha, hb, hab]
    | some oa =>
      cases hb : s.objs b with
      | none => simp [ha, hb, hba]
      | some ob =>
        simp only [ha, hb, hab, hba, if_false]
        apply FState.ext' <;> simp only [] <;> funext k <;> by_cases h1 : k = a <;> by_cases h2 : k = b <;>
          simp [h1, h2, hab, hba]
        all_goals (subst h1; exact absurd h2 hab)

theorem flushStep_comm (objs : Cache) (t : Content) (a b : Nat) :
    flushStep objs (flushStep objs t a) b = flushStep objs (flushStep objs t b) a := by
  by_cases hab : a = b
  · subst hab; rfl
  · have hba : b ≠ a := fun h => hab h.symm
    unfold flushStep
    cases ha : objs a with
    | none => cases hb : objs b <;> rfl
    | some oa =>
      cases hb : objs b with
      | none => rfl
      | some ob =>
        simp only []
        cases hda : oa.deleted <;> cases hdb : ob.deleted <;> simp only [Bool.false_eq_true, if_false, if_true] <;>
          funext k <;> by_cases h1 : k = a <;> by_cases h2 : k = b <;> simp [h1, h2, hab, hba]
        all_goals (subst h1; exact absurd h2 hab)

theorem stakingStep_comm (recs : Nat → Option Nat) (acc : Content × Bool) (a b : Nat) :
    stakingStep recs (stakingStep recs acc a) b = stakingStep recs (stakingStep recs acc b) a := by
  by_cases hab : a = b
  · subst hab; rfl
  · have hba : b ≠ a := fun h => hab h.symm
    unfold stakingStep
    cases ha : recs a with
    | none => cases hb : recs b <;> rfl
    | some va =>
      cases hb : recs b with
      | none => rfl
      | some vb =>
        simp only []
        congr 1
        funext k
        by_cases h1 : k = a <;> by_cases h2 : k = b <;> simp [h1, h2, hab, hba]
        all_goals (subst h1; exact absurd h2 hab)

/-- The object cache after Finalise does not depend on the order either (needed because the flush reads it). -/
theorem finalise_perm {oj oj' : List Nat} (p : oj.Perm oj') (s : FState) :
    oj.foldl finaliseStep s = oj'.foldl finaliseStep s :=
  foldl_perm finaliseStep finaliseStep_comm p s

/-! ### GetValidators -/

theorem VKey.ge_iff (a b : VKey) : a.ge b = true ↔
    (b.stake < a.stake ∨ (a.stake = b.stake ∧ (b.token < a.token ∨ (a.token = b.token ∧ b.addr ≤ a.addr)))) := by
  unfold VKey.ge
  by_cases h1 : a.stake = b.stake
  · by_cases h2 : a.token = b.token
    · simp [h1, h2]
    · simp [h1, h2]
  · simp [h1]

theorem VKey.ge_trans (a b c : VKey) : a.ge b = true → b.ge c = true → a.ge c = true := by
  simp only [VKey.ge_iff]; omega

theorem VKey.ge_total (a b : VKey) : (a.ge b || b.ge a) = true := by
  simp only [Bool.or_eq_true, VKey.ge_iff]; omega

theorem VKey.ge_antisymm (a b : VKey) : a.ge b = true → b.ge a = true → a = b := by
  simp only [VKey.ge_iff]
  intro h1 h2
  cases a; cases b
  simp only [VKey.mk.injEq] at *
  omega

/-! ### slashing

`core r` is everything of a `PRes` that later steps read or that the block commits to: validator states, penalty
account, the once-per-block set, the logs. The confirmed/pending lists are outputs only. -/

structure Core where
  vals : Nat → Option SVal
  pen : Nat
  seen : List Nat
  logs : List (Nat × Nat)

def PRes.core (r : PRes) : Core := ⟨r.st.vals, r.st.penaltyAccount, r.seen, r.logs⟩

/-- one step either leaves the core alone and confirms nothing, or confirms exactly `e` -/
theorem evStep_cases (cfg : SlashCfg) (p n : Nat) (r : PRes) (e : Ev) :
    ((evStep true cfg p n r e).core = r.core ∧ (evStep true cfg p n r e).confirmed = r.confirmed) ∨
    ((evStep true cfg p n r e).confirmed = r.confirmed ++ [e]) := by
  unfold evStep
  by_cases h0 : e.wf = false
  · simp only [h0, Bool.not_false, if_true]; left; first | exact ⟨rfl, rfl⟩ | simp [PRes.core]
  simp only [Bool.not_eq_false] at h0
  simp only [h0, Bool.not_true, Bool.false_eq_true, if_false]
  by_cases h1 : e.round = p
  · simp only [h1, if_true]
    cases hs : e.signer with
    | none => left; first | exact ⟨rfl, rfl⟩ | simp [PRes.core]
    | some a =>
      simp only []
      by_cases h2 : a ∈ r.seen
      · simp only [h2, if_true]; left; first | exact ⟨rfl, rfl⟩ | simp [PRes.core]
      · simp only [h2, if_false]
        cases hv : r.st.vals a with
        | none => left; first | exact ⟨rfl, rfl⟩ | simp [PRes.core]
        | some v => right; simp
  · simp only [h1, if_false]
    by_cases h2 : p < e.round
    · simp only [h2, if_true]; left; first | exact ⟨rfl, rfl⟩ | simp [PRes.core]
    · simp only [h2, if_false]
      by_cases h3 : p - e.round ≤ cfg.maxExpired
      · simp only [h3, if_true]; left; first | exact ⟨rfl, rfl⟩ | simp [PRes.core]
      · simp only [h3, if_false]; left; first | exact ⟨rfl, rfl⟩ | simp [PRes.core]

/-- the core after a step is a function of the core before it -/
theorem evStep_core (cz : Bool) (cfg : SlashCfg) (p n : Nat) (r r' : PRes) (e : Ev) (h : r.core = r'.core) :
    (evStep cz cfg p n r e).core = (evStep cz cfg p n r' e).core := by
  have hv : r.st.vals = r'.st.vals := congrArg Core.vals h
  have hp : r.st.penaltyAccount = r'.st.penaltyAccount := congrArg Core.pen h
  have hs : r.seen = r'.seen := congrArg Core.seen h
  have hl : r.logs = r'.logs := congrArg Core.logs h
  unfold evStep
  by_cases h0 : e.wf = false
  · simp only [h0, Bool.not_false, if_true]; exact h
  simp only [Bool.not_eq_false] at h0
  simp only [h0, Bool.not_true, Bool.false_eq_true, if_false]
  by_cases h1 : e.round = p
  · simp only [h1, if_true]
    cases hsg : e.signer with
    | none => exact h
    | some a =>
      simp only []
      rw [← hs]
      by_cases h2 : a ∈ r.seen
      · simp only [h2, if_true]; exact h
      · simp only [h2, if_false]
        rw [← hv]
        cases hva : r.st.vals a with
        | none => exact h
        | some v => simp only [PRes.core, hv, hp, hs, hl]
  · simp only [h1, if_false]
    by_cases h2 : p < e.round
    · simp only [h2, if_true]; exact h
    · simp only [h2, if_false]
      by_cases h3 : p - e.round ≤ cfg.maxExpired
      · simp only [h3, if_true]; exact h
      · simp only [h3, if_false]; exact h

/-- Main lemma: the evidences a run confirms, replayed alone from a state with the same core, give the same core. -/
theorem replay_confirmed (cfg : SlashCfg) (p n : Nat) (evs : List Ev) :
    ∀ (r r' : PRes), r.core = r'.core →
      ∃ c, (evs.foldl (evStep true cfg p n) r).confirmed = r.confirmed ++ c ∧
           (c.foldl (evStep true cfg p n) r').core = (evs.foldl (evStep true cfg p n) r).core := by
  induction evs with
  | nil => intro r r' h; exact ⟨[], by simp, by simpa using h.symm⟩
  | cons e evs ih =>
    intro r r' h
    rcases evStep_cases cfg p n r e with ⟨hc, hconf⟩ | hconf
    · obtain ⟨c, h1, h2⟩ := ih (evStep true cfg p n r e) r' (hc.trans h)
      exact ⟨c, by simpa [List.foldl, hconf] using h1, by simpa [List.foldl] using h2⟩
    · obtain ⟨c, h1, h2⟩ := ih (evStep true cfg p n r e) (evStep true cfg p n r' e) (evStep_core true cfg p n r r' e h)
      refine ⟨e :: c, ?_, ?_⟩
      · simp only [List.foldl]; rw [h1, hconf]; simp
      · simpa [List.foldl] using h2

end YouVerif.C06
