/-
C06 — executable model of the end-of-block path of go-youchain, with every Go `map` iteration made an explicit
iteration-order argument (a `List` of keys), and of the builder/importer pair `slashing` / `replaySlashing`.

Modelled Go code (what exists in /repo now):
  staking/endblock.go   blockRewards, rewardsToPool (two `range roleRewards` loops, V5 and pre-V5 branch),
                        distributeRewards (record construction, validator loop, `range rewardsRecord` loop)
  staking/slash.go      slashing, replaySlashing, processEvidences
  staking/slash_youv5.go processDoubleSignV5 (decision structure; the cryptographic checks are an input bit)
  core/state/statedb.go Finalise (`range journal.dirties`, `range validatorJournal.dirties`),
                        IntermediateRoot (`range stateObjectsPending`, `range validatorObjectsDirty`),
  core/state/statedb_staking.go updateStakingTrie (`range stakingRecordsDirty`)
  core/state/statedb_val.go GetValidators (sync.Map.Range in arbitrary order, then sort by the total order Validator.Less)

Go semantics of `for k := range m`: every key of `m` is visited exactly once, in an unspecified order. The model
functions take that order as a list `o`; Go's behaviour is the model's behaviour for *some* duplicate-free list `o`
enumerating the keys. The theorems quantify over all pairs of lists related by `List.Perm`.

Core Lean only (this file is linked into the native driver).
-/
namespace YouVerif.C06

/-- Outcome of a Go function that may panic / `logging.Crit` (process exit) or return an error. -/
inductive Out (α : Type) where
  | ok (a : α)
  | err            -- Go returned an error (`distributeRewards`: "empty stake")
  | crash          -- Go panics (division by zero, nil dereference) or calls logging.Crit
deriving DecidableEq, Repr

/-! ## Roles and role-indexed maps -/

inductive Role where
  | chancellor | senator | house
deriving DecidableEq, Repr, Inhabited

def allRoles : List Role := [.chancellor, .senator, .house]

/-- A Go `map[params.ValidatorRole]*T`. -/
structure RMap (α : Type) where
  c : Option α := none
  s : Option α := none
  h : Option α := none
deriving DecidableEq, Repr

def RMap.get {α} (m : RMap α) : Role → Option α
  | .chancellor => m.c | .senator => m.s | .house => m.h

def RMap.set {α} (m : RMap α) (r : Role) (x : α) : RMap α :=
  match r with
  | .chancellor => { m with c := some x }
  | .senator => { m with s := some x }
  | .house => { m with h := some x }

/-- Statistics of one role (core/state ValKindStat: the three fields the reward path reads/writes). -/
structure RoleStat where
  count : Nat := 0         -- online validators of the role
  onlineStake : Nat := 0
  rewards : Nat := 0       -- rewardsDistributable of the role pool
deriving DecidableEq, Repr

structure Stat where
  c : RoleStat := {}
  s : RoleStat := {}
  h : RoleStat := {}
  residue : Nat := 0       -- Kinds[KindValidator].rewardsResidue
deriving DecidableEq, Repr

def Stat.get (st : Stat) : Role → RoleStat
  | .chancellor => st.c | .senator => st.s | .house => st.h

def Stat.upd (st : Stat) (r : Role) (f : RoleStat → RoleStat) : Stat :=
  match r with
  | .chancellor => { st with c := f st.c }
  | .senator => { st with s := f st.s }
  | .house => { st with h := f st.h }

/-! ## blockRewards -/

structure RewardCfg where
  ratioC : Nat
  ratioS : Nat
  ratioH : Nat
  subsidyThreshold : Nat
  subsidyCoeff : Nat
  v5 : Bool
deriving DecidableEq, Repr

def RewardCfg.ratio (c : RewardCfg) : Role → Nat
  | .chancellor => c.ratioC | .senator => c.ratioS | .house => c.ratioH

def u64 : Nat := 2 ^ 64

/-- `blockRewards`: (totalRewards, subsidies). `gasRewards`, `residue`, `pool` are non-negative big.Ints. -/
def blockRewards (cfg : RewardCfg) (pool gasRewards residue : Nat) : Nat × Nat :=
  let dflt := gasRewards + residue
  let want :=
    if dflt < u64 ∧ dflt < cfg.subsidyThreshold ∧ 0 < pool then
      (((cfg.subsidyThreshold - dflt) / 10) * cfg.subsidyCoeff) % u64     -- uint64 arithmetic
    else 0
  let subsidies := if dflt < u64 ∧ dflt < cfg.subsidyThreshold ∧ 0 < pool ∧ pool < want then pool else want
  (gasRewards + residue + subsidies, subsidies)

/-! ## rewardsToPool -/

structure Info where
  ratio : Nat
  rewards : Nat
deriving DecidableEq, Repr

/-- The fixed-order construction loop (`for _, role := range []ValidatorRole{…}` — a slice, deterministic). -/
def mkRoleRewards (cfg : RewardCfg) (st : Stat) : RMap Info × Nat :=
  allRoles.foldl (fun (acc : RMap Info × Nat) r =>
    if 0 < (st.get r).count then (acc.1.set r ⟨cfg.ratio r, 0⟩, acc.2 + cfg.ratio r) else acc) ({}, 0)

/-- body of `for _, info := range roleRewards { info.rewards.Mul(rewardsPerPortion, ratio) }` for the visited key -/
def loop1Step (per : Nat) (m : RMap Info) (r : Role) : RMap Info :=
  match m.get r with
  | none => m
  | some i => m.set r { i with rewards := per * i.ratio }

structure Acc where
  st : Stat
  proposer : Nat
deriving DecidableEq, Repr

/-- body of the second `range roleRewards` loop (V5 branch and pre-V5 branch) for the visited key -/
def loop2Step (v5 : Bool) (proposerRole : Role) (m : RMap Info) (a : Acc) (r : Role) : Acc :=
  match m.get r with
  | none => a
  | some i =>
    if v5 then
      if r = .house then { a with st := a.st.upd r fun x => { x with rewards := x.rewards + i.rewards } }
      else { a with proposer := a.proposer + i.rewards }
    else
      if r = proposerRole then { a with proposer := a.proposer + i.rewards }
      else { a with st := a.st.upd r fun x => { x with rewards := x.rewards + i.rewards } }

/-- `rewardsToPool` after `blockRewards`; `o₁`, `o₂` are the orders in which the two `range roleRewards` loops visit
the keys. Result: new statistics and the proposer's reward (credited to the proposer and logged). -/
def rewardsToPool (o₁ o₂ : List Role) (cfg : RewardCfg) (st : Stat) (proposerRole : Role) (total : Nat) : Out (Stat × Nat) :=
  if total = 0 then .ok (st, 0) else      -- `blockRewards.Sign() <= 0`: nothing happens (not even the log)
  let (m, sum) := mkRoleRewards cfg st
  if sum = 0 then .crash else             -- QuoRem by zero panics
  let per := total / sum
  let residue := total % sum
  let m₁ := o₁.foldl (loop1Step per) m
  let a := o₂.foldl (loop2Step cfg.v5 proposerRole m₁) ⟨st, 0⟩
  .ok ({ a.st with residue := residue }, a.proposer)

/-! ## distributeRewards -/

structure Val where
  role : Role
  stake : Nat
  offline : Bool
  lastSettled : Nat
deriving DecidableEq, Repr

structure Rec where
  total : Nat
  per : Nat
  residue : Nat
deriving DecidableEq, Repr

/-- record construction, fixed order; division by zero panics -/
def mkRecords (st : Stat) : Out (RMap Rec) :=
  allRoles.foldl (fun (acc : Out (RMap Rec)) r =>
    match acc with
    | .ok m =>
      let s := st.get r
      if s.count = 0 then .ok m else
      let cnt := if r = .house then s.count else s.onlineStake
      if cnt = 0 then .crash else .ok (m.set r ⟨s.rewards, s.rewards / cnt, s.rewards % cnt⟩)
    | o => o) (.ok {})

structure DistAcc where
  recs : RMap Rec
  rewards : List Nat      -- per validator, in validator order: reward added (0 for offline ones)
  settled : List Bool     -- per validator: forced settlement requested
deriving DecidableEq, Repr

/-- body of `for _, val := range allValidators` (a slice in validator-index order: deterministic) -/
def valStep (cur gap : Nat) (acc : Out DistAcc) (v : Val) : Out DistAcc :=
  match acc with
  | .ok a =>
    if v.offline then .ok { a with rewards := a.rewards ++ [0], settled := a.settled ++ [true] } else
    match a.recs.get v.role with
    | none => .crash                                   -- nil record dereference
    | some rc =>
      let rw := if v.role = .house then rc.per else rc.per * v.stake
      if rc.total < rw then .crash else                -- logging.Crit "not enough rewards to distribute"
      .ok { recs := a.recs.set v.role { rc with total := rc.total - rw },
            rewards := a.rewards ++ [rw],
            settled := a.settled ++ [decide (v.lastSettled < cur ∧ v.lastSettled + gap ≤ cur)] }
  | o => o

/-- body of `for role, record := range rewardsRecord` for the visited key -/
def finalStep (recs : RMap Rec) (acc : Out Stat) (r : Role) : Out Stat :=
  match acc with
  | .ok st =>
    match recs.get r with
    | none => .ok st
    | some rc => if rc.total ≠ rc.residue then .crash       -- logging.Crit "wrong residue"
                 else .ok (st.upd r fun x => { x with rewards := rc.residue })
  | o => o

/-- `distributeRewards` (without the settlements it triggers): `o` is the order of the final `range rewardsRecord`. -/
def distributeRewards (o : List Role) (st : Stat) (totalOnlineStake : Nat) (vals : List Val) (cur gap : Nat) :
    Out (Stat × List Nat × List Bool) :=
  if totalOnlineStake = 0 then .err else
  match mkRecords st with
  | .ok recs =>
    match vals.foldl (valStep cur gap) (.ok ⟨recs, [], []⟩) with
    | .ok a =>
      match o.foldl (finalStep a.recs) (.ok st) with
      | .ok st' => .ok (st', a.rewards, a.settled)
      | .err => .err
      | .crash => .crash
    | .err => .err
    | .crash => .crash
  | .err => .err
  | .crash => .crash

/-- The reward part of `EndBlock`: rewardsToPool, then (at a period end) distributeRewards on the updated statistics. -/
def endBlockRewards (o₁ o₂ o₃ : List Role) (cfg : RewardCfg) (st : Stat) (proposerRole : Role) (pool gasRewards : Nat)
    (periodEnd : Bool) (totalOnlineStake : Nat) (vals : List Val) (cur gap : Nat) :
    Out (Stat × Nat × Nat × Option (List Nat × List Bool)) :=
  let (total, subsidy) := blockRewards cfg pool gasRewards st.residue
  match rewardsToPool o₁ o₂ cfg st proposerRole total with
  | .ok (st₁, prop) =>
    if periodEnd then
      match distributeRewards o₃ st₁ totalOnlineStake vals cur gap with
      | .ok (st₂, rw, se) => .ok (st₂, prop, subsidy, some (rw, se))
      | .err => .ok (st₁, prop, subsidy, none)      -- endStakingPeriod logs the error and EndBlock goes on
      | .crash => .crash
    else .ok (st₁, prop, subsidy, none)
  | .err => .err
  | .crash => .crash

/-! ## Finalise / IntermediateRoot: flushing dirty sets into trie contents

A trie's content is a finite map; `Content := Nat → Option Nat` (key ↦ encoded value). The root hash is a function
of the content (that is property C13's theorem, not repeated here), so equal contents have equal roots. -/

abbrev Content := Nat → Option Nat
abbrev KeySet := Nat → Bool

/-- A cached object (stateObject / Validator / stakingRecord) as far as flushing is concerned. -/
structure Obj where
  suicided : Bool := false
  empty : Bool := false      -- stateObject.empty() / Validator.IsInvalid()
  deleted : Bool := false
  enc : Nat := 0             -- the value written for a live object (RLP of the account / validator / record)
deriving DecidableEq, Repr

abbrev Cache := Nat → Option Obj

structure FState where
  objs : Cache
  pending : KeySet          -- stateObjectsPending
  dirty : KeySet            -- stateObjectsDirty
  trie : Content

/-- body of `for addr := range st.journal.dirties` in Finalise(deleteEmptyObjects = true) -/
def finaliseStep (s : FState) (addr : Nat) : FState :=
  match s.objs addr with
  | none => s
  | some ob =>
    let ob' := if ob.suicided || ob.empty then { ob with deleted := true } else ob
    { s with objs := fun k => if k = addr then some ob' else s.objs k,
             pending := fun k => if k = addr then true else s.pending k,
             dirty := fun k => if k = addr then true else s.dirty k }

/-- body of `for addr := range st.stateObjectsPending` in IntermediateRoot (deleteStateObject / updateStateObject);
the same shape serves `range validatorObjectsDirty` (deleteValidator / updateValidator) and
`range stakingRecordsDirty` (TryUpdate). -/
def flushStep (objs : Cache) (t : Content) (addr : Nat) : Content :=
  match objs addr with
  | none => t
  | some ob => if ob.deleted then (fun k => if k = addr then none else t k)
               else (fun k => if k = addr then some ob.enc else t k)

/-- Finalise then the flush of IntermediateRoot for one trie: `oj` = order of `range journal.dirties`,
`op` = order of `range stateObjectsPending`. -/
def intermediate (oj op : List Nat) (s : FState) : FState :=
  let s₁ := oj.foldl finaliseStep s
  { s₁ with trie := op.foldl (flushStep s₁.objs) s₁.trie, pending := fun _ => false }

/-! ### updateStakingTrie with records that fail to encode

`rlp.EncodeToBytes` fails for a record with a negative `FinalValue`. `recs k = none` models such a record,
`some v` its encoding. The flag is "an error was met" (reported by `IntermediateRoot` via `setError`; on error the dirty
set is kept and the pending relationship is not written — both independent of the order). -/

/-- loop body of the code that exists (after fix 6c7591b): a failing record is skipped, the loop goes on -/
def stakingStep (recs : Nat → Option Nat) (acc : Content × Bool) (k : Nat) : Content × Bool :=
  match recs k with
  | some v => (fun x => if x = k then some v else acc.1 x, acc.2)
  | none => (acc.1, true)

def updateStakingTrie (o : List Nat) (recs : Nat → Option Nat) (t : Content) : Content × Bool :=
  o.foldl (stakingStep recs) (t, false)

/-- loop body before the fix: `return err` inside the loop — nothing after the first failing record is written -/
def stakingStepOld (recs : Nat → Option Nat) (acc : Content × Bool) (k : Nat) : Content × Bool :=
  if acc.2 then acc else stakingStep recs acc k

def updateStakingTrieOld (o : List Nat) (recs : Nat → Option Nat) (t : Content) : Content × Bool :=
  o.foldl (stakingStepOld recs) (t, false)

/-! ## GetValidators: arbitrary-order collection, then sort by a total order

`Validator.Less` compares (stake, token, main address) lexicographically; main addresses are unique, so it is a strict
total order on the set. Any sorting algorithm gives the same list (see `getValidators_order_independent`). -/

structure VKey where
  stake : Nat
  token : Nat
  addr : Nat
deriving DecidableEq, Repr

/-- `¬ a.Less b ∨ a = b`, i.e. the non-strict descending order the list ends up in (`sort.Reverse`). -/
def VKey.ge (a b : VKey) : Bool :=
  if a.stake ≠ b.stake then decide (b.stake < a.stake)
  else if a.token ≠ b.token then decide (b.token < a.token)
  else decide (b.addr ≤ a.addr)

/-- `GetValidators`: `o` is the order in which `sync.Map.Range` hands out the cached validators; the list is then
sorted (Go: `sort.Sort(sort.Reverse(s))`; here the core library's merge sort). -/
def getValidators (o : List VKey) : List VKey := o.mergeSort VKey.ge

/-! ## slashing (builder) and replaySlashing (importer) -/

/-- An evidence as far as the decision structure of `processDoubleSignV5` is concerned.
`signer = some a`: the evidence decodes, has ≥ 2 signatures, the signer index resolves in the look-back validator set of
`round` and every signature verifies under that validator's BLS key; `a` is its main address. `none`: any of these fails.
(That bit depends on the evidence bytes and on the look-back state of `round` only.) -/
structure Ev where
  id : Nat
  wf : Bool             -- the data decodes as EvidenceDoubleSignV5 and carries ≥ 2 signatures (checked before anything else)
  round : Nat
  signer : Option Nat
deriving DecidableEq, Repr

/-- Validator state as far as `doPenalize` is concerned. -/
structure SVal where
  token : Nat
  offline : Bool
  expelled : Bool
  expelExpired : Nat
deriving DecidableEq, Repr

structure SlashCfg where
  maxExpired : Nat                      -- MaxEvidenceExpiredIn
  expelRounds : Nat                     -- ExpelledRoundForDoubleSign
  /-- `takePenalty`: the penalty total actually collected (from unfinished withdrawals, own deposit, delegations) and the
  part of it that comes out of the validator's `Token` (C05's subject; here any two functions) -/
  take : SVal → Nat
  fromToken : SVal → Nat

structure SState where
  vals : Nat → Option SVal
  penaltyAccount : Nat

/-- `doPenalize`: returns the new validator and the total taken. Expels and sets offline in every case. -/
def doPenalize (cfg : SlashCfg) (hdrNum : Nat) (v : SVal) : SVal × Nat :=
  let t := cfg.take v
  ({ token := v.token - cfg.fromToken v, offline := true, expelled := true,
     expelExpired := max v.expelExpired (hdrNum + cfg.expelRounds) }, t)

structure PRes where
  st : SState
  seen : List Nat              -- doubleSignedValidators
  confirmed : List Ev
  pending : List Ev
  logs : List (Nat × Nat)      -- slashing logs: (validator, total)

/-- body of the loop of `processEvidences` → `processDoubleSignV5`.
`confirmZero = true` is the code that exists (after fix c73832e): an evidence whose penalty total is 0 is recorded as
confirmed as well; `false` is the code before that fix. -/
def evStep (confirmZero : Bool) (cfg : SlashCfg) (parentHeight hdrNum : Nat) (r : PRes) (e : Ev) : PRes :=
  if !e.wf then r else        -- undecodable / fewer than two signatures: dropped whatever its round
  if e.round = parentHeight then
    match e.signer with
    | none => r
    | some a =>
      if a ∈ r.seen then r else
      match r.st.vals a with
      | none => r
      | some v =>
        let (v', t) := doPenalize cfg hdrNum v
        let st' : SState := { vals := fun k => if k = a then some v' else r.st.vals k,
                              penaltyAccount := r.st.penaltyAccount + t }
        { r with st := st', seen := a :: r.seen,
                 confirmed := if 0 < t ∨ confirmZero then r.confirmed ++ [e] else r.confirmed,
                 logs := if 0 < t then r.logs ++ [(a, t)] else r.logs }
  else if parentHeight < e.round then { r with pending := r.pending ++ [e] }
  else if parentHeight - e.round ≤ cfg.maxExpired then { r with pending := r.pending ++ [e] }
  else r

def processEvidences (confirmZero : Bool) (cfg : SlashCfg) (parentHeight hdrNum : Nat) (st : SState) (evs : List Ev) : PRes :=
  evs.foldl (evStep confirmZero cfg parentHeight hdrNum) ⟨st, [], [], [], []⟩

/-- `slashing` (isSeal = true), the code that exists: parent height = header.Number − 1. Returns the result and SlashData. -/
def slashing (cfg : SlashCfg) (hdrNum : Nat) (st : SState) (pool : List Ev) : PRes × List Ev :=
  let r := processEvidences true cfg (hdrNum - 1) hdrNum st pool
  (r, r.confirmed)

/-- `replaySlashing` (isSeal = false), the code that exists. `head` (the importing node's current head number) is an
argument only to make visible that the result does not depend on it. -/
def replaySlashing (cfg : SlashCfg) (_head hdrNum : Nat) (st : SState) (slashData : List Ev) : PRes :=
  if slashData = [] then ⟨st, [], [], [], []⟩ else
  processEvidences true cfg (hdrNum - 1) hdrNum st slashData

/-- The two functions before the fixes (a33d6de: parent height read from the local head; c73832e: zero totals dropped). -/
def slashingOld (cfg : SlashCfg) (head hdrNum : Nat) (st : SState) (pool : List Ev) : PRes × List Ev :=
  let r := processEvidences false cfg head hdrNum st pool
  (r, r.confirmed)

def replaySlashingOld (cfg : SlashCfg) (head hdrNum : Nat) (st : SState) (slashData : List Ev) : PRes :=
  if slashData = [] then ⟨st, [], [], [], []⟩ else
  processEvidences false cfg head hdrNum st slashData

/-- What a block execution commits to after the slashing step (state restricted to a finite list of probe keys, so that it
is comparable and printable). -/
def PRes.view (r : PRes) (keys : List Nat) : List (Option SVal) × Nat × List (Nat × Nat) :=
  (keys.map r.st.vals, r.st.penaltyAccount, r.logs)

end YouVerif.C06
