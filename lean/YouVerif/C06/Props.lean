/-
C06 — Block execution is deterministic and builder and validator always agree: the property theorems.

Every Go `map` iteration of the modelled end-of-block path is an explicit order argument of the model; the theorems say
that the result is the same for ALL pairs of orders related by `List.Perm` (in particular for any two duplicate-free
enumerations of the same key set, `endBlock_any_two_enumerations`), and that what the builder writes into SlashData,
replayed by an importer on the same parent state, reproduces the builder's state and logs whatever the importer's head is.
-/
import YouVerif.C06.Proofs

namespace YouVerif.C06

/-! ## Order independence of the reward path of EndBlock -/

/-- `rewardsToPool`: both `range roleRewards` loops. -/
theorem rewardsToPool_order_independent {o₁ o₁' o₂ o₂' : List Role} (p₁ : o₁.Perm o₁') (p₂ : o₂.Perm o₂')
    (cfg : RewardCfg) (st : Stat) (pr : Role) (total : Nat) :
    rewardsToPool o₁ o₂ cfg st pr total = rewardsToPool o₁' o₂' cfg st pr total := by
  unfold rewardsToPool
  split
  · rfl
  · simp only []
    split
    · rfl
    · rw [foldl_perm _ (loop1Step_comm _) p₁, foldl_perm _ (loop2Step_comm _ _ _) p₂]

/-- `distributeRewards`: the final `range rewardsRecord` loop (the validator loop runs over a slice). -/
theorem distributeRewards_order_independent {o o' : List Role} (p : o.Perm o')
    (st : Stat) (tot : Nat) (vals : List Val) (cur gap : Nat) :
    distributeRewards o st tot vals cur gap = distributeRewards o' st tot vals cur gap := by
  unfold distributeRewards
  split
  · rfl
  · split
    · split
      · rw [foldl_perm _ (finalStep_comm _) p]
      · rfl
      · rfl
    · rfl
    · rfl

/-- The reward part of `EndBlock` (blockRewards, rewardsToPool, distributeRewards at a period end) does not depend on
the order of any of its three map iterations. -/
theorem endBlock_order_independent {o₁ o₁' o₂ o₂' o₃ o₃' : List Role}
    (p₁ : o₁.Perm o₁') (p₂ : o₂.Perm o₂') (p₃ : o₃.Perm o₃')
    (cfg : RewardCfg) (st : Stat) (pr : Role) (pool gas : Nat) (periodEnd : Bool) (tot : Nat) (vals : List Val) (cur gap : Nat) :
    endBlockRewards o₁ o₂ o₃ cfg st pr pool gas periodEnd tot vals cur gap =
    endBlockRewards o₁' o₂' o₃' cfg st pr pool gas periodEnd tot vals cur gap := by
  unfold endBlockRewards
  simp only [rewardsToPool_order_independent p₁ p₂]
  split
  · split
    · rw [distributeRewards_order_independent p₃]
    · rfl
  · rfl
  · rfl

/-- Go's `range` visits every key exactly once: any two duplicate-free enumerations of the same key set give the same
result. -/
theorem endBlock_any_two_enumerations {o₁ o₁' o₂ o₂' o₃ o₃' : List Role}
    (d₁ : o₁.Nodup) (d₁' : o₁'.Nodup) (e₁ : ∀ r, r ∈ o₁ ↔ r ∈ o₁')
    (d₂ : o₂.Nodup) (d₂' : o₂'.Nodup) (e₂ : ∀ r, r ∈ o₂ ↔ r ∈ o₂')
    (d₃ : o₃.Nodup) (d₃' : o₃'.Nodup) (e₃ : ∀ r, r ∈ o₃ ↔ r ∈ o₃')
    (cfg : RewardCfg) (st : Stat) (pr : Role) (pool gas : Nat) (periodEnd : Bool) (tot : Nat) (vals : List Val) (cur gap : Nat) :
    endBlockRewards o₁ o₂ o₃ cfg st pr pool gas periodEnd tot vals cur gap =
    endBlockRewards o₁' o₂' o₃' cfg st pr pool gas periodEnd tot vals cur gap :=
  endBlock_order_independent ((List.perm_ext_iff_of_nodup d₁ d₁').2 e₁) ((List.perm_ext_iff_of_nodup d₂ d₂').2 e₂)
    ((List.perm_ext_iff_of_nodup d₃ d₃').2 e₃) cfg st pr pool gas periodEnd tot vals cur gap

/-! ## Order independence of Finalise / IntermediateRoot -/

/-- Writing a set of dirty objects into a trie content (`range stateObjectsPending`, `range validatorObjectsDirty`,
`range stakingRecordsDirty`) gives the same content in every order. -/
theorem flush_order_independent {op op' : List Nat} (p : op.Perm op') (objs : Cache) (t : Content) :
    op.foldl (flushStep objs) t = op'.foldl (flushStep objs) t :=
  foldl_perm _ (flushStep_comm objs) p t

/-- `Finalise` (`range journal.dirties`) followed by the flush of `IntermediateRoot`: object cache, pending/dirty sets
and trie content are independent of both iteration orders. -/
theorem intermediateRoot_order_independent {oj oj' op op' : List Nat} (pj : oj.Perm oj') (pp : op.Perm op') (s : FState) :
    intermediate oj op s = intermediate oj' op' s := by
  unfold intermediate
  simp only [finalise_perm pj s, flush_order_independent pp]

/-- `updateStakingTrie` in the presence of records that fail to encode: the trie content and the error flag are the
same in every order of `range stakingRecordsDirty`. -/
theorem updateStakingTrie_order_independent {o o' : List Nat} (p : o.Perm o') (recs : Nat → Option Nat) (t : Content) :
    updateStakingTrie o recs t = updateStakingTrie o' recs t :=
  foldl_perm _ (stakingStep_comm recs) p (t, false)

/-- F-C06c: before 6c7591b the loop returned at the first failing record, and the content depended on the order:
record 1 does not encode, record 2 does; visited as [1, 2] record 2 is not written, visited as [2, 1] it is. -/
theorem old_updateStakingTrie_order_dependent :
    let recs : Nat → Option Nat := fun k => if k = 2 then some 5 else none
    (updateStakingTrieOld [1, 2] recs (fun _ => none)).1 2 = none ∧
    (updateStakingTrieOld [2, 1] recs (fun _ => none)).1 2 = some 5 ∧
    (updateStakingTrie [1, 2] recs (fun _ => none)).1 2 = some 5 := by
  decide

/-- `GetValidators` returns THE descending arrangement of what it collected: any list that is sorted by `Validator.Less`
(reversed) and is a permutation of the collected validators is the result. -/
theorem getValidators_spec {o e : List VKey} (hs : e.Pairwise (fun a b => VKey.ge a b = true)) (hp : o.Perm e) :
    getValidators o = e := by
  unfold getValidators
  apply List.Perm.eq_of_pairwise (le := fun a b => VKey.ge a b = true)
  · intro a b _ _ h1 h2; exact VKey.ge_antisymm a b h1 h2
  · exact List.pairwise_mergeSort VKey.ge_trans VKey.ge_total o
  · exact hs
  · exact (List.mergeSort_perm o _).trans hp

/-- `GetValidators`: whatever order `sync.Map.Range` hands the validators out in, the sorted list is the same
(`Validator.Less` is a total order because main addresses are unique). -/
theorem getValidators_order_independent {o o' : List VKey} (p : o.Perm o') : getValidators o = getValidators o' :=
  getValidators_spec (List.pairwise_mergeSort VKey.ge_trans VKey.ge_total o') (p.trans (List.mergeSort_perm o' _).symm)

/-! ## Builder and importer agree on slashing -/

/-- The importer's replay of the builder's SlashData on the same parent state reproduces the builder's validator states,
penalty account and slashing logs — for every evidence pool, every state, every block number, and every head of the
importing node (no side condition "head = parent"). -/
theorem seal_then_replay (cfg : SlashCfg) (head hdrNum : Nat) (st : SState) (pool : List Ev) :
    let b := slashing cfg hdrNum st pool
    let i := replaySlashing cfg head hdrNum st b.2
    i.st.vals = b.1.st.vals ∧ i.st.penaltyAccount = b.1.st.penaltyAccount ∧ i.logs = b.1.logs := by
  intro b i
  let r0 : PRes := ⟨st, [], [], [], []⟩
  obtain ⟨c, h1, h2⟩ := replay_confirmed cfg (hdrNum - 1) hdrNum pool r0 r0 rfl
  have hb2 : b.2 = c := by simpa [b, slashing, processEvidences, r0] using h1
  have hcore : i.core = b.1.core := by
    show (replaySlashing cfg head hdrNum st b.2).core = (processEvidences true cfg (hdrNum - 1) hdrNum st pool).core
    rw [hb2]
    unfold replaySlashing
    by_cases hc : c = []
    · simp only [hc, if_true]
      rw [hc] at h2
      exact h2
    · simp only [hc, if_false]
      exact h2
  exact ⟨congrArg Core.vals hcore, congrArg Core.pen hcore, congrArg Core.logs hcore⟩

/-- The replay does not read the importing node's head. -/
theorem replay_head_independent (cfg : SlashCfg) (h₁ h₂ hdrNum : Nat) (st : SState) (sd : List Ev) :
    (replaySlashing cfg h₁ hdrNum st sd).core = (replaySlashing cfg h₂ hdrNum st sd).core := rfl

/-! ### The code before the two fixes violates the property (witnesses replayed on the real code: corpus/C06) -/

def exCfg (take : SVal → Nat) : SlashCfg := { maxExpired := 120, expelRounds := 256, take := take, fromToken := take }
def exState : SState := { vals := fun k => if k = 7 then some ⟨4000, false, false, 0⟩ else none, penaltyAccount := 0 }

/-- F-C06a: before a33d6de the replay used the importer's head as parent height. Builder on head 3 builds block 4 with
an evidence for round 3 against validator 7 (2 % of 4000 = 80 taken); an importer whose head is a sibling at height 4
does not penalise. -/
theorem old_replay_head_dependent :
    let b := slashingOld (exCfg fun v => v.token * 2 / 100) 3 4 exState [⟨1, true, 3, some 7⟩]
    (replaySlashingOld (exCfg fun v => v.token * 2 / 100) 3 4 exState b.2).view [7] = b.1.view [7] ∧
    (replaySlashingOld (exCfg fun v => v.token * 2 / 100) 4 4 exState b.2).view [7] ≠ b.1.view [7] := by
  decide

/-- F-C06b: before c73832e an evidence whose penalty total is 0 expelled the validator in the builder's state but was
not written to SlashData, so no importer reproduced the builder's state (even with head = parent). -/
theorem old_zero_penalty_not_replayed :
    let b := slashingOld (exCfg fun _ => 0) 3 4 exState [⟨1, true, 3, some 7⟩]
    b.2 = [] ∧ (replaySlashingOld (exCfg fun _ => 0) 3 4 exState b.2).view [7] ≠ b.1.view [7] := by
  decide

/-! ## Non-vacuity (tests on literals) -/

-- a V5 block reward split over three populated roles: both loops really visit three keys, orders differ
example :
    rewardsToPool [.house, .chancellor, .senator] [.senator, .house, .chancellor]
      ⟨5, 3, 2, 9000, 5, true⟩ ⟨⟨1, 1000, 7⟩, ⟨2, 900, 0⟩, ⟨3, 300, 11⟩, 4⟩ .senator 1003 =
    .ok (⟨⟨1, 1000, 7⟩, ⟨2, 900, 0⟩, ⟨3, 300, 211⟩, 3⟩, 800) := by decide

-- pre-V5: the proposer takes its own role's share, the other roles' shares go to their pools
example :
    rewardsToPool [.chancellor, .senator, .house] [.house, .senator, .chancellor]
      ⟨5, 3, 2, 9000, 5, false⟩ ⟨⟨1, 1000, 7⟩, ⟨2, 900, 0⟩, ⟨3, 300, 11⟩, 4⟩ .senator 1003 =
    .ok (⟨⟨1, 1000, 507⟩, ⟨2, 900, 0⟩, ⟨3, 300, 211⟩, 3⟩, 300) := by decide

-- no online validator: division by zero in the real code, `crash` in the model
example : rewardsToPool [] [] ⟨5, 3, 2, 9000, 5, true⟩ {} .senator 10 = .crash := by decide

-- distributeRewards over two roles, one offline validator, one forced settlement
example :
    distributeRewards [.house, .chancellor] ⟨⟨2, 30, 100⟩, {}, ⟨1, 5, 9⟩, 0⟩ 35
      [⟨.chancellor, 10, false, 0⟩, ⟨.chancellor, 20, false, 200⟩, ⟨.senator, 50, true, 0⟩, ⟨.house, 5, false, 200⟩] 200 128 =
    .ok (⟨⟨2, 30, 10⟩, {}, ⟨1, 5, 0⟩, 0⟩, [30, 60, 0, 9], [true, false, true, false]) := by decide

-- the slashing step really confirms and replays something
example :
    let b := slashing (exCfg fun v => v.token * 2 / 100) 4 exState [⟨1, true, 3, some 7⟩, ⟨2, true, 5, some 7⟩, ⟨3, true, 3, none⟩, ⟨4, false, 6, none⟩]
    b.2 = [⟨1, true, 3, some 7⟩] ∧ b.1.pending = [⟨2, true, 5, some 7⟩] ∧
    b.1.view [7] = ([some ⟨3920, true, true, 260⟩], 80, [(7, 80)]) ∧
    (replaySlashing (exCfg fun v => v.token * 2 / 100) 99 4 exState b.2).view [7] = b.1.view [7] := by decide

-- the flush really writes and deletes
example :
    let objs : Cache := fun k => if k = 1 then some ⟨false, false, false, 11⟩ else if k = 2 then some ⟨true, false, true, 0⟩ else none
    let t : Content := fun k => if k = 2 then some 5 else if k = 3 then some 6 else none
    [1, 2, 3, 4].map ([2, 1].foldl (flushStep objs) t) = [some 11, none, some 6, none] := by decide

-- sorting three validators with a stake tie and a full tie broken by address
example : getValidators [⟨5, 50, 1⟩, ⟨7, 70, 2⟩, ⟨5, 50, 3⟩, ⟨5, 60, 4⟩] = [⟨7, 70, 2⟩, ⟨5, 60, 4⟩, ⟨5, 50, 3⟩, ⟨5, 50, 1⟩] :=
  getValidators_spec (by decide) (by decide)

end YouVerif.C06
