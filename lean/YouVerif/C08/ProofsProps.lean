/-
C08 — from the invariant to the statements of Props.lean.
-/
import YouVerif.C08.ProofsRun

namespace YouVerif.C08

theorem filterMap_map_key {vals : List Val} : ∀ (l : List Addr), (∀ a ∈ l, (getRaw vals a).map Val.key = visKey vals a) →
    (l.filterMap (getRaw vals)).map Val.key = l.filterMap (visKey vals) := by
  intro l
  induction l with
  | nil => intro _; rfl
  | cons a l ih =>
    intro h
    have ha := h a List.mem_cons_self
    have hl := ih (fun b hb => h b (List.mem_cons_of_mem _ hb))
    simp only [List.filterMap_cons]
    cases hg : getRaw vals a with
    | none => rw [hg] at ha; simp only [Option.map_none] at ha; rw [← ha]; exact hl
    | some v => rw [hg] at ha; simp only [Option.map_some] at ha; rw [← ha]; simp [hl]

theorem Inv.listed_keys {s : St} (h : Inv s) : (listed s).map Val.key = (abs s).keys := by
  unfold listed KS.keys
  apply filterMap_map_key
  intro a ha
  have hd := (h.base.dom a).mp ha
  show (getRaw s.vals a).map Val.key = visKey s.vals a
  unfold visKey
  cases hg : get s.vals a with
  | none => simp [abs, visKey, hg] at hd
  | some v => have := get_some.mp hg; rw [this.1]

theorem Inv.stats_eq {s : St} (h : Inv s) : s.stats = summarize (listed s) := by
  unfold summarize
  rw [h.listed_keys]
  exact h.base.stats

theorem Inv.index_dom {s : St} (h : Inv s) (a : Addr) : a ∈ s.index ↔ (get s.vals a).isSome := by
  have := h.base.dom a
  simp only [abs, visKey, Option.isSome_map] at this
  exact this

/-- unclamped subtraction -/
def Bucket.subU (b : Bucket) (k : Key) : Bucket :=
  if k.online then
    { b with onStake := b.onStake - k.stake, onToken := b.onToken - k.token, onCount := (b.onCount + (M64 - 1)) % M64 }
  else
    { b with offStake := b.offStake - k.stake, offToken := b.offToken - k.token, offCount := (b.offCount + (M64 - 1)) % M64 }

def decrU (s : Stats) (k : Key) : Stats := s.app (·.subU k) k.role

theorem Bucket.subU_addK {b : Bucket} {k : Key} (hb : b.Wf) : (b.addK k).subU k = b := by
  obtain ⟨h1, h2, h3, h4, h5, h6⟩ := hb
  cases b with
  | mk a1 a2 a3 a4 a5 a6 =>
    simp only at h1 h2 h3 h4 h5 h6
    unfold Bucket.addK Bucket.subU
    unfold M64 at *
    by_cases ho : k.online = true
    · simp only [ho, if_true]
      have e1 : (a1 + k.stake - k.stake) = a1 := by omega
      have e2 : (a2 + k.token - k.token) = a2 := by omega
      have e3 : ((a3 + 1) % 18446744073709551616 + (18446744073709551616 - 1)) % 18446744073709551616 = a3 := by omega
      simp [e1, e2, e3]
    · have ho' : k.online = false := by simpa using ho
      simp only [ho', if_false, Bool.false_eq_true]
      have e1 : (a4 + k.stake - k.stake) = a4 := by omega
      have e2 : (a5 + k.token - k.token) = a5 := by omega
      have e3 : ((a6 + 1) % 18446744073709551616 + (18446744073709551616 - 1)) % 18446744073709551616 = a6 := by omega
      simp [e1, e2, e3]

theorem decrU_incrK {s : Stats} {k : Key} (hs : s.Wf) : decrU (incrK s k) k = s := by
  obtain ⟨h1, h2, h3, h4, h5, h6⟩ := hs
  cases s with
  | mk a b c d e f =>
    simp only at h1 h2 h3 h4 h5 h6
    unfold decrU incrK Stats.app
    split <;> simp [Bucket.subU_addK, *]

theorem Inv.clamp {s : St} (h : Inv s) {a : Addr} {v : Val} (hg : get s.vals a = some v) :
    decrK s.stats v.key = decrU s.stats v.key := by
  have hb := h.base
  have hkv : (abs s).kv a = some v.key := by simp [abs, visKey, hg]
  have ha : a ∈ (abs s).index := (hb.dom a).mpr (by simp [hkv])
  have hp := keys_perm_mem' (f := (abs s).kv) (sorted_nodup hb.sorted) ha
  rw [hkv] at hp
  have hnn : ∀ k' ∈ v.key :: (eraseA (abs s).index a).filterMap (abs s).kv, k'.nonneg := by
    intro k' hk'
    rcases List.mem_cons.mp hk' with rfl | hk'
    · exact hb.nonneg a _ hkv
    · obtain ⟨x, _, hx⟩ := List.mem_filterMap.mp hk'
      exact hb.nonneg x k' hx
  have e0 : s.stats = incrK (summK ((eraseA (abs s).index a).filterMap (abs s).kv)) v.key := by
    have := hb.stats
    simp only [KS.keys] at this
    rw [show s.stats = (abs s).stats from rfl, this, summK_perm hp]; rfl
  have hw : (summK ((eraseA (abs s).index a).filterMap (abs s).kv)).Wf :=
    summK_wf (fun k'' hk'' => hnn k'' (List.mem_cons_of_mem _ hk''))
  rw [e0, decrK_incrK hw (hnn _ List.mem_cons_self), decrU_incrK hw]

/-! ### a decidable sufficient condition for `Safe` (used for the non-vacuity examples) -/

def nonNegB (s : St) : Bool := s.vals.all (fun v => decide (0 ≤ v.stake) && decide (0 ≤ v.token))

def opOkB (s : St) : Op → Bool
  | .remove _ => false
  | .updStale a _ _ g y =>
    match get s.vals a with
    | some cur => decide ((cur.set g y).key = cur.key)
    | none => true
  | _ => true

def safeB (c : Cfg) : St → List Op → Bool
  | _, [] => true
  | s, op :: ops => opOkB s op && nonNegB (step c s op).1 && safeB c (step c s op).1 ops

theorem nonNegB_sound {s : St} (h : nonNegB s = true) : NonNeg s := by
  intro a v hv
  have hm : v ∈ s.vals := List.mem_of_find?_eq_some (get_some.mp hv).1
  have := List.all_eq_true.mp h v hm
  simp only [Bool.and_eq_true, decide_eq_true_eq] at this
  exact this

theorem opOkB_sound {s : St} {op : Op} (h : opOkB s op = true) : OpOk s op := by
  cases op with
  | updStale a f x g y =>
    intro cur hc
    simp only [opOkB, hc, decide_eq_true_eq] at h
    exact h
  | remove a => simp [opOkB] at h
  | _ => trivial

theorem safeB_sound (c : Cfg) : ∀ (ops : List Op) (s : St), safeB c s ops = true → Safe c s ops := by
  intro ops
  induction ops with
  | nil => intro _ _; trivial
  | cons op ops ih =>
    intro s h
    simp only [safeB, Bool.and_eq_true] at h
    exact ⟨opOkB_sound h.1.1, nonNegB_sound h.1.2, ih _ h.2⟩

end YouVerif.C08
