/-
C08 — the sums invariant on states and its preservation by every handler-level operation.
-/
import YouVerif.C08.ProofsSums

namespace YouVerif.C08

theorem penSelf_spec {u : Int} {val : Val} (h : VWF u val) {take : Int} (ht : take > 0 → take ≤ val.selfToken) :
    0 ≤ (penSelf u val take).1 ∧ (penSelf u val take).2.1 = (penSelf u val take).1 / u ∧
    (penSelf u val take).2.2.1 = (penSelf u val take).1 + sumTok val.dlgs ∧
    (penSelf u val take).2.2.2 = (penSelf u val take).2.1 + sumStk val.dlgs := by
  have h1 := h.tok; have h2 := h.stk; have h3 := h.self; have h4 := h.selfNN
  unfold penSelf
  by_cases hp : take > 0
  · have := ht hp
    simp only [hp, if_true]
    refine ⟨by omega, by first | rfl | trivial | simp, by omega, by omega⟩
  · simp only [hp, if_false]
    exact ⟨h4, h3, h1, h2⟩

theorem penaltyRec_vwf (c : Cfg) (q : List WRec) {val : Val} (h : VWF c.unit val) (amount : Int) :
    VWF c.unit (penaltyRec c q val amount).2 := by
  unfold penaltyRec
  simp only
  generalize (penQueue val.addr q amount _) = pq
  generalize htake : (if ((pq.2.2.find? (fun y => y.1 == 0)).map (fun y => y.2)).getD 0 > 0 then
      imin val.selfToken (((pq.2.2.find? (fun y => y.1 == 0)).map (fun y => y.2)).getD 0) else 0) = take
  have ht : take > 0 → take ≤ val.selfToken := by
    intro hp; rw [← htake] at hp ⊢
    split
    · exact imin_le _ _
    · rename_i hn; simp [hn] at hp
  obtain ⟨s1, s2, s3, s4⟩ := penSelf_spec h ht
  by_cases hp1 : pq.2.1 > 0
  · simp only [hp1, if_true]
    obtain ⟨i1, i2, i3, i4, i5, _⟩ := penDlgs_spec c.unit (pq.2.2.filter (fun y => y.1 != 0)) val.dlgs
      (if take > 0 then pq.2.1 - take else pq.2.1) (penSelf c.unit val take).2.2.1 (penSelf c.unit val take).2.2.2
      h.sorted h.comp h.compPos
    generalize penDlgs c.unit (pq.2.2.filter (fun y => y.1 != 0)) val.dlgs
      (if take > 0 then pq.2.1 - take else pq.2.1) (penSelf c.unit val take).2.2.1 (penSelf c.unit val take).2.2.2 = pd at i1 i2 i3 i4 i5 ⊢
    generalize penSelf c.unit val take = ps at s1 s2 s3 s4 i4 i5 ⊢
    refine ⟨?_, ?_, s2, i2, s1, i3, i1⟩
    · show pd.2.2.1 = ps.1 + sumTok pd.1; omega
    · show pd.2.2.2 = ps.2.1 + sumStk pd.1; omega
  · simp only [hp1, if_false]
    exact h

/-! ### the invariant on states -/

structure SInv (u : Int) (s : St) : Prop where
  vis : ∀ v ∈ s.vals, v.deleted = false → VWF u v
  jold : ∀ e ∈ s.vj, ∀ old, (e = .delete old ∨ ∃ new, e = .update old new) → VWF u old

theorem SInv.get {u : Int} {s : St} (h : SInv u s) {a : Addr} {v : Val} (hg : get s.vals a = some v) : VWF u v :=
  have hh := get_some.mp hg
  h.vis v (List.mem_of_find?_eq_some hh.1) hh.2

theorem SInv.frame {u : Int} {s s' : St} (h : SInv u s) (e1 : s'.vals = s.vals) (e5 : s'.vj = s.vj) : SInv u s' :=
  ⟨by rw [e1]; exact h.vis, by rw [e5]; exact h.jold⟩

theorem mem_put {l : List Val} {v w : Val} (h : w ∈ put l v) : w = v ∨ w ∈ l := by
  unfold put at h
  rcases List.mem_cons.mp h with h | h
  · exact Or.inl h
  · exact Or.inr (List.mem_filter.mp h).1

theorem SInv.update {u : Int} {s : St} (h : SInv u s) {nv old : Val} (hn : VWF u nv) (ho : VWF u old) :
    SInv u (updateValidator s nv old).1 := by
  unfold updateValidator
  split
  · exact h
  · refine ⟨?_, ?_⟩
    · intro v hv hd
      rcases mem_put hv with rfl | hv
      · exact hn
      · exact h.vis v hv hd
    · intro e he old' ho'
      rcases List.mem_cons.mp he with rfl | he
      · rcases ho' with h1 | ⟨new, h1⟩
        · cases h1
        · cases h1; exact ho
      · exact h.jold e he old' ho'

theorem SInv.create {u : Int} {s : St} (h : SInv u s) {v : Val} (hn : VWF u v) : SInv u (createValidator s v).1 := by
  unfold createValidator
  split
  · exact h
  · refine ⟨?_, ?_⟩
    · intro w hw hd
      rcases mem_put hw with rfl | hw
      · exact hn
      · exact h.vis w hw hd
    · intro e he old' ho'
      rcases List.mem_cons.mp he with rfl | he
      · rcases ho' with h1 | ⟨new, h1⟩ <;> cases h1
      · exact h.jold e he old' ho'

theorem SInv.pushUBD {u : Int} {s : St} (h : SInv u s) (r : WRec) : SInv u (addUBD s r) := by
  refine ⟨h.vis, ?_⟩
  intro e he old' ho'
  rcases List.mem_cons.mp he with rfl | he
  · rcases ho' with h1 | ⟨new, h1⟩ <;> cases h1
  · exact h.jold e he old' ho'

theorem SInv.undoV {u : Int} {s : St} (h : SInv u s) : SInv u (YouVerif.C08.undoV s) := by
  unfold YouVerif.C08.undoV
  split
  · exact h
  · rename_i a r hvj
    have hj : ∀ e ∈ r, ∀ old, (e = .delete old ∨ ∃ new, e = .update old new) → VWF u old :=
      fun e he => h.jold e (by rw [hvj]; exact List.mem_cons_of_mem _ he)
    split
    · exact ⟨fun v hv hd => h.vis v (List.mem_filter.mp hv).1 hd, hj⟩
    · exact ⟨h.vis, hj⟩
  · rename_i old new r hvj
    have hj : ∀ e ∈ r, ∀ old, (e = .delete old ∨ ∃ new, e = .update old new) → VWF u old :=
      fun e he => h.jold e (by rw [hvj]; exact List.mem_cons_of_mem _ he)
    have ho : VWF u old := h.jold (.update old new) (by rw [hvj]; exact List.mem_cons_self) old (Or.inr ⟨new, rfl⟩)
    refine ⟨?_, hj⟩
    intro v hv hd
    rcases mem_put hv with rfl | hv
    · exact ho
    · exact h.vis v hv hd
  · rename_i old r hvj
    have hj : ∀ e ∈ r, ∀ old, (e = .delete old ∨ ∃ new, e = .update old new) → VWF u old :=
      fun e he => h.jold e (by rw [hvj]; exact List.mem_cons_of_mem _ he)
    have ho : VWF u old := h.jold (.delete old) (by rw [hvj]; exact List.mem_cons_self) old (Or.inl rfl)
    refine ⟨?_, hj⟩
    intro v hv hd
    rcases mem_put hv with rfl | hv
    · exact ho
    · exact h.vis v hv hd
  · rename_i op nonce r hvj
    exact ⟨h.vis, fun e he => h.jold e (by rw [hvj]; exact List.mem_cons_of_mem _ he)⟩

theorem SInv.undoVTo {u : Int} {n fuel : Nat} {s : St} (h : SInv u s) : SInv u (YouVerif.C08.undoVTo n fuel s) := by
  induction fuel generalizing s with
  | zero => exact h
  | succ f ih =>
    unfold YouVerif.C08.undoVTo
    split
    · exact h
    · exact ih h.undoV

theorem SInv.undoATo {u : Int} {n fuel : Nat} {s : St} (h : SInv u s) : SInv u (YouVerif.C08.undoATo n fuel s) := by
  induction fuel generalizing s with
  | zero => exact h
  | succ f ih =>
    unfold YouVerif.C08.undoATo
    split
    · exact h
    · obtain ⟨e1, _, _, _, e5⟩ := undoA_frame s
      exact ih (h.frame e1 e5)

theorem SInv.revertTo {u : Int} {s s' : St} {id : Nat} (h : SInv u s) (hr : YouVerif.C08.revertTo s id = some s') :
    SInv u s' := by
  unfold YouVerif.C08.revertTo at hr
  split at hr
  · cases hr
  · cases hr
    exact (h.undoATo.undoVTo).frame rfl rfl

theorem SInv.finalise {u : Int} {s : St} (h : SInv u s) : SInv u (YouVerif.C08.finalise s) :=
  ⟨h.vis, fun e he => by cases he⟩

theorem flush1_sinv {u : Int} (de : Bool) {s : St} (a : Addr) (h : SInv u s) :
    SInv u (flush1 de s a) ∧ (flush1 de s a).vj = s.vj := by
  unfold flush1
  split
  · exact ⟨h, rfl⟩
  · split
    · refine ⟨⟨?_, h.jold⟩, rfl⟩
      intro v hv hd
      rcases mem_put hv with rfl | hv
      · cases hd
      · exact h.vis v hv hd
    · exact ⟨⟨h.vis, h.jold⟩, rfl⟩

theorem flush_fold_sinv {u : Int} (de : Bool) (l : List Addr) : ∀ (s : St), SInv u s → SInv u (l.foldl (flush1 de) s) := by
  induction l with
  | nil => intro s h; exact h
  | cons a l ih => intro s h; exact ih _ (flush1_sinv de a h).1

theorem SInv.iroot {u : Int} {s : St} (de : Bool) (h : SInv u s) : SInv u (YouVerif.C08.iroot de s) := by
  unfold YouVerif.C08.iroot
  exact (flush_fold_sinv de _ _ h.finalise).frame rfl rfl

theorem SInv.filterVals {u : Int} {s : St} (h : SInv u s) (p : Val → Bool) : SInv u { s with vals := s.vals.filter p } :=
  ⟨fun v hv hd => h.vis v (List.mem_filter.mp hv).1 hd, h.jold⟩

theorem SInv.reload {u : Int} {s : St} (de : Bool) (h : SInv u s) : SInv u (YouVerif.C08.reload de s) := by
  unfold YouVerif.C08.reload
  exact ((h.iroot de).filterVals _).frame rfl rfl

theorem SInv.copy {u : Int} {s : St} (h : SInv u s) : SInv u (YouVerif.C08.copy s) := by
  unfold YouVerif.C08.copy
  exact ⟨fun v hv hd => h.vis v (List.mem_filter.mp hv).1 hd, fun e he => by cases he⟩

end YouVerif.C08
