/-
C08 — every operation of `step` preserves `Inv`; runs.
-/
import YouVerif.C08.ProofsOps

namespace YouVerif.C08

theorem Inv.updStored {s : St} (h : Inv s) {a : Addr} {cur nv : Val} (hg : get s.vals a = some cur) (hna : nv.addr = a)
    (hnd : nv.deleted = false) (hk : nv.key.nonneg) : Inv (updateValidator s nv cur).1 :=
  h.updCur hg rfl (get_facts hg).1 (get_facts hg).2 hna hnd hk

theorem nn_upd {s : St} {nv old : Val} (ha : nv.addr = old.addr) (hnd : nv.deleted = false)
    (hnn : NonNeg (updateValidator s nv old).1) : nv.key.nonneg :=
  nn_put (l := s.vals) hnd (by rw [← updateValidator_vals ha]; exact hnn)

theorem addUBD_vals (s : St) (r : WRec) : (addUBD s r).vals = s.vals := rfl

theorem teDeposit_inv (c : Cfg) {s : St} (h : Inv s) (a : Addr) (value : Int) (hnn : NonNeg (teDeposit c s a value).1) :
    Inv (teDeposit c s a value).1 := by
  generalize hres : teDeposit c s a value = res at hnn ⊢
  unfold teDeposit at hres
  split at hres
  · cases hres; exact h
  · rename_i old hg
    simp only at hres
    split at hres
    · cases hres; exact h
    · cases hres
      have hf := get_facts hg
      refine Inv.updStored h hg hf.1 hf.2 ?_
      exact nn_upd (s := s) (old := old) rfl hf.2 hnn

theorem teChangeStatus_inv (c : Cfg) {s : St} (h : Inv s) (a : Addr) (st : Nat) (hnn : NonNeg (teChangeStatus c s a st).1) :
    Inv (teChangeStatus c s a st).1 := by
  generalize hres : teChangeStatus c s a st = res at hnn ⊢
  unfold teChangeStatus at hres
  split at hres
  · cases hres; exact h
  · rename_i old hg
    split at hres
    · cases hres; exact h
    · cases hres
      have hf := get_facts hg
      refine Inv.updStored h hg hf.1 hf.2 ?_
      exact nn_upd (s := s) (old := old) rfl hf.2 hnn

theorem teWithdraw_inv (c : Cfg) {s : St} (h : Inv s) (a : Addr) (value : Int) (op : Addr) (nonce : Nat)
    (hnn : NonNeg (teWithdraw c s a value op nonce).1) : Inv (teWithdraw c s a value op nonce).1 := by
  generalize hres : teWithdraw c s a value op nonce = res at hnn ⊢
  unfold teWithdraw at hres
  split at hres
  · cases hres; exact h
  · rename_i old hg
    simp only at hres
    cases hres
    have hf := get_facts hg
    apply Inv.pushUBD
    refine Inv.updStored h hg hf.1 hf.2 ?_
    exact nn_upd (s := s) (old := old) rfl hf.2 hnn

theorem settle_inv {s : St} (h : Inv s) (a : Addr) (hnn : NonNeg (settle s a).1) : Inv (settle s a).1 := by
  generalize hres : settle s a = res at hnn ⊢
  unfold settle at hres
  split at hres
  · cases hres; exact h
  · rename_i val hg
    have hf := get_facts hg
    split at hres
    · cases hres
      refine Inv.updStored h hg hf.1 hf.2 ?_
      exact nn_upd (s := s) (old := val) rfl hf.2 hnn
    · split at hres
      · cases hres; exact h
      · simp only at hres
        cases hres
        refine Inv.updStored h hg hf.1 hf.2 ?_
        exact nn_upd (s := s) (old := val) rfl hf.2 hnn

theorem deleg_inv (c : Cfg) {s : St} (h : Inv s) (d : Addr) {val : Val} (delta : Int) (hg : get s.vals val.addr = some val)
    (hnn : NonNeg (updateDelegation c s d val delta).1) : Inv (updateDelegation c s d val delta).1 := by
  obtain ⟨_, h2, h3, h4⟩ := updateDelegation_spec c h d delta hg
  apply h4
  exact hnn _ _ h3

theorem teDelegationAdd_inv (c : Cfg) {s : St} (h : Inv s) (d a : Addr) (value : Int)
    (hnn : NonNeg (teDelegationAdd c s d a value).1) : Inv (teDelegationAdd c s d a value).1 := by
  generalize hres : teDelegationAdd c s d a value = res at hnn ⊢
  unfold teDelegationAdd at hres
  split at hres
  · cases hres; exact h
  · rename_i val hg
    have hf := get_facts hg
    have hr : Inv (if c.v5 = true then ensureAcct s d else s) := by
      split
      · exact h.ensureAcct d
      · exact h
    simp only at hres
    split at hres
    · cases hres; exact hr
    · split at hres
      · cases hres; exact hr
      · cases hres
        exact deleg_inv c h d value (by rw [hf.1]; exact hg) hnn

/-- the part of `teDelegationSub` after the amount is settled -/
def dsubTail (c : Cfg) (s : St) (d a : Addr) (val : Val) (w : Int) (nonce : Nat) : St :=
  let r := updateDelegation c s d val (-w)
  let s2 := if r.2.1.online && u64 r.2.1.stake < c.minStake r.2.1.role then
      (updateValidator r.1 { r.2.1 with status := 0 } r.2.1).1 else r.1
  addUBD s2 ⟨a, d, d, nonce, w⟩

theorem teDelegationSub_cases (c : Cfg) (s : St) (d a : Addr) (value : Int) (nonce : Nat) :
    (teDelegationSub c s d a value nonce).1 = s ∨
    ∃ val df, get s.vals a = some val ∧ findDlg val.dlgs d = some df ∧ 0 < dsubAmt c val df value ∧
      (teDelegationSub c s d a value nonce).1 = dsubTail c s d a val (dsubAmt c val df value) nonce := by
  unfold teDelegationSub
  split
  · exact Or.inl rfl
  · rename_i val hg
    split
    · exact Or.inl rfl
    · rename_i df hdf
      simp only
      by_cases hw : dsubAmt c val df value ≤ 0
      · rw [if_pos hw]; exact Or.inl rfl
      · rw [if_neg hw]; exact Or.inr ⟨val, df, hg, hdf, by omega, rfl⟩

theorem dsubTail_inv (c : Cfg) {s : St} (h : Inv s) (d a : Addr) {val : Val} (w : Int) (nonce : Nat)
    (hg : get s.vals a = some val) (hnn : NonNeg (dsubTail c s d a val w nonce)) : Inv (dsubTail c s d a val w nonce) := by
  have hf := get_facts hg
  have hg' : get s.vals val.addr = some val := by rw [hf.1]; exact hg
  unfold dsubTail at hnn ⊢
  simp only at hnn ⊢
  apply Inv.pushUBD
  have hnn' : NonNeg (if ((updateDelegation c s d val (-w)).2.1.online &&
        decide (u64 (updateDelegation c s d val (-w)).2.1.stake < c.minStake (updateDelegation c s d val (-w)).2.1.role)) = true then
      (updateValidator (updateDelegation c s d val (-w)).1 { (updateDelegation c s d val (-w)).2.1 with status := 0 }
        (updateDelegation c s d val (-w)).2.1).1 else (updateDelegation c s d val (-w)).1) := hnn
  clear hnn
  obtain ⟨h1, h2, h3, h4⟩ := updateDelegation_spec c h d (-w) hg'
  generalize updateDelegation c s d val (-w) = ud at h1 h2 h3 h4 hnn' ⊢
  obtain ⟨s1, nv, o⟩ := ud
  simp only at h1 h2 h3 h4 hnn' ⊢
  by_cases hc : (nv.online && decide (u64 nv.stake < c.minStake nv.role)) = true
  · simp only [hc, if_true] at hnn' ⊢
    have hk2 : ({ nv with status := 0 } : Val).key.nonneg := nn_upd (s := s1) (old := nv) rfl h2 hnn'
    have hk1 : nv.key.nonneg := hk2
    have hi1 := h4 hk1
    rw [← h1] at h3
    exact Inv.updStored hi1 h3 rfl h2 hk2
  · simp only [hc, if_false, Bool.false_eq_true] at hnn' ⊢
    exact h4 (hnn' _ _ h3)

theorem ite_addr (p : Prop) [Decidable p] (x y : Val) (hx : x.addr = y.addr) : (if p then x else y).addr = y.addr := by
  split
  · exact hx
  · rfl

theorem ite_deleted (p : Prop) [Decidable p] (x y : Val) (hx : x.deleted = y.deleted) :
    (if p then x else y).deleted = y.deleted := by
  split
  · exact hx
  · rfl

theorem takePenalty_spec {c : Cfg} {s s1 : St} {val nv : Val} {amount : Int} (h : takePenalty c s val amount = some (s1, nv)) :
    s1.vals = s.vals ∧ s1.index = s.index ∧ s1.stats = s.stats ∧ s1.dirty = s.dirty ∧ s1.vj = s.vj ∧
    nv.addr = val.addr ∧ nv.deleted = val.deleted := by
  unfold takePenalty at h
  simp only [Option.some.injEq, Prod.mk.injEq] at h
  obtain ⟨h1, h2⟩ := h
  subst h1
  refine ⟨rfl, rfl, rfl, rfl, rfl, ?_, ?_⟩
  · rw [← h2]; exact ite_addr _ _ _ rfl
  · rw [← h2]; exact ite_deleted _ _ _ rfl

theorem penalize_inv (c : Cfg) {s : St} (h : Inv s) (a : Addr) (amount : Int) (hnn : NonNeg (penalize c s a amount).1) :
    Inv (penalize c s a amount).1 := by
  generalize hres : penalize c s a amount = res at hnn ⊢
  unfold penalize at hres
  split at hres
  · cases hres; exact h
  · rename_i val hg
    have hf := get_facts hg
    split at hres
    · split at hres
      · cases hres; exact h
      · rename_i s1 nv htp
        cases hres
        obtain ⟨e1, e2, e3, e4, e5, e6, e7⟩ := takePenalty_spec htp
        have h1 : Inv s1 := h.frame e1 e2 e3 e4 e5
        have hg1 : get s1.vals a = some val := by rw [e1]; exact hg
        have hd : ({ nv with status := 0, expelled := true } : Val).deleted = false := by
          show nv.deleted = false; rw [e7]; exact hf.2
        have ha : ({ nv with status := 0, expelled := true } : Val).addr = a := by
          show nv.addr = a; rw [e6]; exact hf.1
        refine Inv.updStored h1 hg1 ha hd ?_
        exact nn_upd (s := s1) (old := val) (by rw [ha, hf.1]) hd hnn
    · cases hres
      refine Inv.updStored h hg hf.1 hf.2 ?_
      exact nn_upd (s := s) (old := val) rfl hf.2 hnn

theorem teDelegationSub_inv (c : Cfg) {s : St} (h : Inv s) (d a : Addr) (value : Int) (nonce : Nat)
    (hnn : NonNeg (teDelegationSub c s d a value nonce).1) : Inv (teDelegationSub c s d a value nonce).1 := by
  rcases teDelegationSub_cases c s d a value nonce with e | ⟨val, df, hg, _, _, e⟩
  · rw [e]; exact h
  · rw [e] at hnn ⊢; exact dsubTail_inv c h d a _ nonce hg hnn

end YouVerif.C08

namespace YouVerif.C08

theorem createValidator_inv {s : St} (h : Inv s) (v : Val) (hd : v.deleted = false)
    (hnn : NonNeg (createValidator s v).1) : Inv (createValidator s v).1 := by
  cases hg : get s.vals v.addr with
  | some w =>
    have : (createValidator s v).1 = s := by unfold createValidator; rw [hg]
    rw [this]; exact h
  | none =>
    have hv : (createValidator s v).1.vals = put s.vals v := by unfold createValidator; rw [hg]
    exact h.create hg hd (nn_put (l := s.vals) hd (by rw [← hv]; exact hnn))

theorem snapshot_frame (s : St) : (snapshot s).1.vals = s.vals ∧ (snapshot s).1.index = s.index ∧
    (snapshot s).1.stats = s.stats ∧ (snapshot s).1.dirty = s.dirty ∧ (snapshot s).1.vj = s.vj :=
  ⟨rfl, rfl, rfl, rfl, rfl⟩

/-- every operation of the model preserves the invariant, provided the call respects `OpOk` and no visible
    total is negative afterwards -/
theorem step_inv (c : Cfg) {s : St} (h : Inv s) (op : Op) (hok : OpOk s op) (hnn : NonNeg (step c s op).1) :
    Inv (step c s op).1 := by
  cases op with
  | create a role status token stake accept commission risk =>
    by_cases hr : validRole role = true
    · have e : (step c s (.create a role status token stake accept commission risk)).1
          = (createValidator s (mkVal a role status token stake accept commission risk)).1 := by
        simp [step, hr]
      rw [e] at hnn ⊢; exact createValidator_inv h _ rfl hnn
    · have e : (step c s (.create a role status token stake accept commission risk)).1 = s := by
        simp only [step, hr]
        cases get s.vals a <;> rfl
      rw [e]; exact h
  | upd a f x =>
    cases hg : get s.vals a with
    | none =>
      have e : (step c s (.upd a f x)).1 = s := by simp [step, hg]
      rw [e]; exact h
    | some old =>
      have hf := get_facts hg
      by_cases hc : (!(old.set f x).stakeEqual old && !(validRole (old.set f x).role && validRole old.role)) = true
      · have e : (step c s (.upd a f x)).1 = s := by simp only [step, hg, hc]; rfl
        rw [e]; exact h
      · have e : (step c s (.upd a f x)).1 = (updateValidator s (old.set f x) old).1 := by
          simp only [step, hg, hc]; rfl
        rw [e] at hnn ⊢
        have ha : (old.set f x).addr = a := by rw [set_addr]; exact hf.1
        have hd : (old.set f x).deleted = false := by rw [set_deleted]; exact hf.2
        refine Inv.updStored h hg ha hd ?_
        exact nn_upd (s := s) (old := old) (by rw [ha, hf.1]) hd hnn
  | updStale a f x g y =>
    cases hg : get s.vals a with
    | none =>
      have e : (step c s (.updStale a f x g y)).1 = s := by simp [step, hg]
      rw [e]; exact h
    | some cur =>
      have hf := get_facts hg
      by_cases hc : (!(cur.set f x).stakeEqual (cur.set g y) && !(validRole (cur.set f x).role && validRole (cur.set g y).role)) = true
      · have e : (step c s (.updStale a f x g y)).1 = s := by simp only [step, hg, hc]; rfl
        rw [e]; exact h
      · have e : (step c s (.updStale a f x g y)).1 = (updateValidator s (cur.set f x) (cur.set g y)).1 := by
          simp only [step, hg, hc]; rfl
        rw [e] at hnn ⊢
        have ha : (cur.set f x).addr = a := by rw [set_addr]; exact hf.1
        have hd : (cur.set f x).deleted = false := by rw [set_deleted]; exact hf.2
        have hoa : (cur.set g y).addr = a := by rw [set_addr]; exact hf.1
        have hod : (cur.set g y).deleted = false := by rw [set_deleted]; exact hf.2
        refine Inv.updCur h hg (hok cur hg) hoa hod ha hd ?_
        exact nn_upd (s := s) (old := cur.set g y) (by rw [ha, hoa]) hd hnn
  | remove a => exact absurd hok (by simp [OpOk])
  | mkacct d => exact h.ensureAcct d
  | deleg d a delta =>
    cases hg : get s.vals a with
    | none =>
      have e : (step c s (.deleg d a delta)).1 = s := by simp [step, hg]
      rw [e]; exact h
    | some val =>
      have hf := get_facts hg
      have e : (step c s (.deleg d a delta)).1 = (updateDelegation c s d val delta).1 := by simp [step, hg]
      rw [e] at hnn ⊢
      exact deleg_inv c h d delta (by rw [hf.1]; exact hg) hnn
  | deposit a value => exact teDeposit_inv c h a value hnn
  | withdraw a value op nonce => exact teWithdraw_inv c h a value op nonce hnn
  | chstatus a status => exact teChangeStatus_inv c h a status hnn
  | dadd d a value => exact teDelegationAdd_inv c h d a value hnn
  | dsub d a value nonce => exact teDelegationSub_inv c h d a value nonce hnn
  | penal a amount => exact penalize_inv c h a amount hnn
  | settle a => exact settle_inv h a hnn
  | snap =>
    obtain ⟨e1, e2, e3, e4, e5⟩ := snapshot_frame s
    exact h.frame e1 e2 e3 e4 e5
  | revert id =>
    show Inv (match revertTo s id with | some s' => (s', Out.unit) | none => (s, Out.res .crash)).1
    cases hr : revertTo s id with
    | none => exact h
    | some s' => exact h.revertTo hr
  | fin => exact h.finalise
  | iroot de =>
    show Inv (if flushCrashes de s then (s, Out.res .crash) else (iroot de s, Out.unit)).1
    split
    · exact h
    · exact h.iroot de
  | reload de =>
    show Inv (if flushCrashes de s then (s, Out.res .crash) else (reload de s, Out.unit)).1
    split
    · exact h
    · exact h.reload de
  | copy => exact h.copy

theorem Inv.init : Inv St.init := by
  refine ⟨?_, ?_, ?_, ?_, List.Pairwise.nil, List.nodup_nil⟩
  · show BaseK (abs St.init)
    refine ⟨List.Pairwise.nil, ?_, ?_, rfl⟩
    · intro a; simp [abs, St.init, visKey, get, getRaw]
    · intro a k hk; simp [abs, St.init, visKey, get, getRaw] at hk
  · intro e he; cases he
  · intro a ha; cases ha
  · intro e he; cases he

/-- the call discipline along a run: every call respects `OpOk` and no visible total ever becomes negative -/
def Safe (c : Cfg) : St → List Op → Prop
  | _, [] => True
  | s, op :: ops => OpOk s op ∧ NonNeg (step c s op).1 ∧ Safe c (step c s op).1 ops

theorem run_inv (c : Cfg) : ∀ (ops : List Op) (s : St), Inv s → Safe c s ops → Inv (run c s ops) := by
  intro ops
  induction ops with
  | nil => intro s h _; exact h
  | cons op ops ih =>
    intro s h hs
    obtain ⟨h1, h2, h3⟩ := hs
    show Inv (run c (step c s op).1 ops)
    exact ih _ (step_inv c h op h1 h2) h3

end YouVerif.C08
