/-
C08 — property theorems (statements only; proofs in Proofs*.lean).

Model: YouVerif/C08/Model.lean (`step`, `run`).  `Safe c s ops` is the call discipline the real callers keep:
  * `OpOk`: `RemoveValidator` is not called (it has no caller), and a stale `old` passed to `UpdateValidator`
    agrees with the stored record on (role, online, stake, token) — the one stale call in the tree
    (forced settlement in distributeRewards) differs in reward fields only;
  * `NonNeg`: after every operation no visible validator has a negative stake or token total.
-/
import YouVerif.C08.ProofsProps
import YouVerif.C08.ProofsHandlers
import YouVerif.C08.ProofsLinks4

namespace YouVerif.C08

/-- **The statistics equal the recomputation**, for every operation sequence (creations, raw and stale updates,
    take-effect deposits/withdrawals/status changes/delegations, settlements, penalties, snapshots and reverts to any
    live snapshot, Finalise, IntermediateRoot with deletion of emptied validators, Commit+reload, Copy). -/
theorem stats_eq_recompute (c : Cfg) (ops : List Op) (h : Safe c St.init ops) :
    (run c St.init ops).stats = summarize (listed (run c St.init ops)) :=
  (run_inv c ops St.init Inv.init h).stats_eq

/-- The same from any state satisfying the invariant (e.g. a genesis state), not only the empty one. -/
theorem stats_eq_recompute_from (c : Cfg) (s : St) (ops : List Op) (hs : Inv s) (h : Safe c s ops) :
    (run c s ops).stats = summarize (listed (run c s ops)) :=
  (run_inv c ops s hs h).stats_eq

/-- **Clamping hides nothing**: in every reachable state, subtracting any visible record from the statistics with the
    clamped `SubVal` gives exactly what the unclamped subtraction gives (no clamp fires, no counter wraps).
    Every subtraction `step` performs under `Safe` is of a key equal to a visible record's key. -/
theorem clamp_never_fires (c : Cfg) (ops : List Op) (h : Safe c St.init ops) (a : Addr) (v : Val)
    (hv : get (run c St.init ops).vals a = some v) :
    decrK (run c St.init ops).stats v.key = decrU (run c St.init ops).stats v.key :=
  (run_inv c ops St.init Inv.init h).clamp hv

/-- **The index lists exactly the existing validators.** -/
theorem index_eq_dom (c : Cfg) (ops : List Op) (h : Safe c St.init ops) (a : Addr) :
    a ∈ (run c St.init ops).index ↔ (get (run c St.init ops).vals a).isSome :=
  (run_inv c ops St.init Inv.init h).index_dom a

/-- The invariant survives undoing any number of journal entries (so: after a revert to any live snapshot). -/
theorem revert_keeps_stats (c : Cfg) (ops : List Op) (h : Safe c St.init ops) (id : Nat) (s' : St)
    (hr : revertTo (run c St.init ops) id = some s') : s'.stats = summarize (listed s') :=
  ((run_inv c ops St.init Inv.init h).revertTo hr).stats_eq

/-! ### Handler-level histories: no call discipline has to be assumed

`Op.hl c` (ProofsHandlers.lean) describes the calls the tree makes: creations with `stake = token / unit`, updates of a
field outside the sums, the stale `old` of the forced settlement (reward-like fields only), take-effect deposits,
withdrawals, status changes, delegations (positive values, as `PreCheck` enforces), settlements, penalties of ANY amount,
snapshots/reverts, Finalise, IntermediateRoot, reload, Copy.  `RemoveValidator` and raw updates of a total are excluded. -/

/-- totals = own + delegations, every stake = token / unit (the property's second clause, for one record) -/
def ValWF (u : Int) (v : Val) : Prop :=
  v.token = v.selfToken + sumTok v.dlgs ∧ v.stake = v.selfStake + sumStk v.dlgs ∧
  v.selfStake = v.selfToken / u ∧ ∀ x ∈ v.dlgs, x.stake = x.token / u

/-- **Totals and stakes add up**, for every handler-level history: each visible validator's token and stake totals equal
    its own part plus its delegations', its own stake and every delegation's stake equal the token amount divided by
    the stake unit. (Also: own tokens ≥ 0, every delegation > 0, delegations sorted by delegator.) -/
theorem token_stake_sums (c : Cfg) (ops : List Op) (hall : ∀ op ∈ ops, op.hl c = true) (a : Addr) (v : Val)
    (hv : get (run c St.init ops).vals a = some v) : ValWF c.unit v :=
  have h := (run_sinv c ops St.init (SInv.init _) hall).get hv
  ⟨h.tok, h.stk, h.self, h.comp⟩

/-- `Safe` is not an artificial restriction: handler-level histories satisfy it by themselves (the callers pass the
    stored record, or a copy differing in reward-like fields, as `old`; no total ever goes negative). -/
theorem handlers_safe (c : Cfg) (hu : 0 < c.unit) (ops : List Op) (hall : ∀ op ∈ ops, op.hl c = true) :
    Safe c St.init ops :=
  hl_safe c hu ops St.init (SInv.init _) hall

/-- **The statistics equal the recomputation** for every handler-level history — no `Safe` hypothesis. -/
theorem stats_eq_recompute_handlers (c : Cfg) (hu : 0 < c.unit) (ops : List Op) (hall : ∀ op ∈ ops, op.hl c = true) :
    (run c St.init ops).stats = summarize (listed (run c St.init ops)) :=
  stats_eq_recompute c ops (handlers_safe c hu ops hall)

theorem clamp_never_fires_handlers (c : Cfg) (hu : 0 < c.unit) (ops : List Op) (hall : ∀ op ∈ ops, op.hl c = true)
    (a : Addr) (v : Val) (hv : get (run c St.init ops).vals a = some v) :
    decrK (run c St.init ops).stats v.key = decrU (run c St.init ops).stats v.key :=
  clamp_never_fires c ops (handlers_safe c hu ops hall) a v hv

theorem index_eq_dom_handlers (c : Cfg) (hu : 0 < c.unit) (ops : List Op) (hall : ∀ op ∈ ops, op.hl c = true) (a : Addr) :
    a ∈ (run c St.init ops).index ↔ (get (run c St.init ops).vals a).isSome :=
  index_eq_dom c ops (handlers_safe c hu ops hall) a

/-! ### Delegation links

`Links av vd`: account `d` lists validator `a`  ⟺  visible validator `a` holds a delegation from `d`
(so: no account lists a validator that does not exist, no validator holds a delegation from a missing account).
`LOk`/`LSafe` (ProofsLinks3.lean) is the link-level call discipline: delegations come from existing accounts; a penalty
consumes no whole delegation (else F-C08f, `penalty_unlinks_counterexample`); at a flush no total reaches 2^64 LU. -/

/-- **Delegator accounts and validators agree on who delegates to whom**, for every handler-level history (all of
    `Op.hl`: creations, updates, the stale update of the forced settlement, take-effect deposits / withdrawals / status
    changes / delegations, settlements, penalties, snapshots and reverts to any live snapshot, Finalise,
    IntermediateRoot with deletion of emptied validators, reload, Copy) that keeps the link-level discipline `LSafe`:
    delegations come from existing accounts, no penalty consumes a whole delegation (F-C08f — without this the claim
    is false: `penalty_unlinks_counterexample`), and no total reaches 2^64 LU at a flush. -/
theorem delegation_links_agree (c : Cfg) (hu : 0 < c.unit) (ops : List Op) (hall : ∀ op ∈ ops, op.hl c = true)
    (hs : LSafe c St.init ops) : Links (avOf (run c St.init ops)) (vdOf (run c St.init ops)) :=
  (run_all c hu ops St.init Inv.init (SInv.init _) LInv.init hall hs).2.2.cur

/-- the same in terms of the records: an account lists a visible validator iff that validator holds a delegation from it -/
theorem delegation_links_agree_records (c : Cfg) (hu : 0 < c.unit) (ops : List Op) (hall : ∀ op ∈ ops, op.hl c = true)
    (hs : LSafe c St.init ops) (d a : Addr) (x : Acct) (v : Val)
    (hx : getAcct (run c St.init ops).accts d = some x) (hv : get (run c St.init ops).vals a = some v) :
    a ∈ x.dlgs ↔ d ∈ v.dlgs.map (·.d) := by
  have h := delegation_links_agree c hu ops hall hs d a
  have e1 : avOf (run c St.init ops) d = some x.dlgs := by simp [avOf, hx]
  have e2 : vdOf (run c St.init ops) a = some (v.dlgs.map (·.d)) := by simp [vdOf, hv, dl]
  rw [e1, e2] at h
  simpa using h

/-- no account lists a validator that does not exist; no validator holds a delegation from a missing account -/
theorem delegation_links_no_dangling (c : Cfg) (hu : 0 < c.unit) (ops : List Op) (hall : ∀ op ∈ ops, op.hl c = true)
    (hs : LSafe c St.init ops) (d a : Addr) :
    (∀ x, getAcct (run c St.init ops).accts d = some x → a ∈ x.dlgs → (get (run c St.init ops).vals a).isSome) ∧
    (∀ v, get (run c St.init ops).vals a = some v → d ∈ v.dlgs.map (·.d) → (getAcct (run c St.init ops).accts d).isSome) := by
  have h := delegation_links_agree c hu ops hall hs d a
  constructor
  · intro x hx ha
    obtain ⟨l, hl, _⟩ := h.mp ⟨x.dlgs, by simp [avOf, hx], ha⟩
    unfold vdOf at hl
    cases hg : get (run c St.init ops).vals a with
    | none => rw [hg] at hl; cases hl
    | some v => rfl
  · intro v hv hd
    obtain ⟨l, hl, _⟩ := h.mpr ⟨v.dlgs.map (·.d), by simp [vdOf, hv, dl], hd⟩
    unfold avOf at hl
    cases hg : getAcct (run c St.init ops).accts d with
    | none => rw [hg] at hl; cases hl
    | some x => rfl

/-- The raw-API variant (no `Op.hl` needed): creations, account creations, `UpdateDelegation` calls by existing accounts with
    ANY amounts, field updates, deposits, withdrawals, status changes, snapshots, reverts to any live snapshot, Finalise. -/
theorem delegation_links_agree_partial (c : Cfg) (ops : List Op) (hall : ∀ op ∈ ops, op.dlv = true)
    (hs : LSafe c St.init ops) : Links (avOf (run c St.init ops)) (vdOf (run c St.init ops)) :=
  (run_linv_dlv c ops St.init LInv.init hall hs).cur

/-- the same in terms of the records -/
theorem delegation_links_agree_partial_records (c : Cfg) (ops : List Op) (hall : ∀ op ∈ ops, op.dlv = true)
    (hs : LSafe c St.init ops) (d a : Addr) (x : Acct) (v : Val)
    (hx : getAcct (run c St.init ops).accts d = some x) (hv : get (run c St.init ops).vals a = some v) :
    a ∈ x.dlgs ↔ d ∈ v.dlgs.map (·.d) := by
  have h := delegation_links_agree_partial c ops hall hs d a
  have e1 : avOf (run c St.init ops) d = some x.dlgs := by simp [avOf, hx]
  have e2 : vdOf (run c St.init ops) a = some (v.dlgs.map (·.d)) := by simp [vdOf, hv, dl]
  rw [e1, e2] at h
  simpa using h

/-- a delegation update by an existing account keeps the links and every snapshot's restore, whatever the amount -/
theorem update_delegation_keeps_links (c : Cfg) (s : St) (hl : LInv s) (d : Addr) (val : Val) (delta : Int) (x : Acct)
    (hg : get s.vals val.addr = some val) (hx : getAcct s.accts d = some x) :
    LInv (updateDelegation c s d val delta).1 :=
  updateDelegation_linv c hl d delta hg hx

/-! ### Witnesses on the model (tests on literals, decided by evaluation) -/

/-- F-C08f on the model: a penalty larger than the validator's tokens consumes the delegation; the validator forgets
    the delegator, the delegator's account still lists the validator. (Replayed on the real code by the probe.) -/
theorem penalty_unlinks_counterexample :
    let s := run {} St.init [.create 5 1 1 5000000000000000001 5 1 0 2500, .mkacct 2,
                             .dadd 2 5 1000000000000000002, .penal 5 54000000000000000000]
    (getAcct s.accts 2).map (·.dlgs) = some [5] ∧ (get s.vals 5).map (·.dlgs) = some [] := by
  decide

/-- `RemoveValidator` + flush subtracts the record twice (no caller in the tree; outside `OpOk`). -/
theorem remove_then_flush_double_decrement :
    let s := run {} St.init [.create 1 1 1 5000000000000000000 5 1 0 0, .create 2 1 1 7000000000000000000 7 1 0 0,
                             .remove 1, .iroot true]
    s.stats.kAll.onStake = 2 ∧ (summarize (listed s)).kAll.onStake = 7 := by
  decide

/-- non-vacuity of `Op.hl` + `LSafe`: handler delegations, a forced-offline delegation withdrawal, a 2 % penalty, nested
    snapshots and reverts, an emptied validator deleted at the flush, Copy and reload -/
example : let c : Cfg := { minStake := fun _ => 5 }
    let ops : List Op := [.create 1 1 1 5000000000000000000 5 1 0 2500, .create 2 3 0 3000000000000000000 3 1 500 0,
      .mkacct 1, .mkacct 2, .snap, .dadd 1 1 2000000000000000000, .snap, .dadd 2 1 1000000000000000000,
      .dsub 1 1 2000000000000000000 1, .penal 1 120000000000000000, .revert 1, .withdraw 2 3000000000000000000 1 2,
      .iroot true, .copy, .dadd 2 1 1000000000000000000, .reload true, .settle 1]
    (∀ op ∈ ops, op.hl c = true) ∧ LSafe c St.init ops :=
  ⟨by decide, lSafeB_sound _ _ _ (by decide)⟩

/-- non-vacuity of `LSafe` + `Op.dlv`: delegations, a removal, nested snapshots and reverts -/
example : (∀ op ∈ ([.create 1 1 1 5000000000000000000 5 1 0 0, .mkacct 1, .mkacct 2, .snap, .deleg 1 1 2000000000000000000,
      .snap, .deleg 2 1 3000000000000000000, .deleg 1 1 (-2000000000000000000), .revert 1, .deposit 1 5, .revert 0] : List Op),
      op.dlv = true) := by decide


/-- non-vacuity of `Safe`: a run with a stale update, a forced-offline withdrawal of a delegation, a penalty, reverts,
    deletion of an emptied validator at the flush, reload and Copy satisfies it -/
example : Safe { minStake := fun _ => 5 } St.init
    [.create 1 1 1 5000000000000000000 5 1 0 2500, .create 2 3 0 3000000000000000000 3 1 500 0, .mkacct 1, .snap,
     .dadd 1 1 2000000000000000000, .updStale 1 .rewards 7 .rewards 9, .snap, .dsub 1 1 2000000000000000000 1,
     .penal 1 100000000000000000, .revert 1, .withdraw 2 3000000000000000000 1 2, .iroot true, .copy,
     .deposit 1 1000000000000000000, .reload true, .settle 1] :=
  safeB_sound _ _ _ (by decide)

end YouVerif.C08
