/-
C08 — property theorems (statements only; proofs in Proofs*.lean).
-/
import YouVerif.C08.Proofs

namespace YouVerif.C08

/-- Right after a record was added to a well-formed bucket, subtracting it again is exact:
    the clamp of `subStake`/`subToken` does not fire and the `uint64` counter does not wrap. -/
theorem bucket_sub_after_add_exact (b : Bucket) (k : Key) (hb : b.Wf) (hk : k.nonneg) :
    (b.addK k).subK k = b := Bucket.subK_addK hb hk

end YouVerif.C08
