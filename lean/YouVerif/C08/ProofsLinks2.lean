/-
C08 — links, part 2: stability of restores under the model's primitives, the invariant `LInv`.
-/
import YouVerif.C08.ProofsLinks

namespace YouVerif.C08

structure Stable (s s' : St) : Prop where
  revs : s'.revs = s.revs
  alen : s.aj.length ≤ s'.aj.length
  vlen : s.vj.length ≤ s'.vj.length
  ra : ∀ n, n ≤ s.aj.length → restA n s'.aj (avOf s') = restA n s.aj (avOf s)
  rv : ∀ n, n ≤ s.vj.length → restV n s'.vj (vdOf s') = restV n s.vj (vdOf s)

theorem Stable.refl (s : St) : Stable s s := ⟨rfl, Nat.le_refl _, Nat.le_refl _, fun _ _ => rfl, fun _ _ => rfl⟩

theorem Stable.trans {s s' s'' : St} (h1 : Stable s s') (h2 : Stable s' s'') : Stable s s'' :=
  ⟨h2.revs.trans h1.revs, Nat.le_trans h1.alen h2.alen, Nat.le_trans h1.vlen h2.vlen,
   fun n hn => (h2.ra n (Nat.le_trans hn h1.alen)).trans (h1.ra n hn),
   fun n hn => (h2.rv n (Nat.le_trans hn h1.vlen)).trans (h1.rv n hn)⟩

/-- same journals, accounts, validators, revisions -/
theorem Stable.ofEq {s s' : St} (e1 : s'.accts = s.accts) (e2 : s'.aj = s.aj) (e3 : s'.vals = s.vals) (e4 : s'.vj = s.vj)
    (e5 : s'.revs = s.revs) : Stable s s' ∧ avOf s' = avOf s ∧ vdOf s' = vdOf s := by
  have ea : avOf s' = avOf s := by unfold avOf; rw [e1]
  have ev : vdOf s' = vdOf s := by unfold vdOf; rw [e3]
  exact ⟨⟨e5, by rw [e2]; exact Nat.le_refl _, by rw [e4]; exact Nat.le_refl _, fun _ _ => by rw [e2, ea],
          fun _ _ => by rw [e4, ev]⟩, ea, ev⟩

/-- one validator-journal entry appended whose component undo gives the old map back -/
theorem Stable.appendV {s s' : St} {e : JE} (e1 : s'.accts = s.accts) (e2 : s'.aj = s.aj) (e4 : s'.vj = e :: s.vj)
    (e5 : s'.revs = s.revs) (hu : undoVd (vdOf s') e = vdOf s) : Stable s s' := by
  have ea : avOf s' = avOf s := by unfold avOf; rw [e1]
  refine ⟨e5, by rw [e2]; exact Nat.le_refl _, by rw [e4]; simp, fun _ _ => by rw [e2, ea], ?_⟩
  intro n hn
  rw [e4]
  have : ¬ (e :: s.vj).length ≤ n := by simp; omega
  simp only [restV, this, if_false, hu]

theorem Stable.appendA {s s' : St} {e : AE} (e1 : s'.vals = s.vals) (e2 : s'.vj = s.vj) (e4 : s'.aj = e :: s.aj)
    (e5 : s'.revs = s.revs) (hu : undoAv (avOf s') e = avOf s) : Stable s s' := by
  have ev : vdOf s' = vdOf s := by unfold vdOf; rw [e1]
  refine ⟨e5, by rw [e4]; simp, by rw [e2]; exact Nat.le_refl _, ?_, fun _ _ => by rw [e2, ev]⟩
  intro n hn
  rw [e4]
  have : ¬ (e :: s.aj).length ≤ n := by simp; omega
  simp only [restA, this, if_false, hu]

/-- `Keep`: restores, account lists and validator delegator lists all unchanged -/
def Keep (s s' : St) : Prop := Stable s s' ∧ avOf s' = avOf s ∧ vdOf s' = vdOf s

theorem Keep.refl (s : St) : Keep s s := ⟨Stable.refl s, rfl, rfl⟩
theorem Keep.trans {s s' s'' : St} (h1 : Keep s s') (h2 : Keep s' s'') : Keep s s'' :=
  ⟨h1.1.trans h2.1, h2.2.1.trans h1.2.1, h2.2.2.trans h1.2.2⟩

theorem vdOf_updateValidator (s : St) (nv old : Val) (ha : nv.addr = old.addr) :
    vdOf (updateValidator s nv old).1 = updM (vdOf s) nv.addr (if nv.deleted then none else some (dl nv)) :=
  vdOf_put s.vals nv _ (updateValidator_vals ha)

/-- `UpdateValidator` on the stored record with the delegator list untouched -/
theorem Keep.update {s : St} {a : Addr} {cur nv old : Val} (hg : get s.vals a = some cur) (hna : nv.addr = a)
    (hoa : old.addr = a) (hod : old.deleted = false) (hnd : nv.deleted = false) (hdo : dl old = dl cur)
    (hdn : dl nv = dl cur) : Keep s (updateValidator s nv old).1 := by
  have ha : nv.addr = old.addr := by rw [hna, hoa]
  have hv : vdOf s a = some (dl cur) := by simp [vdOf, hg]
  have e : vdOf (updateValidator s nv old).1 = vdOf s := by
    rw [vdOf_updateValidator s nv old ha, hna, hnd]; simp only [Bool.false_eq_true, if_false]
    rw [hdn, ← hv, updM_self]
  have hvj : (updateValidator s nv old).1.vj = .update old nv :: s.vj := by
    unfold updateValidator; simp [ha]
  refine ⟨Stable.appendV ?_ ?_ hvj ?_ ?_, ?_, e⟩
  · unfold updateValidator; simp [ha]
  · unfold updateValidator; simp [ha]
  · unfold updateValidator; simp [ha]
  · rw [e]; simp only [undoVd, hoa, hod, Bool.false_eq_true, if_false]
    rw [hdo, ← hv, updM_self]
  · unfold avOf updateValidator; simp [ha]

/-- `UpdateValidator` on the stored record, delegator list changed: restores stable, new list bound -/
theorem Stable.update {s : St} {a : Addr} {cur nv : Val} (hg : get s.vals a = some cur) (hna : nv.addr = a)
    (hnd : nv.deleted = false) :
    Stable s (updateValidator s nv cur).1 ∧ avOf (updateValidator s nv cur).1 = avOf s ∧
    vdOf (updateValidator s nv cur).1 = updM (vdOf s) a (some (dl nv)) := by
  have hf := get_facts hg
  have ha : nv.addr = cur.addr := by rw [hna, hf.1]
  have hv : vdOf s a = some (dl cur) := by simp [vdOf, hg]
  have e : vdOf (updateValidator s nv cur).1 = updM (vdOf s) a (some (dl nv)) := by
    rw [vdOf_updateValidator s nv cur ha, hna, hnd]; simp only [Bool.false_eq_true, if_false]
  have hvj : (updateValidator s nv cur).1.vj = .update cur nv :: s.vj := by
    unfold updateValidator; simp [ha]
  refine ⟨Stable.appendV ?_ ?_ hvj ?_ ?_, ?_, e⟩
  · unfold updateValidator; simp [ha]
  · unfold updateValidator; simp [ha]
  · unfold updateValidator; simp [ha]
  · rw [e]; simp only [undoVd, hf.1, hf.2, Bool.false_eq_true, if_false]
    rw [updM_updM, ← hv, updM_self]
  · unfold avOf updateValidator; simp [ha]

theorem Keep.pushUBD (s : St) (r : WRec) : Keep s (addUBD s r) :=
  ⟨Stable.appendV rfl rfl rfl rfl rfl, rfl, rfl⟩

theorem Keep.queue (s : St) (q : List WRec) : Keep s { s with queue := q } :=
  Stable.ofEq rfl rfl rfl rfl rfl

/-- `CreateValidator` of an address with no visible record -/
theorem Stable.create {s : St} {v : Val} (hg : get s.vals v.addr = none) (hd : v.deleted = false) :
    Stable s (createValidator s v).1 ∧ avOf (createValidator s v).1 = avOf s ∧
    vdOf (createValidator s v).1 = updM (vdOf s) v.addr (some (dl v)) := by
  have hv : vdOf s v.addr = none := by simp [vdOf, hg]
  have hs : (createValidator s v).1 = ({ s with vj := JE.create v.addr :: s.vj, vals := put s.vals v, index := insertS v.addr s.index, stats := incrK s.stats v.key } : St) := by
    unfold createValidator; rw [hg]
  rw [hs]
  have e : vdOf ({ s with vj := JE.create v.addr :: s.vj, vals := put s.vals v, index := insertS v.addr s.index, stats := incrK s.stats v.key } : St) = updM (vdOf s) v.addr (some (dl v)) := by
    rw [vdOf_put s.vals v _ rfl, hd]; rfl
  refine ⟨Stable.appendV rfl rfl rfl rfl ?_, rfl, e⟩
  rw [e]; simp only [undoVd]
  rw [updM_updM, ← hv, updM_self]

theorem avOf_cons (s : St) (x : Acct) (s' : St) (h : s'.accts = x :: s.accts) (hn : getAcct s.accts x.addr = none) :
    avOf s' = updM (avOf s) x.addr (some x.dlgs) := by
  funext y; unfold avOf updM; rw [h]
  by_cases hy : y = x.addr
  · subst hy; simp [getAcct]
  · have : (x.addr == y) = false := by simp; exact fun e => hy e.symm
    simp [hy, getAcct, List.find?_cons, this]

theorem Stable.ensureAcct (s : St) (d : Addr) :
    Stable s (ensureAcct s d) ∧ vdOf (ensureAcct s d) = vdOf s ∧
    avOf (ensureAcct s d) = (match avOf s d with | some _ => avOf s | none => updM (avOf s) d (some [])) := by
  unfold YouVerif.C08.ensureAcct
  cases hg : getAcct s.accts d with
  | some x =>
    have : avOf s d = some x.dlgs := by simp [avOf, hg]
    simp only [this]; exact ⟨Stable.refl s, by first | rfl | trivial, by first | rfl | trivial⟩
  | none =>
    have hv : avOf s d = none := by simp [avOf, hg]
    simp only [hv]
    have e : avOf { s with accts := ⟨d, [], 0⟩ :: s.accts, aj := AE.mk d :: s.aj } = updM (avOf s) d (some []) :=
      avOf_cons s ⟨d, [], 0⟩ _ rfl hg
    refine ⟨Stable.appendA rfl rfl rfl rfl ?_, rfl, e⟩
    rw [e]; simp only [undoAv]
    rw [updM_updM, ← hv, updM_self]

theorem avOf_putAcct (s : St) (x : Acct) (s' : St) (h : s'.accts = putAcct s.accts x) :
    avOf s' = updM (avOf s) x.addr (some x.dlgs) := by
  funext y; unfold avOf updM; rw [h, getAcct_putAcct]
  by_cases hy : y = x.addr <;> simp [hy]

/-- `UpdateDelegator` for an existing account -/
theorem Stable.updateDelegator {s : St} {d : Addr} {x : Acct} (hg : getAcct s.accts d = some x) (v : Addr) (delta : Int)
    (del : Bool) :
    Stable s (updateDelegator s d v delta del) ∧ vdOf (updateDelegator s d v delta del) = vdOf s ∧
    avOf (updateDelegator s d v delta del) = updM (avOf s) d (some
      (if !x.dlgs.contains v && !del then insertS v x.dlgs else if x.dlgs.contains v && del then eraseA x.dlgs v else x.dlgs)) := by
  have hxa := getAcct_addr hg
  subst hxa
  have hv : avOf s x.addr = some x.dlgs := by simp [avOf, hg]
  -- all three cases have the same shape
  have key : ∀ (dl' : List Addr) (aj' : List AE) (s' : St),
      s' = { s with accts := putAcct s.accts { x with dlgs := dl', bal := x.bal + delta }, aj := AE.bal x.addr x.bal :: aj' } →
      (aj' = s.aj ∧ dl' = x.dlgs ∨ aj' = AE.dlgs x.addr x.dlgs :: s.aj) →
      Stable s s' ∧ vdOf s' = vdOf s ∧ avOf s' = updM (avOf s) x.addr (some dl') := by
    intro dl' aj' s' hs' hc
    have e : avOf s' = updM (avOf s) x.addr (some dl') := by
      have := avOf_putAcct s { x with dlgs := dl', bal := x.bal + delta } s' (by rw [hs'])
      exact this
    have ev : vdOf s' = vdOf s := by rw [hs']; rfl
    refine ⟨⟨by rw [hs'], ?_, by rw [hs']; exact Nat.le_refl _, ?_, fun _ _ => by rw [ev, hs']⟩, ev, e⟩
    · rw [hs']; rcases hc with ⟨h1, _⟩ | h1 <;> rw [h1] <;> simp only [List.length_cons] <;> omega
    · intro n hn
      have haj : s'.aj = AE.bal x.addr x.bal :: aj' := by rw [hs']
      rw [haj]
      rcases hc with ⟨h1, h2⟩ | h1
      · rw [h1]
        have n1 : ¬ (AE.bal x.addr x.bal :: s.aj).length ≤ n := by simp only [List.length_cons]; omega
        simp only [restA, n1, if_false, undoAv, e, h2]
        rw [← hv, updM_self]
      · rw [h1]
        have n1 : ¬ (AE.bal x.addr x.bal :: AE.dlgs x.addr x.dlgs :: s.aj).length ≤ n := by
          simp only [List.length_cons]; omega
        have n2 : ¬ (AE.dlgs x.addr x.dlgs :: s.aj).length ≤ n := by simp only [List.length_cons]; omega
        simp only [restA, n1, n2, if_false, undoAv, e, updM_same, Option.map_some]
        rw [updM_updM, ← hv, updM_self]
  unfold YouVerif.C08.updateDelegator
  rw [hg]
  simp only
  by_cases h1 : (!x.dlgs.contains v && !del) = true
  · simp only [h1, if_true]
    exact key _ _ _ rfl (Or.inr rfl)
  · simp only [h1, Bool.false_eq_true, if_false]
    by_cases h2 : (x.dlgs.contains v && del) = true
    · simp only [h2, if_true]
      exact key _ _ _ rfl (Or.inr rfl)
    · simp only [h2, Bool.false_eq_true, if_false]
      exact key _ _ _ rfl (Or.inl ⟨rfl, rfl⟩)

/-! ### the invariant -/

structure LInv (s : St) : Prop where
  cur : Links (avOf s) (vdOf s)
  snap : ∀ r ∈ s.revs, Links (restA r.alen s.aj (avOf s)).2 (restV r.vlen s.vj (vdOf s)).2
  revOk : ∀ r ∈ s.revs, r.alen ≤ s.aj.length ∧ r.vlen ≤ s.vj.length
  revMono : s.revs.Pairwise (fun r r' => r'.alen ≤ r.alen ∧ r'.vlen ≤ r.vlen)

theorem LInv.stable {s s' : St} (h : LInv s) (hs : Stable s s') (hc : Links (avOf s') (vdOf s')) : LInv s' := by
  refine ⟨hc, ?_, ?_, by rw [hs.revs]; exact h.revMono⟩
  · intro r hr
    rw [hs.revs] at hr
    have := h.revOk r hr
    rw [hs.ra r.alen this.1, hs.rv r.vlen this.2]
    exact h.snap r hr
  · intro r hr
    rw [hs.revs] at hr
    have := h.revOk r hr
    exact ⟨Nat.le_trans this.1 hs.alen, Nat.le_trans this.2 hs.vlen⟩

theorem LInv.keep {s s' : St} (h : LInv s) (hk : Keep s s') : LInv s' :=
  h.stable hk.1 (by rw [hk.2.1, hk.2.2]; exact h.cur)

end YouVerif.C08
