/-
C08 — helper lemmas: algebra of the statistics buckets (clamped subtraction, wrapping counters).
-/
import YouVerif.C08.Model

namespace YouVerif.C08

def Key.nonneg (k : Key) : Prop := 0 ≤ k.stake ∧ 0 ≤ k.token

/-- every stake/token total is non-negative and every counter is a `uint64` -/
def Bucket.Wf (b : Bucket) : Prop :=
  0 ≤ b.onStake ∧ 0 ≤ b.onToken ∧ b.onCount < M64 ∧ 0 ≤ b.offStake ∧ 0 ≤ b.offToken ∧ b.offCount < M64

def Stats.Wf (s : Stats) : Prop :=
  s.kAll.Wf ∧ s.kChamber.Wf ∧ s.kHouse.Wf ∧ s.rChan.Wf ∧ s.rSen.Wf ∧ s.rHouse.Wf

theorem Bucket.addK_wf {b : Bucket} {k : Key} (hb : b.Wf) (hk : k.nonneg) : (b.addK k).Wf := by
  obtain ⟨h1, h2, h3, h4, h5, h6⟩ := hb
  obtain ⟨k1, k2⟩ := hk
  unfold Bucket.addK Bucket.Wf M64 at *
  split <;> simp only <;> refine ⟨?_, ?_, ?_, ?_, ?_, ?_⟩ <;> omega

/-- the clamp does not fire when the subtracted record was counted: `SubVal` undoes `AddVal` exactly -/
theorem Bucket.subK_addK {b : Bucket} {k : Key} (hb : b.Wf) (hk : k.nonneg) : (b.addK k).subK k = b := by
  obtain ⟨h1, h2, h3, h4, h5, h6⟩ := hb
  obtain ⟨k1, k2⟩ := hk
  cases b with
  | mk a1 a2 a3 a4 a5 a6 =>
    simp only at h1 h2 h3 h4 h5 h6
    unfold Bucket.addK Bucket.subK subC
    unfold M64 at *
    by_cases ho : k.online = true
    · simp only [ho, if_true]
      have e1 : (a1 + k.stake - k.stake) = a1 := by omega
      have e2 : (a2 + k.token - k.token) = a2 := by omega
      have e3 : ((a3 + 1) % 18446744073709551616 + (18446744073709551616 - 1)) % 18446744073709551616 = a3 := by omega
      have c1 : k.stake ≤ a1 + k.stake := by omega
      have c2 : k.token ≤ a2 + k.token := by omega
      simp [c1, c2, e1, e2, e3]
    · have ho' : k.online = false := by simpa using ho
      simp only [ho', if_false, Bool.false_eq_true]
      have e1 : (a4 + k.stake - k.stake) = a4 := by omega
      have e2 : (a5 + k.token - k.token) = a5 := by omega
      have e3 : ((a6 + 1) % 18446744073709551616 + (18446744073709551616 - 1)) % 18446744073709551616 = a6 := by omega
      have c1 : k.stake ≤ a4 + k.stake := by omega
      have c2 : k.token ≤ a5 + k.token := by omega
      simp [c1, c2, e1, e2, e3]

end YouVerif.C08
