/-
C08 — executable model of the validator bookkeeping of go-youchain's StateDB
(core/state/statedb_val.go, validator.go, journal.go, statedb_staking.go, state_object.go,
 staking/take_effect_handler.go, staking/slash.go).

Value semantics: Go pointers are modelled by values (DESIGN §4); where the Go code aliases (PartialCopy shares
the Delegations slice, handlers mutate a journalled pointer) the value-semantics model is the specification and
the correspondence check reports the difference.

One map `vals` stands for "live object if present, else trie record"; the `deleted` flag is kept on the entry
exactly as the Go object keeps it.  The coherence between live objects and the validator trie (Commit +
state.New, Copy) is *not* modelled: `reload`/`copy` are modelled by their effect on the merged view, and that
effect is checked against the real code by the correspondence harness.

Core Lean only (linked into the native driver).
-/
namespace YouVerif.C08

abbrev Addr := Nat

/-- 2^64: Go `uint64` counters wrap, `big.Int.Uint64()` truncates. -/
def M64 : Nat := 18446744073709551616

/-! ## ValKindStat -/

structure Bucket where
  onStake : Int
  onToken : Int
  onCount : Nat
  offStake : Int
  offToken : Int
  offCount : Nat
deriving DecidableEq, Repr, Inhabited

def Bucket.zero : Bucket := ⟨0, 0, 0, 0, 0, 0⟩

/-- The part of a validator record the statistics depend on. -/
structure Key where
  role : Nat
  online : Bool
  stake : Int
  token : Int
deriving DecidableEq, Repr, Inhabited

/-- `subStake`/`subToken`: `if x.Cmp(y) >= 0 { x.Sub(x, y) }` — silently skipped otherwise. -/
def subC (x y : Int) : Int := if y ≤ x then x - y else x

/-- `AddVal` -/
def Bucket.addK (b : Bucket) (k : Key) : Bucket :=
  if k.online then
    { b with onStake := b.onStake + k.stake, onToken := b.onToken + k.token, onCount := (b.onCount + 1) % M64 }
  else
    { b with offStake := b.offStake + k.stake, offToken := b.offToken + k.token, offCount := (b.offCount + 1) % M64 }

/-- `SubVal`: clamped stake/token, wrapping count. -/
def Bucket.subK (b : Bucket) (k : Key) : Bucket :=
  if k.online then
    { b with onStake := subC b.onStake k.stake, onToken := subC b.onToken k.token, onCount := (b.onCount + (M64 - 1)) % M64 }
  else
    { b with offStake := subC b.offStake k.stake, offToken := subC b.offToken k.token, offCount := (b.offCount + (M64 - 1)) % M64 }

/-- `ValidatorsStat`: Kinds[0,1,2], Roles[1,2,3]. -/
structure Stats where
  kAll : Bucket
  kChamber : Bucket
  kHouse : Bucket
  rChan : Bucket
  rSen : Bucket
  rHouse : Bucket
deriving DecidableEq, Repr, Inhabited

def Stats.zero : Stats := ⟨.zero, .zero, .zero, .zero, .zero, .zero⟩

def validRole (r : Nat) : Bool := r == 1 || r == 2 || r == 3

/-- role bucket, kind bucket, global bucket (statedb_val.go incr/decrValidatorsStat).
    For a role outside 1..3 Go dereferences a nil bucket (panic); `step` guards with `validRole`. -/
def Stats.app (f : Bucket → Bucket) (role : Nat) (s : Stats) : Stats :=
  match role with
  | 1 => { s with rChan := f s.rChan, kChamber := f s.kChamber, kAll := f s.kAll }
  | 2 => { s with rSen := f s.rSen, kChamber := f s.kChamber, kAll := f s.kAll }
  | 3 => { s with rHouse := f s.rHouse, kHouse := f s.kHouse, kAll := f s.kAll }
  | _ => s

def incrK (s : Stats) (k : Key) : Stats := s.app (·.addK k) k.role
def decrK (s : Stats) (k : Key) : Stats := s.app (·.subK k) k.role

/-- Recomputation: what one gets by summing the given records from zero. -/
def summK : List Key → Stats
  | [] => .zero
  | k :: ks => incrK (summK ks) k

/-! ## Validator records -/

structure Dlg where
  d : Addr
  token : Int
  stake : Int
deriving DecidableEq, Repr, Inhabited

structure Val where
  addr : Addr
  role : Nat
  status : Nat
  token : Int
  stake : Int
  selfToken : Int
  selfStake : Int
  rewards : Int
  expelled : Bool
  accept : Nat
  commission : Nat
  risk : Nat
  dlgs : List Dlg
  deleted : Bool
deriving DecidableEq, Repr, Inhabited

def Val.key (v : Val) : Key := ⟨v.role, v.status == 1, v.stake, v.token⟩
def Val.online (v : Val) : Bool := v.status == 1

/-- `Validator.StakeEqual` -/
def Val.stakeEqual (a b : Val) : Bool :=
  a.role == b.role && a.stake == b.stake && a.token == b.token && a.status == b.status

def u64 (x : Int) : Nat := x.natAbs % M64

/-- `IsInvalid`: `Token.Uint64() <= 0 && Stake.Uint64() <= 0` -/
def Val.invalid (v : Val) : Bool := u64 v.token == 0 && u64 v.stake == 0

/-! ## Maps as lists -/

def getRaw (l : List Val) (a : Addr) : Option Val := l.find? (·.addr == a)

/-- `getValidator`: a live object flagged `deleted` reads as absent. -/
def get (l : List Val) (a : Addr) : Option Val :=
  match getRaw l a with
  | some v => if v.deleted then none else some v
  | none => none

def put (l : List Val) (v : Val) : List Val := v :: l.filter (fun w => w.addr != v.addr)
def eraseV (l : List Val) (a : Addr) : List Val := l.filter (fun w => w.addr != a)

/-- sorted insert without duplicates (`ValidatorIndex.Add`; listings are sorted by address) -/
def insertS (a : Addr) : List Addr → List Addr
  | [] => [a]
  | b :: l => if a < b then a :: b :: l else if a = b then b :: l else b :: insertS a l

def eraseA (l : List Addr) (a : Addr) : List Addr := l.filter (· != a)

/-! ## Journals, accounts, withdraw queue -/

inductive JE where
  | create (a : Addr)
  | update (old new : Val)
  | delete (old : Val)
  | ubd (op : Addr) (nonce : Nat)
deriving Repr, Inhabited

def JE.addr? : JE → Option Addr
  | .create a => some a
  | .update _ n => some n.addr
  | .delete o => some o.addr
  | .ubd _ _ => none

structure Acct where
  addr : Addr
  dlgs : List Addr
  bal : Int
deriving DecidableEq, Repr, Inhabited

inductive AE where
  | mk (a : Addr)
  | dlgs (a : Addr) (prev : List Addr)
  | bal (a : Addr) (prev : Int)
deriving Repr, Inhabited

structure WRec where
  val : Addr
  dlg : Addr      -- 0 = the validator itself
  op : Addr
  nonce : Nat
  final : Int
deriving DecidableEq, Repr, Inhabited

structure Rev where
  id : Nat
  alen : Nat
  vlen : Nat
deriving Repr, Inhabited

structure St where
  vals : List Val := []
  index : List Addr := []
  stats : Stats := .zero
  dirty : List Addr := []        -- validatorObjectsDirty
  vj : List JE := []             -- validator journal, newest first
  accts : List Acct := []
  aj : List AE := []             -- (relevant part of the) account journal, newest first
  revs : List Rev := []          -- newest first
  nextId : Nat := 0
  queue : List WRec := []
deriving Repr, Inhabited

def St.init : St := {}

def getAcct (l : List Acct) (a : Addr) : Option Acct := l.find? (·.addr == a)
def putAcct (l : List Acct) (x : Acct) : List Acct := x :: l.filter (fun w => w.addr != x.addr)

/-! ## StateDB validator API -/

/-- `CreateValidator` (after `NewValidator`): refuses when a non-deleted record exists. -/
def createValidator (s : St) (v : Val) : St × Bool :=
  match get s.vals v.addr with
  | some _ => (s, false)
  | none =>
    ({ s with vj := .create v.addr :: s.vj, vals := put s.vals v, index := insertS v.addr s.index,
              stats := incrK s.stats v.key }, true)

/-- `UpdateValidator(newVal, oldVal)` -/
def updateValidator (s : St) (new old : Val) : St × Bool :=
  if new.addr != old.addr then (s, false) else
  ({ s with vals := put s.vals new, index := insertS new.addr s.index, vj := .update old new :: s.vj,
            stats := if new.stakeEqual old then s.stats else incrK (decrK s.stats old.key) new.key }, true)

/-- `RemoveValidator` (no caller in the tree) -/
def removeValidator (s : St) (a : Addr) : St × Bool :=
  match getRaw s.vals a with
  | none => (s, false)
  | some v =>
    let v' := { v with deleted := true }
    ({ s with vj := .delete v :: s.vj, vals := put s.vals v', stats := decrK s.stats v.key }, true)

def delLastMatch (q : List WRec) (op : Addr) (nonce : Nat) : List WRec :=
  -- WithdrawQueue.Delete: removes the LAST record with this (operator, nonce)
  let rec go : List WRec → Bool × List WRec
    | [] => (false, [])
    | r :: rest =>
      let (found, rest') := go rest
      if found then (true, r :: rest')
      else if r.op == op && r.nonce == nonce then (true, rest')
      else (false, r :: rest')
  (go q).2

/-- revert of one validator-journal entry (journal.go) -/
def undoV (s : St) : St :=
  match s.vj with
  | [] => s
  | .create a :: r =>
    match getRaw s.vals a with
    | some v => { s with vj := r, stats := decrK s.stats v.key, vals := eraseV s.vals a, index := eraseA s.index a }
    | none => { s with vj := r }
  | .update old new :: r =>
    { s with vj := r, vals := put s.vals old, index := insertS old.addr s.index,
             stats := if new.stakeEqual old then s.stats else incrK (decrK s.stats new.key) old.key }
  | .delete old :: r =>
    -- (after /repo commit 24377dc) the previous `deleted` flag and the statistics are restored
    { s with vj := r, vals := put s.vals old, index := insertS old.addr s.index, stats := incrK s.stats old.key }
  | .ubd op nonce :: r =>
    { s with vj := r, queue := delLastMatch s.queue op nonce }

def undoA (s : St) : St :=
  match s.aj with
  | [] => s
  | .mk a :: r => { s with aj := r, accts := s.accts.filter (fun w => w.addr != a) }
  | .dlgs a prev :: r =>
    match getAcct s.accts a with
    | some x => { s with aj := r, accts := putAcct s.accts { x with dlgs := prev } }
    | none => { s with aj := r }
  | .bal a prev :: r =>
    match getAcct s.accts a with
    | some x => { s with aj := r, accts := putAcct s.accts { x with bal := prev } }
    | none => { s with aj := r }

def undoVTo (n : Nat) : Nat → St → St
  | 0, s => s
  | fuel + 1, s => if s.vj.length ≤ n then s else undoVTo n fuel (undoV s)

def undoATo (n : Nat) : Nat → St → St
  | 0, s => s
  | fuel + 1, s => if s.aj.length ≤ n then s else undoATo n fuel (undoA s)

def snapshot (s : St) : St × Nat :=
  ({ s with revs := ⟨s.nextId, s.aj.length, s.vj.length⟩ :: s.revs, nextId := s.nextId + 1 }, s.nextId)

/-- drop the revisions newer than `id` and `id` itself -/
def dropRevs (id : Nat) : List Rev → List Rev
  | [] => []
  | r :: rest => if r.id == id then rest else dropRevs id rest

/-- `RevertToSnapshot` (with both revision lists kept in step, i.e. after the C09 repair);
    `none` = panic "revision id cannot be reverted". -/
def revertTo (s : St) (id : Nat) : Option St :=
  match s.revs.find? (·.id == id) with
  | none => none
  | some r =>
    let s1 := undoATo r.alen s.aj.length s
    let s2 := undoVTo r.vlen s1.vj.length s1
    some { s2 with revs := dropRevs id s.revs }

def addDirty (vals : List Val) (dirty : List Addr) : List JE → List Addr
  | [] => dirty
  | e :: es =>
    let d := addDirty vals dirty es
    match e.addr? with
    | some a => if (getRaw vals a).isSome then insertS a d else d
    | none => d

/-- `Finalise` -/
def finalise (s : St) : St :=
  { s with dirty := addDirty s.vals s.dirty s.vj, vj := [], aj := [], revs := [] }

/-- one dirty address in `IntermediateRoot`: `deleteValidator` or `updateValidator` -/
def flush1 (de : Bool) (s : St) (a : Addr) : St :=
  match getRaw s.vals a with
  | none => s
  | some v =>
    if v.deleted || (de && v.invalid) then
      { s with vals := put s.vals { v with deleted := true }, index := eraseA s.index a, stats := decrK s.stats v.key }
    else
      { s with index := insertS a s.index }

/-- RLP cannot encode a negative `big.Int`: `updateValidator` panics ("can't encode object"). -/
def Val.encodable (v : Val) : Bool :=
  v.token ≥ 0 && v.stake ≥ 0 && v.selfToken ≥ 0 && v.selfStake ≥ 0 && v.rewards ≥ 0 &&
  v.dlgs.all (fun x => x.token ≥ 0 && x.stake ≥ 0)

/-- does the flush write a record RLP cannot encode? -/
def flushCrashes (de : Bool) (s : St) : Bool :=
  let s1 := finalise s
  s.accts.any (fun x => x.bal < 0) ||
  s1.dirty.any fun a =>
    match getRaw s1.vals a with
    | some v => !(v.deleted || (de && v.invalid)) && !v.encodable
    | none => false

/-- `IntermediateRoot(deleteEmptyObjects)` -/
def iroot (de : Bool) (s : St) : St :=
  let s1 := finalise s
  let s2 := s1.dirty.foldl (flush1 de) s1
  { s2 with dirty := [] }

/-- `Commit` + `state.New` on the committed roots: flagged-deleted objects are not in the trie. -/
def reload (de : Bool) (s : St) : St :=
  let s1 := iroot de s
  { s1 with vals := s1.vals.filter (fun v => !v.deleted), nextId := 0 }

/-- `Copy`: journals and revisions are not copied; journal-dirty objects become dirty objects of the copy;
    clean live objects are dropped (re-read from the trie on demand), so a clean deleted object disappears. -/
def copy (s : St) : St :=
  let d := addDirty s.vals s.dirty s.vj
  { s with dirty := d.filter (fun a => (getRaw s.vals a).isSome),
           vals := s.vals.filter (fun v => !v.deleted || d.contains v.addr),
           vj := [], aj := [], revs := [], nextId := 0 }

/-! ## Delegations (statedb_staking.go, state_object.go) -/

def findDlg (l : List Dlg) (d : Addr) : Option Dlg := l.find? (·.d == d)

def insertDlg (x : Dlg) : List Dlg → List Dlg
  | [] => [x]
  | y :: l => if x.d < y.d then x :: y :: l else if x.d = y.d then x :: l else y :: insertDlg x l

def Dlg.empty (x : Dlg) : Bool := x.stake == 0 && x.token == 0

/-- `Validator.UpdateDelegationFrom`; the Bool says "deleted". -/
def updDlgFrom (l : List Dlg) (x : Dlg) : List Dlg × Bool :=
  match findDlg l x.d with
  | none => if x.empty then (l, false) else (insertDlg x l, false)
  | some _ => if x.empty then (l.filter (fun y => y.d != x.d), true) else (insertDlg x l, false)

/-- `stateObject.UpdateDelegationTo` + `AddDelegationBalance` (`UpdateDelegator`) -/
def updateDelegator (s : St) (d v : Addr) (delta : Int) (del : Bool) : St :=
  match getAcct s.accts d with
  | none => s
  | some x =>
    let has := x.dlgs.contains v
    let (dl, aj1) :=
      if !has && !del then (insertS v x.dlgs, AE.dlgs d x.dlgs :: s.aj)
      else if has && del then (eraseA x.dlgs v, AE.dlgs d x.dlgs :: s.aj)
      else (x.dlgs, s.aj)
    { s with accts := putAcct s.accts { x with dlgs := dl, bal := x.bal + delta }, aj := AE.bal d x.bal :: aj1 }

structure Cfg where
  unit : Int := 1000000000000000000
  minStake : Nat → Nat := fun _ => 0
  maxStake : Nat → Nat := fun _ => 0
  minSelf : Nat → Nat := fun _ => 0
  minDlg : Int := 0
  v5 : Bool := true

/-- the record part of `UpdateDelegation`: new delegation record, new validator record, "delegation deleted" -/
def delegRec (c : Cfg) (val : Val) (d : Addr) (delta : Int) : Val × Dlg × Bool :=
  let df := (findDlg val.dlgs d).getD ⟨d, 0, 0⟩
  let tok := df.token + delta
  let stk := tok / c.unit
  let df' : Dlg := ⟨d, tok, stk⟩
  let r := updDlgFrom val.dlgs df'
  ({ val with token := val.token + delta, stake := val.stake + (stk - df.stake), dlgs := r.1 }, df', r.2)

/-- `StateDB.UpdateDelegation(d, val, tokenChanged)`; returns the new state, the new validator, the
    delegation record (if any). -/
def updateDelegation (c : Cfg) (s : St) (d : Addr) (val : Val) (delta : Int) : St × Val × Option Dlg :=
  if delta == 0 then (s, val, none) else
  if (findDlg val.dlgs d).isNone && delta < 0 then (s, val, none) else
  let r := delegRec c val d delta
  let s1 := (updateValidator s r.1 val).1
  (updateDelegator s1 d val.addr delta r.2.2, r.1, some r.2.1)

/-! ## Take-effect handlers (staking/take_effect_handler.go) -/

inductive Res where
  | ok | refused | missing | crash
deriving DecidableEq, Repr

def depositRec (c : Cfg) (old : Val) (value : Int) : Val :=
  let st := old.selfToken + value
  let ss := st / c.unit
  { old with selfToken := st, selfStake := ss, token := old.token + value, stake := old.stake + (ss - old.selfStake) }

def teDeposit (c : Cfg) (s : St) (a : Addr) (value : Int) : St × Res :=
  match get s.vals a with
  | none => (s, .crash)          -- nil dereference in Go
  | some old =>
    let nv := depositRec c old value
    let th := c.maxStake nv.role
    if th > 0 && u64 nv.stake > th then (s, .refused)
    else ((updateValidator s nv old).1, .ok)

def addUBD (s : St) (r : WRec) : St :=
  { s with queue := s.queue ++ [r], vj := .ubd r.op r.nonce :: s.vj }

/-- the amount actually withdrawn: never more than the validator's own tokens -/
def withdrawAmt (c : Cfg) (old : Val) (value : Int) : Int :=
  if value > old.selfToken then old.selfToken
  else if c.v5 && u64 ((old.selfToken - value) / c.unit) < c.minSelf old.role then old.selfToken
  else value

def withdrawRec (c : Cfg) (old : Val) (w : Int) : Val :=
  let st := old.selfToken - w
  let ss := st / c.unit
  let delta := old.selfStake - ss
  let off := old.online && (u64 ss < c.minSelf old.role || u64 old.stake < c.minStake old.role + u64 delta)
  { old with selfToken := st, selfStake := ss, status := if off then 0 else old.status,
             token := old.token - w, stake := old.stake - delta }

def teWithdraw (c : Cfg) (s : St) (a : Addr) (value : Int) (op : Addr) (nonce : Nat) : St × Res :=
  match get s.vals a with
  | none => (s, .crash)
  | some old =>
    let w := withdrawAmt c old value
    let s1 := (updateValidator s (withdrawRec c old w) old).1
    (addUBD s1 ⟨a, 0, op, nonce, w⟩, .ok)

def teChangeStatus (c : Cfg) (s : St) (a : Addr) (status : Nat) : St × Res :=
  match get s.vals a with
  | none => (s, .crash)
  | some old =>
    if status == 1 && u64 old.stake < c.minStake old.role then (s, .refused)
    else ((updateValidator s { old with status := status } old).1, .ok)

/-- `AddBalance` on an address creates the account object when it does not exist yet. -/
def ensureAcct (s : St) (d : Addr) : St :=
  match getAcct s.accts d with
  | some _ => s
  | none => { s with accts := ⟨d, [], 0⟩ :: s.accts, aj := .mk d :: s.aj }

def teDelegationAdd (c : Cfg) (s : St) (d a : Addr) (value : Int) : St × Res :=
  match get s.vals a with
  | none => (s, .crash)
  | some val =>
    -- a refused delegation refunds the detained tokens from YouV5 on (the refund creates a missing account)
    let refuse := if c.v5 then ensureAcct s d else s
    if val.expelled || val.accept == 0 then (refuse, .refused) else
    let th := c.maxStake val.role
    if th > 0 && u64 ((val.token + value) / c.unit) > th then (refuse, .refused)
    else ((updateDelegation c s d val value).1, .ok)

/-- the amount actually withdrawn from a delegation (0 = refused) -/
def dsubAmt (c : Cfg) (val : Val) (df : Dlg) (value : Int) : Int :=
  let w0 := if value > df.token then df.token else value
  if w0 ≤ 0 then 0 else
  let remain := df.token - w0
  if c.v5 then (if remain > 0 && remain < c.minDlg then w0 + remain else w0)
  else (if remain > 0 && (remain < c.minDlg || !val.online) then w0 + remain else w0)

def teDelegationSub (c : Cfg) (s : St) (d a : Addr) (value : Int) (nonce : Nat) : St × Res :=
  match get s.vals a with
  | none => (s, .crash)
  | some val =>
    match findDlg val.dlgs d with
    | none => (s, .refused)
    | some df =>
      let w := dsubAmt c val df value
      if w ≤ 0 then (s, .refused) else
      let r := updateDelegation c s d val (-w)
      let s2 :=
        if r.2.1.online && u64 r.2.1.stake < c.minStake r.2.1.role then
          (updateValidator r.1 { r.2.1 with status := 0 } r.2.1).1
        else r.1
      (addUBD s2 ⟨a, d, d, nonce, w⟩, .ok)

/-- `settleValidatorRewards` (endblock.go), validator part only (balances are C07's subject). -/
def settle (s : St) (a : Addr) : St × Res :=
  match get s.vals a with
  | none => (s, .missing)
  | some val =>
    if val.stake == 0 && val.rewards > 0 then
      ((updateValidator s { val with rewards := 0 } val).1, .ok)
    else if val.stake == 0 || val.rewards == 0 then (s, .refused)
    else
      let commission := if val.commission > 0 then val.rewards * val.commission / 10000 else 0
      let total := val.rewards - commission
      let residue := Int.tmod total val.stake
      let residue := if val.online then residue else 0
      ((updateValidator s { val with rewards := residue } val).1, .ok)

/-! ## Penalties (staking/slash.go takePenalty / doPenalize) -/

def imin (a b : Int) : Int := if a ≥ b then b else a   -- setActual(source=a, target=b)

/-- first phase: take from the withdraw queue. `pens` = (delegator or 0, remaining share). -/
def penQueue (a : Addr) : List WRec → Int → List (Addr × Int) → List WRec × Int × List (Addr × Int)
  | [], p, pens => ([], p, pens)
  | r :: rest, p, pens =>
    if p ≤ 0 then (r :: rest, p, pens)
    else if r.val != a then
      let (q, p', pens') := penQueue a rest p pens
      (r :: q, p', pens')
    else
      match pens.find? (·.1 == r.dlg) with
      | none =>
        let (q, p', pens') := penQueue a rest p pens
        (r :: q, p', pens')
      | some (_, share) =>
        if share ≤ 0 then
          let (q, p', pens') := penQueue a rest p pens
          (r :: q, p', pens')
        else
          let take := imin r.final share
          if take > 0 then
            let pens1 := pens.map (fun x => if x.1 == r.dlg then (x.1, x.2 - take) else x)
            let (q, p', pens') := penQueue a rest (p - take) pens1
            ({ r with final := r.final - take } :: q, p', pens')
          else
            let (q, p', pens') := penQueue a rest p pens
            (r :: q, p', pens')

/-- `updateCounter` on one delegation component -/
def penDlgs (unit : Int) (pens : List (Addr × Int)) : List Dlg → Int → Int → Int → List Dlg × Int × Int × Int
  -- args: remaining delegations, p (penalty left), token, stake of the validator; returns new list, p, token, stake
  | [], p, tok, stk => ([], p, tok, stk)
  | x :: rest, p, tok, stk =>
    if p ≤ 0 then (x :: rest, p, tok, stk)
    else
      let share := ((pens.find? (·.1 == x.d)).map (·.2)).getD 0
      let take := if share > 0 then imin x.token share else 0
      if take > 0 then
        let nt := x.token - take
        let ns := nt / unit
        let r := penDlgs unit pens rest (p - take) (tok - take) (stk - (x.stake - ns))
        let x' : Dlg := ⟨x.d, nt, ns⟩
        ((if x'.empty then r.1 else x' :: r.1), r.2)
      else
        let r := penDlgs unit pens rest p tok stk
        (x :: r.1, r.2)

/-- `updateCounter` on the validator's own part: new (selfToken, selfStake, token, stake) -/
def penSelf (u : Int) (val : Val) (take : Int) : Int × Int × Int × Int :=
  if take > 0 then
    let nt := val.selfToken - take
    let ns := nt / u
    (nt, ns, val.token - take, val.stake - (val.selfStake - ns))
  else (val.selfToken, val.selfStake, val.token, val.stake)

/-- the record part of `takePenalty`: new withdraw queue and new validator record -/
def penaltyRec (c : Cfg) (queue : List WRec) (val : Val) (amount : Int) : List WRec × Val :=
  let obligation := if val.risk > 0 && val.risk ≤ 10000 then amount * val.risk / 10000 else 0
  let cur := amount - obligation
  let per := if val.stake == 0 then 0 else Int.tdiv cur val.stake
  let rem := if val.stake == 0 then cur else Int.tmod cur val.stake
  let selfPen := per * val.selfStake + rem + obligation
  -- Go builds a map keyed by delegator; the validator's own share is looked up under address 0
  let pens : List (Addr × Int) := (0, selfPen) :: val.dlgs.map (fun x => (x.d, per * x.stake))
  let pq := penQueue val.addr queue amount pens
  let p1 := pq.2.1
  let pens1 := pq.2.2
  let selfShare := ((pens1.find? (·.1 == 0)).map (·.2)).getD 0
  let take := if selfShare > 0 then imin val.selfToken selfShare else 0
  let ps := penSelf c.unit val take
  let p2 := if take > 0 then p1 - take else p1
  let pd := penDlgs c.unit (pens1.filter (·.1 != 0)) val.dlgs p2 ps.2.2.1 ps.2.2.2
  -- the deposits are only touched when the withdraw queue did not cover the penalty
  let nv := if p1 > 0 then
      { val with selfToken := ps.1, selfStake := ps.2.1, token := pd.2.2.1, stake := pd.2.2.2, dlgs := pd.1 } else val
  (pq.1, nv)

/-- `takePenalty` (after /repo commit 2215675: a zero `Stake` makes the whole amount remainder instead of
    dividing by zero; the `Option` is kept for a panic that no longer exists). -/
def takePenalty (c : Cfg) (s : St) (val : Val) (amount : Int) : Option (St × Val) :=
  let r := penaltyRec c s.queue val amount
  some ({ s with queue := r.1 }, r.2)

/-- `doPenalize` (inactive / double sign: offline + expelled) -/
def penalize (c : Cfg) (s : St) (a : Addr) (amount : Int) : St × Res :=
  match get s.vals a with
  | none => (s, .missing)
  | some val =>
    if amount > 0 then
      match takePenalty c s val amount with
      | none => (s, .crash)
      | some (s1, nv) => ((updateValidator s1 { nv with status := 0, expelled := true } val).1, .ok)
    else
      ((updateValidator s { val with status := 0, expelled := true } val).1, .ok)

/-! ## Operations -/

inductive Field where
  | role | status | token | stake | selfToken | selfStake | rewards | expelled | accept | risk | commission
deriving DecidableEq, Repr

def Val.set (v : Val) : Field → Int → Val
  | .role, x => { v with role := x.toNat }
  | .status, x => { v with status := x.toNat }
  | .token, x => { v with token := x }
  | .stake, x => { v with stake := x }
  | .selfToken, x => { v with selfToken := x }
  | .selfStake, x => { v with selfStake := x }
  | .rewards, x => { v with rewards := x }
  | .expelled, x => { v with expelled := x != 0 }
  | .accept, x => { v with accept := x.toNat }
  | .risk, x => { v with risk := x.toNat }
  | .commission, x => { v with commission := x.toNat }

inductive Op where
  | create (a role status : Nat) (token stake : Int) (accept commission risk : Nat)
  | upd (a : Addr) (f : Field) (x : Int)
  /-- `UpdateValidator(new, old')` with `old'` = stored record with field `g := y` (a stale copy) -/
  | updStale (a : Addr) (f : Field) (x : Int) (g : Field) (y : Int)
  | remove (a : Addr)
  | mkacct (d : Addr)
  | deleg (d a : Addr) (delta : Int)
  | deposit (a : Addr) (value : Int)
  | withdraw (a : Addr) (value : Int) (op : Addr) (nonce : Nat)
  | chstatus (a : Addr) (status : Nat)
  | dadd (d a : Addr) (value : Int)
  | dsub (d a : Addr) (value : Int) (nonce : Nat)
  | penal (a : Addr) (amount : Int)
  | settle (a : Addr)
  | snap
  | revert (id : Nat)
  | fin
  | iroot (de : Bool)
  | reload (de : Bool)
  | copy
deriving Repr

inductive Out where
  | res (r : Res)
  | bool (b : Bool)
  | id (n : Nat)
  | unit
deriving DecidableEq, Repr

def mkVal (a role status : Nat) (token stake : Int) (accept commission risk : Nat) : Val :=
  { addr := a, role := role, status := status, token := token, stake := stake, selfToken := token, selfStake := stake,
    rewards := 0, expelled := false, accept := accept, commission := commission, risk := risk, dlgs := [], deleted := false }

/-- One operation. `Res.crash` = the Go code panics (state then unspecified: the harness ends the case). -/
def step (c : Cfg) (s : St) : Op → St × Out
  | .create a role status token stake accept commission risk =>
    if !validRole role then
      (match get s.vals a with | some _ => (s, .bool false) | none => (s, .res .crash))
    else
      let (s', b) := createValidator s (mkVal a role status token stake accept commission risk)
      (s', .bool b)
  | .upd a f x =>
    match get s.vals a with
    | none => (s, .res .missing)
    | some old =>
      let nv := old.set f x
      if !nv.stakeEqual old && !(validRole nv.role && validRole old.role) then (s, .res .crash)
      else let (s', b) := updateValidator s nv old; (s', .bool b)
  | .updStale a f x g y =>
    match get s.vals a with
    | none => (s, .res .missing)
    | some cur =>
      let nv := cur.set f x
      let old := cur.set g y
      if !nv.stakeEqual old && !(validRole nv.role && validRole old.role) then (s, .res .crash)
      else let (s', b) := updateValidator s nv old; (s', .bool b)
  | .remove a =>
    match getRaw s.vals a with
    | some v => if !validRole v.role then (s, .res .crash) else let (s', b) := removeValidator s a; (s', .bool b)
    | none => (s, .bool false)
  | .mkacct d => (ensureAcct s d, .unit)
  | .deleg d a delta =>
    match get s.vals a with
    | none => (s, .res .missing)
    | some val => ((updateDelegation c s d val delta).1, .res .ok)
  | .deposit a value => let (s', r) := teDeposit c s a value; (s', .res r)
  | .withdraw a value op nonce => let (s', r) := teWithdraw c s a value op nonce; (s', .res r)
  | .chstatus a status => let (s', r) := teChangeStatus c s a status; (s', .res r)
  | .dadd d a value => let (s', r) := teDelegationAdd c s d a value; (s', .res r)
  | .dsub d a value nonce => let (s', r) := teDelegationSub c s d a value nonce; (s', .res r)
  | .penal a amount => let (s', r) := penalize c s a amount; (s', .res r)
  | .settle a => let (s', r) := settle s a; (s', .res r)
  | .snap => let (s', id) := snapshot s; (s', .id id)
  | .revert id =>
    match revertTo s id with
    | some s' => (s', .unit)
    | none => (s, .res .crash)
  | .fin => (finalise s, .unit)
  | .iroot de => if flushCrashes de s then (s, .res .crash) else (iroot de s, .unit)
  | .reload de => if flushCrashes de s then (s, .res .crash) else (reload de s, .unit)
  | .copy => (copy s, .unit)

def run (c : Cfg) (s : St) (ops : List Op) : St := ops.foldl (fun s op => (step c s op).1) s

/-! ## Observations -/

/-- `GetValidatorsForUpdate`: the index, each entry resolved; `none` = panic "validator not exist". -/
def forUpdate (s : St) : Option (List Val) := s.index.mapM (getRaw s.vals)

/-- the records the index resolves to (entries that do not resolve are skipped).
    Like `GetValidatorsForUpdate`, this reads the live object without looking at its `deleted` flag. -/
def listed (s : St) : List Val := s.index.filterMap (getRaw s.vals)

/-- recomputation of the statistics from the listed records -/
def summarize (l : List Val) : Stats := summK (l.map Val.key)

end YouVerif.C08
