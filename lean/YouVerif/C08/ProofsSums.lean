/-
C08 — sums: every visible validator's totals equal its own part plus its delegations', every stake is
token / unit, component-wise; preserved by every handler-level operation.
-/
import YouVerif.C08.ProofsRun

namespace YouVerif.C08

def sumF (f : Dlg → Int) (l : List Dlg) : Int := (l.map f).sum
def sumTok (l : List Dlg) : Int := sumF (·.token) l
def sumStk (l : List Dlg) : Int := sumF (·.stake) l

/-- delegations sorted by delegator, no duplicates -/
def DSorted (l : List Dlg) : Prop := l.Pairwise (fun x y => x.d < y.d)

@[simp] theorem sumF_nil (f : Dlg → Int) : sumF f [] = 0 := rfl
@[simp] theorem sumF_cons (f : Dlg → Int) (x : Dlg) (l : List Dlg) : sumF f (x :: l) = f x + sumF f l := by
  simp [sumF]

theorem findDlg_some {l : List Dlg} {d : Addr} {y : Dlg} (h : findDlg l d = some y) : y ∈ l ∧ y.d = d := by
  unfold findDlg at h
  exact ⟨List.mem_of_find?_eq_some h, by simpa using List.find?_some h⟩

theorem findDlg_cons (y : Dlg) (l : List Dlg) (d : Addr) :
    findDlg (y :: l) d = if y.d = d then some y else findDlg l d := by
  unfold findDlg
  by_cases h : y.d = d <;> simp [List.find?_cons, h]

theorem DSorted.tail {y : Dlg} {l : List Dlg} (h : DSorted (y :: l)) : DSorted l := (List.pairwise_cons.mp h).2
theorem DSorted.head {y : Dlg} {l : List Dlg} (h : DSorted (y :: l)) : ∀ z ∈ l, y.d < z.d := (List.pairwise_cons.mp h).1

theorem nat_lt_of_not (a b : Nat) (h1 : ¬ a < b) (h2 : ¬ a = b) : b < a := by omega

theorem mem_insertDlg {x z : Dlg} {l : List Dlg} (h : z ∈ insertDlg x l) : z = x ∨ z ∈ l := by
  induction l with
  | nil => simp [insertDlg] at h; exact Or.inl h
  | cons y l ih =>
    unfold insertDlg at h
    split at h
    · rcases List.mem_cons.mp h with h | h
      · exact Or.inl h
      · exact Or.inr h
    · split at h
      · rcases List.mem_cons.mp h with h | h
        · exact Or.inl h
        · exact Or.inr (List.mem_cons_of_mem _ h)
      · rcases List.mem_cons.mp h with h | h
        · exact Or.inr (h ▸ List.mem_cons_self)
        · rcases ih h with h | h
          · exact Or.inl h
          · exact Or.inr (List.mem_cons_of_mem _ h)

theorem insertDlg_sorted {x : Dlg} {l : List Dlg} (h : DSorted l) : DSorted (insertDlg x l) := by
  induction l with
  | nil => simp [insertDlg, DSorted]
  | cons y l ih =>
    have hh := h.head
    have ht := h.tail
    by_cases h1 : x.d < y.d
    · have e : insertDlg x (y :: l) = x :: y :: l := by simp [insertDlg, h1]
      rw [e]
      refine List.pairwise_cons.mpr ⟨?_, h⟩
      intro z hz
      rcases List.mem_cons.mp hz with rfl | hz
      · exact h1
      · exact Nat.lt_trans h1 (hh z hz)
    · by_cases h2 : x.d = y.d
      · have e : insertDlg x (y :: l) = x :: l := by simp [insertDlg, h2]
        rw [e]
        refine List.pairwise_cons.mpr ⟨?_, ht⟩
        intro z hz; rw [h2]; exact hh z hz
      · have e : insertDlg x (y :: l) = y :: insertDlg x l := by simp [insertDlg, h1, h2]
        rw [e]
        refine List.pairwise_cons.mpr ⟨?_, ih ht⟩
        intro z hz
        rcases mem_insertDlg hz with rfl | hz
        · exact nat_lt_of_not _ _ h1 h2
        · exact hh z hz

theorem sumF_insert_none (f : Dlg → Int) {x : Dlg} {l : List Dlg} (h : findDlg l x.d = none) :
    sumF f (insertDlg x l) = f x + sumF f l := by
  induction l with
  | nil => simp [insertDlg]
  | cons y l ih =>
    rw [findDlg_cons] at h
    by_cases hy : y.d = x.d
    · simp [hy] at h
    · simp only [hy, if_false] at h
      unfold insertDlg
      by_cases h1 : x.d < y.d
      · simp [h1]
      · have h2 : ¬ x.d = y.d := fun e => hy e.symm
        simp only [h1, h2, if_false, sumF_cons, ih h]; omega

theorem sumF_insert_some (f : Dlg → Int) {x y : Dlg} {l : List Dlg} (hs : DSorted l) (h : findDlg l x.d = some y) :
    sumF f (insertDlg x l) = f x + sumF f l - f y := by
  induction l with
  | nil => simp [findDlg] at h
  | cons y0 l ih =>
    have hh := hs.head
    rw [findDlg_cons] at h
    by_cases hy : y0.d = x.d
    · simp only [hy, if_true, Option.some.injEq] at h
      subst h
      have h1 : ¬ x.d < y0.d := by rw [hy]; exact Nat.lt_irrefl _
      simp [insertDlg, h1, hy.symm]; omega
    · simp only [hy, if_false] at h
      have hm := findDlg_some h
      have hlt : y0.d < x.d := by rw [← hm.2]; exact hh y hm.1
      have h1 : ¬ x.d < y0.d := Nat.lt_asymm hlt
      have h2 : ¬ x.d = y0.d := fun e => hy e.symm
      simp only [insertDlg, h1, h2, if_false, sumF_cons, ih hs.tail h]; omega

theorem sumF_filter_some (f : Dlg → Int) {d : Addr} {y : Dlg} {l : List Dlg} (hs : DSorted l) (h : findDlg l d = some y) :
    sumF f (l.filter (fun z => z.d != d)) = sumF f l - f y := by
  induction l with
  | nil => simp [findDlg] at h
  | cons y0 l ih =>
    have hh := hs.head
    rw [findDlg_cons] at h
    by_cases hy : y0.d = d
    · simp only [hy, if_true, Option.some.injEq] at h
      subst h
      have e1 : (y0.d != d) = false := by simp [hy]
      have e2 : l.filter (fun z => z.d != d) = l := by
        apply List.filter_eq_self.mpr
        intro z hz
        have hlt := hh z hz
        simp only [bne_iff_ne, ne_eq]
        intro e
        rw [hy, ← e] at hlt
        exact Nat.lt_irrefl _ hlt
      simp only [List.filter_cons, e1, e2, sumF_cons]; simp; omega
    · simp only [hy, if_false] at h
      have e1 : (y0.d != d) = true := by simp [hy]
      simp only [List.filter_cons, e1, if_true, sumF_cons, ih hs.tail h]; omega

theorem empty_iff (x : Dlg) : x.empty = true ↔ x.stake = 0 ∧ x.token = 0 := by
  unfold Dlg.empty; simp

/-! ### well-formed validator records -/

structure VWF (u : Int) (v : Val) : Prop where
  tok : v.token = v.selfToken + sumTok v.dlgs
  stk : v.stake = v.selfStake + sumStk v.dlgs
  self : v.selfStake = v.selfToken / u
  comp : ∀ x ∈ v.dlgs, x.stake = x.token / u
  selfNN : 0 ≤ v.selfToken
  compPos : ∀ x ∈ v.dlgs, 0 < x.token
  sorted : DSorted v.dlgs

theorem VWF.congr {u : Int} {v w : Val} (h : VWF u v) (e1 : w.token = v.token) (e2 : w.stake = v.stake)
    (e3 : w.selfToken = v.selfToken) (e4 : w.selfStake = v.selfStake) (e5 : w.dlgs = v.dlgs) : VWF u w :=
  ⟨by rw [e1, e3, e5]; exact h.tok, by rw [e2, e4, e5]; exact h.stk, by rw [e3, e4]; exact h.self,
   by rw [e5]; exact h.comp, by rw [e3]; exact h.selfNN, by rw [e5]; exact h.compPos, by rw [e5]; exact h.sorted⟩

theorem sumF_nonneg (f : Dlg → Int) {l : List Dlg} (h : ∀ x ∈ l, 0 ≤ f x) : 0 ≤ sumF f l := by
  induction l with
  | nil => simp
  | cons y l ih =>
    rw [sumF_cons]
    have := h y List.mem_cons_self
    have := ih (fun x hx => h x (List.mem_cons_of_mem _ hx))
    omega

theorem VWF.nonneg {u : Int} (hu : 0 < u) {v : Val} (h : VWF u v) : v.key.nonneg := by
  constructor
  · show 0 ≤ v.stake
    rw [h.stk, h.self]
    have h1 : 0 ≤ v.selfToken / u := Int.ediv_nonneg h.selfNN (by omega)
    have h2 : 0 ≤ sumStk v.dlgs := sumF_nonneg _ (fun x hx => by
      rw [h.comp x hx]; exact Int.ediv_nonneg (by have := h.compPos x hx; omega) (by omega))
    omega
  · show 0 ≤ v.token
    rw [h.tok]
    have h2 : 0 ≤ sumTok v.dlgs := sumF_nonneg _ (fun x hx => by have := h.compPos x hx; omega)
    have := h.selfNN
    omega


/-! ### the record-level functions keep `VWF` -/

theorem mkVal_vwf {u : Int} (a role status : Nat) (token stake : Int) (accept commission risk : Nat)
    (h0 : 0 ≤ token) (hs : stake = token / u) : VWF u (mkVal a role status token stake accept commission risk) := by
  refine ⟨?_, ?_, hs, ?_, h0, ?_, ?_⟩
  · show token = token + sumTok []; simp [sumTok]
  · show stake = stake + sumStk []; simp [sumStk]
  · intro x hx; cases hx
  · intro x hx; cases hx
  · exact List.Pairwise.nil

def Field.sumFree : Field → Bool
  | .token | .stake | .selfToken | .selfStake => false
  | _ => true

theorem set_vwf {u : Int} {v : Val} (h : VWF u v) {f : Field} (hf : f.sumFree = true) (x : Int) : VWF u (v.set f x) := by
  cases f
  case token => simp [Field.sumFree] at hf
  case stake => simp [Field.sumFree] at hf
  case selfToken => simp [Field.sumFree] at hf
  case selfStake => simp [Field.sumFree] at hf
  all_goals exact h.congr rfl rfl rfl rfl rfl

theorem depositRec_vwf (c : Cfg) {old : Val} (h : VWF c.unit old) {value : Int} (hv : 0 ≤ value) :
    VWF c.unit (depositRec c old value) := by
  have h1 := h.tok; have h2 := h.stk; have h3 := h.self; have h4 := h.selfNN
  refine ⟨?_, ?_, rfl, h.comp, ?_, h.compPos, h.sorted⟩
  · show old.token + value = old.selfToken + value + sumTok old.dlgs; omega
  · show old.stake + ((old.selfToken + value) / c.unit - old.selfStake) = (old.selfToken + value) / c.unit + sumStk old.dlgs
    omega
  · show 0 ≤ old.selfToken + value; omega

theorem withdrawAmt_le (c : Cfg) (old : Val) (value : Int) : withdrawAmt c old value ≤ old.selfToken := by
  unfold withdrawAmt
  split
  · exact Int.le_refl _
  · split
    · exact Int.le_refl _
    · omega

theorem withdrawRec_vwf (c : Cfg) {old : Val} (h : VWF c.unit old) {w : Int} (hw : w ≤ old.selfToken) :
    VWF c.unit (withdrawRec c old w) := by
  have h1 := h.tok; have h2 := h.stk; have h3 := h.self
  refine ⟨?_, ?_, rfl, h.comp, ?_, h.compPos, h.sorted⟩
  · show old.token - w = old.selfToken - w + sumTok old.dlgs; omega
  · show old.stake - (old.selfStake - (old.selfToken - w) / c.unit) = (old.selfToken - w) / c.unit + sumStk old.dlgs
    omega
  · show 0 ≤ old.selfToken - w; omega

/-- `UpdateDelegation` on the record: the delegation stays non-negative (handlers clamp), a new one is positive -/
theorem delegRec_vwf (c : Cfg) {val : Val} (h : VWF c.unit val) (d : Addr) {delta : Int} (hne : delta ≠ 0)
    (hsome : ∀ df, findDlg val.dlgs d = some df → 0 ≤ df.token + delta)
    (hnone : findDlg val.dlgs d = none → 0 < delta) : VWF c.unit (delegRec c val d delta).1 := by
  have h1 := h.tok; have h2 := h.stk
  unfold delegRec
  simp only
  cases hf : findDlg val.dlgs d with
  | none =>
    have hpos := hnone hf
    simp only [Option.getD_none]
    have hnotempty : (Dlg.empty ⟨d, 0 + delta, (0 + delta) / c.unit⟩) = false := by
      cases he : Dlg.empty ⟨d, 0 + delta, (0 + delta) / c.unit⟩
      · rfl
      · have := (empty_iff _).mp he; simp at this; omega
    have hu : updDlgFrom val.dlgs ⟨d, 0 + delta, (0 + delta) / c.unit⟩
        = (insertDlg ⟨d, 0 + delta, (0 + delta) / c.unit⟩ val.dlgs, false) := by
      unfold updDlgFrom; simp only [hf, hnotempty]; rfl
    rw [hu]
    refine ⟨?_, ?_, h.self, ?_, h.selfNN, ?_, insertDlg_sorted h.sorted⟩
    · show val.token + delta = val.selfToken + sumTok (insertDlg ⟨d, 0 + delta, (0 + delta) / c.unit⟩ val.dlgs)
      unfold sumTok at *
      rw [sumF_insert_none _ (by exact hf)]; simp only; omega
    · show val.stake + ((0 + delta) / c.unit - 0) = val.selfStake + sumStk (insertDlg ⟨d, 0 + delta, (0 + delta) / c.unit⟩ val.dlgs)
      unfold sumStk at *
      rw [sumF_insert_none _ (by exact hf)]; simp only; omega
    · intro x hx
      rcases mem_insertDlg hx with rfl | hx
      · rfl
      · exact h.comp x hx
    · intro x hx
      rcases mem_insertDlg hx with rfl | hx
      · show 0 < 0 + delta; omega
      · exact h.compPos x hx
  | some y =>
    have hy := findDlg_some hf
    have hnn := hsome y hf
    simp only [Option.getD_some]
    have hcy := h.comp y hy.1
    by_cases he : Dlg.empty ⟨d, y.token + delta, (y.token + delta) / c.unit⟩ = true
    · have hz := (empty_iff _).mp he
      simp only at hz
      have hu : updDlgFrom val.dlgs ⟨d, y.token + delta, (y.token + delta) / c.unit⟩
          = (val.dlgs.filter (fun z => z.d != d), true) := by
        unfold updDlgFrom; simp only [hf, he]; rfl
      rw [hu]
      refine ⟨?_, ?_, h.self, ?_, h.selfNN, ?_, List.Pairwise.filter _ h.sorted⟩
      · show val.token + delta = val.selfToken + sumTok (val.dlgs.filter (fun z => z.d != d))
        unfold sumTok at *
        rw [sumF_filter_some _ h.sorted hf]; omega
      · show val.stake + ((y.token + delta) / c.unit - y.stake) = val.selfStake + sumStk (val.dlgs.filter (fun z => z.d != d))
        unfold sumStk at *
        rw [sumF_filter_some _ h.sorted hf]; omega
      · intro x hx; exact h.comp x (List.mem_filter.mp hx).1
      · intro x hx; exact h.compPos x (List.mem_filter.mp hx).1
    · have he' : Dlg.empty ⟨d, y.token + delta, (y.token + delta) / c.unit⟩ = false := by simpa using he
      have hu : updDlgFrom val.dlgs ⟨d, y.token + delta, (y.token + delta) / c.unit⟩
          = (insertDlg ⟨d, y.token + delta, (y.token + delta) / c.unit⟩ val.dlgs, false) := by
        unfold updDlgFrom; simp only [hf, he']; rfl
      rw [hu]
      -- not empty and non-negative, with stake = token / unit: the token is positive
      have hpos : 0 < y.token + delta := by
        by_cases hp : 0 < y.token + delta
        · exact hp
        · have e0 : y.token + delta = 0 := by omega
          exfalso
          have : Dlg.empty ⟨d, y.token + delta, (y.token + delta) / c.unit⟩ = true := by
            apply (empty_iff _).mpr; simp only; rw [e0]; simp
          rw [this] at he'; cases he'
      refine ⟨?_, ?_, h.self, ?_, h.selfNN, ?_, insertDlg_sorted h.sorted⟩
      · show val.token + delta = val.selfToken + sumTok (insertDlg ⟨d, y.token + delta, (y.token + delta) / c.unit⟩ val.dlgs)
        unfold sumTok at *
        rw [sumF_insert_some _ h.sorted (by exact hf)]; simp only; omega
      · show val.stake + ((y.token + delta) / c.unit - y.stake) = val.selfStake + sumStk (insertDlg ⟨d, y.token + delta, (y.token + delta) / c.unit⟩ val.dlgs)
        unfold sumStk at *
        rw [sumF_insert_some _ h.sorted (by exact hf)]; simp only; omega
      · intro x hx
        rcases mem_insertDlg hx with rfl | hx
        · rfl
        · exact h.comp x hx
      · intro x hx
        rcases mem_insertDlg hx with rfl | hx
        · exact hpos
        · exact h.compPos x hx


theorem imin_le (a b : Int) : imin a b ≤ a := by unfold imin; split <;> omega

theorem penDlgs_spec (u : Int) (pens : List (Addr × Int)) : ∀ (l : List Dlg) (p tok stk : Int), DSorted l →
    (∀ x ∈ l, x.stake = x.token / u) → (∀ x ∈ l, 0 < x.token) →
    DSorted (penDlgs u pens l p tok stk).1 ∧ (∀ x ∈ (penDlgs u pens l p tok stk).1, x.stake = x.token / u) ∧
    (∀ x ∈ (penDlgs u pens l p tok stk).1, 0 < x.token) ∧
    (penDlgs u pens l p tok stk).2.2.1 - sumTok (penDlgs u pens l p tok stk).1 = tok - sumTok l ∧
    (penDlgs u pens l p tok stk).2.2.2 - sumStk (penDlgs u pens l p tok stk).1 = stk - sumStk l ∧
    (∀ z ∈ (penDlgs u pens l p tok stk).1, ∃ z0 ∈ l, z0.d = z.d) := by
  intro l
  induction l with
  | nil =>
    intro p tok stk hs hc hp
    simp only [penDlgs]
    exact ⟨hs, hc, hp, by first | rfl | trivial | simp, by first | rfl | trivial | simp, fun z hz => by cases hz⟩
  | cons x rest ih =>
    intro p tok stk hs hc hp
    have hcr : ∀ y ∈ rest, y.stake = y.token / u := fun y hy => hc y (List.mem_cons_of_mem _ hy)
    have hpr : ∀ y ∈ rest, 0 < y.token := fun y hy => hp y (List.mem_cons_of_mem _ hy)
    have hxc := hc x List.mem_cons_self
    have hxp := hp x List.mem_cons_self
    rw [penDlgs]
    by_cases h0 : p ≤ 0
    · simp only [h0, if_true]
      exact ⟨hs, hc, hp, by first | rfl | trivial | simp, by first | rfl | trivial | simp, fun z hz => ⟨z, hz, rfl⟩⟩
    · simp only [h0, if_false]
      generalize htake : (if ((pens.find? (fun y => y.1 == x.d)).map (fun y => y.2)).getD 0 > 0 then
          imin x.token (((pens.find? (fun y => y.1 == x.d)).map (fun y => y.2)).getD 0) else 0) = take
      have htle : take ≤ x.token := by
        rw [← htake]; split
        · exact imin_le _ _
        · omega
      by_cases ht : take > 0
      · simp only [ht, if_true]
        obtain ⟨i1, i2, i3, i4, i5, i6⟩ := ih (p - take) (tok - take) (stk - (x.stake - (x.token - take) / u)) hs.tail hcr hpr
        generalize penDlgs u pens rest (p - take) (tok - take) (stk - (x.stake - (x.token - take) / u)) = r at i1 i2 i3 i4 i5 i6 ⊢
        by_cases he : Dlg.empty ⟨x.d, x.token - take, (x.token - take) / u⟩ = true
        · simp only [he, if_true]
          have hz := (empty_iff _).mp he
          simp only at hz
          refine ⟨i1, i2, i3, ?_, ?_, fun z hz => ?_⟩
          · simp only [sumTok, sumF_cons] at i4 ⊢; omega
          · simp only [sumStk, sumF_cons] at i5 ⊢; omega
          · obtain ⟨z0, hz0, e⟩ := i6 z hz; exact ⟨z0, List.mem_cons_of_mem _ hz0, e⟩
        · have he' : Dlg.empty ⟨x.d, x.token - take, (x.token - take) / u⟩ = false := by simpa using he
          simp only [he', Bool.false_eq_true, if_false]
          have hpos : 0 < x.token - take := by
            by_cases hp' : 0 < x.token - take
            · exact hp'
            · have e0 : x.token - take = 0 := by omega
              exfalso
              have : Dlg.empty ⟨x.d, x.token - take, (x.token - take) / u⟩ = true := by
                apply (empty_iff _).mpr; simp only; rw [e0]; simp
              rw [this] at he'; cases he'
          refine ⟨?_, ?_, ?_, ?_, ?_, ?_⟩
          · refine List.pairwise_cons.mpr ⟨?_, i1⟩
            intro z hz
            obtain ⟨z0, hz0, e⟩ := i6 z hz
            show x.d < z.d
            rw [← e]; exact hs.head z0 hz0
          · intro y hy
            rcases List.mem_cons.mp hy with rfl | hy
            · rfl
            · exact i2 y hy
          · intro y hy
            rcases List.mem_cons.mp hy with rfl | hy
            · exact hpos
            · exact i3 y hy
          · simp only [sumTok, sumF_cons] at i4 ⊢; omega
          · simp only [sumStk, sumF_cons] at i5 ⊢; omega
          · intro z hz
            rcases List.mem_cons.mp hz with rfl | hz
            · exact ⟨x, List.mem_cons_self, rfl⟩
            · obtain ⟨z0, hz0, e⟩ := i6 z hz; exact ⟨z0, List.mem_cons_of_mem _ hz0, e⟩
      · simp only [ht, if_false]
        obtain ⟨i1, i2, i3, i4, i5, i6⟩ := ih p tok stk hs.tail hcr hpr
        generalize penDlgs u pens rest p tok stk = r at i1 i2 i3 i4 i5 i6 ⊢
        refine ⟨?_, ?_, ?_, ?_, ?_, ?_⟩
        · refine List.pairwise_cons.mpr ⟨?_, i1⟩
          intro z hz
          obtain ⟨z0, hz0, e⟩ := i6 z hz
          show x.d < z.d
          rw [← e]; exact hs.head z0 hz0
        · intro y hy
          rcases List.mem_cons.mp hy with rfl | hy
          · exact hxc
          · exact i2 y hy
        · intro y hy
          rcases List.mem_cons.mp hy with rfl | hy
          · exact hxp
          · exact i3 y hy
        · simp only [sumTok, sumF_cons] at i4 ⊢; omega
        · simp only [sumStk, sumF_cons] at i5 ⊢; omega
        · intro z hz
          rcases List.mem_cons.mp hz with rfl | hz
          · exact ⟨z, List.mem_cons_self, rfl⟩
          · obtain ⟨z0, hz0, e⟩ := i6 z hz; exact ⟨z0, List.mem_cons_of_mem _ hz0, e⟩

end YouVerif.C08
