/-
C08 — delegation links: delegator accounts and validators agree on who delegates to whom.
Abstraction to two maps (account ↦ listed validators, visible validator ↦ its delegators), component-wise undo,
"restore" to a snapshot, and the stability of restores under appended journal entries.
-/
import YouVerif.C08.ProofsHandlers

namespace YouVerif.C08

abbrev LMap := Addr → Option (List Addr)

def updM (f : LMap) (a : Addr) (v : Option (List Addr)) : LMap := fun x => if x = a then v else f x

@[simp] theorem updM_same (f : LMap) (a : Addr) (v : Option (List Addr)) : updM f a v a = v := by simp [updM]
theorem updM_other (f : LMap) {a x : Addr} (v : Option (List Addr)) (h : x ≠ a) : updM f a v x = f x := by simp [updM, h]
theorem updM_self (f : LMap) (a : Addr) : updM f a (f a) = f := by
  funext x; unfold updM; split
  · rename_i h; rw [h]
  · rfl
theorem updM_updM (f : LMap) (a : Addr) (v w : Option (List Addr)) : updM (updM f a v) a w = updM f a w := by
  funext x; unfold updM; split <;> rfl

def dl (v : Val) : List Addr := v.dlgs.map (·.d)
def avOf (s : St) : LMap := fun d => (getAcct s.accts d).map (·.dlgs)
def vdOf (s : St) : LMap := fun a => (get s.vals a).map dl

/-- the property's fourth clause on the two maps -/
def Links (av vd : LMap) : Prop := ∀ d a, (∃ l, av d = some l ∧ a ∈ l) ↔ (∃ l, vd a = some l ∧ d ∈ l)

/-! ### accounts as association list -/

theorem getAcct_putAcct (l : List Acct) (x : Acct) (a : Addr) :
    getAcct (putAcct l x) a = if a = x.addr then some x else getAcct l a := by
  unfold getAcct putAcct
  by_cases h : a = x.addr
  · subst h; simp
  · have h' : ¬ x.addr = a := fun e => h e.symm
    simp only [h, if_false, List.find?_cons]
    have : (x.addr == a) = false := by simpa using h'
    simp only [this]
    induction l with
    | nil => rfl
    | cons w l ih =>
      simp only [List.filter_cons]
      by_cases hw : w.addr = x.addr
      · have e1 : (w.addr != x.addr) = false := by simp [hw]
        have e2 : (w.addr == a) = false := by simp [hw, h']
        simp only [e1, List.find?_cons, e2]; exact ih
      · have e1 : (w.addr != x.addr) = true := by simp [hw]
        simp only [e1, if_true, List.find?_cons]
        cases (w.addr == a) <;> simp [ih]

theorem getAcct_erase (l : List Acct) (a0 a : Addr) :
    getAcct (l.filter (fun w => w.addr != a0)) a = if a = a0 then none else getAcct l a := by
  unfold getAcct
  induction l with
  | nil => simp
  | cons w l ih =>
    simp only [List.filter_cons]
    by_cases hw : w.addr = a0
    · have e1 : (w.addr != a0) = false := by simp [hw]
      simp only [e1, List.find?_cons]
      by_cases h : a = a0
      · simp [h] at ih ⊢; try exact ih
      · have e2 : (w.addr == a) = false := by simp [hw]; exact fun e => h e.symm
        simp only [e2]; exact ih
    · have e1 : (w.addr != a0) = true := by simp [hw]
      simp only [e1, if_true, List.find?_cons]
      by_cases hwa : w.addr = a
      · have e2 : (w.addr == a) = true := by simp [hwa]
        have : ¬ a = a0 := fun e => hw (hwa.trans e)
        simp [e2, this]
      · have e2 : (w.addr == a) = false := by simp [hwa]
        simp only [e2]; exact ih

theorem getAcct_addr {l : List Acct} {a : Addr} {x : Acct} (h : getAcct l a = some x) : x.addr = a := by
  unfold getAcct at h
  simpa using List.find?_some h

/-! ### component-wise undo -/

def undoAv (av : LMap) : AE → LMap
  | .mk a => updM av a none
  | .dlgs a prev => updM av a ((av a).map fun _ => prev)
  | .bal _ _ => av

def undoVd (vd : LMap) : JE → LMap
  | .create a => updM vd a none
  | .update old _ => updM vd old.addr (if old.deleted then none else some (dl old))
  | .delete old => updM vd old.addr (if old.deleted then none else some (dl old))
  | .ubd _ _ => vd

def restA (n : Nat) : List AE → LMap → List AE × LMap
  | [], av => ([], av)
  | e :: r, av => if (e :: r).length ≤ n then (e :: r, av) else restA n r (undoAv av e)

def restV (n : Nat) : List JE → LMap → List JE × LMap
  | [], vd => ([], vd)
  | e :: r, vd => if (e :: r).length ≤ n then (e :: r, vd) else restV n r (undoVd vd e)

theorem vdOf_put (l : List Val) (v : Val) (s : St) (hs : s.vals = put l v) :
    vdOf s = updM (fun a => (get l a).map dl) v.addr (if v.deleted then none else some (dl v)) := by
  funext a; unfold vdOf updM; rw [hs, get_put]
  by_cases h : a = v.addr
  · simp only [h, if_true]; split <;> rfl
  · simp only [h, if_false]

theorem undoA_spec (s : St) (e : AE) (r : List AE) (h : s.aj = e :: r) :
    avOf (undoA s) = undoAv (avOf s) e ∧ (undoA s).aj = r ∧ (undoA s).vals = s.vals ∧ (undoA s).vj = s.vj ∧
    (undoA s).revs = s.revs := by
  unfold undoA
  rw [h]
  cases e with
  | mk a =>
    refine ⟨?_, rfl, rfl, rfl, rfl⟩
    funext x; simp only [avOf, undoAv, updM]; rw [getAcct_erase]; split <;> simp
  | dlgs a prev =>
    simp only
    cases hg : getAcct s.accts a with
    | none =>
      refine ⟨?_, rfl, rfl, rfl, rfl⟩
      simp only [undoAv]
      have : avOf s a = none := by simp [avOf, hg]
      rw [this]; simp only [Option.map_none]
      rw [← this, updM_self]; rfl
    | some x =>
      refine ⟨?_, rfl, rfl, rfl, rfl⟩
      have hxa := getAcct_addr hg
      funext y; simp only [avOf, undoAv, updM]; rw [getAcct_putAcct]
      simp only [hxa]
      by_cases hy : y = a
      · simp [hy, hg]
      · simp [hy]
  | bal a prev =>
    simp only
    cases hg : getAcct s.accts a with
    | none => exact ⟨rfl, rfl, rfl, rfl, rfl⟩
    | some x =>
      refine ⟨?_, rfl, rfl, rfl, rfl⟩
      have hxa := getAcct_addr hg
      funext y; simp only [avOf, undoAv]; rw [getAcct_putAcct]
      simp only [hxa]
      by_cases hy : y = a
      · simp [hy, hg]
      · simp [hy]

theorem undoV_spec (s : St) (e : JE) (r : List JE) (h : s.vj = e :: r) :
    vdOf (undoV s) = undoVd (vdOf s) e ∧ (undoV s).vj = r ∧ (undoV s).accts = s.accts ∧ (undoV s).aj = s.aj ∧
    (undoV s).revs = s.revs := by
  unfold undoV
  rw [h]
  cases e with
  | create a =>
    simp only
    cases hg : getRaw s.vals a with
    | none =>
      refine ⟨?_, rfl, rfl, rfl, rfl⟩
      simp only [undoVd]
      have : vdOf s a = none := by simp [vdOf, get, hg]
      rw [← this, updM_self]; rfl
    | some v =>
      refine ⟨?_, rfl, rfl, rfl, rfl⟩
      funext x; simp only [vdOf, undoVd, updM]; rw [get_eraseV]; split <;> simp
  | update old new =>
    refine ⟨?_, rfl, rfl, rfl, rfl⟩
    simp only [undoVd]
    exact vdOf_put s.vals old _ rfl
  | delete old =>
    refine ⟨?_, rfl, rfl, rfl, rfl⟩
    simp only [undoVd]
    exact vdOf_put s.vals old _ rfl
  | ubd op nonce => exact ⟨rfl, rfl, rfl, rfl, rfl⟩

theorem undoATo_spec (n : Nat) : ∀ (fuel : Nat) (s : St), s.aj.length ≤ fuel →
    ((undoATo n fuel s).aj, avOf (undoATo n fuel s)) = restA n s.aj (avOf s) ∧ (undoATo n fuel s).vals = s.vals ∧
    (undoATo n fuel s).vj = s.vj ∧ (undoATo n fuel s).revs = s.revs := by
  intro fuel
  induction fuel with
  | zero =>
    intro s hf
    have hj : s.aj = [] := List.eq_nil_of_length_eq_zero (by omega)
    have e : undoATo n 0 s = s := rfl
    rw [e, hj]; exact ⟨rfl, rfl, rfl, rfl⟩
  | succ f ih =>
    intro s hf
    by_cases hle : s.aj.length ≤ n
    · have e : undoATo n (f + 1) s = s := by simp only [undoATo, hle, if_true]
      rw [e]
      have hr : restA n s.aj (avOf s) = (s.aj, avOf s) := by
        cases hj : s.aj with
        | nil => rfl
        | cons e0 r => rw [hj] at hle; simp only [restA, hle, if_true]
      rw [hr]; exact ⟨rfl, rfl, rfl, rfl⟩
    · have e : undoATo n (f + 1) s = undoATo n f (undoA s) := by simp only [undoATo, hle, if_false]
      rw [e]
      cases hj : s.aj with
      | nil => rw [hj] at hle; simp at hle
      | cons e0 r =>
        obtain ⟨e1, e2, e3, e4, e5⟩ := undoA_spec s e0 r hj
        have hle' : ¬ (e0 :: r).length ≤ n := by rw [hj] at hle; exact hle
        have hr : restA n (e0 :: r) (avOf s) = restA n r (undoAv (avOf s) e0) := by
          simp only [restA, hle', if_false]
        have := ih (undoA s) (by rw [e2]; rw [hj] at hf; simp at hf; omega)
        rw [e1, e2] at this
        rw [hr]
        exact ⟨this.1, this.2.1.trans e3, this.2.2.1.trans e4, this.2.2.2.trans e5⟩

theorem undoVTo_spec (n : Nat) : ∀ (fuel : Nat) (s : St), s.vj.length ≤ fuel →
    ((undoVTo n fuel s).vj, vdOf (undoVTo n fuel s)) = restV n s.vj (vdOf s) ∧ (undoVTo n fuel s).accts = s.accts ∧
    (undoVTo n fuel s).aj = s.aj ∧ (undoVTo n fuel s).revs = s.revs := by
  intro fuel
  induction fuel with
  | zero =>
    intro s hf
    have hj : s.vj = [] := List.eq_nil_of_length_eq_zero (by omega)
    have e : undoVTo n 0 s = s := rfl
    rw [e, hj]; exact ⟨rfl, rfl, rfl, rfl⟩
  | succ f ih =>
    intro s hf
    by_cases hle : s.vj.length ≤ n
    · have e : undoVTo n (f + 1) s = s := by simp only [undoVTo, hle, if_true]
      rw [e]
      have hr : restV n s.vj (vdOf s) = (s.vj, vdOf s) := by
        cases hj : s.vj with
        | nil => rfl
        | cons e0 r => rw [hj] at hle; simp only [restV, hle, if_true]
      rw [hr]; exact ⟨rfl, rfl, rfl, rfl⟩
    · have e : undoVTo n (f + 1) s = undoVTo n f (undoV s) := by simp only [undoVTo, hle, if_false]
      rw [e]
      cases hj : s.vj with
      | nil => rw [hj] at hle; simp at hle
      | cons e0 r =>
        obtain ⟨e1, e2, e3, e4, e5⟩ := undoV_spec s e0 r hj
        have hle' : ¬ (e0 :: r).length ≤ n := by rw [hj] at hle; exact hle
        have hr : restV n (e0 :: r) (vdOf s) = restV n r (undoVd (vdOf s) e0) := by
          simp only [restV, hle', if_false]
        have := ih (undoV s) (by rw [e2]; rw [hj] at hf; simp at hf; omega)
        rw [e1, e2] at this
        rw [hr]
        exact ⟨this.1, this.2.1.trans e3, this.2.2.1.trans e4, this.2.2.2.trans e5⟩

/-! ### composition of restores -/

theorem restA_comp (n' n : Nat) (h : n' ≤ n) : ∀ (aj : List AE) (av : LMap),
    restA n' (restA n aj av).1 (restA n aj av).2 = restA n' aj av := by
  intro aj
  induction aj with
  | nil => intro av; rfl
  | cons e r ih =>
    intro av
    by_cases hle : (e :: r).length ≤ n
    · simp only [restA, hle, if_true]
    · have hle' : ¬ (e :: r).length ≤ n' := by omega
      simp only [restA, hle, hle', if_false]
      exact ih _

theorem restV_comp (n' n : Nat) (h : n' ≤ n) : ∀ (vj : List JE) (vd : LMap),
    restV n' (restV n vj vd).1 (restV n vj vd).2 = restV n' vj vd := by
  intro vj
  induction vj with
  | nil => intro vd; rfl
  | cons e r ih =>
    intro vd
    by_cases hle : (e :: r).length ≤ n
    · simp only [restV, hle, if_true]
    · have hle' : ¬ (e :: r).length ≤ n' := by omega
      simp only [restV, hle, hle', if_false]
      exact ih _

theorem restA_len (n : Nat) : ∀ (aj : List AE) (av : LMap), n ≤ aj.length → (restA n aj av).1.length = n := by
  intro aj
  induction aj with
  | nil => intro av h; simp at h; simp [restA, h]
  | cons e r ih =>
    intro av h
    by_cases hle : (e :: r).length ≤ n
    · simp only [restA, hle, if_true]; omega
    · simp only [restA, hle, if_false]
      exact ih _ (by simp at hle h; omega)

theorem restV_len (n : Nat) : ∀ (vj : List JE) (vd : LMap), n ≤ vj.length → (restV n vj vd).1.length = n := by
  intro vj
  induction vj with
  | nil => intro vd h; simp at h; simp [restV, h]
  | cons e r ih =>
    intro vd h
    by_cases hle : (e :: r).length ≤ n
    · simp only [restV, hle, if_true]; omega
    · simp only [restV, hle, if_false]
      exact ih _ (by simp at hle h; omega)

end YouVerif.C08
