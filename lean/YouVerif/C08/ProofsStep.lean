/-
C08 — `Inv` is preserved by undo, Finalise, the flush, reload, Copy, and by every operation of `step`.
-/
import YouVerif.C08.ProofsInv

namespace YouVerif.C08

theorem visKey_put_del (l : List Val) (v : Val) (hd : v.deleted = true) :
    visKey (put l v) = upd (visKey l) v.addr none := by
  funext a; unfold visKey upd; rw [get_put]; split <;> simp [hd]

/-! ### undo -/

theorem Inv.undoV {s : St} (h : Inv s) : Inv (YouVerif.C08.undoV s) := by
  unfold YouVerif.C08.undoV
  cases hvj : s.vj with
  | nil => simp only; exact h
  | cons e r =>
    have hjk := h.jk
    rw [hvj] at hjk
    simp only [List.map_cons, JK] at hjk
    have hjok : ∀ e' ∈ r, JOk e' := fun e' he' => h.jok e' (by rw [hvj]; exact List.mem_cons_of_mem _ he')
    have hjaddr : ∀ e' ∈ r, ∀ a, e'.addr? = some a → LiveOk s.vals a :=
      fun e' he' => h.jaddrOk e' (by rw [hvj]; exact List.mem_cons_of_mem _ he')
    have he : JOk e := h.jok e (by rw [hvj]; exact List.mem_cons_self)
    cases e with
    | create a =>
      have hl : LiveOk s.vals a := h.jaddrOk (.create a) (by rw [hvj]; exact List.mem_cons_self) a rfl
      cases hg : getRaw s.vals a with
      | none =>
        simp only [hg]
        have hkv : visKey s.vals a = none := by simp [visKey, get, hg]
        have : undoK (abs s) (absJ (.create a)) = abs s := by simp [undoK, absJ, abs, hkv]
        rw [this] at hjk
        exact ⟨hjk.2, hjok, h.dirtyOk, hjaddr, h.dirtySorted, h.nodup⟩
      | some v =>
        simp only [hg]
        have hvd := hl v hg
        have hkv : visKey s.vals a = some v.key := by simp [visKey, get, hg, hvd]
        have : undoK (abs s) (absJ (.create a)) = ⟨decrK s.stats v.key, eraseA s.index a, visKey (eraseV s.vals a)⟩ := by
          simp [undoK, absJ, abs, hkv, visKey_eraseV]
        rw [this] at hjk
        exact ⟨hjk.2, hjok, fun b hb => LiveOk_eraseV (fun _ => h.dirtyOk b hb),
               fun e' he' b hb => LiveOk_eraseV (fun _ => hjaddr e' he' b hb), h.dirtySorted, h.nodup.eraseV a⟩
    | update old new =>
      simp only
      obtain ⟨hdo, _, haddr⟩ := he
      have : undoK (abs s) (absJ (.update old new))
          = ⟨if new.stakeEqual old then s.stats else incrK (decrK s.stats new.key) old.key, insertS old.addr s.index,
             visKey (put s.vals old)⟩ := by
        simp [undoK, absJ, visKey_put_vis _ _ hdo, abs, haddr]
      rw [this] at hjk
      exact ⟨hjk.2, hjok, fun b hb => LiveOk_put hdo (fun _ => h.dirtyOk b hb),
             fun e' he' b hb => LiveOk_put hdo (fun _ => hjaddr e' he' b hb), h.dirtySorted, h.nodup.put old⟩
    | delete old => exact absurd he (by simp [JOk])
    | ubd op nonce =>
      simp only
      have : undoK (abs s) (absJ (.ubd op nonce)) = abs s := rfl
      rw [this] at hjk
      exact ⟨hjk.2, hjok, h.dirtyOk, hjaddr, h.dirtySorted, h.nodup⟩

theorem Inv.undoVTo {n fuel : Nat} {s : St} (h : Inv s) : Inv (YouVerif.C08.undoVTo n fuel s) := by
  induction fuel generalizing s with
  | zero => exact h
  | succ f ih =>
    unfold YouVerif.C08.undoVTo
    split
    · exact h
    · exact ih h.undoV

theorem undoA_frame (s : St) : (undoA s).vals = s.vals ∧ (undoA s).index = s.index ∧ (undoA s).stats = s.stats ∧
    (undoA s).dirty = s.dirty ∧ (undoA s).vj = s.vj := by
  unfold undoA
  split
  · simp
  · simp
  · split <;> simp
  · split <;> simp

theorem Inv.undoATo {n fuel : Nat} {s : St} (h : Inv s) : Inv (YouVerif.C08.undoATo n fuel s) := by
  induction fuel generalizing s with
  | zero => exact h
  | succ f ih =>
    unfold YouVerif.C08.undoATo
    split
    · exact h
    · obtain ⟨e1, e2, e3, e4, e5⟩ := undoA_frame s
      exact ih (h.frame e1 e2 e3 e4 e5)

theorem Inv.revertTo {s s' : St} {id : Nat} (h : Inv s) (hr : YouVerif.C08.revertTo s id = some s') : Inv s' := by
  unfold YouVerif.C08.revertTo at hr
  split at hr
  · cases hr
  · cases hr
    exact (h.undoATo.undoVTo).frame rfl rfl rfl rfl rfl

/-! ### Finalise and the flush -/

theorem mem_addDirty {vals : List Val} {dirty : List Addr} {vj : List JE} {a : Addr} (h : a ∈ addDirty vals dirty vj) :
    a ∈ dirty ∨ ∃ e ∈ vj, e.addr? = some a := by
  induction vj with
  | nil => exact Or.inl h
  | cons e es ih =>
    unfold addDirty at h
    simp only at h
    cases hea : e.addr? with
    | none =>
      rw [hea] at h
      rcases ih h with h1 | ⟨e', he', h2⟩
      · exact Or.inl h1
      · exact Or.inr ⟨e', List.mem_cons_of_mem _ he', h2⟩
    | some b =>
      rw [hea] at h
      simp only at h
      split at h
      · rcases mem_insertS.mp h with rfl | h
        · exact Or.inr ⟨e, List.mem_cons_self, hea⟩
        · rcases ih h with h1 | ⟨e', he', h2⟩
          · exact Or.inl h1
          · exact Or.inr ⟨e', List.mem_cons_of_mem _ he', h2⟩
      · rcases ih h with h1 | ⟨e', he', h2⟩
        · exact Or.inl h1
        · exact Or.inr ⟨e', List.mem_cons_of_mem _ he', h2⟩

theorem addDirty_sorted {vals : List Val} {dirty : List Addr} {vj : List JE} (h : dirty.Pairwise (· < ·)) :
    (addDirty vals dirty vj).Pairwise (· < ·) := by
  induction vj with
  | nil => exact h
  | cons e es ih =>
    unfold addDirty
    simp only
    split
    · split
      · exact insertS_sorted ih
      · exact ih
    · exact ih

theorem Inv.addDirtyOk {s : St} (h : Inv s) : ∀ a ∈ addDirty s.vals s.dirty s.vj, LiveOk s.vals a := by
  intro a ha
  rcases mem_addDirty ha with h1 | ⟨e, he, h2⟩
  · exact h.dirtyOk a h1
  · exact h.jaddrOk e he a h2

theorem Inv.finalise {s : St} (h : Inv s) : Inv (YouVerif.C08.finalise s) := by
  unfold YouVerif.C08.finalise
  refine ⟨?_, ?_, h.addDirtyOk, ?_, addDirty_sorted h.dirtySorted, h.nodup⟩
  · exact h.base
  · intro e he; cases he
  · intro e he; cases he

theorem flush1_spec (de : Bool) {s : St} {a : Addr} (hb : BaseK (abs s)) (hl : LiveOk s.vals a) (hnd : VNodup s.vals) :
    BaseK (abs (flush1 de s a)) ∧ (flush1 de s a).vj = s.vj ∧
    (∀ b, b ≠ a → LiveOk s.vals b → LiveOk (flush1 de s a).vals b) ∧ VNodup (flush1 de s a).vals := by
  unfold flush1
  cases hg : getRaw s.vals a with
  | none => exact ⟨hb, rfl, fun _ _ h => h, hnd⟩
  | some v =>
    simp only
    have hvd := hl v hg
    have hva := getRaw_addr hg
    subst hva
    have hkv : (abs s).kv v.addr = some v.key := by simp [abs, visKey, get, hg, hvd]
    by_cases hc : (v.deleted || (de && v.invalid)) = true
    · simp only [hc, if_true]
      refine ⟨?_, by simp, ?_, hnd.put _⟩
      · have e : abs { s with vals := put s.vals { v with deleted := true }, index := eraseA s.index v.addr, stats := decrK s.stats v.key }
            = ⟨decrK (abs s).stats v.key, eraseA (abs s).index v.addr, upd (abs s).kv v.addr none⟩ := by
          have := visKey_put_del s.vals { v with deleted := true } rfl
          simp [abs, this]
        rw [e]; exact hb.remove hkv
      · intro b hba hlb w hw
        rw [getRaw_put] at hw
        rw [if_neg hba] at hw
        exact hlb w hw
    · simp only [hc, if_false, Bool.false_eq_true]
      refine ⟨?_, by simp, fun _ _ h => h, hnd⟩
      have ha : v.addr ∈ s.index := (hb.dom v.addr).mpr (by simp [hkv])
      have : insertS v.addr s.index = s.index := insertS_of_mem hb.sorted ha
      simp only [abs, this]
      exact hb

theorem flush_fold (de : Bool) (l : List Addr) : ∀ (s : St), l.Nodup → BaseK (abs s) → (∀ a ∈ l, LiveOk s.vals a) →
    VNodup s.vals →
    BaseK (abs (l.foldl (flush1 de) s)) ∧ (l.foldl (flush1 de) s).vj = s.vj ∧ VNodup (l.foldl (flush1 de) s).vals := by
  induction l with
  | nil => intro s _ hb _ hnd; exact ⟨hb, rfl, hnd⟩
  | cons a l ih =>
    intro s hn hb hl hnd
    have hnc := List.nodup_cons.mp hn
    obtain ⟨h1, h2, h3, h4⟩ := flush1_spec de hb (hl a List.mem_cons_self) hnd
    have := ih (flush1 de s a) hnc.2 h1 (fun b hbm => h3 b (fun e => hnc.1 (e ▸ hbm)) (hl b (List.mem_cons_of_mem _ hbm))) h4
    simp only [List.foldl_cons]
    exact ⟨this.1, this.2.1.trans h2, this.2.2⟩

theorem Inv.iroot {s : St} (de : Bool) (h : Inv s) : Inv (YouVerif.C08.iroot de s) := by
  unfold YouVerif.C08.iroot
  have hf := h.finalise
  have hfold := flush_fold de (YouVerif.C08.finalise s).dirty (YouVerif.C08.finalise s) (sorted_nodup hf.dirtySorted) hf.base hf.dirtyOk hf.nodup
  have hvj : (YouVerif.C08.finalise s).vj = [] := rfl
  simp only
  refine ⟨?_, ?_, ?_, ?_, ?_, hfold.2.2⟩
  · have e : ({ (List.foldl (flush1 de) (YouVerif.C08.finalise s) (YouVerif.C08.finalise s).dirty) with dirty := [] } : St).vj = [] := by
      simp [hfold.2.1, hvj]
    rw [e]; exact hfold.1
  · intro e he
    have : ({ (List.foldl (flush1 de) (YouVerif.C08.finalise s) (YouVerif.C08.finalise s).dirty) with dirty := [] } : St).vj = [] := by
      simp [hfold.2.1, hvj]
    rw [this] at he; cases he
  · intro a ha; cases ha
  · intro e he
    have : ({ (List.foldl (flush1 de) (YouVerif.C08.finalise s) (YouVerif.C08.finalise s).dirty) with dirty := [] } : St).vj = [] := by
      simp [hfold.2.1, hvj]
    rw [this] at he; cases he
  · exact List.Pairwise.nil

theorem iroot_vj (de : Bool) (s : St) (h : Inv s) : (YouVerif.C08.iroot de s).vj = [] := by
  unfold YouVerif.C08.iroot
  have hf := h.finalise
  have hfold := flush_fold de (YouVerif.C08.finalise s).dirty (YouVerif.C08.finalise s) (sorted_nodup hf.dirtySorted) hf.base hf.dirtyOk hf.nodup
  simp [hfold.2.1]; rfl

end YouVerif.C08
