/-
C08 — `Inv` is preserved by reload, Copy and every operation of `step` (under the call discipline `OpOk`
and non-negative visible totals in the resulting state).
-/
import YouVerif.C08.ProofsStep

namespace YouVerif.C08

/-- every visible record has non-negative totals -/
def NonNeg (s : St) : Prop := ∀ a v, get s.vals a = some v → v.key.nonneg

/-- what the real callers guarantee about a call -/
def OpOk (s : St) : Op → Prop
  | .remove _ => False            -- RemoveValidator has no caller
  | .updStale a _ _ g y => ∀ cur, get s.vals a = some cur → (cur.set g y).key = cur.key
  | _ => True

theorem LiveOk_filter {l : List Val} (hn : VNodup l) (p : Val → Bool) {a : Addr} (h : LiveOk l a) : LiveOk (l.filter p) a := by
  intro v hv
  rw [getRaw_filter hn] at hv
  cases hg : getRaw l a with
  | none => simp [hg] at hv
  | some w =>
    simp only [hg, Option.bind_some] at hv
    by_cases hp : p w = true
    · simp only [hp, if_true] at hv; cases hv; exact h _ hg
    · simp [hp] at hv

theorem Inv.filterVals {s : St} (h : Inv s) (p : Val → Bool) (hp : ∀ v, v.deleted = false → p v = true) :
    Inv { s with vals := s.vals.filter p } := by
  have ea : abs { s with vals := s.vals.filter p } = abs s := by
    simp [abs, visKey_filter h.nodup p hp]
  exact ⟨by rw [ea]; exact h.jk, h.jok, fun a ha => LiveOk_filter h.nodup p (h.dirtyOk a ha),
         fun e he a hea => LiveOk_filter h.nodup p (h.jaddrOk e he a hea), h.dirtySorted, h.nodup.filter p⟩

theorem Inv.reload {s : St} (de : Bool) (h : Inv s) : Inv (YouVerif.C08.reload de s) := by
  unfold YouVerif.C08.reload
  have h1 := (h.iroot de).filterVals (fun v => !v.deleted) (by intro v hv; simp [hv])
  exact h1.frame rfl rfl rfl rfl rfl

theorem Inv.copy {s : St} (h : Inv s) : Inv (YouVerif.C08.copy s) := by
  unfold YouVerif.C08.copy
  simp only
  have h1 := h.filterVals (fun v => !v.deleted || (addDirty s.vals s.dirty s.vj).contains v.addr) (by intro v hv; simp [hv])
  refine ⟨?_, ?_, ?_, ?_, ?_, h1.nodup⟩
  · exact h1.base
  · intro e he; cases he
  · intro a ha
    have ha' : a ∈ addDirty s.vals s.dirty s.vj := (List.mem_filter.mp ha).1
    exact LiveOk_filter h.nodup _ (h.addDirtyOk a ha')
  · intro e he; cases he
  · exact List.Pairwise.filter _ (addDirty_sorted h.dirtySorted)

/-! ### frames -/

theorem ensureAcct_frame (s : St) (d : Addr) : (ensureAcct s d).vals = s.vals ∧ (ensureAcct s d).index = s.index ∧
    (ensureAcct s d).stats = s.stats ∧ (ensureAcct s d).dirty = s.dirty ∧ (ensureAcct s d).vj = s.vj := by
  unfold ensureAcct; split <;> simp

theorem updateDelegator_frame (s : St) (d v : Addr) (delta : Int) (del : Bool) :
    (updateDelegator s d v delta del).vals = s.vals ∧ (updateDelegator s d v delta del).index = s.index ∧
    (updateDelegator s d v delta del).stats = s.stats ∧ (updateDelegator s d v delta del).dirty = s.dirty ∧
    (updateDelegator s d v delta del).vj = s.vj := by
  unfold updateDelegator; split <;> simp

theorem Inv.ensureAcct {s : St} (h : Inv s) (d : Addr) : Inv (YouVerif.C08.ensureAcct s d) := by
  obtain ⟨e1, e2, e3, e4, e5⟩ := ensureAcct_frame s d; exact h.frame e1 e2 e3 e4 e5

theorem Inv.updateDelegator {s : St} (h : Inv s) (d v : Addr) (delta : Int) (del : Bool) :
    Inv (YouVerif.C08.updateDelegator s d v delta del) := by
  obtain ⟨e1, e2, e3, e4, e5⟩ := updateDelegator_frame s d v delta del; exact h.frame e1 e2 e3 e4 e5

/-! ### updates of the stored record -/

theorem get_facts {l : List Val} {a : Addr} {cur : Val} (h : get l a = some cur) : cur.addr = a ∧ cur.deleted = false := by
  have := get_some.mp h
  exact ⟨getRaw_addr this.1, this.2⟩

theorem Inv.updCur {s : St} (h : Inv s) {a : Addr} {cur nv old : Val} (hg : get s.vals a = some cur)
    (hold : old.key = cur.key) (hoa : old.addr = a) (hod : old.deleted = false) (hna : nv.addr = a)
    (hnd : nv.deleted = false) (hk : nv.key.nonneg) : Inv (updateValidator s nv old).1 :=
  h.update (cur := cur) (by rw [hoa]; exact hg) hold (by rw [hna, hoa]) hod hnd hk

theorem updateValidator_vals {s : St} {nv old : Val} (ha : nv.addr = old.addr) :
    (updateValidator s nv old).1.vals = put s.vals nv := by
  unfold updateValidator; simp [ha]

theorem nn_put {l : List Val} {nv : Val} (hnd : nv.deleted = false)
    (H : ∀ a v, get (put l nv) a = some v → v.key.nonneg) : nv.key.nonneg :=
  H nv.addr nv (by rw [get_put]; simp [hnd])

theorem set_addr (v : Val) (f : Field) (x : Int) : (v.set f x).addr = v.addr := by cases f <;> rfl
theorem set_deleted (v : Val) (f : Field) (x : Int) : (v.set f x).deleted = v.deleted := by cases f <;> rfl

theorem get_after_upd (s : St) (nv old : Val) (d v : Addr) (delta : Int) (del : Bool) (ha : nv.addr = old.addr)
    (hd : nv.deleted = false) :
    get (updateDelegator (updateValidator s nv old).1 d v delta del).vals old.addr = some nv := by
  rw [(updateDelegator_frame _ _ _ _ _).1, updateValidator_vals ha, get_put]
  simp [ha, hd]

/-- `UpdateDelegation`: one `UpdateValidator` on the stored record plus account bookkeeping -/
theorem updateDelegation_spec (c : Cfg) {s : St} (h : Inv s) (d : Addr) {val : Val} (delta : Int)
    (hg : get s.vals val.addr = some val) :
    (updateDelegation c s d val delta).2.1.addr = val.addr ∧ (updateDelegation c s d val delta).2.1.deleted = false ∧
    get (updateDelegation c s d val delta).1.vals val.addr = some (updateDelegation c s d val delta).2.1 ∧
    ((updateDelegation c s d val delta).2.1.key.nonneg → Inv (updateDelegation c s d val delta).1) := by
  have hf := get_facts hg
  unfold updateDelegation
  by_cases h0 : (delta == 0) = true
  · simp only [h0, if_true]; exact ⟨trivial, hf.2, hg, fun _ => h⟩
  · simp only [h0, if_false, Bool.false_eq_true]
    by_cases h1 : ((findDlg val.dlgs d).isNone && decide (delta < 0)) = true
    · simp only [h1, if_true]; exact ⟨trivial, hf.2, hg, fun _ => h⟩
    · simp only [h1, if_false, Bool.false_eq_true]
      refine ⟨rfl, hf.2, ?_, ?_⟩
      · exact get_after_upd _ _ _ _ _ _ _ rfl hf.2
      · intro hk
        apply Inv.updateDelegator
        refine Inv.updCur h hg ?_ ?_ ?_ ?_ ?_ ?_
        · rfl
        · rfl
        · exact hf.2
        · rfl
        · exact hf.2
        · exact hk

end YouVerif.C08
