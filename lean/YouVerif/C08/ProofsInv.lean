/-
C08 — the concrete model refines the key-level machine of ProofsK: abstraction `abs`, journal discipline,
invariant `Inv`, and its preservation by every primitive of the model.
-/
import YouVerif.C08.ProofsK

namespace YouVerif.C08

/-! ### association-list lemmas -/

theorem getRaw_put (l : List Val) (v : Val) (a : Addr) :
    getRaw (put l v) a = if a = v.addr then some v else getRaw l a := by
  unfold getRaw put
  by_cases h : a = v.addr
  · subst h; simp
  · have h' : ¬ v.addr = a := fun e => h e.symm
    simp only [h, if_false, List.find?_cons]
    have : (v.addr == a) = false := by simpa using h'
    simp only [this]
    induction l with
    | nil => rfl
    | cons w l ih =>
      simp only [List.filter_cons]
      by_cases hw : w.addr = v.addr
      · have e1 : (w.addr != v.addr) = false := by simp [hw]
        have e2 : (w.addr == a) = false := by simp [hw, h']
        simp only [e1, List.find?_cons, e2]; exact ih
      · have e1 : (w.addr != v.addr) = true := by simp [hw]
        simp only [e1, if_true, List.find?_cons]
        cases (w.addr == a) <;> simp [ih]

theorem getRaw_eraseV (l : List Val) (a0 a : Addr) :
    getRaw (eraseV l a0) a = if a = a0 then none else getRaw l a := by
  unfold getRaw eraseV
  induction l with
  | nil => simp
  | cons w l ih =>
    simp only [List.filter_cons]
    by_cases hw : w.addr = a0
    · have e1 : (w.addr != a0) = false := by simp [hw]
      simp only [e1, List.find?_cons]
      by_cases h : a = a0
      · simp [h] at ih ⊢; try exact ih
      · have e2 : (w.addr == a) = false := by simp [hw]; exact fun e => h e.symm
        simp only [e2]; exact ih
    · have e1 : (w.addr != a0) = true := by simp [hw]
      simp only [e1, if_true, List.find?_cons]
      by_cases hwa : w.addr = a
      · have e2 : (w.addr == a) = true := by simp [hwa]
        have : ¬ a = a0 := fun e => hw (hwa.trans e)
        simp [e2, this]
      · have e2 : (w.addr == a) = false := by simp [hwa]
        simp only [e2]; exact ih

theorem getRaw_addr {l : List Val} {a : Addr} {v : Val} (h : getRaw l a = some v) : v.addr = a := by
  unfold getRaw at h
  have := List.find?_some h
  simpa using this

def visKey (l : List Val) (a : Addr) : Option Key := (get l a).map Val.key

theorem get_eq {l : List Val} {a : Addr} : get l a = (getRaw l a).bind (fun v => if v.deleted then none else some v) := by
  unfold get; cases getRaw l a <;> rfl

theorem get_some {l : List Val} {a : Addr} {v : Val} : get l a = some v ↔ getRaw l a = some v ∧ v.deleted = false := by
  unfold get
  cases h : getRaw l a with
  | none => simp
  | some w =>
    by_cases hd : w.deleted = true
    · simp only [hd, if_true]
      constructor
      · intro e; cases e
      · intro ⟨e, hv⟩; cases e; rw [hd] at hv; cases hv
    · have hd' : w.deleted = false := by simpa using hd
      simp only [hd', Bool.false_eq_true, if_false]
      constructor
      · intro e; cases e; exact ⟨rfl, hd'⟩
      · intro ⟨e, _⟩; exact e

theorem get_put (l : List Val) (v : Val) (a : Addr) :
    get (put l v) a = if a = v.addr then (if v.deleted then none else some v) else get l a := by
  unfold get; rw [getRaw_put]; by_cases h : a = v.addr <;> simp [h]

theorem get_eraseV (l : List Val) (a0 a : Addr) : get (eraseV l a0) a = if a = a0 then none else get l a := by
  unfold get; rw [getRaw_eraseV]; by_cases h : a = a0 <;> simp [h]

/-! ### unique addresses -/

def VNodup (l : List Val) : Prop := (l.map Val.addr).Nodup

theorem VNodup.filter {l : List Val} (h : VNodup l) (p : Val → Bool) : VNodup (l.filter p) :=
  List.Nodup.sublist ((List.filter_sublist (p := p) (l := l)).map Val.addr) h

theorem VNodup.put {l : List Val} (h : VNodup l) (v : Val) : VNodup (put l v) := by
  unfold VNodup YouVerif.C08.put
  simp only [List.map_cons]
  refine List.nodup_cons.mpr ⟨?_, h.filter _⟩
  intro hm
  obtain ⟨w, hw, hwa⟩ := List.mem_map.mp hm
  have := (List.mem_filter.mp hw).2
  simp [hwa] at this

theorem VNodup.eraseV {l : List Val} (h : VNodup l) (a : Addr) : VNodup (eraseV l a) := h.filter _

theorem getRaw_none_of_not_mem {l : List Val} {a : Addr} (h : a ∉ l.map Val.addr) : getRaw l a = none := by
  unfold getRaw
  apply List.find?_eq_none.mpr
  intro w hw hwa
  exact h (List.mem_map.mpr ⟨w, hw, by simpa using hwa⟩)

theorem getRaw_filter {l : List Val} (h : VNodup l) (p : Val → Bool) (a : Addr) :
    getRaw (l.filter p) a = (getRaw l a).bind (fun v => if p v then some v else none) := by
  induction l with
  | nil => rfl
  | cons w l ih =>
    have hn := List.nodup_cons.mp h
    by_cases hwa : w.addr = a
    · have e1 : getRaw (w :: l) a = some w := by simp [getRaw, hwa]
      rw [e1]
      by_cases hp : p w = true
      · simp [List.filter_cons, hp, getRaw, hwa]
      · have hp' : p w = false := by simpa using hp
        simp only [List.filter_cons, hp', Bool.false_eq_true, if_false, Option.bind_some]
        apply getRaw_none_of_not_mem
        intro hm
        obtain ⟨x, hx, hxa⟩ := List.mem_map.mp hm
        exact hn.1 (List.mem_map.mpr ⟨x, (List.mem_filter.mp hx).1, hxa.trans hwa.symm⟩)
    · have e1 : getRaw (w :: l) a = getRaw l a := by simp [getRaw, hwa]
      rw [e1, ← ih hn.2]
      by_cases hp : p w = true
      · simp [List.filter_cons, hp, getRaw, hwa]
      · have hp' : p w = false := by simpa using hp
        simp [List.filter_cons, hp']

/-- dropping entries that are not visible does not change what is visible -/
theorem visKey_filter {l : List Val} (h : VNodup l) (p : Val → Bool) (hp : ∀ v, v.deleted = false → p v = true) :
    visKey (l.filter p) = visKey l := by
  funext a
  unfold visKey get
  rw [getRaw_filter h]
  cases hg : getRaw l a with
  | none => rfl
  | some v =>
    by_cases hd : v.deleted = true
    · by_cases hpv : p v = true <;> simp [hd, hpv]
    · have hd' : v.deleted = false := by simpa using hd
      simp [hd', hp v hd']

/-! ### abstraction -/

def abs (s : St) : KS := ⟨s.stats, s.index, visKey s.vals⟩

def absJ : JE → KJ
  | .create a => .create a
  | .update old new => .update new.addr old.key new.key (new.stakeEqual old)
  | .delete _ => .other
  | .ubd _ _ => .other

/-- journal discipline of the operations the property quantifies over -/
def JOk : JE → Prop
  | .create _ => True
  | .update old new => old.deleted = false ∧ new.deleted = false ∧ old.addr = new.addr
  | .delete _ => False
  | .ubd _ _ => True

/-- an address is "clean-live": its live object, if any, is not flagged deleted -/
def LiveOk (vals : List Val) (a : Addr) : Prop := ∀ v, getRaw vals a = some v → v.deleted = false

structure Inv (s : St) : Prop where
  jk : JK (s.vj.map absJ) (abs s)
  jok : ∀ e ∈ s.vj, JOk e
  dirtyOk : ∀ a ∈ s.dirty, LiveOk s.vals a
  jaddrOk : ∀ e ∈ s.vj, ∀ a, e.addr? = some a → LiveOk s.vals a
  dirtySorted : s.dirty.Pairwise (· < ·)
  nodup : VNodup s.vals

theorem Inv.base {s : St} (h : Inv s) : BaseK (abs s) := h.jk.base

/-- `Inv` only reads these components -/
theorem Inv.frame {s s' : St} (h : Inv s) (e1 : s'.vals = s.vals) (e2 : s'.index = s.index) (e3 : s'.stats = s.stats)
    (e4 : s'.dirty = s.dirty) (e5 : s'.vj = s.vj) : Inv s' := by
  have ea : abs s' = abs s := by unfold abs; rw [e1, e2, e3]
  exact ⟨by rw [e5, ea]; exact h.jk, by rw [e5]; exact h.jok, by rw [e4, e1]; exact h.dirtyOk,
         by rw [e5, e1]; exact h.jaddrOk, by rw [e4]; exact h.dirtySorted, by rw [e1]; exact h.nodup⟩

theorem visKey_put_vis (l : List Val) (v : Val) (hd : v.deleted = false) :
    visKey (put l v) = upd (visKey l) v.addr (some v.key) := by
  funext a; unfold visKey upd; rw [get_put]; split <;> simp [hd]

theorem visKey_eraseV (l : List Val) (a0 : Addr) : visKey (eraseV l a0) = upd (visKey l) a0 none := by
  funext a; unfold visKey upd; rw [get_eraseV]; split <;> simp

theorem LiveOk_put {l : List Val} {v : Val} (hd : v.deleted = false) {a : Addr} (h : a ≠ v.addr → LiveOk l a) :
    LiveOk (put l v) a := by
  intro w hw
  rw [getRaw_put] at hw
  split at hw
  · cases hw; exact hd
  · rename_i hne; exact h hne w hw

theorem LiveOk_eraseV {l : List Val} {a0 a : Addr} (h : a ≠ a0 → LiveOk l a) : LiveOk (eraseV l a0) a := by
  intro w hw
  rw [getRaw_eraseV] at hw
  split at hw
  · cases hw
  · rename_i hne; exact h hne w hw

/-! ### forward steps -/

/-- `CreateValidator` on an address with no visible record -/
theorem Inv.create {s : St} (h : Inv s) {v : Val} (hv : get s.vals v.addr = none) (hd : v.deleted = false)
    (hk : v.key.nonneg) : Inv (createValidator s v).1 := by
  unfold createValidator; rw [hv]; simp only
  have hb := h.base
  have hkv : (abs s).kv v.addr = none := by simp [abs, visKey, hv]
  have habs : abs { s with vj := JE.create v.addr :: s.vj, vals := put s.vals v, index := insertS v.addr s.index,
                           stats := incrK s.stats v.key }
      = ⟨incrK (abs s).stats v.key, insertS v.addr (abs s).index, upd (abs s).kv v.addr (some v.key)⟩ := by
    simp [abs, visKey_put_vis _ _ hd]
  refine ⟨?_, ?_, ?_, ?_, h.dirtySorted, h.nodup.put v⟩
  · simp only [List.map_cons, absJ, JK]
    rw [habs]
    refine ⟨hb.create hkv hk, ?_⟩
    -- undoing the create gives the abstract state back
    have hna : v.addr ∉ (abs s).index := fun hm => by have := (hb.dom _).mp hm; simp [hkv] at this
    have e : undoK ⟨incrK (abs s).stats v.key, insertS v.addr (abs s).index, upd (abs s).kv v.addr (some v.key)⟩ (.create v.addr)
        = abs s := by
      simp only [undoK, upd_same]
      have e1 : decrK (incrK (abs s).stats v.key) v.key = (abs s).stats := by
        rw [hb.stats]; exact decrK_incrK (summK_wf (fun k hk' => by
          obtain ⟨x, _, hx⟩ := List.mem_filterMap.mp hk'; exact hb.nonneg x k hx)) hk
      have e2 : eraseA (insertS v.addr (abs s).index) v.addr = (abs s).index := by
        have hs1 := eraseA_sorted (a := v.addr) (insertS_sorted (a := v.addr) hb.sorted)
        apply List.Perm.eq_of_pairwise (le := (· < ·)) _ hs1 hb.sorted
        · apply (List.perm_ext_iff_of_nodup (sorted_nodup hs1) (sorted_nodup hb.sorted)).mpr
          intro x
          simp only [mem_eraseA, mem_insertS]
          constructor
          · rintro ⟨h1 | h1, h2⟩
            · exact absurd h1 h2
            · exact h1
          · intro hx; exact ⟨Or.inr hx, fun e => hna (e ▸ hx)⟩
        · intro x y _ _ hxy hyx; exact absurd hxy (Nat.lt_asymm hyx)
      have e3 : upd (upd (abs s).kv v.addr (some v.key)) v.addr none = (abs s).kv := by
        funext x; unfold upd; split
        · rename_i hx; rw [hx, hkv]
        · rfl
      rw [e1, e2, e3]
    rw [e]; exact h.jk
  · intro e he
    rcases List.mem_cons.mp he with rfl | he
    · trivial
    · exact h.jok e he
  · intro a ha
    exact LiveOk_put hd (fun _ => h.dirtyOk a ha)
  · intro e he a hea
    rcases List.mem_cons.mp he with rfl | he
    · simp [JE.addr?] at hea; subst hea
      exact LiveOk_put hd (fun hne => absurd rfl hne)
    · exact LiveOk_put hd (fun _ => h.jaddrOk e he a hea)

theorem stakeEqual_key {a b : Val} (h : a.stakeEqual b = true) : a.key = b.key := by
  unfold Val.stakeEqual at h
  simp only [Bool.and_eq_true, beq_iff_eq] at h
  obtain ⟨⟨⟨h1, h2⟩, h3⟩, h4⟩ := h
  unfold Val.key; simp [h1, h2, h3, h4]

/-- `UpdateValidator(new, old)` where `old` agrees with the stored visible record on the statistics key -/
theorem Inv.update {s : St} (h : Inv s) {nv old cur : Val} (hcur : get s.vals old.addr = some cur)
    (hkey : old.key = cur.key) (haddr : nv.addr = old.addr) (hdo : old.deleted = false) (hdn : nv.deleted = false)
    (hk : nv.key.nonneg) : Inv (updateValidator s nv old).1 := by
  unfold updateValidator
  have hne : (nv.addr != old.addr) = false := by simp [haddr]
  simp only [hne, Bool.false_eq_true, if_false]
  have hb := h.base
  have hkv : (abs s).kv nv.addr = some old.key := by simp [abs, visKey, haddr, hcur, hkey]
  have hok : old.key.nonneg := hb.nonneg _ _ hkv
  have habs : abs { s with vals := put s.vals nv, index := insertS nv.addr s.index, vj := JE.update old nv :: s.vj,
                           stats := if nv.stakeEqual old then s.stats else incrK (decrK s.stats old.key) nv.key }
      = ⟨if nv.stakeEqual old then (abs s).stats else incrK (decrK (abs s).stats old.key) nv.key,
         insertS nv.addr (abs s).index, upd (abs s).kv nv.addr (some nv.key)⟩ := by
    simp [abs, visKey_put_vis _ _ hdn]
  have hbase' : BaseK ⟨if nv.stakeEqual old then (abs s).stats else incrK (decrK (abs s).stats old.key) nv.key,
         insertS nv.addr (abs s).index, upd (abs s).kv nv.addr (some nv.key)⟩ := by
    by_cases heq : nv.stakeEqual old = true
    · simp only [heq, if_true]
      have := stakeEqual_key heq
      rw [this]
      exact hb.update_same hkv
    · simp only [heq, if_false]
      exact hb.update hkv hk
  have ha : nv.addr ∈ (abs s).index := (hb.dom _).mpr (by simp [hkv])
  refine ⟨?_, ?_, ?_, ?_, h.dirtySorted, h.nodup.put nv⟩
  · simp only [List.map_cons, absJ, JK]
    rw [habs]
    refine ⟨hbase', ?_⟩
    have e : undoK ⟨if nv.stakeEqual old then (abs s).stats else incrK (decrK (abs s).stats old.key) nv.key,
         insertS nv.addr (abs s).index, upd (abs s).kv nv.addr (some nv.key)⟩ (.update nv.addr old.key nv.key (nv.stakeEqual old))
        = abs s := by
      simp only [undoK]
      have e2 : insertS nv.addr (insertS nv.addr (abs s).index) = (abs s).index := by
        rw [insertS_of_mem hb.sorted ha, insertS_of_mem hb.sorted ha]
      have e3 : upd (upd (abs s).kv nv.addr (some nv.key)) nv.addr (some old.key) = (abs s).kv := by
        funext x; unfold upd; split
        · rename_i hx; rw [hx, hkv]
        · rfl
      have e1 : (if nv.stakeEqual old then (if nv.stakeEqual old then (abs s).stats else incrK (decrK (abs s).stats old.key) nv.key)
                 else incrK (decrK (if nv.stakeEqual old then (abs s).stats else incrK (decrK (abs s).stats old.key) nv.key) nv.key) old.key)
          = (abs s).stats := by
        by_cases heq : nv.stakeEqual old = true
        · simp [heq]
        · simp only [if_neg heq]
          exact hb.roundtrip hkv hk
      rw [e1, e2, e3]
    rw [e]; exact h.jk
  · intro e he
    rcases List.mem_cons.mp he with rfl | he
    · exact ⟨hdo, hdn, haddr.symm⟩
    · exact h.jok e he
  · intro a ha
    exact LiveOk_put hdn (fun _ => h.dirtyOk a ha)
  · intro e he a hea
    rcases List.mem_cons.mp he with rfl | he
    · simp [JE.addr?] at hea; subst hea
      exact LiveOk_put hdn (fun hne => absurd rfl hne)
    · exact LiveOk_put hdn (fun _ => h.jaddrOk e he a hea)

/-- pushing a withdraw-record entry -/
theorem Inv.pushUBD {s : St} (h : Inv s) (r : WRec) : Inv (YouVerif.C08.addUBD s r) := by
  unfold YouVerif.C08.addUBD
  refine ⟨?_, ?_, h.dirtyOk, ?_, h.dirtySorted, h.nodup⟩
  · simp only [List.map_cons, absJ, JK]
    exact ⟨h.base, h.jk⟩
  · intro e he
    rcases List.mem_cons.mp he with rfl | he
    · trivial
    · exact h.jok e he
  · intro e he a hea
    rcases List.mem_cons.mp he with rfl | he
    · simp [JE.addr?] at hea
    · exact h.jaddrOk e he a hea

end YouVerif.C08
