/-
C08 — handler-level operations (what the real callers do) keep the sums invariant, hence keep every visible total
non-negative, hence satisfy `Safe` by themselves.
-/
import YouVerif.C08.ProofsSumsInv

namespace YouVerif.C08

/-- fields no statistics and no sum depends on -/
def Field.plain : Field → Bool
  | .rewards | .expelled | .accept | .risk | .commission => true
  | _ => false

theorem Field.plain_sumFree {f : Field} (h : f.plain = true) : f.sumFree = true := by
  cases f <;> simp [Field.plain] at h <;> rfl

/-- Handler-level operations: what the callers in the tree do.
    * `create`: `teCreate`/genesis pass `stake = YOUToStake(token)`, `token ≥ 0`;
    * `upd`: a field outside the sums (role, status, rewards, expelled, …) — status changes, reward bookkeeping,
      recovery from expelling;
    * `updStale`: the stale `old` of the forced settlement differs in reward-like fields only;
    * `deposit`/`dadd`/`deleg`: transaction values are positive (`PreCheck`);
    * everything else unrestricted; `remove` (no caller) excluded. -/
def Op.hl (c : Cfg) : Op → Bool
  | .create _ _ _ token stake _ _ _ => decide (0 ≤ token) && stake == token / c.unit
  | .upd _ f _ => f.sumFree
  | .updStale _ f _ g _ => f.sumFree && g.plain
  | .remove _ => false
  | .deleg _ _ delta => decide (0 < delta)
  | .deposit _ value => decide (0 ≤ value)
  | .dadd _ _ value => decide (0 < value)
  | _ => true

theorem dsubAmt_le (c : Cfg) (val : Val) (df : Dlg) (value : Int) : dsubAmt c val df value ≤ df.token ∨ dsubAmt c val df value ≤ 0 := by
  unfold dsubAmt
  simp only
  by_cases h0 : (if value > df.token then df.token else value) ≤ 0
  · simp [h0]
  · simp only [h0, if_false]
    left
    have hle : (if value > df.token then df.token else value) ≤ df.token := by split <;> omega
    generalize (if value > df.token then df.token else value) = w0 at h0 hle ⊢
    split <;> split <;> omega

theorem updateDelegation_sinv (c : Cfg) {s : St} (h : SInv c.unit s) (d : Addr) {val : Val} {delta : Int}
    (hv : VWF c.unit val) (hsome : ∀ df, findDlg val.dlgs d = some df → 0 ≤ df.token + delta)
    (hnone : findDlg val.dlgs d = none → 0 ≤ delta) :
    SInv c.unit (updateDelegation c s d val delta).1 ∧ VWF c.unit (updateDelegation c s d val delta).2.1 := by
  unfold updateDelegation
  by_cases h0 : (delta == 0) = true
  · simp only [h0, if_true]; exact ⟨h, hv⟩
  · simp only [h0, if_false, Bool.false_eq_true]
    by_cases h1 : ((findDlg val.dlgs d).isNone && decide (delta < 0)) = true
    · simp only [h1, if_true]; exact ⟨h, hv⟩
    · simp only [h1, if_false, Bool.false_eq_true]
      have hne : delta ≠ 0 := by simpa using h0
      have hn' : findDlg val.dlgs d = none → 0 < delta := by
        intro hf; have := hnone hf; omega
      have hr := delegRec_vwf c hv d hne hsome hn'
      refine ⟨?_, hr⟩
      obtain ⟨e1, _, _, _, e5⟩ := updateDelegator_frame (updateValidator s (delegRec c val d delta).1 val).1 d val.addr delta
        (delegRec c val d delta).2.2
      exact (h.update hr hv).frame e1 e5

theorem step_sinv (c : Cfg) {s : St} (h : SInv c.unit s) (op : Op) (hop : op.hl c = true) : SInv c.unit (step c s op).1 := by
  cases op with
  | create a role status token stake accept commission risk =>
    simp only [Op.hl, Bool.and_eq_true, decide_eq_true_eq, beq_iff_eq] at hop
    by_cases hr : validRole role = true
    · have e : (step c s (.create a role status token stake accept commission risk)).1
          = (createValidator s (mkVal a role status token stake accept commission risk)).1 := by
        simp [step, hr]
      rw [e]; exact h.create (mkVal_vwf _ _ _ _ _ _ _ _ hop.1 hop.2)
    · have e : (step c s (.create a role status token stake accept commission risk)).1 = s := by
        simp only [step, hr]
        cases get s.vals a <;> rfl
      rw [e]; exact h
  | upd a f x =>
    simp only [Op.hl] at hop
    cases hg : get s.vals a with
    | none =>
      have e : (step c s (.upd a f x)).1 = s := by simp [step, hg]
      rw [e]; exact h
    | some old =>
      by_cases hc : (!(old.set f x).stakeEqual old && !(validRole (old.set f x).role && validRole old.role)) = true
      · have e : (step c s (.upd a f x)).1 = s := by simp only [step, hg, hc]; rfl
        rw [e]; exact h
      · have e : (step c s (.upd a f x)).1 = (updateValidator s (old.set f x) old).1 := by
          simp only [step, hg, hc]; rfl
        rw [e]; exact h.update (set_vwf (h.get hg) hop x) (h.get hg)
  | updStale a f x g y =>
    simp only [Op.hl, Bool.and_eq_true] at hop
    cases hg : get s.vals a with
    | none =>
      have e : (step c s (.updStale a f x g y)).1 = s := by simp [step, hg]
      rw [e]; exact h
    | some cur =>
      by_cases hc : (!(cur.set f x).stakeEqual (cur.set g y) && !(validRole (cur.set f x).role && validRole (cur.set g y).role)) = true
      · have e : (step c s (.updStale a f x g y)).1 = s := by simp only [step, hg, hc]; rfl
        rw [e]; exact h
      · have e : (step c s (.updStale a f x g y)).1 = (updateValidator s (cur.set f x) (cur.set g y)).1 := by
          simp only [step, hg, hc]; rfl
        rw [e]
        exact h.update (set_vwf (h.get hg) hop.1 x) (set_vwf (h.get hg) (Field.plain_sumFree hop.2) y)
  | remove a => simp [Op.hl] at hop
  | mkacct d =>
    obtain ⟨e1, _, _, _, e5⟩ := ensureAcct_frame s d
    exact h.frame e1 e5
  | deleg d a delta =>
    simp only [Op.hl, decide_eq_true_eq] at hop
    cases hg : get s.vals a with
    | none =>
      have e : (step c s (.deleg d a delta)).1 = s := by simp [step, hg]
      rw [e]; exact h
    | some val =>
      have e : (step c s (.deleg d a delta)).1 = (updateDelegation c s d val delta).1 := by simp [step, hg]
      rw [e]
      have hv := h.get hg
      exact (updateDelegation_sinv c h d hv (fun df hf => by
        have := hv.compPos df (findDlg_some hf).1; omega) (fun _ => by omega)).1
  | deposit a value =>
    simp only [Op.hl, decide_eq_true_eq] at hop
    show SInv c.unit (teDeposit c s a value).1
    generalize hres : teDeposit c s a value = res
    unfold teDeposit at hres
    split at hres
    · cases hres; exact h
    · rename_i old hg
      simp only at hres
      split at hres
      · cases hres; exact h
      · cases hres
        exact h.update (depositRec_vwf c (h.get hg) hop) (h.get hg)
  | withdraw a value op nonce =>
    show SInv c.unit (teWithdraw c s a value op nonce).1
    generalize hres : teWithdraw c s a value op nonce = res
    unfold teWithdraw at hres
    split at hres
    · cases hres; exact h
    · rename_i old hg
      simp only at hres
      cases hres
      exact (h.update (withdrawRec_vwf c (h.get hg) (withdrawAmt_le c old value)) (h.get hg)).pushUBD _
  | chstatus a status =>
    show SInv c.unit (teChangeStatus c s a status).1
    generalize hres : teChangeStatus c s a status = res
    unfold teChangeStatus at hres
    split at hres
    · cases hres; exact h
    · rename_i old hg
      split at hres
      · cases hres; exact h
      · cases hres
        exact h.update ((h.get hg).congr rfl rfl rfl rfl rfl) (h.get hg)
  | dadd d a value =>
    simp only [Op.hl, decide_eq_true_eq] at hop
    show SInv c.unit (teDelegationAdd c s d a value).1
    generalize hres : teDelegationAdd c s d a value = res
    unfold teDelegationAdd at hres
    split at hres
    · cases hres; exact h
    · rename_i val hg
      have hr : SInv c.unit (if c.v5 = true then ensureAcct s d else s) := by
        split
        · obtain ⟨e1, _, _, _, e5⟩ := ensureAcct_frame s d; exact h.frame e1 e5
        · exact h
      simp only at hres
      split at hres
      · cases hres; exact hr
      · split at hres
        · cases hres; exact hr
        · cases hres
          have hv := h.get hg
          exact (updateDelegation_sinv c h d hv (fun df hf => by
            have := hv.compPos df (findDlg_some hf).1; omega) (fun _ => by omega)).1
  | dsub d a value nonce =>
    show SInv c.unit (teDelegationSub c s d a value nonce).1
    rcases teDelegationSub_cases c s d a value nonce with e | ⟨val, df, hg, hdf, hpos, e⟩
    · rw [e]; exact h
    · rw [e]
      have hv := h.get hg
      have hle : dsubAmt c val df value ≤ df.token := by
        rcases dsubAmt_le c val df value with h1 | h1
        · exact h1
        · omega
      have hud := updateDelegation_sinv c h d (delta := -dsubAmt c val df value) hv
        (fun df' hf => by rw [hdf] at hf; cases hf; omega) (fun hf => by rw [hdf] at hf; cases hf)
      unfold dsubTail
      simp only
      apply SInv.pushUBD
      split
      · exact hud.1.update (hud.2.congr rfl rfl rfl rfl rfl) hud.2
      · exact hud.1
  | penal a amount =>
    show SInv c.unit (penalize c s a amount).1
    generalize hres : penalize c s a amount = res
    unfold penalize at hres
    split at hres
    · cases hres; exact h
    · rename_i val hg
      have hv := h.get hg
      split at hres
      · split at hres
        · cases hres; exact h
        · rename_i s1 nv htp
          cases hres
          unfold takePenalty at htp
          simp only [Option.some.injEq, Prod.mk.injEq] at htp
          obtain ⟨e1, e2⟩ := htp
          subst e1
          have hnv : VWF c.unit nv := by rw [← e2]; exact penaltyRec_vwf c s.queue hv amount
          have hs1 : SInv c.unit { s with queue := (penaltyRec c s.queue val amount).1 } := h.frame rfl rfl
          exact hs1.update (hnv.congr rfl rfl rfl rfl rfl) hv
      · cases hres
        exact h.update (hv.congr rfl rfl rfl rfl rfl) hv
  | settle a =>
    show SInv c.unit (settle s a).1
    generalize hres : settle s a = res
    unfold settle at hres
    split at hres
    · cases hres; exact h
    · rename_i val hg
      have hv := h.get hg
      split at hres
      · cases hres; exact h.update (hv.congr rfl rfl rfl rfl rfl) hv
      · split at hres
        · cases hres; exact h
        · simp only at hres
          cases hres
          exact h.update (hv.congr rfl rfl rfl rfl rfl) hv
  | snap => exact h.frame rfl rfl
  | revert id =>
    show SInv c.unit (match revertTo s id with | some s' => (s', Out.unit) | none => (s, Out.res .crash)).1
    cases hr : revertTo s id with
    | none => exact h
    | some s' => exact h.revertTo hr
  | fin => exact h.finalise
  | iroot de =>
    show SInv c.unit (if flushCrashes de s then (s, Out.res .crash) else (iroot de s, Out.unit)).1
    split
    · exact h
    · exact h.iroot de
  | reload de =>
    show SInv c.unit (if flushCrashes de s then (s, Out.res .crash) else (reload de s, Out.unit)).1
    split
    · exact h
    · exact h.reload de
  | copy => exact h.copy

theorem SInv.init (u : Int) : SInv u St.init := by
  refine ⟨?_, ?_⟩
  · intro v hv; cases hv
  · intro e he; cases he

theorem SInv.nonNeg {u : Int} (hu : 0 < u) {s : St} (h : SInv u s) : NonNeg s :=
  fun _ _ hg => (h.get hg).nonneg hu

theorem hl_opOk (c : Cfg) (s : St) (op : Op) (hop : op.hl c = true) : OpOk s op := by
  cases op with
  | remove a => simp [Op.hl] at hop
  | updStale a f x g y =>
    simp only [Op.hl, Bool.and_eq_true] at hop
    intro cur _
    have hg := hop.2
    cases g <;> simp [Field.plain] at hg <;> rfl
  | _ => trivial

/-- handler-level histories satisfy `Safe` by themselves -/
theorem hl_safe (c : Cfg) (hu : 0 < c.unit) : ∀ (ops : List Op) (s : St), SInv c.unit s → (∀ op ∈ ops, op.hl c = true) →
    Safe c s ops := by
  intro ops
  induction ops with
  | nil => intro _ _ _; trivial
  | cons op ops ih =>
    intro s h hall
    have hop := hall op List.mem_cons_self
    have h' := step_sinv c h op hop
    exact ⟨hl_opOk c s op hop, h'.nonNeg hu, ih _ h' (fun o ho => hall o (List.mem_cons_of_mem _ ho))⟩

theorem run_sinv (c : Cfg) : ∀ (ops : List Op) (s : St), SInv c.unit s → (∀ op ∈ ops, op.hl c = true) →
    SInv c.unit (run c s ops) := by
  intro ops
  induction ops with
  | nil => intro s h _; exact h
  | cons op ops ih =>
    intro s h hall
    show SInv c.unit (run c (step c s op).1 ops)
    exact ih _ (step_sinv c h op (hall op List.mem_cons_self)) (fun o ho => hall o (List.mem_cons_of_mem _ ho))

end YouVerif.C08
