/-
C08 — the statistics at the level of "visible keys": an abstract state (stats, index, address ↦ visible key)
and an abstract journal; the invariant `JK` says the statistics equal the recomputation now and after undoing
any number of journal entries.
-/
import YouVerif.C08.Proofs

namespace YouVerif.C08

/-! ### buckets and stats -/

theorem Bucket.addK_comm (b : Bucket) (k k' : Key) : (b.addK k).addK k' = (b.addK k').addK k := by
  cases b with
  | mk a1 a2 a3 a4 a5 a6 =>
    unfold Bucket.addK
    cases k.online <;> cases k'.online <;> simp <;> (try constructor) <;> (try constructor) <;> omega

theorem Stats.zero_wf : Stats.zero.Wf := by
  unfold Stats.zero Stats.Wf Bucket.zero Bucket.Wf M64; simp

theorem incrK_wf {s : Stats} {k : Key} (hs : s.Wf) (hk : k.nonneg) : (incrK s k).Wf := by
  obtain ⟨h1, h2, h3, h4, h5, h6⟩ := hs
  unfold incrK Stats.app
  split <;> simp only [Stats.Wf] <;> refine ⟨?_, ?_, ?_, ?_, ?_, ?_⟩ <;>
    first | assumption | exact Bucket.addK_wf (by assumption) hk

theorem decrK_incrK {s : Stats} {k : Key} (hs : s.Wf) (hk : k.nonneg) : decrK (incrK s k) k = s := by
  obtain ⟨h1, h2, h3, h4, h5, h6⟩ := hs
  cases s with
  | mk a b c d e f =>
    simp only at h1 h2 h3 h4 h5 h6
    unfold decrK incrK Stats.app
    split <;> simp [Bucket.subK_addK, *]

theorem incrK_comm (s : Stats) (k k' : Key) : incrK (incrK s k) k' = incrK (incrK s k') k := by
  cases s with
  | mk a b c d e f =>
    unfold incrK Stats.app
    split <;> split <;> simp [Bucket.addK_comm]

theorem summK_wf {ks : List Key} (h : ∀ k ∈ ks, k.nonneg) : (summK ks).Wf := by
  induction ks with
  | nil => exact Stats.zero_wf
  | cons k ks ih =>
    unfold summK
    exact incrK_wf (ih fun k' hk' => h k' (List.mem_cons_of_mem _ hk')) (h k List.mem_cons_self)

theorem summK_perm {ks ks' : List Key} (h : ks.Perm ks') : summK ks = summK ks' := by
  induction h with
  | nil => rfl
  | cons k _ ih => simp [summK, ih]
  | swap k k' l => simp [summK, incrK_comm]
  | trans _ _ ih1 ih2 => exact ih1.trans ih2

/-- subtracting a counted record is exact -/
theorem decrK_summK_cons {k : Key} {ks : List Key} (h : ∀ k' ∈ k :: ks, k'.nonneg) :
    decrK (summK (k :: ks)) k = summK ks := by
  show decrK (incrK (summK ks) k) k = summK ks
  exact decrK_incrK (summK_wf fun k' hk' => h k' (List.mem_cons_of_mem _ hk')) (h k List.mem_cons_self)

/-! ### sorted index -/

theorem mem_insertS {a x : Nat} {l : List Nat} : x ∈ insertS a l ↔ x = a ∨ x ∈ l := by
  induction l with
  | nil => simp [insertS]
  | cons b l ih =>
    unfold insertS
    split
    · simp
    · split
      · rename_i h; subst h; simp
      · simp [ih]; constructor <;> (intro h; rcases h with h | h | h <;> simp [h])

theorem insertS_sorted {a : Nat} {l : List Nat} (h : l.Pairwise (· < ·)) : (insertS a l).Pairwise (· < ·) := by
  induction l with
  | nil => simp [insertS]
  | cons b l ih =>
    have hb := List.pairwise_cons.mp h
    by_cases hab : a < b
    · have e : insertS a (b :: l) = a :: b :: l := by simp [insertS, hab]
      rw [e]
      refine List.pairwise_cons.mpr ⟨?_, h⟩
      intro x hx
      rcases List.mem_cons.mp hx with rfl | hx
      · exact hab
      · exact Nat.lt_trans hab (hb.1 x hx)
    · by_cases he : a = b
      · have e : insertS a (b :: l) = b :: l := by simp [insertS, he]
        rw [e]; exact h
      · have e : insertS a (b :: l) = b :: insertS a l := by simp [insertS, hab, he]
        rw [e]
        refine List.pairwise_cons.mpr ⟨?_, ih hb.2⟩
        intro x hx
        rcases mem_insertS.mp hx with hxa | hx
        · rw [hxa]; show b < a; omega
        · exact hb.1 x hx

theorem insertS_of_mem {a : Nat} {l : List Nat} (h : l.Pairwise (· < ·)) (ha : a ∈ l) : insertS a l = l := by
  induction l with
  | nil => cases ha
  | cons b l ih =>
    have hb := List.pairwise_cons.mp h
    unfold insertS
    rcases List.mem_cons.mp ha with rfl | ha
    · simp
    · have hba : b < a := by simpa using hb.1 a ha
      have h1 : ¬ a < b := by omega
      have h2 : ¬ a = b := by omega
      simp [h1, h2, ih hb.2 ha]

theorem insertS_perm {a : Nat} {l : List Nat} (ha : a ∉ l) : (insertS a l).Perm (a :: l) := by
  induction l with
  | nil => simp [insertS]
  | cons b l ih =>
    unfold insertS
    split
    · exact List.Perm.refl _
    · split
      · rename_i h; subst h; simp at ha
      · have : a ∉ l := fun h => ha (List.mem_cons_of_mem _ h)
        exact ((ih this).cons b).trans (List.Perm.swap a b l)

theorem sorted_nodup {l : List Nat} (h : l.Pairwise (· < ·)) : l.Nodup :=
  h.imp (fun hab => Nat.ne_of_lt hab)

theorem eraseA_sorted {a : Nat} {l : List Nat} (h : l.Pairwise (· < ·)) : (eraseA l a).Pairwise (· < ·) :=
  List.Pairwise.filter _ h

theorem mem_eraseA {a x : Nat} {l : List Nat} : x ∈ eraseA l a ↔ x ∈ l ∧ x ≠ a := by
  simp [eraseA]

theorem eraseA_perm {a : Nat} {l : List Nat} (hn : l.Nodup) (ha : a ∈ l) : l.Perm (a :: eraseA l a) := by
  induction l with
  | nil => cases ha
  | cons b l ih =>
    have hb := List.nodup_cons.mp hn
    unfold eraseA
    rcases List.mem_cons.mp ha with rfl | ha
    · have : l.filter (· != a) = l := by
        apply List.filter_eq_self.mpr
        intro x hx
        have : x ≠ a := fun e => hb.1 (e ▸ hx)
        simpa using this
      simp [List.filter_cons, this]
    · have hne : b ≠ a := fun e => hb.1 (e ▸ ha)
      have : (b != a) = true := by simpa using hne
      simp only [List.filter_cons, this, if_true]
      exact ((ih hb.2 ha).cons b).trans (List.Perm.swap a b _)

/-! ### abstract state -/

structure KS where
  stats : Stats
  index : List Addr
  kv : Addr → Option Key

def upd (f : Addr → Option Key) (a : Addr) (v : Option Key) : Addr → Option Key :=
  fun x => if x = a then v else f x

@[simp] theorem upd_same (f : Addr → Option Key) (a : Addr) (v : Option Key) : upd f a v a = v := by simp [upd]
theorem upd_other (f : Addr → Option Key) {a x : Addr} (v : Option Key) (h : x ≠ a) : upd f a v x = f x := by simp [upd, h]

def KS.keys (t : KS) : List Key := t.index.filterMap t.kv

structure BaseK (t : KS) : Prop where
  sorted : t.index.Pairwise (· < ·)
  dom : ∀ a, a ∈ t.index ↔ (t.kv a).isSome
  nonneg : ∀ a k, t.kv a = some k → k.nonneg
  stats : t.stats = summK t.keys

/-- keys of the index with one address re-bound -/
theorem keys_upd_not_mem {f : Addr → Option Key} {l : List Addr} {a : Addr} {v : Option Key} (ha : a ∉ l) :
    l.filterMap (upd f a v) = l.filterMap f := by
  induction l with
  | nil => rfl
  | cons b l ih =>
    have hb : b ≠ a := fun e => ha (e ▸ List.mem_cons_self)
    have hl : a ∉ l := fun h => ha (List.mem_cons_of_mem _ h)
    simp [List.filterMap_cons, upd_other f v hb, ih hl]

theorem keys_perm_mem {f : Addr → Option Key} {l : List Addr} {a : Addr} (hn : l.Nodup) (ha : a ∈ l) (v : Option Key) :
    (l.filterMap (upd f a v)).Perm (v.toList ++ (eraseA l a).filterMap f) := by
  have hp := eraseA_perm hn ha
  have h1 : (l.filterMap (upd f a v)).Perm ((a :: eraseA l a).filterMap (upd f a v)) := hp.filterMap _
  have hna : a ∉ eraseA l a := fun h => (mem_eraseA.mp h).2 rfl
  have h2 : (a :: eraseA l a).filterMap (upd f a v) = v.toList ++ (eraseA l a).filterMap f := by
    rw [List.filterMap_cons, upd_same, keys_upd_not_mem hna]
    cases v <;> simp
  exact h2 ▸ h1

theorem keys_perm_mem' {f : Addr → Option Key} {l : List Addr} {a : Addr} (hn : l.Nodup) (ha : a ∈ l) :
    (l.filterMap f).Perm ((f a).toList ++ (eraseA l a).filterMap f) := by
  have := keys_perm_mem (f := f) hn ha (f a)
  have e : upd f a (f a) = f := by funext x; unfold upd; split <;> simp_all
  rwa [e] at this

/-! ### abstract journal -/

inductive KJ where
  | create (a : Addr)
  | update (a : Addr) (oldK newK : Key) (eq : Bool)
  | other

def undoK (t : KS) : KJ → KS
  | .create a =>
    match t.kv a with
    | some k => ⟨decrK t.stats k, eraseA t.index a, upd t.kv a none⟩
    | none => t
  | .update a oldK newK eq =>
    ⟨if eq then t.stats else incrK (decrK t.stats newK) oldK, insertS a t.index, upd t.kv a (some oldK)⟩
  | .other => t

/-- the statistics equal the recomputation now and after undoing any prefix of the journal -/
def JK : List KJ → KS → Prop
  | [], t => BaseK t
  | e :: r, t => BaseK t ∧ JK r (undoK t e)

theorem JK.base {j : List KJ} {t : KS} (h : JK j t) : BaseK t := by
  cases j with
  | nil => exact h
  | cons e r => exact h.1

/-- adding a record for an address that is not visible -/
theorem BaseK.create {t : KS} (h : BaseK t) {a : Addr} {k : Key} (hv : t.kv a = none) (hk : k.nonneg) :
    BaseK ⟨incrK t.stats k, insertS a t.index, upd t.kv a (some k)⟩ := by
  have hna : a ∉ t.index := fun hm => by have := (h.dom a).mp hm; simp [hv] at this
  refine ⟨insertS_sorted h.sorted, ?_, ?_, ?_⟩
  · intro x
    simp only [mem_insertS]
    by_cases hx : x = a
    · subst hx; simp
    · simp [hx, upd_other _ _ hx, h.dom x]
  · intro x k' hx
    by_cases hxa : x = a
    · subst hxa; simp at hx; exact hx ▸ hk
    · have hx' : upd t.kv a (some k) x = some k' := hx
      rw [upd_other _ _ hxa] at hx'; exact h.nonneg x k' hx'
  · show incrK t.stats k = summK ((insertS a t.index).filterMap (upd t.kv a (some k)))
    have hp : ((insertS a t.index).filterMap (upd t.kv a (some k))).Perm (k :: t.index.filterMap t.kv) := by
      have := (insertS_perm hna).filterMap (upd t.kv a (some k))
      rw [List.filterMap_cons, upd_same, keys_upd_not_mem hna] at this
      exact this
    rw [summK_perm hp, h.stats]; rfl

/-- removing a visible record (its key is subtracted exactly) -/
theorem BaseK.remove {t : KS} (h : BaseK t) {a : Addr} {k : Key} (hv : t.kv a = some k) :
    BaseK ⟨decrK t.stats k, eraseA t.index a, upd t.kv a none⟩ := by
  have ha : a ∈ t.index := (h.dom a).mpr (by simp [hv])
  have hn := sorted_nodup h.sorted
  refine ⟨eraseA_sorted h.sorted, ?_, ?_, ?_⟩
  · intro x
    simp only [mem_eraseA]
    by_cases hx : x = a
    · subst hx; simp
    · simp [hx, upd_other _ _ hx, h.dom x]
  · intro x k' hx
    by_cases hxa : x = a
    · subst hxa; simp at hx
    · have hx' : upd t.kv a none x = some k' := hx
      rw [upd_other _ _ hxa] at hx'; exact h.nonneg x k' hx'
  · show decrK t.stats k = summK ((eraseA t.index a).filterMap (upd t.kv a none))
    have hna : a ∉ eraseA t.index a := fun hm => (mem_eraseA.mp hm).2 rfl
    rw [keys_upd_not_mem hna]
    have hp := keys_perm_mem' (f := t.kv) hn ha
    rw [hv] at hp
    have hnn : ∀ k' ∈ k :: (eraseA t.index a).filterMap t.kv, k'.nonneg := by
      intro k' hk'
      rcases List.mem_cons.mp hk' with rfl | hk'
      · exact h.nonneg a _ hv
      · obtain ⟨x, _, hx⟩ := List.mem_filterMap.mp hk'
        exact h.nonneg x k' hx
    rw [h.stats, KS.keys, summK_perm hp]
    exact decrK_summK_cons hnn

/-- re-binding a visible record: old key out (exactly), new key in -/
theorem BaseK.update {t : KS} (h : BaseK t) {a : Addr} {k k' : Key} (hv : t.kv a = some k) (hk' : k'.nonneg) :
    BaseK ⟨incrK (decrK t.stats k) k', insertS a t.index, upd t.kv a (some k')⟩ := by
  have h1 := h.remove hv
  have h2 := h1.create (a := a) (k := k') (by simp) hk'
  have ha : a ∈ t.index := (h.dom a).mpr (by simp [hv])
  have e1 : insertS a (eraseA t.index a) = insertS a t.index := by
    rw [insertS_of_mem h.sorted ha]
    -- both sorted with the same members
    have hs1 := insertS_sorted (a := a) (eraseA_sorted (a := a) h.sorted)
    apply List.Perm.eq_of_pairwise (le := (· < ·)) _ hs1 h.sorted
    · apply (List.perm_ext_iff_of_nodup (sorted_nodup hs1) (sorted_nodup h.sorted)).mpr
      intro x
      simp only [mem_insertS, mem_eraseA]
      by_cases hx : x = a <;> simp [hx, ha]
    · intro x y _ _ hxy hyx; exact absurd hxy (Nat.lt_asymm hyx)
  have e2 : upd (upd t.kv a none) a (some k') = upd t.kv a (some k') := by
    funext x; unfold upd; split <;> rfl
  simpa only [e1, e2] using h2

/-- re-binding without touching the statistics, when the key does not change -/
theorem BaseK.update_same {t : KS} (h : BaseK t) {a : Addr} {k : Key} (hv : t.kv a = some k) :
    BaseK ⟨t.stats, insertS a t.index, upd t.kv a (some k)⟩ := by
  have ha : a ∈ t.index := (h.dom a).mpr (by simp [hv])
  have e2 : upd t.kv a (some k) = t.kv := by
    funext x; unfold upd; split
    · rename_i hx; rw [hx, hv]
    · rfl
  rw [insertS_of_mem h.sorted ha, e2]
  exact h

/-- old key out, new key in, new key out, old key in: every subtraction is exact -/
theorem BaseK.roundtrip {t : KS} (h : BaseK t) {a : Addr} {k k' : Key} (hv : t.kv a = some k) (hk' : k'.nonneg) :
    incrK (decrK (incrK (decrK t.stats k) k') k') k = t.stats := by
  have ha : a ∈ t.index := (h.dom a).mpr (by simp [hv])
  have hn := sorted_nodup h.sorted
  have hp := keys_perm_mem' (f := t.kv) hn ha
  rw [hv] at hp
  have hnn : ∀ k'' ∈ k :: (eraseA t.index a).filterMap t.kv, k''.nonneg := by
    intro k'' hk''
    rcases List.mem_cons.mp hk'' with rfl | hk''
    · exact h.nonneg a _ hv
    · obtain ⟨x, _, hx⟩ := List.mem_filterMap.mp hk''
      exact h.nonneg x k'' hx
  have e0 : t.stats = summK (k :: (eraseA t.index a).filterMap t.kv) := by
    rw [h.stats, KS.keys]; exact summK_perm hp
  have e1 : decrK t.stats k = summK ((eraseA t.index a).filterMap t.kv) := by
    rw [e0]; exact decrK_summK_cons hnn
  have hw : (summK ((eraseA t.index a).filterMap t.kv)).Wf :=
    summK_wf (fun k'' hk'' => hnn k'' (List.mem_cons_of_mem _ hk''))
  rw [e1, decrK_incrK hw hk', e0]; rfl

end YouVerif.C08
