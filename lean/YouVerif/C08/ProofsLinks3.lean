/-
C08 — links, part 3: every handler-level operation keeps `LInv` (under the link-level call discipline `LOk`).
-/
import YouVerif.C08.ProofsLinks2

namespace YouVerif.C08

/-! ### re-binding lemmas for `Links` -/

theorem Links.bindEmptyV {av vd : LMap} (h : Links av vd) {a : Addr} (ha : vd a = none) : Links av (updM vd a (some [])) := by
  intro d a0
  by_cases h0 : a0 = a
  · subst h0
    rw [updM_same]
    constructor
    · intro hl
      obtain ⟨l, hl1, hl2⟩ := (h d a0).mp hl
      rw [ha] at hl1; cases hl1
    · rintro ⟨l, hl1, hl2⟩
      cases hl1; cases hl2
  · rw [updM_other _ _ h0]; exact h d a0

theorem Links.bindEmptyA {av vd : LMap} (h : Links av vd) {d : Addr} (hd : av d = none) : Links (updM av d (some [])) vd := by
  intro d0 a
  by_cases h0 : d0 = d
  · subst h0
    rw [updM_same]
    constructor
    · rintro ⟨l, hl1, hl2⟩
      cases hl1; cases hl2
    · intro hl
      obtain ⟨l, hl1, hl2⟩ := (h d0 a).mpr hl
      rw [hd] at hl1; cases hl1
  · rw [updM_other _ _ h0]; exact h d0 a

theorem Links.unbindEmptyV {av vd : LMap} (h : Links av vd) {a : Addr} (ha : vd a = some []) : Links av (updM vd a none) := by
  intro d a0
  by_cases h0 : a0 = a
  · subst h0
    rw [updM_same]
    constructor
    · intro hl
      obtain ⟨l, hl1, hl2⟩ := (h d a0).mp hl
      rw [ha] at hl1; cases hl1; cases hl2
    · rintro ⟨l, hl1, _⟩
      cases hl1
  · rw [updM_other _ _ h0]; exact h d a0

theorem Links.rebind {av vd : LMap} (h : Links av vd) {a d : Addr} {lv lv' la la' : List Addr} (hv : vd a = some lv)
    (ha : av d = some la) (h1 : ∀ d', d' ≠ d → (d' ∈ lv' ↔ d' ∈ lv)) (h2 : ∀ a', a' ≠ a → (a' ∈ la' ↔ a' ∈ la))
    (h3 : d ∈ lv' ↔ a ∈ la') : Links (updM av d (some la')) (updM vd a (some lv')) := by
  intro d0 a0
  by_cases hd : d0 = d <;> by_cases haa : a0 = a
  · subst hd; subst haa
    simp only [updM_same, Option.some.injEq, exists_eq_left']
    exact h3.symm
  · subst hd
    rw [updM_same, updM_other _ _ haa]
    simp only [Option.some.injEq, exists_eq_left']
    rw [h2 a0 haa, ← h d0 a0, ha]
    simp
  · subst haa
    rw [updM_other _ _ hd, updM_same]
    simp only [Option.some.injEq, exists_eq_left']
    rw [h1 d0 hd, h d0 a0, hv]
    simp
  · rw [updM_other _ _ hd, updM_other _ _ haa]; exact h d0 a0

/-! ### membership after `updDlgFrom` / `UpdateDelegationTo` -/

theorem mem_map_insertDlg (x : Dlg) (l : List Dlg) (d' : Addr) :
    d' ∈ (insertDlg x l).map (·.d) ↔ d' = x.d ∨ d' ∈ l.map (·.d) := by
  induction l with
  | nil => simp [insertDlg]
  | cons y l ih =>
    unfold insertDlg
    split
    · simp
    · split
      · rename_i h; simp [h]
      · simp only [List.map_cons, List.mem_cons, ih]
        constructor
        · rintro (h | h | h) <;> simp [h]
        · rintro (h | h | h) <;> simp [h]

theorem findDlg_none_iff (l : List Dlg) (d : Addr) : findDlg l d = none ↔ d ∉ l.map (·.d) := by
  unfold findDlg
  constructor
  · intro h hm
    obtain ⟨x, hx, e⟩ := List.mem_map.mp hm
    have := List.find?_eq_none.mp h x hx
    simp [e] at this
  · intro h
    apply List.find?_eq_none.mpr
    intro x hx e
    exact h (List.mem_map.mpr ⟨x, hx, by simpa using e⟩)

theorem updDlgFrom_other (l : List Dlg) (x : Dlg) (d' : Addr) (h : d' ≠ x.d) :
    d' ∈ (updDlgFrom l x).1.map (·.d) ↔ d' ∈ l.map (·.d) := by
  unfold updDlgFrom
  split <;> split
  · rfl
  · simp [mem_map_insertDlg, h]
  · simp only [List.mem_map, List.mem_filter]
    constructor
    · rintro ⟨y, ⟨hy, _⟩, e⟩; exact ⟨y, hy, e⟩
    · rintro ⟨y, hy, e⟩; exact ⟨y, ⟨hy, by simp [e, h]⟩, e⟩
  · simp [mem_map_insertDlg, h]

theorem updDlgFrom_self (l : List Dlg) (x : Dlg) (hne : findDlg l x.d = none → x.empty = false) :
    x.d ∈ (updDlgFrom l x).1.map (·.d) ↔ (updDlgFrom l x).2 = false := by
  unfold updDlgFrom
  cases hf : findDlg l x.d with
  | none =>
    have := hne hf
    simp [this, mem_map_insertDlg]
  | some y =>
    by_cases he : x.empty = true
    · simp only [he, if_true]
      simp only [List.mem_map, List.mem_filter]
      constructor
      · rintro ⟨z, ⟨_, hz⟩, e⟩; simp [e] at hz
      · intro h; cases h
    · have he' : x.empty = false := by simpa using he
      simp [he', mem_map_insertDlg]

theorem mem_updTo (la : List Addr) (a a' : Addr) (del : Bool) :
    a' ∈ (if !la.contains a && !del then insertS a la else if la.contains a && del then eraseA la a else la) ↔
    (if a' = a then del = false else a' ∈ la) := by
  by_cases ha : a' = a
  · subst ha
    simp only [if_true]
    by_cases hc : a' ∈ la
    · have hc' : la.contains a' = true := by simpa using hc
      cases del
      · simp [hc', hc]
      · simp [hc', hc, mem_eraseA]
    · have hc' : la.contains a' = false := by simpa using hc
      cases del
      · simp [hc', hc, mem_insertS]
      · simp [hc', hc]
  · simp only [ha, if_false]
    split
    · simp [mem_insertS, ha]
    · split
      · simp [mem_eraseA, ha]
      · rfl

/-! ### the link-level call discipline -/

/-- * delegations come from existing accounts (the delegator sent the transaction);
    * a penalty consumes no whole delegation (otherwise: known finding F-C08f);
    * at a flush no visible total reaches 2^64 LU (`IsInvalid` truncates with `Uint64()`). -/
def LOk (c : Cfg) (s : St) : Op → Prop
  | .dadd d _ _ => (getAcct s.accts d).isSome
  | .deleg d _ _ => (getAcct s.accts d).isSome
  | .penal a amount => ∀ val, get s.vals a = some val → dl (penaltyRec c s.queue val amount).2 = dl val
  | .iroot _ => ∀ a v, get s.vals a = some v → v.token < M64
  | .reload _ => ∀ a v, get s.vals a = some v → v.token < M64
  | _ => True

theorem set_dl (v : Val) (f : Field) (x : Int) : dl (v.set f x) = dl v := by cases f <;> rfl

/-- `UpdateDelegation` by an existing account -/
theorem updateDelegation_linv (c : Cfg) {s : St} (hl : LInv s) (d : Addr) {val : Val} (delta : Int) {x : Acct}
    (hg : get s.vals val.addr = some val) (hx : getAcct s.accts d = some x) :
    LInv (updateDelegation c s d val delta).1 := by
  have hf := get_facts hg
  unfold updateDelegation
  by_cases h0 : (delta == 0) = true
  · simp only [h0, if_true]; exact hl
  · simp only [h0, if_false, Bool.false_eq_true]
    by_cases h1 : ((findDlg val.dlgs d).isNone && decide (delta < 0)) = true
    · simp only [h1, if_true]; exact hl
    · simp only [h1, if_false, Bool.false_eq_true]
      have hne : delta ≠ 0 := by simpa using h0
      obtain ⟨s1, a1, v1⟩ := Stable.update (s := s) (nv := (delegRec c val d delta).1) hg rfl hf.2
      have hx1 : getAcct (updateValidator s (delegRec c val d delta).1 val).1.accts d = some x := by
        have : (updateValidator s (delegRec c val d delta).1 val).1.accts = s.accts := by
          unfold updateValidator; split <;> rfl
        rw [this]; exact hx
      obtain ⟨s2, v2, a2⟩ := Stable.updateDelegator hx1 val.addr delta (delegRec c val d delta).2.2
      refine hl.stable (s1.trans s2) ?_
      rw [a2, v2, a1, v1]
      have hva : vdOf s val.addr = some (dl val) := by simp [vdOf, hg]
      have haa : avOf s d = some x.dlgs := by simp [avOf, hx]
      -- the new delegation record is not empty when it is new
      have hnew : findDlg val.dlgs (⟨d, ((findDlg val.dlgs d).getD ⟨d, 0, 0⟩).token + delta,
          (((findDlg val.dlgs d).getD ⟨d, 0, 0⟩).token + delta) / c.unit⟩ : Dlg).d = none →
          Dlg.empty ⟨d, ((findDlg val.dlgs d).getD ⟨d, 0, 0⟩).token + delta,
          (((findDlg val.dlgs d).getD ⟨d, 0, 0⟩).token + delta) / c.unit⟩ = false := by
        intro hn
        simp only at hn
        cases he : Dlg.empty ⟨d, ((findDlg val.dlgs d).getD ⟨d, 0, 0⟩).token + delta,
          (((findDlg val.dlgs d).getD ⟨d, 0, 0⟩).token + delta) / c.unit⟩
        · rfl
        · have := (empty_iff _).mp he
          simp only [hn, Option.getD_none] at this
          omega
      refine hl.cur.rebind hva haa ?_ ?_ ?_
      · intro d' hd'
        exact updDlgFrom_other val.dlgs _ d' hd'
      · intro a' ha'
        rw [mem_updTo]; simp [ha']
      · rw [mem_updTo]; simp only [if_true]
        exact updDlgFrom_self val.dlgs _ hnew

end YouVerif.C08

namespace YouVerif.C08

theorem LInv.init : LInv St.init := by
  refine ⟨?_, ?_, ?_, List.Pairwise.nil⟩
  · intro d a
    constructor
    · rintro ⟨l, h, _⟩; simp [avOf, St.init, getAcct] at h
    · rintro ⟨l, h, _⟩; simp [vdOf, St.init, get, getRaw] at h
  · intro r hr; cases hr
  · intro r hr; cases hr

theorem ensureAcct_linv {s : St} (hl : LInv s) (d : Addr) : LInv (ensureAcct s d) := by
  obtain ⟨h1, h2, h3⟩ := Stable.ensureAcct s d
  refine hl.stable h1 ?_
  rw [h2, h3]
  cases hd : avOf s d with
  | some l => exact hl.cur
  | none => exact hl.cur.bindEmptyA hd

theorem createValidator_linv {s : St} (hl : LInv s) (v : Val) (hd : v.deleted = false) (he : v.dlgs = []) :
    LInv (createValidator s v).1 := by
  cases hg : get s.vals v.addr with
  | some w =>
    have : (createValidator s v).1 = s := by unfold createValidator; rw [hg]
    rw [this]; exact hl
  | none =>
    obtain ⟨h1, h2, h3⟩ := Stable.create hg hd
    refine hl.stable h1 ?_
    rw [h2, h3]
    have : dl v = [] := by simp [dl, he]
    rw [this]
    exact hl.cur.bindEmptyV (by simp [vdOf, hg])

theorem restA_self (n : Nat) (aj : List AE) (av : LMap) (h : aj.length ≤ n) : restA n aj av = (aj, av) := by
  cases aj with
  | nil => rfl
  | cons e r => simp only [restA, h, if_true]

theorem restV_self (n : Nat) (vj : List JE) (vd : LMap) (h : vj.length ≤ n) : restV n vj vd = (vj, vd) := by
  cases vj with
  | nil => rfl
  | cons e r => simp only [restV, h, if_true]

theorem snapshot_linv {s : St} (hl : LInv s) : LInv (snapshot s).1 := by
  refine ⟨hl.cur, ?_, ?_, ?_⟩
  · intro r hr
    rcases List.mem_cons.mp hr with rfl | hr
    · show Links (restA s.aj.length s.aj (avOf s)).2 (restV s.vj.length s.vj (vdOf s)).2
      rw [restA_self _ _ _ (Nat.le_refl _), restV_self _ _ _ (Nat.le_refl _)]
      exact hl.cur
    · exact hl.snap r hr
  · intro r hr
    rcases List.mem_cons.mp hr with rfl | hr
    · exact ⟨Nat.le_refl _, Nat.le_refl _⟩
    · exact hl.revOk r hr
  · refine List.pairwise_cons.mpr ⟨?_, hl.revMono⟩
    intro r hr
    exact hl.revOk r hr

theorem dropRevs_spec (id : Nat) {R : Rev → Rev → Prop} : ∀ (l : List Rev), l.Pairwise R →
    (∀ r' ∈ dropRevs id l, r' ∈ l) ∧ (dropRevs id l).Pairwise R ∧
    (∀ r, l.find? (·.id == id) = some r → ∀ r' ∈ dropRevs id l, R r r') := by
  intro l
  induction l with
  | nil =>
    intro _
    refine ⟨?_, List.Pairwise.nil, ?_⟩
    · intro r' h; cases h
    · intro r h; simp at h
  | cons x l ih =>
    intro hp
    have hc := List.pairwise_cons.mp hp
    obtain ⟨i1, i2, i3⟩ := ih hc.2
    by_cases hx : (x.id == id) = true
    · have e : dropRevs id (x :: l) = l := by simp [dropRevs, hx]
      rw [e]
      refine ⟨fun r' h => List.mem_cons_of_mem _ h, hc.2, ?_⟩
      intro r hr r' hr'
      simp only [List.find?_cons, hx] at hr
      cases hr
      exact hc.1 r' hr'
    · have hx' : (x.id == id) = false := by simpa using hx
      have e : dropRevs id (x :: l) = dropRevs id l := by simp [dropRevs, hx']
      rw [e]
      refine ⟨fun r' h => List.mem_cons_of_mem _ (i1 r' h), i2, ?_⟩
      intro r hr r' hr'
      simp only [List.find?_cons, hx'] at hr
      exact i3 r hr r' hr'

/-- reverting to a live snapshot gives a state in which the links agree, and keeps the older snapshots restorable -/
theorem revertTo_linv {s s' : St} {id : Nat} (hl : LInv s) (hr : revertTo s id = some s') : LInv s' := by
  unfold revertTo at hr
  cases hf : s.revs.find? (·.id == id) with
  | none => rw [hf] at hr; cases hr
  | some r =>
    rw [hf] at hr
    simp only [Option.some.injEq] at hr
    have hrm : r ∈ s.revs := List.mem_of_find?_eq_some hf
    have hrok := hl.revOk r hrm
    obtain ⟨a1, a2, a3, a4⟩ := undoATo_spec r.alen s.aj.length s (Nat.le_refl _)
    generalize hs1 : undoATo r.alen s.aj.length s = s1 at a1 a2 a3 a4 hr
    obtain ⟨v1, v2, v3, v4⟩ := undoVTo_spec r.vlen s1.vj.length s1 (Nat.le_refl _)
    generalize hs2 : undoVTo r.vlen s1.vj.length s1 = s2 at v1 v2 v3 v4 hr
    have hvd1 : vdOf s1 = vdOf s := by unfold vdOf; rw [a2]
    have hav2 : avOf s2 = avOf s1 := by unfold avOf; rw [v2]
    rw [a3, hvd1] at v1
    have ea := Prod.mk.inj a1
    have ev := Prod.mk.inj v1
    subst hr
    obtain ⟨d1, d2, d3⟩ := dropRevs_spec id s.revs hl.revMono
    have haj : s2.aj = (restA r.alen s.aj (avOf s)).1 := by rw [v3]; exact ea.1
    have hav : avOf s2 = (restA r.alen s.aj (avOf s)).2 := by rw [hav2]; exact ea.2
    refine ⟨?_, ?_, ?_, d2⟩
    · show Links (avOf s2) (vdOf s2)
      rw [hav, ev.2]; exact hl.snap r hrm
    · intro r' hr'
      have hr'm := d1 r' hr'
      have hle := d3 r hf r' hr'
      show Links (restA r'.alen s2.aj (avOf s2)).2 (restV r'.vlen s2.vj (vdOf s2)).2
      rw [haj, hav, ev.1, ev.2, restA_comp _ _ hle.1, restV_comp _ _ hle.2]
      exact hl.snap r' hr'm
    · intro r' hr'
      have hle := d3 r hf r' hr'
      show r'.alen ≤ s2.aj.length ∧ r'.vlen ≤ s2.vj.length
      rw [haj, ev.1, restA_len _ _ _ hrok.1, restV_len _ _ _ hrok.2]
      exact hle

/-- delegation-level operations: creations, account creations, `UpdateDelegation` by an existing account,
    snapshots and reverts -/
def Op.dlv : Op → Bool
  | .create .. | .mkacct _ | .deleg .. | .snap | .revert _ | .fin | .upd .. | .deposit .. | .withdraw .. | .chstatus .. => true
  | _ => false

theorem step_linv_dlv (c : Cfg) {s : St} (hl : LInv s) (op : Op) (hop : op.dlv = true) (hok : LOk c s op) :
    LInv (step c s op).1 := by
  cases op with
  | create a role status token stake accept commission risk =>
    by_cases hr : validRole role = true
    · have e : (step c s (.create a role status token stake accept commission risk)).1
          = (createValidator s (mkVal a role status token stake accept commission risk)).1 := by
        simp [step, hr]
      rw [e]; exact createValidator_linv hl _ rfl rfl
    · have e : (step c s (.create a role status token stake accept commission risk)).1 = s := by
        simp only [step, hr]
        cases get s.vals a <;> rfl
      rw [e]; exact hl
  | mkacct d => exact ensureAcct_linv hl d
  | deleg d a delta =>
    cases hg : get s.vals a with
    | none =>
      have e : (step c s (.deleg d a delta)).1 = s := by simp [step, hg]
      rw [e]; exact hl
    | some val =>
      have hf := get_facts hg
      have e : (step c s (.deleg d a delta)).1 = (updateDelegation c s d val delta).1 := by simp [step, hg]
      rw [e]
      have hx : (getAcct s.accts d).isSome := hok
      obtain ⟨x, hx'⟩ := Option.isSome_iff_exists.mp hx
      exact updateDelegation_linv c hl d delta (by rw [hf.1]; exact hg) hx'
  | snap => exact snapshot_linv hl
  | revert id =>
    show LInv (match revertTo s id with | some s' => (s', Out.unit) | none => (s, Out.res .crash)).1
    cases hr : revertTo s id with
    | none => exact hl
    | some s' => exact revertTo_linv hl hr
  | fin =>
    show LInv (finalise s)
    refine ⟨hl.cur, ?_, ?_, List.Pairwise.nil⟩
    · intro r hr; cases hr
    · intro r hr; cases hr
  | upd a f x =>
    cases hg : get s.vals a with
    | none =>
      have e : (step c s (.upd a f x)).1 = s := by simp [step, hg]
      rw [e]; exact hl
    | some old =>
      have hf := get_facts hg
      by_cases hc : (!(old.set f x).stakeEqual old && !(validRole (old.set f x).role && validRole old.role)) = true
      · have e : (step c s (.upd a f x)).1 = s := by simp only [step, hg, hc]; rfl
        rw [e]; exact hl
      · have e : (step c s (.upd a f x)).1 = (updateValidator s (old.set f x) old).1 := by
          simp only [step, hg, hc]; rfl
        rw [e]
        exact hl.keep (Keep.update hg (by rw [set_addr]; exact hf.1) hf.1 hf.2 (by rw [set_deleted]; exact hf.2) rfl
          (set_dl old f x))
  | deposit a value =>
    show LInv (teDeposit c s a value).1
    generalize hres : teDeposit c s a value = res
    unfold teDeposit at hres
    split at hres
    · cases hres; exact hl
    · rename_i old hg
      simp only at hres
      split at hres
      · cases hres; exact hl
      · cases hres
        have hf := get_facts hg
        exact hl.keep (Keep.update hg hf.1 hf.1 hf.2 hf.2 rfl rfl)
  | withdraw a value op nonce =>
    show LInv (teWithdraw c s a value op nonce).1
    generalize hres : teWithdraw c s a value op nonce = res
    unfold teWithdraw at hres
    split at hres
    · cases hres; exact hl
    · rename_i old hg
      simp only at hres
      cases hres
      have hf := get_facts hg
      have k1 : Keep s (updateValidator s (withdrawRec c old (withdrawAmt c old value)) old).1 :=
        Keep.update hg hf.1 hf.1 hf.2 hf.2 rfl rfl
      exact hl.keep (k1.trans (Keep.pushUBD _ _))
  | chstatus a status =>
    show LInv (teChangeStatus c s a status).1
    generalize hres : teChangeStatus c s a status = res
    unfold teChangeStatus at hres
    split at hres
    · cases hres; exact hl
    · rename_i old hg
      split at hres
      · cases hres; exact hl
      · cases hres
        have hf := get_facts hg
        exact hl.keep (Keep.update hg hf.1 hf.1 hf.2 hf.2 rfl rfl)
  | _ => simp [Op.dlv] at hop

/-- link-level discipline along a run -/
def LSafe (c : Cfg) : St → List Op → Prop
  | _, [] => True
  | s, op :: ops => LOk c s op ∧ LSafe c (step c s op).1 ops

theorem run_linv_dlv (c : Cfg) : ∀ (ops : List Op) (s : St), LInv s → (∀ op ∈ ops, op.dlv = true) → LSafe c s ops →
    LInv (run c s ops) := by
  intro ops
  induction ops with
  | nil => intro s h _ _; exact h
  | cons op ops ih =>
    intro s h hall hs
    show LInv (run c (step c s op).1 ops)
    exact ih _ (step_linv_dlv c h op (hall op List.mem_cons_self) hs.1) (fun o ho => hall o (List.mem_cons_of_mem _ ho)) hs.2

end YouVerif.C08
