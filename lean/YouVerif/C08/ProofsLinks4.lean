/-
C08 — links, part 4: the remaining operations (stale update, settle, penalise, handler delegations, the flush,
reload, Copy) and the run theorem over all handler-level histories.
-/
import YouVerif.C08.ProofsLinks3

namespace YouVerif.C08

theorem get_filter {l : List Val} (h : VNodup l) (p : Val → Bool) (hp : ∀ v, v.deleted = false → p v = true) (a : Addr) :
    get (l.filter p) a = get l a := by
  unfold get
  rw [getRaw_filter h]
  cases hg : getRaw l a with
  | none => rfl
  | some v =>
    by_cases hd : v.deleted = true
    · by_cases hpv : p v = true <;> simp [hd, hpv]
    · have hd' : v.deleted = false := by simpa using hd
      simp [hd', hp v hd']

theorem u64_zero {t : Int} (h0 : 0 ≤ t) (h1 : t < M64) (h : u64 t = 0) : t = 0 := by
  unfold u64 M64 at *
  omega

theorem sumTok_zero_nil {l : List Dlg} (hp : ∀ x ∈ l, 0 < x.token) (h : sumTok l ≤ 0) : l = [] := by
  cases l with
  | nil => rfl
  | cons x r =>
    exfalso
    have h1 := hp x List.mem_cons_self
    have h2 : 0 ≤ sumTok r := sumF_nonneg _ (fun y hy => by have := hp y (List.mem_cons_of_mem _ hy); omega)
    simp only [sumTok, sumF_cons] at h h2
    omega

def Small (s : St) : Prop := ∀ a v, get s.vals a = some v → v.token < M64

theorem vdOf_flush_del (s : St) (v : Val) (idx : List Addr) (st : Stats) :
    vdOf ({ s with vals := put s.vals { v with deleted := true }, index := idx, stats := st } : St) = updM (vdOf s) v.addr none := by
  rw [vdOf_put s.vals { v with deleted := true } _ rfl]; rfl

theorem flush1_links {u : Int} (de : Bool) {s : St} (a : Addr) (hc : Links (avOf s) (vdOf s)) (hs : SInv u s) (hm : Small s) :
    Links (avOf (flush1 de s a)) (vdOf (flush1 de s a)) ∧ Small (flush1 de s a) := by
  unfold flush1
  cases hg : getRaw s.vals a with
  | none => exact ⟨hc, hm⟩
  | some v =>
    simp only
    have hva := getRaw_addr hg
    subst hva
    by_cases hcnd : (v.deleted || (de && v.invalid)) = true
    · rw [if_pos hcnd]
      have hvd := vdOf_flush_del s v (eraseA s.index v.addr) (decrK s.stats v.key)
      refine ⟨?_, ?_⟩
      · show Links (avOf s) (vdOf _)
        rw [hvd]
        by_cases hd : v.deleted = true
        · have : vdOf s v.addr = none := by simp [vdOf, get, hg, hd]
          rw [← this, updM_self]; exact hc
        · have hd' : v.deleted = false := by simpa using hd
          have hgv : get s.vals v.addr = some v := get_some.mpr ⟨hg, hd'⟩
          have hw := hs.get hgv
          have hinv : v.invalid = true := by
            simp only [hd', Bool.false_or, Bool.and_eq_true] at hcnd; exact hcnd.2
          have ht0 : 0 ≤ v.token := by
            rw [hw.tok]
            have := sumF_nonneg (·.token) (l := v.dlgs) (fun x hx => by have := hw.compPos x hx; omega)
            have := hw.selfNN
            simp only [sumTok]; omega
          have hu : u64 v.token = 0 := by
            unfold Val.invalid at hinv; simp only [Bool.and_eq_true, beq_iff_eq] at hinv; exact hinv.1
          have hz := u64_zero ht0 (hm _ _ hgv) hu
          have hnil : v.dlgs = [] := sumTok_zero_nil hw.compPos (by have := hw.tok; have := hw.selfNN; omega)
          have hvv : vdOf s v.addr = some [] := by simp [vdOf, hgv, dl, hnil]
          exact hc.unbindEmptyV hvv
      · intro a' v' hg'
        have : get (put s.vals { v with deleted := true }) a' = some v' := hg'
        rw [get_put] at this
        by_cases ha' : a' = v.addr
        · simp [ha'] at this
        · simp only [ha', if_false] at this
          exact hm a' v' this
    · rw [if_neg hcnd]
      exact ⟨hc, hm⟩

theorem flush_fold_links {u : Int} (de : Bool) (l : List Addr) : ∀ (s : St), Links (avOf s) (vdOf s) → SInv u s → Small s →
    Links (avOf (l.foldl (flush1 de) s)) (vdOf (l.foldl (flush1 de) s)) := by
  induction l with
  | nil => intro s h _ _; exact h
  | cons a l ih =>
    intro s hc hs hm
    obtain ⟨h1, h2⟩ := flush1_links de a hc hs hm
    exact ih _ h1 (flush1_sinv de a hs).1 h2

theorem LInv.ofCur {s : St} (h : Links (avOf s) (vdOf s)) (hr : s.revs = []) : LInv s := by
  refine ⟨h, ?_, ?_, by rw [hr]; exact List.Pairwise.nil⟩
  · intro r hr'; rw [hr] at hr'; cases hr'
  · intro r hr'; rw [hr] at hr'; cases hr'

theorem iroot_cur {u : Int} (de : Bool) {s : St} (hl : LInv s) (hs : SInv u s) (hm : Small s) :
    Links (avOf (iroot de s)) (vdOf (iroot de s)) := by
  unfold iroot
  have := flush_fold_links de (finalise s).dirty (finalise s) hl.cur hs.finalise hm
  exact this

theorem iroot_revs (de : Bool) (s : St) : (iroot de s).revs = [] := by
  unfold iroot
  have : ∀ (l : List Addr) (t : St), (l.foldl (flush1 de) t).revs = t.revs := by
    intro l
    induction l with
    | nil => intro t; rfl
    | cons a l ih =>
      intro t
      simp only [List.foldl_cons]
      rw [ih]
      unfold flush1
      split
      · rfl
      · split <;> rfl
  simp only [this]; rfl

/-- the full step: every handler-level operation keeps `LInv` under `LOk` -/
theorem step_linv (c : Cfg) {s : St} (hi : Inv s) (hs : SInv c.unit s) (hl : LInv s) (op : Op) (hop : op.hl c = true)
    (hok : LOk c s op) : LInv (step c s op).1 := by
  cases op with
  | create a role status token stake accept commission risk => exact step_linv_dlv c hl _ rfl hok
  | upd a f x => exact step_linv_dlv c hl _ rfl hok
  | mkacct d => exact step_linv_dlv c hl _ rfl hok
  | deleg d a delta => exact step_linv_dlv c hl _ rfl hok
  | deposit a value => exact step_linv_dlv c hl _ rfl hok
  | withdraw a value op nonce => exact step_linv_dlv c hl _ rfl hok
  | chstatus a status => exact step_linv_dlv c hl _ rfl hok
  | snap => exact step_linv_dlv c hl _ rfl hok
  | revert id => exact step_linv_dlv c hl _ rfl hok
  | fin => exact step_linv_dlv c hl _ rfl hok
  | remove a => simp [Op.hl] at hop
  | updStale a f x g y =>
    cases hg : get s.vals a with
    | none =>
      have e : (step c s (.updStale a f x g y)).1 = s := by simp [step, hg]
      rw [e]; exact hl
    | some cur =>
      have hf := get_facts hg
      by_cases hc : (!(cur.set f x).stakeEqual (cur.set g y) && !(validRole (cur.set f x).role && validRole (cur.set g y).role)) = true
      · have e : (step c s (.updStale a f x g y)).1 = s := by simp only [step, hg, hc]; rfl
        rw [e]; exact hl
      · have e : (step c s (.updStale a f x g y)).1 = (updateValidator s (cur.set f x) (cur.set g y)).1 := by
          simp only [step, hg, hc]; rfl
        rw [e]
        exact hl.keep (Keep.update hg (by rw [set_addr]; exact hf.1) (by rw [set_addr]; exact hf.1)
          (by rw [set_deleted]; exact hf.2) (by rw [set_deleted]; exact hf.2) (set_dl cur g y) (set_dl cur f x))
  | settle a =>
    show LInv (settle s a).1
    generalize hres : settle s a = res
    unfold settle at hres
    split at hres
    · cases hres; exact hl
    · rename_i val hg
      have hf := get_facts hg
      split at hres
      · cases hres; exact hl.keep (Keep.update hg hf.1 hf.1 hf.2 hf.2 rfl rfl)
      · split at hres
        · cases hres; exact hl
        · simp only at hres
          cases hres
          exact hl.keep (Keep.update hg hf.1 hf.1 hf.2 hf.2 rfl rfl)
  | penal a amount =>
    show LInv (penalize c s a amount).1
    generalize hres : penalize c s a amount = res
    unfold penalize at hres
    split at hres
    · cases hres; exact hl
    · rename_i val hg
      have hf := get_facts hg
      have hdl := hok val hg
      split at hres
      · split at hres
        · cases hres; exact hl
        · rename_i s1 nv htp
          cases hres
          obtain ⟨_, _, _, _, _, e6, e7⟩ := takePenalty_spec htp
          unfold takePenalty at htp
          simp only [Option.some.injEq, Prod.mk.injEq] at htp
          obtain ⟨e1, e2⟩ := htp
          subst e1
          have k1 : Keep s { s with queue := (penaltyRec c s.queue val amount).1 } := Keep.queue s _
          have hg1 : get ({ s with queue := (penaltyRec c s.queue val amount).1 } : St).vals a = some val := hg
          have k2 : Keep { s with queue := (penaltyRec c s.queue val amount).1 }
              (updateValidator { s with queue := (penaltyRec c s.queue val amount).1 } { nv with status := 0, expelled := true } val).1 :=
            Keep.update hg1 (by show nv.addr = a; rw [e6]; exact hf.1) hf.1 hf.2 (by show nv.deleted = false; rw [e7]; exact hf.2) rfl
              (by show dl nv = dl val; rw [← e2]; exact hdl)
          exact hl.keep (k1.trans k2)
      · cases hres
        exact hl.keep (Keep.update hg hf.1 hf.1 hf.2 hf.2 rfl rfl)
  | dadd d a value =>
    show LInv (teDelegationAdd c s d a value).1
    generalize hres : teDelegationAdd c s d a value = res
    unfold teDelegationAdd at hres
    split at hres
    · cases hres; exact hl
    · rename_i val hg
      have hf := get_facts hg
      have hr : LInv (if c.v5 = true then ensureAcct s d else s) := by
        split
        · exact ensureAcct_linv hl d
        · exact hl
      simp only at hres
      split at hres
      · cases hres; exact hr
      · split at hres
        · cases hres; exact hr
        · cases hres
          have hx : (getAcct s.accts d).isSome := hok
          obtain ⟨x, hx'⟩ := Option.isSome_iff_exists.mp hx
          exact updateDelegation_linv c hl d value (by rw [hf.1]; exact hg) hx'
  | dsub d a value nonce =>
    show LInv (teDelegationSub c s d a value nonce).1
    rcases teDelegationSub_cases c s d a value nonce with e | ⟨val, df, hg, hdf, hpos, e⟩
    · rw [e]; exact hl
    · rw [e]
      have hf := get_facts hg
      have hg' : get s.vals val.addr = some val := by rw [hf.1]; exact hg
      -- the delegator has an account, because the validator lists it and the links agree
      have hmem : d ∈ dl val := by
        have := findDlg_some hdf
        exact List.mem_map.mpr ⟨df, this.1, this.2⟩
      obtain ⟨l, hl1, _⟩ := (hl.cur d a).mpr ⟨dl val, by simp [vdOf, hg], hmem⟩
      have hx : ∃ x, getAcct s.accts d = some x := by
        unfold avOf at hl1
        cases hga : getAcct s.accts d with
        | none => rw [hga] at hl1; cases hl1
        | some x => exact ⟨x, rfl⟩
      obtain ⟨x, hx'⟩ := hx
      have h1 := updateDelegation_linv c hl d (-dsubAmt c val df value) hg' hx'
      obtain ⟨s1a, s1d, s1g, _⟩ := updateDelegation_spec c hi d (-dsubAmt c val df value) hg'
      unfold dsubTail
      simp only
      generalize updateDelegation c s d val (-dsubAmt c val df value) = ud at h1 s1a s1d s1g ⊢
      obtain ⟨s1, nv, o⟩ := ud
      simp only at h1 s1a s1d s1g ⊢
      rw [← s1a] at s1g
      by_cases hcnd : (nv.online && decide (u64 nv.stake < c.minStake nv.role)) = true
      · simp only [hcnd, if_true]
        have k1 : Keep s1 (updateValidator s1 { nv with status := 0 } nv).1 :=
          Keep.update s1g rfl rfl s1d s1d rfl rfl
        exact h1.keep (k1.trans (Keep.pushUBD _ _))
      · simp only [hcnd, Bool.false_eq_true, if_false]
        exact h1.keep (Keep.pushUBD _ _)
  | iroot de =>
    show LInv (if flushCrashes de s then (s, Out.res .crash) else (iroot de s, Out.unit)).1
    split
    · exact hl
    · exact LInv.ofCur (iroot_cur de hl hs hok) (iroot_revs de s)
  | reload de =>
    show LInv (if flushCrashes de s then (s, Out.res .crash) else (reload de s, Out.unit)).1
    split
    · exact hl
    · have hc := iroot_cur de hl hs hok
      have hn := (hi.iroot de).nodup
      refine LInv.ofCur ?_ (iroot_revs de s)
      have ev : vdOf (reload de s) = vdOf (iroot de s) := by
        funext a'
        show (get ((iroot de s).vals.filter (fun v => !v.deleted)) a').map dl = _
        rw [get_filter hn _ (by intro v hv; simp [hv])]; rfl
      rw [show avOf (reload de s) = avOf (iroot de s) from rfl, ev]
      exact hc
  | copy =>
    show LInv (copy s)
    refine LInv.ofCur ?_ rfl
    have ev : vdOf (copy s) = vdOf s := by
      funext a'
      show (get (s.vals.filter (fun v => !v.deleted || (addDirty s.vals s.dirty s.vj).contains v.addr)) a').map dl = _
      rw [get_filter hi.nodup _ (by intro v hv; simp [hv])]; rfl
    rw [show avOf (copy s) = avOf s from rfl, ev]
    exact hl.cur

/-- all three invariants along a handler-level run -/
theorem run_all (c : Cfg) (hu : 0 < c.unit) : ∀ (ops : List Op) (s : St), Inv s → SInv c.unit s → LInv s →
    (∀ op ∈ ops, op.hl c = true) → LSafe c s ops →
    Inv (run c s ops) ∧ SInv c.unit (run c s ops) ∧ LInv (run c s ops) := by
  intro ops
  induction ops with
  | nil => intro s h1 h2 h3 _ _; exact ⟨h1, h2, h3⟩
  | cons op ops ih =>
    intro s h1 h2 h3 hall hsafe
    have hop := hall op List.mem_cons_self
    have h2' := step_sinv c h2 op hop
    have h1' := step_inv c h1 op (hl_opOk c s op hop) (h2'.nonNeg hu)
    have h3' := step_linv c h1 h2 h3 op hop hsafe.1
    show Inv (run c (step c s op).1 ops) ∧ SInv c.unit (run c (step c s op).1 ops) ∧ LInv (run c (step c s op).1 ops)
    exact ih _ h1' h2' h3' (fun o ho => hall o (List.mem_cons_of_mem _ ho)) hsafe.2


/-! ### a decidable sufficient condition for `LSafe` (non-vacuity examples) -/

def lokB (c : Cfg) (s : St) : Op → Bool
  | .dadd d _ _ => (getAcct s.accts d).isSome
  | .deleg d _ _ => (getAcct s.accts d).isSome
  | .penal a amount =>
    match get s.vals a with
    | some val => dl (penaltyRec c s.queue val amount).2 == dl val
    | none => true
  | .iroot _ => s.vals.all (fun v => decide (v.token < M64))
  | .reload _ => s.vals.all (fun v => decide (v.token < M64))
  | _ => true

def lSafeB (c : Cfg) : St → List Op → Bool
  | _, [] => true
  | s, op :: ops => lokB c s op && lSafeB c (step c s op).1 ops

theorem smallB_sound {s : St} (h : s.vals.all (fun v => decide (v.token < M64)) = true) :
    ∀ a v, get s.vals a = some v → v.token < M64 := by
  intro a v hv
  have hm : v ∈ s.vals := List.mem_of_find?_eq_some (get_some.mp hv).1
  simpa using List.all_eq_true.mp h v hm

theorem lokB_sound {c : Cfg} {s : St} {op : Op} (h : lokB c s op = true) : LOk c s op := by
  cases op with
  | dadd d a v => exact h
  | deleg d a v => exact h
  | penal a amount =>
    intro val hg
    simp only [lokB, hg, beq_iff_eq] at h
    exact h
  | iroot de => exact smallB_sound h
  | reload de => exact smallB_sound h
  | _ => trivial

theorem lSafeB_sound (c : Cfg) : ∀ (ops : List Op) (s : St), lSafeB c s ops = true → LSafe c s ops := by
  intro ops
  induction ops with
  | nil => intro _ _; trivial
  | cons op ops ih =>
    intro s h
    simp only [lSafeB, Bool.and_eq_true] at h
    exact ⟨lokB_sound h.1, ih _ h.2⟩

end YouVerif.C08
