/-
C18 — Schedule only accepts a hash-linked chain: each accepted header names the previous accepted
header's hash as its parent (whenever that hash is not the zero hash, which `headerHead` treats as "unset").
-/
import YouVerif.C18.ProofsFull
namespace YouVerif.C18

structure Link (s : State) : Prop where
  chain : ∀ i a b, s.sched[i]? = some a → s.sched[i + 1]? = some b → a.hash ≠ 0 → b.parent = a.hash
  last : ∀ a, s.sched.getLast? = some a → s.head = a.hash

theorem link_init (c m : Nat) (f : Bool) (o : Nat) : Link (init c m f o) :=
  ⟨by intro i a b h; simp [init] at h, by intro a h; simp [init] at h⟩

theorem link_schedOne {s : State} (hl : Link s) (h : Header) (hp : s.head = 0 ∨ s.head = h.parent) :
    Link (schedOne s h) where
  chain := by
    intro i a b ha hb hne
    have ha' : (s.sched ++ [h])[i]? = some a := ha
    have hb' : (s.sched ++ [h])[i + 1]? = some b := hb
    by_cases hlt : i + 1 < s.sched.length
    · rw [List.getElem?_append_left (by omega)] at ha'
      rw [List.getElem?_append_left hlt] at hb'
      exact hl.chain i a b ha' hb' hne
    · have hi1 : i + 1 = s.sched.length := by
        rcases Nat.lt_or_ge (i + 1) (s.sched.length + 1) with h1 | h1
        · omega
        · have : (s.sched ++ [h]).length ≤ i + 1 := by simp; omega
          rw [List.getElem?_eq_none this] at hb'; cases hb'
      rw [List.getElem?_append_right (by omega)] at hb'
      have : i + 1 - s.sched.length = 0 := by omega
      rw [this] at hb'
      simp only [List.getElem?_cons_zero, Option.some.injEq] at hb'
      subst hb'
      rw [List.getElem?_append_left (by omega)] at ha'
      have hlast : s.sched.getLast? = some a := by
        rw [List.getLast?_eq_getElem?]
        have : s.sched.length - 1 = i := by omega
        rw [this]; exact ha'
      have := hl.last a hlast
      rcases hp with hp | hp
      · rw [hp] at this; exact absurd this.symm hne
      · rw [← hp, this]
  last := by
    intro a ha
    have : (s.sched ++ [h]).getLast? = some a := ha
    simp only [List.getLast?_append, List.getLast?_singleton, Option.some_or, Option.some.injEq] at this
    subst this; rfl

theorem link_scheduleLoop {s : State} (hl : Link s) (hs : List Header) (f : Nat) : Link (scheduleLoop hs f s).1 := by
  induction hs generalizing f s with
  | nil => exact hl
  | cons h t ih =>
    simp only [scheduleLoop, schedOneFast_eq]
    split
    · exact hl
    · split
      · exact hl
      · rename_i hc
        split
        · exact ih hl f
        · split
          · exact ih hl f
          · apply ih (link_schedOne hl h _)
            apply Classical.byContradiction
            intro hn
            apply hc
            constructor
            · intro e; exact hn (Or.inl e)
            · intro e; exact hn (Or.inr e)

theorem link_step {s : State} (hl : Link s) (op : Op) : Link (step s op) := by
  cases op with
  | schedule hs f => exact link_scheduleLoop hl hs f
  | reserve k l p c =>
    have hf := reserve_frame s k l p c
    have hh : (reserve s k l p c).1.head = s.head := by
      simp only [reserve]
      split
      · rfl
      · split
        · rfl
        · split
          · rfl
          · split <;> rfl
    exact ⟨by rw [show (step s (.reserve k l p c)).sched = s.sched from hf.sched]; exact hl.chain,
           by rw [show (step s (.reserve k l p c)).sched = s.sched from hf.sched,
                  show (step s (.reserve k l p c)).head = s.head from hh]; exact hl.last⟩
  | deliver k p bs =>
    have hf := deliver_frame s k p bs
    have hh : (deliver s k p bs).1.head = s.head := by
      simp only [deliver]
      split <;> rfl
    exact ⟨by rw [show (step s (.deliver k p bs)).sched = s.sched from hf.sched]; exact hl.chain,
           by rw [show (step s (.deliver k p bs)).sched = s.sched from hf.sched,
                  show (step s (.deliver k p bs)).head = s.head from hh]; exact hl.last⟩
  | cancel k p => exact ⟨hl.chain, hl.last⟩
  | expire k ps => exact ⟨hl.chain, hl.last⟩
  | revoke p => exact ⟨hl.chain, hl.last⟩
  | results => exact ⟨hl.chain, hl.last⟩

theorem link_run {s : State} (hl : Link s) (ops : List Op) : Link (run s ops) := by
  induction ops generalizing s with
  | nil => exact hl
  | cons op ops ih => exact ih (link_step hl op)

end YouVerif.C18
