/-
C18 — executable model of the body/receipt bookkeeping of you/downloader/queue.go
(`Prepare`, `Schedule`, `reserveHeaders`, `deliver`, `cancel`, `expire`, `Revoke`, `Results`,
`resultSlots`, `countProcessableItems`).  Core Lean only.

Abstractions (all stated in props/C18.json):
* a header is a record (number, hash id, parent hash id, tx-root id, receipt-root id); Go maps keyed by the
  Keccak hash of a header are modelled as sets of header records (equal record ⇒ equal hash; distinct
  records with one hash would be a Keccak collision);
* a delivered body / receipt list is represented by the id of its `DeriveSha` digest (root id 0 = EmptyRootHash);
* `resultCache` (a fixed array indexed by `number - resultOffset`, shifted by `Results`) is modelled as a finite
  map keyed by the absolute block number: slot `i` ↔ key `resultOffset + i`;
* the memory-capped window length `limit` computed from the float moving average `resultSize` is an input of
  every operation that calls `resultSlots`;
* wall-clock expiry is an explicit operation naming the overdue peers.
Ghost fields (`origin`, `sched`, `ret`, `failed`) record the history; no modelled decision reads them.
-/
namespace YouVerif.C18

structure Header where
  num : Nat
  hash : Nat
  parent : Nat
  txRoot : Nat
  rcRoot : Nat
  numNil : Bool
deriving DecidableEq, Repr, Inhabited

/-- fetchResult -/
structure Result where
  pending : Int
  header : Header
  txs : Option Nat
  rcs : Option Nat
deriving DecidableEq, Repr, Inhabited

inductive Kind | body | rcpt
deriving DecidableEq, Repr

/-- the four containers `reserveHeaders`/`deliver`/`cancel`/`expire` are instantiated with -/
structure Pools where
  pool : List Header := []                 -- taskPool   (map hash → header)
  queue : List Header := []                -- taskQueue  (priority queue, lowest number first)
  pend : List (Nat × List Header) := []    -- pendPool   (peer id → request.Headers)
  done : List Header := []                 -- donePool   (set of hashes)
deriving Repr, Inhabited

structure Cfg where
  cacheLen : Nat      -- len(resultCache) = blockCacheItems
  maxProc : Nat       -- maxResultsProcess
  fast : Bool         -- mode == FastSync || mode == LightSync
deriving Repr, Inhabited

abbrev Cache := List (Nat × Result)

structure State where
  cfg : Cfg
  offset : Nat                              -- resultOffset
  head : Nat                                -- headerHead (0 = zero hash)
  pools : Kind → Pools                      -- block* and receipt* containers
  cache : Cache
  lacking : List (Nat × List Header)        -- per peer connection
  -- ghost history
  origin : Nat
  sched : List Header
  ret : List Result
  failed : Bool

def init (cacheLen maxProc : Nat) (fast : Bool) (offset : Nat) : State :=
  { cfg := ⟨cacheLen, maxProc, fast⟩, offset := offset, head := 0, pools := fun _ => {}, cache := [], lacking := [],
    origin := offset, sched := [], ret := [], failed := false }

/-- a new sync cycle on the same queue object (`spawnSync`: Close; `synchronise`: queue.Reset, peers.Reset;
`syncWithPeer`: Prepare): every container is emptied, the result cache is reallocated, `resultOffset` restarts at the
new origin, the peers' lacking sets are cleared; only the sizing (and the float `resultSize`, an input here) survives -/
def reset (s : State) (offset : Nat) (fast : Bool) : State := init s.cfg.cacheLen s.cfg.maxProc fast offset

/-! ### finite maps as association lists -/

def cget : Cache → Nat → Option Result
  | [], _ => none
  | (k, v) :: t, n => if k = n then some v else cget t n

def cerase : Cache → Nat → Cache
  | [], _ => []
  | (k, v) :: t, n => if k = n then cerase t n else (k, v) :: cerase t n

def cset (c : Cache) (n : Nat) (r : Result) : Cache := (n, r) :: cerase c n

def pget : List (Nat × List Header) → Nat → Option (List Header)
  | [], _ => none
  | (k, v) :: t, p => if k = p then some v else pget t p

/-- `delete(pendPool, id)`; Go map keys are unique, so removing the first match is the whole delete -/
def perase : List (Nat × List Header) → Nat → List (Nat × List Header)
  | [], _ => []
  | (k, v) :: t, p => if k = p then t else (k, v) :: perase t p

/-- all headers currently in flight -/
def pendAll : List (Nat × List Header) → List Header
  | [] => []
  | (_, v) :: t => v ++ pendAll t

def lget (l : List (Nat × List Header)) (p : Nat) : List Header := (pget l p).getD []

def insertSet (h : Header) (l : List Header) : List Header := if h ∈ l then l else h :: l

def removeAll (h : Header) (l : List Header) : List Header := l.filter (· ≠ h)

/-- `prque.Push(header, -number)`: the queue is kept in pop order -/
def insertSorted (h : Header) : List Header → List Header
  | [] => [h]
  | x :: xs => if h.num < x.num then h :: x :: xs else x :: insertSorted h xs

def pushAll (hs : List Header) (q : List Header) : List Header := hs.foldl (fun q h => insertSorted h q) q

/-! ### accessors by kind -/

def State.setPools (s : State) (k : Kind) (p : Pools) : State :=
  { s with pools := fun k' => if k' = k then p else s.pools k' }

abbrev State.b (s : State) : Pools := s.pools .body
abbrev State.r (s : State) : Pools := s.pools .rcpt

def root (k : Kind) (h : Header) : Nat :=
  match k with
  | .body => h.txRoot
  | .rcpt => h.rcRoot

def isNoop (k : Kind) (h : Header) : Bool := root k h == 0

def comps (cfg : Cfg) : Int := if cfg.fast then 2 else 1

def setContent (k : Kind) (r : Result) (b : Nat) : Result :=
  match k with
  | .body => { r with txs := some b }
  | .rcpt => { r with rcs := some b }

/-! ### resultSlots -/

/-- the `finished` loop: walk slots 0..limit-1 until the first nil, count those whose hash is done -/
def finishedCount (cache : Cache) (done : List Header) (offset : Nat) : Nat → Nat → Nat
  | 0, _ => 0
  | f + 1, i =>
    match cget cache (offset + i) with
    | none => 0
    | some r => (if r.header ∈ done then 1 else 0) + finishedCount cache done offset f (i + 1)

def pendingCount (pend : List (Nat × List Header)) (offset limit : Nat) : Nat :=
  ((pendAll pend).filter (fun h => h.num < offset + limit)).length

def resultSlots (s : State) (k : Kind) (limit : Nat) : Int :=
  (limit : Int) - (finishedCount s.cache (s.pools k).done s.offset limit 0 : Nat) - (pendingCount (s.pools k).pend s.offset limit : Nat)

/-! ### Schedule -/

/-- one accepted header: queued for body retrieval (and receipt retrieval in fast/light mode) -/
def schedOne (s : State) (h : Header) : State :=
  { s with head := h.hash,
           pools := fun k =>
             if k = .body ∨ s.cfg.fast = true then
               { s.pools k with pool := h :: (s.pools k).pool, queue := insertSorted h (s.pools k).queue }
             else s.pools k,
           sched := s.sched ++ [h] }

def addTask (p : Pools) (h : Header) : Pools := { p with pool := h :: p.pool, queue := insertSorted h p.queue }

/-- `schedOne` with the two new pool records computed once, before the closure is built (same state, see
`schedOneFast_eq`; `schedOne` itself would recompute them at every later lookup, which is cubic on long chains) -/
def schedOneFast (s : State) (h : Header) : State :=
  let pb := addTask (s.pools .body) h
  let pr := if s.cfg.fast = true then addTask (s.pools .rcpt) h else s.pools .rcpt
  { s with head := h.hash,
           pools := fun k => match k with | .body => pb | .rcpt => pr,
           sched := s.sched ++ [h] }

/-- the loop of Schedule; returns the new state and `len(inserts)` -/
def scheduleLoop : List Header → Nat → State → State × Nat
  | [], _, s => (s, 0)
  | h :: hs, from_, s =>
    if h.numNil = true ∨ h.num ≠ from_ then (s, 0)
    else if s.head ≠ 0 ∧ s.head ≠ h.parent then (s, 0)
    else if h ∈ (s.pools .body).pool then scheduleLoop hs from_ s
    else if h ∈ (s.pools .rcpt).pool then scheduleLoop hs from_ s
    else
      let (s', n) := scheduleLoop hs (from_ + 1) (schedOneFast s h)
      (s', n + 1)

def schedule (s : State) (hs : List Header) (from_ : Nat) : State × Nat := scheduleLoop hs from_ s

/-! ### reserveHeaders -/

structure RAcc where
  space : Int
  proc : Int
  send : List Header
  skip : List Header
  cache : Cache
  pool : List Header
  done : List Header
  progress : Bool
  err : Bool
deriving Repr

def allocSlot (cfg : Cfg) (c : Cache) (h : Header) : Cache :=
  match cget c h.num with
  | none => cset c h.num { pending := comps cfg, header := h, txs := none, rcs := none }
  | some _ => c

/-- one component of block `h` is complete: `Pending--`, and (deliver only) the content is stored -/
def complete (c : Cache) (k : Kind) (h : Header) (b : Option Nat) : Cache :=
  match cget c h.num with
  | none => c
  | some r =>
    cset c h.num { (match b with | some b => setContent k r b | none => r) with pending := r.pending - 1 }

/-- the pop loop of reserveHeaders; returns the remaining queue and the accumulator -/
def reserveLoop (cfg : Cfg) (k : Kind) (offset count : Nat) (lack : List Header) :
    List Header → RAcc → List Header × RAcc
  | [], a => ([], a)
  | h :: q, a =>
    if a.proc < a.space ∧ a.send.length < count then
      if h.num < offset ∨ offset + cfg.cacheLen ≤ h.num then
        (q, { a with err := true })          -- errInvalidChain: the popped header and send/skip are dropped
      else
        let c1 := allocSlot cfg a.cache h
        if isNoop k h then
          reserveLoop cfg k offset count lack q
            { a with space := a.space - 1, cache := complete c1 k h none, done := insertSet h a.done,
                     pool := removeAll h a.pool, progress := true }
        else if h ∈ lack then
          reserveLoop cfg k offset count lack q { a with proc := a.proc + 1, cache := c1, skip := a.skip ++ [h] }
        else
          reserveLoop cfg k offset count lack q { a with proc := a.proc + 1, cache := c1, send := a.send ++ [h] }
    else (h :: q, a)

def RAcc.start (space : Int) (cache : Cache) (pool done : List Header) : RAcc :=
  { space := space, proc := 0, send := [], skip := [], cache := cache, pool := pool, done := done,
    progress := false, err := false }

inductive Err | ok | nofetch | stale | invalidchain | partialFail
deriving DecidableEq, Repr

structure ReserveOut where
  req : Option (List Header)
  progress : Bool
  err : Err
deriving Repr

def reserve (s : State) (k : Kind) (limit peer count : Nat) : State × ReserveOut :=
  let p := s.pools k
  if p.queue.isEmpty then (s, ⟨none, false, .ok⟩)
  else if (pget p.pend peer).isSome then (s, ⟨none, false, .ok⟩)
  else
    let space := resultSlots s k limit
    let (q, a) := reserveLoop s.cfg k s.offset count (lget s.lacking peer) p.queue
      (RAcc.start space s.cache p.pool p.done)
    if a.err then
      (({ s with cache := a.cache, failed := true }).setPools k { p with queue := q, pool := a.pool, done := a.done },
       ⟨none, false, .invalidchain⟩)
    else
      let q' := pushAll a.skip q
      if a.send.isEmpty then
        (({ s with cache := a.cache }).setPools k { p with queue := q', pool := a.pool, done := a.done },
         ⟨none, a.progress, .ok⟩)
      else
        (({ s with cache := a.cache }).setPools k
            { queue := q', pool := a.pool, done := a.done, pend := (peer, a.send) :: p.pend },
         ⟨some a.send, a.progress, .ok⟩)

/-! ### deliver -/

inductive Fail | none | invalidChain | badData
deriving DecidableEq, Repr

structure DAcc where
  cache : Cache
  pool : List Header
  done : List Header
  accepted : Nat
deriving Repr

/-- the assembly loop of deliver; returns the headers to requeue, the accumulator and the failure -/
def deliverLoop (cfg : Cfg) (k : Kind) (offset : Nat) : List Header → List Nat → DAcc → List Header × DAcc × Fail
  | [], _, a => ([], a, .none)
  | h :: hs, [], a => (h :: hs, a, .none)
  | h :: hs, b :: bs, a =>
    if h.num < offset ∨ offset + cfg.cacheLen ≤ h.num then (h :: hs, a, .invalidChain)
    else
      if (cget a.cache h.num).isNone then (h :: hs, a, .invalidChain)
      else if b ≠ root k h then (h :: hs, a, .badData)
      else
        deliverLoop cfg k offset hs bs
          { cache := complete a.cache k h (some b),
            pool := removeAll h a.pool, done := insertSet h a.done, accepted := a.accepted + 1 }

def DAcc.start (cache : Cache) (pool done : List Header) : DAcc :=
  { cache := cache, pool := pool, done := done, accepted := 0 }

def markLacking (l : List (Nat × List Header)) (peer : Nat) (hs : List Header) : List (Nat × List Header) :=
  (peer, hs.foldl (fun acc h => insertSet h acc) (lget l peer)) :: perase l peer

def deliver (s : State) (k : Kind) (peer : Nat) (bodies : List Nat) : State × Nat × Err :=
  let p := s.pools k
  match pget p.pend peer with
  | none => (s, 0, .nofetch)
  | some hs =>
    let lacking := if bodies.isEmpty then markLacking s.lacking peer hs else s.lacking
    let (rest, a, f) := deliverLoop s.cfg k s.offset hs bodies (DAcc.start s.cache p.pool p.done)
    let s' := ({ s with cache := a.cache, lacking := lacking, failed := s.failed || (f == Fail.invalidChain) }).setPools k
      { pool := a.pool, done := a.done, pend := perase p.pend peer, queue := pushAll rest p.queue }
    let e : Err :=
      match f with
      | .none => .ok
      | .invalidChain => .invalidchain
      | .badData => if a.accepted > 0 then .partialFail else .stale
    (s', a.accepted, e)

/-! ### cancel / expire / Revoke -/

def cancelPools (p : Pools) (peer : Nat) : Pools × Bool :=
  match pget p.pend peer with
  | none => (p, false)
  | some hs => ({ p with queue := pushAll hs p.queue, pend := perase p.pend peer }, true)

/-- `cancel(request)` for the request currently pending for `peer` (the only request fetchParts could pass) -/
def cancel (s : State) (k : Kind) (peer : Nat) : State × Bool :=
  let (p, ok) := cancelPools (s.pools k) peer
  (s.setPools k p, ok)

/-- `expire`: the requests of the overdue peers go back to the queue; returns `expiries` in the given order -/
def expireLoop : List Nat → Pools → List (Nat × Nat) → Pools × List (Nat × Nat)
  | [], p, out => (p, out)
  | peer :: rest, p, out =>
    match pget p.pend peer with
    | none => expireLoop rest p out
    | some hs => expireLoop rest { p with queue := pushAll hs p.queue, pend := perase p.pend peer } (out ++ [(peer, hs.length)])

def expire (s : State) (k : Kind) (overdue : List Nat) : State × List (Nat × Nat) :=
  let (p, out) := expireLoop overdue (s.pools k) []
  (s.setPools k p, out)

def revoke (s : State) (peer : Nat) : State :=
  { s with pools := fun k => (cancelPools (s.pools k) peer).1 }

/-! ### Results -/

/-- countProcessableItems: number of leading slots that are non-nil with `Pending <= 0` -/
def countProc (cache : Cache) (offset : Nat) : Nat → Nat → Nat
  | 0, _ => 0
  | f + 1, i =>
    match cget cache (offset + i) with
    | none => 0
    | some r => if r.pending > 0 then 0 else 1 + countProc cache offset f (i + 1)

def takeResults (cache : Cache) (offset : Nat) : Nat → List Result
  | 0 => []
  | n + 1 =>
    match cget cache offset with
    | none => []
    | some r => r :: takeResults cache (offset + 1) n

/-- `delete(donePool, result.Header.Hash())` for every returned result -/
def removeHeaders (rs : List Result) (l : List Header) : List Header :=
  l.filter (fun h => !(rs.any (fun r => r.header == h)))

/-- `copy(resultCache, resultCache[n:])` + clearing the tail: slots 0..n-1 disappear -/
def ceraseRange (c : Cache) (lo n : Nat) : Cache := c.filter (fun e => e.1 < lo || lo + n ≤ e.1)

def results (s : State) : State × List Result :=
  let n := min (countProc s.cache s.offset s.cfg.cacheLen 0) s.cfg.maxProc
  let rs := takeResults s.cache s.offset n
  ({ s with pools := fun k => { s.pools k with done := removeHeaders rs (s.pools k).done },
            cache := ceraseRange s.cache s.offset n,
            offset := s.offset + n, ret := s.ret ++ rs }, rs)

/-! ### operations and runs -/

inductive Op
  | schedule (hs : List Header) (from_ : Nat)
  | reserve (k : Kind) (limit peer count : Nat)
  | deliver (k : Kind) (peer : Nat) (bodies : List Nat)
  | cancel (k : Kind) (peer : Nat)
  | expire (k : Kind) (overdue : List Nat)
  | revoke (peer : Nat)
  | results
deriving Repr

def step (s : State) : Op → State
  | .schedule hs f => (schedule s hs f).1
  | .reserve k l p c => (reserve s k l p c).1
  | .deliver k p bs => (deliver s k p bs).1
  | .cancel k p => (cancel s k p).1
  | .expire k ps => (expire s k ps).1
  | .revoke p => revoke s p
  | .results => (results s).1

def run (s : State) (ops : List Op) : State := ops.foldl step s

/-! ### observers used by the driver -/

def pendingTasks (s : State) (k : Kind) : Nat := (s.pools k).queue.length
def inFlight (s : State) (k : Kind) : Bool := !(s.pools k).pend.isEmpty
def idle (s : State) : Bool :=
  s.b.queue.length + s.r.queue.length + s.b.pend.length + s.r.pend.length + s.b.done.length + s.r.done.length == 0
def shouldThrottle (s : State) (k : Kind) (limit : Nat) : Bool := resultSlots s k limit ≤ 0

end YouVerif.C18
