/-
C18 — `Results` preserves the invariant: what it returns is the next stretch of the scheduled chain,
complete and with matching content.
-/
import YouVerif.C18.ProofsOps
namespace YouVerif.C18

theorem countProc_spec (c : Cache) (o : Nat) :
    ∀ (f i j : Nat), j < countProc c o f i → ∃ r, cget c (o + (i + j)) = some r ∧ r.pending ≤ 0 := by
  intro f
  induction f with
  | zero => intro i j h; simp [countProc] at h
  | succ f ih =>
    intro i j h
    simp only [countProc] at h
    split at h
    · omega
    · rename_i r hr
      split at h
      · omega
      · rename_i hp
        cases j with
        | zero => exact ⟨r, by simpa using hr, by omega⟩
        | succ j =>
          obtain ⟨r', h1, h2⟩ := ih (i + 1) j (by omega)
          refine ⟨r', ?_, h2⟩
          have : o + (i + (j + 1)) = o + (i + 1 + j) := by omega
          rw [this]; exact h1

theorem takeResults_spec (c : Cache) :
    ∀ (n o : Nat), (∀ j, j < n → ∃ r, cget c (o + j) = some r) →
      (takeResults c o n).length = n ∧ ∀ j, j < n → (takeResults c o n)[j]? = cget c (o + j) := by
  intro n
  induction n with
  | zero => intro o _; exact ⟨rfl, fun j hj => by omega⟩
  | succ n ih =>
    intro o hall
    obtain ⟨r, hr⟩ := hall 0 (by omega)
    simp only [Nat.add_zero] at hr
    have hrest : ∀ j, j < n → ∃ r, cget c (o + 1 + j) = some r := by
      intro j hj
      obtain ⟨r', h'⟩ := hall (j + 1) (by omega)
      exact ⟨r', by rw [← h']; congr 1; omega⟩
    obtain ⟨hl, hg⟩ := ih (o + 1) hrest
    simp only [takeResults, hr]
    refine ⟨by simp [hl], ?_⟩
    intro j hj
    cases j with
    | zero => simp [hr]
    | succ j =>
      simp only [List.getElem?_cons_succ]
      rw [hg j (by omega)]; congr 1; omega

theorem mem_removeHeaders {x : Header} {rs : List Result} {l : List Header} :
    x ∈ removeHeaders rs l ↔ x ∈ l ∧ ¬ ∃ r ∈ rs, r.header = x := by
  simp [removeHeaders, List.mem_filter]

theorem map_header_eq (sched : List Header) (origin a : Nat) (l : List Result)
    (hnum : ∀ i h, sched[i]? = some h → h.num = origin + i)
    (hl : ∀ j r, l[j]? = some r → r.header ∈ sched ∧ r.header.num = origin + a + j) :
    l.map (·.header) = (sched.drop a).take l.length := by
  apply List.ext_getElem?
  intro j
  rw [List.getElem?_map, List.getElem?_take, List.getElem?_drop]
  cases hj : l[j]? with
  | none =>
    have : l.length ≤ j := by
      rcases Nat.lt_or_ge j l.length with h | h
      · rw [List.getElem?_eq_getElem h] at hj; cases hj
      · exact h
    simp [Nat.not_lt.mpr this]
  | some r =>
    have hlt : j < l.length := by
      rcases Nat.lt_or_ge j l.length with h | h
      · exact h
      · rw [List.getElem?_eq_none h] at hj; cases hj
    obtain ⟨hm, hn⟩ := hl j r hj
    obtain ⟨i, hi⟩ := List.mem_iff_getElem?.mp hm
    have := hnum i _ hi
    have : i = a + j := by omega
    subst this
    simp [hlt, hi]

theorem inv_results {s : State} (hi : Inv s) : Inv (results s).1 := by
  -- abbreviations
  let n := min (countProc s.cache s.offset s.cfg.cacheLen 0) s.cfg.maxProc
  let rs := takeResults s.cache s.offset n
  have hnle : n ≤ countProc s.cache s.offset s.cfg.cacheLen 0 := Nat.min_le_left _ _
  have hproc : ∀ j, j < n → ∃ r, cget s.cache (s.offset + j) = some r ∧ r.pending ≤ 0 := by
    intro j hj
    have := countProc_spec s.cache s.offset s.cfg.cacheLen 0 j (by omega)
    simpa using this
  obtain ⟨hlen, hget⟩ := takeResults_spec s.cache n s.offset (fun j hj => by
    obtain ⟨r, h1, _⟩ := hproc j hj; exact ⟨r, h1⟩)
  -- every returned result is a complete cache entry
  have hrs : ∀ j r, rs[j]? = some r → j < n ∧ cget s.cache (s.offset + j) = some r ∧ r.pending ≤ 0 := by
    intro j r hjr
    have hj : j < n := by
      rcases Nat.lt_or_ge j n with h | h
      · exact h
      · have : rs.length ≤ j := by rw [hlen]; exact h
        rw [List.getElem?_eq_none this] at hjr; cases hjr
    have h1 := hget j hj
    rw [hjr] at h1
    obtain ⟨r', h2, h3⟩ := hproc j hj
    rw [h2] at h1; cases h1
    exact ⟨hj, h2, h3⟩
  have hdoneAll : ∀ r, cget s.cache r.header.num = some r → r.pending ≤ 0 →
      r.header ∈ (s.pools .body).done ∧ (s.cfg.fast = true → r.header ∈ (s.pools .rcpt).done) := by
    intro r hc hp
    have e := hi.cacheOK _ _ hc
    have hpe := e.pending
    simp only [pendingSpec] at hpe
    constructor
    · apply Classical.byContradiction; intro hnb
      simp only [hnb, if_false] at hpe
      split at hpe <;> (try split at hpe) <;> omega
    · intro hf
      apply Classical.byContradiction; intro hnb
      simp only [hf, if_true, hnb, if_false] at hpe
      split at hpe <;> omega
  -- returned headers are exactly the scheduled headers whose number lies in the released range
  have hretd : ∀ x, x ∈ s.sched → s.offset ≤ x.num → x.num < s.offset + n →
      (∃ r ∈ rs, r.header = x) ∧ x ∈ (s.pools .body).done ∧ (s.cfg.fast = true → x ∈ (s.pools .rcpt).done) := by
    intro x hx hlo hhi
    obtain ⟨r, h1, h2⟩ := hproc (x.num - s.offset) (by omega)
    have hk : s.offset + (x.num - s.offset) = x.num := by omega
    rw [hk] at h1
    have hrx : r.header = x := hi.entry_header hx h1
    have hmem : r ∈ rs := by
      apply List.mem_iff_getElem?.mpr
      refine ⟨x.num - s.offset, ?_⟩
      rw [hget _ (by omega), hk]; exact h1
    have := hdoneAll r (by rw [hrx]; exact h1) h2
    rw [hrx] at this
    exact ⟨⟨r, hmem, hrx⟩, this⟩
  have hrsnum : ∀ r ∈ rs, s.offset ≤ r.header.num ∧ r.header.num < s.offset + n := by
    intro r hr
    obtain ⟨j, hj⟩ := List.mem_iff_getElem?.mp hr
    obtain ⟨h1, h2, _⟩ := hrs j r hj
    have := (hi.cacheOK _ _ h2).num
    omega
  have hmemdone : ∀ k x, ¬ (s.offset ≤ x.num ∧ x.num < s.offset + n) →
      (x ∈ removeHeaders rs (s.pools k).done ↔ x ∈ (s.pools k).done) := by
    intro k x hx
    rw [mem_removeHeaders]
    constructor
    · exact fun h => h.1
    · intro h
      refine ⟨h, ?_⟩
      rintro ⟨r, hr, rfl⟩
      exact hx (hrsnum r hr)
  have hoccle : ∀ k x, occ { s.pools k with done := removeHeaders rs (s.pools k).done } x ≤ occ (s.pools k) x := by
    intro k x
    simp only [occ, count_removeHeaders]
    split <;> omega
  show Inv { s with pools := fun k => { s.pools k with done := removeHeaders rs (s.pools k).done },
                    cache := ceraseRange s.cache s.offset n, offset := s.offset + n, ret := s.ret ++ rs }
  exact
  { schedNum := hi.schedNum
    offsetEq := by
      show s.offset + n = s.origin + (s.ret ++ rs).length
      rw [List.length_append, hlen, hi.offsetEq]; omega
    retEq := by
      show (s.ret ++ rs).map (·.header) = s.sched.take (s.ret ++ rs).length
      rw [List.map_append, List.length_append, List.take_add, hi.retEq]
      congr 1
      apply map_header_eq s.sched s.origin s.ret.length rs hi.schedNum
      intro j r hjr
      obtain ⟨_, h2, _⟩ := hrs j r hjr
      have e := hi.cacheOK _ _ h2
      exact ⟨e.sched, by rw [e.num, hi.offsetEq]⟩
    retOK := by
      intro r hr
      show optRoot r.txs = r.header.txRoot ∧ (s.cfg.fast = true → optRoot r.rcs = r.header.rcRoot)
      have hr' : r ∈ s.ret ∨ r ∈ rs := List.mem_append.mp hr
      rcases hr' with hr' | hr'
      · exact hi.retOK r hr'
      · obtain ⟨j, hj⟩ := List.mem_iff_getElem?.mp hr'
        obtain ⟨_, h2, h3⟩ := hrs j r hj
        have e := hi.cacheOK _ _ h2
        have hc : cget s.cache r.header.num = some r := by rw [e.num]; exact h2
        obtain ⟨d1, d2⟩ := hdoneAll r hc h3
        exact ⟨e.content .body d1, fun hf => e.content .rcpt (d2 hf)⟩
    occLe := fun k x => Nat.le_trans (hoccle k x) (hi.occLe k x)
    occSched := by
      intro k x hp
      have hp0 : 0 < occ (s.pools k) x := Nat.lt_of_lt_of_le hp (hoccle k x)
      obtain ⟨hx, hlo⟩ := hi.occSched k x hp0
      refine ⟨hx, ?_⟩
      show s.offset + n ≤ x.num
      apply Classical.byContradiction; intro hlt
      obtain ⟨hex, hb, hr⟩ := hretd x hx hlo (by omega)
      have hle := hi.occLe k x
      simp only [occ, count_removeHeaders, hex, if_true] at hp hle
      cases k with
      | body =>
        have := (mem_iff_count_pos _ _).mp hb
        omega
      | rcpt =>
        cases hf : s.cfg.fast with
        | true =>
          have := (mem_iff_count_pos _ _).mp (hr hf)
          omega
        | false =>
          obtain ⟨q, p, _, _⟩ := hi.slow hf
          rw [q, p] at hp
          simp [pendAll] at hp
    poolSched := hi.poolSched
    cacheOK := by
      intro m r hc
      rw [cget_ceraseRange] at hc
      split at hc
      · cases hc
      · rename_i hout
        have e := hi.cacheOK m r hc
        have hout' : ¬ (s.offset ≤ r.header.num ∧ r.header.num < s.offset + n) := by rw [e.num]; exact hout
        exact
        { num := e.num, sched := e.sched
          lo := by show s.offset + n ≤ m; have := e.lo; omega
          hi := by show m < s.offset + n + s.cfg.cacheLen; have := e.hi; omega
          pending := by
            rw [e.pending]
            simp only [pendingSpec, hmemdone _ _ hout']
          content := fun k hm => e.content k ((hmemdone k _ hout').mp hm)
          fresh := fun k hm => e.fresh k (fun hm' => hm ((hmemdone k _ hout').mpr hm')) }
    doneCached := by
      intro k x hx
      have hx' := (mem_removeHeaders.mp hx)
      have hocc := mem_done_occ hx'.1
      obtain ⟨hxs, hlo⟩ := hi.occSched k x hocc
      have hout : ¬ (s.offset ≤ x.num ∧ x.num < s.offset + n) := by
        intro hin
        exact hx'.2 (hretd x hxs hin.1 hin.2).1
      obtain ⟨r, hr⟩ := hi.doneCached k x hx'.1
      exact ⟨r, by rw [cget_ceraseRange]; simp only [hout, if_false]; exact hr⟩
    slow := by
      intro hf
      obtain ⟨a, b, c, d⟩ := hi.slow hf
      refine ⟨a, b, ?_, d⟩
      show removeHeaders rs (s.pools .rcpt).done = []
      rw [c]; rfl }

end YouVerif.C18
