/-
C18 — counting lemmas behind the throttle: `resultSlots` never lets the pop loop leave the result window.
-/
import YouVerif.C18.ProofsExt
namespace YouVerif.C18

/-- a list whose i-th element has number `o + i` -/
def Consecutive (l : List Header) (o : Nat) : Prop := ∀ i x, l[i]? = some x → x.num = o + i

theorem Consecutive.tail {x : Header} {xs : List Header} {o : Nat} (h : Consecutive (x :: xs) o) :
    Consecutive xs (o + 1) := by
  intro i y hy
  have := h (i + 1) y (by simpa using hy)
  omega

theorem countP_window (l : List Header) (o B : Nat) (h : Consecutive l o) :
    l.countP (fun x => decide (x.num < B)) = min (B - o) l.length := by
  induction l generalizing o with
  | nil => simp
  | cons x xs ih =>
    have hx : x.num = o := by have := h 0 x (by simp); omega
    rw [List.countP_cons, ih (o + 1) h.tail]
    simp only [hx, List.length_cons]
    by_cases hb : o < B
    · simp only [hb, decide_true, if_true]; omega
    · simp only [hb, decide_false, Bool.false_eq_true, if_false]; omega

theorem Consecutive.mem_lt {l : List Header} {o : Nat} (h : Consecutive l o) {x : Header} (hx : x ∈ l) :
    x.num < o + l.length := by
  obtain ⟨i, hlt, rfl⟩ := List.mem_iff_getElem.mp hx
  have := h i l[i] (by simp [hlt])
  omega

theorem Consecutive.nodup {l : List Header} {o : Nat} (h : Consecutive l o) : l.Nodup := by
  induction l generalizing o with
  | nil => simp
  | cons x xs ih =>
    rw [List.nodup_cons]
    refine ⟨?_, ih h.tail⟩
    intro hm
    obtain ⟨i, hlt, he⟩ := List.mem_iff_getElem.mp hm
    have h1 := h.tail i xs[i] (by simp [hlt])
    have h2 := h 0 x (by simp)
    rw [he] at h1; omega

theorem consecutive_drop {s : State} (hi : Inv s) : Consecutive (s.sched.drop s.ret.length) s.offset := by
  intro i x hx
  rw [List.getElem?_drop] at hx
  have := hi.schedNum _ _ hx
  rw [hi.offsetEq]; omega

theorem countP_split {α : Type} (p q r : α → Bool) (l : List α)
    (h1 : ∀ x, p x = (q x || r x)) (h2 : ∀ x, ¬ (q x = true ∧ r x = true)) :
    l.countP p = l.countP q + l.countP r := by
  induction l with
  | nil => simp
  | cons x xs ih =>
    simp only [List.countP_cons, ih, h1 x]
    have := h2 x
    cases hq : q x <;> cases hr : r x <;> simp_all <;> omega

/-! ### the `finished` loop sees every completed slot of the window -/

theorem none_above {s : State} (he : Ext s) {n : Nat} (hn : s.offset ≤ n) (hc : cget s.cache n = none) :
    ∀ d, cget s.cache (n + d) = none := by
  intro d
  induction d with
  | zero => exact hc
  | succ d ih =>
    cases hs : cget s.cache (n + (d + 1)) with
    | none => rfl
    | some r =>
      have := he.pref (n + d) (by omega) (by rw [show n + d + 1 = n + (d + 1) by omega, hs]; rfl)
      rw [ih] at this; cases this

theorem finished_ge {s : State} (hi : Inv s) (he : Ext s) (k : Kind) :
    ∀ (f i : Nat),
      (s.pools k).done.countP (fun d => decide (s.offset + i ≤ d.num) && decide (d.num < s.offset + i + f)) ≤
        finishedCount s.cache (s.pools k).done s.offset f i := by
  intro f
  induction f with
  | zero =>
    intro i
    have : (s.pools k).done.countP (fun d => decide (s.offset + i ≤ d.num) && decide (d.num < s.offset + i + 0)) = 0 := by
      rw [List.countP_eq_zero]; intro a _; simp
    rw [this]; exact Nat.zero_le _
  | succ f ih =>
    intro i
    simp only [finishedCount]
    cases hc : cget s.cache (s.offset + i) with
    | none =>
      have : (s.pools k).done.countP
          (fun d => decide (s.offset + i ≤ d.num) && decide (d.num < s.offset + i + (f + 1))) = 0 := by
        rw [List.countP_eq_zero]
        intro d hd
        obtain ⟨r, hr⟩ := hi.doneCached k d hd
        simp only [Bool.and_eq_true, decide_eq_true_eq, not_and]
        intro hle
        have := none_above he (by omega) hc (d.num - (s.offset + i))
        rw [show s.offset + i + (d.num - (s.offset + i)) = d.num by omega, hr] at this
        cases this
      rw [this]; exact Nat.zero_le _
    | some r =>
      simp only []
      have hsplit := countP_split
        (fun d : Header => decide (s.offset + i ≤ d.num) && decide (d.num < s.offset + i + (f + 1)))
        (fun d => decide (d.num = s.offset + i))
        (fun d => decide (s.offset + (i + 1) ≤ d.num) && decide (d.num < s.offset + (i + 1) + f))
        (s.pools k).done
        (by intro x
            by_cases h1 : x.num = s.offset + i
            · simp [h1]
            · by_cases h2 : s.offset + (i + 1) ≤ x.num ∧ x.num < s.offset + (i + 1) + f
              · have : s.offset + i ≤ x.num ∧ x.num < s.offset + i + (f + 1) := by omega
                simp [h1, h2, this]
              · have : ¬ (s.offset + i ≤ x.num ∧ x.num < s.offset + i + (f + 1)) := by omega
                simp only [h1, decide_false, Bool.false_or]
                rw [Bool.eq_iff_iff]; simp only [Bool.and_eq_true, decide_eq_true_eq]
                exact ⟨fun h => absurd h this, fun h => absurd h h2⟩)
        (by intro x; simp only [decide_eq_true_eq, Bool.and_eq_true]; omega)
      rw [hsplit]
      have h1 : (s.pools k).done.countP (fun d => decide (d.num = s.offset + i)) ≤
          (if r.header ∈ (s.pools k).done then 1 else 0) := by
        have hle : (s.pools k).done.countP (fun d => decide (d.num = s.offset + i)) ≤
            (s.pools k).done.count r.header := by
          rw [List.count_eq_countP]
          apply List.countP_mono_left
          intro d hd hp
          have hp' : d.num = s.offset + i := by simpa using hp
          have hds := (hi.occSched k d (mem_done_occ hd)).1
          have : r.header = d := hi.entry_header hds (by rw [hp']; exact hc)
          simp [this]
        by_cases hm : r.header ∈ (s.pools k).done
        · simp only [hm, if_true]
          have := hi.occLe k r.header
          have := occ_done_le (s.pools k) r.header
          omega
        · simp only [hm, if_false]
          have := List.count_eq_zero.mpr hm
          omega
      have h2 := ih (i + 1)
      omega

end YouVerif.C18

namespace YouVerif.C18

abbrev inWin (B : Nat) : Header → Bool := fun x => decide (x.num < B)

/-- the free slots `resultSlots` reports are covered by queued tasks inside the window plus window
positions beyond the end of the scheduled chain -/
theorem slots_le {s : State} (hi : Inv s) (he : Ext s) (hf : FullU s) (k : Kind) (hact : Active s k) (limit : Nat) :
    resultSlots s k limit ≤
      ((s.pools k).queue.countP (inWin (s.offset + limit)) : Int) +
        ((limit - min limit (s.sched.length - s.ret.length) : Nat) : Int) := by
  have hcons := consecutive_drop hi
  have hperm : List.Perm ((s.pools k).queue ++ pendAll (s.pools k).pend ++ (s.pools k).done)
      (s.sched.drop s.ret.length) := by
    rw [List.perm_iff_count]
    intro a
    have hocc : ((s.pools k).queue ++ pendAll (s.pools k).pend ++ (s.pools k).done).count a = occ (s.pools k) a := by
      simp only [occ, List.count_append]
    rw [hocc]
    have hnd := List.nodup_iff_count.mp hcons.nodup a
    by_cases hm : a ∈ s.sched.drop s.ret.length
    · obtain ⟨h1, h2⟩ := (mem_drop_iff hi a).mp hm
      have := hf k hact a h1 h2
      have := hi.occLe k a
      have := (mem_iff_count_pos a _).mp hm
      omega
    · have h0 : occ (s.pools k) a = 0 := by
        cases hz : occ (s.pools k) a with
        | zero => rfl
        | succ m => exact absurd ((mem_drop_iff hi a).mpr (hi.occSched k a (by omega))) hm
      rw [h0, List.count_eq_zero.mpr hm]
  have hcount := hperm.countP_eq (inWin (s.offset + limit))
  have hwin : (s.sched.drop s.ret.length).countP (inWin (s.offset + limit)) =
      min limit (s.sched.length - s.ret.length) := by
    have := countP_window _ s.offset (s.offset + limit) hcons
    rw [List.length_drop] at this
    show List.countP (fun x : Header => decide (x.num < s.offset + limit)) _ = _
    rw [this]; congr 1; omega
  rw [hwin] at hcount
  simp only [List.countP_append] at hcount
  have hpw : (pendAll (s.pools k).pend).countP (inWin (s.offset + limit)) = pendingCount (s.pools k).pend s.offset limit := by
    simp only [pendingCount, List.countP_eq_length_filter]
  have hdw : (s.pools k).done.countP (inWin (s.offset + limit)) ≤
      finishedCount s.cache (s.pools k).done s.offset limit 0 := by
    have h1 := finished_ge hi he k limit 0
    have h2 : (s.pools k).done.countP (inWin (s.offset + limit)) =
        (s.pools k).done.countP (fun d => decide (s.offset + 0 ≤ d.num) && decide (d.num < s.offset + 0 + limit)) := by
      apply List.countP_congr
      intro d hd
      have := (hi.occSched k d (mem_done_occ hd)).2
      simp only [inWin, decide_eq_true_eq, Bool.and_eq_true]
      omega
    rw [h2]; exact h1
  simp only [resultSlots]
  rw [hpw] at hcount
  have hmin : min limit (s.sched.length - s.ret.length) ≤ limit := Nat.min_le_left _ _
  omega

/-- if there is slack (the scheduled chain ends inside the window) every scheduled header is inside the window -/
theorem slack_all_in {s : State} (hi : Inv s) (limit : Nat)
    (h : 1 ≤ limit - min limit (s.sched.length - s.ret.length)) :
    ∀ x ∈ s.sched, x.num < s.offset + limit := by
  intro x hx
  have := hi.sched_lt hx
  have := hi.offsetEq
  have := hi.ret_le
  omega

end YouVerif.C18
