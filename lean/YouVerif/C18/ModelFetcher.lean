/-
C18 — the dedupe discipline of you/fetcher/fetcher.go (announcement/propagation path), abstracted to block hashes:
`queued` (the set `enqueue` consults), the import queue, the imports in flight, the chain.
`deliver` = enqueue (distance and per-peer limits are not modelled), `pop` = one iteration of the import loop
(known block → forgetBlock; otherwise `insert`, which spawns the import and keeps the `queued` record),
`finish` = the import goroutine ends (`done` → forgetBlock), successfully or not.
This small model is NOT tied to the code by a driver; the tie of this path is the oracle of the harness' fetcher tier.
-/
namespace YouVerif.C18.Fetcher

structure FState where
  queued : List Nat := []     -- f.queued (dedupe set)
  queue : List Nat := []      -- f.queue (import operations)
  inflight : List Nat := []   -- imports running (insert spawned, `done` not yet received)
  chain : List Nat := []      -- imported blocks (getBlock ≠ nil)
deriving Repr

inductive Ev
  | deliver (h : Nat)
  | pop
  | finish (h : Nat) (ok : Bool)
deriving Repr

/-- one event; the second component is the block handed to the importer by this event, if any -/
def fstep (s : FState) : Ev → FState × Option Nat
  | .deliver h =>
    if h ∈ s.queued then (s, none)
    else ({ s with queued := h :: s.queued, queue := s.queue ++ [h] }, none)
  | .pop =>
    match s.queue with
    | [] => (s, none)
    | h :: q =>
      if h ∈ s.chain then ({ s with queue := q, queued := s.queued.filter (· ≠ h) }, none)   -- known: forgetBlock
      else ({ s with queue := q, inflight := h :: s.inflight }, some h)                       -- insert
  | .finish h ok =>
    if h ∈ s.inflight then
      ({ s with inflight := s.inflight.filter (· ≠ h), queued := s.queued.filter (· ≠ h),
                chain := if ok then h :: s.chain else s.chain }, none)
    else (s, none)

def frun (s : FState) (evs : List Ev) : FState := evs.foldl (fun s e => (fstep s e).1) s

/-- the seeded variant (forgetBlock hoisted to every pop): used only for the counterexample below -/
def fstepHoisted (s : FState) : Ev → FState × Option Nat
  | .pop =>
    match s.queue with
    | [] => (s, none)
    | h :: q =>
      if h ∈ s.chain then ({ s with queue := q, queued := s.queued.filter (· ≠ h) }, none)
      else ({ s with queue := q, queued := s.queued.filter (· ≠ h), inflight := h :: s.inflight }, some h)
  | e => fstep s e

end YouVerif.C18.Fetcher
