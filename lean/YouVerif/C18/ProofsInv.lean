/-
C18 — the bookkeeping invariant of the download queue model and three generic preservation lemmas
(re-pooling, slot allocation, completing one component of a block).
-/
import YouVerif.C18.ProofsBasic
namespace YouVerif.C18

/-- how often header `h` occurs in the task queue, the in-flight requests and the done pool of one kind -/
def occ (p : Pools) (h : Header) : Nat := p.queue.count h + (pendAll p.pend).count h + p.done.count h

def optRoot : Option Nat → Nat
  | none => 0
  | some b => b

def contentOf (k : Kind) (r : Result) : Option Nat :=
  match k with
  | .body => r.txs
  | .rcpt => r.rcs

/-- what `fetchResult.Pending` must be: the number of components not yet complete -/
def pendingSpec (s : State) (h : Header) : Int :=
  (if h ∈ (s.pools .body).done then 0 else 1) +
  (if s.cfg.fast = true then (if h ∈ (s.pools .rcpt).done then 0 else 1) else 0)

structure EntryOK (s : State) (n : Nat) (r : Result) : Prop where
  num : r.header.num = n
  sched : r.header ∈ s.sched
  lo : s.offset ≤ n
  hi : n < s.offset + s.cfg.cacheLen
  pending : r.pending = pendingSpec s r.header
  content : ∀ k, r.header ∈ (s.pools k).done → optRoot (contentOf k r) = root k r.header
  fresh : ∀ k, r.header ∉ (s.pools k).done → contentOf k r = none

structure Inv (s : State) : Prop where
  schedNum : ∀ i h, s.sched[i]? = some h → h.num = s.origin + i
  offsetEq : s.offset = s.origin + s.ret.length
  retEq : s.ret.map (·.header) = s.sched.take s.ret.length
  retOK : ∀ r ∈ s.ret, optRoot r.txs = r.header.txRoot ∧ (s.cfg.fast = true → optRoot r.rcs = r.header.rcRoot)
  occLe : ∀ k h, occ (s.pools k) h ≤ 1
  occSched : ∀ k h, 0 < occ (s.pools k) h → h ∈ s.sched ∧ s.offset ≤ h.num
  poolSched : ∀ k, ∀ h ∈ (s.pools k).pool, h ∈ s.sched
  cacheOK : ∀ n r, cget s.cache n = some r → EntryOK s n r
  doneCached : ∀ k h, h ∈ (s.pools k).done → ∃ r, cget s.cache h.num = some r
  slow : s.cfg.fast = false →
    (s.pools .rcpt).queue = [] ∧ (s.pools .rcpt).pend = [] ∧ (s.pools .rcpt).done = [] ∧ (s.pools .rcpt).pool = []

theorem Inv.sched_lt {s : State} (hi : Inv s) {h : Header} (hm : h ∈ s.sched) :
    s.origin ≤ h.num ∧ h.num < s.origin + s.sched.length := by
  obtain ⟨i, hlt, rfl⟩ := List.mem_iff_getElem.mp hm
  have := hi.schedNum i s.sched[i] (by simp [hlt])
  omega

theorem Inv.sched_inj {s : State} (hi : Inv s) {h1 h2 : Header} (m1 : h1 ∈ s.sched) (m2 : h2 ∈ s.sched)
    (e : h1.num = h2.num) : h1 = h2 := by
  obtain ⟨i, hlt, rfl⟩ := List.mem_iff_getElem.mp m1
  obtain ⟨j, hlt', rfl⟩ := List.mem_iff_getElem.mp m2
  have a := hi.schedNum i s.sched[i] (by simp [hlt])
  have b := hi.schedNum j s.sched[j] (by simp [hlt'])
  have : i = j := by omega
  subst this; rfl

theorem Inv.ret_le {s : State} (hi : Inv s) : s.ret.length ≤ s.sched.length := by
  have := congrArg List.length hi.retEq
  simp only [List.length_map, List.length_take] at this
  omega

/-- the cache entry of a scheduled header with a slot is that very header -/
theorem Inv.entry_header {s : State} (hi : Inv s) {h : Header} {r : Result} (hm : h ∈ s.sched)
    (hc : cget s.cache h.num = some r) : r.header = h :=
  hi.sched_inj (hi.cacheOK _ _ hc).sched hm (hi.cacheOK _ _ hc).num

theorem occ_done_le (p : Pools) (h : Header) : p.done.count h ≤ occ p h := by
  simp only [occ]; omega

theorem mem_done_occ {p : Pools} {h : Header} (hm : h ∈ p.done) : 0 < occ p h := by
  have := (mem_iff_count_pos h p.done).mp hm
  have := occ_done_le p h
  omega

/-! ### Lemma A: re-pooling (tasks move between queue and requests, or are dropped) -/

theorem Inv.repool {s s' : State} (hi : Inv s)
    (hcfg : s'.cfg = s.cfg) (hoff : s'.offset = s.offset) (horg : s'.origin = s.origin)
    (hsched : s'.sched = s.sched) (hret : s'.ret = s.ret) (hcache : s'.cache = s.cache)
    (hocc : ∀ k h, occ (s'.pools k) h ≤ occ (s.pools k) h)
    (hdone : ∀ k, (s'.pools k).done = (s.pools k).done)
    (hpool : ∀ k, ∀ h ∈ (s'.pools k).pool, h ∈ (s.pools k).pool)
    (hslow : s.cfg.fast = false → (s'.pools .rcpt).queue = [] ∧ (s'.pools .rcpt).pend = [] ∧ (s'.pools .rcpt).pool = []) :
    Inv s' where
  schedNum := by rw [hsched, horg]; exact hi.schedNum
  offsetEq := by rw [hoff, horg, hret]; exact hi.offsetEq
  retEq := by rw [hret, hsched]; exact hi.retEq
  retOK := by rw [hret, hcfg]; exact hi.retOK
  occLe := fun k h => Nat.le_trans (hocc k h) (hi.occLe k h)
  occSched := fun k h hp => by
    rw [hsched, hoff]; exact hi.occSched k h (Nat.lt_of_lt_of_le hp (hocc k h))
  poolSched := fun k h hm => by rw [hsched]; exact hi.poolSched k h (hpool k h hm)
  cacheOK := fun n r hc => by
    rw [hcache] at hc
    have e := hi.cacheOK n r hc
    exact { num := e.num, sched := by rw [hsched]; exact e.sched, lo := by rw [hoff]; exact e.lo,
            hi := by rw [hoff, hcfg]; exact e.hi,
            pending := by
              rw [e.pending]; simp only [pendingSpec, hdone, hcfg],
            content := fun k hm => by rw [hdone] at hm; exact e.content k hm,
            fresh := fun k hm => by rw [hdone] at hm; exact e.fresh k hm }
  doneCached := fun k h hm => by rw [hdone] at hm; rw [hcache]; exact hi.doneCached k h hm
  slow := fun hf => by
    rw [hcfg] at hf
    obtain ⟨a, b, c⟩ := hslow hf
    exact ⟨a, b, by rw [hdone]; exact (hi.slow hf).2.2.1, c⟩

/-! ### Lemma B: allocating the result slot of a scheduled header inside the window -/

theorem Inv.alloc {s s' : State} (hi : Inv s) (h : Header)
    (hcfg : s'.cfg = s.cfg) (hoff : s'.offset = s.offset) (horg : s'.origin = s.origin)
    (hsched : s'.sched = s.sched) (hret : s'.ret = s.ret) (hpools : s'.pools = s.pools)
    (hcache : s'.cache = allocSlot s.cfg s.cache h)
    (hm : h ∈ s.sched) (hlo : s.offset ≤ h.num) (hhi : h.num < s.offset + s.cfg.cacheLen) :
    Inv s' := by
  cases hg : cget s.cache h.num with
  | some r0 =>
    have : s'.cache = s.cache := by rw [hcache]; simp [allocSlot, hg]
    exact hi.repool hcfg hoff horg hsched hret this (fun k h => by rw [hpools]; exact Nat.le_refl _)
      (fun k => by rw [hpools]) (fun k h hm => by rw [hpools] at hm; exact hm)
      (fun hf => by rw [hpools]; exact ⟨(hi.slow hf).1, (hi.slow hf).2.1, (hi.slow hf).2.2.2⟩)
  | none =>
    have hc : s'.cache = cset s.cache h.num { pending := comps s.cfg, header := h, txs := none, rcs := none } := by
      rw [hcache]; simp [allocSlot, hg]
    have hnd : ∀ k, h ∉ (s.pools k).done := fun k hmem => by
      obtain ⟨r, hr⟩ := hi.doneCached k h hmem
      rw [hg] at hr; cases hr
    exact
    { schedNum := by rw [hsched, horg]; exact hi.schedNum
      offsetEq := by rw [hoff, horg, hret]; exact hi.offsetEq
      retEq := by rw [hret, hsched]; exact hi.retEq
      retOK := by rw [hret, hcfg]; exact hi.retOK
      occLe := by rw [hpools]; exact hi.occLe
      occSched := by rw [hpools, hsched, hoff]; exact hi.occSched
      poolSched := by rw [hpools, hsched]; exact hi.poolSched
      cacheOK := fun n r hcr => by
        rw [hc, cget_cset] at hcr
        by_cases hn : n = h.num
        · simp only [hn, if_true, Option.some.injEq] at hcr
          subst hcr
          exact { num := hn.symm, sched := by rw [hsched]; exact hm, lo := by rw [hoff, hn]; exact hlo,
                  hi := by rw [hoff, hcfg, hn]; exact hhi,
                  pending := by
                    simp only [pendingSpec, hpools, hcfg, hnd, if_false, comps]
                    cases s.cfg.fast <;> simp,
                  content := fun k hmem => by rw [hpools] at hmem; exact absurd hmem (hnd k),
                  fresh := fun k _ => by cases k <;> rfl }
        · simp only [hn, if_false] at hcr
          have e := hi.cacheOK n r hcr
          exact { num := e.num, sched := by rw [hsched]; exact e.sched, lo := by rw [hoff]; exact e.lo,
                  hi := by rw [hoff, hcfg]; exact e.hi,
                  pending := by rw [e.pending]; simp only [pendingSpec, hpools, hcfg],
                  content := fun k hmem => by rw [hpools] at hmem; exact e.content k hmem,
                  fresh := fun k hmem => by rw [hpools] at hmem; exact e.fresh k hmem }
      doneCached := fun k x hx => by
        rw [hpools] at hx
        obtain ⟨r, hr⟩ := hi.doneCached k x hx
        rw [hc, cget_cset]
        by_cases hn : x.num = h.num
        · exact ⟨{ pending := comps s.cfg, header := h, txs := none, rcs := none }, by simp [hn]⟩
        · exact ⟨r, by simp [hn, hr]⟩
      slow := by rw [hcfg, hpools]; exact hi.slow }

/-! ### Lemma C: one component of a block becomes complete -/

theorem content_setContent_same (k : Kind) (r : Result) (b : Nat) : contentOf k (setContent k r b) = some b := by
  cases k <;> rfl

theorem content_setContent_other (k k' : Kind) (r : Result) (b : Nat) (hk : k' ≠ k) :
    contentOf k' (setContent k r b) = contentOf k' r := by
  cases k <;> cases k' <;> first | rfl | exact absurd rfl hk

theorem mem_insertSet {x h : Header} {l : List Header} : x ∈ insertSet h l ↔ x = h ∨ x ∈ l := by
  simp only [insertSet]
  split
  · constructor
    · exact Or.inr
    · rintro (rfl | hm)
      · assumption
      · exact hm
  · simp

theorem Inv.complete {s s' : State} (hi : Inv s) (k : Kind) (h : Header) (b : Option Nat)
    (hcfg : s'.cfg = s.cfg) (hoff : s'.offset = s.offset) (horg : s'.origin = s.origin)
    (hsched : s'.sched = s.sched) (hret : s'.ret = s.ret)
    (hact : k = .body ∨ s.cfg.fast = true)
    (hcache : s'.cache = complete s.cache k h b)
    (hother : ∀ k', k' ≠ k → s'.pools k' = s.pools k')
    (hdone : (s'.pools k).done = insertSet h (s.pools k).done)
    (hpool : ∀ x ∈ (s'.pools k).pool, x ∈ (s.pools k).pool)
    (hmove : ∀ x, (s'.pools k).queue.count x + (pendAll (s'.pools k).pend).count x + (if x = h then 1 else 0)
                 ≤ (s.pools k).queue.count x + (pendAll (s.pools k).pend).count x)
    (hentry : ∃ r, cget s.cache h.num = some r)
    (hb : (b = none ∧ root k h = 0) ∨ b = some (root k h)) :
    Inv s' := by
  obtain ⟨r0, hr0⟩ := hentry
  have hocc1 : 0 < occ (s.pools k) h := by
    have := hmove h; simp only [if_true] at this; simp only [occ]; omega
  have hhs := (hi.occSched k h hocc1).1
  have hnd : h ∉ (s.pools k).done := by
    intro hm
    have := (mem_iff_count_pos _ _).mp hm
    have := hi.occLe k h
    have := hmove h
    simp only [if_true, occ] at *
    omega
  have hr0h : r0.header = h := hi.entry_header hhs hr0
  have hdone' : (s'.pools k).done = h :: (s.pools k).done := by rw [hdone]; simp [insertSet, hnd]
  have hoccle : ∀ k' x, occ (s'.pools k') x ≤ occ (s.pools k') x := by
    intro k' x
    by_cases hk : k' = k
    · subst hk
      by_cases hx : x = h
      · subst hx
        have := hmove x; rw [if_pos rfl] at this
        simp only [occ, hdone', List.count_cons_self]; omega
      · have := hmove x; rw [if_neg hx] at this
        have hc : (h :: (s.pools k').done).count x = (s.pools k').done.count x := by
          rw [List.count_cons]; simp [Ne.symm hx]
        simp only [occ, hdone', hc]; omega
    · rw [hother k' hk]; exact Nat.le_refl _
  have hmemdone : ∀ k' x, x ≠ h → (x ∈ (s'.pools k').done ↔ x ∈ (s.pools k').done) := by
    intro k' x hx
    by_cases hk : k' = k
    · subst hk; rw [hdone']; simp [hx]
    · rw [hother k' hk]
  have hspec : ∀ x, x ≠ h → pendingSpec s' x = pendingSpec s x := by
    intro x hx
    simp only [pendingSpec, hcfg, hmemdone _ x hx]
  have hc : s'.cache = cset s.cache h.num
      { (match b with | some b => setContent k r0 b | none => r0) with pending := r0.pending - 1 } := by
    rw [hcache]; unfold YouVerif.C18.complete; rw [hr0]; rfl
  exact
  { schedNum := by rw [hsched, horg]; exact hi.schedNum
    offsetEq := by rw [hoff, horg, hret]; exact hi.offsetEq
    retEq := by rw [hret, hsched]; exact hi.retEq
    retOK := by rw [hret, hcfg]; exact hi.retOK
    occLe := fun k' x => Nat.le_trans (hoccle k' x) (hi.occLe k' x)
    occSched := fun k' x hp => by
      rw [hsched, hoff]; exact hi.occSched k' x (Nat.lt_of_lt_of_le hp (hoccle k' x))
    poolSched := fun k' x hm => by
      rw [hsched]
      by_cases hk : k' = k
      · subst hk; exact hi.poolSched _ x (hpool x hm)
      · rw [hother k' hk] at hm; exact hi.poolSched k' x hm
    cacheOK := fun n r hcr => by
      rw [hc, cget_cset] at hcr
      by_cases hn : n = h.num
      · simp only [hn, if_true, Option.some.injEq] at hcr
        have e0 := hi.cacheOK _ _ hr0
        have hhdr : r.header = h := by
          rw [← hcr]; cases b <;> (try cases k) <;> exact hr0h
        have hpend : r.pending = r0.pending - 1 := by rw [← hcr]
        exact
        { num := by rw [hhdr, hn]
          sched := by rw [hsched, hhdr]; exact hhs
          lo := by rw [hoff, hn]; exact e0.lo
          hi := by rw [hoff, hcfg, hn]; exact e0.hi
          pending := by
            rw [hpend, e0.pending, hr0h, hhdr]
            simp only [pendingSpec, hcfg]
            cases k with
            | body =>
              have h1 : h ∈ (s'.pools .body).done := by rw [hdone']; simp
              have h2 : (s'.pools .rcpt) = (s.pools .rcpt) := hother _ (by decide)
              simp only [h1, hnd, h2, if_true, if_false]; omega
            | rcpt =>
              have hf : s.cfg.fast = true := by
                rcases hact with h | h
                · cases h
                · exact h
              have h1 : h ∈ (s'.pools .rcpt).done := by rw [hdone']; simp
              have h2 : (s'.pools .body) = (s.pools .body) := hother _ (by decide)
              simp only [h1, hnd, h2, hf, if_true, if_false]; omega
          content := fun k' hm => by
            rw [hhdr] at hm ⊢
            by_cases hk : k' = k
            · subst hk
              rcases hb with ⟨rfl, hz⟩ | rfl
              · have : contentOf k' r = contentOf k' r0 := by rw [← hcr]; cases k' <;> rfl
                rw [this, e0.fresh k' (by rw [hr0h]; exact hnd), hz]; rfl
              · have : contentOf k' r = some (root k' h) := by
                  rw [← hcr]; cases k' <;> rfl
                rw [this]; rfl
            · rw [hother k' hk] at hm
              have : contentOf k' r = contentOf k' r0 := by
                rw [← hcr]
                cases b with
                | none => cases k' <;> rfl
                | some b => cases k <;> cases k' <;> first | rfl | exact absurd rfl hk
              rw [this, ← hr0h]; exact e0.content k' (by rw [hr0h]; exact hm)
          fresh := fun k' hm => by
            rw [hhdr] at hm
            by_cases hk : k' = k
            · subst hk; exact absurd (by rw [hdone']; simp) hm
            · rw [hother k' hk] at hm
              have : contentOf k' r = contentOf k' r0 := by
                rw [← hcr]
                cases b with
                | none => cases k' <;> rfl
                | some b => cases k <;> cases k' <;> first | rfl | exact absurd rfl hk
              rw [this]; exact e0.fresh k' (by rw [hr0h]; exact hm) }
      · simp only [hn, if_false] at hcr
        have e := hi.cacheOK n r hcr
        have hne : r.header ≠ h := fun e' => hn (by rw [← e.num, e'])
        exact
        { num := e.num, sched := by rw [hsched]; exact e.sched, lo := by rw [hoff]; exact e.lo
          hi := by rw [hoff, hcfg]; exact e.hi
          pending := by rw [e.pending, hspec _ hne]
          content := fun k' hm => e.content k' ((hmemdone k' _ hne).mp hm)
          fresh := fun k' hm => e.fresh k' (fun hm' => hm ((hmemdone k' _ hne).mpr hm')) }
    doneCached := fun k' x hx => by
      rw [hc, cget_cset]
      by_cases hn : x.num = h.num
      · simp only [hn, if_true]; exact ⟨_, rfl⟩
      · simp only [hn, if_false]
        have hxh : x ≠ h := fun e => hn (by rw [e])
        exact hi.doneCached k' x ((hmemdone k' x hxh).mp hx)
    slow := fun hf => by
      rw [hcfg] at hf
      have hk : k = .body := by
        rcases hact with h | h
        · exact h
        · rw [hf] at h; cases h
      have : s'.pools .rcpt = s.pools .rcpt := hother _ (by rw [hk]; decide)
      rw [this]; exact hi.slow hf }

end YouVerif.C18
