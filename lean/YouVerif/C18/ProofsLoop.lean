/-
C18 — progress of the fetch loop: ticks of the model of fetchParts (expire first, then the
"nothing to fetch" check, then guarded reservation) with one honest idle peer drain the schedule.
-/
import YouVerif.C18.ModelLoop
import YouVerif.C18.ProofsEpoch
namespace YouVerif.C18

/-- what a tick with the single idle peer `p` does to the queue after the expiry scan -/
def guardedReserve (s : State) (k : Kind) (limit p cap : Nat) : State :=
  if pendingTasks s k = 0 then s
  else if shouldThrottle s k limit = true then s
  else (reserve s k limit p cap).1

theorem handleExpired_no_master (known : List Nat) (master : Nat) :
    ∀ exp : List (Nat × Nat), (∀ e ∈ exp, e.1 ≠ master) → (handleExpired known master exp).2 = false := by
  intro exp
  induction exp with
  | nil => intro _; rfl
  | cons e t ih =>
    intro h
    obtain ⟨p, fails⟩ := e
    have hp : p ≠ master := h (p, fails) (by simp)
    have ht := ih (fun e he => h e (by simp [he]))
    simp only [handleExpired]
    split
    · split
      · exact ht
      · exact ht
    · exact ht

theorem expireLoop_peers (l : List Nat) : ∀ (p : Pools) (out : List (Nat × Nat)),
    ∀ e ∈ (expireLoop l p out).2, e.1 ∈ l ∨ e ∈ out := by
  induction l with
  | nil => intro p out e he; exact Or.inr he
  | cons a t ih =>
    intro p out e he
    simp only [expireLoop] at he
    split at he
    · rcases ih _ _ e he with h | h
      · exact Or.inl (by simp [h])
      · exact Or.inr h
    · rcases ih _ _ e he with h | h
      · exact Or.inl (by simp [h])
      · rcases List.mem_append.mp h with h | h
        · exact Or.inr h
        · have : e.1 = a := by
            have := List.mem_singleton.mp h
            rw [this]
          exact Or.inl (by rw [this]; simp)

/-- the queue state after a tick whose only idle peer is `p` -/
theorem tick_state (k : Kind) (i : TickIn) (s : State) (p cap : Nat) (hn : i.npeers ≠ 0)
    (hidle : i.idle = [(p, cap)]) (hm : i.master ∉ i.overdue) :
    (tick k i s).1 = guardedReserve (expire s k i.overdue).1 k i.limit p cap := by
  have habort : (handleExpired i.known i.master (expire s k i.overdue).2).2 = false := by
    apply handleExpired_no_master
    intro e he
    simp only [expire] at he
    rcases expireLoop_peers i.overdue _ _ e he with h | h
    · intro hc; rw [hc] at h; exact hm h
    · exact absurd h (by simp)
  simp only [tick, hn, if_false, habort, Bool.false_eq_true, guardedReserve, hidle]
  split
  · rfl
  · simp only [reserveIdle]
    split
    · rfl
    · split <;> (try split) <;> (try split) <;> (try split) <;> rfl

/-! ### the guarded reservation behaves like `reserve` wherever it matters -/

section gr
variable {s : State} {k : Kind} {limit p cap : Nat}

theorem gr_cases : guardedReserve s k limit p cap = s ∨ guardedReserve s k limit p cap = (reserve s k limit p cap).1 := by
  simp only [guardedReserve]
  split
  · exact Or.inl rfl
  · split
    · exact Or.inl rfl
    · exact Or.inr rfl

theorem gr_good (hg : Good s) (hl : limit ≤ s.cfg.cacheLen) : Good (guardedReserve s k limit p cap) := by
  rcases @gr_cases s k limit p cap with h | h <;> rw [h]
  · exact hg
  · exact good_step hg (.reserve k limit p cap) hl

theorem gr_frame : Frame s (guardedReserve s k limit p cap) := by
  rcases @gr_cases s k limit p cap with h | h <;> rw [h]
  · exact ⟨rfl, rfl, rfl, rfl, rfl⟩
  · exact reserve_frame s k limit p cap

theorem gr_other (k' : Kind) (hk : k' ≠ k) : (guardedReserve s k limit p cap).pools k' = s.pools k' := by
  rcases @gr_cases s k limit p cap with h | h <;> rw [h]
  exact reserve_other _ _ _ _ _ _ hk

theorem gr_lacking : (guardedReserve s k limit p cap).lacking = s.lacking := by
  rcases @gr_cases s k limit p cap with h | h <;> rw [h]
  exact reserve_lacking _ _ _ _ _

theorem gr_done_mono (x : Header) (hx : x ∈ (s.pools k).done) : x ∈ ((guardedReserve s k limit p cap).pools k).done := by
  rcases @gr_cases s k limit p cap with h | h <;> rw [h]
  · exact hx
  · exact reserve_done_mono _ _ _ _ _ x hx

end gr

/-- while the head block is queued there is a free result slot: the loop is not throttled -/
theorem head_space {s : State} (hg : Good s) (k : Kind) (x0 : Header) (q : List Header) (limit : Nat)
    (hq : (s.pools k).queue = x0 :: q) (hpend : (s.pools k).pend = []) (hx0 : x0.num = s.offset) (hl0 : 0 < limit) :
    1 ≤ resultSlots s k limit := by
  have hi := hg.inv
  have hx0q : x0 ∈ (s.pools k).queue := by rw [hq]; simp
  have hx0s := (hi.occSched k x0 ((occ_pos_iff _ _).mpr (Or.inl hx0q))).1
  have hx0nd : x0 ∉ (s.pools k).done := by
    intro hd
    have := hi.occLe k x0
    have := (mem_iff_count_pos _ _).mp hd
    have := (mem_iff_count_pos _ _).mp hx0q
    simp only [occ] at *; omega
  simp only [resultSlots, pendingCount, hpend, pendAll, List.filter_nil, List.length_nil]
  obtain ⟨f, rfl⟩ : ∃ f, limit = f + 1 := ⟨limit - 1, by omega⟩
  simp only [finishedCount, Nat.add_zero]
  cases hc0 : cget s.cache s.offset with
  | none => simp only []; omega
  | some r =>
    have hr : r.header = x0 := hi.entry_header hx0s (by rw [hx0]; exact hc0)
    have := finishedCount_le s.cache (s.pools k).done s.offset f (0 + 1)
    simp only [hr, hx0nd, if_false]
    omega

theorem gr_head {s : State} (hg : Good s) (k : Kind) (x0 : Header) (q : List Header) (limit p cap : Nat)
    (hq : (s.pools k).queue = x0 :: q) (hpend : (s.pools k).pend = []) (hx0 : x0.num = s.offset)
    (hc : 0 < s.cfg.cacheLen) (hl0 : 0 < limit) (hl : limit ≤ s.cfg.cacheLen) (hcnt : 0 < cap)
    (hlack : lget s.lacking p = []) :
    guardedReserve s k limit p cap = (reserve s k limit p cap).1 := by
  have hsp := head_space hg k x0 q limit hq hpend hx0 hl0
  simp only [guardedReserve, pendingTasks, hq, List.length_cons, shouldThrottle]
  have h1 : ¬ (q.length + 1 = 0) := by omega
  have h2 : ¬ (decide (resultSlots s k limit ≤ 0) = true) := by simp; omega
  simp only [h1, if_false, h2, Bool.false_eq_true]

/-! ### one peer serving through the loop -/

def allPeersOf (s : State) (k : Kind) : List Nat := (s.pools k).pend.map (·.1)

/-- tick of the loop for kind `k` with every in-flight request overdue and `p` the idle peer, then `p`'s honest answer -/
def loopServe (k : Kind) (m p limit cap : Nat) (fin : Bool) (known : List Nat) (np total : Nat) (s : State) : State :=
  let s1 := (tick k { limit := limit, finished := fin, npeers := np, master := m, overdue := allPeersOf s k,
                      known := known, idle := [(p, cap)], total := total } s).1
  (deliver s1 k p (honestAnswer s1 k p)).1

/-- the same, spelled with queue operations -/
def gserve (k : Kind) (p limit cap : Nat) (s : State) : State :=
  let s1 := guardedReserve (expire s k (allPeers s k)).1 k limit p cap
  (deliver s1 k p (honestAnswer s1 k p)).1

theorem loopServe_eq (k : Kind) (m p limit cap : Nat) (fin : Bool) (known : List Nat) (np total : Nat) (s : State)
    (hnp : np ≠ 0) (hm : m ∉ allPeersOf s k) :
    loopServe k m p limit cap fin known np total s = gserve k p limit cap s := by
  simp only [loopServe, gserve]
  rw [tick_state k _ s p cap hnp rfl hm]
  rfl

theorem pend_reserve_of_nil (s : State) (k : Kind) (l p c : Nat) (h : (s.pools k).pend = []) :
    ((reserve s k l p c).1.pools k).pend = [] ∨ ∃ hs, ((reserve s k l p c).1.pools k).pend = [(p, hs)] := by
  simp only [reserve]
  split
  · exact Or.inl h
  · split
    · exact Or.inl h
    · split
      · left; rw [setPools_same]; exact h
      · split
        · left; rw [setPools_same]; exact h
        · right; rw [setPools_same]; exact ⟨_, by rw [h]⟩

theorem pend_deliver (s : State) (k : Kind) (p : Nat) (bs : List Nat) :
    ((deliver s k p bs).1.pools k).pend =
      (match pget (s.pools k).pend p with | none => (s.pools k).pend | some _ => perase (s.pools k).pend p) := by
  simp only [deliver]
  split
  · rename_i h; simp [h]
  · rename_i hs h; rw [setPools_same]; simp [h]

section gserve
variable {s : State} {k : Kind} {p limit cap : Nat}

theorem gserve_facts (hg : Good s) (hl : limit ≤ s.cfg.cacheLen) (hlack : lget s.lacking p = []) :
    Good (gserve k p limit cap s) ∧ Frame s (gserve k p limit cap s) ∧
    (∀ k', k' ≠ k → (gserve k p limit cap s).pools k' = s.pools k') ∧
    lget (gserve k p limit cap s).lacking p = [] ∧
    (∀ x, x ∈ (s.pools k).done → x ∈ ((gserve k p limit cap s).pools k).done) ∧
    ((gserve k p limit cap s).pools k).pend = [] := by
  have g1 : Good (expire s k (allPeers s k)).1 := good_step hg (.expire k _) trivial
  have f1 : Frame s (expire s k (allPeers s k)).1 := expire_frame s k _
  have hl1 : limit ≤ (expire s k (allPeers s k)).1.cfg.cacheLen := hl
  have g2 := gr_good (k := k) (p := p) (cap := cap) g1 hl1
  have f2 := @gr_frame (expire s k (allPeers s k)).1 k limit p cap
  have g3 : Good (gserve k p limit cap s) := good_step g2 (.deliver k p _) trivial
  have f3 := deliver_frame (guardedReserve (expire s k (allPeers s k)).1 k limit p cap) k p
    (honestAnswer (guardedReserve (expire s k (allPeers s k)).1 k limit p cap) k p)
  have hp1 : ((expire s k (allPeers s k)).1.pools k).pend = [] := expire_all_pend s k
  refine ⟨g3, ⟨f3.cfg.trans (f2.cfg.trans f1.cfg), f3.origin.trans (f2.origin.trans f1.origin),
    f3.ret.trans (f2.ret.trans f1.ret), f3.offset.trans (f2.offset.trans f1.offset),
    f3.sched.trans (f2.sched.trans f1.sched)⟩, ?_, ?_, ?_, ?_⟩
  · intro k' hk
    simp only [gserve]
    rw [deliver_other _ _ _ _ _ hk, gr_other k' hk]
    simp only [expire]; exact setPools_other _ _ _ _ hk
  · simp only [gserve]
    apply deliver_honest_lacking
    rw [gr_lacking]; exact hlack
  · intro x hx
    simp only [gserve]
    apply deliver_done_mono
    apply gr_done_mono
    have hr := reshuffle_expireLoop (allPeers s k) (s.pools k) []
    simp only [expire]; rw [setPools_same, hr.done]; exact hx
  · simp only [gserve]
    rw [pend_deliver]
    rcases @gr_cases (expire s k (allPeers s k)).1 k limit p cap with h | h
    · rw [h, hp1]; simp [pget]
    · rw [h]
      rcases pend_reserve_of_nil _ k limit p cap hp1 with h' | ⟨hs, h'⟩
      · rw [h']; simp [pget]
      · rw [h']; simp [pget, perase]

/-- after the tick and `p`'s answer the head block's component of kind `k` is complete -/
theorem gserve_head_done (hg : Good s) (hact : Active s k) (x0 : Header) (hx0s : x0 ∈ s.sched)
    (hx0 : x0.num = s.offset) (hc : 0 < s.cfg.cacheLen) (hl0 : 0 < limit) (hl : limit ≤ s.cfg.cacheLen)
    (hcnt : 0 < cap) (hlack : lget s.lacking p = []) :
    x0 ∈ ((gserve k p limit cap s).pools k).done := by
  have g1 : Good (expire s k (allPeers s k)).1 := good_step hg (.expire k _) trivial
  have hp1 : ((expire s k (allPeers s k)).1.pools k).pend = [] := expire_all_pend s k
  have hi := g1.inv
  have hocc := fullU_of_full g1.full g1.ok k hact x0 hx0s (by show s.offset ≤ x0.num; omega)
  rcases (occ_pos_iff _ _).mp hocc with hq | hq | hq
  · cases hqq : ((expire s k (allPeers s k)).1.pools k).queue with
    | nil => rw [hqq] at hq; simp at hq
    | cons h0 q =>
      have hsorted := g1.ext.sorted k
      rw [hqq] at hsorted hq
      have hh0 : h0 = x0 := by
        have h0q : h0 ∈ ((expire s k (allPeers s k)).1.pools k).queue := by rw [hqq]; simp
        obtain ⟨h0s, h0lo⟩ := hi.occSched k h0 ((occ_pos_iff _ _).mpr (Or.inl h0q))
        apply hi.sched_inj h0s hx0s
        rcases List.mem_cons.mp hq with rfl | hq'
        · rfl
        · simp only [Sorted, List.pairwise_cons] at hsorted
          have := hsorted.1 x0 hq'
          have h0lo' : s.offset ≤ h0.num := h0lo
          omega
      subst hh0
      have hgr := gr_head g1 k h0 q limit p cap hqq hp1 hx0 hc hl0 hl hcnt hlack
      have h3g : Good (reserve (expire s k (allPeers s k)).1 k limit p cap).1 :=
        good_step g1 (.reserve k limit p cap) hl
      simp only [gserve]
      rw [hgr]
      rcases reserve_head g1 k h0 q limit p cap hqq hp1 hx0 hc hl0 hl hcnt hlack with hd | ⟨hs, hp, hm⟩
      · exact deliver_done_mono _ k p _ h0 hd
      · exact deliver_honest_done h3g k p hs hp h0 hm
  · rw [hp1] at hq; simp [pendAll] at hq
  · simp only [gserve]
    exact deliver_done_mono _ k p _ x0 (gr_done_mono x0 hq)

end gserve

end YouVerif.C18

namespace YouVerif.C18

/-- one round of the two fetch loops and the importer: a tick of the body loop (all in-flight requests overdue, `p` idle)
and `p`'s answer, the same for the receipt loop, then `Results` -/
def loopRound (m p limit cap : Nat) (fin : Bool) (known : List Nat) (np total : Nat) (s : State) : State :=
  (results (loopServe .rcpt m p limit cap fin known np total
    (loopServe .body m p limit cap fin known np total s))).1

def loopRounds (m p limit cap : Nat) (fin : Bool) (known : List Nat) (np total : Nat) : Nat → State → State
  | 0, s => s
  | n + 1, s => loopRounds m p limit cap fin known np total n (loopRound m p limit cap fin known np total s)

theorem results_pend (s : State) (k : Kind) : ((results s).1.pools k).pend = (s.pools k).pend := rfl

theorem loop_round_progress {s : State} (hg : Good s) (m p limit cap : Nat) (fin : Bool) (known : List Nat)
    (np total : Nat) (hnp : np ≠ 0) (hm : ∀ k, m ∉ allPeersOf s k)
    (hc : 0 < s.cfg.cacheLen) (hmp : 0 < s.cfg.maxProc) (hl0 : 0 < limit) (hl : limit ≤ s.cfg.cacheLen)
    (hcnt : 0 < cap) (hlack : lget s.lacking p = []) :
    Good (loopRound m p limit cap fin known np total s) ∧
    (loopRound m p limit cap fin known np total s).sched = s.sched ∧
    (loopRound m p limit cap fin known np total s).cfg = s.cfg ∧
    lget (loopRound m p limit cap fin known np total s).lacking p = [] ∧
    (∀ k, ((loopRound m p limit cap fin known np total s).pools k).pend = []) ∧
    s.ret.length ≤ (loopRound m p limit cap fin known np total s).ret.length ∧
    (s.ret.length < s.sched.length → s.ret.length + 1 ≤ (loopRound m p limit cap fin known np total s).ret.length) := by
  simp only [loopRound]
  rw [loopServe_eq .body m p limit cap fin known np total s hnp (hm .body)]
  obtain ⟨g2, f2, ho2, hla2, hdm2, hp2⟩ := gserve_facts (k := .body) (cap := cap) hg hl hlack
  have hm2 : m ∉ allPeersOf (gserve .body p limit cap s) .rcpt := by
    simp only [allPeersOf]; rw [ho2 .rcpt (by decide)]; exact hm .rcpt
  rw [loopServe_eq .rcpt m p limit cap fin known np total _ hnp hm2]
  generalize hs2 : gserve .body p limit cap s = s2 at g2 f2 ho2 hla2 hdm2 hp2
  have hl2 : limit ≤ s2.cfg.cacheLen := by rw [f2.cfg]; exact hl
  obtain ⟨g4, f4, ho4, hla4, hdm4, hp4⟩ := gserve_facts (k := .rcpt) (cap := cap) g2 hl2 hla2
  generalize hs4 : gserve .rcpt p limit cap s2 = s4 at g4 f4 ho4 hla4 hdm4 hp4
  have hsched4 : s4.sched = s.sched := f4.sched.trans f2.sched
  have hret4 : s4.ret = s.ret := f4.ret.trans f2.ret
  have hoff4 : s4.offset = s.offset := f4.offset.trans f2.offset
  have hcfg4 : s4.cfg = s.cfg := f4.cfg.trans f2.cfg
  have g5 : Good (results s4).1 := good_step g4 .results trivial
  refine ⟨g5, (results_sched s4).trans hsched4, (results_cfg s4).trans hcfg4,
    by rw [results_lacking]; exact hla4, ?_, ?_, ?_⟩
  · intro k
    rw [results_pend]
    cases k with
    | body => rw [ho4 .body (by decide)]; exact hp2
    | rcpt => exact hp4
  · rw [results_ret, hret4, List.length_append]; omega
  · intro hout
    rw [results_ret, hret4, List.length_append]
    have hlt : s.ret.length < s.sched.length := hout
    let x0 := s.sched[s.ret.length]
    have hx0s : x0 ∈ s.sched := List.getElem_mem hlt
    have hx0n : x0.num = s.offset := by
      have := hg.inv.schedNum s.ret.length x0 (List.getElem?_eq_getElem hlt)
      rw [hg.inv.offsetEq]; exact this
    have hb2 : x0 ∈ (s2.pools .body).done := by
      rw [← hs2]
      exact gserve_head_done hg (Or.inl rfl) x0 hx0s hx0n hc hl0 hl hcnt hlack
    have hb4 : x0 ∈ (s4.pools .body).done := by rw [ho4 .body (by decide)]; exact hb2
    have hr4 : s4.cfg.fast = true → x0 ∈ (s4.pools .rcpt).done := by
      intro hf
      have hf2 : s2.cfg.fast = true := by rw [← f4.cfg]; exact hf
      rw [← hs4]
      exact gserve_head_done g2 (Or.inr hf2) x0 (by rw [f2.sched]; exact hx0s) (by rw [f2.offset]; exact hx0n)
        (by rw [f2.cfg]; exact hc) hl0 hl2 hcnt hla2
    obtain ⟨r, hr⟩ := g4.inv.doneCached .body x0 hb4
    have hrh : r.header = x0 := g4.inv.entry_header (by rw [hsched4]; exact hx0s) hr
    have hpend : r.pending ≤ 0 := by
      rw [(g4.inv.cacheOK _ _ hr).pending, hrh]
      simp only [pendingSpec, hb4, if_true]
      cases hf : s4.cfg.fast with
      | true => simp [hr4 hf]
      | false => simp
    have hne : (results s4).2 ≠ [] := by
      have hr' : cget s4.cache s4.offset = some r := by rw [hoff4, ← hx0n]; exact hr
      have hc4 : 0 < s4.cfg.cacheLen := by rw [hcfg4]; exact hc
      have hm4 : 0 < s4.cfg.maxProc := by rw [hcfg4]; exact hmp
      simp only [results]
      obtain ⟨c, hc'⟩ : ∃ c, s4.cfg.cacheLen = c + 1 := ⟨s4.cfg.cacheLen - 1, by omega⟩
      have h1 : 1 ≤ countProc s4.cache s4.offset s4.cfg.cacheLen 0 := by
        rw [hc']
        simp only [countProc, Nat.add_zero, hr']
        have : ¬ r.pending > 0 := by omega
        simp only [this, if_false]; omega
      obtain ⟨n, hn⟩ : ∃ n, min (countProc s4.cache s4.offset s4.cfg.cacheLen 0) s4.cfg.maxProc = n + 1 :=
        ⟨min (countProc s4.cache s4.offset s4.cfg.cacheLen 0) s4.cfg.maxProc - 1, by omega⟩
      rw [hn]
      simp [takeResults, hr']
    have : 0 < (results s4).2.length := List.length_pos_iff.mpr hne
    omega

theorem loop_rounds_progress (m p limit cap : Nat) (fin : Bool) (known : List Nat) (np total : Nat) (hnp : np ≠ 0) :
    ∀ (n : Nat) (s : State), Good s → (∀ k, m ∉ allPeersOf s k) → 0 < s.cfg.cacheLen → 0 < s.cfg.maxProc →
      0 < limit → limit ≤ s.cfg.cacheLen → 0 < cap → lget s.lacking p = [] →
      Good (loopRounds m p limit cap fin known np total n s) ∧
      (loopRounds m p limit cap fin known np total n s).sched = s.sched ∧
      min s.sched.length (s.ret.length + n) ≤ (loopRounds m p limit cap fin known np total n s).ret.length := by
  intro n
  induction n with
  | zero => intro s hg _ _ _ _ _ _ _; exact ⟨hg, rfl, by simp [loopRounds]; omega⟩
  | succ n ih =>
    intro s hg hm hc hmp hl0 hl hcnt hlack
    obtain ⟨g', hs', hcfg', hla', hp', hle, hstep⟩ :=
      loop_round_progress hg m p limit cap fin known np total hnp hm hc hmp hl0 hl hcnt hlack
    have hm' : ∀ k, m ∉ allPeersOf (loopRound m p limit cap fin known np total s) k := by
      intro k; simp only [allPeersOf, hp' k]; simp
    obtain ⟨g'', hs'', hret''⟩ := ih _ g' hm' (by rw [hcfg']; exact hc) (by rw [hcfg']; exact hmp)
      hl0 (by rw [hcfg']; exact hl) hcnt hla'
    refine ⟨g'', hs''.trans hs', ?_⟩
    show min s.sched.length (s.ret.length + (n + 1)) ≤
      (loopRounds m p limit cap fin known np total n (loopRound m p limit cap fin known np total s)).ret.length
    rw [hs'] at hret''
    by_cases hout : s.ret.length < s.sched.length
    · have := hstep hout; omega
    · omega

end YouVerif.C18
